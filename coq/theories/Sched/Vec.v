(** Vectors of resources (numpy arrays of the configured dimension) and small
    association-list utilities with Python dict semantics. Model file: no proofs. *)
From Coq Require Import ZArith List Bool.
Import ListNotations.
Open Scope Z_scope.

Definition vec := list Z.

Fixpoint vmap2 (f : Z -> Z -> Z) (a b : vec) : vec :=
  match a, b with
  | x :: a', y :: b' => f x y :: vmap2 f a' b'
  | _, _ => []
  end.
Definition vadd := vmap2 Z.add.
Definition vsub := vmap2 Z.sub.
Definition vmax := vmap2 Z.max.
Definition vzero (dim : nat) : vec := repeat 0 dim.

(** _all(op, l, r) / _any(op, l, r): short-circuit over zip *)
Fixpoint vall2 (p : Z -> Z -> bool) (a b : vec) : bool :=
  match a, b with
  | x :: a', y :: b' => p x y && vall2 p a' b'
  | _, _ => true
  end.
Fixpoint vany2 (p : Z -> Z -> bool) (a b : vec) : bool :=
  match a, b with
  | x :: a', y :: b' => p x y || vany2 p a' b'
  | _, _ => false
  end.
Definition all_lt := vall2 Z.ltb.
Definition all_le := vall2 Z.leb.
Definition all_ge := vall2 Z.geb.
Definition any_lt := vany2 Z.ltb.
Definition any_gt := vany2 Z.gtb.
Definition all_eq := vall2 Z.eqb.

(** association lists keyed by Z with dict semantics: update keeps position, insert appends *)
Section Assoc.
  Context {A : Type}.
  Fixpoint aget (k : Z) (m : list (Z * A)) : option A :=
    match m with
    | [] => None
    | (k', v) :: r => if Z.eqb k' k then Some v else aget k r
    end.
  Fixpoint aset (k : Z) (v : A) (m : list (Z * A)) : list (Z * A) :=
    match m with
    | [] => [(k, v)]
    | (k', w) :: r => if Z.eqb k' k then (k', v) :: r else (k', w) :: aset k v r
    end.
  Fixpoint adel (k : Z) (m : list (Z * A)) : list (Z * A) :=
    match m with
    | [] => []
    | (k', w) :: r => if Z.eqb k' k then r else (k', w) :: adel k r
    end.
End Assoc.

Fixpoint zmem (x : Z) (l : list Z) : bool :=
  match l with [] => false | y :: t => Z.eqb y x || zmem x t end.
Fixpoint zremove (x : Z) (l : list Z) : list Z :=
  match l with [] => [] | y :: t => if Z.eqb y x then t else y :: zremove x t end.
Definition zadd_set (x : Z) (l : list Z) : list Z := if zmem x l then l else l ++ [x].

(** collections.Counter get with default 0 *)
Definition cget (k : Z) (m : list (Z * Z)) : Z := match aget k m with Some v => v | None => 0 end.
Definition cadd (k : Z) (d : Z) (m : list (Z * Z)) : list (Z * Z) := aset k (cget k m + d) m.
Fixpoint cadd_all (ds : list (Z * Z)) (sign : Z) (m : list (Z * Z)) : list (Z * Z) :=
  match ds with [] => m | (k, d) :: r => cadd_all r sign (cadd k (sign * d) m) end.

Definition opt_eqb (a b : option Z) : bool :=
  match a, b with
  | None, None => true
  | Some x, Some y => Z.eqb x y
  | _, _ => false
  end.
