(** Every reachable state: the invariants together, and the end-of-cycle theorems of C03/C05/C08 stated for
    every history of the operation alphabet (no hypothesis on the state other than that it was reached). *)
From Coq Require Import ZArith QArith List Bool Lia.
From RecordUpdate Require Import RecordSet.
From TM Require Import Sched.Vec Sched.Types Sched.Queue Sched.Tree Sched.Cycle Sched.Events Sched.Steps Sched.MapsP
                       Sched.FrameP Sched.InvAcct Sched.InvIdent Sched.TurnP Sched.CycleP Sched.InvAlloc Sched.InvIdRec
                       Sched.KeepP Sched.IdRange Sched.InvAff Sched.DisplaceP Sched.DisplaceC.
Import ListNotations.
Open Scope Z_scope.

Definition Good (c : cell) : Prop := Acct c /\ IdentG c /\ AllocWf c /\ IdRec c.

(** the side conditions on operations: those of the accounting invariant (a new server or instance has a fresh
    name, vectors of the cell's dimension, a new instance record is not placed) and of the identity invariant
    (a new instance record holds no identity, group counts are non-negative) *)
Definition wf_op_all (c : cell) (o : op) : Prop := wf_op c o /\ wf_op_id c o.
Fixpoint wf_ops_all (c : cell) (ops : list op) : Prop :=
  match ops with [] => True | o :: r => wf_op_all c o /\ wf_ops_all (step c o) r end.

Lemma Good_init dim root level : Good (init_cell dim root level).
Proof.
  split; [apply Acct_init|]. split; [apply IdentG_init|]. split; [apply AllocWf_init|].
  intros x a Ha. cbn in Ha. discriminate.
Qed.

Theorem Good_step c o : wf_op_all c o -> Good c -> Good (step c o).
Proof.
  intros [W1 W2] (HA & HI & HW & HR).
  split; [apply Acct_step; assumption|]. split; [apply IdentG_step; assumption|]. split; [apply AllocWf_step_any; exact HW|].
  apply IdRec_step; [exact W1|exact W2| |exact HA|exact (proj1 HI)|exact HR].
  intros ch _. apply AllocWf_parts_wf. exact HW.
Qed.

Theorem Good_run ops : forall c, wf_ops_all c ops -> Good c -> Good (run c ops).
Proof.
  induction ops as [|o r IH]; intros c Hwf H; cbn; [exact H|]. destruct Hwf as [H1 H2].
  apply IH; [exact H2|apply Good_step; assumption].
Qed.

Definition reachable (c : cell) : Prop :=
  exists dim root level ops, wf_ops_all (init_cell dim root level) ops /\ c = run (init_cell dim root level) ops.
Lemma reachable_Good c : reachable c -> Good c.
Proof. intros (dim & root & level & ops & Hwf & ->). apply Good_run; [exact Hwf|apply Good_init]. Qed.

(** histories compose *)
Lemma wf_ops_all_app ops1 : forall c ops2,
  wf_ops_all c (ops1 ++ ops2) <-> wf_ops_all c ops1 /\ wf_ops_all (run c ops1) ops2.
Proof.
  induction ops1 as [|o r IH]; intros c ops2; cbn [Datatypes.app wf_ops_all run fold_left]; [tauto|].
  rewrite IH. unfold run. tauto.
Qed.
Lemma run_app c ops1 ops2 : run c (ops1 ++ ops2) = run (run c ops1) ops2.
Proof. unfold run. apply fold_left_app. Qed.

Lemma reachable_run c ops : reachable c -> wf_ops_all c ops -> reachable (run c ops).
Proof.
  intros (dim & root & level & ops0 & W0 & ->) W. exists dim, root, level, (ops0 ++ ops). split.
  - apply wf_ops_all_app. split; assumption.
  - symmetry. apply run_app.
Qed.

(** the instance records after a cycle are those before it (no instance is created or dropped by a cycle) *)
Lemma cycle_same_instances c ch x : app_of (fst (fst (schedule c ch))) x = None <-> app_of c x = None.
Proof.
  pose proof (psteps_names _ _ (schedule_ps c ch)) as Hn. split; apply names_none; [symmetry; exact Hn|exact Hn].
Qed.

(** C05 / C03 / C08, for every reachable state [c] and the cycle run from it *)
Theorem cycle_from_reachable c ch : Good c ->
  forall x a', app_of (fst (fst (schedule c ch))) x = Some a' ->
  exists a, app_of c x = Some a /\ after_cycle c a a'.
Proof.
  intros (HA & [HI _] & HW & HR) x a' Ha'.
  destruct (app_of c x) as [a|] eqn:Ea.
  2:{ apply (cycle_same_instances c ch x) in Ea. congruence. }
  exists a. split; [reflexivity|].
  destruct (schedule_final c ch HA HI (AllocWf_parts_wf c HW) x a (AllocWf_listed c HW x a Ea) Ea (HR x a Ea)) as (a2 & Ha2 & Hac).
  rewrite Ha' in Ha2. inversion Ha2; subst a2. exact Hac.
Qed.

Lemma step_schedule c ch : step c (OSchedule ch) = fst (fst (schedule c ch)).
Proof. cbn [step]. destruct (schedule c ch) as [[c' qs] pl]. reflexivity. Qed.

(** C05 at the end of every cycle run from a reachable state *)
Theorem end_of_cycle_identities c ch : Good c ->
  forall x a', app_of (step c (OSchedule ch)) x = Some a' ->
    (a_server a' = None -> no_id a') /\ (a_server a' <> None -> has_id a') /\
    (forall g i k, holds a' g i -> gcount (step c (OSchedule ch)) g = Some k -> 0 <= i < k).
Proof.
  intros HG x a' Ha'. rewrite step_schedule in *.
  destruct (cycle_from_reachable c ch HG x a' Ha') as (a & Ha & (_ & H1 & H2 & _)).
  split; [exact H1|]. split; [exact H2|]. intros g i k Hh Hk.
  destruct HG as (_ & [HI _] & _). split.
  - eapply (id_held_nonneg _ (Ident_schedule c ch HI)); [exact Ha'|exact Hh].
  - eapply (schedule_in_range c ch HI); eassumption.
Qed.

(** C03, first sentence: a cycle run from a reachable state assigns an instance to a server other than the one
    it was on only if that server is up and satisfies partition, traits and lease lifetime of the instance *)
Theorem new_assignment c ch : Good c ->
  forall x a a' n, app_of c x = Some a -> app_of (step c (OSchedule ch)) x = Some a' ->
    a_server a' = Some n -> a_server a <> Some n ->
    exists s, get_srv n (c_servers c) = Some s /\ s_state s = Up /\ guard_facts c s a.
Proof.
  intros HG x a a' n Ha Ha' Hn Hne. rewrite step_schedule in *.
  destruct (cycle_from_reachable c ch HG x a' Ha') as (a1 & Ha1 & (_ & _ & _ & H4)).
  rewrite Ha in Ha1. inversion Ha1; subst a1. exact (H4 n Hn Hne).
Qed.

(** boolean side conditions, for concrete histories *)
Definition wf_op_idb (c : cell) (o : op) : bool :=
  match o with
  | OAddApp label path a =>
      match get_app (a_name a) (c_apps c) with
      | None => match a_identity a with None => true | Some _ => false end
      | Some _ => true
      end
  | OConfigGroup g count => Z.leb 0 count
  | ORestore sname aname verbatim expires ident =>
      match get_app aname (c_apps c) with
      | None => true
      | Some a =>
          match ident with
          | Some i =>
              Z.leb 0 i &&
              match a_group a with
              | Some g => forallb (fun b => Z.eqb (a_name b) aname
                                            || negb (opt_eqb (a_group b) (Some g) && opt_eqb (a_identity b) (Some i))) (c_apps c)
              | None => false
              end
          | None => match a_group a, a_identity a with Some _, None => false | _, _ => true end
          end
      end
  | _ => true
  end.
Lemma opt_eqb_eq o z : opt_eqb o (Some z) = true <-> o = Some z.
Proof.
  destruct o as [y|]; cbn; [rewrite Z.eqb_eq|]; split; intros H; try discriminate; [subst|inversion H]; reflexivity.
Qed.
Lemma wf_op_idb_sound c o : wf_op_idb c o = true -> wf_op_id c o.
Proof.
  destruct o; cbn [wf_op_idb wf_op_id]; try (intros; exact I).
  - intros H E. rewrite E in H. destruct (a_identity a); [discriminate|reflexivity].
  - intros H. apply Z.leb_le. exact H.
  - destruct ident as [i|].
    + intros H a Ha. rewrite Ha in H. apply andb_true_iff in H as [H0 H1]. split; [apply Z.leb_le; exact H0|].
      destruct (a_group a) as [g|]; [|discriminate]. exists g. split; [reflexivity|].
      intros n2 b Hne Hb [Hh1 Hh2]. rewrite forallb_forall in H1. specialize (H1 b (get_app_In _ _ _ Hb)).
      rewrite (MapsP.get_app_name _ _ _ Hb) in H1. destruct (Z.eqb_spec n2 aname); [contradiction|]. cbn [orb] in H1.
      apply negb_true_iff in H1. rewrite (proj2 (opt_eqb_eq _ _) Hh1), (proj2 (opt_eqb_eq _ _) Hh2) in H1. discriminate.
    + intros H a Ha. rewrite Ha in H. destruct (a_group a); [|left; reflexivity].
      destruct (a_identity a); [right; discriminate|discriminate].
Qed.
Fixpoint wf_ops_allb (c : cell) (ops : list op) : bool :=
  match ops with [] => true | o :: r => wf_opb c o && wf_op_idb c o && wf_ops_allb (step c o) r end.
Lemma wf_ops_allb_sound ops : forall c, wf_ops_allb c ops = true -> wf_ops_all c ops.
Proof.
  induction ops as [|o r IH]; intros c H; cbn [wf_ops_allb wf_ops_all] in *; [exact I|].
  apply andb_true_iff in H as [H12 H3]. apply andb_true_iff in H12 as [H1 H2].
  split; [split; [apply wf_opb_sound; exact H1|apply wf_op_idb_sound; exact H2]|apply IH; exact H3].
Qed.

(** C08 for every reachable state *)
Theorem reachable_keeps c ch x a n s : Good c -> prot c x a n s -> s_state s <> Up -> a_renew a = false ->
  (forall label q e, In (label, q) (snd (fst (schedule c ch))) -> In e q -> e_app e = x -> e_rank e <> UNPLACED_RANK) ->
  exists a', app_of (step c (OSchedule ch)) x = Some a' /\ a_server a' = Some n /\ a_expiry a' = a_expiry a /\
             a_identity a' = a_identity a.
Proof.
  intros (HA & _) HP Hst Hren Hrank. rewrite step_schedule.
  destruct (schedule_keeps c ch x a n s HA HP Hst Hren Hrank) as (a' & Ha' & (Hd & Hsv & Hex & _)).
  exists a'. split; [exact Ha'|]. split; [rewrite Hsv; apply (pr_srv _ _ _ _ _ HP)|]. split; [exact Hex|].
  destruct Hd as (_ & _ & _ & _ & _ & _ & _ & _ & _ & _ & _ & _ & _ & Hi). exact Hi.
Qed.

Theorem reachable_moves c ch x a n s : Good c ->
  app_of c x = Some a -> a_server a = Some n -> get_srv n (c_servers c) = Some s ->
  (s_state s = Down /\ expired c (s_since s) a = true) \/ (s_state s = Frozen /\ a_unschedule a = true) ->
  exists a', app_of (step c (OSchedule ch)) x = Some a' /\ a_server a' <> Some n.
Proof.
  intros (HA & [HI _] & HW & HR) Ha Hsv Hs Hmove. rewrite step_schedule.
  exact (schedule_moves c ch x a n s HA HI (AllocWf_parts_wf c HW) (AllocWf_listed c HW x a Ha) Ha (HR x a Ha) Hsv Hs Hmove).
Qed.

Theorem reachable_blacklisted c ch x a : Good c -> app_of c x = Some a -> a_blacklisted a = true ->
  exists a', app_of (step c (OSchedule ch)) x = Some a' /\ a_server a' = None /\ no_id a'.
Proof. intros (HA & [HI _] & _) Ha Hbl. rewrite step_schedule. exact (schedule_blacklisted c ch x a HA HI Ha Hbl). Qed.

(** C07 needs the affinity invariant as well (its side condition: instances of one affinity declare the same limits) *)
Definition reachableA (c : cell) : Prop :=
  exists dim root level ops, wf_ops_all (init_cell dim root level) ops /\ wf_ops_aff (init_cell dim root level) ops /\
                             c = run (init_cell dim root level) ops.
Lemma reachableA_Good c : reachableA c -> Good c /\ Aff c.
Proof.
  intros (dim & root & level & ops & Hwf & Hwa & ->). split; [apply Good_run; [exact Hwf|apply Good_init]|].
  exact (proj2 (AA_run ops _ Hwa (AA_init dim root level))).
Qed.

Theorem reachable_displaced c ch x a n s : reachableA c -> prot c x a n s -> a_renew a = false ->
  (forall l, app_label a = Some l -> l = s_label s) ->
  (app_traits c a = 0 \/ has_traits (s_traits s) (app_traits c a) = true) ->
  (forall label q e, In (label, q) (snd (fst (schedule c ch))) -> In e q -> e_app e = x -> e_rank e <> UNPLACED_RANK) ->
  (exists a', app_of (step c (OSchedule ch)) x = Some a' /\ a_server a' = Some n) \/
  (exists z az bz l1 l2 l3,
      turns (snd (fst (schedule c ch))) = l1 ++ z :: l2 ++ x :: l3 /\
      app_of c z = Some az /\ a_server az <> Some n /\
      app_of (step c (OSchedule ch)) z = Some bz /\ a_server bz = Some n).
Proof.
  intros Hr HP Hren Hlab Htr Hrank. destruct (reachableA_Good c Hr) as [(HA & [HI _] & HW & HR) HF]. rewrite step_schedule.
  apply (schedule_displaced c ch x a n s HA HF HI (AllocWf_parts_wf c HW)); try assumption.
  - apply (AllocWf_listed c HW x a). exact (pr_app _ _ _ _ _ HP).
  - apply (HR x a (pr_app _ _ _ _ _ HP)). rewrite (pr_srv _ _ _ _ _ HP). discriminate.
Qed.
