(** scheduler/__init__.py: Partition (reboot buckets), RebootBucket, reboot_dates - the code that COMPUTES a
    server's [valid_until] (its next reboot), which Sched/*.v takes as a given attribute ([OSetValidUntil]).

    Time stamps are Z (seconds).  Servers are Z ids (one id per Server OBJECT: RebootBucket.servers is a set of
    objects hashed by identity).  +inf (float('inf')) is [None] in [option Z].

    The date generator [reboot_dates] is seen by [tick]/[add] only through next(): it is a function
    [ds : nat -> Z] (n-th date it yields) and the partition keeps the number of dates consumed.  [sched_ds]
    below is that function for a weekly schedule {weekday -> (h, m, s)}, over day numbers (days since
    1970-01-01 local), the weekday of day 0 and the zone's constant standard offset being parameters
    (time.mktime is called with tm_isdst = 0; daylight-saving shifts of date.fromtimestamp are not modelled).

    [tick] takes explicit fuel (the first `while` has no structural bound): exhaustion is [TFuel], the
    IndexError of `self._reboot_buckets[0]` on an empty list is [TIndex]; both are excluded by the theorems of
    Sched/RebootP.v.  Model file: no proofs. *)
From Coq Require Import ZArith List Bool.
Import ListNotations.
Open Scope Z_scope.

(** * Constants (regenerated from the source by harness/tables_reboot.py, see Sched/RebootRun.v) *)
Record rconst := {
  rc_uptime : Z;            (* DEFAULT_SERVER_UPTIME *)
  rc_min : Z;               (* MIN_SERVER_UPTIME *)
  rc_def_hms : Z * Z * Z;   (* Partition.__init__: the default schedule's (h, m, s) *)
  rc_def_days : Z           (* ... for day in range(<this>) *)
}.

Definition rconst_canon : rconst :=
  {| rc_uptime := 1814400; rc_min := 86400; rc_def_hms := (23, 59, 59); rc_def_days := 7 |}.

Definition hms_eqb (a b : Z * Z * Z) : bool :=
  let '(h1, m1, s1) := a in let '(h2, m2, s2) := b in (h1 =? h2) && (m1 =? m2) && (s1 =? s2).

(** the values the statement needs: 21 days, 1 day, a default schedule on every weekday *)
Definition reboot_tables_ok (C : rconst) : bool :=
  (rc_uptime C =? 1814400) && (rc_min C =? 86400) && hms_eqb (rc_def_hms C) (23, 59, 59) && (rc_def_days C =? 7).

(** * Buckets *)
Record bucket := { b_ts : Z; b_srv : list Z }.

Record part := {
  p_buckets : list bucket;   (* _reboot_buckets *)
  p_last : Z;                (* _reboot_last *)
  p_idx : nat                (* number of dates taken from _reboot_dates *)
}.

Definition mem (s : Z) (l : list Z) : bool := existsb (Z.eqb s) l.

(** RebootBucket.add: set.add (the caller also assigns server.valid_until := timestamp) *)
Definition bucket_add (s : Z) (b : bucket) : bucket :=
  if mem s (b_srv b) then b else {| b_ts := b_ts b; b_srv := b_srv b ++ [s] |}.

(** RebootBucket.remove: set.remove, KeyError swallowed *)
Definition bucket_remove (s : Z) (b : bucket) : bucket :=
  {| b_ts := b_ts b; b_srv := filter (fun x => negb (x =? s)) (b_srv b) |}.

Definition load (b : bucket) : Z := Z.of_nat (length (b_srv b)).

(** RebootBucket.cost(server): inf above up_since + DEFAULT_SERVER_UPTIME, inf below up_since +
    MIN_SERVER_UPTIME, else len(self.servers) *)
Definition cost (C : rconst) (up : Z) (b : bucket) : option Z :=
  if b_ts b >? up + rc_uptime C then None
  else if b_ts b <? up + rc_min C then None
  else Some (load b).

(** Python's < on these keys (ints and float('inf')) *)
Definition clt (a b : option Z) : bool :=
  match a, b with
  | Some x, Some y => x <? y
  | Some _, None => true
  | None, _ => false
  end.

(** Python's min(iterable, key=...): the FIRST item, in iteration order, whose key is minimal (an item
    replaces the current one only when its key is strictly smaller) *)
Fixpoint pymin_go {A K : Type} (lt : K -> K -> bool) (key : A -> K) (best : A) (l : list A) : A :=
  match l with
  | [] => best
  | x :: r => pymin_go lt key (if lt (key x) (key best) then x else best) r
  end.
Definition pymin {A K : Type} (lt : K -> K -> bool) (key : A -> K) (l : list A) : option A :=
  match l with [] => None | x :: r => Some (pymin_go lt key x r) end.

(** buckets with their position *)
Definition enum (bs : list bucket) : list (nat * bucket) := combine (seq 0 (length bs)) bs.

(** Partition._find_bucket: position of the first bucket with that time stamp *)
Fixpoint find_idx (t : Z) (bs : list bucket) : option nat :=
  match bs with
  | [] => None
  | b :: r => if b_ts b =? t then Some 0%nat else option_map S (find_idx t r)
  end.

(** Partition.add up to `bucket.add(server)`: the position of the chosen bucket.
      bucket = None
      if timestamp: bucket = self._find_bucket(timestamp)            (None and 0 are falsy)
      if self._reboot_buckets[0].timestamp > server.up_since + DEFAULT_SERVER_UPTIME:
          bucket = self._reboot_buckets[0]                              (IndexError on an empty list: None here)
      if not bucket: bucket = min(reversed(self._reboot_buckets), key=lambda b: b.cost(server))  *)
(** `if timestamp: bucket = self._find_bucket(timestamp)` *)
Definition explicit_idx (ts : option Z) (bs : list bucket) : option nat :=
  match ts with
  | Some t => if t =? 0 then None else find_idx t bs
  | None => None
  end.

(** the first bucket is later than up_since + DEFAULT_SERVER_UPTIME ("reboot at the next opportunity") *)
Definition overdue (C : rconst) (up : Z) (bs : list bucket) : bool :=
  match bs with b0 :: _ => b_ts b0 >? up + rc_uptime C | [] => false end.

(** min(reversed(buckets), key=cost) as a position *)
Definition cheapest (C : rconst) (up : Z) (bs : list bucket) : option nat :=
  option_map fst (pymin clt (fun ib => cost C up (snd ib)) (rev (enum bs))).

Definition choose (C : rconst) (up : Z) (ts : option Z) (bs : list bucket) : option nat :=
  match bs with
  | [] => None
  | _ :: _ =>
      let found := if overdue C up bs then Some 0%nat else explicit_idx ts bs in
      match found with
      | Some i => Some i
      | None => cheapest C up bs
      end
  end.

Fixpoint upd_nth {A : Type} (i : nat) (f : A -> A) (l : list A) : list A :=
  match l, i with
  | [], _ => []
  | x :: r, O => f x :: r
  | x :: r, S j => x :: upd_nth j f r
  end.

Definition set_buckets (p : part) (bs : list bucket) : part :=
  {| p_buckets := bs; p_last := p_last p; p_idx := p_idx p |}.

(** Partition.add(server, timestamp): (the server's new valid_until, the partition); None = IndexError.
    The server is NOT taken out of a bucket it already sits in (the Loader calls remove first where needed). *)
Definition add (C : rconst) (s up : Z) (ts : option Z) (p : part) : option (Z * part) :=
  match choose C up ts (p_buckets p) with
  | None => None
  | Some i =>
      match nth_error (p_buckets p) i with
      | None => None
      | Some b => Some (b_ts b, set_buckets p (upd_nth i (bucket_add s) (p_buckets p)))
      end
  end.

(** Partition.remove(server) *)
Definition remove (s : Z) (p : part) : part := set_buckets p (map (bucket_remove s) (p_buckets p)).

(** * tick *)
Inductive tres := TOk (p : part) | TFuel | TIndex.

Definition push (ds : nat -> Z) (p : part) : part :=
  let t := ds (p_idx p) in
  {| p_buckets := p_buckets p ++ [{| b_ts := t; b_srv := [] |}]; p_last := t; p_idx := S (p_idx p) |}.

(** while self._reboot_last <= now + DEFAULT_SERVER_UPTIME: append RebootBucket(next(dates)) *)
Fixpoint extend (C : rconst) (ds : nat -> Z) (fuel : nat) (now : Z) (p : part) : option part :=
  if p_last p <=? now + rc_uptime C then
    match fuel with
    | O => None
    | S f => extend C ds f now (push ds p)
    end
  else Some p.

(** while self._reboot_buckets[0].timestamp < now: pop(0) *)
Fixpoint drop_old (now : Z) (bs : list bucket) : option (list bucket) :=
  match bs with
  | [] => None
  | b :: r => if b_ts b <? now then drop_old now r else Some bs
  end.

Definition tick (C : rconst) (ds : nat -> Z) (fuel : nat) (now : Z) (p : part) : tres :=
  match extend C ds fuel now p with
  | None => TFuel
  | Some p1 =>
      match drop_old now (p_buckets p1) with
      | None => TIndex
      | Some bs => TOk (set_buckets p1 bs)
      end
  end.

(** Partition.__init__ after the defaults: no bucket, _reboot_last = now, then tick(now) *)
Definition part0 (now : Z) : part := {| p_buckets := []; p_last := now; p_idx := 0 |}.
Definition init (C : rconst) (ds : nat -> Z) (fuel : nat) (now : Z) : tres := tick C ds fuel now (part0 now).

(** * reboot_dates for a weekly schedule *)
Definition sched := list (Z * (Z * Z * Z)).   (* items of {int(k): v}: a later item with the same key wins *)

Definition lookup (k : Z) (W : sched) : option (Z * Z * Z) :=
  fold_left (fun acc kv => if fst kv =? k then Some (snd kv) else acc) W None.

(** date.weekday() (Monday = 0) of day number d; wd0 = weekday of day 0 (3: 1970-01-01 was a Thursday) *)
Definition weekday (wd0 d : Z) : Z := (d + wd0) mod 7.

Definition tod (hms : Z * Z * Z) : Z := let '(h, m, s) := hms in h * 3600 + m * 60 + s.

(** time.mktime((y, m, d, h, m, s, 0, 0, 0)) in a zone [tz] seconds east of UTC (fields are not range-checked:
    mktime normalises linearly) *)
Definition day_ts (W : sched) (wd0 tz d : Z) : option Z :=
  match lookup (weekday wd0 d) W with
  | Some hms => Some (d * 86400 + tod hms - tz)
  | None => None
  end.

(** the first day >= d whose weekday is in the schedule; None after 7 days = the generator never yields
    (the `while True` of reboot_dates walks to date.max and ends in OverflowError, about 3 s later) *)
Fixpoint next_day (W : sched) (wd0 : Z) (fuel : nat) (d : Z) : option Z :=
  match fuel with
  | O => None
  | S f => match lookup (weekday wd0 d) W with
           | Some _ => Some d
           | None => next_day W wd0 f (d + 1)
           end
  end.

Fixpoint nth_day (W : sched) (wd0 d0 : Z) (n : nat) : option Z :=
  match n with
  | O => next_day W wd0 7 d0
  | S k => match nth_day W wd0 d0 k with
           | Some d => next_day W wd0 7 (d + 1)
           | None => None
           end
  end.

(** the n-th value of reboot_dates(W, start_date = day d0); 0 where the generator yields nothing (excluded by [sched_ok]) *)
Definition sched_ds (W : sched) (wd0 tz d0 : Z) (n : nat) : Z :=
  match nth_day W wd0 d0 n with
  | Some d => match day_ts W wd0 tz d with Some t => t | None => 0 end
  | None => 0
  end.

(** some weekday 0..6 is scheduled (else next() yields nothing: OverflowError at date.max) *)
Definition sched_live (W : sched) : bool :=
  existsb (fun k => match lookup k W with Some _ => true | None => false end) [0; 1; 2; 3; 4; 5; 6].

(** every scheduled time is a time of day *)
Definition sched_tod_ok (W : sched) : bool :=
  forallb (fun k => match lookup k W with Some hms => (0 <=? tod hms) && (tod hms <? 86400) | None => true end)
          [0; 1; 2; 3; 4; 5; 6].

Definition sched_ok (W : sched) : bool := sched_live W && sched_tod_ok W.

(** `if not reboot_schedule: reboot_schedule = {day: (23, 59, 59) for day in range(7)}` *)
Definition default_sched (C : rconst) : sched :=
  map (fun d => (Z.of_nat d, rc_def_hms C)) (seq 0 (Z.to_nat (rc_def_days C))).
Definition eff_sched (C : rconst) (W : sched) : sched := match W with [] => default_sched C | _ => W end.

(** datetime.date.fromtimestamp(now) as a day number *)
Definition start_day (tz now : Z) : Z := (now + tz) / 86400.

(** Partition(reboot_schedule = W, now = now) *)
Definition init_sched (C : rconst) (W : sched) (wd0 tz : Z) (fuel : nat) (now : Z) : tres :=
  init C (sched_ds (eff_sched C W) wd0 tz (start_day tz now)) fuel now.
