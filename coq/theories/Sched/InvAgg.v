(** C02: the premises of the completeness theorem (PutComplete.v) are invariants.
    [AggLocal] is the edge-by-edge form of [AggSound] (every node is covered by its parent bucket); together with
    [TreeWf] and the accounting invariant it is preserved by every operation, and it implies [AggSound]. *)
From Coq Require Import ZArith QArith List Bool Lia Relations.
From RecordUpdate Require Import RecordSet.
From TM Require Import Sched.Vec Sched.Types Sched.Queue Sched.Tree Sched.Cycle Sched.Steps Sched.MapsP Sched.FrameP
                       Sched.Events Sched.InvAcct Sched.PutComplete.
Import ListNotations.
Open Scope Z_scope.

(** ** vectors *)
Lemma vle_refl a : vle a a.
Proof. induction a; constructor; [lia|assumption]. Qed.
Lemma vle_trans a b : vle a b -> forall c, vle b c -> vle a c.
Proof.
  unfold vle. induction 1 as [|x y a b Hxy Hab IH]; intros c Hc; inversion Hc; subst; constructor; [lia|].
  apply IH. assumption.
Qed.
Lemma vle_length a b : vle a b -> length a = length b.
Proof. induction 1; cbn; congruence. Qed.
Lemma vmax_length a b : length b = length a -> length (vmax a b) = length a.
Proof. apply vmap2_length. Qed.
Lemma vle_vmax_l : forall a b, length b = length a -> vle a (vmax a b).
Proof. induction a as [|x a IH]; intros [|y b] H; cbn in *; try discriminate; constructor; [lia|apply IH; lia]. Qed.
Lemma vle_vmax_r : forall a b, length b = length a -> vle b (vmax a b).
Proof. induction a as [|x a IH]; intros [|y b] H; cbn in *; try discriminate; constructor; [lia|apply IH; lia]. Qed.
Lemma vle_vmax_lub : forall a b c, vle a c -> vle b c -> vle (vmax a b) c.
Proof.
  unfold vle. induction a as [|x a IH]; intros b c Ha Hb; inversion Ha; subst; inversion Hb; subst; cbn; constructor.
  - lia.
  - apply IH; assumption.
Qed.
Lemma nonneg_vmax_l : forall a b, nonneg a -> nonneg (vmax a b).
Proof.
  induction a as [|x a IH]; intros [|y b] H; cbn; try constructor; inversion H; subst; [lia|apply IH; assumption].
Qed.
Lemma nonneg_vzero n : nonneg (vzero n).
Proof. unfold vzero. induction n; cbn; constructor; [lia|assumption]. Qed.
Lemma vle_vzero : forall v n, length v = n -> nonneg v -> vle (vzero n) v.
Proof.
  induction v as [|x v IH]; intros n Hl Hn; subst n; cbn; constructor; inversion Hn; subst; [lia|apply IH; auto].
Qed.
Lemma vle_vsub : forall f d, length d = length f -> nonneg d -> vle (vsub f d) f.
Proof.
  induction f as [|x f IH]; intros [|y d] Hl Hn; cbn in *; try discriminate; constructor; inversion Hn; subst;
    [lia|apply IH; [lia|assumption]].
Qed.

(** ** trait masks *)
Lemma has_traits_lor_l a w t : has_traits a t = true -> has_traits (Z.lor a w) t = true.
Proof.
  unfold has_traits. rewrite !Z.eqb_eq. intros H. apply Z.bits_inj'. intros i Hi.
  pose proof (f_equal (fun z => Z.testbit z i) H) as Hb. cbn beta in Hb. rewrite Z.land_spec in Hb.
  rewrite Z.land_spec, Z.lor_spec.
  destruct (Z.testbit a i), (Z.testbit t i), (Z.testbit w i); cbn in *; congruence.
Qed.
Lemma has_traits_lor_r a v : has_traits (Z.lor a v) v = true.
Proof.
  unfold has_traits. rewrite Z.eqb_eq. apply Z.bits_inj'. intros i Hi. rewrite Z.land_spec, Z.lor_spec.
  destruct (Z.testbit a i), (Z.testbit v i); reflexivity.
Qed.
Lemma fold_traits_mono m : forall init t, has_traits init t = true ->
  has_traits (fold_left (fun acc (kv : Z * Z) => Z.lor acc (snd kv)) m init) t = true.
Proof. induction m as [|kv r IH]; intros init t H; cbn; [exact H|]. apply IH. apply has_traits_lor_l. exact H. Qed.
Lemma fold_traits_entry m : forall init n t, aget n m = Some t ->
  has_traits (fold_left (fun acc (kv : Z * Z) => Z.lor acc (snd kv)) m init) t = true.
Proof.
  induction m as [|[k v] r IH]; intros init n t; cbn; [discriminate|].
  destruct (Z.eqb k n).
  - intros H; inversion H; subst. apply fold_traits_mono. apply has_traits_lor_r.
  - apply IH.
Qed.
Lemma bkt_traits_entry b n t : aget n (b_child_traits b) = Some t -> has_traits (bkt_traits b) t = true.
Proof. apply fold_traits_entry. Qed.

(** ** labels *)
Lemma zadd_set_incl l acc : incl acc (zadd_set l acc) /\ In l (zadd_set l acc).
Proof.
  unfold zadd_set. destruct (zmem l acc) eqn:E.
  - split; [apply incl_refl|apply zmem_In; exact E].
  - split; [apply incl_appl, incl_refl|apply in_or_app; right; left; reflexivity].
Qed.
Lemma union_labels_incl add : forall have, incl have (union_labels have add) /\ incl add (union_labels have add).
Proof.
  unfold union_labels. induction add as [|l r IH]; intros have; cbn.
  - split; [apply incl_refl|intros x []].
  - destruct (IH (zadd_set l have)) as [H1 H2]. destruct (zadd_set_incl l have) as [H3 H4]. split.
    + eapply incl_tran; eassumption.
    + intros x [<-|Hx]; [apply H1; exact H4|apply H2; exact Hx].
Qed.

(** ** buckets that agree on a projection *)
Definition same_on {T} (proj : bucket -> T) (b b' : bucket) : Prop := b_name b' = b_name b /\ proj b' = proj b.
Lemma same_on_name {T} (proj : bucket -> T) b b' : same_on proj b b' -> b_name b' = b_name b.
Proof. intros H; apply H. Qed.
Lemma same_on_refl {T} (proj : bucket -> T) b : same_on proj b b.
Proof. split; reflexivity. Qed.
Lemma same_on_trans {T} (proj : bucket -> T) a b c : same_on proj a b -> same_on proj b c -> same_on proj a c.
Proof. intros [H1 H2] [H3 H4]. split; congruence. Qed.

Definition bkts_same {T} (proj : bucket -> T) (c c' : cell) : Prop :=
  Forall2 (same_on proj) (c_buckets c) (c_buckets c').
Lemma bkts_same_refl {T} (proj : bucket -> T) c : bkts_same proj c c.
Proof. apply Forall2_rel_refl, same_on_refl. Qed.
Lemma bkts_same_trans {T} (proj : bucket -> T) a b c : bkts_same proj a b -> bkts_same proj b c -> bkts_same proj a c.
Proof. intros H1 H2. eapply Forall2_rel_trans; [apply same_on_trans|exact H1|exact H2]. Qed.
Lemma bkts_same_upd {T} (proj : bucket -> T) n f c :
  (forall x, b_name (f x) = b_name x) -> (forall x, proj (f x) = proj x) -> bkts_same proj c (c_upd_bkt n f c).
Proof.
  intros H1 H2. unfold bkts_same, c_upd_bkt. cbn [c_buckets set].
  apply Forall2_upd_bkt; [apply same_on_refl|]. intros x. split; auto.
Qed.
Lemma bkts_same_get {T} (proj : bucket -> T) c c' m : bkts_same proj c c' ->
  match get_bkt m (c_buckets c), get_bkt m (c_buckets c') with
  | Some b, Some b' => same_on proj b b'
  | None, None => True
  | _, _ => False
  end.
Proof. intros H. apply (get_bkt_rel (same_on proj) (same_on_name proj) _ _ H). Qed.
Lemma bkts_same_fwd {T} (proj : bucket -> T) c c' m b : bkts_same proj c c' -> get_bkt m (c_buckets c) = Some b ->
  exists b', get_bkt m (c_buckets c') = Some b' /\ proj b' = proj b.
Proof.
  intros H Hb. pose proof (bkts_same_get proj c c' m H) as G. rewrite Hb in G.
  destruct (get_bkt m (c_buckets c')) as [b'|]; [exists b'; split; [reflexivity|apply G]|contradiction].
Qed.
Lemma bkts_same_bwd {T} (proj : bucket -> T) c c' m b' : bkts_same proj c c' -> get_bkt m (c_buckets c') = Some b' ->
  exists b, get_bkt m (c_buckets c) = Some b /\ proj b' = proj b.
Proof.
  intros H Hb. pose proof (bkts_same_get proj c c' m H) as G. rewrite Hb in G.
  destruct (get_bkt m (c_buckets c)) as [b|]; [exists b; split; [reflexivity|apply G]|contradiction].
Qed.
Lemma bkts_same_none {T} (proj : bucket -> T) c c' m : bkts_same proj c c' ->
  get_bkt m (c_buckets c) = None -> get_bkt m (c_buckets c') = None.
Proof.
  intros H Hb. pose proof (bkts_same_get proj c c' m H) as G. rewrite Hb in G.
  destruct (get_bkt m (c_buckets c')); [contradiction|reflexivity].
Qed.
Lemma bkts_same_length {T} (proj : bucket -> T) c c' : bkts_same proj c c' -> length (c_buckets c') = length (c_buckets c).
Proof. unfold bkts_same. induction 1; cbn; congruence. Qed.
Lemma bkts_same_weaken {T U} (proj : bucket -> T) (g : T -> U) c c' :
  bkts_same proj c c' -> bkts_same (fun b => g (proj b)) c c'.
Proof.
  unfold bkts_same. induction 1 as [|a b l l' [H1 H2] Hl IH]; constructor; [|exact IH].
  split; [exact H1|]. rewrite H2. reflexivity.
Qed.

(** what each upward walk leaves alone *)
Section Walks.
  Context {T : Type} (proj : bucket -> T).

  Lemma propagate_traits_same : (forall x v, proj (x <| b_child_traits := v |>) = proj x) ->
    forall fuel c n, bkts_same proj c (propagate_traits fuel c n).
  Proof.
    intros Hp. induction fuel as [|f IH]; intros c n; cbn [propagate_traits]; [apply bkts_same_refl|].
    destruct (get_bkt n (c_buckets c)) as [b|]; [|apply bkts_same_refl].
    destruct (b_parent b) as [p|]; [|apply bkts_same_refl].
    eapply bkts_same_trans; [|apply IH]. apply bkts_same_upd; [reflexivity|]. intros x. apply Hp.
  Qed.
  Lemma add_labels_same : (forall x v, proj (x <| b_labels := v |>) = proj x) ->
    forall fuel c n ls, bkts_same proj c (add_labels fuel c n ls).
  Proof.
    intros Hp. induction fuel as [|f IH]; intros c n ls; cbn [add_labels]; [apply bkts_same_refl|].
    destruct (get_bkt n (c_buckets c)) as [b|]; [|apply bkts_same_refl].
    assert (H1 : bkts_same proj c (c_upd_bkt n (fun x => x <| b_labels := union_labels (b_labels b) ls |>) c))
      by (apply bkts_same_upd; [reflexivity|intros x; apply Hp]).
    destruct (b_parent b) as [p|]; [|exact H1]. eapply bkts_same_trans; [exact H1|apply IH].
  Qed.
  Lemma bump_affinity_same : (forall x v, proj (x <| b_counters := v |>) = proj x) ->
    forall fuel c n ds sg, bkts_same proj c (bump_affinity fuel c n ds sg).
  Proof.
    intros Hp. induction fuel as [|f IH]; intros c n ds sg; cbn [bump_affinity]; [apply bkts_same_refl|].
    destruct (get_bkt n (c_buckets c)) as [b|]; [|apply bkts_same_refl].
    assert (H1 : bkts_same proj c (c_upd_bkt n (fun x => x <| b_counters ::= cadd_all ds sg |>) c))
      by (apply bkts_same_upd; [reflexivity|intros x; apply Hp]).
    destruct (b_parent b) as [p|]; [|exact H1]. eapply bkts_same_trans; [exact H1|apply IH].
  Qed.
  Lemma bump_from_same : (forall x v, proj (x <| b_counters := v |>) = proj x) ->
    forall c p ds sg, bkts_same proj c (bump_from c p ds sg).
  Proof. intros Hp c [p|] ds sg; cbn [bump_from]; [apply bump_affinity_same; exact Hp|apply bkts_same_refl]. Qed.
  Lemma adjust_up_same : (forall x v, proj (x <| b_free := v |>) = proj x) ->
    forall fuel c n v, bkts_same proj c (adjust_up fuel c n v).
  Proof.
    intros Hp. induction fuel as [|f IH]; intros c n v; cbn [adjust_up]; [apply bkts_same_refl|].
    destruct (get_bkt n (c_buckets c)) as [b|]; [|apply bkts_same_refl].
    assert (H1 : bkts_same proj c (c_upd_bkt n (fun x => x <| b_free := vmax (b_free b) v |>) c))
      by (apply bkts_same_upd; [reflexivity|intros x; apply Hp]).
    destruct (b_parent b) as [p|]; [|exact H1]. eapply bkts_same_trans; [exact H1|apply IH].
  Qed.
  Lemma adjust_down_same : (forall x v, proj (x <| b_free := v |>) = proj x) ->
    forall fuel c n pv, bkts_same proj c (adjust_down fuel c n pv).
  Proof.
    intros Hp. induction fuel as [|f IH]; intros c n pv; cbn [adjust_down]; [apply bkts_same_refl|].
    destruct (get_bkt n (c_buckets c)) as [b|]; [|apply bkts_same_refl].
    destruct (live_children (b_children b)) as [|k ks].
    - assert (H1 : bkts_same proj c (c_upd_bkt n (fun x => x <| b_free := vzero (c_dim c) |>) c))
        by (apply bkts_same_upd; [reflexivity|intros x; apply Hp]).
      destruct (b_parent b) as [p|]; [|exact H1]. eapply bkts_same_trans; [exact H1|apply IH].
    - destruct (match pv with Some v => all_lt v (b_free b) | None => false end); [apply bkts_same_refl|].
      destruct (any_lt _ _); [|apply bkts_same_refl].
      match goal with |- bkts_same _ _ (match _ with Some p => adjust_down _ ?c1 _ _ | None => _ end) =>
        assert (H1 : bkts_same proj c c1) by (apply bkts_same_upd; [reflexivity|intros x; apply Hp]) end.
      destruct (b_parent b) as [p|]; [|exact H1]. eapply bkts_same_trans; [exact H1|apply IH].
  Qed.
  Lemma set_cursor_same : (forall x v, proj (x <| b_cursors := v |>) = proj x) ->
    forall c n aff i, bkts_same proj c (set_cursor c n aff i).
  Proof. intros Hp c n aff i. apply bkts_same_upd; [reflexivity|intros x; apply Hp]. Qed.
End Walks.

(** ** projections *)
Definition pskel (b : bucket) := (b_parent b, b_children b).
Definition pfree (b : bucket) := (b_parent b, b_free b).
Definition plab (b : bucket) := (b_parent b, b_labels b).
Definition ptr (b : bucket) := (b_parent b, b_self_traits b, b_child_traits b).

Lemma bkts_same_names {T} (proj : bucket -> T) c c' : bkts_same proj c c' -> map b_name (c_buckets c') = map b_name (c_buckets c).
Proof. unfold bkts_same. induction 1 as [|a b l l' [H1 H2] Hl IH]; cbn; congruence. Qed.

(** ** parent chains *)
Lemma up_ok_same c c' : bkts_same pskel c c' -> forall k n, up_ok k c' n = up_ok k c n.
Proof.
  intros H. induction k as [|k IH]; intros n; cbn [up_ok]; [reflexivity|].
  pose proof (bkts_same_get pskel c c' n H) as G.
  destruct (get_bkt n (c_buckets c)) as [b|], (get_bkt n (c_buckets c')) as [b'|]; try contradiction; [|reflexivity].
  destruct G as [_ G]. inversion G as [[G1 G2]]. rewrite G1. destruct (b_parent b); [apply IH|reflexivity].
Qed.
Lemma up_ok_mono c : forall k n, up_ok k c n = true -> up_ok (S k) c n = true.
Proof.
  induction k as [|k IH]; intros n; [discriminate|]. cbn [up_ok] in *.
  destruct (get_bkt n (c_buckets c)) as [b|]; [|discriminate]. destruct (b_parent b) as [p|]; [|reflexivity].
  intros H. apply IH in H. exact H.
Qed.
Lemma up_ok_no_self c : forall k n b, up_ok k c n = true -> get_bkt n (c_buckets c) = Some b -> b_parent b <> Some n.
Proof.
  induction k as [|k IH]; intros n b; [discriminate|]. cbn [up_ok]. intros H Hb Hp. rewrite Hb, Hp in H.
  exact (IH n b H Hb Hp).
Qed.
Lemma up_ok_parent c k n b p : up_ok (S k) c n = true -> get_bkt n (c_buckets c) = Some b -> b_parent b = Some p ->
  up_ok k c p = true.
Proof. cbn [up_ok]. intros H Hb Hp. rewrite Hb, Hp in H. exact H. Qed.
Lemma up_ok_bkt c k n : up_ok k c n = true -> exists b, get_bkt n (c_buckets c) = Some b.
Proof. destruct k; cbn; [discriminate|]. destruct (get_bkt n (c_buckets c)); [eauto|discriminate]. Qed.

Lemma TreeWf_fuel c n b : TreeWf c -> get_bkt n (c_buckets c) = Some b -> up_ok (depth_fuel c) c n = true.
Proof. intros W Hb. unfold depth_fuel. apply up_ok_mono. eapply tw_depth; eassumption. Qed.
Lemma TreeWf_no_self c n b : TreeWf c -> get_bkt n (c_buckets c) = Some b -> b_parent b <> Some n.
Proof. intros W Hb. eapply up_ok_no_self; [eapply tw_depth; eassumption|exact Hb]. Qed.

(** ** the tree only reads names, parents and children *)
Definition srv_skel (c c' : cell) : Prop :=
  forall m, match get_srv m (c_servers c), get_srv m (c_servers c') with
            | Some s, Some s' => s_parent s' = s_parent s
            | None, None => True
            | _, _ => False
            end.
Lemma srv_skel_refl c c' : c_servers c' = c_servers c -> srv_skel c c'.
Proof. intros E m. rewrite E. destruct (get_srv m (c_servers c)); reflexivity. Qed.
Lemma srv_skel_upd c n f : (forall x, s_name (f x) = s_name x) -> (forall x, s_parent (f x) = s_parent x) ->
  srv_skel c (c_upd_srv n f c).
Proof.
  intros H1 H2 m. unfold c_upd_srv. cbn [c_servers set]. destruct (Z.eq_dec m n) as [->|Hne].
  - destruct (get_srv n (c_servers c)) as [s|] eqn:E.
    + rewrite (get_upd_srv_same _ _ _ _ H1 E). apply H2.
    + assert (G : get_srv n (upd_srv n f (c_servers c)) = None).
      { clear -E H1. induction (c_servers c) as [|x t IH]; cbn in *; [reflexivity|].
        destruct (Z.eqb_spec (s_name x) n); [discriminate|]. cbn. destruct (Z.eqb_spec (s_name x) n); [contradiction|auto]. }
      rewrite G. exact I.
  - rewrite get_upd_srv_other by assumption. destruct (get_srv m (c_servers c)); reflexivity.
Qed.
Lemma srv_skel_fwd c c' m s : srv_skel c c' -> get_srv m (c_servers c) = Some s ->
  exists s', get_srv m (c_servers c') = Some s' /\ s_parent s' = s_parent s.
Proof. intros H Hs. specialize (H m). rewrite Hs in H. destruct (get_srv m (c_servers c')); [eauto|contradiction]. Qed.
Lemma srv_skel_bwd c c' m s' : srv_skel c c' -> get_srv m (c_servers c') = Some s' ->
  exists s, get_srv m (c_servers c) = Some s /\ s_parent s' = s_parent s.
Proof. intros H Hs. specialize (H m). rewrite Hs in H. destruct (get_srv m (c_servers c)); [eauto|contradiction]. Qed.
Lemma srv_skel_none c c' m : srv_skel c c' -> get_srv m (c_servers c) = None -> get_srv m (c_servers c') = None.
Proof. intros H Hs. specialize (H m). rewrite Hs in H. destruct (get_srv m (c_servers c')); [contradiction|reflexivity]. Qed.

Lemma TreeWf_skel c c' : srv_skel c c' -> bkts_same pskel c c' -> TreeWf c -> TreeWf c'.
Proof.
  intros HS HB W. constructor.
  - rewrite (bkts_same_names _ _ _ HB). apply (tw_bnames _ W).
  - intros n s' Hs'. destruct (srv_skel_bwd _ _ _ _ HS Hs') as (s & Hs & _).
    eapply bkts_same_none; [exact HB|]. eapply tw_disj; eassumption.
  - intros p b' m Hb' Hin. destruct (bkts_same_bwd _ _ _ _ _ HB Hb') as (b & Hb & E). inversion E as [[E1 E2]].
    rewrite E2 in Hin. destruct (tw_child _ W _ _ _ Hb Hin) as [(s & Hs & Hp)|(b0 & Hb0 & Hp)].
    + left. destruct (srv_skel_fwd _ _ _ _ HS Hs) as (s' & Hs' & Ep). exists s'. split; [exact Hs'|congruence].
    + right. destruct (bkts_same_fwd _ _ _ _ _ HB Hb0) as (b0' & Hb0' & E0). inversion E0 as [[E3 E4]].
      exists b0'. split; [exact Hb0'|congruence].
  - intros n s' p Hs' Hp. destruct (srv_skel_bwd _ _ _ _ HS Hs') as (s & Hs & Ep). rewrite Ep in Hp.
    destruct (tw_sparent _ W _ _ _ Hs Hp) as (b & Hb & Hin).
    destruct (bkts_same_fwd _ _ _ _ _ HB Hb) as (b' & Hb' & E). inversion E as [[E1 E2]].
    exists b'. split; [exact Hb'|rewrite E2; exact Hin].
  - intros n b0' p Hb0' Hp. destruct (bkts_same_bwd _ _ _ _ _ HB Hb0') as (b0 & Hb0 & E0). inversion E0 as [[E3 E4]].
    rewrite E3 in Hp. destruct (tw_bparent _ W _ _ _ Hb0 Hp) as (b & Hb & Hin).
    destruct (bkts_same_fwd _ _ _ _ _ HB Hb) as (b' & Hb' & E). inversion E as [[E1 E2]].
    exists b'. split; [exact Hb'|rewrite E2; exact Hin].
  - intros n b' Hb'. destruct (bkts_same_bwd _ _ _ _ _ HB Hb') as (b & Hb & _).
    rewrite (bkts_same_length _ _ _ HB), (up_ok_same _ _ HB). eapply tw_depth; eassumption.
Qed.

(** ** what a node shows to its parent *)
Record nview := mkView { nv_parent : option Z; nv_free : option vec; nv_labels : list Z; nv_traits : Z }.
Definition bview (b : bucket) : nview := mkView (b_parent b) (Some (b_free b)) (b_labels b) (bkt_traits b).
Definition sview (s : server) : nview :=
  mkView (s_parent s) (match s_state s with Up => Some (s_free s) | _ => None end) [s_label s] (s_traits s).
Definition view (c : cell) (m : Z) : option nview :=
  match get_srv m (c_servers c) with
  | Some s => Some (sview s)
  | None => option_map bview (get_bkt m (c_buckets c))
  end.

Definition SDims (c : cell) : Prop := forall n s, get_srv n (c_servers c) = Some s -> length (s_free s) = c_dim c.
Definition BDims (c : cell) : Prop :=
  forall n b, get_bkt n (c_buckets c) = Some b -> length (b_free b) = c_dim c /\ nonneg (b_free b).

(** the optional argument names a bucket whose own update is still pending *)
Definition FreeEdges (c : cell) (exc : option (Z * vec)) : Prop :=
  forall m w p b f, view c m = Some w -> nv_parent w = Some p -> get_bkt p (c_buckets c) = Some b ->
    nv_free w = Some f ->
    vle f (match exc with
           | Some (n, v) => if Z.eqb p n then vmax (b_free b) v else b_free b
           | None => b_free b
           end).
Definition LabelEdges (c : cell) (exc : option (Z * list Z)) : Prop :=
  forall m w p b, view c m = Some w -> nv_parent w = Some p -> get_bkt p (c_buckets c) = Some b ->
    incl (nv_labels w) (match exc with
                        | Some (n, L) => if Z.eqb p n then union_labels (b_labels b) L else b_labels b
                        | None => b_labels b
                        end).
(** here the exception is the child whose entry in its parent is stale *)
Definition TraitEdges (c : cell) (exc : option Z) : Prop :=
  forall m w p b, view c m = Some w -> nv_parent w = Some p -> get_bkt p (c_buckets c) = Some b ->
    exc <> Some m ->
    exists t, aget m (b_child_traits b) = Some t /\ has_traits t (nv_traits w) = true.

Definition AggLocal (c : cell) : Prop :=
  BDims c /\ FreeEdges c None /\ LabelEdges c None /\ TraitEdges c None.

(** ** the local form implies the statement about whole chains *)
Lemma anc_start c start b : anc c start b -> exists p b0, start = Some p /\ get_bkt p (c_buckets c) = Some b0.
Proof. destruct 1; eauto. Qed.

Lemma view_srv c n s : get_srv n (c_servers c) = Some s -> view c n = Some (sview s).
Proof. unfold view. intros ->. reflexivity. Qed.
Lemma view_bkt c n b : TreeWf c -> get_bkt n (c_buckets c) = Some b -> view c n = Some (bview b).
Proof.
  intros W Hb. unfold view. destruct (get_srv n (c_servers c)) as [s|] eqn:Es; [|rewrite Hb; reflexivity].
  rewrite (tw_disj _ W _ _ Es) in Hb. discriminate.
Qed.
Lemma view_inv c m w : view c m = Some w ->
  (exists s, get_srv m (c_servers c) = Some s /\ w = sview s) \/
  (get_srv m (c_servers c) = None /\ exists b, get_bkt m (c_buckets c) = Some b /\ w = bview b).
Proof.
  unfold view. destruct (get_srv m (c_servers c)) as [s|].
  - intros H; inversion H. left. eauto.
  - destruct (get_bkt m (c_buckets c)) as [b|]; cbn; [|discriminate]. intros H; inversion H. right. eauto.
Qed.

Lemma anc_mono c start b : TreeWf c -> AggLocal c -> anc c start b ->
  forall p0 b0, start = Some p0 -> get_bkt p0 (c_buckets c) = Some b0 ->
    vle (b_free b0) (b_free b) /\ incl (b_labels b0) (b_labels b) /\ has_traits (bkt_traits b) (bkt_traits b0) = true.
Proof.
  intros W (_ & HF & HL & HT). induction 1 as [p b Hg|p b1 b Hg Ha IH]; intros p0 b0 E Hb0; inversion E; subst p0.
  - rewrite Hg in Hb0. inversion Hb0; subst b0. split; [apply vle_refl|]. split; [apply incl_refl|apply has_traits_refl].
  - rewrite Hg in Hb0. inversion Hb0; subst b0.
    destruct (anc_start _ _ _ Ha) as (q & b2 & Eq & Hb2). destruct (IH q b2 Eq Hb2) as (I1 & I2 & I3).
    pose proof (view_bkt _ _ _ W Hg) as Hv.
    split; [|split].
    + eapply vle_trans; [|exact I1]. apply (HF p (bview b1) q b2 (b_free b1) Hv Eq Hb2 eq_refl).
    + eapply incl_tran; [|exact I2]. apply (HL p (bview b1) q b2 Hv Eq Hb2).
    + destruct (HT p (bview b1) q b2 Hv Eq Hb2) as (t & Ht & Htt); [discriminate|]. cbn [nv_traits bview] in Htt.
      eapply has_traits_trans; [exact I3|]. eapply has_traits_trans; [|exact Htt]. eapply bkt_traits_entry; exact Ht.
Qed.

Theorem AggLocal_sound c : TreeWf c -> AggLocal c -> AggSound c.
Proof.
  intros W HA n s b Hs Hup Hanc. pose proof HA as (_ & HF & HL & HT).
  destruct (anc_start _ _ _ Hanc) as (p & b0 & Ep & Hb0).
  destruct (anc_mono _ _ _ W HA Hanc p b0 Ep Hb0) as (I1 & I2 & I3).
  pose proof (view_srv _ _ _ Hs) as Hv.
  split; [|split].
  - eapply vle_trans; [|exact I1]. apply (HF n (sview s) p b0 (s_free s) Hv Ep Hb0). cbn. rewrite Hup. reflexivity.
  - apply I2. apply (HL n (sview s) p b0 Hv Ep Hb0). left. reflexivity.
  - destruct (HT n (sview s) p b0 Hv Ep Hb0) as (t & Ht & Htt); [discriminate|]. cbn [nv_traits sview] in Htt.
    eapply has_traits_trans; [exact I3|]. eapply has_traits_trans; [|exact Htt]. eapply bkt_traits_entry; exact Ht.
Qed.

(** ** one bucket updated *)
Lemma get_bkt_upd_same c n g b : (forall x, b_name (g x) = b_name x) -> get_bkt n (c_buckets c) = Some b ->
  get_bkt n (c_buckets (c_upd_bkt n g c)) = Some (g b).
Proof. intros Hg Hb. unfold c_upd_bkt. cbn [c_buckets set]. rewrite get_upd_bkt by exact Hg. rewrite Z.eqb_refl, Hb. reflexivity. Qed.
Lemma get_bkt_upd_other c n g m : (forall x, b_name (g x) = b_name x) -> m <> n ->
  get_bkt m (c_buckets (c_upd_bkt n g c)) = get_bkt m (c_buckets c).
Proof.
  intros Hg Hne. unfold c_upd_bkt. cbn [c_buckets set]. rewrite get_upd_bkt by exact Hg.
  destruct (Z.eqb_spec m n); [contradiction|reflexivity].
Qed.
Lemma view_upd_other c n g m : (forall x, b_name (g x) = b_name x) -> m <> n -> view (c_upd_bkt n g c) m = view c m.
Proof. intros Hg Hne. unfold view. rewrite get_bkt_upd_other by assumption. reflexivity. Qed.
Lemma TreeWf_upd_bkt c n g : (forall x, b_name (g x) = b_name x) -> (forall x, pskel (g x) = pskel x) ->
  TreeWf c -> TreeWf (c_upd_bkt n g c).
Proof. intros H1 H2. apply TreeWf_skel; [apply srv_skel_refl; reflexivity|apply bkts_same_upd; assumption]. Qed.

Lemma view_parent_bkt c m w p : TreeWf c -> view c m = Some w -> nv_parent w = Some p ->
  exists b, get_bkt p (c_buckets c) = Some b /\ In (Some m) (b_children b).
Proof.
  intros W Hv Hp. destruct (view_inv _ _ _ Hv) as [(s & Hs & ->)|(_ & b0 & Hb0 & ->)].
  - eapply tw_sparent; eassumption.
  - eapply tw_bparent; eassumption.
Qed.

(** ** frames: what the edges read *)
Lemma view_frame {T} (proj : bucket -> T) (obs : nview -> T) c c' m w' :
  (forall b, obs (bview b) = proj b) ->
  c_servers c' = c_servers c -> bkts_same proj c c' -> view c' m = Some w' ->
  exists w, view c m = Some w /\ obs w' = obs w.
Proof.
  intros Hobs Hs HB. unfold view. rewrite Hs. destruct (get_srv m (c_servers c)) as [s|].
  - intros H; inversion H. eauto.
  - destruct (get_bkt m (c_buckets c')) as [b'|] eqn:E; cbn; [|discriminate]. intros H; inversion H.
    destruct (bkts_same_bwd _ _ _ _ _ HB E) as (b & Hb & Eq). rewrite Hb. cbn. exists (bview b). split; [reflexivity|].
    rewrite !Hobs. exact Eq.
Qed.

Lemma Free_frame c c' exc : c_dim c' = c_dim c -> c_servers c' = c_servers c -> bkts_same pfree c c' ->
  BDims c -> FreeEdges c exc -> BDims c' /\ FreeEdges c' exc.
Proof.
  intros Hd Hs HB HD HE. split.
  - intros n b' Hb'. destruct (bkts_same_bwd _ _ _ _ _ HB Hb') as (b & Hb & E). inversion E as [[E1 E2]].
    rewrite E2, Hd. eapply HD; exact Hb.
  - intros m w' p b' f Hv Hp Hb' Hf.
    destruct (view_frame pfree (fun w => (nv_parent w, match nv_free w with Some x => x | None => [] end)) c c' m w'
                (fun b => eq_refl) Hs HB Hv) as (w & Hw & E).
    destruct (bkts_same_bwd _ _ _ _ _ HB Hb') as (b & Hb & Eb). inversion Eb as [[E1 E2]]. rewrite E2.
    (* free components: compare through the option *)
    assert (E' : nv_parent w' = nv_parent w /\ nv_free w' = nv_free w).
    { clear -Hv Hw Hs HB. unfold view in *. rewrite Hs in Hv. destruct (get_srv m (c_servers c)) as [s|].
      - inversion Hv; inversion Hw; subst. auto.
      - destruct (get_bkt m (c_buckets c')) as [b'|] eqn:E; cbn in Hv; [|discriminate]. inversion Hv; subst w'.
        destruct (bkts_same_bwd _ _ _ _ _ HB E) as (b & Hb & Eq). rewrite Hb in Hw. cbn in Hw. inversion Hw; subst w.
        inversion Eq as [[E1 E2]]. cbn. rewrite E1, E2. auto. }
    destruct E' as [Ep Ef]. apply (HE m w p b f Hw); [congruence|exact Hb|congruence].
Qed.

Lemma Label_frame c c' exc : c_servers c' = c_servers c -> bkts_same plab c c' -> LabelEdges c exc -> LabelEdges c' exc.
Proof.
  intros Hs HB HE m w' p b' Hv Hp Hb'.
  destruct (view_frame plab (fun w => (nv_parent w, nv_labels w)) c c' m w' (fun b => eq_refl) Hs HB Hv) as (w & Hw & E).
  inversion E as [[E1 E2]].
  destruct (bkts_same_bwd _ _ _ _ _ HB Hb') as (b & Hb & Eb). inversion Eb as [[E3 E4]]. rewrite E2, E4.
  apply (HE m w p b Hw); [congruence|exact Hb].
Qed.

Lemma bkt_traits_ptr b b' : ptr b' = ptr b -> bkt_traits b' = bkt_traits b.
Proof. intros E. inversion E as [[E1 E2 E3]]. unfold bkt_traits. rewrite E2, E3. reflexivity. Qed.

Lemma Trait_frame c c' exc : c_servers c' = c_servers c -> bkts_same ptr c c' -> TraitEdges c exc -> TraitEdges c' exc.
Proof.
  intros Hs HB HE m w' p b' Hv Hp Hb' Hx.
  assert (Hw : exists w, view c m = Some w /\ nv_parent w' = nv_parent w /\ nv_traits w' = nv_traits w).
  { clear -Hv Hs HB. unfold view in *. rewrite Hs in Hv. destruct (get_srv m (c_servers c)) as [s|].
    - inversion Hv; subst. eauto.
    - destruct (get_bkt m (c_buckets c')) as [b'|] eqn:E; cbn in Hv; [|discriminate]. inversion Hv; subst w'.
      destruct (bkts_same_bwd _ _ _ _ _ HB E) as (b & Hb & Eq). rewrite Hb. cbn. exists (bview b).
      split; [reflexivity|]. cbn. split; [inversion Eq; reflexivity|apply bkt_traits_ptr; exact Eq]. }
  destruct Hw as (w & Hw & E1 & E2).
  destruct (bkts_same_bwd _ _ _ _ _ HB Hb') as (b & Hb & Eb). inversion Eb as [[E3 E4 E5]]. rewrite E5, E2.
  apply (HE m w p b Hw); [congruence|exact Hb|exact Hx].
Qed.

(** ** adjust_capacity_up *)
Lemma adjust_up_ok fuel : forall c n v,
  TreeWf c -> up_ok fuel c n = true -> length v = c_dim c -> BDims c -> FreeEdges c (Some (n, v)) ->
  BDims (adjust_up fuel c n v) /\ FreeEdges (adjust_up fuel c n v) None.
Proof.
  induction fuel as [|fu IH]; intros c n v W Hok Hv HD HE; [discriminate|].
  cbn [adjust_up]. destruct (up_ok_bkt _ _ _ Hok) as (b & Hb). rewrite Hb.
  set (fr := vmax (b_free b) v).
  set (g := fun x : bucket => x <| b_free := fr |>).
  set (c1 := c_upd_bkt n g c).
  assert (Hg : forall x, b_name (g x) = b_name x) by reflexivity.
  assert (W1 : TreeWf c1) by (apply TreeWf_upd_bkt; [exact Hg|reflexivity|exact W]).
  assert (Hb1 : get_bkt n (c_buckets c1) = Some (g b)) by (apply get_bkt_upd_same; assumption).
  destruct (HD _ _ Hb) as (Hlb & Hnb).
  assert (Hlfr : length fr = c_dim c) by (subst fr; rewrite vmax_length; lia).
  assert (D1 : BDims c1).
  { intros m bm Hm. destruct (Z.eq_dec m n) as [->|Hne].
    - rewrite Hb1 in Hm. inversion Hm; subst bm. cbn. split; [exact Hlfr|apply nonneg_vmax_l; exact Hnb].
    - unfold c1 in Hm. rewrite get_bkt_upd_other in Hm by assumption. apply (HD _ _ Hm). }
  assert (Hself : b_parent b <> Some n) by exact (TreeWf_no_self c n b W Hb).
  assert (E1 : FreeEdges c1 (option_map (fun q => (q, fr)) (b_parent b))).
  { intros m w p bp f Hvw Hp Hbp Hf. destruct (Z.eq_dec m n) as [->|Hmn].
    - rewrite (view_bkt _ _ _ W1 Hb1) in Hvw. inversion Hvw; subst w. cbn in Hp, Hf. inversion Hf; subst f.
      rewrite Hp. cbn [option_map]. rewrite Z.eqb_refl.
      assert (Hpn : p <> n) by congruence.
      unfold c1 in Hbp. rewrite get_bkt_upd_other in Hbp by assumption.
      apply vle_vmax_r. destruct (HD _ _ Hbp) as (Hl & _). lia.
    - unfold c1 in Hvw. rewrite view_upd_other in Hvw by assumption.
      destruct (Z.eq_dec p n) as [->|Hpn].
      + rewrite Hb1 in Hbp. inversion Hbp; subst bp. cbn [g b_free set].
        pose proof (HE m w n b f Hvw Hp Hb Hf) as H. cbv beta iota in H. rewrite Z.eqb_refl in H. fold fr in H.
        destruct (b_parent b) as [q|]; cbn [option_map]; [|exact H].
        destruct (Z.eqb_spec n q); [congruence|exact H].
      + unfold c1 in Hbp. rewrite get_bkt_upd_other in Hbp by assumption.
        pose proof (HE m w p bp f Hvw Hp Hbp Hf) as H. cbv beta iota in H. destruct (Z.eqb_spec p n); [contradiction|].
        destruct (b_parent b) as [q|]; cbn [option_map]; [|exact H].
        destruct (Z.eqb p q); [|exact H]. eapply vle_trans; [exact H|]. apply vle_vmax_l.
        destruct (HD _ _ Hbp) as (Hl & _). lia. }
  destruct (b_parent b) as [q|] eqn:Eq; cbn [option_map] in E1.
  - apply IH; [exact W1| |exact Hlfr|exact D1|exact E1].
    rewrite (up_ok_same c c1) by (apply bkts_same_upd; [exact Hg|reflexivity]).
    eapply up_ok_parent; eassumption.
  - split; assumption.
Qed.

(** ** add_labels *)
Lemma add_labels_ok fuel : forall c n L,
  TreeWf c -> up_ok fuel c n = true -> LabelEdges c (Some (n, L)) -> LabelEdges (add_labels fuel c n L) None.
Proof.
  induction fuel as [|fu IH]; intros c n L W Hok HE; [discriminate|].
  cbn [add_labels]. destruct (up_ok_bkt _ _ _ Hok) as (b & Hb). rewrite Hb.
  set (ls := union_labels (b_labels b) L).
  set (g := fun x : bucket => x <| b_labels := ls |>).
  set (c1 := c_upd_bkt n g c).
  assert (Hg : forall x, b_name (g x) = b_name x) by reflexivity.
  assert (W1 : TreeWf c1) by (apply TreeWf_upd_bkt; [exact Hg|reflexivity|exact W]).
  assert (Hb1 : get_bkt n (c_buckets c1) = Some (g b)) by (apply get_bkt_upd_same; assumption).
  assert (Hself : b_parent b <> Some n) by exact (TreeWf_no_self c n b W Hb).
  assert (E1 : LabelEdges c1 (option_map (fun q => (q, ls)) (b_parent b))).
  { intros m w p bp Hvw Hp Hbp. destruct (Z.eq_dec m n) as [->|Hmn].
    - rewrite (view_bkt _ _ _ W1 Hb1) in Hvw. inversion Hvw; subst w. cbn in Hp. cbn [nv_labels bview g b_labels set].
      rewrite Hp. cbn [option_map]. rewrite Z.eqb_refl. apply union_labels_incl.
    - unfold c1 in Hvw. rewrite view_upd_other in Hvw by assumption.
      destruct (Z.eq_dec p n) as [->|Hpn].
      + rewrite Hb1 in Hbp. inversion Hbp; subst bp. cbn [g b_labels set].
        pose proof (HE m w n b Hvw Hp Hb) as H. cbv beta iota in H. rewrite Z.eqb_refl in H. fold ls in H.
        destruct (b_parent b) as [q|]; cbn [option_map]; [|exact H].
        destruct (Z.eqb_spec n q); [congruence|exact H].
      + unfold c1 in Hbp. rewrite get_bkt_upd_other in Hbp by assumption.
        pose proof (HE m w p bp Hvw Hp Hbp) as H. cbv beta iota in H. destruct (Z.eqb_spec p n); [contradiction|].
        destruct (b_parent b) as [q|]; cbn [option_map]; [|exact H].
        destruct (Z.eqb p q); [|exact H]. eapply incl_tran; [exact H|]. apply union_labels_incl. }
  destruct (b_parent b) as [q|] eqn:Eq; cbn [option_map] in E1.
  - apply IH; [exact W1| |exact E1].
    rewrite (up_ok_same c c1) by (apply bkts_same_upd; [exact Hg|reflexivity]).
    eapply up_ok_parent; eassumption.
  - exact E1.
Qed.

(** ** TraitSet propagation *)
Lemma propagate_traits_ok fuel : forall c n,
  TreeWf c -> up_ok fuel c n = true -> TraitEdges c (Some n) -> TraitEdges (propagate_traits fuel c n) None.
Proof.
  induction fuel as [|fu IH]; intros c n W Hok HE; [discriminate|].
  cbn [propagate_traits]. destruct (up_ok_bkt _ _ _ Hok) as (b & Hb). rewrite Hb.
  destruct (b_parent b) as [q|] eqn:Eq.
  - set (g := fun pb : bucket => pb <| b_child_traits ::= (fun m => aset n (bkt_traits b) (adel n m)) |>).
    set (c1 := c_upd_bkt q g c).
    assert (Hg : forall x, b_name (g x) = b_name x) by reflexivity.
    assert (W1 : TreeWf c1) by (apply TreeWf_upd_bkt; [exact Hg|reflexivity|exact W]).
    assert (Hqn : q <> n) by (intros ->; exact (TreeWf_no_self c n b W Hb Eq)).
    apply IH; [exact W1| |].
    + rewrite (up_ok_same c c1) by (apply bkts_same_upd; [exact Hg|reflexivity]).
      eapply up_ok_parent; eassumption.
    + intros m w p bp Hvw Hp Hbp Hx. assert (Hmq : m <> q) by congruence.
      unfold c1 in Hvw. rewrite view_upd_other in Hvw by assumption.
      destruct (Z.eq_dec p q) as [->|Hpq].
      * destruct (get_bkt q (c_buckets c)) as [bq|] eqn:Hbq.
        2:{ unfold c1 in Hbp. unfold c_upd_bkt in Hbp. cbn [c_buckets set] in Hbp. rewrite get_upd_bkt in Hbp by exact Hg.
            rewrite Z.eqb_refl, Hbq in Hbp. discriminate. }
        unfold c1 in Hbp. rewrite (get_bkt_upd_same _ _ _ _ Hg Hbq) in Hbp. inversion Hbp; subst bp.
        cbn [g b_child_traits set]. destruct (Z.eq_dec m n) as [->|Hmn].
        -- rewrite ag_as_same. rewrite (view_bkt _ _ _ W Hb) in Hvw. inversion Hvw; subst w. cbn [nv_traits bview].
           eexists. split; [reflexivity|apply has_traits_refl].
        -- rewrite ag_as_other, ag_adel_other by assumption. apply (HE m w q bq Hvw Hp Hbq). congruence.
      * unfold c1 in Hbp. rewrite get_bkt_upd_other in Hbp by assumption.
        apply (HE m w p bp Hvw Hp Hbp). intros E. inversion E; subst m.
        rewrite (view_bkt _ _ _ W Hb) in Hvw. inversion Hvw; subst w. cbn in Hp. congruence.
  - intros m w p bp Hvw Hp Hbp _. apply (HE m w p bp Hvw Hp Hbp). intros E. inversion E; subst m.
    rewrite (view_bkt _ _ _ W Hb) in Hvw. inversion Hvw; subst w. cbn in Hp. congruence.
Qed.

(** ** adjust_capacity_down *)
Lemma live_children_In ch m : In m (live_children ch) <-> In (Some m) ch.
Proof.
  induction ch as [|[x|] r IH]; cbn; [tauto| |].
  - rewrite IH. split; intros [H|H]; auto; left; congruence.
  - rewrite IH. split; [auto|intros [H|H]; [discriminate|exact H]].
Qed.
Lemma view_free_cfs c m w f : view c m = Some w -> nv_free w = Some f -> child_free_state c m = Some (f, Up).
Proof.
  unfold view, child_free_state. destruct (get_srv m (c_servers c)) as [s|].
  - intros H; inversion H; subst w. cbn. destruct (s_state s); intros E; inversion E; reflexivity.
  - destruct (get_bkt m (c_buckets c)) as [b|]; cbn; [|discriminate]. intros H; inversion H; subst w. cbn.
    intros E; inversion E; reflexivity.
Qed.
Lemma cfs_view c m f : child_free_state c m = Some (f, Up) -> exists w, view c m = Some w /\ nv_free w = Some f.
Proof.
  unfold view, child_free_state. destruct (get_srv m (c_servers c)) as [s|].
  - intros H; inversion H. eexists. split; [reflexivity|]. cbn. rewrite H2. reflexivity.
  - destruct (get_bkt m (c_buckets c)) as [b|]; cbn; [|discriminate]. intros H; inversion H. eexists. split; reflexivity.
Qed.

Lemma max_fold c B dim : forall kids acc,
  length acc = dim -> nonneg acc -> vle acc B ->
  (forall k f, In k kids -> child_free_state c k = Some (f, Up) -> length f = dim /\ vle f B) ->
  let r := fold_left (fun acc n => match child_free_state c n with
                                   | Some (fr, Up) => vmax acc fr
                                   | _ => acc
                                   end) kids acc in
  length r = dim /\ nonneg r /\ vle r B /\ vle acc r /\
  (forall k f, In k kids -> child_free_state c k = Some (f, Up) -> vle f r).
Proof.
  induction kids as [|k r IH]; intros acc Hl Hn Hb Hk; cbn [fold_left].
  - repeat split; try assumption; [apply vle_refl|intros k f []].
  - set (acc' := match child_free_state c k with Some (fr, Up) => vmax acc fr | _ => acc end).
    assert (Hacc : length acc' = dim /\ nonneg acc' /\ vle acc' B /\ vle acc acc' /\
                   (forall f, child_free_state c k = Some (f, Up) -> vle f acc')).
    { subst acc'. destruct (child_free_state c k) as [[fr st]|] eqn:E.
      - destruct st; try (repeat split; try assumption; [apply vle_refl|intros f Hf; discriminate]).
        destruct (Hk k fr (or_introl eq_refl) E) as (Hlf & Hfb).
        split; [rewrite vmax_length; lia|]. split; [apply nonneg_vmax_l; exact Hn|].
        split; [apply vle_vmax_lub; assumption|]. split; [apply vle_vmax_l; lia|].
        intros f Hf. inversion Hf; subst f. apply vle_vmax_r. lia.
      - repeat split; try assumption; [apply vle_refl|intros f Hf; discriminate]. }
    destruct Hacc as (A1 & A2 & A3 & A4 & A5).
    destruct (IH acc' A1 A2 A3 (fun k0 f H => Hk k0 f (or_intror H))) as (R1 & R2 & R3 & R4 & R5).
    split; [exact R1|]. split; [exact R2|]. split; [exact R3|]. split; [eapply vle_trans; eassumption|].
    intros k0 f [<-|Hin] Hf; [eapply vle_trans; [apply A5; exact Hf|exact R4]|eapply R5; eassumption].
Qed.

(** lowering the stored vector of [n] to something that still covers its children *)
Lemma lower_free_ok c n b nf :
  TreeWf c -> BDims c -> FreeEdges c None -> get_bkt n (c_buckets c) = Some b ->
  length nf = c_dim c -> nonneg nf -> vle nf (b_free b) ->
  (forall m w f, view c m = Some w -> nv_parent w = Some n -> nv_free w = Some f -> vle f nf) ->
  let c1 := c_upd_bkt n (fun x => x <| b_free := nf |>) c in
  TreeWf c1 /\ BDims c1 /\ FreeEdges c1 None.
Proof.
  intros W HD HE Hb Hl Hn Hle Hkids c1.
  set (g := fun x : bucket => x <| b_free := nf |>).
  assert (Hg : forall x, b_name (g x) = b_name x) by reflexivity.
  assert (W1 : TreeWf c1) by (apply TreeWf_upd_bkt; [exact Hg|reflexivity|exact W]).
  assert (Hb1 : get_bkt n (c_buckets c1) = Some (g b)) by (apply get_bkt_upd_same; assumption).
  assert (Hself : b_parent b <> Some n) by exact (TreeWf_no_self c n b W Hb).
  split; [exact W1|]. split.
  - intros m bm Hm. destruct (Z.eq_dec m n) as [->|Hne].
    + rewrite Hb1 in Hm. inversion Hm; subst bm. cbn. auto.
    + unfold c1 in Hm. rewrite get_bkt_upd_other in Hm by assumption. apply (HD _ _ Hm).
  - intros m w p bp f Hvw Hp Hbp Hf. destruct (Z.eq_dec m n) as [->|Hmn].
    + rewrite (view_bkt _ _ _ W1 Hb1) in Hvw. inversion Hvw; subst w. cbn in Hp, Hf. inversion Hf; subst f.
      assert (Hpn : p <> n) by congruence.
      unfold c1 in Hbp. rewrite get_bkt_upd_other in Hbp by assumption.
      eapply vle_trans; [exact Hle|]. apply (HE n (bview b) p bp (b_free b) (view_bkt _ _ _ W Hb) Hp Hbp eq_refl).
    + unfold c1 in Hvw. rewrite view_upd_other in Hvw by assumption.
      destruct (Z.eq_dec p n) as [->|Hpn].
      * rewrite Hb1 in Hbp. inversion Hbp; subst bp. cbn. eapply Hkids; eassumption.
      * unfold c1 in Hbp. rewrite get_bkt_upd_other in Hbp by assumption. exact (HE m w p bp f Hvw Hp Hbp Hf).
Qed.

Lemma view_length c m w f : SDims c -> BDims c -> view c m = Some w -> nv_free w = Some f -> length f = c_dim c.
Proof.
  intros HS HD Hv Hf. destruct (view_inv _ _ _ Hv) as [(s & Hs & ->)|(_ & b & Hb & ->)]; cbn in Hf.
  - destruct (s_state s); inversion Hf; subst. eapply HS; exact Hs.
  - inversion Hf; subst. apply (HD _ _ Hb).
Qed.

Lemma adjust_down_ok fuel : forall c n prev,
  TreeWf c -> SDims c -> BDims c -> FreeEdges c None ->
  TreeWf (adjust_down fuel c n prev) /\ BDims (adjust_down fuel c n prev) /\ FreeEdges (adjust_down fuel c n prev) None.
Proof.
  induction fuel as [|fu IH]; intros c n prev W HS HD HE; [cbn; auto|].
  cbn [adjust_down]. destruct (get_bkt n (c_buckets c)) as [b|] eqn:Hb; [|auto].
  destruct (HD _ _ Hb) as (Hlb & Hnb).
  assert (Hlisted : forall m w, view c m = Some w -> nv_parent w = Some n -> In m (live_children (b_children b))).
  { intros m w Hv Hp. destruct (view_parent_bkt _ _ _ _ W Hv Hp) as (b0 & Hb0 & Hin). rewrite Hb in Hb0.
    inversion Hb0; subst b0. apply live_children_In. exact Hin. }
  assert (Hnext : forall nf pv, length nf = c_dim c -> nonneg nf -> vle nf (b_free b) ->
            (forall m w f, view c m = Some w -> nv_parent w = Some n -> nv_free w = Some f -> vle f nf) ->
            let c1 := c_upd_bkt n (fun x => x <| b_free := nf |>) c in
            let r := match b_parent b with Some p => adjust_down fu c1 p pv | None => c1 end in
            TreeWf r /\ BDims r /\ FreeEdges r None).
  { intros nf pv H1 H2 H3 H4 c1 r.
    destruct (lower_free_ok c n b nf W HD HE Hb H1 H2 H3 H4) as (W1 & D1 & E1). fold c1 in W1, D1, E1.
    subst r. destruct (b_parent b) as [p|]; [|auto]. apply IH; auto. }
  destruct (live_children (b_children b)) as [|k ks] eqn:Ek.
  - apply (Hnext (vzero (c_dim c)) None).
    + apply vzero_length.
    + apply nonneg_vzero.
    + apply vle_vzero; assumption.
    + intros m w f Hv Hp _. destruct (Hlisted m w Hv Hp).
  - destruct (match prev with Some pv => all_lt pv (b_free b) | None => false end); [auto|].
    set (kids := k :: ks) in *.
    assert (Hkid : forall k0 f, In k0 kids -> child_free_state c k0 = Some (f, Up) -> length f = c_dim c /\ vle f (b_free b)).
    { intros k0 f Hin Hf. destruct (cfs_view _ _ _ Hf) as (w & Hv & Hfw).
      split; [eapply view_length; eassumption|].
      rewrite <- Ek in Hin. apply live_children_In in Hin.
      assert (Hp : nv_parent w = Some n).
      { destruct (tw_child _ W _ _ _ Hb Hin) as [(s & Hs & Hp)|(b' & Hb' & Hp)].
        - rewrite (view_srv _ _ _ Hs) in Hv. inversion Hv; subst w. exact Hp.
        - rewrite (view_bkt _ _ _ W Hb') in Hv. inversion Hv; subst w. exact Hp. }
      exact (HE k0 w n b f Hv Hp Hb Hfw). }
    pose proof (max_fold c (b_free b) (c_dim c) kids (vzero (c_dim c)) (vzero_length _) (nonneg_vzero _)
                  (vle_vzero _ _ Hlb Hnb) Hkid) as HM. cbv zeta in HM. fold (max_up_children c kids) in HM.
    destruct HM as (M1 & M2 & M3 & _ & M5).
    destruct (any_lt (max_up_children c kids) (b_free b)); [|auto].
    apply (Hnext (max_up_children c kids) (Some (b_free b)) M1 M2 M3).
    intros m w f Hv Hp Hf. apply (M5 m f); [exact (Hlisted m w Hv Hp)|eapply view_free_cfs; eassumption].
Qed.

(** ** the three families of edges together *)
Definition Agg3 (c : cell) (ef : option (Z * vec)) (el : option (Z * list Z)) (et : option Z) : Prop :=
  BDims c /\ FreeEdges c ef /\ LabelEdges c el /\ TraitEdges c et.

Lemma FreeEdges_weaken c n v : BDims c -> length v = c_dim c -> FreeEdges c None -> FreeEdges c (Some (n, v)).
Proof.
  intros HD Hv HE m w p b f Hvw Hp Hb Hf. pose proof (HE m w p b f Hvw Hp Hb Hf) as H. cbv beta iota in H.
  destruct (Z.eqb p n); [|exact H]. eapply vle_trans; [exact H|]. apply vle_vmax_l. destruct (HD _ _ Hb). lia.
Qed.
Lemma LabelEdges_weaken c n L : LabelEdges c None -> LabelEdges c (Some (n, L)).
Proof.
  intros HE m w p b Hvw Hp Hb. pose proof (HE m w p b Hvw Hp Hb) as H. cbv beta iota in H.
  destruct (Z.eqb p n); [|exact H]. eapply incl_tran; [exact H|]. apply union_labels_incl.
Qed.
Lemma TraitEdges_weaken c n : TraitEdges c None -> TraitEdges c (Some n).
Proof. intros HE m w p b Hvw Hp Hb _. apply (HE m w p b Hvw Hp Hb). discriminate. Qed.

Lemma sc_servers c c' : same_core c c' -> c_servers c' = c_servers c. Proof. intros H; apply H. Qed.
Lemma sc_dim c c' : same_core c c' -> c_dim c' = c_dim c. Proof. intros H; apply H. Qed.

(** a bucket-only change that keeps what the edges read *)
Lemma Agg3_frame c c' ef el et :
  same_core c c' -> bkts_same pfree c c' -> bkts_same plab c c' -> bkts_same ptr c c' ->
  Agg3 c ef el et -> Agg3 c' ef el et.
Proof.
  intros Hsc H1 H2 H3 (HD & HF & HL & HT).
  destruct (Free_frame c c' ef (sc_dim _ _ Hsc) (sc_servers _ _ Hsc) H1 HD HF) as (HD' & HF').
  split; [exact HD'|]. split; [exact HF'|].
  split; [eapply Label_frame; [apply sc_servers; exact Hsc|exact H2|exact HL]|].
  eapply Trait_frame; [apply sc_servers; exact Hsc|exact H3|exact HT].
Qed.
Lemma TreeWf_bkts c c' : same_core c c' -> bkts_same pskel c c' -> TreeWf c -> TreeWf c'.
Proof. intros Hsc HB. apply TreeWf_skel; [apply srv_skel_refl, sc_servers; exact Hsc|exact HB]. Qed.

Lemma SDims_sc c c' : same_core c c' -> SDims c -> SDims c'.
Proof. intros Hsc H n s Hs. rewrite (sc_servers _ _ Hsc) in Hs. rewrite (sc_dim _ _ Hsc). eapply H; exact Hs. Qed.

Lemma W_cursor c n aff i ef el et : TreeWf c -> Agg3 c ef el et ->
  TreeWf (set_cursor c n aff i) /\ Agg3 (set_cursor c n aff i) ef el et.
Proof.
  intros W HA. split.
  - eapply TreeWf_bkts; [apply set_cursor_sc|apply set_cursor_same; reflexivity|exact W].
  - eapply Agg3_frame; [apply set_cursor_sc| | | |exact HA]; apply set_cursor_same; reflexivity.
Qed.
Lemma W_bump fuel c n ds sg ef el et : TreeWf c -> Agg3 c ef el et ->
  TreeWf (bump_affinity fuel c n ds sg) /\ Agg3 (bump_affinity fuel c n ds sg) ef el et.
Proof.
  intros W HA. split.
  - eapply TreeWf_bkts; [apply bump_affinity_sc|apply bump_affinity_same; reflexivity|exact W].
  - eapply Agg3_frame; [apply bump_affinity_sc| | | |exact HA]; apply bump_affinity_same; reflexivity.
Qed.
Lemma W_bump_from c p ds sg ef el et : TreeWf c -> Agg3 c ef el et ->
  TreeWf (bump_from c p ds sg) /\ Agg3 (bump_from c p ds sg) ef el et.
Proof. destruct p as [p|]; cbn [bump_from]; [apply W_bump|auto]. Qed.

Lemma W_traits c n ef el : TreeWf c -> (exists b, get_bkt n (c_buckets c) = Some b) -> Agg3 c ef el (Some n) ->
  let c' := propagate_traits (depth_fuel c) c n in TreeWf c' /\ Agg3 c' ef el None.
Proof.
  intros W (b & Hb) (HD & HF & HL & HT) c'.
  assert (Hsc : same_core c c') by apply propagate_traits_sc.
  split; [eapply TreeWf_bkts; [exact Hsc|apply propagate_traits_same; reflexivity|exact W]|].
  destruct (Free_frame c c' ef (sc_dim _ _ Hsc) (sc_servers _ _ Hsc)
              (propagate_traits_same pfree (fun x v => eq_refl) _ _ _) HD HF) as (HD' & HF').
  split; [exact HD'|]. split; [exact HF'|]. split.
  - eapply Label_frame; [apply sc_servers; exact Hsc|apply propagate_traits_same; reflexivity|exact HL].
  - apply propagate_traits_ok; [exact W|eapply TreeWf_fuel; eassumption|exact HT].
Qed.
Lemma W_labels c n L ef et : TreeWf c -> (exists b, get_bkt n (c_buckets c) = Some b) -> Agg3 c ef (Some (n, L)) et ->
  let c' := add_labels (depth_fuel c) c n L in TreeWf c' /\ Agg3 c' ef None et.
Proof.
  intros W (b & Hb) (HD & HF & HL & HT) c'.
  assert (Hsc : same_core c c') by apply add_labels_sc.
  split; [eapply TreeWf_bkts; [exact Hsc|apply add_labels_same; reflexivity|exact W]|].
  destruct (Free_frame c c' ef (sc_dim _ _ Hsc) (sc_servers _ _ Hsc)
              (add_labels_same pfree (fun x v => eq_refl) _ _ _ _) HD HF) as (HD' & HF').
  split; [exact HD'|]. split; [exact HF'|]. split.
  - apply add_labels_ok; [exact W|eapply TreeWf_fuel; eassumption|exact HL].
  - eapply Trait_frame; [apply sc_servers; exact Hsc|apply add_labels_same; reflexivity|exact HT].
Qed.
Lemma W_up c n v el et : TreeWf c -> (exists b, get_bkt n (c_buckets c) = Some b) -> length v = c_dim c ->
  Agg3 c (Some (n, v)) el et ->
  let c' := adjust_up (depth_fuel c) c n v in TreeWf c' /\ Agg3 c' None el et.
Proof.
  intros W (b & Hb) Hv (HD & HF & HL & HT) c'.
  assert (Hsc : same_core c c') by apply adjust_up_sc.
  split; [eapply TreeWf_bkts; [exact Hsc|apply adjust_up_same; reflexivity|exact W]|].
  destruct (adjust_up_ok (depth_fuel c) c n v W (TreeWf_fuel _ _ _ W Hb) Hv HD HF) as (HD' & HF').
  split; [exact HD'|]. split; [exact HF'|]. split.
  - eapply Label_frame; [apply sc_servers; exact Hsc|apply adjust_up_same; reflexivity|exact HL].
  - eapply Trait_frame; [apply sc_servers; exact Hsc|apply adjust_up_same; reflexivity|exact HT].
Qed.
Lemma W_down fuel c n pv el et : TreeWf c -> SDims c -> Agg3 c None el et ->
  let c' := adjust_down fuel c n pv in TreeWf c' /\ Agg3 c' None el et.
Proof.
  intros W HS (HD & HF & HL & HT) c'.
  assert (Hsc : same_core c c') by apply adjust_down_sc.
  destruct (adjust_down_ok fuel c n pv W HS HD HF) as (W' & HD' & HF').
  split; [exact W'|]. split; [exact HD'|]. split; [exact HF'|]. split.
  - eapply Label_frame; [apply sc_servers; exact Hsc|apply adjust_down_same; reflexivity|exact HL].
  - eapply Trait_frame; [apply sc_servers; exact Hsc|apply adjust_down_same; reflexivity|exact HT].
Qed.
Lemma W_down_from c p pv el et : TreeWf c -> SDims c -> Agg3 c None el et ->
  TreeWf (adjust_down_from c p pv) /\ Agg3 (adjust_down_from c p pv) None el et.
Proof. destruct p as [p|]; cbn [adjust_down_from]; [apply W_down|auto]. Qed.

(** Bucket.add_node after the child was appended to the parent's list *)
Lemma attach_common_ok c0 p child tr cn lb fr :
  let c1 := c_upd_bkt p (fun b => b <| b_children ::= (fun l => l ++ [Some child]) |>
                                    <| b_child_traits ::= aset child tr |>) c0 in
  TreeWf c1 -> (exists b, get_bkt p (c_buckets c1) = Some b) -> length fr = c_dim c0 ->
  Agg3 c1 (Some (p, fr)) (Some (p, lb)) (Some p) ->
  TreeWf (attach_common c0 p child tr cn lb fr) /\ AggLocal (attach_common c0 p child tr cn lb fr).
Proof.
  intros c1 W1 Hp Hfr A1. unfold attach_common. fold c1.
  assert (Hex : forall c c', bkts_same pskel c c' -> (exists b, get_bkt p (c_buckets c) = Some b) ->
                             exists b, get_bkt p (c_buckets c') = Some b).
  { intros c c' HB (b & Hb). destruct (bkts_same_fwd _ _ _ _ _ HB Hb) as (b' & Hb' & _). eauto. }
  destruct (W_traits c1 p _ _ W1 Hp A1) as (W2 & A2).
  set (c2 := propagate_traits (depth_fuel c1) c1 p) in *.
  assert (P2 : exists b, get_bkt p (c_buckets c2) = Some b)
    by (eapply Hex; [apply (propagate_traits_same pskel (fun x v => eq_refl))|exact Hp]).
  destruct (W_bump (depth_fuel c2) c2 p cn 1 _ _ _ W2 A2) as (W3 & A3).
  set (c3 := bump_affinity (depth_fuel c2) c2 p cn 1) in *.
  assert (P3 : exists b, get_bkt p (c_buckets c3) = Some b)
    by (eapply Hex; [apply (bump_affinity_same pskel (fun x v => eq_refl))|exact P2]).
  destruct (W_labels c3 p lb _ _ W3 P3 A3) as (W4 & A4).
  set (c4 := add_labels (depth_fuel c3) c3 p lb) in *.
  assert (P4 : exists b, get_bkt p (c_buckets c4) = Some b)
    by (eapply Hex; [apply (add_labels_same pskel (fun x v => eq_refl))|exact P3]).
  assert (Hd : c_dim c4 = c_dim c0).
  { assert (Hsc : same_core c1 c4).
    { eapply same_core_trans; [apply (propagate_traits_sc (depth_fuel c1) c1 p)|].
      eapply same_core_trans; [apply (bump_affinity_sc (depth_fuel c2) c2 p cn 1)|apply add_labels_sc]. }
    rewrite (sc_dim _ _ Hsc). reflexivity. }
  apply (W_up c4 p fr _ _ W4 P4); [lia|exact A4].
Qed.

(** ** the predicates read servers, buckets and the dimension only *)
Lemma TreeWf_ext c c' : c_servers c' = c_servers c -> c_buckets c' = c_buckets c -> TreeWf c -> TreeWf c'.
Proof.
  intros Hs Hb. apply TreeWf_skel; [apply srv_skel_refl; exact Hs|]. unfold bkts_same. rewrite Hb.
  apply Forall2_rel_refl, same_on_refl.
Qed.
Lemma Agg3_ext c c' ef el et : c_dim c' = c_dim c -> c_servers c' = c_servers c -> c_buckets c' = c_buckets c ->
  Agg3 c ef el et -> Agg3 c' ef el et.
Proof.
  intros Hd Hs Hb. unfold Agg3, BDims, FreeEdges, LabelEdges, TraitEdges, view. rewrite Hd, Hs, Hb. tauto.
Qed.

Lemma bkts_same_eq {T} (proj : bucket -> T) c c' : c_buckets c' = c_buckets c -> bkts_same proj c c'.
Proof. intros E. unfold bkts_same. rewrite E. apply Forall2_rel_refl, same_on_refl. Qed.

(** ** one server updated *)
Lemma upd_srv_absent n f l : get_srv n l = None -> upd_srv n f l = l.
Proof.
  induction l as [|x t IH]; cbn; [reflexivity|]. destruct (Z.eqb (s_name x) n); [discriminate|].
  intros H. rewrite IH by exact H. reflexivity.
Qed.
Lemma view_upd_srv c sn f m : (forall x, s_name (f x) = s_name x) ->
  view (c_upd_srv sn f c) m =
  match get_srv sn (c_servers c) with
  | Some s => if Z.eqb m sn then Some (sview (f s)) else view c m
  | None => view c m
  end.
Proof.
  intros Hf. unfold view, c_upd_srv. cbn [c_servers c_buckets set].
  destruct (get_srv sn (c_servers c)) as [s|] eqn:Es.
  - destruct (Z.eqb_spec m sn) as [->|Hne].
    + rewrite (get_upd_srv_same _ _ _ _ Hf Es). reflexivity.
    + rewrite get_upd_srv_other by assumption. reflexivity.
  - rewrite upd_srv_absent by exact Es. reflexivity.
Qed.

Lemma srv_upd_ok c sn s f ef el et :
  get_srv sn (c_servers c) = Some s ->
  (forall x, s_name (f x) = s_name x) -> (forall x, s_parent (f x) = s_parent x) ->
  s_label (f s) = s_label s -> s_traits (f s) = s_traits s ->
  TreeWf c -> Agg3 c ef el et ->
  (forall p bp f', s_parent s = Some p -> get_bkt p (c_buckets c) = Some bp -> nv_free (sview (f s)) = Some f' ->
     vle f' (match ef with
             | Some (n, v) => if Z.eqb p n then vmax (b_free bp) v else b_free bp
             | None => b_free bp
             end)) ->
  TreeWf (c_upd_srv sn f c) /\ Agg3 (c_upd_srv sn f c) ef el et.
Proof.
  intros Hs Hn Hp Hl Ht W (HD & HF & HL & HT) Hedge.
  split; [eapply TreeWf_skel; [apply srv_skel_upd; assumption|apply bkts_same_eq; reflexivity|exact W]|].
  pose proof (view_srv _ _ _ Hs) as Hv0.
  split; [exact HD|]. split; [|split].
  - intros m w p b f0 Hv Hpw Hb Hf0. rewrite view_upd_srv, Hs in Hv by exact Hn.
    destruct (Z.eqb_spec m sn) as [->|Hne]; [|exact (HF m w p b f0 Hv Hpw Hb Hf0)].
    inversion Hv; subst w. cbn [nv_parent sview] in Hpw. rewrite Hp in Hpw. apply (Hedge p b f0 Hpw Hb Hf0).
  - intros m w p b Hv Hpw Hb. rewrite view_upd_srv, Hs in Hv by exact Hn.
    destruct (Z.eqb_spec m sn) as [->|Hne]; [|exact (HL m w p b Hv Hpw Hb)].
    inversion Hv; subst w. cbn [nv_parent nv_labels sview] in *. rewrite Hp in Hpw. rewrite Hl.
    exact (HL sn (sview s) p b Hv0 Hpw Hb).
  - intros m w p b Hv Hpw Hb Hx. rewrite view_upd_srv, Hs in Hv by exact Hn.
    destruct (Z.eqb_spec m sn) as [->|Hne]; [|exact (HT m w p b Hv Hpw Hb Hx)].
    inversion Hv; subst w. cbn [nv_parent nv_traits sview] in *. rewrite Hp in Hpw. rewrite Ht.
    exact (HT sn (sview s) p b Hv0 Hpw Hb Hx).
Qed.

Lemma Acct_SDims c : Acct c -> SDims c.
Proof. intros HA n s Hs. apply (ac_srv_dims _ HA _ _ Hs). Qed.

(** ** Server.put *)
Lemma srv_put_lease_ok c sn an l c' :
  Acct c -> TreeWf c -> AggLocal c -> srv_put_lease c sn an l = Some c' -> TreeWf c' /\ AggLocal c'.
Proof.
  intros HA W HL. unfold srv_put_lease.
  destruct (get_srv sn (c_servers c)) as [s|] eqn:Es; [|discriminate].
  destruct (get_app an (c_apps c)) as [a|] eqn:Ea; [|discriminate].
  destruct (put_guard c s a l) eqn:Eg; [|discriminate]. intros H; inversion H; subst c'; clear H.
  pose proof (Acct_put c sn an s a l Es Ea Eg HA) as HA1.
  set (fs := fun x : server => x <| s_free := vsub (s_free x) (a_demand a) |>
                                  <| s_apps ::= (fun l => l ++ [an]) |> <| s_counters ::= cadd (a_aff a) 1 |>).
  destruct (ac_srv_dims _ HA _ _ Es) as (_ & Hlf & _). destruct (ac_app_dims _ HA _ _ Ea) as (Hld & Hnd).
  destruct (srv_upd_ok c sn s fs None None None Es (fun x => eq_refl) (fun x => eq_refl) eq_refl eq_refl W HL) as (W0 & A0).
  { intros p bp f' Hp Hbp Hf'. cbn in Hf'. destruct (s_state s) eqn:Est; inversion Hf'; subst f'.
    eapply vle_trans; [apply vle_vsub; [lia|exact Hnd]|].
    destruct HL as (_ & HF & _). apply (HF sn (sview s) p bp (s_free s) (view_srv _ _ _ Es) Hp Hbp).
    cbn. rewrite Est. reflexivity. }
  set (c1 := prim_put c sn an a l) in *.
  assert (W1 : TreeWf c1) by (eapply TreeWf_ext; [| |exact W0]; reflexivity).
  assert (A1 : Agg3 c1 None None None) by (eapply Agg3_ext; [| | |exact A0]; reflexivity).
  destruct (W_bump_from c1 (s_parent s) [(a_aff a, 1)] 1 _ _ _ W1 A1) as (W2 & A2).
  apply W_down_from; [exact W2| |exact A2].
  eapply SDims_sc; [apply bump_from_sc|apply Acct_SDims; exact HA1].
Qed.
Lemma srv_put_ok c sn an c' :
  Acct c -> TreeWf c -> AggLocal c -> srv_put c sn an = Some c' -> TreeWf c' /\ AggLocal c'.
Proof. unfold srv_put. destruct (get_app an (c_apps c)); [apply srv_put_lease_ok|discriminate]. Qed.

(** ** Server.remove *)
Lemma srv_remove_ok c sn an : Acct c -> TreeWf c -> AggLocal c ->
  TreeWf (srv_remove c sn an) /\ AggLocal (srv_remove c sn an).
Proof.
  intros HA W HL. unfold srv_remove.
  destruct (get_srv sn (c_servers c)) as [s|] eqn:Es; [|auto].
  destruct (get_app an (c_apps c)) as [a|] eqn:Ea; [|auto].
  destruct (negb (zmem an (s_apps s))); [auto|].
  set (nf := vadd (s_free s) (a_demand a)).
  set (fs := fun x : server => x <| s_free := vadd (s_free x) (a_demand a) |> <| s_apps ::= zremove an |>
                                  <| s_counters ::= cadd (a_aff a) (-1) |>).
  destruct (ac_srv_dims _ HA _ _ Es) as (_ & Hlf & _). destruct (ac_app_dims _ HA _ _ Ea) as (Hld & Hnd).
  assert (Hlnf : length nf = c_dim c) by (unfold nf, vadd; rewrite vmap2_length; lia).
  set (ef := match s_parent s with Some p => Some (p, nf) | None => None end).
  assert (A : Agg3 c ef None None).
  { destruct HL as (HD & HF & HLa & HT). split; [exact HD|]. split; [|split; assumption].
    subst ef. destruct (s_parent s); [apply FreeEdges_weaken; assumption|exact HF]. }
  destruct (srv_upd_ok c sn s fs ef None None Es (fun x => eq_refl) (fun x => eq_refl) eq_refl eq_refl W A) as (W0 & A0).
  { intros p bp f' Hp Hbp Hf'. cbn in Hf'. subst ef. rewrite Hp. rewrite Z.eqb_refl.
    destruct (s_state s); inversion Hf'; subst f'. fold nf. apply vle_vmax_r.
    destruct HL as (HD & _). destruct (HD _ _ Hbp). lia. }
  set (c1 := prim_remove c sn an a) in *.
  assert (W1 : TreeWf c1) by (eapply TreeWf_ext; [| |exact W0]; reflexivity).
  assert (A1 : Agg3 c1 ef None None) by (eapply Agg3_ext; [| | |exact A0]; reflexivity).
  destruct (W_bump_from c1 (s_parent s) [(a_aff a, 1)] (-1) _ _ _ W1 A1) as (W2 & A2).
  set (c2 := bump_from c1 (s_parent s) [(a_aff a, 1)] (-1)) in *.
  subst ef. destruct (s_parent s) as [p|] eqn:Ep; cbn [adjust_up_from]; [|auto].
  fold nf. apply W_up; [exact W2| | |exact A2].
  - assert (Hs2 : get_srv sn (c_servers c2) = Some (fs s)).
    { unfold c2. rewrite (sc_servers _ _ (bump_from_sc c1 (Some p) [(a_aff a, 1)] (-1))).
      unfold c1, prim_remove. cbn [c_upd_app c_upd_srv c_servers set]. apply get_upd_srv_same; [reflexivity|exact Es]. }
    destruct (tw_sparent _ W2 _ _ p Hs2 Ep) as (b & Hb & _). eauto.
  - unfold c2. rewrite (sc_dim _ _ (bump_from_sc c1 (Some p) [(a_aff a, 1)] (-1))). exact Hlnf.
Qed.

(** ** Server.set_state *)
Lemma srv_set_state_ok c sn st since : Acct c -> TreeWf c -> AggLocal c ->
  TreeWf (srv_set_state c sn st since) /\ AggLocal (srv_set_state c sn st since).
Proof.
  intros HA W HL. unfold srv_set_state.
  destruct (get_srv sn (c_servers c)) as [s|] eqn:Es; [|auto].
  destruct (sstate_eqb (s_state s) st); [auto|].
  set (fs := fun x : server => x <| s_state := st |> <| s_since := since |>).
  destruct (ac_srv_dims _ HA _ _ Es) as (_ & Hlf & _).
  set (c1 := c_upd_srv sn fs c).
  assert (HS1 : SDims c1).
  { apply Acct_SDims. apply Acct_upd_srv_soft; [intros x; repeat split|exact HA]. }
  destruct st.
  - (* up *)
    set (ef := match s_parent s with Some p => Some (p, s_free s) | None => None end).
    assert (A : Agg3 c ef None None).
    { destruct HL as (HD & HF & HLa & HT). split; [exact HD|]. split; [|split; assumption].
      subst ef. destruct (s_parent s); [apply FreeEdges_weaken; assumption|exact HF]. }
    destruct (srv_upd_ok c sn s fs ef None None Es (fun x => eq_refl) (fun x => eq_refl) eq_refl eq_refl W A) as (W1 & A1).
    { intros p bp f' Hp Hbp Hf'. cbn in Hf'. inversion Hf'; subst f'. subst ef. rewrite Hp, Z.eqb_refl.
      apply vle_vmax_r. destruct HL as (HD & _). destruct (HD _ _ Hbp). lia. }
    fold c1 in W1, A1. subst ef. destruct (s_parent s) as [p|] eqn:Ep; cbn [adjust_up_from]; [|auto].
    apply W_up; [exact W1| |exact Hlf|exact A1].
    assert (Hs1 : get_srv sn (c_servers c1) = Some (fs s))
      by (unfold c1, c_upd_srv; cbn [c_servers set]; apply get_upd_srv_same; [reflexivity|exact Es]).
    destruct (tw_sparent _ W1 _ _ p Hs1 Ep) as (b & Hb & _). eauto.
  - destruct (srv_upd_ok c sn s fs None None None Es (fun x => eq_refl) (fun x => eq_refl) eq_refl eq_refl W HL) as (W1 & A1).
    { intros p bp f' Hp Hbp Hf'. cbn in Hf'. discriminate. }
    apply W_down_from; assumption.
  - destruct (srv_upd_ok c sn s fs None None None Es (fun x => eq_refl) (fun x => eq_refl) eq_refl eq_refl W HL) as (W1 & A1).
    { intros p bp f' Hp Hbp Hf'. cbn in Hf'. discriminate. }
    apply W_down_from; assumption.
Qed.

(** ** the invariant, and the scheduling cycle as a sequence of aggregate-preserving steps *)
Definition Inv (c : cell) : Prop := Acct c /\ TreeWf c /\ AggLocal c.

Inductive astep : cell -> cell -> Prop :=
| AS_cursor c b aff i : astep c (set_cursor c b aff i)
| AS_put c sn an l c' : srv_put_lease c sn an l = Some c' -> astep c c'
| AS_remove c sn an : astep c (srv_remove c sn an)
| AS_core c c' : pstep c c' -> c_dim c' = c_dim c -> c_servers c' = c_servers c -> c_buckets c' = c_buckets c ->
                 astep c c'.
Definition asteps := clos_refl_trans cell astep.

Lemma astep_psteps c c' : astep c c' -> psteps c c'.
Proof.
  destruct 1.
  - apply ps_sc, set_cursor_sc.
  - eapply srv_put_lease_ps; eassumption.
  - apply srv_remove_ps.
  - apply ps_one. assumption.
Qed.
Lemma Inv_astep c c' : astep c c' -> Inv c -> Inv c'.
Proof.
  intros Hs (HA & W & HL). split; [eapply Acct_psteps; [apply astep_psteps; exact Hs|exact HA]|].
  destruct Hs.
  - apply W_cursor; assumption.
  - eapply srv_put_lease_ok; eassumption.
  - apply srv_remove_ok; assumption.
  - split; [eapply TreeWf_ext; eassumption|eapply Agg3_ext; eassumption].
Qed.
Lemma Inv_asteps c c' : asteps c c' -> Inv c -> Inv c'.
Proof. induction 1; [apply Inv_astep; assumption|tauto|tauto]. Qed.

Lemma as_refl c : asteps c c. Proof. apply rt_refl. Qed.
Lemma as_one c c' : astep c c' -> asteps c c'. Proof. apply rt_step. Qed.
Lemma as_trans a b c : asteps a b -> asteps b c -> asteps a c. Proof. apply rt_trans. Qed.
Lemma as_cursor c b aff i : asteps c (set_cursor c b aff i). Proof. apply as_one, AS_cursor. Qed.
Lemma as_remove c sn an : asteps c (srv_remove c sn an). Proof. apply as_one, AS_remove. Qed.
Lemma as_put_lease c sn an l c' : srv_put_lease c sn an l = Some c' -> asteps c c'.
Proof. intros H. eapply as_one, AS_put. exact H. Qed.
Lemma as_put c sn an c' : srv_put c sn an = Some c' -> asteps c c'.
Proof. unfold srv_put. destruct (get_app an (c_apps c)); [apply as_put_lease|discriminate]. Qed.
Lemma as_soft c an f : soft f -> asteps c (c_upd_app an f c).
Proof. intros H. apply as_one, AS_core; [apply PS_soft; exact H| | |]; reflexivity. Qed.
Lemma as_release c an : asteps c (release_identity c an).
Proof.
  apply as_one, AS_core; [apply PS_release| | |]; unfold release_identity;
    destruct (get_app an (c_apps c)) as [a|]; try reflexivity;
    destruct (group_of c a) as [[g grp]|]; try reflexivity; destruct (a_identity a); reflexivity.
Qed.
Lemma as_acquire c an ch : asteps c (fst (acquire_identity c an ch)).
Proof.
  apply as_one, AS_core; [apply PS_acquire| | |]; unfold acquire_identity;
    destruct (get_app an (c_apps c)) as [a|]; try reflexivity;
    destruct (group_of c a) as [[g grp]|]; try reflexivity; destruct (a_identity a); try reflexivity;
    destruct (g_avail grp); reflexivity.
Qed.

Lemma srv_restore_as c sn an ex : asteps c (fst (srv_restore c sn an ex)).
Proof.
  unfold srv_restore. destruct (get_app an (c_apps c)) as [a|]; [|apply as_refl].
  destruct (srv_put_lease c sn an 0) as [c'|] eqn:E; cbn [fst].
  - eapply as_trans; [eapply as_put_lease; exact E|]. apply as_soft, soft_expiry.
  - apply as_soft, soft_expiry.
Qed.
Lemma srv_renew_as c sn an : asteps c (fst (srv_renew c sn an)).
Proof.
  unfold srv_renew. destruct (get_srv sn (c_servers c)); [|apply as_refl].
  destruct (get_app an (c_apps c)) as [a|]; [|apply as_refl].
  destruct (check_lifetime c a (a_lease a) s); cbn [fst]; [|apply as_refl].
  apply as_soft, soft_expiry.
Qed.

Lemma fold_as {A} (f : cell -> A -> cell) (l : list A) :
  (forall c x, asteps c (f c x)) -> forall c, asteps c (fold_left f l c).
Proof.
  intros Hf. induction l as [|x r IH]; intros c; cbn; [apply as_refl|].
  eapply as_trans; [apply Hf|apply IH].
Qed.

Lemma try_children_as put_bkt b aff an p0 :
  (forall c n, asteps c (fst (put_bkt c n))) ->
  forall l c, asteps c (fst (try_children put_bkt b aff an p0 l c)).
Proof.
  intros Hp. induction l as [|[p n] r IHl]; intros c; cbn [try_children].
  - cbn [fst]. apply as_cursor.
  - set (c1 := set_cursor c b aff (S p)).
    assert (H1 : asteps c c1) by apply as_cursor.
    destruct (get_srv n (c_servers c1)) as [s|].
    + destruct (s_state s).
      * destruct (srv_put c1 n an) as [c2|] eqn:Ep.
        -- cbn [fst]. eapply as_trans; [exact H1|]. eapply as_put; exact Ep.
        -- eapply as_trans; [exact H1|apply IHl].
      * eapply as_trans; [exact H1|apply IHl].
      * eapply as_trans; [exact H1|apply IHl].
    + specialize (Hp c1 n). destruct (put_bkt c1 n) as [c2 ok]. cbn [fst] in Hp.
      destruct ok.
      * cbn [fst]. eapply as_trans; [exact H1|exact Hp].
      * eapply as_trans; [exact H1|]. eapply as_trans; [exact Hp|apply IHl].
Qed.
Lemma bucket_put_as fuel : forall c b an, asteps c (fst (bucket_put fuel c b an)).
Proof.
  induction fuel as [|f IH]; intros c b an; cbn [bucket_put]; [apply as_refl|].
  destruct (get_bkt b (c_buckets c)) as [bk|]; [|apply as_refl].
  destruct (get_app an (c_apps c)) as [a|]; [|apply as_refl].
  destruct (check_constraints c a (b_labels bk) (bkt_traits bk) (b_counters bk) (b_level bk) (b_free bk)); [|apply as_refl].
  destruct (live_positions (b_children bk) (cursor_of bk (a_aff a))) as [|[p0 n0] rest] eqn:El.
  - cbn [fst]. apply as_cursor.
  - apply try_children_as. intros c' n. apply IH.
Qed.
Lemma cell_put_as c an : asteps c (fst (cell_put c an)).
Proof. apply bucket_put_as. Qed.

Lemma fix_invalid_placements_as c : asteps c (fix_invalid_placements c).
Proof.
  unfold fix_invalid_placements. apply fold_as. intros c0 a0.
  destruct (get_app (a_name a0) (c_apps c0)) as [a|] eqn:Ea; [|apply as_refl].
  destruct (a_server a) as [n|] eqn:Es; [|apply as_refl].
  unfold is_member. destruct (get_srv n (c_servers c0)) eqn:En; [apply as_refl|].
  assert (Hname : a_name a = a_name a0) by (eapply MapsP.get_app_name; exact Ea).
  rewrite Hname.
  eapply as_trans; [|apply as_release].
  apply as_one, AS_core; [eapply PS_unplace; eassumption| | |]; reflexivity.
Qed.
Lemma handle_inactive_servers_as c : asteps c (handle_inactive_servers c).
Proof.
  unfold handle_inactive_servers. apply fold_as. intros c0 s0.
  destruct (get_srv (s_name s0) (c_servers c0)) as [s|]; [|apply as_refl].
  apply fold_as. intros c1 n. eapply as_trans; [apply as_remove|apply as_release].
Qed.
Lemma handle_blacklisted_as c : asteps c (handle_blacklisted c).
Proof.
  unfold handle_blacklisted. apply fold_as. intros c0 a0.
  destruct (get_app (a_name a0) (c_apps c0)) as [a|]; [|apply as_refl].
  destruct (a_blacklisted a); [|apply as_refl].
  destruct (a_server a) as [n|].
  - eapply as_trans; [apply as_remove|apply as_release].
  - apply as_release.
Qed.
Lemma fix_invalid_identities_as c : asteps c (fix_invalid_identities c).
Proof.
  unfold fix_invalid_identities. apply fold_as. intros c0 a0.
  destruct (get_app (a_name a0) (c_apps c0)) as [a|] eqn:Ea; [|apply as_refl].
  destruct (a_identity a) as [i|] eqn:Ei; [|apply as_refl].
  destruct (group_of c0 a) as [[g grp]|] eqn:Eg; [|apply as_refl].
  destruct (Z.geb i (g_count grp)) eqn:Ege; [|apply as_refl].
  rewrite (MapsP.get_app_name _ _ _ Ea).
  eapply as_trans; [apply as_one, AS_core; [eapply PS_forget; eassumption| | |]; reflexivity|].
  destruct (a_server a); [apply as_remove|apply as_refl].
Qed.
Lemma pre_phases_as c : asteps c (pre_phases c).
Proof.
  unfold pre_phases.
  eapply as_trans; [apply fix_invalid_placements_as|].
  eapply as_trans; [apply handle_inactive_servers_as|].
  eapply as_trans; [apply handle_blacklisted_as|apply fix_invalid_identities_as].
Qed.

Lemma evict_scan_as victims placer : forall c ev, asteps c (fst (evict_scan victims placer c ev)).
Proof.
  induction victims as [|v r IH]; intros c ev; cbn [evict_scan]; [apply as_refl|].
  destruct (Z.eqb v placer); [apply as_refl|].
  destruct (get_app v (c_apps c)) as [va|]; [|apply IH].
  destruct (a_server va) as [sn|]; [|apply IH].
  destruct (get_srv sn (c_servers c)) as [s|]; [|apply IH].
  destruct (s_state s); try apply IH.
  destruct (srv_put (srv_remove c sn v) sn placer) as [c2|] eqn:Ep.
  - cbn [fst]. eapply as_trans; [apply as_remove|eapply as_put; exact Ep].
  - eapply as_trans; [apply as_remove|apply IH].
Qed.

Lemma place_one_as rq st an : asteps (l_cell st) (l_cell (place_one rq st an)).
Proof.
  unfold place_one.
  destruct (get_app an (c_apps (l_cell st))) as [a|]; [|apply as_refl].
  destruct (a_blacklisted a); [apply as_refl|].
  destruct (Z.eqb (a_rank a) UNPLACED_RANK).
  { destruct (a_server a); cbn [l_cell set];
      [eapply as_trans; [apply as_remove|apply as_release]|apply as_release]. }
  set (cr := if a_renew a
             then match a_server a with
                  | Some n => let '(cr, ok) := srv_renew (l_cell st) n an in
                              if ok then (cr, None) else (srv_remove cr n an, Some (n, a_expiry a))
                  | None => (l_cell st, None)
                  end
             else (l_cell st, None)).
  assert (Hcr : asteps (l_cell st) (fst cr)).
  { subst cr. destruct (a_renew a); [|apply as_refl]. destruct (a_server a) as [n|]; [|apply as_refl].
    pose proof (srv_renew_as (l_cell st) n an) as Hr. destruct (srv_renew (l_cell st) n an) as [c0 ok]. cbn [fst] in Hr.
    destruct ok; cbn [fst]; [exact Hr|]. eapply as_trans; [exact Hr|apply as_remove]. }
  destruct cr as [c1 restore]. cbn [fst] in Hcr.
  set (c2 := c_upd_app an (fun x => x <| a_renew := false |>) c1).
  assert (H2 : asteps (l_cell st) c2) by (eapply as_trans; [exact Hcr|apply as_soft, soft_renew]).
  destruct (get_app an (c_apps c2)) as [a2|]; [|apply as_refl].
  destruct (a_server a2); [exact H2|].
  pose proof (as_acquire c2 an (aget an (l_choices st))) as Hacq.
  destruct (acquire_identity c2 an (aget an (l_choices st))) as [c3 got]. cbn [fst] in Hacq.
  assert (H3 : asteps (l_cell st) c3) by (eapply as_trans; [exact H2|exact Hacq]).
  destruct got; cbn [negb]; [|exact H3].
  set (r4 := match aget an (l_evicted st) with
             | Some (sn, ex) =>
                 let '(cr, ok) := srv_restore c3 sn an ex in
                 if ok then (c_upd_app an (fun x => x <| a_evicted := false |>) cr, true, adel an (l_evicted st))
                 else (cr, false, adel an (l_evicted st))
             | None => (c3, false, l_evicted st)
             end).
  assert (H4 : asteps c3 (fst (fst r4))).
  { subst r4. destruct (aget an (l_evicted st)) as [[sn ex]|]; [|apply as_refl].
    pose proof (srv_restore_as c3 sn an ex) as Hr. destruct (srv_restore c3 sn an ex) as [c0 ok]. cbn [fst] in Hr.
    destruct ok; cbn [fst]; [|exact Hr]. eapply as_trans; [exact Hr|apply as_soft, soft_evicted]. }
  destruct r4 as [[c4 restored] ev1]. cbn [fst] in H4.
  assert (H4' : asteps (l_cell st) c4) by (eapply as_trans; eassumption).
  destruct restored; [exact H4'|]. unfold place_tail.
  destruct (get_app an (c_apps c4)) as [a4|]; [|apply as_refl].
  destruct (a_once a4 && a_evicted a4); [cbn [l_cell set]; eapply as_trans; [exact H4'|apply as_release]|].
  destruct (negb (tr_feasible (l_tracker st) a4)); [cbn [l_cell set]; eapply as_trans; [exact H4'|apply as_release]|].
  pose proof (cell_put_as c4 an) as H5. destruct (cell_put c4 an) as [c5 ok]. cbn [fst] in H5.
  set (r6 := if ok then (c5, ev1) else evict_scan rq an c5 ev1).
  assert (H6 : asteps c5 (fst r6)).
  { subst r6. destruct ok; [apply as_refl|apply evict_scan_as]. }
  destruct r6 as [c6 ev2]. cbn [fst] in H6.
  assert (H6' : asteps (l_cell st) c6) by (eapply as_trans; [exact H4'|eapply as_trans; eassumption]).
  destruct (match get_app an (c_apps c6) with
            | Some a6 => match a_server a6 with Some _ => true | None => false end
            | None => false
            end); [exact H6'|].
  destruct restore as [[n ex]|].
  - pose proof (srv_restore_as c6 n an ex) as H7. destruct (srv_restore c6 n an ex) as [c7 ok7]. cbn [fst] in H7.
    destruct ok7; [|unfold give_up]; cbn [l_cell set]; (eapply as_trans; [exact H6'|]).
    + eapply as_trans; [exact H7|apply as_soft, soft_renew].
    + eapply as_trans; [exact H7|apply as_release].
  - unfold give_up. cbn [l_cell set]. eapply as_trans; [exact H6'|apply as_release].
Qed.

Lemma find_placements_as c q ch : asteps c (find_placements c q ch).
Proof.
  unfold find_placements.
  assert (G : forall l st, asteps (l_cell st) (l_cell (fold_left (place_one (rev q)) l st))).
  { induction l as [|x r IH]; intros st; cbn; [apply as_refl|].
    eapply as_trans; [apply place_one_as|apply IH]. }
  apply (G q (mkLoop c [] [] ch)).
Qed.
Lemma record_ranks_as c q : asteps c (record_ranks c q).
Proof. unfold record_ranks. apply fold_as. intros c0 e. apply as_soft, soft_rank. Qed.
Lemma schedule_alloc_as c label top ch : asteps c (fst (schedule_alloc c label top ch)).
Proof. unfold schedule_alloc. cbn [fst]. eapply as_trans; [apply record_ranks_as|apply find_placements_as]. Qed.

Theorem schedule_as c ch : asteps c (fst (fst (schedule c ch))).
Proof.
  unfold schedule.
  set (F := fun (acc : cell * list (Z * list entry)) (p : Z * alloc) =>
              let '(cc, qs) := acc in
              match aget (fst p) (c_parts cc) with
              | Some top => let '(cc', q) := schedule_alloc cc (fst p) top ch in (cc', qs ++ [(fst p, q)])
              | None => (cc, qs)
              end).
  assert (G : forall l acc, asteps (fst acc) (fst (fold_left F l acc))).
  { induction l as [|p r IH]; intros acc; cbn [fold_left]; [apply as_refl|].
    eapply as_trans; [|apply IH]. subst F. cbn beta. destruct acc as [cc qs]. cbn [fst].
    destruct (aget (fst p) (c_parts cc)) as [top|]; [|apply as_refl].
    pose proof (schedule_alloc_as cc (fst p) top ch) as Hs.
    destruct (schedule_alloc cc (fst p) top ch) as [cc' q]. exact Hs. }
  specialize (G (c_parts (pre_phases c)) (pre_phases c, [])).
  fold F. destruct (fold_left F (c_parts (pre_phases c)) (pre_phases c, [])) as [c1 qs]. cbn [fst] in *.
  eapply as_trans; [apply pre_phases_as|exact G].
Qed.

Theorem Inv_schedule c ch : Inv c -> Inv (fst (fst (schedule c ch))).
Proof. apply Inv_asteps, schedule_as. Qed.

(** ** a server is hung under a bucket *)
Definition par_rel (c c' : cell) : Prop :=
  forall m, match get_bkt m (c_buckets c), get_bkt m (c_buckets c') with
            | Some b, Some b' => b_parent b' = b_parent b
            | None, None => True
            | _, _ => False
            end.
Lemma up_ok_pointwise c c' : par_rel c c' -> forall k n, up_ok k c' n = up_ok k c n.
Proof.
  intros H. induction k as [|k IH]; intros n; cbn [up_ok]; [reflexivity|].
  specialize (H n). destruct (get_bkt n (c_buckets c)) as [b|], (get_bkt n (c_buckets c')) as [b'|]; try contradiction;
    [|reflexivity].
  rewrite H. destruct (b_parent b); [apply IH|reflexivity].
Qed.

Section AttachServer.
  Variables (cd c1 : cell) (p sn : Z) (bp bp1 : bucket) (s : server).
  Hypothesis W : TreeWf cd.
  Hypothesis Hnames : map b_name (c_buckets c1) = map b_name (c_buckets cd).
  Hypothesis Hbp : get_bkt p (c_buckets cd) = Some bp.
  Hypothesis Hbp1 : get_bkt p (c_buckets c1) = Some bp1.
  Hypothesis Hpar : b_parent bp1 = b_parent bp.
  Hypothesis Hch : b_children bp1 = b_children bp ++ [Some sn].
  Hypothesis Hbo : forall m, m <> p -> get_bkt m (c_buckets c1) = get_bkt m (c_buckets cd).
  Hypothesis Hsn_s : get_srv sn (c_servers cd) = None.
  Hypothesis Hsn_b : get_bkt sn (c_buckets cd) = None.
  Hypothesis Hs : get_srv sn (c_servers c1) = Some s.
  Hypothesis Hsp : s_parent s = Some p.
  Hypothesis Hso : forall m, m <> sn -> get_srv m (c_servers c1) = get_srv m (c_servers cd).

  Lemma as_p_ne_sn : p <> sn.
  Proof. intros ->. congruence. Qed.
  Lemma as_bkt_fwd m b : get_bkt m (c_buckets cd) = Some b ->
    exists b', get_bkt m (c_buckets c1) = Some b' /\ b_parent b' = b_parent b /\
               (forall x, In x (b_children b) -> In x (b_children b')).
  Proof.
    intros Hb. destruct (Z.eq_dec m p) as [->|Hne].
    - rewrite Hbp in Hb. inversion Hb; subst b. exists bp1. split; [exact Hbp1|]. split; [exact Hpar|].
      intros x Hx. rewrite Hch. apply in_or_app. left. exact Hx.
    - exists b. rewrite Hbo by exact Hne. auto.
  Qed.
  Lemma as_bkt_bwd m b' : get_bkt m (c_buckets c1) = Some b' ->
    exists b, get_bkt m (c_buckets cd) = Some b /\ b_parent b' = b_parent b /\
              (forall x, In x (b_children b') -> In x (b_children b) \/ (m = p /\ x = Some sn)).
  Proof.
    intros Hb. destruct (Z.eq_dec m p) as [->|Hne].
    - rewrite Hbp1 in Hb. inversion Hb; subst b'. exists bp. split; [exact Hbp|]. split; [exact Hpar|].
      intros x Hx. rewrite Hch in Hx. apply in_app_or in Hx as [Hx|[<-|[]]]; auto.
    - rewrite Hbo in Hb by exact Hne. exists b'. auto.
  Qed.
  Lemma as_srv_fwd m s0 : get_srv m (c_servers cd) = Some s0 -> get_srv m (c_servers c1) = Some s0.
  Proof. intros H. rewrite Hso; [exact H|]. intros ->. congruence. Qed.

  Lemma attach_server_TreeWf : TreeWf c1.
  Proof.
    constructor.
    - rewrite Hnames. apply (tw_bnames _ W).
    - intros n s' Hs'. destruct (Z.eq_dec n sn) as [->|Hne].
      + rewrite Hbo by (apply not_eq_sym, as_p_ne_sn). exact Hsn_b.
      + rewrite Hso in Hs' by exact Hne. pose proof (tw_disj _ W _ _ Hs') as Hn.
        destruct (Z.eq_dec n p) as [->|Hnp]; [congruence|]. rewrite Hbo by exact Hnp. exact Hn.
    - intros q b' m Hb' Hin. destruct (as_bkt_bwd _ _ Hb') as (b & Hb & _ & Hc).
      destruct (Hc _ Hin) as [Hin0|[-> E]].
      + destruct (tw_child _ W _ _ _ Hb Hin0) as [(s0 & Hs0 & Hp0)|(b0 & Hb0 & Hp0)].
        * left. exists s0. split; [apply as_srv_fwd; exact Hs0|exact Hp0].
        * right. destruct (as_bkt_fwd _ _ Hb0) as (b0' & Hb0' & Ep & _). exists b0'. split; [exact Hb0'|congruence].
      + inversion E; subst m. left. exists s. auto.
    - intros n s' q Hs' Hq. destruct (Z.eq_dec n sn) as [->|Hne].
      + rewrite Hs in Hs'. inversion Hs'; subst s'. rewrite Hsp in Hq. inversion Hq; subst q.
        exists bp1. split; [exact Hbp1|]. rewrite Hch. apply in_or_app. right. left. reflexivity.
      + rewrite Hso in Hs' by exact Hne. destruct (tw_sparent _ W _ _ _ Hs' Hq) as (b & Hb & Hin).
        destruct (as_bkt_fwd _ _ Hb) as (b' & Hb' & _ & Hc). exists b'. auto.
    - intros n b' q Hb' Hq. destruct (as_bkt_bwd _ _ Hb') as (b & Hb & Ep & _). rewrite Ep in Hq.
      destruct (tw_bparent _ W _ _ _ Hb Hq) as (b0 & Hb0 & Hin).
      destruct (as_bkt_fwd _ _ Hb0) as (b0' & Hb0' & _ & Hc). exists b0'. auto.
    - intros n b' Hb'. destruct (as_bkt_bwd _ _ Hb') as (b & Hb & _).
      assert (Hl : length (c_buckets c1) = length (c_buckets cd)) by (rewrite <- (map_length b_name), Hnames; apply map_length).
      rewrite Hl. rewrite (up_ok_pointwise cd c1); [eapply tw_depth; eassumption|].
      intros m. destruct (Z.eq_dec m p) as [->|Hne]; [rewrite Hbp, Hbp1; exact Hpar|].
      rewrite Hbo by exact Hne. destruct (get_bkt m (c_buckets cd)); reflexivity.
  Qed.

  (** views after the attachment *)
  Hypothesis HA : AggLocal cd.
  Hypothesis Hdim : c_dim c1 = c_dim cd.
  Hypothesis Hfree : b_free bp1 = b_free bp.
  Hypothesis Hlab : b_labels bp1 = b_labels bp.
  Variable tr : Z.
  Hypothesis Hself : b_self_traits bp1 = b_self_traits bp.
  Hypothesis Hct : b_child_traits bp1 = aset sn tr (b_child_traits bp).
  Hypothesis Htr : has_traits tr (s_traits s) = true.
  Hypothesis Hlen : length (s_free s) = c_dim cd.

  Lemma as_view_other m : m <> sn -> m <> p -> view c1 m = view cd m.
  Proof. intros H1 H2. unfold view. rewrite Hso, Hbo by assumption. reflexivity. Qed.
  Lemma as_view_p : view c1 p = Some (bview bp1) /\ view cd p = Some (bview bp).
  Proof.
    split; [apply view_bkt; [exact attach_server_TreeWf|exact Hbp1]|apply view_bkt; [exact W|exact Hbp]].
  Qed.
  (* every node other than the new server is seen as before, up to the traits of [p] *)
  Lemma as_view_bwd m w' : m <> sn -> view c1 m = Some w' ->
    exists w, view cd m = Some w /\ nv_parent w' = nv_parent w /\ nv_free w' = nv_free w /\ nv_labels w' = nv_labels w /\
              (m <> p -> nv_traits w' = nv_traits w).
  Proof.
    intros Hne Hv. destruct (Z.eq_dec m p) as [->|Hmp].
    - destruct as_view_p as [V1 V2]. rewrite V1 in Hv. inversion Hv; subst w'. exists (bview bp).
      split; [exact V2|]. cbn. rewrite Hpar, Hfree, Hlab. repeat split; congruence.
    - rewrite as_view_other in Hv by assumption. exists w'. repeat split; auto.
  Qed.

  Lemma attach_server_Agg3 : Agg3 c1 (Some (p, s_free s)) (Some (p, [s_label s])) (Some p).
  Proof.
    destruct HA as (HD & HF & HL & HT).
    assert (D1 : BDims c1).
    { intros m b' Hb'. rewrite Hdim. destruct (Z.eq_dec m p) as [->|Hne].
      - rewrite Hbp1 in Hb'. inversion Hb'; subst b'. rewrite Hfree. apply (HD _ _ Hbp).
      - rewrite Hbo in Hb' by exact Hne. apply (HD _ _ Hb'). }
    assert (Hbfree : forall q b', get_bkt q (c_buckets c1) = Some b' ->
              exists b, get_bkt q (c_buckets cd) = Some b /\ b_free b' = b_free b /\ b_labels b' = b_labels b /\
                        (q <> p -> b_child_traits b' = b_child_traits b)).
    { intros q b' Hb'. destruct (Z.eq_dec q p) as [->|Hne].
      - rewrite Hbp1 in Hb'. inversion Hb'; subst b'. exists bp. repeat split; auto; congruence.
      - rewrite Hbo in Hb' by exact Hne. exists b'. auto. }
    split; [exact D1|]. split; [|split].
    - intros m w' q b' f Hv Hq Hb' Hf. destruct (Z.eq_dec m sn) as [->|Hne].
      + rewrite (view_srv _ _ _ Hs) in Hv. inversion Hv; subst w'. cbn in Hq. rewrite Hsp in Hq. inversion Hq; subst q.
        rewrite Z.eqb_refl. cbn in Hf. destruct (s_state s); inversion Hf; subst f.
        apply vle_vmax_r. destruct (D1 _ _ Hb'). lia.
      + destruct (as_view_bwd _ _ Hne Hv) as (w & Hw & E1 & E2 & _). destruct (Hbfree _ _ Hb') as (b & Hb & E3 & _).
        rewrite E1 in Hq. rewrite E2 in Hf. pose proof (HF m w q b f Hw Hq Hb Hf) as H. cbv beta iota in H.
        rewrite E3. destruct (Z.eqb q p); [|exact H]. eapply vle_trans; [exact H|]. apply vle_vmax_l.
        destruct (HD _ _ Hb). lia.
    - intros m w' q b' Hv Hq Hb'. destruct (Z.eq_dec m sn) as [->|Hne].
      + rewrite (view_srv _ _ _ Hs) in Hv. inversion Hv; subst w'. cbn in Hq. rewrite Hsp in Hq. inversion Hq; subst q.
        rewrite Z.eqb_refl. cbn [nv_labels sview]. apply union_labels_incl.
      + destruct (as_view_bwd _ _ Hne Hv) as (w & Hw & E1 & _ & E2 & _). destruct (Hbfree _ _ Hb') as (b & Hb & _ & E3 & _).
        rewrite E1 in Hq. pose proof (HL m w q b Hw Hq Hb) as H. cbv beta iota in H.
        rewrite E2, E3. destruct (Z.eqb q p); [|exact H]. eapply incl_tran; [exact H|]. apply union_labels_incl.
    - intros m w' q b' Hv Hq Hb' Hx. assert (Hmp : m <> p) by congruence. destruct (Z.eq_dec m sn) as [->|Hne].
      + rewrite (view_srv _ _ _ Hs) in Hv. inversion Hv; subst w'. cbn in Hq. rewrite Hsp in Hq. inversion Hq; subst q.
        rewrite Hbp1 in Hb'. inversion Hb'; subst b'. rewrite Hct, ag_as_same. exists tr. split; [reflexivity|exact Htr].
      + destruct (as_view_bwd _ _ Hne Hv) as (w & Hw & E1 & _ & _ & E2). destruct (Hbfree _ _ Hb') as (b & Hb & _ & _ & E3).
        rewrite E1 in Hq. rewrite (E2 Hmp).
        destruct (HT m w q b Hw Hq Hb) as (t & Ht & Htt); [discriminate|]. exists t. split; [|exact Htt].
        destruct (Z.eq_dec q p) as [->|Hqp].
        * rewrite Hbp1 in Hb'. inversion Hb'; subst b'. rewrite Hbp in Hb. inversion Hb; subst b.
          rewrite Hct, ag_as_other by exact Hne. exact Ht.
        * rewrite (E3 Hqp). exact Ht.
  Qed.
End AttachServer.

Lemma upd_bkt_names n g l : (forall x, b_name (g x) = b_name x) -> map b_name (upd_bkt n g l) = map b_name l.
Proof.
  intros Hg. induction l as [|x t IH]; cbn; [reflexivity|].
  destruct (Z.eqb (b_name x) n); cbn; [rewrite Hg; reflexivity|rewrite IH; reflexivity].
Qed.

(** ** Bucket.add_node(server) *)
Lemma add_server_ok c s p bp :
  TreeWf c -> AggLocal c ->
  s_parent s = Some p -> get_bkt p (c_buckets c) = Some bp ->
  get_srv (s_name s) (c_servers c) = None -> get_bkt (s_name s) (c_buckets c) = None ->
  length (s_free s) = c_dim c ->
  TreeWf (add_server c s) /\ AggLocal (add_server c s).
Proof.
  intros W HL Hsp Hbp Hfs Hfb Hlen. unfold add_server. rewrite Hsp.
  set (c0 := c <| c_servers ::= (fun l => l ++ [s]) |>).
  set (g := fun b : bucket => b <| b_children ::= (fun l => l ++ [Some (s_name s)]) |>
                                <| b_child_traits ::= aset (s_name s) (s_traits s) |>).
  set (c1 := c_upd_bkt p g c0).
  assert (Hg : forall x, b_name (g x) = b_name x) by reflexivity.
  assert (Hbp1 : get_bkt p (c_buckets c1) = Some (g bp)) by (apply get_bkt_upd_same; [exact Hg|exact Hbp]).
  assert (Hbo : forall m, m <> p -> get_bkt m (c_buckets c1) = get_bkt m (c_buckets c))
    by (intros m Hm; unfold c1; rewrite get_bkt_upd_other by assumption; reflexivity).
  assert (Hnames : map b_name (c_buckets c1) = map b_name (c_buckets c))
    by (unfold c1, c_upd_bkt; cbn [c_buckets set]; apply upd_bkt_names; exact Hg).
  assert (Hs1 : get_srv (s_name s) (c_servers c1) = Some s).
  { unfold c1, c_upd_bkt, c0. cbn [c_servers set]. rewrite get_srv_snoc, Hfs, Z.eqb_refl. reflexivity. }
  assert (Hso : forall m, m <> s_name s -> get_srv m (c_servers c1) = get_srv m (c_servers c)).
  { intros m Hm. unfold c1, c_upd_bkt, c0. cbn [c_servers set]. rewrite get_srv_snoc.
    destruct (get_srv m (c_servers c)); [reflexivity|]. destruct (Z.eqb_spec (s_name s) m); [congruence|reflexivity]. }
  apply (attach_common_ok c0 p (s_name s) (s_traits s) (s_counters s) [s_label s] (s_free s)).
  - apply (attach_server_TreeWf c c1 p (s_name s) bp (g bp) s); auto.
  - eauto.
  - exact Hlen.
  - apply (attach_server_Agg3 c c1 p (s_name s) bp (g bp) s) with (tr := s_traits s); auto. apply has_traits_refl.
Qed.

(** ** a new, empty bucket is hung under a bucket *)
Lemma get_bkt_none_notin n l : get_bkt n l = None -> ~ In n (map b_name l).
Proof.
  induction l as [|x t IH]; cbn; [tauto|]. destruct (Z.eqb_spec (b_name x) n); [discriminate|].
  intros H [E|Hin]; [congruence|apply IH; assumption].
Qed.
Lemma up_ok_fwd cd c1 :
  (forall m b, get_bkt m (c_buckets cd) = Some b -> exists b', get_bkt m (c_buckets c1) = Some b' /\ b_parent b' = b_parent b) ->
  forall k m, up_ok k cd m = true -> up_ok k c1 m = true.
Proof.
  intros H. induction k as [|k IH]; intros m; cbn [up_ok]; [discriminate|].
  destruct (get_bkt m (c_buckets cd)) as [b|] eqn:Hb; [|discriminate].
  destruct (H _ _ Hb) as (b' & Hb' & Ep). rewrite Hb', Ep. destruct (b_parent b); [apply IH|reflexivity].
Qed.

Section AttachBucket.
  Variables (cd c1 : cell) (p nn : Z) (bp bp1 nb : bucket).
  Hypothesis W : TreeWf cd.
  Hypothesis Hnames : map b_name (c_buckets c1) = map b_name (c_buckets cd) ++ [nn].
  Hypothesis Hbp : get_bkt p (c_buckets cd) = Some bp.
  Hypothesis Hbp1 : get_bkt p (c_buckets c1) = Some bp1.
  Hypothesis Hpar : b_parent bp1 = b_parent bp.
  Hypothesis Hch : b_children bp1 = b_children bp ++ [Some nn].
  Hypothesis Hnb : get_bkt nn (c_buckets c1) = Some nb.
  Hypothesis Hnbp : b_parent nb = Some p.
  Hypothesis Hnbc : b_children nb = [].
  Hypothesis Hbo : forall m, m <> p -> m <> nn -> get_bkt m (c_buckets c1) = get_bkt m (c_buckets cd).
  Hypothesis Hnn_s : get_srv nn (c_servers cd) = None.
  Hypothesis Hnn_b : get_bkt nn (c_buckets cd) = None.
  Hypothesis Hsrv : c_servers c1 = c_servers cd.

  Lemma ab_p_ne_nn : p <> nn.
  Proof. intros ->. congruence. Qed.
  Lemma ab_bkt_fwd m b : get_bkt m (c_buckets cd) = Some b ->
    exists b', get_bkt m (c_buckets c1) = Some b' /\ b_parent b' = b_parent b /\
               (forall x, In x (b_children b) -> In x (b_children b')).
  Proof.
    intros Hb. assert (Hmn : m <> nn) by (intros ->; congruence). destruct (Z.eq_dec m p) as [->|Hne].
    - rewrite Hbp in Hb. inversion Hb; subst b. exists bp1. split; [exact Hbp1|]. split; [exact Hpar|].
      intros x Hx. rewrite Hch. apply in_or_app. left. exact Hx.
    - exists b. rewrite Hbo by assumption. auto.
  Qed.
  Lemma ab_bkt_bwd m b' : m <> nn -> get_bkt m (c_buckets c1) = Some b' ->
    exists b, get_bkt m (c_buckets cd) = Some b /\ b_parent b' = b_parent b /\
              (forall x, In x (b_children b') -> In x (b_children b) \/ (m = p /\ x = Some nn)).
  Proof.
    intros Hmn Hb. destruct (Z.eq_dec m p) as [->|Hne].
    - rewrite Hbp1 in Hb. inversion Hb; subst b'. exists bp. split; [exact Hbp|]. split; [exact Hpar|].
      intros x Hx. rewrite Hch in Hx. apply in_app_or in Hx as [Hx|[<-|[]]]; auto.
    - rewrite Hbo in Hb by assumption. exists b'. auto.
  Qed.

  Lemma attach_bucket_TreeWf : TreeWf c1.
  Proof.
    assert (Hl : length (c_buckets c1) = S (length (c_buckets cd))).
    { rewrite <- (map_length b_name), Hnames, app_length, map_length. cbn. lia. }
    assert (Hfwd : forall m b, get_bkt m (c_buckets cd) = Some b ->
                               exists b', get_bkt m (c_buckets c1) = Some b' /\ b_parent b' = b_parent b).
    { intros m b Hb. destruct (ab_bkt_fwd _ _ Hb) as (b' & H1 & H2 & _). eauto. }
    constructor.
    - rewrite Hnames. apply NoDup_snoc; [apply (tw_bnames _ W)|apply get_bkt_none_notin; exact Hnn_b].
    - intros n s' Hs'. rewrite Hsrv in Hs'. pose proof (tw_disj _ W _ _ Hs') as Hn.
      assert (n <> nn) by (intros ->; congruence). assert (n <> p) by (intros ->; congruence).
      rewrite Hbo by assumption. exact Hn.
    - intros q b' m Hb' Hin. destruct (Z.eq_dec q nn) as [->|Hqn].
      { rewrite Hnb in Hb'. inversion Hb'; subst b'. rewrite Hnbc in Hin. destruct Hin. }
      destruct (ab_bkt_bwd _ _ Hqn Hb') as (b & Hb & _ & Hc).
      destruct (Hc _ Hin) as [Hin0|[-> E]].
      + destruct (tw_child _ W _ _ _ Hb Hin0) as [(s0 & Hs0 & Hp0)|(b0 & Hb0 & Hp0)].
        * left. exists s0. rewrite Hsrv. auto.
        * right. destruct (ab_bkt_fwd _ _ Hb0) as (b0' & Hb0' & Ep & _). exists b0'. split; [exact Hb0'|congruence].
      + inversion E; subst m. right. exists nb. auto.
    - intros n s' q Hs' Hq. rewrite Hsrv in Hs'. destruct (tw_sparent _ W _ _ _ Hs' Hq) as (b & Hb & Hin).
      destruct (ab_bkt_fwd _ _ Hb) as (b' & Hb' & _ & Hc). exists b'. auto.
    - intros n b' q Hb' Hq. destruct (Z.eq_dec n nn) as [->|Hne].
      + rewrite Hnb in Hb'. inversion Hb'; subst b'. rewrite Hnbp in Hq. inversion Hq; subst q.
        exists bp1. split; [exact Hbp1|]. rewrite Hch. apply in_or_app. right. left. reflexivity.
      + destruct (ab_bkt_bwd _ _ Hne Hb') as (b & Hb & Ep & _). rewrite Ep in Hq.
        destruct (tw_bparent _ W _ _ _ Hb Hq) as (b0 & Hb0 & Hin).
        destruct (ab_bkt_fwd _ _ Hb0) as (b0' & Hb0' & _ & Hc). exists b0'. auto.
    - intros n b' Hb'. rewrite Hl. destruct (Z.eq_dec n nn) as [->|Hne].
      + cbn [up_ok]. rewrite Hnb, Hnbp. apply (up_ok_fwd cd c1 Hfwd). eapply tw_depth; eassumption.
      + destruct (ab_bkt_bwd _ _ Hne Hb') as (b & Hb & _). apply up_ok_mono. apply (up_ok_fwd cd c1 Hfwd).
        eapply tw_depth; eassumption.
  Qed.

  Hypothesis HA : AggLocal cd.
  Hypothesis Hdim : c_dim c1 = c_dim cd.
  Hypothesis Hfree : b_free bp1 = b_free bp.
  Hypothesis Hlab : b_labels bp1 = b_labels bp.
  Hypothesis Hself : b_self_traits bp1 = b_self_traits bp.
  Hypothesis Hct : b_child_traits bp1 = aset nn 0 (b_child_traits bp).
  Hypothesis Hnbf : b_free nb = vzero (c_dim cd).
  Hypothesis Hnbl : b_labels nb = [].
  Hypothesis Hnbt : bkt_traits nb = 0.

  Lemma ab_view_nn : view c1 nn = Some (bview nb).
  Proof. apply view_bkt; [exact attach_bucket_TreeWf|exact Hnb]. Qed.
  Lemma ab_view_bwd m w' : m <> nn -> view c1 m = Some w' ->
    exists w, view cd m = Some w /\ nv_parent w' = nv_parent w /\ nv_free w' = nv_free w /\ nv_labels w' = nv_labels w /\
              (m <> p -> nv_traits w' = nv_traits w).
  Proof.
    intros Hne Hv. destruct (Z.eq_dec m p) as [->|Hmp].
    - rewrite (view_bkt _ _ _ attach_bucket_TreeWf Hbp1) in Hv. inversion Hv; subst w'. exists (bview bp).
      split; [apply view_bkt; [exact W|exact Hbp]|]. cbn. rewrite Hpar, Hfree, Hlab. repeat split; congruence.
    - exists w'. split; [|repeat split; auto]. unfold view in *. rewrite Hsrv in Hv. rewrite Hbo in Hv by assumption. exact Hv.
  Qed.
  (* no node of the old tree hangs under the new name *)
  Lemma ab_no_child m w : view cd m = Some w -> nv_parent w <> Some nn.
  Proof.
    intros Hv Hp. destruct (view_parent_bkt _ _ _ _ W Hv Hp) as (b & Hb & _). congruence.
  Qed.

  Lemma attach_bucket_Agg3 : Agg3 c1 (Some (p, vzero (c_dim cd))) (Some (p, [])) (Some p).
  Proof.
    destruct HA as (HD & HF & HL & HT).
    assert (D1 : BDims c1).
    { intros m b' Hb'. rewrite Hdim. destruct (Z.eq_dec m nn) as [->|Hmn].
      - rewrite Hnb in Hb'. inversion Hb'; subst b'. rewrite Hnbf. split; [apply vzero_length|apply nonneg_vzero].
      - destruct (Z.eq_dec m p) as [->|Hne].
        + rewrite Hbp1 in Hb'. inversion Hb'; subst b'. rewrite Hfree. apply (HD _ _ Hbp).
        + rewrite Hbo in Hb' by assumption. apply (HD _ _ Hb'). }
    assert (Hbfree : forall q b', q <> nn -> get_bkt q (c_buckets c1) = Some b' ->
              exists b, get_bkt q (c_buckets cd) = Some b /\ b_free b' = b_free b /\ b_labels b' = b_labels b /\
                        (q <> p -> b_child_traits b' = b_child_traits b)).
    { intros q b' Hqn Hb'. destruct (Z.eq_dec q p) as [->|Hne].
      - rewrite Hbp1 in Hb'. inversion Hb'; subst b'. exists bp. repeat split; auto; congruence.
      - rewrite Hbo in Hb' by assumption. exists b'. auto. }
    split; [exact D1|]. split; [|split].
    - intros m w' q b' f Hv Hq Hb' Hf. destruct (Z.eq_dec m nn) as [->|Hne].
      + rewrite ab_view_nn in Hv. inversion Hv; subst w'. cbn in Hq. rewrite Hnbp in Hq. inversion Hq; subst q.
        rewrite Z.eqb_refl. cbn in Hf. inversion Hf; subst f. rewrite Hnbf.
        apply vle_vmax_r. destruct (D1 _ _ Hb'). rewrite vzero_length. lia.
      + destruct (ab_view_bwd _ _ Hne Hv) as (w & Hw & E1 & E2 & _).
        rewrite E1 in Hq. assert (Hqn : q <> nn) by (intros ->; exact (ab_no_child _ _ Hw Hq)).
        destruct (Hbfree _ _ Hqn Hb') as (b & Hb & E3 & _).
        rewrite E2 in Hf. pose proof (HF m w q b f Hw Hq Hb Hf) as H. cbv beta iota in H.
        rewrite E3. destruct (Z.eqb q p); [|exact H]. eapply vle_trans; [exact H|]. apply vle_vmax_l.
        destruct (HD _ _ Hb). rewrite vzero_length. lia.
    - intros m w' q b' Hv Hq Hb'. destruct (Z.eq_dec m nn) as [->|Hne].
      + rewrite ab_view_nn in Hv. inversion Hv; subst w'. cbn [nv_labels bview]. rewrite Hnbl. intros x [].
      + destruct (ab_view_bwd _ _ Hne Hv) as (w & Hw & E1 & _ & E2 & _).
        rewrite E1 in Hq. assert (Hqn : q <> nn) by (intros ->; exact (ab_no_child _ _ Hw Hq)).
        destruct (Hbfree _ _ Hqn Hb') as (b & Hb & _ & E3 & _).
        pose proof (HL m w q b Hw Hq Hb) as H. cbv beta iota in H.
        rewrite E2, E3. destruct (Z.eqb q p); [|exact H]. eapply incl_tran; [exact H|]. apply union_labels_incl.
    - intros m w' q b' Hv Hq Hb' Hx. assert (Hmp : m <> p) by congruence. destruct (Z.eq_dec m nn) as [->|Hne].
      + rewrite ab_view_nn in Hv. inversion Hv; subst w'. cbn in Hq. rewrite Hnbp in Hq. inversion Hq; subst q.
        rewrite Hbp1 in Hb'. inversion Hb'; subst b'. rewrite Hct, ag_as_same. exists 0. split; [reflexivity|].
        cbn [nv_traits bview]. rewrite Hnbt. apply has_traits_refl.
      + destruct (ab_view_bwd _ _ Hne Hv) as (w & Hw & E1 & _ & _ & E2).
        rewrite E1 in Hq. assert (Hqn : q <> nn) by (intros ->; exact (ab_no_child _ _ Hw Hq)).
        destruct (Hbfree _ _ Hqn Hb') as (b & Hb & _ & _ & E3).
        rewrite (E2 Hmp).
        destruct (HT m w q b Hw Hq Hb) as (t & Ht & Htt); [discriminate|]. exists t. split; [|exact Htt].
        destruct (Z.eq_dec q p) as [->|Hqp].
        * rewrite Hbp1 in Hb'. inversion Hb'; subst b'. rewrite Hbp in Hb. inversion Hb; subst b.
          rewrite Hct, ag_as_other by exact Hne. exact Ht.
        * rewrite (E3 Hqp). exact Ht.
  Qed.
End AttachBucket.

Lemma add_bucket_ok c name level p bp :
  TreeWf c -> AggLocal c -> get_bkt p (c_buckets c) = Some bp ->
  get_srv name (c_servers c) = None -> get_bkt name (c_buckets c) = None ->
  TreeWf (add_bucket c name level (Some p)) /\ AggLocal (add_bucket c name level (Some p)).
Proof.
  intros W HL Hbp Hfs Hfb. unfold add_bucket.
  set (nb := mkBucket name (Some p) level [] (vzero (c_dim c)) 0 [] [] [] []).
  set (c0 := c <| c_buckets ::= (fun l => l ++ [nb]) |>).
  set (g := fun b : bucket => b <| b_children ::= (fun l => l ++ [Some name]) |> <| b_child_traits ::= aset name 0 |>).
  set (c1 := c_upd_bkt p g c0).
  assert (Hg : forall x, b_name (g x) = b_name x) by reflexivity.
  assert (Hpn : p <> name) by (intros ->; congruence).
  assert (Hbp0 : get_bkt p (c_buckets c0) = Some bp) by (unfold c0; cbn [c_buckets set]; rewrite get_bkt_snoc, Hbp; reflexivity).
  assert (Hbp1 : get_bkt p (c_buckets c1) = Some (g bp)) by (apply get_bkt_upd_same; assumption).
  assert (Hnb : get_bkt name (c_buckets c1) = Some nb).
  { unfold c1. rewrite get_bkt_upd_other by (exact Hg || congruence). unfold c0. cbn [c_buckets set].
    rewrite get_bkt_snoc, Hfb. cbn [b_name nb]. rewrite Z.eqb_refl. reflexivity. }
  assert (Hbo : forall m, m <> p -> m <> name -> get_bkt m (c_buckets c1) = get_bkt m (c_buckets c)).
  { intros m H1 H2. unfold c1. rewrite get_bkt_upd_other by assumption. unfold c0. cbn [c_buckets set].
    rewrite get_bkt_snoc. destruct (get_bkt m (c_buckets c)); [reflexivity|]. cbn [b_name nb].
    destruct (Z.eqb_spec name m); [congruence|reflexivity]. }
  assert (Hnames : map b_name (c_buckets c1) = map b_name (c_buckets c) ++ [name]).
  { unfold c1, c_upd_bkt, c0. cbn [c_buckets set]. rewrite upd_bkt_names by exact Hg. rewrite map_app. reflexivity. }
  apply (attach_common_ok c0 p name 0 [] [] (vzero (c_dim c))).
  - apply (attach_bucket_TreeWf c c1 p name bp (g bp) nb); auto.
  - eauto.
  - apply vzero_length.
  - apply (attach_bucket_Agg3 c c1 p name bp (g bp) nb); auto.
Qed.

(** ** a server leaves its bucket *)
Definition detach_rel (sn : Z) (b b' : bucket) : Prop :=
  b_parent b' = b_parent b /\ b_free b' = b_free b /\ b_labels b' = b_labels b /\
  (forall x, In (Some x) (b_children b') <-> (In (Some x) (b_children b) /\ x <> sn)) /\
  (forall x, x <> sn -> aget x (b_child_traits b') = aget x (b_child_traits b)).

Section DetachServer.
  Variables (cd c1 : cell) (sn : Z) (s : server).
  Hypothesis W : TreeWf cd.
  Hypothesis Hnames : map b_name (c_buckets c1) = map b_name (c_buckets cd).
  Hypothesis Hs : get_srv sn (c_servers cd) = Some s.
  Hypothesis Hs1 : get_srv sn (c_servers c1) = None.
  Hypothesis Hso : forall m, m <> sn -> get_srv m (c_servers c1) = get_srv m (c_servers cd).
  Hypothesis Hbk : forall m, match get_bkt m (c_buckets cd), get_bkt m (c_buckets c1) with
                             | Some b, Some b' => detach_rel sn b b'
                             | None, None => True
                             | _, _ => False
                             end.
  (* only the parent's trait entries change *)
  Hypothesis Hbt : forall m b b', Some m <> s_parent s -> get_bkt m (c_buckets cd) = Some b ->
                                  get_bkt m (c_buckets c1) = Some b' -> bkt_traits b' = bkt_traits b.

  Lemma ds_fwd m b : get_bkt m (c_buckets cd) = Some b -> exists b', get_bkt m (c_buckets c1) = Some b' /\ detach_rel sn b b'.
  Proof. intros Hb. specialize (Hbk m). rewrite Hb in Hbk. destruct (get_bkt m (c_buckets c1)); [eauto|contradiction]. Qed.
  Lemma ds_bwd m b' : get_bkt m (c_buckets c1) = Some b' -> exists b, get_bkt m (c_buckets cd) = Some b /\ detach_rel sn b b'.
  Proof. intros Hb. specialize (Hbk m). rewrite Hb in Hbk. destruct (get_bkt m (c_buckets cd)); [eauto|contradiction]. Qed.
  Lemma ds_sn_not_bkt : get_bkt sn (c_buckets cd) = None.
  Proof. eapply tw_disj; eassumption. Qed.

  Lemma detach_server_TreeWf : TreeWf c1.
  Proof.
    constructor.
    - rewrite Hnames. apply (tw_bnames _ W).
    - intros n s' Hs'. assert (Hne : n <> sn) by (intros ->; congruence). rewrite Hso in Hs' by exact Hne.
      pose proof (tw_disj _ W _ _ Hs') as Hn. specialize (Hbk n). rewrite Hn in Hbk.
      destruct (get_bkt n (c_buckets c1)); [contradiction|reflexivity].
    - intros q b' m Hb' Hin. destruct (ds_bwd _ _ Hb') as (b & Hb & _ & _ & _ & Hc & _).
      destruct (proj1 (Hc m) Hin) as [Hin0 Hne].
      destruct (tw_child _ W _ _ _ Hb Hin0) as [(s0 & Hs0 & Hp0)|(b0 & Hb0 & Hp0)].
      + left. exists s0. rewrite Hso by exact Hne. auto.
      + right. destruct (ds_fwd _ _ Hb0) as (b0' & Hb0' & Ep & _). exists b0'. split; [exact Hb0'|congruence].
    - intros n s' q Hs' Hq. assert (Hne : n <> sn) by (intros ->; congruence). rewrite Hso in Hs' by exact Hne.
      destruct (tw_sparent _ W _ _ _ Hs' Hq) as (b & Hb & Hin).
      destruct (ds_fwd _ _ Hb) as (b' & Hb' & _ & _ & _ & Hc & _). exists b'. split; [exact Hb'|]. apply Hc. auto.
    - intros n b' q Hb' Hq. destruct (ds_bwd _ _ Hb') as (b & Hb & Ep & _). rewrite Ep in Hq.
      destruct (tw_bparent _ W _ _ _ Hb Hq) as (b0 & Hb0 & Hin).
      destruct (ds_fwd _ _ Hb0) as (b0' & Hb0' & _ & _ & _ & Hc & _). exists b0'. split; [exact Hb0'|]. apply Hc.
      split; [exact Hin|]. intros ->. rewrite ds_sn_not_bkt in Hb. discriminate.
    - intros n b' Hb'. destruct (ds_bwd _ _ Hb') as (b & Hb & _).
      assert (Hl : length (c_buckets c1) = length (c_buckets cd)) by (rewrite <- (map_length b_name), Hnames; apply map_length).
      rewrite Hl. rewrite (up_ok_pointwise cd c1); [eapply tw_depth; eassumption|].
      intros m. specialize (Hbk m). destruct (get_bkt m (c_buckets cd)), (get_bkt m (c_buckets c1)); try contradiction;
        [apply Hbk|exact I].
  Qed.

  Hypothesis HA : AggLocal cd.
  Hypothesis Hdim : c_dim c1 = c_dim cd.

  Lemma ds_view_bwd m w' : view c1 m = Some w' ->
    m <> sn /\ exists w, view cd m = Some w /\ nv_parent w' = nv_parent w /\ nv_free w' = nv_free w /\
                         nv_labels w' = nv_labels w /\ (Some m <> s_parent s -> nv_traits w' = nv_traits w).
  Proof.
    intros Hv. assert (Hne : m <> sn).
    { intros ->. unfold view in Hv. rewrite Hs1 in Hv. pose proof (Hbk sn) as H. rewrite ds_sn_not_bkt in H.
      destruct (get_bkt sn (c_buckets c1)); [contradiction|discriminate]. }
    split; [exact Hne|]. unfold view in *. rewrite Hso in Hv by exact Hne.
    destruct (get_srv m (c_servers cd)) as [s0|]; [inversion Hv; subst; eexists; repeat split; reflexivity|].
    destruct (get_bkt m (c_buckets c1)) as [b'|] eqn:Hb'; cbn in Hv; [|discriminate]. inversion Hv; subst w'.
    destruct (ds_bwd _ _ Hb') as (b & Hb & E1 & E2 & E3 & _). rewrite Hb. cbn. exists (bview b). split; [reflexivity|].
    cbn. rewrite E1, E2, E3. repeat split. intros Hx. eapply Hbt; eassumption.
  Qed.

  Lemma detach_server_Agg3 : Agg3 c1 None None (s_parent s).
  Proof.
    destruct HA as (HD & HF & HL & HT). split; [|split; [|split]].
    - intros m b' Hb'. destruct (ds_bwd _ _ Hb') as (b & Hb & _ & E & _). rewrite Hdim, E. apply (HD _ _ Hb).
    - intros m w' q b' f Hv Hq Hb' Hf. destruct (ds_view_bwd _ _ Hv) as (_ & w & Hw & E1 & E2 & _).
      destruct (ds_bwd _ _ Hb') as (b & Hb & _ & E & _). rewrite E. apply (HF m w q b f Hw); congruence.
    - intros m w' q b' Hv Hq Hb'. destruct (ds_view_bwd _ _ Hv) as (_ & w & Hw & E1 & _ & E2 & _).
      destruct (ds_bwd _ _ Hb') as (b & Hb & _ & _ & E & _). rewrite E, E2. apply (HL m w q b Hw); congruence.
    - intros m w' q b' Hv Hq Hb' Hx. destruct (ds_view_bwd _ _ Hv) as (Hne & w & Hw & E1 & _ & _ & E2).
      destruct (ds_bwd _ _ Hb') as (b & Hb & _ & _ & _ & _ & E). rewrite (E m Hne), E2 by congruence.
      apply (HT m w q b Hw); [congruence|exact Hb|discriminate].
  Qed.
End DetachServer.

Lemma hole_child_In sn l x : In (Some x) (hole_child sn l) <-> (In (Some x) l /\ x <> sn).
Proof.
  unfold hole_child. rewrite in_map_iff. split.
  - intros ([y|] & E & Hin); [|discriminate]. destruct (Z.eqb_spec y sn); [discriminate|]. inversion E; subst. auto.
  - intros [Hin Hne]. exists (Some x). split; [|exact Hin]. destruct (Z.eqb_spec x sn); [contradiction|reflexivity].
Qed.

Lemma listed_parent c sn s q b : TreeWf c -> get_srv sn (c_servers c) = Some s -> get_bkt q (c_buckets c) = Some b ->
  In (Some sn) (b_children b) -> s_parent s = Some q.
Proof.
  intros W Hs Hb Hin. destruct (tw_child _ W _ _ _ Hb Hin) as [(s' & Hs' & Hp)|(b' & Hb' & _)].
  - congruence.
  - rewrite (tw_disj _ W _ _ Hs) in Hb'. discriminate.
Qed.

Lemma detach_rel_same c sn s q b : TreeWf c -> get_srv sn (c_servers c) = Some s -> get_bkt q (c_buckets c) = Some b ->
  s_parent s <> Some q -> detach_rel sn b b.
Proof.
  intros W Hs Hb Hne. repeat split; auto.
  - intros ->. apply Hne. eapply listed_parent; eassumption.
  - tauto.
Qed.

(** the bucket part of remove_node, given the cell without the server *)
Lemma unhook_ok c c0 sn s p :
  TreeWf c -> AggLocal c -> get_srv sn (c_servers c) = Some s -> s_parent s = Some p ->
  c_dim c0 = c_dim c -> c_buckets c0 = c_buckets c -> SDims c0 ->
  get_srv sn (c_servers c0) = None -> (forall m, m <> sn -> get_srv m (c_servers c0) = get_srv m (c_servers c)) ->
  TreeWf (unhook_server c0 p s) /\ AggLocal (unhook_server c0 p s).
Proof.
  intros W HL Hs Hp Hdim Hbk0 HS0 Hs0 Hso. unfold unhook_server.
  assert (Hsn : s_name s = sn) by (eapply get_srv_name; exact Hs). rewrite Hsn.
  set (g := fun b : bucket => b <| b_children ::= hole_child sn |> <| b_child_traits ::= adel sn |>).
  set (c1 := c_upd_bkt p g c0).
  assert (Hg : forall x, b_name (g x) = b_name x) by reflexivity.
  destruct (tw_sparent _ W _ _ _ Hs Hp) as (bp & Hbp & Hinp).
  assert (Hbp0 : get_bkt p (c_buckets c0) = Some bp) by (rewrite Hbk0; exact Hbp).
  assert (Hbp1 : get_bkt p (c_buckets c1) = Some (g bp)) by (apply get_bkt_upd_same; assumption).
  assert (Hbo : forall m, m <> p -> get_bkt m (c_buckets c1) = get_bkt m (c_buckets c))
    by (intros m Hm; unfold c1; rewrite get_bkt_upd_other by assumption; rewrite Hbk0; reflexivity).
  assert (Hrel : forall m, match get_bkt m (c_buckets c), get_bkt m (c_buckets c1) with
                           | Some b, Some b' => detach_rel sn b b'
                           | None, None => True
                           | _, _ => False
                           end).
  { intros m. destruct (Z.eq_dec m p) as [->|Hne].
    - rewrite Hbp, Hbp1. split; [reflexivity|]. split; [reflexivity|]. split; [reflexivity|]. split.
      + intros x. cbn [g b_children set]. apply hole_child_In.
      + intros x Hx. cbn [g b_child_traits set]. apply ag_adel_other. exact Hx.
    - rewrite Hbo by exact Hne. destruct (get_bkt m (c_buckets c)) as [b|] eqn:Hb; [|exact I].
      eapply detach_rel_same; try eassumption. congruence. }
  assert (Hnames : map b_name (c_buckets c1) = map b_name (c_buckets c))
    by (unfold c1, c_upd_bkt; cbn [c_buckets set]; rewrite upd_bkt_names by exact Hg; rewrite Hbk0; reflexivity).
  assert (W1 : TreeWf c1) by (apply (detach_server_TreeWf c c1 sn s); auto).
  assert (A1 : Agg3 c1 None None (Some p)).
  { rewrite <- Hp. apply (detach_server_Agg3 c c1 sn s); auto.
    intros m b b' Hx Hb Hb'. rewrite Hp in Hx. assert (m <> p) by congruence. rewrite Hbo in Hb' by assumption. congruence. }
  destruct (W_traits c1 p _ _ W1 (ex_intro _ _ Hbp1) A1) as (W2 & A2).
  set (c2 := propagate_traits (depth_fuel c1) c1 p) in *.
  destruct (W_bump (depth_fuel c2) c2 p (s_counters s) (-1) _ _ _ W2 A2) as (W3 & A3).
  apply W_down; [exact W3| |exact A3].
  eapply SDims_sc; [apply bump_affinity_sc|]. eapply SDims_sc; [apply propagate_traits_sc|].
  intros n s' Hn. apply (HS0 n s' Hn).
Qed.

Lemma detach_server_ok c sn : Acct c -> TreeWf c -> AggLocal c ->
  TreeWf (detach_server c sn) /\ AggLocal (detach_server c sn).
Proof.
  intros HA W HL. unfold detach_server. destruct (get_srv sn (c_servers c)) as [s|] eqn:Hs; [|auto].
  set (c0 := c <| c_servers ::= del_srv sn |>).
  pose proof (ac_srv_names _ HA) as Hnd.
  assert (Hs0 : get_srv sn (c_servers c0) = None)
    by (unfold c0; cbn [c_servers set]; rewrite get_srv_del by exact Hnd; rewrite Z.eqb_refl; reflexivity).
  assert (Hso : forall m, m <> sn -> get_srv m (c_servers c0) = get_srv m (c_servers c)).
  { intros m Hm. unfold c0. cbn [c_servers set]. rewrite get_srv_del by exact Hnd.
    destruct (Z.eqb_spec m sn); [contradiction|reflexivity]. }
  assert (HS0 : SDims c0) by (apply Acct_SDims, Acct_del_server; exact HA).
  destruct (s_parent s) as [p|] eqn:Hp.
  - apply (unhook_ok c c0 sn s p); auto.
  - assert (Hrel : forall m, match get_bkt m (c_buckets c), get_bkt m (c_buckets c0) with
                             | Some b, Some b' => detach_rel sn b b'
                             | None, None => True
                             | _, _ => False
                             end).
    { intros m. change (c_buckets c0) with (c_buckets c). destruct (get_bkt m (c_buckets c)) as [b|] eqn:Hb; [|exact I].
      eapply detach_rel_same; try eassumption. congruence. }
    split.
    + apply (detach_server_TreeWf c c0 sn s); auto.
    + assert (H : Agg3 c0 None None (s_parent s)); [|rewrite Hp in H; exact H].
      apply (detach_server_Agg3 c c0 sn s); auto.
      intros m b b' _ Hb Hb'. change (c_buckets c0) with (c_buckets c) in Hb'. congruence.
Qed.

(** ** the bucket walks read servers only through the listed children *)
Lemma propagate_traits_bkts fuel : forall c c' n, c_buckets c' = c_buckets c ->
  c_buckets (propagate_traits fuel c' n) = c_buckets (propagate_traits fuel c n).
Proof.
  induction fuel as [|f IH]; intros c c' n E; cbn [propagate_traits]; [exact E|]. rewrite E.
  destruct (get_bkt n (c_buckets c)) as [b|]; [|exact E]. destruct (b_parent b) as [p|]; [|exact E].
  apply IH. unfold c_upd_bkt. cbn [c_buckets set]. rewrite E. reflexivity.
Qed.
Lemma bump_affinity_bkts fuel : forall c c' n ds sg, c_buckets c' = c_buckets c ->
  c_buckets (bump_affinity fuel c' n ds sg) = c_buckets (bump_affinity fuel c n ds sg).
Proof.
  induction fuel as [|f IH]; intros c c' n ds sg E; cbn [bump_affinity]; [exact E|]. rewrite E.
  destruct (get_bkt n (c_buckets c)) as [b|]; [|exact E].
  assert (E1 : c_buckets (c_upd_bkt n (fun x => x <| b_counters ::= cadd_all ds sg |>) c') =
               c_buckets (c_upd_bkt n (fun x => x <| b_counters ::= cadd_all ds sg |>) c))
    by (unfold c_upd_bkt; cbn [c_buckets set]; rewrite E; reflexivity).
  destruct (b_parent b) as [p|]; [apply IH; exact E1|exact E1].
Qed.

Definition not_listed (sn : Z) (c : cell) : Prop :=
  forall q b, get_bkt q (c_buckets c) = Some b -> ~ In (Some sn) (b_children b).

Lemma fold_left_ext_in {A B} (f g : A -> B -> A) l : (forall a x, In x l -> f a x = g a x) ->
  forall a, fold_left f l a = fold_left g l a.
Proof.
  induction l as [|x r IH]; intros H a; cbn; [reflexivity|]. rewrite H by (left; reflexivity).
  apply IH. intros a0 y Hy. apply H. right. exact Hy.
Qed.

Lemma adjust_down_sim sn fuel : forall c c' n pv,
  c_dim c' = c_dim c -> c_buckets c' = c_buckets c ->
  (forall m, m <> sn -> get_srv m (c_servers c') = get_srv m (c_servers c)) -> not_listed sn c ->
  c_buckets (adjust_down fuel c' n pv) = c_buckets (adjust_down fuel c n pv).
Proof.
  induction fuel as [|f IH]; intros c c' n pv Hd E Hsrv Hnl; cbn [adjust_down]; [exact E|]. rewrite E.
  destruct (get_bkt n (c_buckets c)) as [b|] eqn:Hb; [|exact E].
  assert (Hstep : forall nf pv', c_buckets
            (match b_parent b with
             | Some p => adjust_down f (c_upd_bkt n (fun x => x <| b_free := nf |>) c') p pv'
             | None => c_upd_bkt n (fun x => x <| b_free := nf |>) c'
             end) =
          c_buckets
            (match b_parent b with
             | Some p => adjust_down f (c_upd_bkt n (fun x => x <| b_free := nf |>) c) p pv'
             | None => c_upd_bkt n (fun x => x <| b_free := nf |>) c
             end)).
  { intros nf pv'.
    assert (E1 : c_buckets (c_upd_bkt n (fun x => x <| b_free := nf |>) c') =
                 c_buckets (c_upd_bkt n (fun x => x <| b_free := nf |>) c))
      by (unfold c_upd_bkt; cbn [c_buckets set]; rewrite E; reflexivity).
    destruct (b_parent b) as [p|]; [|exact E1]. apply IH; [exact Hd|exact E1|exact Hsrv|].
    intros q b' Hb'. unfold c_upd_bkt in Hb'. cbn [c_buckets set] in Hb'. rewrite get_upd_bkt in Hb' by reflexivity.
    destruct (Z.eqb q n).
    - destruct (get_bkt q (c_buckets c)) as [b0|] eqn:Hb0; cbn in Hb'; [|discriminate]. inversion Hb'; subst b'.
      cbn. eapply Hnl; exact Hb0.
    - eapply Hnl; exact Hb'. }
  destruct (live_children (b_children b)) as [|k ks] eqn:Ek.
  - rewrite Hd. apply Hstep.
  - destruct (match pv with Some v => all_lt v (b_free b) | None => false end); [exact E|].
    assert (Em : max_up_children c' (k :: ks) = max_up_children c (k :: ks)).
    { unfold max_up_children. rewrite Hd. apply fold_left_ext_in. intros acc m Hm.
      assert (Hne : m <> sn).
      { intros ->. rewrite <- Ek in Hm. apply live_children_In in Hm. eapply Hnl; eassumption. }
      unfold child_free_state. rewrite (Hsrv m Hne), E. reflexivity. }
    rewrite Em. destruct (any_lt (max_up_children c (k :: ks)) (b_free b)); [|exact E]. apply Hstep.
Qed.

(** ** move_server *)
Lemma move_server_ok c sn np bnp : Acct c -> TreeWf c -> AggLocal c ->
  get_bkt np (c_buckets c) = Some bnp ->
  TreeWf (move_server c sn np) /\ AggLocal (move_server c sn np).
Proof.
  intros HA W HL Hnp. unfold move_server. destruct (get_srv sn (c_servers c)) as [s|] eqn:Hs; [|auto].
  pose proof (ac_srv_names _ HA) as Hnd.
  assert (Hsn : s_name s = sn) by (eapply get_srv_name; exact Hs).
  set (cm := c <| c_servers ::= del_srv sn |>).
  set (c0 := match s_parent s with Some p => unhook_server c p s | None => c end).
  (* the cell without the server *)
  destruct (detach_server_ok c sn HA W HL) as (Wd & Ld). unfold detach_server in Wd, Ld. rewrite Hs in Wd, Ld. fold cm in Wd, Ld.
  set (cd := match s_parent s with Some p => unhook_server cm p s | None => cm end) in *.
  assert (Hsc0 : same_core c c0) by (unfold c0; destruct (s_parent s); [apply unhook_server_sc|apply same_core_refl]).
  assert (Hscd : same_core cm cd) by (unfold cd; destruct (s_parent s); [apply unhook_server_sc|apply same_core_refl]).
  assert (Hbk : c_buckets c0 = c_buckets cd).
  { unfold c0, cd. destruct (s_parent s) as [p|] eqn:Hp; [|reflexivity]. unfold unhook_server. rewrite Hsn.
    set (g := fun b : bucket => b <| b_children ::= hole_child sn |> <| b_child_traits ::= adel sn |>).
    assert (E1 : c_buckets (c_upd_bkt p g cm) = c_buckets (c_upd_bkt p g c)) by reflexivity.
    pose proof (propagate_traits_bkts (depth_fuel (c_upd_bkt p g c)) _ _ p E1) as E2.
    set (c2 := propagate_traits (depth_fuel (c_upd_bkt p g c)) (c_upd_bkt p g c) p) in *.
    change (depth_fuel (c_upd_bkt p g cm)) with (depth_fuel (c_upd_bkt p g c)).
    set (c2m := propagate_traits (depth_fuel (c_upd_bkt p g c)) (c_upd_bkt p g cm) p) in *.
    pose proof (bump_affinity_bkts (depth_fuel c2) c2 c2m p (s_counters s) (-1) E2) as E3.
    assert (Ef2 : depth_fuel c2m = depth_fuel c2) by (unfold depth_fuel; rewrite E2; reflexivity).
    rewrite Ef2.
    set (c3 := bump_affinity (depth_fuel c2) c2 p (s_counters s) (-1)) in *.
    set (c3m := bump_affinity (depth_fuel c2) c2m p (s_counters s) (-1)) in *.
    assert (Ef3 : depth_fuel c3m = depth_fuel c3) by (unfold depth_fuel; rewrite E3; reflexivity).
    rewrite Ef3. symmetry. apply (adjust_down_sim sn).
    - unfold c3m, c2m, c3, c2.
      rewrite (sc_dim _ _ (bump_affinity_sc _ _ _ _ _)), (sc_dim _ _ (propagate_traits_sc _ _ _)).
      rewrite (sc_dim _ _ (bump_affinity_sc _ _ _ _ _)), (sc_dim _ _ (propagate_traits_sc _ _ _)). reflexivity.
    - exact E3.
    - intros m Hm. unfold c3m, c2m, c3, c2.
      rewrite (sc_servers _ _ (bump_affinity_sc _ _ _ _ _)), (sc_servers _ _ (propagate_traits_sc _ _ _)).
      rewrite (sc_servers _ _ (bump_affinity_sc _ _ _ _ _)), (sc_servers _ _ (propagate_traits_sc _ _ _)).
      unfold cm, c_upd_bkt. cbn [c_servers set]. rewrite get_srv_del by exact Hnd.
      destruct (Z.eqb_spec m sn); [contradiction|reflexivity].
    - intros q b3 Hb3 Hin.
      assert (HB : bkts_same pskel (c_upd_bkt p g c) c3).
      { eapply bkts_same_trans; [apply (propagate_traits_same pskel (fun x v => eq_refl))|].
        apply (bump_affinity_same pskel (fun x v => eq_refl)). }
      destruct (bkts_same_bwd _ _ _ _ _ HB Hb3) as (b1 & Hb1 & Eq). inversion Eq as [[Epar Ech]]. rewrite Ech in Hin.
      unfold c_upd_bkt in Hb1. cbn [c_buckets set] in Hb1. rewrite get_upd_bkt in Hb1 by reflexivity.
      destruct (Z.eqb_spec q p) as [->|Hqp].
      + destruct (get_bkt p (c_buckets c)) as [bp|]; cbn in Hb1; [|discriminate]. inversion Hb1; subst b1.
        cbn in Hin. apply hole_child_In in Hin. tauto.
      + pose proof (listed_parent _ _ _ _ _ W Hs Hb1 Hin). congruence. }
  (* the server with its new parent *)
  set (s' := s <| s_parent := Some np |>).
  set (c1 := c_upd_srv sn (fun x => x <| s_parent := Some np |>) c0).
  assert (Hs1 : get_srv sn (c_servers c1) = Some s').
  { unfold c1, c_upd_srv. cbn [c_servers set]. rewrite (sc_servers _ _ Hsc0).
    apply (get_upd_srv_same sn (fun x => x <| s_parent := Some np |>) _ s); [reflexivity|exact Hs]. }
  assert (Hso : forall m, m <> sn -> get_srv m (c_servers c1) = get_srv m (c_servers cd)).
  { intros m Hm. unfold c1, c_upd_srv. cbn [c_servers set]. rewrite get_upd_srv_other by (reflexivity || exact Hm).
    rewrite (sc_servers _ _ Hsc0), (sc_servers _ _ Hscd). unfold cm. cbn [c_servers set].
    rewrite get_srv_del by exact Hnd. destruct (Z.eqb_spec m sn); [contradiction|reflexivity]. }
  assert (Hsd : get_srv sn (c_servers cd) = None).
  { rewrite (sc_servers _ _ Hscd). unfold cm. cbn [c_servers set]. rewrite get_srv_del by exact Hnd.
    rewrite Z.eqb_refl. reflexivity. }
  assert (HBd : bkts_same (fun _ : bucket => tt) c c0).
  { unfold c0. destruct (s_parent s) as [p|]; [|apply bkts_same_refl]. unfold unhook_server.
    eapply bkts_same_trans; [|apply (adjust_down_same (fun _ : bucket => tt) (fun x v => eq_refl))].
    eapply bkts_same_trans; [|apply (bump_affinity_same (fun _ : bucket => tt) (fun x v => eq_refl))].
    eapply bkts_same_trans; [|apply (propagate_traits_same (fun _ : bucket => tt) (fun x v => eq_refl))].
    apply bkts_same_upd; reflexivity. }
  destruct (bkts_same_fwd _ _ _ _ _ HBd Hnp) as (bp & Hbp0 & _).
  assert (Hbpd : get_bkt np (c_buckets cd) = Some bp) by (rewrite <- Hbk; exact Hbp0).
  assert (Hsnb : get_bkt sn (c_buckets cd) = None).
  { rewrite <- Hbk. eapply bkts_same_none; [exact HBd|]. eapply tw_disj; eassumption. }
  set (g := fun b : bucket => b <| b_children ::= (fun l => l ++ [Some sn]) |> <| b_child_traits ::= aset sn (s_traits s) |>).
  set (c2 := c_upd_bkt np g c1).
  assert (Hg : forall x, b_name (g x) = b_name x) by reflexivity.
  assert (Hb1 : c_buckets c1 = c_buckets cd) by (unfold c1, c_upd_srv; cbn [c_buckets set]; exact Hbk).
  assert (Hbp2 : get_bkt np (c_buckets c2) = Some (g bp)) by (apply get_bkt_upd_same; [exact Hg|rewrite Hb1; exact Hbpd]).
  assert (Hbo : forall m, m <> np -> get_bkt m (c_buckets c2) = get_bkt m (c_buckets cd))
    by (intros m Hm; unfold c2; rewrite get_bkt_upd_other by assumption; rewrite Hb1; reflexivity).
  assert (Hnames : map b_name (c_buckets c2) = map b_name (c_buckets cd))
    by (unfold c2, c_upd_bkt; cbn [c_buckets set]; rewrite upd_bkt_names by exact Hg; rewrite Hb1; reflexivity).
  assert (Hd1 : c_dim c1 = c_dim cd).
  { unfold c1, c_upd_srv. cbn [c_dim set]. rewrite (sc_dim _ _ Hsc0), (sc_dim _ _ Hscd). reflexivity. }
  destruct (ac_srv_dims _ HA _ _ Hs) as (_ & Hlf & _).
  assert (Hdd : c_dim cd = c_dim c) by (rewrite (sc_dim _ _ Hscd); reflexivity).
  apply (attach_common_ok c1 np sn (s_traits s) (s_counters s) [s_label s] (s_free s)).
  - apply (attach_server_TreeWf cd c2 np sn bp (g bp) s'); auto.
  - eauto.
  - rewrite Hd1, Hdd. exact Hlf.
  - apply (attach_server_Agg3 cd c2 np sn bp (g bp) s') with (tr := s_traits s); auto.
    + apply has_traits_refl.
    + cbn. rewrite Hdd. exact Hlf.
Qed.

(** ** every operation *)
Definition core3 (c c' : cell) : Prop := c_dim c' = c_dim c /\ c_servers c' = c_servers c /\ c_buckets c' = c_buckets c.
Lemma core3_refl c : core3 c c. Proof. repeat split. Qed.
Lemma core3_trans a b c : core3 a b -> core3 b c -> core3 a c.
Proof. unfold core3. intuition congruence. Qed.
Lemma TA_ext c c' : core3 c c' -> TreeWf c /\ AggLocal c -> TreeWf c' /\ AggLocal c'.
Proof. intros (H1 & H2 & H3) [W L]. split; [eapply TreeWf_ext; eassumption|eapply Agg3_ext; eassumption]. Qed.

Lemma upd_alloc_core3 c label path f : core3 c (upd_alloc c label path f).
Proof. unfold upd_alloc, ensure_part. destruct (aget label (c_parts c)); repeat split. Qed.
Lemma ensure_group_core3 c g : core3 c (ensure_group c g).
Proof. unfold ensure_group. destruct g as [n|]; [|apply core3_refl]. destruct (aget n (c_groups c)); repeat split. Qed.
Lemma release_core3 c n : core3 c (release_identity c n).
Proof.
  unfold release_identity. destruct (get_app n (c_apps c)) as [a|]; [|apply core3_refl].
  destruct (group_of c a) as [[g grp]|]; [|apply core3_refl]. destruct (a_identity a); repeat split.
Qed.
Lemma add_app_core3 c label path a : core3 c (add_app c label path a).
Proof.
  unfold add_app. destruct (get_app (a_name a) (c_apps c)) as [old|].
  - eapply core3_trans; [|apply ensure_group_core3].
    eapply core3_trans; [|split; [|split]; reflexivity].
    eapply core3_trans; [|apply upd_alloc_core3].
    destruct (a_alloc old) as [[l0 p0]|]; [apply upd_alloc_core3|apply core3_refl].
  - eapply core3_trans; [|apply ensure_group_core3].
    eapply core3_trans; [apply upd_alloc_core3|]. repeat split.
Qed.

Lemma Inv_srv_remove c sn an : Inv c -> Inv (srv_remove c sn an).
Proof. intros (HA & W & L). split; [apply Acct_srv_remove; exact HA|apply srv_remove_ok; assumption]. Qed.
Lemma Inv_srv_remove_all c sn : Inv c -> Inv (srv_remove_all c sn).
Proof.
  unfold srv_remove_all. destruct (get_srv sn (c_servers c)) as [s|]; [|tauto].
  generalize (s_apps s) as l. intros l. revert c. induction l as [|x r IH]; intros c H; cbn; [exact H|].
  apply IH. apply Inv_srv_remove. exact H.
Qed.

Lemma TA_remove_app c name : Inv c -> TreeWf (remove_app c name) /\ AggLocal (remove_app c name).
Proof.
  intros (HA & W & L).
  unfold remove_app. destruct (get_app name (c_apps c)) as [a|]; [|auto].
  set (c1 := match a_server a with
             | Some sn => if is_member c sn then srv_remove c sn name else c
             | None => c
             end).
  assert (H1 : TreeWf c1 /\ AggLocal c1).
  { subst c1. destruct (a_server a) as [sn|]; [|auto]. destruct (is_member c sn); [apply srv_remove_ok; assumption|auto]. }
  set (c2 := match a_alloc a with Some (l0, p0) => upd_alloc c1 l0 p0 (alloc_del_app name) | None => c1 end).
  apply (TA_ext c1); [|exact H1].
  assert (E2 : core3 c1 c2) by (subst c2; destruct (a_alloc a) as [[l0 p0]|]; [apply upd_alloc_core3|apply core3_refl]).
  eapply core3_trans; [exact E2|]. eapply core3_trans; [apply release_core3|]. repeat split.
Qed.
Lemma restore_put_as c sn an vb ex : asteps c (fst (restore_put c sn an vb ex)).
Proof.
  unfold restore_put. destruct vb; [apply srv_restore_as|].
  destruct (get_app an (c_apps c)) as [a|]; [|apply as_refl]. destruct (a_once a); [apply as_refl|].
  destruct (srv_put c sn an) as [c'|] eqn:E; [|apply as_refl]. cbn [fst]. eapply as_put; exact E.
Qed.
Lemma force_identity_core3 c an i : core3 c (force_identity c an i).
Proof.
  unfold force_identity. destruct i as [i|]; [|apply core3_refl]. destruct (get_app an (c_apps c)) as [a|]; [|apply core3_refl].
  destruct (group_of c a) as [[g grp]|]; repeat split.
Qed.
Lemma TA_restore_op c sn an vb ex ident : Inv c ->
  TreeWf (restore_op c sn an vb ex ident) /\ AggLocal (restore_op c sn an vb ex ident).
Proof.
  intros HI. unfold restore_op. destruct (get_app an (c_apps c)) as [a|]; [|exact (proj2 HI)].
  pose proof (Inv_asteps _ _ (restore_put_as c sn an vb ex) HI) as H1.
  destruct (restore_put c sn an vb ex) as [c1 ok]. cbn [fst] in H1.
  destruct ok; [apply (TA_ext c1); [apply force_identity_core3|exact (proj2 H1)]|].
  destruct (a_once a); [apply TA_remove_app; exact H1|exact (proj2 H1)].
Qed.

Definition wf_op_agg (c : cell) (o : op) : Prop :=
  match o with
  | OAddBucket name level parent =>
      get_srv name (c_servers c) = None /\ get_bkt name (c_buckets c) = None /\
      exists bp, get_bkt parent (c_buckets c) = Some bp
  | OAddServer name parent cap label traits vu =>
      get_bkt name (c_buckets c) = None /\ exists bp, get_bkt parent (c_buckets c) = Some bp
  | OMoveServer name newparent => exists bp, get_bkt newparent (c_buckets c) = Some bp
  | _ => True
  end.

Theorem TA_step c o : wf_op c o -> wf_op_agg c o -> Inv c -> TreeWf (step c o) /\ AggLocal (step c o).
Proof.
  intros Hwf Hwa (HA & W & L). destruct o; cbn [step].
  - (* OAddBucket *) destruct Hwa as (H1 & H2 & bp & H3). eapply add_bucket_ok; eassumption.
  - (* OAddServer *) destruct Hwf as (H1 & H2 & H3 & H4). destruct Hwa as (H5 & bp & H6).
    eapply (add_server_ok c (new_server c name parent cap label traits valid_until) parent bp); auto.
  - (* ORemoveServer *)
    assert (HI : Inv (if raw then c else srv_remove_all c name))
      by (destruct raw; [exact (conj HA (conj W L))|apply Inv_srv_remove_all; exact (conj HA (conj W L))]).
    destruct HI as (HA' & W' & L'). apply detach_server_ok; assumption.
  - (* OMoveServer *) destruct Hwa as (bp & H). eapply move_server_ok; eassumption.
  - (* OSetState *) apply srv_set_state_ok; assumption.
  - (* OSetValidUntil *)
    destruct (get_srv name (c_servers c)) as [s|] eqn:Hs.
    + apply (srv_upd_ok c name s (fun s0 => s0 <| s_valid_until := t |>) None None None Hs); auto.
      intros p bp f' Hp Hbp Hf'. destruct L as (_ & HF & _).
      exact (HF name (sview s) p bp f' (view_srv _ _ _ Hs) Hp Hbp Hf').
    + apply (TA_ext c); [|auto]. split; [reflexivity|]. split; [|reflexivity].
      unfold c_upd_srv. cbn [c_servers set]. apply upd_srv_absent. exact Hs.
  - (* OAddApp *) apply (TA_ext c); [apply add_app_core3|auto].
  - (* ORemoveApp *) apply TA_remove_app. exact (conj HA (conj W L)).
  - apply (TA_ext c); [repeat split|auto].
  - apply (TA_ext c); [repeat split|auto].
  - apply (TA_ext c); [repeat split|auto].
  - apply (TA_ext c); [repeat split|auto].
  - apply (TA_ext c); [repeat split|auto].
  - apply (TA_ext c); [apply upd_alloc_core3|auto].
  - apply (TA_ext c); [|auto]. unfold config_group. destruct (aget name (c_groups c)); repeat split.
  - apply (TA_ext c); [|auto]. unfold remove_group. destruct (aget name (c_groups c)); [|apply core3_refl].
    destruct (existsb _ _); repeat split.
  - apply (TA_ext c); [repeat split|auto].
  - pose proof (Inv_schedule c choices (conj HA (conj W L))) as (_ & H).
    destruct (schedule c choices) as [[c' qs] pl]. exact H.
  - apply TA_restore_op. exact (conj HA (conj W L)).
Qed.

Theorem Inv_step c o : wf_op c o -> wf_op_agg c o -> Inv c -> Inv (step c o).
Proof.
  intros H1 H2 HI. split; [apply Acct_step; [exact H1|apply HI]|apply TA_step; assumption].
Qed.

Fixpoint wf_ops_agg (c : cell) (ops : list op) : Prop :=
  match ops with [] => True | o :: r => wf_op_agg c o /\ wf_ops_agg (step c o) r end.

Theorem Inv_run ops : forall c, wf_ops c ops -> wf_ops_agg c ops -> Inv c -> Inv (run c ops).
Proof.
  induction ops as [|o r IH]; intros c H1 H2 HI; cbn; [exact HI|].
  destruct H1 as [H1 H1']. destruct H2 as [H2 H2']. apply IH; [exact H1'|exact H2'|apply Inv_step; assumption].
Qed.

Lemma Inv_init dim root level : Inv (init_cell dim root level).
Proof.
  split; [apply Acct_init|]. split.
  - constructor; cbn [init_cell c_buckets c_servers map b_name].
    + constructor; [intros []|constructor].
    + intros n s H. discriminate.
    + intros p b m Hb Hin. cbn in Hb. destruct (Z.eqb root p); [|discriminate]. inversion Hb; subst b. destruct Hin.
    + intros n s p H. discriminate.
    + intros n b' p Hb Hp. cbn in Hb. destruct (Z.eqb root n); [|discriminate]. inversion Hb; subst b'. discriminate.
    + intros n b Hb. cbn in Hb. cbn. destruct (Z.eqb root n); [|discriminate]. inversion Hb; subst b. reflexivity.
  - split; [|split; [|split]].
    + intros n b Hb. cbn in Hb. destruct (Z.eqb root n); [|discriminate]. inversion Hb; subst b. cbn.
      split; [apply vzero_length|apply nonneg_vzero].
    + intros m w p b f Hv Hp. unfold view in Hv. cbn in Hv. destruct (Z.eqb root m); [|discriminate].
      cbn in Hv. inversion Hv; subst w. discriminate.
    + intros m w p b Hv Hp. unfold view in Hv. cbn in Hv. destruct (Z.eqb root m); [|discriminate].
      cbn in Hv. inversion Hv; subst w. discriminate.
    + intros m w p b Hv Hp. unfold view in Hv. cbn in Hv. destruct (Z.eqb root m); [|discriminate].
      cbn in Hv. inversion Hv; subst w. discriminate.
Qed.

(** the premises of the completeness theorem hold in every state a well-formed history reaches *)
Theorem reachable_TreeWf_AggSound dim root level ops :
  wf_ops (init_cell dim root level) ops -> wf_ops_agg (init_cell dim root level) ops ->
  TreeWf (run (init_cell dim root level) ops) /\ AggSound (run (init_cell dim root level) ops).
Proof.
  intros H1 H2. destruct (Inv_run ops _ H1 H2 (Inv_init dim root level)) as (_ & W & L).
  split; [exact W|apply AggLocal_sound; assumption].
Qed.

(** completeness in every reachable state *)
Theorem reachable_put_complete dim root level ops x a s rest :
  let c := run (init_cell dim root level) ops in
  wf_ops (init_cell dim root level) ops -> wf_ops_agg (init_cell dim root level) ops ->
  get_app x (c_apps c) = Some a ->
  get_srv (s_name s) (c_servers c) = Some s -> s_state s = Up ->
  put_guard c s a (a_lease a) = true ->
  down_path c (c_root c) rest (s_name s) ->
  (forall m b, In m (c_root c :: rest) -> get_bkt m (c_buckets c) = Some b ->
               under_limit (cget (a_aff a) (b_counters b)) (aff_limit a (b_level b)) = true) ->
  snd (cell_put c x) = true.
Proof.
  intros c H1 H2. destruct (reachable_TreeWf_AggSound dim root level ops H1 H2) as (W & S).
  apply cell_put_complete; assumption.
Qed.

(** boolean side conditions, for concrete histories *)
Definition wf_op_aggb (c : cell) (o : op) : bool :=
  match o with
  | OAddBucket name level parent =>
      (match get_srv name (c_servers c) with None => true | Some _ => false end)
      && (match get_bkt name (c_buckets c) with None => true | Some _ => false end)
      && (match get_bkt parent (c_buckets c) with Some _ => true | None => false end)
  | OAddServer name parent cap label traits vu =>
      (match get_bkt name (c_buckets c) with None => true | Some _ => false end)
      && (match get_bkt parent (c_buckets c) with Some _ => true | None => false end)
  | OMoveServer name newparent => match get_bkt newparent (c_buckets c) with Some _ => true | None => false end
  | _ => true
  end.
Fixpoint wf_ops_aggb (c : cell) (ops : list op) : bool :=
  match ops with [] => true | o :: r => wf_op_aggb c o && wf_ops_aggb (step c o) r end.
Lemma wf_op_aggb_sound c o : wf_op_aggb c o = true -> wf_op_agg c o.
Proof.
  destruct o; cbn; try (intros; exact I).
  - intros H. apply andb_true_iff in H as [H H3]. apply andb_true_iff in H as [H1 H2].
    destruct (get_srv name (c_servers c)); [discriminate|]. destruct (get_bkt name (c_buckets c)); [discriminate|].
    destruct (get_bkt parent (c_buckets c)); [eauto|discriminate].
  - intros H. apply andb_true_iff in H as [H1 H2].
    destruct (get_bkt name (c_buckets c)); [discriminate|]. destruct (get_bkt parent (c_buckets c)); [eauto|discriminate].
  - destruct (get_bkt newparent (c_buckets c)); [eauto|discriminate].
Qed.
Lemma wf_ops_aggb_sound ops : forall c, wf_ops_aggb c ops = true -> wf_ops_agg c ops.
Proof.
  induction ops as [|o r IH]; intros c H; cbn [wf_ops_aggb wf_ops_agg] in *; [exact I|].
  apply andb_true_iff in H as [H1 H2]. split; [apply wf_op_aggb_sound; exact H1|apply IH; exact H2].
Qed.

Print Assumptions reachable_put_complete.
Print Assumptions Inv_run.
Print Assumptions AggLocal_sound.

(** ** the non-vacuity history of PutComplete.v, this time through the invariance theorem *)
Example nv_wf_ops_agg : wf_ops_aggb (init_cell 2 2000 3) nv_ops = true.
Proof. vm_compute. reflexivity. Qed.
Theorem nv_reach : TreeWf nv_cell /\ AggSound nv_cell.
Proof.
  apply reachable_TreeWf_AggSound; [apply wf_opsb_sound; exact nv_wf_ops|apply wf_ops_aggb_sound; exact nv_wf_ops_agg].
Qed.

(** a history with topology changes, state changes and removals: the checkers agree with the theorem *)
Definition tp_ops : list op :=
  [ OAddBucket 2001 2 2000; OAddBucket 2002 2 2000; OAddBucket 2003 1 2001;
    OAddServer 1000 2003 [10;10] 4000 1 0; OAddServer 1001 2001 [6;6] 4000 2 0; OAddServer 1002 2002 [20;20] 4001 4 0;
    OAddApp 4000 [] (nv_app 1 5 1 0 3000 [8;8]); OAddApp 4000 [] (nv_app 2 5 2 0 3000 [5;5]);
    OAddApp 4001 [] (nv_app 3 5 3 4 3000 [12;12]);
    OSchedule [];
    OMoveServer 1000 2002; OSetState 1002 Frozen 3; OSchedule [];
    OSetState 1001 Down 4; OTick 100; OSchedule [];
    ORemoveServer 1002 false; OSetState 1001 Up 120; OMoveServer 1001 2003; OSchedule [];
    ORemoveApp 1; ORemoveServer 1000 true; OSchedule [] ].
Example tp_wf : wf_opsb (init_cell 2 2000 3) tp_ops && wf_ops_aggb (init_cell 2 2000 3) tp_ops = true.
Proof. vm_compute. reflexivity. Qed.
Example tp_checkers : let c := run (init_cell 2 2000 3) tp_ops in tree_wfb c && agg_soundb c = true.
Proof. vm_compute. reflexivity. Qed.
