(** C06, the two parts about the merged queue of a parent allocation (Sched/Queue.v):

    T1  [merge_keeps_alloc_order]  for every allocation [sub] of the tree (any depth, [sub_of]/[alloc_at]) the
        final queue restricted to [sub]'s own instances is [sub]'s private queue, i.e. its instances in app-key
        order; corollary [alloc_order_before] for two instances of one allocation.
    T2  [util_queue_zero_last]     in the final queue a priority-0 entry comes after every non-zero-priority
        entry of the same rank (every tree depth).

    Proof file: every statement is closed by Qed. *)
From Coq Require Import ZArith QArith List Bool Lia Permutation Sorted.
From TM Require Import Sched.Vec Sched.Types Sched.Queue Sched.QueueP.
Import ListNotations.
Open Scope Z_scope.

(** * Unfolding equations without the nested fixpoints *)
Definition subqs_of (dim : nat) (free : vec) (keps : nat) (apps : list app) (subs : list (Z * alloc)) : list (list entry) :=
  map (fun p => util_queue dim free keps apps (snd p)) subs.
Definition subapps_of (subs : list (Z * alloc)) : list Z :=
  concat (map (fun p => all_apps (snd p)) subs).

Lemma util_queue_eq dim free keps apps res rank adj traits maxu names subs :
  util_queue dim free keps apps (Alloc res rank adj traits maxu names subs) =
  let al := Alloc res rank adj traits maxu names subs in
  let tr := total_reserved al in
  let av := avail_vec (vadd tr free) keps in
  rescore_loop tr av (merge_all (subqs_of dim free keps apps subs ++ [priv_queue dim al apps]))
               (vzero dim) (Some (utilization (vzero dim) tr av)).
Proof.
  cbn [util_queue]. cbv zeta. f_equal. f_equal. f_equal.
  unfold subqs_of. induction subs as [|[n s] r IH]; [reflexivity|]. cbn [map snd]. f_equal. exact IH.
Qed.

Lemma all_apps_eq res rank adj traits maxu names subs :
  all_apps (Alloc res rank adj traits maxu names subs) = names ++ subapps_of subs.
Proof.
  cbn [all_apps]. f_equal.
  unfold subapps_of. induction subs as [|[n s] r IH]; [reflexivity|]. cbn [map snd concat]. f_equal. exact IH.
Qed.

(** * Small list facts *)
Lemma zmem_In x l : zmem x l = true <-> In x l.
Proof.
  induction l as [|y t IH]; cbn; [split; [discriminate|tauto]|].
  rewrite orb_true_iff, IH, Z.eqb_eq. tauto.
Qed.
Lemma zmem_notIn x l : ~ In x l -> zmem x l = false.
Proof. intros H. destruct (zmem x l) eqn:E; [|reflexivity]. apply zmem_In in E. contradiction. Qed.

Lemma NoDup_app_inv {A} (l1 l2 : list A) :
  NoDup (l1 ++ l2) -> NoDup l1 /\ NoDup l2 /\ (forall x, In x l1 -> In x l2 -> False).
Proof.
  induction l1 as [|a l1 IH]; cbn; intros H.
  - split; [constructor|]. split; [exact H|]. intros x [].
  - inversion H as [|? ? Hn Hr]; subst. destruct (IH Hr) as (H1 & H2 & H3).
    split; [|split; [exact H2|]].
    + constructor; [|exact H1]. intros Hi. apply Hn. apply in_or_app. left. exact Hi.
    + intros x [<-|Hx] Hx2; [apply Hn; apply in_or_app; right; exact Hx2|exact (H3 x Hx Hx2)].
Qed.

Lemma NoDup_mid {A} (l1 m l2 : list A) :
  NoDup (l1 ++ m ++ l2) -> NoDup m /\ (forall x, In x m -> ~ In x l1 /\ ~ In x l2).
Proof.
  intros H. apply NoDup_app_inv in H. destruct H as (_ & H2 & H3).
  apply NoDup_app_inv in H2. destruct H2 as (Hm & _ & H4).
  split; [exact Hm|]. intros x Hx. split; intros Hi.
  - apply (H3 x Hi). apply in_or_app. left. exact Hx.
  - exact (H4 x Hx Hi).
Qed.

Lemma filter_all_true {A} (f : A -> bool) l : (forall x, In x l -> f x = true) -> filter f l = l.
Proof.
  induction l as [|a l IH]; cbn; intros H; [reflexivity|].
  rewrite (H a (or_introl eq_refl)). f_equal. apply IH. intros x Hx. apply H. right. exact Hx.
Qed.
Lemma filter_all_false {A} (f : A -> bool) l : (forall x, In x l -> f x = false) -> filter f l = [].
Proof.
  induction l as [|a l IH]; cbn; intros H; [reflexivity|].
  rewrite (H a (or_introl eq_refl)). apply IH. intros x Hx. apply H. right. exact Hx.
Qed.
Lemma filter_map_comm {A B} (g : B -> bool) (h : A -> B) l :
  filter g (map h l) = map h (filter (fun x => g (h x)) l).
Proof. induction l as [|a l IH]; cbn; [reflexivity|]. destruct (g (h a)); cbn; rewrite IH; reflexivity. Qed.

Lemma filter_cons_inv {A} (g : A -> bool) : forall L a B,
  filter g L = a :: B -> exists L1 L2, L = L1 ++ a :: L2 /\ filter g L2 = B.
Proof.
  induction L as [|x L IH]; cbn; intros a B H; [discriminate|].
  destruct (g x).
  - inversion H; subst. exists [], L. split; reflexivity.
  - destruct (IH _ _ H) as (L1 & L2 & -> & H2). exists (x :: L1), L2. split; [reflexivity|exact H2].
Qed.
Lemma filter_app_inv {A} (g : A -> bool) : forall A1 L B,
  filter g L = A1 ++ B -> exists L1 L2, L = L1 ++ L2 /\ filter g L2 = B.
Proof.
  induction A1 as [|a A1 IH]; cbn; intros L B H.
  - exists [], L. split; [reflexivity|exact H].
  - destruct (filter_cons_inv g _ _ _ H) as (L1 & L2 & -> & H2).
    destruct (IH _ _ H2) as (M1 & M2 & -> & H3).
    exists (L1 ++ a :: M1), M2. split; [|exact H3]. rewrite <- app_assoc. reflexivity.
Qed.
(** the order of two elements in a filtered list is their order in the list *)
Lemma filter_before {A} (g : A -> bool) L m1 a m2 b m3 :
  filter g L = m1 ++ a :: m2 ++ b :: m3 -> exists l1 l2 l3, L = l1 ++ a :: l2 ++ b :: l3.
Proof.
  intros H. destruct (filter_app_inv g _ _ _ H) as (L1 & L2 & -> & H2).
  destruct (filter_cons_inv g _ _ _ H2) as (L3 & L4 & -> & H4).
  destruct (filter_app_inv g _ _ _ H4) as (L5 & L6 & -> & H6).
  destruct (filter_cons_inv g _ _ _ H6) as (L7 & L8 & -> & _).
  exists (L1 ++ L3), (L5 ++ L7), L8. rewrite <- !app_assoc. reflexivity.
Qed.

(** * Names *)
Lemma get_app_name n apps a : get_app n apps = Some a -> a_name a = n.
Proof.
  induction apps as [|x t IH]; cbn; [discriminate|].
  destruct (Z.eqb_spec (a_name x) n); [intros H; inversion H; subst; reflexivity|exact IH].
Qed.
Lemma lookup_apps_name names apps a : In a (lookup_apps names apps) -> In (a_name a) names /\ get_app (a_name a) apps = Some a.
Proof.
  induction names as [|n r IH]; cbn; [tauto|].
  destruct (get_app n apps) as [b|] eqn:E.
  - intros [<-|H].
    + pose proof (get_app_name _ _ _ E) as Hn. rewrite Hn. split; [left; reflexivity|exact E].
    + destruct (IH H). split; [right|]; assumption.
  - intros H. destruct (IH H). split; [right|]; assumption.
Qed.

Lemma priv_queue_names dim al apps e : In e (priv_queue dim al apps) -> In (e_app e) (al_apps al).
Proof.
  intros He. apply (in_map e_app) in He.
  apply (Permutation_in _ (priv_queue_perm dim al apps)) in He.
  apply in_map_iff in He. destruct He as (a & <- & Ha). apply (lookup_apps_name _ _ _ Ha).
Qed.
Lemma util_queue_names dim free keps apps al e :
  In e (util_queue dim free keps apps al) -> In (e_app e) (all_apps al).
Proof.
  intros He. apply (in_map e_app) in He.
  apply (Permutation_in _ (util_queue_perm dim free keps apps al)) in He.
  apply in_map_iff in He. destruct He as (a & <- & Ha). apply (lookup_apps_name _ _ _ Ha).
Qed.
Lemma subqs_names dim free keps apps subs e :
  In e (concat (subqs_of dim free keps apps subs)) -> In (e_app e) (subapps_of subs).
Proof.
  unfold subqs_of, subapps_of. intros He. apply in_concat in He. destruct He as (q & Hq & He).
  apply in_map_iff in Hq. destruct Hq as (p & <- & Hp).
  apply in_concat. exists (all_apps (snd p)). split; [apply in_map_iff; exists p; auto|].
  eapply util_queue_names. exact He.
Qed.

(** * heapq.merge interleaves its inputs *)
Lemma pick_in qs m qs' : pick qs = Some (m, qs') -> In m (concat qs).
Proof. intros H. eapply Permutation_in; [symmetry; apply (pick_perm _ _ _ H)|left; reflexivity]. Qed.
Lemma pick_sub qs m qs' : pick qs = Some (m, qs') -> forall e, In e (concat qs') -> In e (concat qs).
Proof. intros H e He. eapply Permutation_in; [symmetry; apply (pick_perm _ _ _ H)|right; exact He]. Qed.
Lemma merge_sub : forall f qs e, In e (merge f qs) -> In e (concat qs).
Proof.
  induction f as [|f IH]; intros qs e He; cbn in He; [destruct He|].
  destruct (pick qs) as [[m qs']|] eqn:E; [|destruct He].
  destruct He as [<-|He]; [eapply pick_in; exact E|]. eapply pick_sub; [exact E|]. apply IH. exact He.
Qed.

Section Interleave.
  Variable f : entry -> bool.
  Definition nof (q : list entry) : Prop := forall e, In e q -> f e = false.
  (** at most one queue contains elements selected by [f] *)
  Fixpoint one_src (qs : list (list entry)) : Prop :=
    match qs with
    | [] => True
    | q :: t => (nof q /\ one_src t) \/ nof (concat t)
    end.
  Definition cf (qs : list (list entry)) : list entry := concat (map (filter f) qs).

  Lemma nofc_one t : nof (concat t) -> one_src t.
  Proof.
    induction t as [|q t IH]; cbn; intros H; [exact I|]. right. intros e He. apply H. apply in_or_app. right. exact He.
  Qed.
  Lemma nofc_cf t : nof (concat t) -> cf t = [].
  Proof.
    unfold cf. induction t as [|q t IH]; cbn; intros H; [reflexivity|].
    rewrite filter_all_false; [|intros e He; apply H; apply in_or_app; left; exact He].
    apply IH. intros e He. apply H. apply in_or_app. right. exact He.
  Qed.

  Lemma pick_filter : forall qs m qs', one_src qs -> pick qs = Some (m, qs') ->
    cf qs = (if f m then [m] else []) ++ cf qs' /\ one_src qs'.
  Proof.
    induction qs as [|q t IH]; intros m qs' Ho Hp; cbn in Hp; [discriminate|].
    assert (Hot : one_src t) by (destruct Ho as [[_ H]|H]; [exact H|apply nofc_one; exact H]).
    destruct q as [|x q].
    - destruct (pick t) as [[m0 t']|] eqn:E; [|discriminate]. inversion Hp; subst.
      destruct (IH _ _ Hot eq_refl) as [Hc Ho']. split.
      + unfold cf in *. cbn. exact Hc.
      + cbn. left. split; [intros e []|exact Ho'].
    - assert (Htake : cf ((x :: q) :: t) = (if f x then [x] else []) ++ cf (q :: t) /\ one_src (q :: t)).
      { split.
        - unfold cf. cbn. destruct (f x); reflexivity.
        - cbn. destruct Ho as [[Hn Ho]|Ho]; [left; split; [|exact Ho]|right; exact Ho].
          intros e He. apply Hn. right. exact He. }
      destruct (pick t) as [[m0 t']|] eqn:E.
      + destruct (entry_ltb m0 x) eqn:El; inversion Hp; subst; [|exact Htake].
        destruct (IH _ _ Hot eq_refl) as [Hc Ho']. split.
        * unfold cf in *. cbn [map concat]. rewrite Hc.
          destruct (f m) eqn:Fm; [|reflexivity].
          destruct Ho as [[Hn _]|Hn].
          -- rewrite (filter_all_false f (x :: q) Hn). reflexivity.
          -- rewrite (Hn m (pick_in _ _ _ E)) in Fm. discriminate.
        * cbn. destruct Ho as [[Hn _]|Hn]; [left; split; assumption|right].
          intros e He. apply Hn. eapply pick_sub; eassumption.
      + inversion Hp; subst. exact Htake.
  Qed.

  Lemma concat_nil_cf qs : concat qs = [] -> cf qs = [].
  Proof. intros H. apply nofc_cf. rewrite H. intros e []. Qed.

  Lemma merge_filter : forall fuel qs, one_src qs -> (length (concat qs) <= fuel)%nat ->
    filter f (merge fuel qs) = cf qs.
  Proof.
    induction fuel as [|n IH]; intros qs Ho Hl.
    - cbn. symmetry. apply concat_nil_cf. destruct (concat qs); [reflexivity|cbn in Hl; lia].
    - cbn [merge]. destruct (pick qs) as [[m qs']|] eqn:E.
      + destruct (pick_filter _ _ _ Ho E) as [Hc Ho']. rewrite Hc. cbn [filter].
        pose proof (Permutation_length (pick_perm _ _ _ E)) as Pl. cbn in Pl.
        rewrite <- (IH qs' Ho') by lia. destruct (f m); reflexivity.
      + cbn. symmetry. apply concat_nil_cf. apply pick_none. exact E.
  Qed.

  (** only one queue is selected by [f]: the merged list restricted to [f] is that queue restricted to [f] *)
  Lemma single_src pre q post : nof (concat pre) -> nof (concat post) ->
    one_src (pre ++ q :: post) /\ cf (pre ++ q :: post) = filter f q.
  Proof.
    intros Hpre Hpost. induction pre as [|p pre IH]; cbn [List.app].
    - split; [cbn; right; exact Hpost|]. unfold cf. cbn [map concat]. fold (cf post). rewrite (nofc_cf _ Hpost). apply app_nil_r.
    - assert (Hp : nof p) by (intros e He; apply Hpre; cbn; apply in_or_app; left; exact He).
      assert (Hpre' : nof (concat pre)) by (intros e He; apply Hpre; cbn; apply in_or_app; right; exact He).
      destruct (IH Hpre') as [Ho Hc]. split; [cbn; left; split; assumption|].
      unfold cf in *. cbn [map concat]. rewrite (filter_all_false f p Hp). exact Hc.
  Qed.

  Lemma merge_all_single pre q post : nof (concat pre) -> nof (concat post) ->
    filter f (merge_all (pre ++ q :: post)) = filter f q.
  Proof.
    intros Hpre Hpost. destruct (single_src pre q post Hpre Hpost) as [Ho Hc].
    unfold merge_all. rewrite merge_filter; [exact Hc|exact Ho|lia].
  Qed.
End Interleave.

(** * T1: every allocation of the tree keeps its internal order in the final queue *)
Inductive sub_of : alloc -> alloc -> Prop :=
| sub_here : forall al, sub_of al al
| sub_below : forall res rank adj traits maxu names subs p sub,
    In p subs -> sub_of (snd p) sub -> sub_of (Alloc res rank adj traits maxu names subs) sub.

Lemma aget_In {A} k (m : list (Z * A)) v : aget k m = Some v -> In (k, v) m.
Proof.
  induction m as [|[k' w] r IH]; cbn; [discriminate|].
  destruct (Z.eqb_spec k' k); [intros H; inversion H; subst; left; reflexivity|intros H; right; apply IH; exact H].
Qed.
Lemma alloc_at_sub_of : forall path al sub, alloc_at al path = Some sub -> sub_of al sub.
Proof.
  induction path as [|p r IH]; intros al sub H; cbn in H.
  - inversion H; subst. constructor.
  - destruct (aget p (al_subs al)) as [s|] eqn:E; [|discriminate].
    destruct al as [res rank adj traits maxu names subs]. cbn in E.
    apply (sub_below _ _ _ _ _ _ _ (p, s)); [apply aget_In; exact E|apply IH; exact H].
Qed.

Lemma sub_of_apps al sub : sub_of al sub -> incl (al_apps sub) (all_apps al).
Proof.
  induction 1 as [al|res rank adj traits maxu names subs p sub Hp Hs IH].
  - destruct al as [res rank adj traits maxu names subs]. rewrite all_apps_eq. cbn. intros x Hx. apply in_or_app. left. exact Hx.
  - rewrite all_apps_eq. intros x Hx. apply in_or_app. right. unfold subapps_of.
    apply in_concat. exists (all_apps (snd p)). split; [apply in_map_iff; exists p; auto|apply IH; exact Hx].
Qed.

Definition own_names (apps : list app) (sub : alloc) : list Z :=
  map a_name (sort_apps (lookup_apps (al_apps sub) apps)).

Theorem merge_keeps_alloc_order dim free keps apps al sub :
  NoDup (all_apps al) -> sub_of al sub ->
  filter (fun n => zmem n (al_apps sub)) (map e_app (util_queue dim free keps apps al)) = own_names apps sub.
Proof.
  intros Hnd Hsub. induction Hsub as [al|res rank adj traits maxu names subs p sub Hp Hs IH].
  - destruct al as [res rank adj traits maxu names subs].
    rewrite util_queue_eq. cbv zeta. rewrite rescore_loop_app, filter_map_comm.
    rewrite all_apps_eq in Hnd. apply NoDup_app_inv in Hnd. destruct Hnd as (_ & _ & Hdis).
    rewrite (merge_all_single _ (subqs_of dim free keps apps subs) _ []).
    + rewrite filter_all_true.
      * apply priv_queue_order.
      * intros e He. apply zmem_In. apply priv_queue_names in He. exact He.
    + intros e He. apply subqs_names in He. apply zmem_notIn. cbn [al_apps]. intros Hi. exact (Hdis _ Hi He).
    + intros e [].
  - destruct (in_split _ _ Hp) as (pre & post & ->).
    rewrite util_queue_eq. cbv zeta. rewrite rescore_loop_app, filter_map_comm.
    rewrite all_apps_eq in Hnd. unfold subapps_of in Hnd. rewrite map_app, concat_app in Hnd. cbn [map concat] in Hnd.
    fold (subapps_of pre) (subapps_of post) in Hnd. rewrite app_assoc in Hnd.
    apply NoDup_mid in Hnd. destruct Hnd as (Hndp & Hdis).
    pose proof (sub_of_apps _ _ Hs) as Hincl.
    unfold subqs_of. rewrite map_app. cbn [map]. rewrite <- app_assoc. cbn [List.app].
    fold (subqs_of dim free keps apps pre) (subqs_of dim free keps apps post).
    rewrite merge_all_single.
    + rewrite <- (filter_map_comm (fun n => zmem n (al_apps sub)) e_app). apply IH. exact Hndp.
    + intros e He. apply subqs_names in He. apply zmem_notIn. intros Hi.
      destruct (Hdis _ (Hincl _ Hi)) as [H1 _]. apply H1. apply in_or_app. right. exact He.
    + intros e He. rewrite concat_app in He. cbn [concat] in He. rewrite app_nil_r in He.
      apply zmem_notIn. intros Hi. destruct (Hdis _ (Hincl _ Hi)) as [H1 H2].
      apply in_app_or in He. destruct He as [He|He].
      * apply subqs_names in He. exact (H2 He).
      * apply priv_queue_names in He. cbn [al_apps] in He. apply H1. apply in_or_app. left. exact He.
Qed.

(** by path instead of [sub_of] *)
Corollary merge_keeps_alloc_order_at dim free keps apps al path sub :
  NoDup (all_apps al) -> alloc_at al path = Some sub ->
  filter (fun n => zmem n (al_apps sub)) (map e_app (util_queue dim free keps apps al)) = own_names apps sub.
Proof. intros Hnd Hp. apply merge_keeps_alloc_order; [exact Hnd|]. eapply alloc_at_sub_of. exact Hp. Qed.

(** ** two instances of one allocation *)
Lemma two_in_split {A} (x y : A) : forall l, In x l -> In y l -> x <> y ->
  (exists l1 l2 l3, l = l1 ++ x :: l2 ++ y :: l3) \/ (exists l1 l2 l3, l = l1 ++ y :: l2 ++ x :: l3).
Proof.
  induction l as [|a l IH]; intros Hx Hy Hne; [destruct Hx|].
  destruct Hx as [->|Hx], Hy as [->|Hy].
  - contradiction.
  - left. destruct (in_split _ _ Hy) as (l2 & l3 & ->). exists [], l2, l3. reflexivity.
  - right. destruct (in_split _ _ Hx) as (l2 & l3 & ->). exists [], l2, l3. reflexivity.
  - destruct (IH Hx Hy Hne) as [(l1 & l2 & l3 & ->)|(l1 & l2 & l3 & ->)]; [left|right]; exists (a :: l1), l2, l3; reflexivity.
Qed.

Lemma ss_before {A} (R : A -> A -> Prop) x y : forall l1 l2 l3,
  StronglySorted R (l1 ++ x :: l2 ++ y :: l3) -> R x y.
Proof.
  induction l1 as [|a l1 IH]; intros l2 l3 H; cbn in H; inversion H as [|? ? Hs Hf]; subst.
  - rewrite Forall_forall in Hf. apply Hf. apply in_or_app. right. left. reflexivity.
  - eapply IH. exact Hs.
Qed.

Lemma nodup_order_unique {A} (a b : A) : forall l1 l2 l3 m1 m2 m3,
  NoDup (l1 ++ a :: l2 ++ b :: l3) -> l1 ++ a :: l2 ++ b :: l3 = m1 ++ b :: m2 ++ a :: m3 -> False.
Proof.
  induction l1 as [|c l1 IH]; intros l2 l3 m1 m2 m3 Hnd He; cbn in *.
  - inversion Hnd as [|? ? Hn _]; subst. destruct m1 as [|d m1]; cbn in He; inversion He; subst.
    + apply Hn. apply in_or_app. right. left. reflexivity.
    + apply Hn. rewrite H1. apply in_or_app. right. right. apply in_or_app. right. left. reflexivity.
  - inversion Hnd as [|? ? Hn Hr]; subst. destruct m1 as [|d m1]; cbn in He; inversion He; subst.
    + apply Hn. apply in_or_app. right. right. apply in_or_app. right. left. reflexivity.
    + eapply IH; eassumption.
Qed.

Lemma key_le_refl x : key_le x x.
Proof. unfold key_le. lia. Qed.

Lemma lookup_apps_names_filter names apps :
  map a_name (lookup_apps names apps) =
  filter (fun n => match get_app n apps with Some _ => true | None => false end) names.
Proof.
  induction names as [|n r IH]; cbn; [reflexivity|].
  destruct (get_app n apps) as [a|] eqn:E; cbn; [|exact IH].
  rewrite (get_app_name _ _ _ E), IH. reflexivity.
Qed.

(** no instance twice in the tree => no instance twice in the queue *)
Lemma util_queue_nodup dim free keps apps al :
  NoDup (all_apps al) -> NoDup (map e_app (util_queue dim free keps apps al)).
Proof.
  intros H. eapply Permutation_NoDup; [symmetry; apply util_queue_perm|].
  rewrite lookup_apps_names_filter. apply NoDup_filter. exact H.
Qed.

(** [x] strictly before [y] in app-key order => [x] before [y] in the final queue (and not after) *)
Theorem alloc_order_before dim free keps apps al sub x y :
  NoDup (all_apps al) -> sub_of al sub ->
  In x (lookup_apps (al_apps sub) apps) -> In y (lookup_apps (al_apps sub) apps) -> ~ key_le y x ->
  let names := map e_app (util_queue dim free keps apps al) in
  (exists l1 l2 l3, names = l1 ++ a_name x :: l2 ++ a_name y :: l3) /\
  (forall l1 l2 l3, names <> l1 ++ a_name y :: l2 ++ a_name x :: l3).
Proof.
  intros Hnd Hsub Hx Hy Hlt names.
  assert (Hex : exists l1 l2 l3, names = l1 ++ a_name x :: l2 ++ a_name y :: l3).
  { pose proof (merge_keeps_alloc_order dim free keps apps al sub Hnd Hsub) as Hf. fold names in Hf.
    set (S := sort_apps (lookup_apps (al_apps sub) apps)) in *.
    assert (HxS : In x S) by (eapply Permutation_in; [apply sort_apps_perm|exact Hx]).
    assert (HyS : In y S) by (eapply Permutation_in; [apply sort_apps_perm|exact Hy]).
    assert (Hne : x <> y) by (intros ->; apply Hlt; apply key_le_refl).
    pose proof (sort_apps_sorted (lookup_apps (al_apps sub) apps)) as Hss. fold S in Hss.
    destruct (two_in_split x y S HxS HyS Hne) as [(l1 & l2 & l3 & E)|(l1 & l2 & l3 & E)].
    - unfold own_names in Hf. fold S in Hf. rewrite E in Hf. rewrite map_app in Hf. cbn [map] in Hf. rewrite map_app in Hf. cbn [map] in Hf.
      eapply filter_before. exact Hf.
    - exfalso. apply Hlt. rewrite E in Hss. eapply ss_before. exact Hss. }
  split; [exact Hex|].
  intros m1 m2 m3 E. destruct Hex as (l1 & l2 & l3 & E1).
  pose proof (util_queue_nodup dim free keps apps al Hnd) as Hn. fold names in Hn.
  rewrite E1 in Hn. eapply nodup_order_unique; [exact Hn|]. rewrite <- E1. exact E.
Qed.

(** * T2: priority-0 entries come after all others of the same rank *)
(** coarse key: (rank, priority = 0), lexicographic *)
Definition ckey (e : entry) : Z * bool := (e_rank e, Z.eqb (e_prio e) 0).
Definition ckp_le (a b : Z * bool) : Prop :=
  fst a < fst b \/ (fst a = fst b /\ (snd a = true -> snd b = true)).
Definition cks (q : list entry) : Prop := StronglySorted ckp_le (map ckey q).
(** what re-scoring establishes for every entry: utilisation after = +inf exactly for priority 0,
    and then utilisation before = +inf too. (A non-zero-priority entry CAN have utilisation before = +inf:
    the one that follows a priority-0 entry of a lower rank in a parent's merged queue.) *)
Definition good (e : entry) : Prop := (e_ua e = None <-> e_prio e = 0) /\ (e_prio e = 0 -> e_ub e = None).
Definition cksg (q : list entry) : Prop := cks q /\ Forall good q.

Lemma ckp_le_trans a b c : ckp_le a b -> ckp_le b c -> ckp_le a c.
Proof. unfold ckp_le. intros [H1|[H1 H1']] [H2|[H2 H2']]; try (left; lia). right. split; [lia|tauto]. Qed.

Lemma entry_ltb_ck m x : good m -> good x -> entry_ltb m x = true -> ckp_le (ckey m) (ckey x).
Proof.
  intros [Hm1 Hm2] [Hx1 Hx2] H. unfold ckp_le, ckey; cbn [fst snd].
  unfold entry_ltb, entry_compare in H.
  destruct (Z.compare_spec (e_rank m) (e_rank x)) as [Er|Er|Er]; cbn [lex] in H; [|left; exact Er|discriminate].
  right. split; [exact Er|]. intros Hm0. apply Z.eqb_eq in Hm0.
  destruct (Z.eqb_spec (e_prio x) 0) as [|Hx0]; [reflexivity|exfalso].
  rewrite (Hm2 Hm0), (proj2 Hm1 Hm0) in H.
  destruct (e_ua x) as [u|] eqn:Eu; [|apply Hx0; apply Hx1; reflexivity].
  destruct (e_ub x); cbn in H; discriminate.
Qed.
Lemma entry_nltb_ck m x : good m -> good x -> entry_ltb m x = false -> ckp_le (ckey x) (ckey m).
Proof.
  intros [Hm1 Hm2] [Hx1 Hx2] H. unfold ckp_le, ckey; cbn [fst snd].
  unfold entry_ltb, entry_compare in H.
  destruct (Z.compare_spec (e_rank m) (e_rank x)) as [Er|Er|Er]; cbn [lex] in H; [|discriminate|left; exact Er].
  right. split; [symmetry; exact Er|]. intros Hx0. apply Z.eqb_eq in Hx0.
  destruct (Z.eqb_spec (e_prio m) 0) as [|Hm0]; [reflexivity|exfalso].
  rewrite (Hx2 Hx0), (proj2 Hx1 Hx0) in H.
  destruct (e_ua m) as [u|] eqn:Eu; [|apply Hm0; apply Hm1; reflexivity].
  destruct (e_ub m); cbn in H; discriminate.
Qed.

Lemma cks_head x q : cks (x :: q) -> (forall e, In e q -> ckp_le (ckey x) (ckey e)) /\ cks q.
Proof.
  unfold cks; cbn [map]; intros H; inversion H as [|? ? Hs Hf]; subst. split; [|exact Hs].
  intros e He. rewrite Forall_forall in Hf. apply Hf. apply in_map. exact He.
Qed.

(** the picked entry has the smallest coarse key of everything that remains, and the queues stay sorted *)
Lemma pick_min_ck : forall qs m qs', Forall cksg qs -> pick qs = Some (m, qs') ->
  (forall e, In e (concat qs') -> ckp_le (ckey m) (ckey e)) /\ Forall cksg qs' /\ good m.
Proof.
  induction qs as [|q t IH]; intros m qs' Hs Hp; cbn in Hp; [discriminate|].
  inversion Hs as [|? ? Hq Ht]; subst.
  destruct q as [|x q].
  - destruct (pick t) as [[m0 t']|] eqn:E; [|discriminate]. inversion Hp; subst.
    destruct (IH _ _ Ht eq_refl) as (Hmin & Hs' & Hg). split; [|split; [constructor; assumption|exact Hg]].
    intros e He. cbn in He. apply Hmin. exact He.
  - destruct Hq as [Hcq Hgq]. destruct (cks_head _ _ Hcq) as [Hxq Hq'].
    inversion Hgq as [|? ? Hgx Hgq']; subst.
    assert (Hq'' : cksg q) by (split; assumption).
    destruct (pick t) as [[m0 t']|] eqn:E.
    + destruct (IH _ _ Ht eq_refl) as (Hmin & Hs' & Hg).
      destruct (entry_ltb m0 x) eqn:El; inversion Hp; subst.
      * split; [|split; [constructor; [split; assumption|assumption]|exact Hg]].
        intros e He. cbn in He. pose proof (entry_ltb_ck _ _ Hg Hgx El) as Hle.
        destruct He as [<-|He]; [exact Hle|].
        apply in_app_or in He as [He|He]; [|apply Hmin; exact He].
        eapply ckp_le_trans; [exact Hle|apply Hxq; exact He].
      * split; [|split; [constructor; assumption|exact Hgx]].
        intros e He. cbn in He. apply in_app_or in He as [He|He]; [apply Hxq; exact He|].
        pose proof (entry_nltb_ck _ _ Hg Hgx El) as Hle.
        assert (Hin : In e (m0 :: concat t')) by (eapply Permutation_in; [apply (pick_perm _ _ _ E)|exact He]).
        destruct Hin as [<-|Hin]; [exact Hle|]. eapply ckp_le_trans; [exact Hle|apply Hmin; exact Hin].
    + inversion Hp; subst. split; [|split; [constructor; assumption|exact Hgx]].
      intros e He. cbn in He. apply in_app_or in He as [He|He]; [apply Hxq; exact He|].
      rewrite (pick_none _ E) in He. destruct He.
Qed.

Lemma merge_cks : forall fuel qs, Forall cksg qs -> cksg (merge fuel qs).
Proof.
  induction fuel as [|f IH]; intros qs Hs; cbn [merge]; [split; constructor|].
  destruct (pick qs) as [[m qs']|] eqn:E; [|split; constructor].
  destruct (pick_min_ck _ _ _ Hs E) as (Hmin & Hs' & Hg). destruct (IH _ Hs') as [Hc Hgd].
  split; [|constructor; assumption].
  unfold cks in *. cbn [map]. constructor; [exact Hc|].
  apply Forall_forall. intros k Hk. apply in_map_iff in Hk. destruct Hk as (e & <- & He).
  apply Hmin. eapply merge_sub. exact He.
Qed.

(** re-scoring keeps the coarse key and establishes [good] *)
Lemma rescore_loop_ckey res av l : forall acc ub, map ckey (rescore_loop res av l acc ub) = map ckey l.
Proof.
  induction l as [|e r IH]; intros acc ub; cbn [rescore_loop map]; [reflexivity|].
  destruct (rescore res av (acc, ub) (e_demand e) (e_prio e)) as [[acc' ub1] ua1]. cbn [map]. f_equal. apply IH.
Qed.
Lemma rescore_good res av st d p :
  let '(acc', ub1, ua1) := rescore res av st d p in (ua1 = None <-> p = 0) /\ (p = 0 -> ub1 = None).
Proof.
  unfold rescore. destruct st as [acc ub]. destruct (Z.eqb_spec p 0) as [E|E].
  - split; [split; auto|auto].
  - split; [split; [discriminate|contradiction]|contradiction].
Qed.
Lemma rescore_loop_good res av l : forall acc ub, Forall good (rescore_loop res av l acc ub).
Proof.
  induction l as [|e r IH]; intros acc ub; cbn [rescore_loop]; [constructor|].
  pose proof (rescore_good res av (acc, ub) (e_demand e) (e_prio e)) as H.
  destruct (rescore res av (acc, ub) (e_demand e) (e_prio e)) as [[acc' ub1] ua1]. constructor; [exact H|apply IH].
Qed.
Lemma priv_loop_good rank adj maxu res av l : forall acc ub, Forall good (priv_loop rank adj maxu res av l acc ub).
Proof.
  induction l as [|a r IH]; intros acc ub; [constructor|]. rewrite priv_loop_cons.
  pose proof (rescore_good res av (acc, ub) (a_demand a) (a_prio a)) as H.
  destruct (rescore res av (acc, ub) (a_demand a) (a_prio a)) as [[acc' ub1] ua1]. constructor; [exact H|apply IH].
Qed.
Lemma priv_loop_prio rank adj maxu res av l : forall acc ub,
  map e_prio (priv_loop rank adj maxu res av l acc ub) = map a_prio l.
Proof.
  induction l as [|a r IH]; intros acc ub; [reflexivity|]. rewrite priv_loop_cons.
  destruct (rescore res av (acc, ub) (a_demand a) (a_prio a)) as [[acc' ub1] ua1]. cbn [map e_prio]. f_equal. apply IH.
Qed.

(** ** the private queue is sorted by the coarse key *)
Fixpoint ztail (l : list Z) : Prop :=
  match l with [] => True | p :: r => (p = 0 -> Forall (fun z => z = 0) r) /\ ztail r end.
Lemma ptail_ztail l : ptail l -> ztail (map a_prio l).
Proof.
  induction l as [|a r IH]; cbn; [auto|]. intros [H1 H2]. split; [|apply IH; exact H2].
  intros H0. apply Forall_map. apply H1. exact H0.
Qed.
Lemma cks_of_rank_ztail : forall q,
  StronglySorted Z.le (map e_rank q) -> ztail (map e_prio q) -> cks q.
Proof.
  unfold cks. induction q as [|e q IH]; cbn [map]; intros Hr Hz; [constructor|].
  inversion Hr as [|? ? Hrs Hrf]; subst. destruct Hz as [Hz0 Hz]. constructor; [apply IH; assumption|].
  apply Forall_forall. intros k Hk. apply in_map_iff in Hk. destruct Hk as (x & <- & Hx).
  rewrite Forall_forall in Hrf. specialize (Hrf (e_rank x) (in_map e_rank _ _ Hx)).
  unfold ckp_le, ckey; cbn [fst snd].
  destruct (Z.eq_dec (e_rank e) (e_rank x)) as [Eq|Ne]; [right|left; lia].
  split; [exact Eq|]. intros H0. apply Z.eqb_eq in H0. specialize (Hz0 H0). rewrite Forall_forall in Hz0.
  apply Z.eqb_eq. apply Hz0. apply in_map. exact Hx.
Qed.

Lemma priv_queue_cksg dim apps al :
  apps_ok dim apps -> 0 <= al_adj al -> al_rank al <= UNPLACED_RANK -> nonneg (al_reserved al) ->
  cksg (priv_queue dim al apps).
Proof.
  intros Hok Hadj Hrank Hres. split; [|unfold priv_queue; apply priv_loop_good].
  apply cks_of_rank_ztail.
  - apply Sorted_StronglySorted; [intros a b c; lia|]. apply priv_queue_rank_sorted; assumption.
  - unfold priv_queue. rewrite priv_loop_prio. apply ptail_ztail.
    apply sorted_ptail; [apply sort_apps_sorted|]. apply Forall_forall. intros a Ha.
    unfold apps_ok in Hok. rewrite Forall_forall in Hok. apply Hok.
    apply (lookup_apps_in (al_apps al)). eapply Permutation_in; [symmetry; apply sort_apps_perm|exact Ha].
Qed.

(** ** the final queue of every allocation tree is sorted by the coarse key *)
Theorem util_queue_cksg dim free keps apps al :
  apps_ok dim apps -> alloc_ok al -> cksg (util_queue dim free keps apps al).
Proof.
  intros Hok. induction al as [res rank adj traits maxu names subs IH] using alloc_rect'.
  intros [(Ha & Hr & Hn) Hsubs]. rewrite util_queue_eq. cbv zeta.
  split; [|apply rescore_loop_good]. unfold cks. rewrite rescore_loop_ckey.
  apply merge_cks. apply Forall_app. split.
  - clear Ha Hr Hn. unfold subqs_of. induction subs as [|[n s] r IHr]; [constructor|].
    inversion IH as [|? ? Hs Hrr]; subst. destruct Hsubs as [Hs1 Hs2].
    cbn [map snd]. constructor; [apply Hs; exact Hs1|apply IHr; assumption].
  - constructor; [|constructor]. apply priv_queue_cksg; assumption.
Qed.

Theorem util_queue_zero_last dim free keps apps al :
  apps_ok dim apps -> alloc_ok al ->
  let q := util_queue dim free keps apps al in
  forall e1 e2, In e1 q -> In e2 q ->
    e_prio e1 = 0 -> e_prio e2 <> 0 -> e_rank e1 = e_rank e2 ->
    (exists l1 l2 l3, q = l1 ++ e2 :: l2 ++ e1 :: l3) /\
    (forall l1 l2 l3, q <> l1 ++ e1 :: l2 ++ e2 :: l3).
Proof.
  intros Hok Hal q e1 e2 H1 H2 Hp1 Hp2 Hr.
  destruct (util_queue_cksg dim free keps apps al Hok Hal) as [Hc _]. fold q in Hc.
  assert (Hno : forall l1 l2 l3, q <> l1 ++ e1 :: l2 ++ e2 :: l3).
  { intros l1 l2 l3 E. unfold cks in Hc. rewrite E in Hc.
    rewrite map_app in Hc. cbn [map] in Hc. rewrite map_app in Hc. cbn [map] in Hc.
    apply ss_before in Hc. unfold ckp_le, ckey in Hc; cbn [fst snd] in Hc.
    destruct Hc as [Hc|[_ Hc]]; [lia|].
    apply Hp2. apply Z.eqb_eq. apply Hc. apply Z.eqb_eq. exact Hp1. }
  split; [|exact Hno].
  assert (Hne : e2 <> e1) by (intros ->; contradiction).
  destruct (two_in_split e2 e1 q H2 H1 Hne) as [H|(l1 & l2 & l3 & E)]; [exact H|].
  exfalso. exact (Hno _ _ _ E).
Qed.

(** ** the entries' static fields are those of the instance they name *)
Definition of_app (apps : list app) (e : entry) : Prop :=
  exists a, get_app (e_app e) apps = Some a /\ a_name a = e_app e /\ e_prio e = a_prio a /\
            e_demand e = a_demand a /\ e_pending e = is_pending a /\ e_order e = a_order a.

Lemma rescore_loop_of_app apps res av l : forall acc ub,
  Forall (of_app apps) l -> Forall (of_app apps) (rescore_loop res av l acc ub).
Proof.
  induction l as [|e r IH]; intros acc ub H; cbn [rescore_loop]; [constructor|].
  inversion H as [|? ? He Hr]; subst.
  destruct (rescore res av (acc, ub) (e_demand e) (e_prio e)) as [[acc' ub1] ua1].
  constructor; [exact He|apply IH; exact Hr].
Qed.
Lemma priv_loop_of_app apps rank adj maxu res av l : forall acc ub,
  (forall a, In a l -> get_app (a_name a) apps = Some a) ->
  Forall (of_app apps) (priv_loop rank adj maxu res av l acc ub).
Proof.
  induction l as [|a r IH]; intros acc ub H; [constructor|]. rewrite priv_loop_cons.
  destruct (rescore res av (acc, ub) (a_demand a) (a_prio a)) as [[acc' ub1] ua1].
  constructor; [|apply IH; intros b Hb; apply H; right; exact Hb].
  exists a. cbn. repeat split. apply H. left. reflexivity.
Qed.

Theorem util_queue_of_app dim free keps apps al : Forall (of_app apps) (util_queue dim free keps apps al).
Proof.
  induction al as [res rank adj traits maxu names subs IH] using alloc_rect'.
  rewrite util_queue_eq. cbv zeta. apply rescore_loop_of_app.
  apply Forall_forall. intros e He.
  apply (Permutation_in _ (Permutation_sym (merge_all_perm _))) in He.
  rewrite concat_app in He. cbn [concat] in He. rewrite app_nil_r in He.
  apply in_app_or in He. destruct He as [He|He].
  - unfold subqs_of in He. apply in_concat in He. destruct He as (q & Hq & He).
    apply in_map_iff in Hq. destruct Hq as (p & <- & Hp).
    rewrite Forall_forall in IH. specialize (IH p Hp). rewrite Forall_forall in IH. apply IH. exact He.
  - revert e He. apply Forall_forall. unfold priv_queue. apply priv_loop_of_app.
    intros a Ha. apply (Permutation_in _ (Permutation_sym (sort_apps_perm _))) in Ha.
    apply (lookup_apps_name _ _ _ Ha).
Qed.

(** T2 stated on instance names: [n0] names a priority-0 instance, [n1] a non-zero-priority one *)
Corollary util_queue_zero_last_names dim free keps apps al :
  apps_ok dim apps -> alloc_ok al ->
  let q := util_queue dim free keps apps al in
  forall e1 e2 a1 a2, In e1 q -> In e2 q ->
    get_app (e_app e1) apps = Some a1 -> get_app (e_app e2) apps = Some a2 ->
    a_prio a1 = 0 -> a_prio a2 <> 0 -> e_rank e1 = e_rank e2 ->
    exists l1 l2 l3, map e_app q = l1 ++ e_app e2 :: l2 ++ e_app e1 :: l3.
Proof.
  intros Hok Hal q e1 e2 a1 a2 H1 H2 G1 G2 P1 P2 Hr.
  pose proof (util_queue_of_app dim free keps apps al) as Hof. fold q in Hof. rewrite Forall_forall in Hof.
  destruct (Hof _ H1) as (b1 & B1 & _ & Q1 & _). destruct (Hof _ H2) as (b2 & B2 & _ & Q2 & _).
  rewrite G1 in B1. rewrite G2 in B2. inversion B1; inversion B2; subst b1 b2.
  destruct (util_queue_zero_last dim free keps apps al Hok Hal e1 e2 H1 H2) as [(l1 & l2 & l3 & E) _];
    [congruence|congruence|exact Hr|].
  fold q in E. rewrite E. exists (map e_app l1), (map e_app l2), (map e_app l3).
  rewrite map_app. cbn [map]. rewrite map_app. reflexivity.
Qed.

(** * Non-vacuity: a three-level tree *)
Definition mo_app (n p o : Z) (d : vec) (srv : option Z) : app :=
  mkApp n p d 3000 [] 0 0 None None false o None srv None None false false false false (-1).
Definition mo_apps : list app :=
  [ mo_app 1 5 1 [100;100;100] (Some 7); mo_app 2 5 2 [100;100;100] None; mo_app 3 9 3 [50;50;50] None;
    mo_app 4 0 4 [10;10;10] None; mo_app 5 1 5 [400;400;400] None; mo_app 6 3 6 [10;10;10] None;
    mo_app 7 0 7 [10;10;10] None; mo_app 8 2 8 [10;10;10] (Some 7); mo_app 9 0 9 [10;10;10] None;
    mo_app 10 4 10 [10;10;10] None ].
Definition mo_leaf : alloc := Alloc [64;64;64] 50 0 0 None [3; 9] [].
Definition mo_mid : alloc := Alloc [150;150;150] 100 10 0 (Some (3 # 1)%Q) [1; 2; 5] [(7000, mo_leaf); (7001, Alloc [0;0;0] 100 0 0 None [7; 8] [])].
Definition mo_alloc : alloc := Alloc [0;0;0] 100 0 0 None [4; 6] [(6000, mo_mid); (6001, Alloc [64;64;64] 100 0 0 None [10] [])].
Definition mo_queue := util_queue 3 [1000;1000;1000] 0 mo_apps mo_alloc.

(** the hypotheses of T1 and T2 hold, and the queue has priority-0 and other entries of the same rank
    (rank 50: 3 then 9; rank 100: 10, 6, 8 then 4, 7), coming from different allocations at different depths *)
Example mo_nonvacuous :
  apps_ok 3 mo_apps /\ alloc_ok mo_alloc /\ NoDup (all_apps mo_alloc) /\
  alloc_at mo_alloc [6000; 7000] = Some mo_leaf /\
  map (fun e => (e_app e, e_rank e, e_prio e)) mo_queue
  = [(3, 50, 9); (9, 50, 0); (1, 90, 5); (2, 90, 5); (10, 100, 4); (6, 100, 3); (8, 100, 2);
     (4, 100, 0); (7, 100, 0); (5, UNPLACED_RANK, 1)].
Proof.
  split; [|split; [|split; [|split]]].
  - unfold apps_ok, mo_apps. repeat constructor; cbn; try discriminate.
  - cbn. repeat split; try discriminate; repeat constructor; try discriminate.
  - vm_compute. repeat constructor; cbn; intuition discriminate.
  - vm_compute. reflexivity.
  - vm_compute. reflexivity.
Qed.

(** T1 and T2 instantiated on it *)
Example mo_T1_depth2 :
  filter (fun n => zmem n (al_apps mo_leaf)) (map e_app mo_queue) = [3; 9] /\
  filter (fun n => zmem n (al_apps mo_mid)) (map e_app mo_queue) = [1; 2; 5] /\
  filter (fun n => zmem n (al_apps mo_alloc)) (map e_app mo_queue) = [6; 4].
Proof. vm_compute. repeat split. Qed.

(** the model fact that makes T2 delicate: "utilisation before = +inf <=> priority 0" is FALSE after re-scoring.
    Instance 1 (priority 5, rank 90) follows the priority-0 instance 9 (rank 50) in the merged queue of its
    allocation and inherits utilisation-before = +inf; T2 holds nevertheless because the comparison falls
    through to utilisation-after, which is +inf exactly for priority 0 ([good]). *)
Example mo_ub_none_nonzero_prio :
  map (fun e => (e_app e, e_prio e, match e_ub e with None => true | _ => false end,
                 match e_ua e with None => true | _ => false end)) mo_queue
  = [(3, 9, false, false); (9, 0, true, true); (1, 5, true, false); (2, 5, false, false);
     (10, 4, false, false); (6, 3, false, false); (8, 2, false, false); (4, 0, true, true);
     (7, 0, true, true); (5, 1, true, false)].
Proof. vm_compute. reflexivity. Qed.

Print Assumptions merge_keeps_alloc_order.
Print Assumptions merge_keeps_alloc_order_at.
Print Assumptions alloc_order_before.
Print Assumptions util_queue_cksg.
Print Assumptions util_queue_zero_last.
Print Assumptions util_queue_of_app.
Print Assumptions util_queue_zero_last_names.
Print Assumptions mo_nonvacuous.
