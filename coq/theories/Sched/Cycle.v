(** Cell.schedule and its phases. Identity acquisition (set.pop) is resolved by a
    list of choices recorded from the implementation; a missing or unavailable choice
    falls back to the smallest available identity. Model file: no proofs. *)
From Coq Require Import ZArith QArith List Bool.
From RecordUpdate Require Import RecordSet.
From TM Require Import Sched.Vec Sched.Types Sched.Queue Sched.Tree.
Import ListNotations.
Open Scope Z_scope.

(** ** identity groups *)
Definition group_of (c : cell) (a : app) : option (Z * idgroup) :=
  match a_group a with
  | None => None
  | Some g => match aget g (c_groups c) with Some grp => Some (g, grp) | None => None end
  end.

(** Application.release_identity *)
Definition release_identity (c : cell) (aname : Z) : cell :=
  match get_app aname (c_apps c) with
  | None => c
  | Some a =>
      match group_of c a, a_identity a with
      | Some (g, grp), Some i =>
          let grp' := if Z.ltb i (g_count grp) then mkGroup (g_count grp) (zadd_set i (g_avail grp)) else grp in
          c_upd_app aname (fun x => x <| a_identity := None |>) (c <| c_groups ::= aset g grp' |>)
      | _, _ => c
      end
  end.

(** Application.acquire_identity; [choice] is the identity the implementation's set.pop() returned *)
Definition acquire_identity (c : cell) (aname : Z) (choice : option Z) : cell * bool :=
  match get_app aname (c_apps c) with
  | None => (c, true)
  | Some a =>
      match group_of c a with
      | None => (c, true)
      | Some (g, grp) =>
          match a_identity a with
          | Some _ => (c, true)
          | None =>
              match g_avail grp with
              | [] => (c, false)
              | first :: _ =>
                  let i := match choice with
                           | Some ch => if zmem ch (g_avail grp) then ch else first
                           | None => first
                           end in
                  (c_upd_app aname (fun x => x <| a_identity := Some i |>)
                             (c <| c_groups ::= aset g (mkGroup (g_count grp) (zremove i (g_avail grp))) |>), true)
              end
          end
      end
  end.
Definition has_identity (c : cell) (a : app) : bool :=
  match group_of c a with None => true | Some _ => match a_identity a with Some _ => true | None => false end end.

(** IdentityGroup.adjust: grow uses symmetric difference, shrink uses difference *)
Definition zrange (lo hi : Z) : list Z := map (fun i => lo + Z.of_nat i) (seq 0 (Z.to_nat (hi - lo))).
Definition sym_diff (a b : list Z) : list Z :=
  filter (fun x => negb (zmem x b)) a ++ filter (fun x => negb (zmem x a)) b.
Definition group_adjust (grp : idgroup) (count : Z) : idgroup :=
  if Z.geb count (g_count grp)
  then mkGroup count (sym_diff (g_avail grp) (zrange (g_count grp) count))
  else mkGroup count (filter (fun x => negb (Z.leb count x && Z.ltb x (g_count grp))) (g_avail grp)).

(** ** phases of Cell.schedule *)
Definition is_member (c : cell) (n : Z) : bool :=
  match get_srv n (c_servers c) with Some _ => true | None => false end.

(** _fix_invalid_placements *)
Definition fix_invalid_placements (c : cell) : cell :=
  fold_left (fun acc a0 =>
               match get_app (a_name a0) (c_apps acc) with
               | Some a =>
                   match a_server a with
                   | Some n => if is_member acc n then acc
                               else release_identity
                                      (c_upd_app (a_name a) (fun x => x <| a_server := None |> <| a_evicted := true |>) acc)
                                      (a_name a)
                   | None => acc
                   end
               | None => acc
               end) (c_apps c) c.

(** _handle_inactive_servers *)
Definition expired (c : cell) (since : Z) (a : app) : bool :=
  match a_drt a with
  | None => Z.leb 0 (c_now c)
  | Some t => Z.leb (since + t) (c_now c)
  end.
Definition to_be_moved (c : cell) (s : server) : list Z :=
  match s_state s with
  | Up => []
  | Down => filter (fun n => match get_app n (c_apps c) with Some a => expired c (s_since s) a | None => false end)
                   (s_apps s)
  | Frozen => filter (fun n => match get_app n (c_apps c) with Some a => a_unschedule a | None => false end)
                     (s_apps s)
  end.
Definition handle_inactive_servers (c : cell) : cell :=
  fold_left (fun acc s0 =>
               match get_srv (s_name s0) (c_servers acc) with
               | Some s => fold_left (fun acc2 n => release_identity (srv_remove acc2 (s_name s) n) n)
                                     (to_be_moved acc s) acc
               | None => acc
               end) (c_servers c) c.

(** _handle_blacklisted_apps *)
Definition handle_blacklisted (c : cell) : cell :=
  fold_left (fun acc a0 =>
               match get_app (a_name a0) (c_apps acc) with
               | Some a =>
                   match a_blacklisted a, a_server a with
                   | true, Some n => release_identity (srv_remove acc n (a_name a)) (a_name a)
                   | true, None => release_identity acc (a_name a)
                   | _, _ => acc
                   end
               | None => acc
               end) (c_apps c) c.

(** _fix_invalid_identities *)
Definition fix_invalid_identities (c : cell) : cell :=
  fold_left (fun acc a0 =>
               match get_app (a_name a0) (c_apps acc) with
               | Some a =>
                   match a_identity a, group_of acc a with
                   | Some i, Some (_, grp) =>
                       if Z.geb i (g_count grp) then
                         let acc1 := c_upd_app (a_name a) (fun x => x <| a_identity := None |>) acc in
                         match a_server a with
                         | Some n => srv_remove acc1 n (a_name a)
                         | None => acc1
                         end
                       else acc
                   | _, _ => acc
                   end
               | None => acc
               end) (c_apps c) c.

(** ** PlacementFeasibilityTracker: shape = (affinity constraints, lease, alloc constraints), demand *)
Definition insert_sorted (x : option Z) (l : list (option Z)) : list (option Z) :=
  (* sorted(limits.values()) with inf = None last *)
  (fix ins (l : list (option Z)) : list (option Z) :=
     match l with
     | [] => [x]
     | y :: r =>
         let le := match x, y with
                   | Some a, Some b => Z.leb a b
                   | Some _, None => true
                   | None, Some _ => false
                   | None, None => true
                   end in
         if le then x :: y :: r else y :: ins r
     end) l.
(* allocation.constraints is frozen in Allocation.__init__: (label, 0) for a partition's top allocation,
   (None, 0) for every sub-allocation; so only top / sub / none is visible in the shape *)
Record shape := mkShape { sh_aff : Z; sh_limits : list (option Z); sh_lease : Z; sh_alloc : Z }.
Definition app_shape (a : app) : shape :=
  mkShape (a_aff a) (fold_left (fun acc kv => insert_sorted (Some (snd kv)) acc) (a_limits a) [])
          (a_lease a) (match a_alloc a with Some (_, []) => 1 | Some (_, _ :: _) => 2 | None => 0 end).
Fixpoint optz_list_eqb (a b : list (option Z)) : bool :=
  match a, b with
  | [], [] => true
  | x :: a', y :: b' => opt_eqb x y && optz_list_eqb a' b'
  | _, _ => false
  end.
Definition shape_eqb (x y : shape) : bool :=
  Z.eqb (sh_aff x) (sh_aff y) && optz_list_eqb (sh_limits x) (sh_limits y)
  && Z.eqb (sh_lease x) (sh_lease y) && Z.eqb (sh_alloc x) (sh_alloc y).
Definition tracker := list (shape * vec).
Fixpoint tr_get (t : tracker) (s : shape) : option vec :=
  match t with [] => None | (k, v) :: r => if shape_eqb k s then Some v else tr_get r s end.
Fixpoint tr_set (t : tracker) (s : shape) (v : vec) : tracker :=
  match t with
  | [] => [(s, v)]
  | (k, w) :: r => if shape_eqb k s then (k, v) :: r else (k, w) :: tr_set r s v
  end.
Definition tr_feasible (t : tracker) (a : app) : bool :=
  match tr_get t (app_shape a) with
  | Some rec => negb (all_ge (a_demand a) rec)
  | None => true
  end.
Definition tr_adjust (t : tracker) (a : app) : tracker :=
  match tr_get t (app_shape a) with
  | None => tr_set t (app_shape a) (a_demand a)
  | Some rec => if all_le (a_demand a) rec then tr_set t (app_shape a) (a_demand a) else t
  end.

(** ** _find_placements *)
Record loopst := mkLoop {
  l_cell : cell;
  l_evicted : list (Z * (Z * option Z));      (* app -> (server it was evicted from, its expiry) *)
  l_tracker : tracker;
  l_choices : list (Z * Z)                    (* (app, identity) choices still to be consumed *)
}.
#[export] Instance eta_loopst : Settable _ := settable! mkLoop <l_cell; l_evicted; l_tracker; l_choices>.

(** the eviction scan: victims from the end of the queue down to (excluding) the placer *)
Fixpoint evict_scan (victims : list Z) (placer : Z) (c : cell) (ev : list (Z * (Z * option Z)))
  : cell * list (Z * (Z * option Z)) :=
  match victims with
  | [] => (c, ev)
  | v :: r =>
      if Z.eqb v placer then (c, ev)
      else
        match get_app v (c_apps c) with
        | None => evict_scan r placer c ev
        | Some va =>
            match a_server va with
            | None => evict_scan r placer c ev
            | Some sn =>
                match get_srv sn (c_servers c) with
                | None => evict_scan r placer c ev
                | Some s =>
                    match s_state s with
                    | Up =>
                        let ev' := aset v (sn, a_expiry va) ev in
                        let c1 := srv_remove c sn v in
                        match srv_put c1 sn placer with
                        | Some c2 => (c2, ev')
                        | None => evict_scan r placer c1 ev'
                        end
                    | _ => evict_scan r placer c ev
                    end
                end
            end
        end
  end.

(* the rest of an iteration once the instance holds an identity and was not restored: schedule-once check,
   feasibility tracker, Bucket.put from the top, eviction scan, and what happens when nothing worked *)
(* the instance could not be placed: release_identity() and placement_tracker.adjust() *)
Definition give_up (st : loopst) (aname : Z) (c6 : cell) (ev2 : list (Z * (Z * option Z))) : loopst :=
  let c7 := release_identity c6 aname in
  let tr := match get_app aname (c_apps c7) with
            | Some a7 => tr_adjust (l_tracker st) a7
            | None => l_tracker st
            end in
  st <| l_cell := c7 |> <| l_evicted := ev2 |> <| l_tracker := tr |>.

Definition place_tail (rev_queue : list Z) (st : loopst) (aname : Z) (c4 : cell)
           (ev1 : list (Z * (Z * option Z))) (restore : option (Z * option Z)) : loopst :=
  match get_app aname (c_apps c4) with
  | None => st
  | Some a4 =>
      if a_once a4 && a_evicted a4 then st <| l_cell := release_identity c4 aname |> <| l_evicted := ev1 |>
      else if negb (tr_feasible (l_tracker st) a4)
      then st <| l_cell := release_identity c4 aname |> <| l_evicted := ev1 |>
      else
        let '(c5, ok) := cell_put c4 aname in
        let '(c6, ev2) := if ok then (c5, ev1) else evict_scan rev_queue aname c5 ev1 in
        let placed := match get_app aname (c_apps c6) with
                      | Some a6 => match a_server a6 with Some _ => true | None => false end
                      | None => false
                      end in
        if placed then st <| l_cell := c6 |> <| l_evicted := ev2 |>
        else
          match restore with
          | Some (n, ex) =>
              (* a failed renewal goes back to its server; if even that server refuses it now (its partition or
                 traits changed since), the instance stays pending and gives its identity back *)
              let '(c7, ok7) := srv_restore c6 n aname ex in
              if ok7 then st <| l_cell := c_upd_app aname (fun x => x <| a_renew := true |>) c7 |>
                            <| l_evicted := ev2 |>
              else give_up st aname c7 ev2
          | None => give_up st aname c6 ev2
          end
  end.

Definition place_one (rev_queue : list Z) (st : loopst) (aname : Z) : loopst :=
  let c := l_cell st in
  match get_app aname (c_apps c) with
  | None => st
  | Some a =>
      if a_blacklisted a then st
      else if Z.eqb (a_rank a) UNPLACED_RANK then
        match a_server a with
        | Some n => st <| l_cell := release_identity (srv_remove c n aname) aname |>
        | None => st <| l_cell := release_identity c aname |>
        end
      else
        (* renew *)
        let '(c1, restore) :=
          if a_renew a then
            match a_server a with
            | Some n =>
                let '(cr, ok) := srv_renew c n aname in
                if ok then (cr, None) else (srv_remove cr n aname, Some (n, a_expiry a))
            | None => (c, None)
            end
          else (c, None) in
        let c2 := c_upd_app aname (fun x => x <| a_renew := false |>) c1 in
        match get_app aname (c_apps c2) with
        | None => st
        | Some a2 =>
            match a_server a2 with
            | Some _ => st <| l_cell := c2 |>
            | None =>
                let choice := aget aname (l_choices st) in
                let '(c3, got) := acquire_identity c2 aname choice in
                if negb got then st <| l_cell := c3 |>
                else
                  (* restore an earlier eviction of this cycle *)
                  let '(c4, restored, ev1) :=
                    match aget aname (l_evicted st) with
                    | Some (sn, ex) =>
                        let '(cr, ok) := srv_restore c3 sn aname ex in
                        if ok then (c_upd_app aname (fun x => x <| a_evicted := false |>) cr, true, adel aname (l_evicted st))
                        else (cr, false, adel aname (l_evicted st))
                    | None => (c3, false, l_evicted st)
                    end in
                  if restored then st <| l_cell := c4 |> <| l_evicted := ev1 |>
                  else place_tail rev_queue st aname c4 ev1 restore
            end
        end
  end.

Definition find_placements (c : cell) (queue : list Z) (choices : list (Z * Z)) : cell :=
  l_cell (fold_left (place_one (rev queue)) queue (mkLoop c [] [] choices)).

(** schedule_alloc: queue of a partition, final ranks recorded, then placements *)
Definition partition_queue (c : cell) (label : Z) (top : alloc) : list entry :=
  let '(sz, keps) := cell_size c label in
  util_queue (c_dim c) sz keps (c_apps c) top.
Definition record_ranks (c : cell) (q : list entry) : cell :=
  fold_left (fun acc e => c_upd_app (e_app e) (fun x => x <| a_rank := e_rank e |>) acc) q c.
Definition schedule_alloc (c : cell) (label : Z) (top : alloc) (choices : list (Z * Z)) : cell * list entry :=
  let q := partition_queue c label top in
  let c1 := record_ranks c q in
  (find_placements c1 (map e_app q) choices, q).

Definition pre_phases (c : cell) : cell :=
  fix_invalid_identities (handle_blacklisted (handle_inactive_servers (fix_invalid_placements c))).

(** Cell.schedule: returns the new cell, the per-partition queues and the placement tuples
    (name, server before, expiry before, server after, expiry after) over all_apps *)
Definition snapshot (c : cell) (names : list Z) : list (Z * option Z * option Z) :=
  flat_map (fun n => match get_app n (c_apps c) with
                     | Some a => [(n, a_server a, a_expiry a)]
                     | None => []
                     end) names.
Definition schedule (c : cell) (choices : list (Z * Z))
  : cell * list (Z * list entry) * list (Z * option Z * option Z * option Z * option Z) :=
  let names := flat_map (fun p => all_apps (snd p)) (c_parts c) in
  let before := snapshot c names in
  let c0 := pre_phases c in
  let '(c1, qs) :=
    fold_left (fun acc p =>
                 let '(cc, qs) := acc in
                 match aget (fst p) (c_parts cc) with
                 | Some top => let '(cc', q) := schedule_alloc cc (fst p) top choices in (cc', qs ++ [(fst p, q)])
                 | None => (cc, qs)
                 end) (c_parts c0) (c0, []) in
  let after := snapshot c1 names in
  (c1, qs, map (fun ba => let '((n, sb, eb), (_, sa, ea)) := ba in (n, sb, eb, sa, ea)) (combine before after)).
