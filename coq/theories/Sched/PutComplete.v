(** C02: completeness of the placement walk (Bucket.put from the root).
    In a well-formed tree whose stored aggregates never hide an up server ([TreeWf], [AggSound]), the walk places an
    instance whenever some up server reachable from the root accepts it and every bucket on the way down leaves
    affinity head-room.  Boolean checkers for the two premises and a non-vacuity example are at the end.
    The invariance of the premises is in InvAgg.v. *)
From Coq Require Import ZArith QArith List Bool Lia Relations.
From RecordUpdate Require Import RecordSet.
From TM Require Import Sched.Vec Sched.Types Sched.Queue Sched.Tree Sched.Cycle Sched.Steps Sched.MapsP Sched.FrameP
                       Sched.Events.
Import ListNotations.
Open Scope Z_scope.

(** ** buckets by name *)
Lemma get_bkt_name n l b : get_bkt n l = Some b -> b_name b = n.
Proof.
  induction l as [|x t IH]; cbn; [discriminate|].
  destruct (Z.eqb_spec (b_name x) n); [intros H; inversion H; subst; reflexivity|exact IH].
Qed.
Lemma get_bkt_In n l b : get_bkt n l = Some b -> In b l.
Proof.
  induction l as [|x t IH]; cbn; [discriminate|].
  destruct (Z.eqb (b_name x) n); [intros H; inversion H; left; reflexivity|intros H; right; apply IH; exact H].
Qed.
Lemma get_upd_bkt n f l m : (forall x, b_name (f x) = b_name x) ->
  get_bkt m (upd_bkt n f l) = if Z.eqb m n then option_map f (get_bkt m l) else get_bkt m l.
Proof.
  intros Hf. induction l as [|x t IH]; cbn; [destruct (Z.eqb m n); reflexivity|].
  destruct (Z.eqb_spec (b_name x) n) as [E|E]; cbn.
  - rewrite Hf. destruct (Z.eqb_spec (b_name x) m) as [E1|E1], (Z.eqb_spec m n) as [E2|E2]; try congruence; reflexivity.
  - rewrite IH. destruct (Z.eqb_spec (b_name x) m) as [E1|E1], (Z.eqb_spec m n) as [E2|E2]; try congruence; reflexivity.
Qed.
Lemma get_bkt_snoc n l b : get_bkt n (l ++ [b]) =
  match get_bkt n l with Some x => Some x | None => if Z.eqb (b_name b) n then Some b else None end.
Proof. induction l as [|x t IH]; cbn; [reflexivity|]. destruct (Z.eqb (b_name x) n); [reflexivity|exact IH]. Qed.

(** buckets related pointwise *)
Section BktRel.
  Variable R : bucket -> bucket -> Prop.
  Hypothesis Rname : forall b b', R b b' -> b_name b' = b_name b.
  Lemma get_bkt_rel l l' : Forall2 R l l' -> forall m,
    match get_bkt m l, get_bkt m l' with
    | Some b, Some b' => R b b'
    | None, None => True
    | _, _ => False
    end.
  Proof.
    induction 1 as [|b b' l l' Hb Hl IH]; intros m; cbn; [exact I|].
    rewrite (Rname _ _ Hb). destruct (Z.eqb (b_name b) m); [exact Hb|apply IH].
  Qed.
  Hypothesis Rrefl : forall b, R b b.
  Lemma Forall2_rel_refl l : Forall2 R l l.
  Proof. induction l; constructor; auto. Qed.
  Lemma Forall2_upd_bkt n f l : (forall x, R x (f x)) -> Forall2 R l (upd_bkt n f l).
  Proof.
    intros Hf. induction l as [|x t IH]; cbn; [constructor|].
    destruct (Z.eqb (b_name x) n); constructor; auto using Forall2_rel_refl.
  Qed.
  Hypothesis Rtrans : forall a b c, R a b -> R b c -> R a c.
  Lemma Forall2_rel_trans l1 l2 : Forall2 R l1 l2 -> forall l3, Forall2 R l2 l3 -> Forall2 R l1 l3.
  Proof.
    induction 1 as [|a b l1 l2 Hab Hl IH]; intros l3 H3; inversion H3; subst; constructor; eauto.
  Qed.
End BktRel.

(** ** vectors and trait masks *)
Definition vle (a b : vec) : Prop := Forall2 Z.le a b.

Lemma vle_any_gt d : forall a b, vle a b -> any_gt d a = false -> any_gt d b = false.
Proof.
  induction d as [|x d IH]; intros a b Hab; [destruct b; reflexivity|].
  destruct Hab as [|y z a b Hyz Hab]; cbn; [reflexivity|].
  intros H. apply orb_false_iff in H as [H1 H2]. apply orb_false_iff. split; [|eapply IH; eassumption].
  unfold Z.gtb in *. destruct (x ?= y) eqn:E1; try discriminate; destruct (x ?= z) eqn:E2; try reflexivity;
    rewrite ?Z.compare_eq_iff, ?Z.compare_lt_iff, ?Z.compare_gt_iff in *; lia.
Qed.

Lemma has_traits_refl t : has_traits t t = true.
Proof. unfold has_traits. rewrite Z.land_diag. apply Z.eqb_refl. Qed.
Lemma has_traits_trans a b c : has_traits a b = true -> has_traits b c = true -> has_traits a c = true.
Proof.
  unfold has_traits. rewrite !Z.eqb_eq. intros H1 H2.
  rewrite <- H2. rewrite Z.land_assoc, H1. reflexivity.
Qed.

(** ** the topology *)

(** the parent chain of bucket [n] ends (at a bucket without parent) within [fuel] steps *)
Fixpoint up_ok (fuel : nat) (c : cell) (n : Z) : bool :=
  match fuel with
  | O => false
  | S f => match get_bkt n (c_buckets c) with
           | None => false
           | Some b => match b_parent b with None => true | Some p => up_ok f c p end
           end
  end.

Record TreeWf (c : cell) : Prop := {
  tw_bnames : NoDup (map b_name (c_buckets c));
  (* no name is both a server and a bucket *)
  tw_disj : forall n s, get_srv n (c_servers c) = Some s -> get_bkt n (c_buckets c) = None;
  (* a listed child exists and names the bucket as its parent *)
  tw_child : forall p b m, get_bkt p (c_buckets c) = Some b -> In (Some m) (b_children b) ->
      (exists s, get_srv m (c_servers c) = Some s /\ s_parent s = Some p) \/
      (exists b', get_bkt m (c_buckets c) = Some b' /\ b_parent b' = Some p);
  (* the parent of a node exists and lists the node *)
  tw_sparent : forall n s p, get_srv n (c_servers c) = Some s -> s_parent s = Some p ->
      exists b, get_bkt p (c_buckets c) = Some b /\ In (Some n) (b_children b);
  tw_bparent : forall n b' p, get_bkt n (c_buckets c) = Some b' -> b_parent b' = Some p ->
      exists b, get_bkt p (c_buckets c) = Some b /\ In (Some n) (b_children b);
  (* no cycles: every parent chain ends within as many steps as there are buckets *)
  tw_depth : forall n b, get_bkt n (c_buckets c) = Some b -> up_ok (length (c_buckets c)) c n = true
}.

(** the buckets above a node whose parent pointer is [start] *)
Inductive anc (c : cell) : option Z -> bucket -> Prop :=
| anc_here p b : get_bkt p (c_buckets c) = Some b -> anc c (Some p) b
| anc_up p b0 b : get_bkt p (c_buckets c) = Some b0 -> anc c (b_parent b0) b -> anc c (Some p) b.

(** no stored aggregate hides an up server *)
Definition AggSound (c : cell) : Prop :=
  forall n s b, get_srv n (c_servers c) = Some s -> s_state s = Up -> anc c (s_parent s) b ->
    vle (s_free s) (b_free b) /\ In (s_label s) (b_labels b) /\ has_traits (bkt_traits b) (s_traits s) = true.

(** the path from bucket [n] down to the server [sn]: [rest] are the buckets strictly below [n] *)
Fixpoint down_path (c : cell) (n : Z) (rest : list Z) (sn : Z) : Prop :=
  match rest with
  | [] => exists b, get_bkt n (c_buckets c) = Some b /\ In (Some sn) (b_children b)
  | m :: r => (exists b, get_bkt n (c_buckets c) = Some b /\ In (Some m) (b_children b)) /\
              get_srv m (c_servers c) = None /\ down_path c m r sn
  end.

Lemma down_path_bkt c : forall rest n sn, down_path c n rest sn -> exists b, get_bkt n (c_buckets c) = Some b.
Proof. intros [|m r] n sn H; cbn in H; [destruct H as (b & H & _)|destruct H as ((b & H & _) & _)]; eauto. Qed.

Lemma anc_extend c start b0 n b :
  anc c start b0 -> b_parent b0 = Some n -> get_bkt n (c_buckets c) = Some b -> anc c start b.
Proof.
  intros H Hp Hn. induction H as [p b0 Hg|p b1 b0 Hg Ha IH].
  - eapply anc_up; [exact Hg|]. rewrite Hp. apply anc_here. exact Hn.
  - eapply anc_up; [exact Hg|]. apply IH; assumption.
Qed.

Lemma down_path_anc c s : TreeWf c -> get_srv (s_name s) (c_servers c) = Some s ->
  forall rest n, down_path c n rest (s_name s) ->
  forall m b, In m (n :: rest) -> get_bkt m (c_buckets c) = Some b -> anc c (s_parent s) b.
Proof.
  intros W Hs. induction rest as [|m0 r IH]; intros n Hp m b Hin Hb.
  - destruct Hin as [<-|[]]. destruct Hp as (b0 & Hb0 & Hch). rewrite Hb in Hb0. inversion Hb0; subst b0.
    destruct (tw_child _ W _ _ _ Hb Hch) as [(s' & Hs' & Hpar)|(b' & Hb' & _)].
    + rewrite Hs in Hs'. inversion Hs'; subst s'. rewrite Hpar. apply anc_here. exact Hb.
    + rewrite (tw_disj _ W _ _ Hs) in Hb'. discriminate.
  - destruct Hp as ((b0 & Hb0 & Hch) & Hns & Hp).
    destruct Hin as [<-|Hin]; [|eapply IH; eassumption].
    rewrite Hb in Hb0. inversion Hb0; subst b0.
    destruct (down_path_bkt _ _ _ _ Hp) as (bm & Hbm).
    destruct (tw_child _ W _ _ _ Hb Hch) as [(s' & Hs' & _)|(b' & Hb' & Hpar)]; [congruence|].
    rewrite Hbm in Hb'. inversion Hb'; subst b'.
    eapply anc_extend; [|exact Hpar|exact Hb].
    eapply IH; [exact Hp|left; reflexivity|exact Hbm].
Qed.

(** the path is no longer than the tree is deep *)
Fixpoint plast (n : Z) (rest : list Z) : Z := match rest with [] => n | m :: r => plast m r end.

Lemma down_path_depth c : TreeWf c -> forall rest n sn, down_path c n rest sn ->
  forall k, up_ok k c (plast n rest) = true -> up_ok (k - length rest) c n = true.
Proof.
  intros W. induction rest as [|m r IH]; intros n sn Hp k Hk; cbn [plast length] in *.
  - rewrite Nat.sub_0_r. exact Hk.
  - destruct Hp as ((b & Hb & Hch) & Hns & Hp). specialize (IH _ _ Hp _ Hk).
    destruct (tw_child _ W _ _ _ Hb Hch) as [(s' & Hs' & _)|(b' & Hb' & Hpar)]; [congruence|].
    destruct (k - length r)%nat as [|j] eqn:Ej; [discriminate|].
    cbn [up_ok] in IH. rewrite Hb', Hpar in IH.
    replace (k - S (length r))%nat with j by lia. exact IH.
Qed.
Lemma down_path_last c : forall rest n sn, down_path c n rest sn -> exists b, get_bkt (plast n rest) (c_buckets c) = Some b.
Proof.
  induction rest as [|m r IH]; intros n sn Hp; cbn [plast].
  - destruct Hp as (b & Hb & _). eauto.
  - destruct Hp as (_ & _ & Hp). eapply IH; exact Hp.
Qed.
Lemma down_path_short c rest n sn : TreeWf c -> down_path c n rest sn -> (length rest < length (c_buckets c))%nat.
Proof.
  intros W Hp. destruct (down_path_last _ _ _ _ Hp) as (b & Hb).
  pose proof (down_path_depth c W _ _ _ Hp _ (tw_depth _ W _ _ Hb)) as H.
  destruct (length (c_buckets c) - length rest)%nat eqn:E; [discriminate|lia].
Qed.

(** ** cells that differ in spread cursors only *)
Definition bcur_eq (b b' : bucket) : Prop :=
  b_name b' = b_name b /\ b_parent b' = b_parent b /\ b_level b' = b_level b /\ b_children b' = b_children b /\
  b_free b' = b_free b /\ b_self_traits b' = b_self_traits b /\ b_child_traits b' = b_child_traits b /\
  b_labels b' = b_labels b /\ b_counters b' = b_counters b.
Definition cur_eq (c c' : cell) : Prop := same_core c c' /\ Forall2 bcur_eq (c_buckets c) (c_buckets c').

Lemma bcur_eq_name b b' : bcur_eq b b' -> b_name b' = b_name b.
Proof. intros H; apply H. Qed.
Lemma bcur_eq_refl b : bcur_eq b b.
Proof. repeat split. Qed.
Lemma bcur_eq_trans a b c : bcur_eq a b -> bcur_eq b c -> bcur_eq a c.
Proof. unfold bcur_eq. intuition congruence. Qed.

Lemma cur_eq_refl c : cur_eq c c.
Proof. split; [apply same_core_refl|apply Forall2_rel_refl, bcur_eq_refl]. Qed.
Lemma cur_eq_trans a b c : cur_eq a b -> cur_eq b c -> cur_eq a c.
Proof.
  intros [H1 H2] [H3 H4]. split; [eapply same_core_trans; eassumption|].
  eapply Forall2_rel_trans; [apply bcur_eq_trans|exact H2|exact H4].
Qed.
Lemma cur_eq_set_cursor c b aff i : cur_eq c (set_cursor c b aff i).
Proof.
  split; [apply set_cursor_sc|]. unfold set_cursor, c_upd_bkt. cbn [c_buckets set].
  apply Forall2_upd_bkt; [apply bcur_eq_refl|]. intros x. repeat split.
Qed.
Lemma cur_eq_get c c' m : cur_eq c c' ->
  match get_bkt m (c_buckets c), get_bkt m (c_buckets c') with
  | Some b, Some b' => bcur_eq b b'
  | None, None => True
  | _, _ => False
  end.
Proof. intros [_ H]. apply (get_bkt_rel bcur_eq bcur_eq_name _ _ H). Qed.
Lemma cur_eq_get_fwd c c' m b : cur_eq c c' -> get_bkt m (c_buckets c) = Some b ->
  exists b', get_bkt m (c_buckets c') = Some b' /\ bcur_eq b b'.
Proof.
  intros H Hb. pose proof (cur_eq_get c c' m H) as G. rewrite Hb in G.
  destruct (get_bkt m (c_buckets c')) as [b'|]; [eauto|contradiction].
Qed.
Lemma cur_eq_get_bwd c c' m b' : cur_eq c c' -> get_bkt m (c_buckets c') = Some b' ->
  exists b, get_bkt m (c_buckets c) = Some b /\ bcur_eq b b'.
Proof.
  intros H Hb. pose proof (cur_eq_get c c' m H) as G. rewrite Hb in G.
  destruct (get_bkt m (c_buckets c)) as [b|]; [eauto|contradiction].
Qed.

(** a failed attempt moves cursors only *)
Lemma try_children_fail_cur put_bkt bn aff x p0 :
  (forall c n, snd (put_bkt c n) = false -> cur_eq c (fst (put_bkt c n))) ->
  forall l c, snd (try_children put_bkt bn aff x p0 l c) = false ->
              cur_eq c (fst (try_children put_bkt bn aff x p0 l c)).
Proof.
  intros Hp. induction l as [|[p n] r IHl]; intros c; cbn [try_children].
  - intros _. cbn [fst]. apply cur_eq_set_cursor.
  - set (c1 := set_cursor c bn aff (S p)).
    assert (H1 : cur_eq c c1) by apply cur_eq_set_cursor.
    destruct (get_srv n (c_servers c1)) as [s|].
    + destruct (s_state s).
      * destruct (srv_put c1 n x) as [c2|]; [cbn [snd]; discriminate|].
        intros H. eapply cur_eq_trans; [exact H1|apply IHl; exact H].
      * intros H. eapply cur_eq_trans; [exact H1|apply IHl; exact H].
      * intros H. eapply cur_eq_trans; [exact H1|apply IHl; exact H].
    + specialize (Hp c1 n). destruct (put_bkt c1 n) as [c2 ok]. cbn [fst snd] in Hp.
      destruct ok; [cbn [snd]; discriminate|].
      intros H. eapply cur_eq_trans; [exact H1|]. eapply cur_eq_trans; [apply Hp; reflexivity|apply IHl; exact H].
Qed.
Lemma bucket_put_fail_cur fuel : forall c b x,
  snd (bucket_put fuel c b x) = false -> cur_eq c (fst (bucket_put fuel c b x)).
Proof.
  induction fuel as [|f IH]; intros c b x; cbn [bucket_put]; [intros _; apply cur_eq_refl|].
  destruct (get_bkt b (c_buckets c)) as [bk|]; [|intros _; apply cur_eq_refl].
  destruct (get_app x (c_apps c)) as [a|]; [|intros _; apply cur_eq_refl].
  destruct (check_constraints c a (b_labels bk) (bkt_traits bk) (b_counters bk) (b_level bk) (b_free bk));
    [|intros _; apply cur_eq_refl].
  destruct (live_positions (b_children bk) (cursor_of bk (a_aff a))) as [|[p0 n0] rest].
  - intros _. cbn [fst]. apply cur_eq_set_cursor.
  - apply try_children_fail_cur. intros c' n. apply IH.
Qed.

(** ** the cursor walk visits every live child *)
Lemma rotated_positions_all n idx p : (p < n)%nat -> In p (rotated_positions n idx).
Proof.
  intros Hp. unfold rotated_positions. set (i := if Nat.eqb idx n then 0%nat else idx).
  apply in_or_app. destruct (le_lt_dec i p); [left|right]; apply in_seq; lia.
Qed.
Lemma live_positions_all ch idx t : In (Some t) ch -> In t (map snd (live_positions ch idx)).
Proof.
  intros Hin. apply In_nth_error in Hin as (p & Hp).
  assert (Hlt : (p < length ch)%nat) by (apply nth_error_Some; congruence).
  apply in_map_iff. exists (p, t). split; [reflexivity|].
  unfold live_positions. apply in_flat_map. exists p. split; [apply rotated_positions_all; exact Hlt|].
  rewrite Hp. left. reflexivity.
Qed.

(** the walk succeeds when one of the children it is given does *)
Lemma try_children_complete put_bkt bn aff x p0 (t : Z) (Q : cell -> Prop) :
  (forall c c', cur_eq c c' -> Q c -> Q c') ->
  (forall c n, snd (put_bkt c n) = false -> cur_eq c (fst (put_bkt c n))) ->
  (forall c, Q c -> match get_srv t (c_servers c) with
                     | Some s => s_state s = Up /\ exists c', srv_put c t x = Some c'
                     | None => snd (put_bkt c t) = true
                     end) ->
  forall l c, Q c -> In t (map snd l) -> snd (try_children put_bkt bn aff x p0 l c) = true.
Proof.
  intros HQ Hfail Ht. induction l as [|[p n] r IHl]; intros c Hc Hin; cbn [try_children]; [destruct Hin|].
  set (c1 := set_cursor c bn aff (S p)).
  assert (H1 : Q c1) by (eapply HQ; [apply cur_eq_set_cursor|exact Hc]).
  destruct (Z.eq_dec n t) as [->|Hne].
  - specialize (Ht c1 H1). destruct (get_srv t (c_servers c1)) as [s|].
    + destruct Ht as (Hup & c' & Hput). rewrite Hup, Hput. reflexivity.
    + destruct (put_bkt c1 t) as [c2 ok]. cbn [snd] in Ht. subst ok. reflexivity.
  - assert (Hin' : In t (map snd r)) by (destruct Hin as [E|E]; [cbn in E; congruence|exact E]).
    destruct (get_srv n (c_servers c1)) as [s|].
    + destruct (s_state s); try (apply IHl; assumption).
      destruct (srv_put c1 n x); [reflexivity|apply IHl; assumption].
    + specialize (Hfail c1 n). destruct (put_bkt c1 n) as [c2 ok]. cbn [fst snd] in Hfail.
      destruct ok; [reflexivity|]. apply IHl; [|exact Hin']. eapply HQ; [apply Hfail; reflexivity|exact H1].
Qed.

(** ** what the walk needs on the way down *)
Definition fits (c : cell) (x : Z) (a : app) (n : Z) (rest : list Z) (s : server) : Prop :=
  get_app x (c_apps c) = Some a /\
  get_srv (s_name s) (c_servers c) = Some s /\ s_state s = Up /\ put_guard c s a (a_lease a) = true /\
  down_path c n rest (s_name s) /\
  (forall m b, In m (n :: rest) -> get_bkt m (c_buckets c) = Some b ->
     check_constraints c a (b_labels b) (bkt_traits b) (b_counters b) (b_level b) (b_free b) = true).

Lemma put_guard_sc c c' s a l : same_core c c' -> put_guard c' s a l = put_guard c s a l.
Proof.
  intros (_ & _ & _ & _ & Hp & _ & Hn).
  unfold put_guard, check_lifetime, check_constraints, app_traits, app_alloc. rewrite Hp, Hn. reflexivity.
Qed.
Lemma check_constraints_sc c c' a ls tr cn lv fr :
  same_core c c' -> check_constraints c' a ls tr cn lv fr = check_constraints c a ls tr cn lv fr.
Proof.
  intros (_ & _ & _ & _ & Hp & _ & _). unfold check_constraints, app_traits, app_alloc. rewrite Hp. reflexivity.
Qed.

Lemma down_path_cur c c' : cur_eq c c' -> forall rest n sn, down_path c n rest sn -> down_path c' n rest sn.
Proof.
  intros Hc. assert (Hs : c_servers c' = c_servers c) by apply Hc.
  induction rest as [|m r IH]; intros n sn Hp; cbn [down_path] in *.
  - destruct Hp as (b & Hb & Hch). destruct (cur_eq_get_fwd _ _ _ _ Hc Hb) as (b' & Hb' & E).
    exists b'. split; [exact Hb'|]. destruct E as (_ & _ & _ & E & _). rewrite E. exact Hch.
  - destruct Hp as ((b & Hb & Hch) & Hns & Hp). destruct (cur_eq_get_fwd _ _ _ _ Hc Hb) as (b' & Hb' & E).
    split; [|split; [rewrite Hs; exact Hns|apply IH; exact Hp]].
    exists b'. split; [exact Hb'|]. destruct E as (_ & _ & _ & E & _). rewrite E. exact Hch.
Qed.

Lemma fits_cur c c' x a n rest s : cur_eq c c' -> fits c x a n rest s -> fits c' x a n rest s.
Proof.
  intros Hc (Ha & Hs & Hup & Hg & Hp & Hck).
  pose proof Hc as [Hsc _]. pose proof Hsc as (_ & _ & Es & Ea & _).
  split; [rewrite Ea; exact Ha|]. split; [rewrite Es; exact Hs|]. split; [exact Hup|].
  split; [rewrite (put_guard_sc _ _ _ _ _ Hsc); exact Hg|]. split; [eapply down_path_cur; eassumption|].
  intros m b' Hin Hb'. destruct (cur_eq_get_bwd _ _ _ _ Hc Hb') as (b & Hb & E).
  rewrite (check_constraints_sc _ _ _ _ _ _ _ _ Hsc). specialize (Hck m b Hin Hb).
  destruct E as (_ & _ & E3 & _ & E5 & E6 & E7 & E8 & E9).
  unfold bkt_traits. rewrite E3, E5, E6, E7, E8, E9. exact Hck.
Qed.

Theorem bucket_put_complete fuel : forall c n rest x a s,
  fits c x a n rest s -> (length rest < fuel)%nat -> snd (bucket_put fuel c n x) = true.
Proof.
  induction fuel as [|f IH]; intros c n rest x a s Hfit Hlen; [lia|].
  cbn [bucket_put]. pose proof Hfit as (Ha & Hs & Hup & Hg & Hp & Hck).
  destruct (down_path_bkt _ _ _ _ Hp) as (b & Hb). rewrite Hb, Ha.
  rewrite (Hck n b (or_introl eq_refl) Hb).
  set (t := match rest with [] => s_name s | m :: _ => m end).
  assert (Hch : In (Some t) (b_children b)).
  { subst t. destruct rest as [|m r]; cbn [down_path] in Hp.
    - destruct Hp as (b0 & Hb0 & H). congruence.
    - destruct Hp as ((b0 & Hb0 & H) & _). congruence. }
  pose proof (live_positions_all _ (cursor_of b (a_aff a)) _ Hch) as Hlive.
  destruct (live_positions (b_children b) (cursor_of b (a_aff a))) as [|[p0 n0] order] eqn:El; [destruct Hlive|].
  apply (try_children_complete _ _ _ _ _ t (fun c' => fits c' x a n rest s)); [| | |exact Hfit|exact Hlive].
  - intros c1 c2 H12 H. eapply fits_cur; eassumption.
  - intros c1 m. apply bucket_put_fail_cur.
  - intros c1 (Ha1 & Hs1 & Hup1 & Hg1 & Hp1 & Hck1). subst t. destruct rest as [|m r].
    + rewrite Hs1. split; [exact Hup1|]. unfold srv_put. rewrite Ha1. unfold srv_put_lease. rewrite Hs1, Ha1, Hg1. eauto.
    + cbn [down_path] in Hp1. destruct Hp1 as (_ & Hns & Hp1). rewrite Hns.
      apply (IH c1 m r x a s); [|cbn [length] in Hlen; lia].
      split; [exact Ha1|]. split; [exact Hs1|]. split; [exact Hup1|]. split; [exact Hg1|]. split; [exact Hp1|].
      intros m' b' Hin Hb'. apply (Hck1 m' b'); [right; exact Hin|exact Hb'].
Qed.

(** ** the completeness theorem *)
Lemma agg_check c a s b :
  AggSound c -> get_srv (s_name s) (c_servers c) = Some s -> s_state s = Up -> anc c (s_parent s) b ->
  put_guard c s a (a_lease a) = true ->
  under_limit (cget (a_aff a) (b_counters b)) (aff_limit a (b_level b)) = true ->
  check_constraints c a (b_labels b) (bkt_traits b) (b_counters b) (b_level b) (b_free b) = true.
Proof.
  intros HA Hs Hup Hanc Hg Hlim.
  destruct (HA _ _ _ Hs Hup Hanc) as (Hfree & Hlab & Htr).
  destruct (put_guard_spec _ _ _ _ Hg) as (Gl & Gt & _ & _ & Gf & _).
  unfold check_constraints. rewrite Hlim. rewrite (vle_any_gt _ _ _ Hfree Gf). cbn [negb]. rewrite !andb_true_r.
  apply andb_true_iff. split.
  - destruct (app_label a) as [l|]; [|reflexivity]. rewrite (Gl l eq_refl). apply zmem_In. exact Hlab.
  - destruct Gt as [Gt|Gt]; [rewrite Gt; reflexivity|].
    apply orb_true_iff. right. eapply has_traits_trans; eassumption.
Qed.

Theorem cell_put_complete c x a s rest :
  TreeWf c -> AggSound c ->
  get_app x (c_apps c) = Some a ->
  get_srv (s_name s) (c_servers c) = Some s -> s_state s = Up ->
  put_guard c s a (a_lease a) = true ->
  down_path c (c_root c) rest (s_name s) ->
  (forall m b, In m (c_root c :: rest) -> get_bkt m (c_buckets c) = Some b ->
               under_limit (cget (a_aff a) (b_counters b)) (aff_limit a (b_level b)) = true) ->
  snd (cell_put c x) = true.
Proof.
  intros W HA Ha Hs Hup Hg Hp Hlim. unfold cell_put.
  apply (bucket_put_complete _ c (c_root c) rest x a s).
  - split; [exact Ha|]. split; [exact Hs|]. split; [exact Hup|]. split; [exact Hg|]. split; [exact Hp|].
    intros m b Hin Hb.
    apply (agg_check c a s b HA Hs Hup); [|exact Hg|exact (Hlim m b Hin Hb)].
    eapply down_path_anc; eassumption.
  - pose proof (down_path_short _ _ _ _ W Hp). unfold depth_fuel. lia.
Qed.

Print Assumptions cell_put_complete.

(** ** executable checkers for the two premises *)
Fixpoint znodupb (l : list Z) : bool :=
  match l with [] => true | x :: r => negb (zmem x r) && znodupb r end.
Lemma znodupb_sound l : znodupb l = true -> NoDup l.
Proof.
  induction l as [|x r IH]; cbn; [constructor|]. intros H. apply andb_true_iff in H as [H1 H2].
  constructor; [apply zmem_false; apply negb_true_iff; exact H1|apply IH; exact H2].
Qed.

Definition optz_is (o : option Z) (n : Z) : bool := match o with Some m => Z.eqb m n | None => false end.
Lemma optz_is_spec o n : optz_is o n = true <-> o = Some n.
Proof.
  destruct o as [m|]; cbn; [rewrite Z.eqb_eq|]; split; intros H; try discriminate; [subst|inversion H]; reflexivity.
Qed.

Definition child_okb (c : cell) (p : Z) (o : option Z) : bool :=
  match o with
  | None => true
  | Some m => match get_srv m (c_servers c) with
              | Some s => optz_is (s_parent s) p
              | None => match get_bkt m (c_buckets c) with
                        | Some b' => optz_is (b_parent b') p
                        | None => false
                        end
              end
  end.
Definition listed_inb (c : cell) (parent : option Z) (n : Z) : bool :=
  match parent with
  | None => true
  | Some p => match get_bkt p (c_buckets c) with
              | Some b => existsb (fun o => optz_is o n) (b_children b)
              | None => false
              end
  end.

Definition tree_wfb (c : cell) : bool :=
  znodupb (map b_name (c_buckets c))
  && forallb (fun s => match get_bkt (s_name s) (c_buckets c) with None => true | Some _ => false end) (c_servers c)
  && forallb (fun b => forallb (child_okb c (b_name b)) (b_children b)) (c_buckets c)
  && forallb (fun s => listed_inb c (s_parent s) (s_name s)) (c_servers c)
  && forallb (fun b => listed_inb c (b_parent b) (b_name b)) (c_buckets c)
  && forallb (fun b => up_ok (length (c_buckets c)) c (b_name b)) (c_buckets c).

Lemma listed_inb_sound c p n : listed_inb c (Some p) n = true ->
  exists b, get_bkt p (c_buckets c) = Some b /\ In (Some n) (b_children b).
Proof.
  cbn. destruct (get_bkt p (c_buckets c)) as [b|]; [|discriminate]. intros H.
  apply existsb_exists in H as (o & Hin & Ho). apply optz_is_spec in Ho. subst o. eauto.
Qed.

Theorem tree_wfb_sound c : tree_wfb c = true -> TreeWf c.
Proof.
  unfold tree_wfb. intros H. repeat (apply andb_true_iff in H as [H ?]).
  rename H into F1. rename H4 into F2. rename H3 into F3. rename H2 into F4. rename H1 into F5. rename H0 into F6.
  rewrite forallb_forall in F2, F3, F4, F5, F6.
  constructor.
  - apply znodupb_sound. exact F1.
  - intros n s Hs. specialize (F2 s (get_srv_In _ _ _ Hs)). rewrite (get_srv_name _ _ _ Hs) in F2.
    destruct (get_bkt n (c_buckets c)); [discriminate|reflexivity].
  - intros p b m Hb Hin. specialize (F3 b (get_bkt_In _ _ _ Hb)). rewrite forallb_forall in F3.
    specialize (F3 _ Hin). rewrite (get_bkt_name _ _ _ Hb) in F3. cbn in F3.
    destruct (get_srv m (c_servers c)) as [s|].
    + left. exists s. split; [reflexivity|apply optz_is_spec; exact F3].
    + destruct (get_bkt m (c_buckets c)) as [b'|]; [|discriminate].
      right. exists b'. split; [reflexivity|apply optz_is_spec; exact F3].
  - intros n s p Hs Hp. specialize (F4 s (get_srv_In _ _ _ Hs)). rewrite Hp, (get_srv_name _ _ _ Hs) in F4.
    apply listed_inb_sound. exact F4.
  - intros n b' p Hb Hp. specialize (F5 b' (get_bkt_In _ _ _ Hb)). rewrite Hp, (get_bkt_name _ _ _ Hb) in F5.
    apply listed_inb_sound. exact F5.
  - intros n b Hb. specialize (F6 b (get_bkt_In _ _ _ Hb)). rewrite (get_bkt_name _ _ _ Hb) in F6. exact F6.
Qed.

(** a predicate on every bucket above a node *)
Fixpoint anc_all (fuel : nat) (c : cell) (start : option Z) (P : bucket -> bool) : bool :=
  match start with
  | None => true
  | Some p =>
      match fuel with
      | O => false
      | S f => match get_bkt p (c_buckets c) with
               | None => true
               | Some b => P b && anc_all f c (b_parent b) P
               end
      end
  end.
Lemma anc_all_sound c P start b : anc c start b -> forall fuel, anc_all fuel c start P = true -> P b = true.
Proof.
  induction 1 as [p b Hg|p b0 b Hg Ha IH]; intros [|f]; cbn; try discriminate; rewrite Hg; intros H;
    apply andb_true_iff in H as [H1 H2]; [exact H1|eapply IH; exact H2].
Qed.

Fixpoint vleb (a b : vec) : bool :=
  match a, b with
  | [], [] => true
  | x :: a', y :: b' => Z.leb x y && vleb a' b'
  | _, _ => false
  end.
Lemma vleb_sound : forall a b, vleb a b = true -> vle a b.
Proof.
  induction a as [|x a IH]; intros [|y b]; cbn; try discriminate; [constructor|].
  intros H. apply andb_true_iff in H as [H1 H2]. constructor; [apply Z.leb_le; exact H1|apply IH; exact H2].
Qed.

Definition agg_soundb (c : cell) : bool :=
  forallb (fun s => match s_state s with
                    | Up => anc_all (depth_fuel c) c (s_parent s)
                              (fun b => vleb (s_free s) (b_free b) && zmem (s_label s) (b_labels b)
                                        && has_traits (bkt_traits b) (s_traits s))
                    | _ => true
                    end) (c_servers c).

Theorem agg_soundb_sound c : agg_soundb c = true -> AggSound c.
Proof.
  unfold agg_soundb. rewrite forallb_forall. intros H n s b Hs Hup Hanc.
  specialize (H s (get_srv_In _ _ _ Hs)). rewrite Hup in H.
  pose proof (anc_all_sound _ _ _ _ Hanc _ H) as Hb. cbn beta in Hb.
  apply andb_true_iff in Hb as [Hb H3]. apply andb_true_iff in Hb as [H1 H2].
  split; [apply vleb_sound; exact H1|]. split; [apply zmem_In; exact H2|exact H3].
Qed.

(** the remaining premises of [cell_put_complete], as a boolean *)
Fixpoint down_pathb (c : cell) (n : Z) (rest : list Z) (sn : Z) : bool :=
  match get_bkt n (c_buckets c) with
  | None => false
  | Some b =>
      match rest with
      | [] => existsb (fun o => optz_is o sn) (b_children b)
      | m :: r => existsb (fun o => optz_is o m) (b_children b)
                  && (match get_srv m (c_servers c) with None => true | Some _ => false end)
                  && down_pathb c m r sn
      end
  end.
Lemma down_pathb_sound c : forall rest n sn, down_pathb c n rest sn = true -> down_path c n rest sn.
Proof.
  induction rest as [|m r IH]; intros n sn; cbn [down_pathb down_path];
    destruct (get_bkt n (c_buckets c)) as [b|]; try discriminate; intros H.
  - apply existsb_exists in H as (o & Hin & Ho). apply optz_is_spec in Ho. subst o. eauto.
  - apply andb_true_iff in H as [H H3]. apply andb_true_iff in H as [H1 H2].
    apply existsb_exists in H1 as (o & Hin & Ho). apply optz_is_spec in Ho. subst o.
    split; [eauto|]. split; [destruct (get_srv m (c_servers c)); [discriminate|reflexivity]|apply IH; exact H3].
Qed.

Definition headroomb (c : cell) (a : app) (path : list Z) : bool :=
  forallb (fun m => match get_bkt m (c_buckets c) with
                    | Some b => under_limit (cget (a_aff a) (b_counters b)) (aff_limit a (b_level b))
                    | None => true
                    end) path.

Definition fits_serverb (c : cell) (x sn : Z) (rest : list Z) : bool :=
  match get_app x (c_apps c), get_srv sn (c_servers c) with
  | Some a, Some s =>
      sstate_eqb (s_state s) Up && put_guard c s a (a_lease a) && down_pathb c (c_root c) rest sn
      && headroomb c a (c_root c :: rest)
  | _, _ => false
  end.

(** the form the harness uses: every premise by evaluation *)
Theorem cell_put_complete_b c x sn rest :
  tree_wfb c = true -> agg_soundb c = true -> fits_serverb c x sn rest = true -> snd (cell_put c x) = true.
Proof.
  intros HW HA H. unfold fits_serverb in H.
  destruct (get_app x (c_apps c)) as [a|] eqn:Ea; [|discriminate].
  destruct (get_srv sn (c_servers c)) as [s|] eqn:Es; [|discriminate].
  repeat (apply andb_true_iff in H as [H ?]).
  assert (Hn : s_name s = sn) by (eapply get_srv_name; exact Es).
  apply (cell_put_complete c x a s rest); [apply tree_wfb_sound; exact HW|apply agg_soundb_sound; exact HA|exact Ea| | | | |].
  - rewrite Hn. exact Es.
  - destruct (s_state s); [reflexivity|discriminate|discriminate].
  - assumption.
  - rewrite Hn. apply down_pathb_sound. assumption.
  - intros m b Hin Hb. match goal with X : headroomb _ _ _ = true |- _ => unfold headroomb in X; rewrite forallb_forall in X; specialize (X m Hin); rewrite Hb in X; exact X end.
Qed.
Print Assumptions cell_put_complete_b.

(** ** non-vacuity: cell 2000 > racks 2001, 2002 > servers 1000, 1001 (rack 2001) and 1002 (rack 2002, trait 1) *)
From TM Require Import Sched.InvAcct.
Definition nv_app (n prio order traits aff : Z) (demand : vec) : app :=
  mkApp n prio demand aff [(0, 1); (2, 2)] traits 0 None None false order None None None None false false false false (-1).
Definition nv_ops : list op :=
  [ OAddBucket 2001 2 2000; OAddBucket 2002 2 2000;
    OAddServer 1000 2001 [10;10] 4000 0 0; OAddServer 1001 2001 [10;10] 4000 0 0;
    OAddServer 1002 2002 [20;20] 4000 1 0;
    OAddApp 4000 [] (nv_app 1 5 1 0 3000 [8;8]); OAddApp 4000 [] (nv_app 2 5 2 0 3000 [8;8]);
    OSchedule [];                                     (* 1 and 2 are placed (one per server: server-level limit 1) *)
    OSetState 1001 Down 5; OSetState 1001 Up 6;       (* aggregates go down and up again *)
    OAddApp 4000 [] (nv_app 3 1 3 1 3001 [11;11]) ].  (* the probe: needs trait 1 and 11 units: only 1002 fits *)
Definition nv_cell : cell := run (init_cell 2 2000 3) nv_ops.

Example nv_wf_ops : wf_opsb (init_cell 2 2000 3) nv_ops = true.
Proof. vm_compute. reflexivity. Qed.
Example nv_tree_wf : tree_wfb nv_cell = true.
Proof. vm_compute. reflexivity. Qed.
Example nv_agg_sound : agg_soundb nv_cell = true.
Proof. vm_compute. reflexivity. Qed.
Example nv_fits : fits_serverb nv_cell 3 1002 [2002] = true.
Proof. vm_compute. reflexivity. Qed.
(** the earlier instances are where the cycle put them, so the state is not an empty cell *)
Example nv_placed :
  map (fun a => (a_name a, a_server a)) (c_apps nv_cell) = [(1, Some 1000); (2, Some 1002); (3, None)].
Proof. vm_compute. reflexivity. Qed.
(** the theorem applies, and the evaluation of the walk agrees *)
Theorem nv_complete : snd (cell_put nv_cell 3) = true.
Proof. apply (cell_put_complete_b nv_cell 3 1002 [2002]); [exact nv_tree_wf|exact nv_agg_sound|exact nv_fits]. Qed.
Example nv_complete_eval : snd (cell_put nv_cell 3) = true.
Proof. vm_compute. reflexivity. Qed.
