(** Frame lemmas: what a placement attempt and an eviction scan leave untouched.
    Used for C03/C08 (servers that are not up receive nothing) and C07 (only instances behind the placer are evicted). *)
From Coq Require Import ZArith QArith List Bool Lia.
From RecordUpdate Require Import RecordSet.
From TM Require Import Sched.Vec Sched.Types Sched.Queue Sched.Tree Sched.Cycle Sched.Steps Sched.MapsP.
Import ListNotations.
Open Scope Z_scope.

(** every server other than [sn], and every instance other than [an], is left as it is *)
Definition frame (sn an : Z) (c c' : cell) : Prop :=
  (forall n, n <> sn -> get_srv n (c_servers c') = get_srv n (c_servers c)) /\
  (forall m, m <> an -> get_app m (c_apps c') = get_app m (c_apps c)).

Lemma frame_sc sn an c c' : same_core c c' -> frame sn an c c'.
Proof. intros (_ & _ & H3 & H4 & _). split; intros; rewrite ?H3, ?H4; reflexivity. Qed.
Lemma frame_trans sn an a b c : frame sn an a b -> frame sn an b c -> frame sn an a c.
Proof. intros [H1 H2] [H3 H4]. split; intros; [rewrite H3, H1|rewrite H4, H2]; auto. Qed.
Lemma frame_refl sn an c : frame sn an c c.
Proof. split; reflexivity. Qed.

Lemma prim_put_frame c sn an a l : frame sn an c (prim_put c sn an a l).
Proof.
  unfold prim_put. split; intros n Hne; cbn [c_upd_app c_upd_srv c_servers c_apps set].
  - apply get_upd_srv_other; [reflexivity|exact Hne].
  - apply get_upd_app_other; [intros x; destruct (a_expiry x); reflexivity|exact Hne].
Qed.
Lemma prim_remove_frame c sn an a : frame sn an c (prim_remove c sn an a).
Proof.
  unfold prim_remove. split; intros n Hne; cbn [c_upd_app c_upd_srv c_servers c_apps set].
  - apply get_upd_srv_other; [reflexivity|exact Hne].
  - apply get_upd_app_other; [reflexivity|exact Hne].
Qed.

Lemma srv_put_lease_frame c sn an l c' : srv_put_lease c sn an l = Some c' -> frame sn an c c'.
Proof.
  unfold srv_put_lease. destruct (get_srv sn (c_servers c)) as [s|]; [|discriminate].
  destruct (get_app an (c_apps c)) as [a|]; [|discriminate]. destruct (put_guard c s a l); [|discriminate].
  intros H; inversion H; subst; clear H.
  eapply frame_trans; [apply prim_put_frame|]. apply frame_sc.
  eapply same_core_trans; [apply bump_from_sc|apply adjust_down_from_sc].
Qed.
Lemma srv_put_frame c sn an c' : srv_put c sn an = Some c' -> frame sn an c c'.
Proof. unfold srv_put. destruct (get_app an (c_apps c)); [apply srv_put_lease_frame|discriminate]. Qed.
Lemma srv_remove_frame c sn an : frame sn an c (srv_remove c sn an).
Proof.
  unfold srv_remove. destruct (get_srv sn (c_servers c)) as [s|]; [|apply frame_refl].
  destruct (get_app an (c_apps c)) as [a|]; [|apply frame_refl].
  destruct (negb (zmem an (s_apps s))); [apply frame_refl|].
  eapply frame_trans; [apply prim_remove_frame|]. apply frame_sc.
  eapply same_core_trans; [apply bump_from_sc|apply adjust_up_from_sc].
Qed.

Lemma srv_remove_state c sn v k sk :
  get_srv k (c_servers (srv_remove c sn v)) = Some sk ->
  exists s0, get_srv k (c_servers c) = Some s0 /\ s_state sk = s_state s0.
Proof.
  unfold srv_remove. destruct (get_srv sn (c_servers c)) as [s|] eqn:Es; [|intros H; exists sk; auto].
  destruct (get_app v (c_apps c)) as [a0|]; [|intros H; exists sk; auto].
  destruct (negb (zmem v (s_apps s))); [intros H; exists sk; auto|].
  pose proof (same_core_trans _ _ _ (bump_from_sc (prim_remove c sn v a0) (s_parent s) [(a_aff a0, 1)] (-1))
                (adjust_up_from_sc _ (s_parent s) (vadd (s_free s) (a_demand a0)))) as (_ & _ & H3 & _).
  rewrite H3. unfold prim_remove. cbn [c_upd_app c_upd_srv c_servers set].
  set (fs := fun x : server => x <| s_free := vadd (s_free x) (a_demand a0) |> <| s_apps ::= zremove v |>
                                  <| s_counters ::= cadd (a_aff a0) (-1) |>).
  intros Hk. destruct (Z.eq_dec k sn) as [->|Hne].
  - rewrite (get_upd_srv_same sn fs _ s (fun x => eq_refl) Es) in Hk. inversion Hk; subst sk. exists s. auto.
  - rewrite get_upd_srv_other in Hk; [exists sk; auto|reflexivity|exact Hne].
Qed.

(** ** a fresh placement (Bucket.put from the top) never touches a server that is not up *)
Definition nonup_kept (c c' : cell) : Prop :=
  forall n s, get_srv n (c_servers c) = Some s -> s_state s <> Up -> get_srv n (c_servers c') = Some s.

Lemma nonup_kept_refl c : nonup_kept c c.
Proof. intros n s H _. exact H. Qed.
Lemma nonup_kept_trans a b c : nonup_kept a b -> nonup_kept b c -> nonup_kept a c.
Proof. intros H1 H2 n s Hg Hs. apply H2; [apply H1; assumption|exact Hs]. Qed.
Lemma nonup_kept_sc c c' : same_core c c' -> nonup_kept c c'.
Proof. intros (_ & _ & H3 & _) n s Hg _. rewrite H3. exact Hg. Qed.

Lemma try_children_nonup put_bkt b aff an p0 :
  (forall c n, nonup_kept c (fst (put_bkt c n))) ->
  forall l c, nonup_kept c (fst (try_children put_bkt b aff an p0 l c)).
Proof.
  intros Hp. induction l as [|[p n] r IHl]; intros c; cbn [try_children].
  - cbn [fst]. apply nonup_kept_sc, set_cursor_sc.
  - set (c1 := set_cursor c b aff (S p)).
    assert (H1 : nonup_kept c c1) by (apply nonup_kept_sc, set_cursor_sc).
    destruct (get_srv n (c_servers c1)) as [s|] eqn:Es.
    + destruct (s_state s) eqn:Est.
      * destruct (srv_put c1 n an) as [c2|] eqn:Ep.
        -- cbn [fst]. eapply nonup_kept_trans; [exact H1|]. intros k sk Hk Hnu.
           destruct (srv_put_frame _ _ _ _ Ep) as [Hf _].
           destruct (Z.eq_dec k n) as [->|Hne]; [rewrite Es in Hk; inversion Hk; subst; congruence|].
           rewrite Hf by exact Hne. exact Hk.
        -- eapply nonup_kept_trans; [exact H1|apply IHl].
      * eapply nonup_kept_trans; [exact H1|apply IHl].
      * eapply nonup_kept_trans; [exact H1|apply IHl].
    + specialize (Hp c1 n). destruct (put_bkt c1 n) as [c2 ok]. cbn [fst] in Hp.
      destruct ok.
      * cbn [fst]. eapply nonup_kept_trans; [exact H1|exact Hp].
      * eapply nonup_kept_trans; [exact H1|]. eapply nonup_kept_trans; [exact Hp|apply IHl].
Qed.

Theorem bucket_put_nonup fuel : forall c b an, nonup_kept c (fst (bucket_put fuel c b an)).
Proof.
  induction fuel as [|f IH]; intros c b an; cbn [bucket_put]; [apply nonup_kept_refl|].
  destruct (get_bkt b (c_buckets c)) as [bk|]; [|apply nonup_kept_refl].
  destruct (get_app an (c_apps c)) as [a|]; [|apply nonup_kept_refl].
  destruct (check_constraints c a (b_labels bk) (bkt_traits bk) (b_counters bk) (b_level bk) (b_free bk)); [|apply nonup_kept_refl].
  destruct (live_positions (b_children bk) (cursor_of bk (a_aff a))) as [|[p0 n0] rest].
  - cbn [fst]. apply nonup_kept_sc, set_cursor_sc.
  - apply try_children_nonup. intros c' n. apply IH.
Qed.

(** the eviction scan neither evicts from nor puts on a server that is not up *)
Theorem evict_scan_nonup victims placer : forall c ev, nonup_kept c (fst (evict_scan victims placer c ev)).
Proof.
  induction victims as [|v r IH]; intros c ev; cbn [evict_scan]; [apply nonup_kept_refl|].
  destruct (Z.eqb v placer); [apply nonup_kept_refl|].
  destruct (get_app v (c_apps c)) as [va|]; [|apply IH].
  destruct (a_server va) as [sn|]; [|apply IH].
  destruct (get_srv sn (c_servers c)) as [s|] eqn:Es; [|apply IH].
  destruct (s_state s) eqn:Est; try apply IH.
  assert (H1 : nonup_kept c (srv_remove c sn v)).
  { intros k sk Hk Hnu. destruct (srv_remove_frame c sn v) as [Hf _].
    destruct (Z.eq_dec k sn) as [->|Hne]; [rewrite Es in Hk; inversion Hk; subst; congruence|].
    rewrite Hf by exact Hne. exact Hk. }
  destruct (srv_put (srv_remove c sn v) sn placer) as [c2|] eqn:Ep.
  - cbn [fst]. eapply nonup_kept_trans; [exact H1|]. intros k sk Hk Hnu.
    destruct (srv_put_frame _ _ _ _ Ep) as [Hf _].
    destruct (Z.eq_dec k sn) as [->|Hne].
    + (* sn is up in c, hence its record after the removal is still up: contradiction with Hnu *)
      exfalso. destruct (srv_remove_state _ _ _ _ _ Hk) as (s0 & Hs0 & Hst). rewrite Es in Hs0. inversion Hs0; subst s0.
      congruence.
    + rewrite Hf by exact Hne. exact Hk.
  - eapply nonup_kept_trans; [exact H1|apply IH].
Qed.

(** ** only instances strictly behind the placer (scanning from the end of the queue) can lose their server *)
Fixpoint before_placer (victims : list Z) (placer : Z) : list Z :=
  match victims with
  | [] => []
  | v :: r => if Z.eqb v placer then [] else v :: before_placer r placer
  end.

Definition apps_kept (keep : Z -> Prop) (c c' : cell) : Prop :=
  forall m, keep m -> get_app m (c_apps c') = get_app m (c_apps c).

Theorem evict_scan_victims_behind victims placer : forall c ev m,
  m <> placer -> ~ In m (before_placer victims placer) ->
  get_app m (c_apps (fst (evict_scan victims placer c ev))) = get_app m (c_apps c).
Proof.
  induction victims as [|v r IH]; intros c ev m Hmp Hnin; cbn [evict_scan before_placer] in *; [reflexivity|].
  destruct (Z.eqb_spec v placer) as [->|Hvp]; [reflexivity|].
  assert (Hmv : m <> v) by (intros ->; apply Hnin; left; reflexivity).
  assert (Hr : ~ In m (before_placer r placer)) by (intros H; apply Hnin; right; exact H).
  destruct (get_app v (c_apps c)) as [va|]; [|apply IH; assumption].
  destruct (a_server va) as [sn|]; [|apply IH; assumption].
  destruct (get_srv sn (c_servers c)) as [s|]; [|apply IH; assumption].
  destruct (s_state s); try (apply IH; assumption).
  destruct (srv_remove_frame c sn v) as [_ Hf1].
  destruct (srv_put (srv_remove c sn v) sn placer) as [c2|] eqn:Ep.
  - cbn [fst]. destruct (srv_put_frame _ _ _ _ Ep) as [_ Hf2]. rewrite Hf2 by exact Hmp. apply Hf1. exact Hmv.
  - rewrite IH by assumption. apply Hf1. exact Hmv.
Qed.

(** ** a placement attempt for [an] changes no other instance *)
Definition others_kept (an : Z) (c c' : cell) : Prop :=
  forall m, m <> an -> get_app m (c_apps c') = get_app m (c_apps c).
Lemma others_kept_trans an a b c : others_kept an a b -> others_kept an b c -> others_kept an a c.
Proof. intros H1 H2 m Hm. rewrite H2, H1; auto. Qed.
Lemma others_kept_sc an c c' : same_core c c' -> others_kept an c c'.
Proof. intros (_ & _ & _ & H4 & _) m _. rewrite H4. reflexivity. Qed.

Lemma try_children_others put_bkt b aff an p0 :
  (forall c n, others_kept an c (fst (put_bkt c n))) ->
  forall l c, others_kept an c (fst (try_children put_bkt b aff an p0 l c)).
Proof.
  intros Hp. induction l as [|[p n] r IHl]; intros c; cbn [try_children].
  - cbn [fst]. apply others_kept_sc, set_cursor_sc.
  - set (c1 := set_cursor c b aff (S p)).
    assert (H1 : others_kept an c c1) by (apply others_kept_sc, set_cursor_sc).
    destruct (get_srv n (c_servers c1)) as [s|].
    + destruct (s_state s).
      * destruct (srv_put c1 n an) as [c2|] eqn:Ep.
        -- cbn [fst]. eapply others_kept_trans; [exact H1|]. destruct (srv_put_frame _ _ _ _ Ep) as [_ Hf]. exact Hf.
        -- eapply others_kept_trans; [exact H1|apply IHl].
      * eapply others_kept_trans; [exact H1|apply IHl].
      * eapply others_kept_trans; [exact H1|apply IHl].
    + specialize (Hp c1 n). destruct (put_bkt c1 n) as [c2 ok]. cbn [fst] in Hp.
      destruct ok; [cbn [fst]; eapply others_kept_trans; eassumption|].
      eapply others_kept_trans; [exact H1|]. eapply others_kept_trans; [exact Hp|apply IHl].
Qed.
Theorem bucket_put_others fuel : forall c b an, others_kept an c (fst (bucket_put fuel c b an)).
Proof.
  induction fuel as [|f IH]; intros c b an; cbn [bucket_put]; [intros m _; reflexivity|].
  destruct (get_bkt b (c_buckets c)) as [bk|]; [|intros m _; reflexivity].
  destruct (get_app an (c_apps c)) as [a|]; [|intros m _; reflexivity].
  destruct (check_constraints c a (b_labels bk) (bkt_traits bk) (b_counters bk) (b_level bk) (b_free bk)); [|intros m _; reflexivity].
  destruct (live_positions (b_children bk) (cursor_of bk (a_aff a))) as [|[p0 n0] rest].
  - cbn [fst]. apply others_kept_sc, set_cursor_sc.
  - apply try_children_others. intros c' n. apply IH.
Qed.

(** ** what the guard of Server.put checks *)
Lemma vany2_gt_false_le : forall d f, any_gt d f = false -> length d = length f -> Forall2 Z.le d f.
Proof.
  induction d as [|x d IH]; intros [|y f] Hg Hl; cbn in *; try discriminate; [constructor|].
  apply orb_false_iff in Hg as [H1 H2]. constructor; [apply Z.gtb_ltb in H1 || idtac; lia|apply IH; [exact H2|lia]].
Qed.

Theorem put_guard_spec c s a lease : put_guard c s a lease = true ->
  (forall l, app_label a = Some l -> l = s_label s) /\
  (app_traits c a = 0 \/ has_traits (s_traits s) (app_traits c a) = true) /\
  (lease = 0 \/ c_now c + lease < s_valid_until s) /\
  under_limit (cget (a_aff a) (s_counters s)) (aff_limit a LEVEL_SERVER) = true /\
  any_gt (a_demand a) (s_free s) = false /\
  a_server a = None /\ ~ In (a_name a) (s_apps s).
Proof.
  unfold put_guard, check_lifetime, check_constraints. intros H.
  repeat (apply andb_true_iff in H as [H ?]).
  repeat match goal with X : (_ && _)%bool = true |- _ => apply andb_true_iff in X as [X ?] end.
  repeat split.
  - intros l Hl. rewrite Hl in *. cbn in *.
    match goal with X : (Z.eqb (s_label s) l || false)%bool = true |- _ => rewrite orb_false_r in X; apply Z.eqb_eq in X; congruence end.
  - match goal with X : (Z.eqb (app_traits c a) 0 || _)%bool = true |- _ => apply orb_true_iff in X as [X|X]; [left; apply Z.eqb_eq; exact X|right; exact X] end.
  - match goal with X : (Z.eqb lease 0 || _)%bool = true |- _ => apply orb_true_iff in X as [X|X]; [left; apply Z.eqb_eq; exact X|right; apply Z.ltb_lt; exact X] end.
  - assumption.
  - match goal with X : negb (any_gt _ _) = true |- _ => apply negb_true_iff in X; exact X end.
  - destruct (a_server a); [discriminate|reflexivity].
  - apply negb_true_iff in H. apply zmem_false in H. exact H.
Qed.

(** ** _handle_inactive_servers: who is moved *)
Theorem to_be_moved_spec c s n : In n (to_be_moved c s) <->
  In n (s_apps s) /\ exists a, get_app n (c_apps c) = Some a /\
    ((s_state s = Down /\ expired c (s_since s) a = true) \/ (s_state s = Frozen /\ a_unschedule a = true)).
Proof.
  unfold to_be_moved. destruct (s_state s) eqn:E.
  - split; [intros []|]. intros (_ & a & _ & [[H _]|[H _]]); discriminate.
  - rewrite filter_In. split.
    + intros [Hin Hf]. split; [exact Hin|]. destruct (get_app n (c_apps c)) as [a|]; [|discriminate]. exists a. auto.
    + intros (Hin & a & Ha & [[_ H]|[H _]]); [|discriminate]. split; [exact Hin|]. rewrite Ha. exact H.
  - rewrite filter_In. split.
    + intros [Hin Hf]. split; [exact Hin|]. destruct (get_app n (c_apps c)) as [a|]; [|discriminate]. exists a. auto.
    + intros (Hin & a & Ha & [[H _]|[_ H]]); [discriminate|]. split; [exact Hin|]. rewrite Ha. exact H.
Qed.
Theorem expired_spec c since a : expired c since a = true <->
  match a_drt a with None => 0 <= c_now c | Some t => since + t <= c_now c end.
Proof. unfold expired. destruct (a_drt a); apply Z.leb_le. Qed.

(** a blacklisted instance is skipped by the placement loop *)
Theorem place_one_blacklisted rq st an a :
  get_app an (c_apps (l_cell st)) = Some a -> a_blacklisted a = true -> place_one rq st an = st.
Proof. intros Ha Hb. unfold place_one. rewrite Ha, Hb. reflexivity. Qed.
