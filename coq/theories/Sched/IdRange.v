(** C05: after a cycle every held identity is below the current size of its group. *)
From Coq Require Import ZArith QArith List Bool Lia Relations.
From RecordUpdate Require Import RecordSet.
From TM Require Import Sched.Vec Sched.Types Sched.Queue Sched.Tree Sched.Cycle Sched.Steps Sched.MapsP Sched.FrameP
                       Sched.InvAcct Sched.InvIdent Sched.TurnP Sched.CycleP Sched.KeepP.
Import ListNotations.
Open Scope Z_scope.

Definition InRange (c : cell) : Prop :=
  forall x a g i k, app_of c x = Some a -> holds a g i -> gcount c g = Some k -> i < k.

Lemma upd_app_cases c n f x a' : (forall z, a_name (f z) = a_name z) -> app_of (c_upd_app n f c) x = Some a' ->
  (x <> n /\ app_of c x = Some a') \/ (x = n /\ exists a, app_of c n = Some a /\ a' = f a).
Proof.
  intros Hf H. destruct (Z.eq_dec x n) as [->|Hne].
  - right. split; [reflexivity|]. destruct (app_of c n) as [a|] eqn:Ea.
    + rewrite (upd_app_self c n f a Hf Ea) in H. inversion H. exists a. auto.
    + unfold app_of in *. cbn [c_upd_app c_apps set] in H. rewrite get_upd_app_none in H by exact Ea. congruence.
  - left. split; [exact Hne|]. rewrite upd_app_other in H by assumption. exact H.
Qed.

(** transitions that keep group sizes and only keep or drop identities *)
Definition idsub (c c' : cell) : Prop :=
  (forall g, gcount c' g = gcount c g) /\
  forall x a', app_of c' x = Some a' ->
    exists a, app_of c x = Some a /\ a_group a' = a_group a /\ (a_identity a' = a_identity a \/ a_identity a' = None).
Lemma InRange_idsub c c' : idsub c c' -> InRange c -> InRange c'.
Proof.
  intros [Hc Hs] H x a' g i k Ha' [Hg Hi] Hk. destruct (Hs x a' Ha') as (a & Ha & Eg & [Ei|Ei]); [|congruence].
  rewrite Hc in Hk. apply (H x a g i k Ha); [split; congruence|exact Hk].
Qed.
Lemma idsub_upd c n f : (forall z, a_name (f z) = a_name z /\ a_group (f z) = a_group z /\
                                   (a_identity (f z) = a_identity z \/ a_identity (f z) = None)) ->
  idsub c (c_upd_app n f c).
Proof.
  intros Hf. split; [reflexivity|]. intros x a' Ha'.
  destruct (upd_app_cases c n f x a' (fun z => proj1 (Hf z)) Ha') as [[_ H]|[-> (a & Ha & ->)]].
  - exists a'. auto.
  - exists a. split; [exact Ha|]. destruct (Hf a) as (_ & H1 & H2). auto.
Qed.
Lemma idsub_apps c c' : c_apps c' = c_apps c -> c_groups c' = c_groups c -> idsub c c'.
Proof. intros E1 E2. split; [intros g; unfold gcount; rewrite E2; reflexivity|]. intros x a' H. unfold app_of in *. rewrite E1 in H. exists a'. auto. Qed.
Lemma idsub_trans a b c : idsub a b -> idsub b c -> idsub a c.
Proof.
  intros [H1 H2] [G1 G2]. split; [intros g; rewrite G1; apply H1|]. intros x r Hr.
  destruct (G2 x r Hr) as (r1 & Hr1 & E1 & I1). destruct (H2 x r1 Hr1) as (r0 & Hr0 & E0 & I0).
  exists r0. split; [exact Hr0|]. split; [congruence|]. destruct I1 as [I1|I1]; [|right; exact I1]. destruct I0 as [I0|I0]; [left|right]; congruence.
Qed.

Lemma pstep_InRange c c' : pstep c c' -> Ident c -> InRange c -> InRange c'.
Proof.
  intros Hs HI H. pose proof (pstep_counts _ _ Hs) as Hc. destruct Hs.
  - destruct H0 as (_ & _ & _ & H4 & _ & H6 & _). apply (InRange_idsub c c'); [apply idsub_apps; assumption|exact H].
  - unfold prim_put. eapply InRange_idsub; [|exact H].
    eapply idsub_trans; [|apply idsub_upd]; [apply idsub_apps; reflexivity|]. intros z. destruct (a_expiry z); repeat split; left; reflexivity.
  - unfold prim_remove. eapply InRange_idsub; [|exact H].
    eapply idsub_trans; [|apply idsub_upd]; [apply idsub_apps; reflexivity|]. intros z. repeat split. left. reflexivity.
  - eapply InRange_idsub; [apply idsub_upd|exact H]. intros z. destruct (H0 z) as (F1 & _ & _ & _ & _ & _ & _ & _ & F9 & _ & _ & _ & _ & F14 & _).
    split; [exact F1|]. split; [exact F9|left; exact F14].
  - eapply InRange_idsub; [apply idsub_upd|exact H]. intros z. repeat split. left. reflexivity.
  - (* release: the identity of one instance is dropped *)
    intros x a' g i k Ha' [Hg Hi] Hk. rewrite Hc in Hk.
    unfold release_identity in Ha'. destruct (get_app aname (c_apps c)) as [z|] eqn:Ez; [|exact (H x a' g i k Ha' (conj Hg Hi) Hk)].
    destruct (group_of c z) as [[g0 grp]|]; [|exact (H x a' g i k Ha' (conj Hg Hi) Hk)].
    destruct (a_identity z); [|exact (H x a' g i k Ha' (conj Hg Hi) Hk)].
    apply upd_app_cases in Ha'; [|intros; reflexivity]. destruct Ha' as [[_ H1]|[-> (a & Ha & ->)]].
    + exact (H x a' g i k H1 (conj Hg Hi) Hk).
    + cbn in Hi. discriminate.
  - (* acquire: the new identity comes from the offer, which is in range *)
    intros x a' g i k Ha' [Hg Hi] Hk. rewrite Hc in Hk.
    unfold acquire_identity in Ha'. destruct (get_app aname (c_apps c)) as [z|] eqn:Ez; [|exact (H x a' g i k Ha' (conj Hg Hi) Hk)].
    unfold group_of in Ha'. destruct (a_group z) as [g0|] eqn:Eg0; [|exact (H x a' g i k Ha' (conj Hg Hi) Hk)].
    destruct (aget g0 (c_groups c)) as [grp|] eqn:Egr; [|exact (H x a' g i k Ha' (conj Hg Hi) Hk)].
    destruct (a_identity z) eqn:Eiz; [exact (H x a' g i k Ha' (conj Hg Hi) Hk)|].
    destruct (g_avail grp) as [|first rest] eqn:Eav; [exact (H x a' g i k Ha' (conj Hg Hi) Hk)|].
    cbn [fst] in Ha'.
    apply upd_app_cases in Ha'; [|intros; reflexivity]. destruct Ha' as [[_ H1]|[-> (a & Ha & ->)]].
    + exact (H x a' g i k H1 (conj Hg Hi) Hk).
    + unfold app_of in Ha. cbn [c_apps set] in Ha. rewrite Ez in Ha. inversion Ha; subst a. cbn in Hg.
      rewrite Eg0 in Hg. inversion Hg; subst g0. unfold gcount in Hk. rewrite Egr in Hk. cbn in Hk. inversion Hk; subst k.
      assert (Hin : In i (g_avail grp)).
      { rewrite Eav.
        assert (Hi2 : Some (match ch with Some ch0 => if zmem ch0 (first :: rest) then ch0 else first | None => first end) = Some i)
          by exact Hi.
        clear Hi Hc. destruct ch as [ch0|]; [destruct (zmem ch0 (first :: rest)) eqn:Em|];
          injection Hi2 as Hi3; rewrite <- Hi3; [apply zmem_In; exact Em|left; reflexivity|left; reflexivity]. }
      exact (proj2 (id_avail_range _ HI _ _ _ Egr Hin)).
  - eapply InRange_idsub; [apply idsub_upd|exact H]. intros z. repeat split. right. reflexivity.
Qed.
Lemma psteps_InRange c c' : psteps c c' -> Ident c -> InRange c -> InRange c'.
Proof.
  induction 1 as [c c' Hs|c|a b c' H1 IH1 H2 IH2]; intros HI H; [eapply pstep_InRange; eassumption|exact H|].
  apply IH2; [eapply Ident_psteps; eassumption|apply IH1; assumption].
Qed.

(** ** _fix_invalid_identities establishes the range *)
Lemma idsub_refl c : idsub c c.
Proof. apply idsub_apps; reflexivity. Qed.
Lemma idsub_sc c c' : same_core c c' -> idsub c c'.
Proof. intros (_ & _ & _ & H4 & _ & H6 & _). apply idsub_apps; assumption. Qed.
Lemma srv_remove_idsub c sn an : idsub c (srv_remove c sn an).
Proof.
  unfold srv_remove. destruct (get_srv sn (c_servers c)) as [s|] eqn:Es; [|apply idsub_refl].
  destruct (get_app an (c_apps c)) as [a|] eqn:Ea; [|apply idsub_refl].
  destruct (zmem an (s_apps s)) eqn:Em; cbn [negb]; [|apply idsub_refl].
  eapply idsub_trans; [|apply idsub_sc; eapply same_core_trans; [apply bump_from_sc|apply adjust_up_from_sc]].
  unfold prim_remove. eapply idsub_trans; [|apply idsub_upd]; [apply idsub_apps; reflexivity|].
  intros z. repeat split. left. reflexivity.
Qed.

Lemma phase4_step_idsub acc a0 : idsub acc (phase4_step acc a0).
Proof.
  unfold phase4_step. destruct (get_app (a_name a0) (c_apps acc)) as [b|]; [|apply idsub_refl].
  destruct (a_identity b) as [i|]; [|apply idsub_refl].
  destruct (group_of acc b) as [[g grp]|]; [|apply idsub_refl].
  destruct (Z.geb i (g_count grp)); [|apply idsub_refl].
  eapply idsub_trans; [apply (idsub_upd acc (a_name b) (fun z => z <| a_identity := None |>)); intros z; repeat split; right; reflexivity|].
  destruct (a_server b); [apply srv_remove_idsub|apply idsub_refl].
Qed.

Lemma phase4_step_own acc a0 : forall b g i k,
  app_of (phase4_step acc a0) (a_name a0) = Some b -> holds b g i -> gcount (phase4_step acc a0) g = Some k -> i < k.
Proof.
  intros b' g i k Hb' [Hg Hi] Hk. rewrite (proj1 (phase4_step_idsub acc a0)) in Hk.
  unfold phase4_step in Hb'. destruct (get_app (a_name a0) (c_apps acc)) as [b|] eqn:Eb; [|unfold app_of in Hb'; congruence].
  pose proof (get_app_name _ _ _ Eb) as Hn.
  assert (Hown : forall (bb : app), Some b = Some bb -> a_identity bb = Some i -> a_group bb = Some g -> group_of acc bb = None -> False).
  { intros bb E Hi1 Hg1 Hno. unfold group_of in Hno. rewrite Hg1 in Hno. unfold gcount in Hk.
    destruct (aget g (c_groups acc)); [discriminate|]. discriminate. }
  destruct (a_identity b) as [i0|] eqn:Ei.
  2:{ unfold app_of in Hb'. rewrite Eb in Hb'. inversion Hb'; subst b'. congruence. }
  destruct (group_of acc b) as [[g0 grp]|] eqn:Egr.
  2:{ unfold app_of in Hb'. rewrite Eb in Hb'. inversion Hb'; subst b'. exfalso. eapply Hown; [reflexivity|exact Hi|exact Hg|exact Egr]. }
  destruct (Z.geb i0 (g_count grp)) eqn:Ege.
  - (* dropped *)
    exfalso. set (acc1 := c_upd_app (a_name b) (fun z => z <| a_identity := None |>) acc) in *.
    assert (H1 : app_of acc1 (a_name b) = Some (b <| a_identity := None |>)).
    { apply upd_app_self; [reflexivity|]. unfold app_of. rewrite Hn. exact Eb. }
    rewrite <- Hn in Hb'. destruct (a_server b) as [m|].
    + destruct (proj2 (srv_remove_idsub acc1 m (a_name b)) _ _ Hb') as (b1 & Hb1 & _ & [E|E]); [|congruence].
      rewrite H1 in Hb1. inversion Hb1; subst b1. cbn in E. congruence.
    + rewrite H1 in Hb'. inversion Hb'; subst b'. cbn in Hi. discriminate.
  - unfold app_of in Hb'. rewrite Eb in Hb'. inversion Hb'; subst b'.
    unfold group_of in Egr. rewrite Hg in Egr. destruct (aget g (c_groups acc)) as [grp0|] eqn:Eg0; [|discriminate].
    inversion Egr; subst g0 grp0. unfold gcount in Hk. rewrite Eg0 in Hk. cbn in Hk. inversion Hk; subst k.
    rewrite Ei in Hi. inversion Hi; subst i0. rewrite Z.geb_leb in Ege. apply Z.leb_gt in Ege. exact Ege.
Qed.

Theorem phase4_in_range c : InRange (fix_invalid_identities c).
Proof.
  unfold fix_invalid_identities. fold phase4_step.
  change (fold_left (fun acc a0 => phase4_step acc a0) (c_apps c) c) with (fold_left phase4_step (c_apps c) c).
  assert (G : forall l acc (done : list Z),
            (forall x b g i k, In x done -> app_of acc x = Some b -> holds b g i -> gcount acc g = Some k -> i < k) ->
            forall x b g i k, In x (done ++ map a_name l) -> app_of (fold_left phase4_step l acc) x = Some b -> holds b g i ->
                              gcount (fold_left phase4_step l acc) g = Some k -> i < k).
  { induction l as [|a0 r IH]; intros acc done Hd x b g i k Hin; cbn [fold_left map] in *.
    - rewrite app_nil_r in Hin. apply Hd. exact Hin.
    - apply (IH (phase4_step acc a0) (done ++ [a_name a0])); [|rewrite <- app_assoc; exact Hin].
      intros y b1 g1 i1 k1 Hy Hb1 Hh1 Hk1. apply in_app_or in Hy. destruct Hy as [Hy|[<-|[]]].
      + destruct (phase4_step_idsub acc a0) as [Hc Hs]. destruct (Hs _ _ Hb1) as (b0 & Hb0 & Eg & [Ei|Ei]); [|destruct Hh1; congruence].
        rewrite Hc in Hk1. destruct Hh1 as [Hg1 Hi1]. apply (Hd y b0 g1 i1 k1 Hy Hb0); [split; congruence|exact Hk1].
      + eapply phase4_step_own; eassumption. }
  intros x b g i k Hb Hh Hk. apply (G (c_apps c) c [] (fun _ _ _ _ _ H => match H with end) x b g i k); [|exact Hb|exact Hh|exact Hk].
  cbn [List.app].
  assert (Hnames : map a_name (c_apps (fold_left phase4_step (c_apps c) c)) = map a_name (c_apps c)).
  { pose proof (fix_invalid_identities_ps c) as Hp. unfold fix_invalid_identities in Hp. apply psteps_names in Hp. exact Hp. }
  rewrite <- Hnames. unfold app_of in Hb. rewrite <- (get_app_name _ _ _ Hb). apply in_map. eapply get_app_In; exact Hb.
Qed.

(** after the whole cycle *)
Theorem schedule_in_range c ch : Ident c -> InRange (fst (fst (schedule c ch))).
Proof.
  intros HI. pose proof (schedule_ps c ch) as Hall.
  (* split the cycle at the end of the phases *)
  unfold schedule in *. fold (sched_F ch) in *.
  assert (Hp0 : psteps c (pre_phases c)) by apply pre_phases_ps.
  assert (HI0 : Ident (pre_phases c)) by (eapply Ident_psteps; eassumption).
  assert (HR0 : InRange (pre_phases c)) by (unfold pre_phases; apply phase4_in_range).
  assert (G : forall l acc, psteps (fst acc) (fst (fold_left (sched_F ch) l acc))).
  { induction l as [|p r IH]; intros acc; cbn [fold_left]; [apply ps_refl|].
    eapply ps_trans; [|apply IH]. unfold sched_F. destruct acc as [cc qs]. cbn [fst].
    destruct (aget (fst p) (c_parts cc)) as [top|]; [|apply ps_refl].
    pose proof (schedule_alloc_ps cc (fst p) top ch) as Hs.
    destruct (schedule_alloc cc (fst p) top ch) as [cc' q]. exact Hs. }
  specialize (G (c_parts (pre_phases c)) (pre_phases c, [])).
  destruct (fold_left (sched_F ch) (c_parts (pre_phases c)) (pre_phases c, [])) as [c1 qs]. cbn [fst] in *.
  eapply psteps_InRange; eassumption.
Qed.
