(** Proofs about Sched/Queue.v (C06). *)
From Coq Require Import ZArith QArith List Bool Lia Permutation Sorted.
From TM Require Import Sched.Vec Sched.Types Sched.Queue.
Import ListNotations.
Open Scope Z_scope.

(** ** an induction principle for the nested allocation tree *)
Section AllocInd.
  Variable P : alloc -> Prop.
  Hypothesis H : forall res rank adj traits maxu names subs,
      Forall (fun p => P (snd p)) subs -> P (Alloc res rank adj traits maxu names subs).
  Fixpoint alloc_rect' (a : alloc) : P a :=
    match a with
    | Alloc res rank adj traits maxu names subs =>
        H res rank adj traits maxu names subs
          ((fix go (l : list (Z * alloc)) : Forall (fun p => P (snd p)) l :=
              match l with
              | [] => Forall_nil _
              | p :: r => Forall_cons p (alloc_rect' (snd p)) (go r)
              end) subs)
    end.
End AllocInd.

(** ** heapq.merge *)
Lemma pick_perm qs m qs' : pick qs = Some (m, qs') -> Permutation (concat qs) (m :: concat qs').
Proof.
  revert m qs'; induction qs as [|q t IH]; intros m qs' Hp; cbn in Hp; [discriminate|].
  destruct q as [|x q].
  - destruct (pick t) as [[m0 t']|] eqn:E; [|discriminate]. inversion Hp; subst. cbn. apply IH; reflexivity.
  - destruct (pick t) as [[m0 t']|] eqn:E.
    + destruct (entry_ltb m0 x); inversion Hp; subst; cbn.
      * specialize (IH _ _ eq_refl).
        rewrite (Permutation_app_head (x :: q) IH). cbn.
        change (m :: x :: q ++ concat t') with ([m] ++ (x :: q) ++ concat t').
        change (x :: q ++ m :: concat t') with ((x :: q) ++ [m] ++ concat t').
        rewrite !app_assoc. apply Permutation_app_tail. apply Permutation_app_comm.
      * reflexivity.
    + inversion Hp; subst; cbn. reflexivity.
Qed.

Lemma pick_none qs : pick qs = None -> concat qs = [].
Proof.
  induction qs as [|q t IH]; cbn; intros Hp; [reflexivity|].
  destruct q; [|destruct (pick t) as [[? ?]|]; [destruct (entry_ltb _ _)|]; discriminate].
  destruct (pick t) as [[? ?]|]; [discriminate|]. cbn. apply IH; reflexivity.
Qed.

Lemma merge_perm fuel qs : (length (concat qs) <= fuel)%nat -> Permutation (concat qs) (merge fuel qs).
Proof.
  revert qs; induction fuel as [|f IH]; intros qs Hf.
  - destruct (concat qs); [constructor| cbn in Hf; lia].
  - cbn. destruct (pick qs) as [[m qs']|] eqn:E.
    + pose proof (pick_perm _ _ _ E) as Pm. rewrite Pm. constructor. apply IH.
      apply Permutation_length in Pm. cbn in Pm. lia.
    + rewrite (pick_none _ E). constructor.
Qed.

Lemma merge_all_perm qs : Permutation (concat qs) (merge_all qs).
Proof. apply merge_perm. lia. Qed.

(** ** rescoring keeps everything but the utilisation fields *)
Lemma rescore_loop_app res av l : forall acc ub, map e_app (rescore_loop res av l acc ub) = map e_app l.
Proof.
  induction l as [|e r IH]; intros acc ub; cbn [rescore_loop map]; [reflexivity|].
  destruct (rescore res av (acc, ub) (e_demand e) (e_prio e)) as [[acc' ub1] ua1]. cbn [map e_app e_rank]. f_equal. apply IH.
Qed.
Lemma rescore_loop_rank res av l : forall acc ub, map e_rank (rescore_loop res av l acc ub) = map e_rank l.
Proof.
  induction l as [|e r IH]; intros acc ub; cbn [rescore_loop map]; [reflexivity|].
  destruct (rescore res av (acc, ub) (e_demand e) (e_prio e)) as [[acc' ub1] ua1]. cbn [map e_app e_rank]. f_equal. apply IH.
Qed.

(** ** the private queue *)
Lemma insert_app_stable_perm a l : Permutation (a :: l) (insert_app_stable a l).
Proof.
  induction l as [|b r IH]; cbn; [reflexivity|].
  destruct (app_key_leb b a); [|reflexivity].
  rewrite perm_swap. constructor. exact IH.
Qed.
Lemma sort_apps_perm l : Permutation l (sort_apps l).
Proof.
  unfold sort_apps. rewrite <- (app_nil_r l) at 1.
  assert (G : forall acc, Permutation (l ++ acc) (fold_left (fun acc a => insert_app_stable a acc) l acc)).
  { induction l as [|a r IH]; intros acc; cbn; [reflexivity|].
    rewrite <- IH. rewrite <- insert_app_stable_perm. apply Permutation_middle. }
  apply G.
Qed.

Lemma priv_loop_app rank adj maxu res av l : forall acc ub,
  map e_app (priv_loop rank adj maxu res av l acc ub) = map a_name l.
Proof.
  induction l as [|a r IH]; intros acc ub; cbn [priv_loop map]; [reflexivity|].
  destruct (rescore res av (acc, ub) (a_demand a) (a_prio a)) as [[acc' ub1] ua1]. cbn [map e_app]. f_equal. apply IH.
Qed.

Lemma priv_queue_perm dim al apps :
  Permutation (map e_app (priv_queue dim al apps)) (map a_name (lookup_apps (al_apps al) apps)).
Proof.
  unfold priv_queue. rewrite priv_loop_app. apply Permutation_map. symmetry. apply sort_apps_perm.
Qed.

Lemma lookup_apps_app l1 l2 apps : lookup_apps (l1 ++ l2) apps = lookup_apps l1 apps ++ lookup_apps l2 apps.
Proof.
  induction l1 as [|n r IH]; cbn; [reflexivity|]. destruct (get_app n apps); cbn; rewrite IH; reflexivity.
Qed.

(** ** the whole queue is a permutation of the partition's instances *)
Theorem util_queue_perm dim free keps apps al :
  Permutation (map e_app (util_queue dim free keps apps al)) (map a_name (lookup_apps (all_apps al) apps)).
Proof.
  induction al as [res rank adj traits maxu names subs IH] using alloc_rect'.
  cbn [util_queue all_apps].
  rewrite rescore_loop_app.
  set (subqs := (fix go (l : list (Z * alloc)) : list (list entry) :=
                   match l with [] => [] | (_, s) :: r => util_queue dim free keps apps s :: go r end) subs).
  set (subnames := (fix go (l : list (Z * alloc)) : list Z :=
                      match l with [] => [] | (_, s) :: r => all_apps s ++ go r end) subs).
  rewrite <- (Permutation_map e_app (merge_all_perm (subqs ++ [priv_queue dim (Alloc res rank adj traits maxu names subs) apps]))).
  rewrite concat_app. cbn [concat]. rewrite app_nil_r, map_app.
  rewrite lookup_apps_app, map_app.
  rewrite Permutation_app_comm. apply Permutation_app.
  - apply priv_queue_perm.
  - subst subqs subnames. clear -IH. induction subs as [|[n s] r IHr]; cbn; [reflexivity|].
    inversion IH as [|? ? Hs Hr]; subst. rewrite map_app, lookup_apps_app, map_app.
    apply Permutation_app; [exact Hs|apply IHr; exact Hr].
Qed.

(** ** ranks are non-decreasing along the queue *)
Definition rank_sorted (l : list entry) : Prop := Sorted Z.le (map e_rank l).

Lemma entry_ltb_rank m x : entry_ltb m x = true -> e_rank m <= e_rank x.
Proof.
  unfold entry_ltb, entry_compare, lex. destruct (Z.compare_spec (e_rank m) (e_rank x)); intros; lia.
Qed.
Lemma entry_nltb_rank m x : entry_ltb m x = false -> e_rank x <= e_rank m.
Proof.
  unfold entry_ltb, entry_compare, lex. destruct (Z.compare_spec (e_rank m) (e_rank x)); intros Hf; try lia; try discriminate.
Qed.

Lemma sorted_hd_le (l : list Z) x : Sorted Z.le (x :: l) -> forall y, In y l -> x <= y.
Proof.
  intros Hs. apply Sorted_StronglySorted in Hs; [|intros a b c; lia].
  inversion Hs as [|? ? _ Hf]; subst. intros y Hy. rewrite Forall_forall in Hf. apply Hf. exact Hy.
Qed.

(** the picked element has the smallest rank of everything that remains, and the queues stay sorted *)
Lemma pick_min qs m qs' :
  Forall rank_sorted qs -> pick qs = Some (m, qs') ->
  (forall e, In e (concat qs') -> e_rank m <= e_rank e) /\ Forall rank_sorted qs'.
Proof.
  revert m qs'; induction qs as [|q t IH]; intros m qs' Hs Hp; cbn in Hp; [discriminate|].
  inversion Hs as [|? ? Hq Ht]; subst.
  destruct q as [|x q].
  - destruct (pick t) as [[m0 t']|] eqn:E; [|discriminate]. inversion Hp; subst.
    destruct (IH _ _ Ht eq_refl) as [Hmin Hs']. split; [|constructor; assumption].
    intros e He. cbn in He. apply Hmin. exact He.
  - assert (Hxq : forall e, In e q -> e_rank x <= e_rank e).
    { intros e He. unfold rank_sorted in Hq. cbn in Hq.
      apply (sorted_hd_le _ _ Hq). apply in_map. exact He. }
    assert (Hq' : rank_sorted q).
    { unfold rank_sorted in *. cbn in Hq. inversion Hq; assumption. }
    destruct (pick t) as [[m0 t']|] eqn:E.
    + destruct (IH _ _ Ht eq_refl) as [Hmin Hs'].
      destruct (entry_ltb m0 x) eqn:El; inversion Hp; subst.
      * split; [|constructor; assumption].
        intros e He. cbn in He. pose proof (entry_ltb_rank _ _ El) as Hle.
        destruct He as [<-|He]; [exact Hle|].
        apply in_app_or in He as [He|He]; [|apply Hmin; exact He].
        specialize (Hxq e He). lia.
      * split; [|constructor; assumption].
        intros e He. cbn in He. apply in_app_or in He as [He|He]; [apply Hxq; exact He|].
        pose proof (entry_nltb_rank _ _ El) as Hle.
        pose proof (pick_perm _ _ _ E) as Pm.
        assert (Hin : In e (m0 :: concat t')) by (eapply Permutation_in; [exact Pm|exact He]).
        destruct Hin as [<-|Hin]; [exact Hle|]. specialize (Hmin e Hin). lia.
    + inversion Hp; subst. split; [|constructor; assumption].
      intros e He. cbn in He. apply in_app_or in He as [He|He]; [apply Hxq; exact He|].
      rewrite (pick_none _ E) in He. destruct He.
Qed.

Lemma merge_rank_sorted fuel : forall qs, Forall rank_sorted qs -> rank_sorted (merge fuel qs).
Proof.
  induction fuel as [|f IH]; intros qs Hs; cbn; [constructor|].
  destruct (pick qs) as [[m qs']|] eqn:E; [|constructor].
  destruct (pick_min _ _ _ Hs E) as [Hmin Hs']. specialize (IH _ Hs').
  unfold rank_sorted in *. cbn. constructor; [exact IH|].
  destruct (merge f qs') as [|y r] eqn:Em; cbn; constructor.
  apply Hmin. eapply Permutation_in.
  - symmetry. apply (merge_perm (length (concat qs')) qs'). lia.
  - (* y is produced by merging qs', whatever the fuel *)
    assert (Hsub : forall f0 qs0 e, In e (merge f0 qs0) -> In e (concat qs0)).
    { clear. induction f0 as [|f0 IH0]; intros qs0 e He; cbn in He; [destruct He|].
      destruct (pick qs0) as [[m0 qs1]|] eqn:E0; [|destruct He].
      pose proof (pick_perm _ _ _ E0) as Pm. eapply Permutation_in; [symmetry; exact Pm|].
      destruct He as [<-|He]; [left; reflexivity|right; apply IH0; exact He]. }
    eapply Permutation_in; [apply (merge_perm (length (concat qs')) qs'); lia|].
    apply Hsub with (f0 := f). rewrite Em. left. reflexivity.
Qed.

(** ranks of a sub-tree queue are sorted whenever every private queue's are *)
Definition priv_sorted (dim : nat) (apps : list app) : alloc -> Prop :=
  fix ps (al : alloc) : Prop :=
    let '(Alloc res rank adj traits maxu names subs) := al in
    rank_sorted (priv_queue dim al apps) /\
    (fix go (l : list (Z * alloc)) : Prop := match l with [] => True | (_, s) :: r => ps s /\ go r end) subs.

Theorem util_queue_rank_sorted dim free keps apps al :
  priv_sorted dim apps al -> rank_sorted (util_queue dim free keps apps al).
Proof.
  induction al as [res rank adj traits maxu names subs IH] using alloc_rect'.
  intros [Hpriv Hsubs]. cbn [util_queue]. unfold rank_sorted. rewrite rescore_loop_rank.
  apply merge_rank_sorted. apply Forall_app. split; [|constructor; [exact Hpriv|constructor]].
  clear Hpriv. induction subs as [|[n s] r IHr]; [constructor|].
  inversion IH as [|? ? Hs Hr]; subst. destruct Hsubs as [Hps Hgo].
  constructor; [apply Hs; exact Hps|apply IHr; assumption].
Qed.

(** ** the private queue: monotone utilisation, rank decision *)
Definition nonneg (v : vec) : Prop := Forall (fun x => 0 <= x) v.
Definition qpos (av : list Q) : Prop := Forall (fun q => (0 < q)%Q) av.

Lemma util_leb_some a b : util_leb (Some a) (Some b) = true <-> (a <= b)%Q.
Proof. unfold util_leb, util_compare. rewrite Qle_alt. destruct (a ?= b)%Q; split; intros; congruence. Qed.
Lemma util_ltb_some a b : util_ltb (Some a) (Some b) = true <-> (a < b)%Q.
Proof. unfold util_ltb, util_compare. rewrite Qlt_alt. destruct (a ?= b)%Q; split; intros; congruence. Qed.

Lemma qmax_step_le m1 m2 y1 y2 : (m1 <= m2)%Q -> (y1 <= y2)%Q ->
  ((if Qle_bool m1 y1 then y1 else m1) <= (if Qle_bool m2 y2 then y2 else m2))%Q.
Proof.
  intros Hm Hy. destruct (Qle_bool m1 y1) eqn:E1, (Qle_bool m2 y2) eqn:E2; try assumption.
  - (* y1 vs m2, with not (m2 <= y2) *)
    assert (H2 : ~ (m2 <= y2)%Q) by (rewrite <- Qle_bool_iff; congruence).
    apply Qnot_le_lt in H2. apply Qle_trans with y2; [assumption|apply Qlt_le_weak; assumption].
  - apply Qle_bool_iff in E2. apply Qle_trans with m2; assumption.
Qed.

Lemma fold_qmax_le : forall l1 l2 m1 m2, Forall2 Qle l1 l2 -> (m1 <= m2)%Q ->
  (fold_left (fun m y => if Qle_bool m y then y else m) l1 m1 <=
   fold_left (fun m y => if Qle_bool m y then y else m) l2 m2)%Q.
Proof.
  induction l1 as [|y1 r1 IH]; intros l2 m1 m2 Hf Hm; inversion Hf; subst; cbn; [assumption|].
  apply IH; [assumption|]. apply qmax_step_le; assumption.
Qed.
Lemma qmaxl_le l1 l2 : Forall2 Qle l1 l2 -> (qmaxl l1 <= qmaxl l2)%Q.
Proof.
  intros Hf. destruct Hf as [|x y r1 r2 Hxy Hr]; cbn; [apply Qle_refl|]. apply fold_qmax_le; assumption.
Qed.

Lemma util_dims_mono : forall acc d res av,
  length d = length acc -> nonneg d -> qpos av ->
  Forall2 Qle (util_dims acc res av) (util_dims (vadd acc d) res av).
Proof.
  induction acc as [|a acc IH]; intros d res av Hl Hd Hav; destruct d as [|x d]; try discriminate.
  - cbn. constructor.
  - cbn. destruct res as [|r res]; [constructor|]. destruct av as [|v av]; [constructor|].
    inversion Hd; subst. inversion Hav; subst. constructor.
    + unfold Qdiv. apply Qmult_le_compat_r.
      * rewrite <- Zle_Qle. lia.
      * apply Qlt_le_weak. apply Qinv_lt_0_compat. assumption.
    + apply IH; auto.
Qed.

Lemma utilization_mono acc d res av :
  length d = length acc -> nonneg d -> qpos av ->
  (utilization acc res av <= utilization (vadd acc d) res av)%Q.
Proof. intros. unfold utilization. apply qmaxl_le. apply util_dims_mono; assumption. Qed.

Lemma vadd_length : forall a b, length b = length a -> length (vadd a b) = length a.
Proof.
  induction a as [|x a IH]; intros [|y b] Hl; cbn in *; try discriminate; try reflexivity.
  f_equal. apply IH. lia.
Qed.

(** the rank decision of one entry, as a function of its two utilisation values *)
Definition rank_of (rank adj : Z) (maxu : option Q) (ub ua : util) : Z :=
  let within := match maxu with None => true | Some m => util_leb ua (Some (m - 1)%Q) end in
  if within then (if util_ltb ub (Some 0%Q) then rank - adj else rank) else UNPLACED_RANK.

(** boosted rank <=> utilisation before the instance is negative (every dimension of the preceding
    cumulative demand below the reservation) and the instance is within the cap; unplaced <=> beyond the cap *)
Lemma rank_of_boost rank adj maxu ub ua : 0 < adj -> rank < UNPLACED_RANK ->
  (rank_of rank adj maxu ub ua = rank - adj <->
   util_ltb ub (Some 0%Q) = true /\ (match maxu with None => true | Some m => util_leb ua (Some (m - 1)%Q) end) = true).
Proof.
  intros Ha Hr. unfold rank_of.
  destruct (match maxu with None => true | Some m => util_leb ua (Some (m - 1)%Q) end);
  destruct (util_ltb ub (Some 0%Q)); split; intros H; try tauto; try lia; try (destruct H; discriminate).
Qed.
Lemma rank_of_cap rank adj maxu ub ua : 0 <= adj -> rank < UNPLACED_RANK ->
  (rank_of rank adj maxu ub ua = UNPLACED_RANK <->
   exists m, maxu = Some m /\ util_leb ua (Some (m - 1)%Q) = false).
Proof.
  intros Ha Hr. unfold rank_of. destruct maxu as [m|].
  - destruct (util_leb ua (Some (m - 1)%Q)) eqn:E.
    + split; [destruct (util_ltb ub (Some 0%Q)); lia|]. intros (m' & Hm & Hf). inversion Hm; subst. congruence.
    + split; [intros _; exists m; auto|reflexivity].
  - split; [destruct (util_ltb ub (Some 0%Q)); lia|]. intros (m' & Hm & _). discriminate.
Qed.

Lemma priv_loop_cons rank adj maxu res av a r acc ub :
  priv_loop rank adj maxu res av (a :: r) acc ub =
  let '(acc', ub1, ua1) := rescore res av (acc, ub) (a_demand a) (a_prio a) in
  mkEntry (rank_of rank adj maxu ub1 ua1) ub1 ua1 (is_pending a) (a_order a) (a_name a) (a_demand a) (a_prio a)
  :: priv_loop rank adj maxu res av r acc' ua1.
Proof. reflexivity. Qed.

Fixpoint ptail (l : list app) : Prop :=
  match l with
  | [] => True
  | a :: r => (a_prio a = 0 -> Forall (fun b => a_prio b = 0) r) /\ ptail r
  end.

Lemma priv_loop_zero_tail rank adj maxu res av l : forall acc ub,
  Forall (fun b => a_prio b = 0) l ->
  Forall (fun e => e_rank e = rank_of rank adj maxu None None) (priv_loop rank adj maxu res av l acc ub).
Proof.
  induction l as [|a r IH]; intros acc ub Hz; [constructor|].
  inversion Hz as [|? ? Ha Hr]; subst. rewrite priv_loop_cons. unfold rescore. rewrite Ha. cbn [Z.eqb].
  constructor; [reflexivity|]. apply IH. assumption.
Qed.

Lemma rank_of_le_zero rank adj maxu ub ua : 0 <= adj -> rank <= UNPLACED_RANK ->
  (ua = None \/ exists u, ua = Some u) ->
  rank_of rank adj maxu ub ua <= rank_of rank adj maxu None None.
Proof.
  intros Ha Hr _. unfold rank_of. destruct maxu as [m|].
  - cbn [util_leb util_compare]. destruct (util_leb ua (Some (m - 1)%Q)); [destruct (util_ltb ub _); lia|lia].
  - destruct (util_ltb ub (Some 0%Q)); cbn; lia.
Qed.

Theorem priv_loop_rank_sorted rank adj maxu res av dim : 0 <= adj -> rank <= UNPLACED_RANK -> qpos av ->
  forall l acc u,
  ptail l -> Forall (fun a => length (a_demand a) = dim /\ nonneg (a_demand a)) l -> length acc = dim ->
  (u <= utilization acc res av)%Q ->
  Sorted Z.le (map e_rank (priv_loop rank adj maxu res av l acc (Some u))).
Proof.
  intros Hadj Hrank Hav. induction l as [|a r IH]; intros acc u Hpt Hd Hlen Hu; [constructor|].
  rewrite priv_loop_cons. destruct Hpt as [Hz Hpt]. apply Forall_cons_iff in Hd. destruct Hd as [[Hla Hna] Hdr].
  unfold rescore. destruct (Z.eqb_spec (a_prio a) 0) as [Hp0|Hp0].
  - (* priority 0: everything that follows has priority 0 too *)
    specialize (Hz Hp0). cbn [map e_rank]. constructor.
    + pose proof (priv_loop_zero_tail rank adj maxu res av r (vadd acc (a_demand a)) None Hz) as Hall.
      clear -Hall. induction Hall as [|e t He Ht IHt]; cbn; [constructor|].
      constructor; [exact IHt|]. destruct t as [|e' t']; cbn; constructor.
      inversion Ht; subst. lia.
    + pose proof (priv_loop_zero_tail rank adj maxu res av r (vadd acc (a_demand a)) None Hz) as Hall.
      destruct (priv_loop rank adj maxu res av r (vadd acc (a_demand a)) None) as [|e t]; cbn; constructor.
      inversion Hall; subst. lia.
  - set (acc' := vadd acc (a_demand a)). set (ua := utilization acc' res av).
    assert (Hlen' : length acc' = length acc) by (subst acc'; apply vadd_length; lia).
    assert (Hmono : (utilization acc res av <= ua)%Q) by (apply utilization_mono; auto; lia).
    cbn [map e_rank]. constructor.
    + apply IH; [assumption|assumption|lia|apply Qle_refl].
    + destruct r as [|b r']; [cbn; constructor|].
      rewrite priv_loop_cons. unfold rescore. apply Forall_cons_iff in Hdr. destruct Hdr as [[Hlb Hnb] _].
      destruct (Z.eqb_spec (a_prio b) 0) as [Hb0|Hb0]; cbn [map e_rank]; constructor.
      * apply rank_of_le_zero; auto. right. eexists; reflexivity.
      * (* two consecutive non-zero-priority entries *)
        set (ub' := utilization (vadd acc' (a_demand b)) res av).
        assert (Hm2 : (ua <= ub')%Q) by (apply utilization_mono; auto; lia).
        unfold rank_of. destruct maxu as [m|].
        -- destruct (util_leb (Some ub') (Some (m - 1)%Q)) eqn:Eb.
           ++ apply util_leb_some in Eb.
              assert (Ea : util_leb (Some ua) (Some (m - 1)%Q) = true)
                by (apply util_leb_some; eapply Qle_trans; eassumption).
              rewrite Ea. destruct (util_ltb (Some ua) (Some 0%Q)) eqn:Eu.
              ** apply util_ltb_some in Eu.
                 assert (Eu0 : util_ltb (Some u) (Some 0%Q) = true).
                 { apply util_ltb_some. eapply Qle_lt_trans; [|exact Eu]. eapply Qle_trans; eassumption. }
                 rewrite Eu0. lia.
              ** destruct (util_ltb (Some u) (Some 0%Q)); lia.
           ++ destruct (util_leb (Some ua) (Some (m - 1)%Q)); [destruct (util_ltb (Some u) _); lia|lia].
        -- destruct (util_ltb (Some ua) (Some 0%Q)) eqn:Eu.
           ++ apply util_ltb_some in Eu.
              assert (Eu0 : util_ltb (Some u) (Some 0%Q) = true).
              { apply util_ltb_some. eapply Qle_lt_trans; [|exact Eu]. eapply Qle_trans; eassumption. }
              rewrite Eu0. lia.
           ++ destruct (util_ltb (Some u) (Some 0%Q)); lia.
Qed.

(** ** order inside one allocation: priority, running before pending, first-come *)
Definition pz (a : app) : Z := if is_pending a then 1 else 0.
Definition key_le (x y : app) : Prop :=
  a_prio y < a_prio x \/
  (a_prio x = a_prio y /\
   (pz x < pz y \/ (pz x = pz y /\ (a_order x < a_order y \/ (a_order x = a_order y /\ a_name x <= a_name y))))).

Lemma app_key_leb_spec x y : app_key_leb x y = true <-> key_le x y.
Proof.
  unfold app_key_leb, app_key_compare, lex, key_le, pz, bool_compare.
  destruct (Z.compare_spec (- a_prio x) (- a_prio y));
  destruct (is_pending x), (is_pending y);
  destruct (Z.compare_spec (a_order x) (a_order y));
  destruct (Z.compare_spec (a_name x) (a_name y)); split; intros; try discriminate; try lia; try reflexivity.
Qed.
Lemma key_le_total x y : key_le x y \/ key_le y x.
Proof. unfold key_le, pz. destruct (is_pending x), (is_pending y); lia. Qed.
Lemma key_le_trans x y z : key_le x y -> key_le y z -> key_le x z.
Proof. unfold key_le, pz. destruct (is_pending x), (is_pending y), (is_pending z); lia. Qed.

Lemma insert_stable_sorted a l : StronglySorted key_le l -> StronglySorted key_le (insert_app_stable a l).
Proof.
  induction 1 as [|b r Hr IH Hb]; cbn; [repeat constructor|].
  destruct (app_key_leb b a) eqn:E.
  - constructor; [exact IH|]. apply app_key_leb_spec in E.
    rewrite Forall_forall in *. intros z Hz.
    apply (Permutation_in _ (Permutation_sym (insert_app_stable_perm a r))) in Hz.
    destruct Hz as [<-|Hz]; [exact E|apply Hb; exact Hz].
  - assert (Hab : key_le a b).
    { destruct (key_le_total a b) as [H|H]; [exact H|]. apply app_key_leb_spec in H. congruence. }
    constructor; [constructor; assumption|]. constructor; [exact Hab|].
    rewrite Forall_forall in *. intros z Hz. eapply key_le_trans; [exact Hab|apply Hb; exact Hz].
Qed.

Theorem sort_apps_sorted l : StronglySorted key_le (sort_apps l).
Proof.
  unfold sort_apps.
  assert (G : forall acc, StronglySorted key_le acc ->
                          StronglySorted key_le (fold_left (fun acc a => insert_app_stable a acc) l acc)).
  { induction l as [|a r IH]; intros acc Hs; cbn; [exact Hs|]. apply IH. apply insert_stable_sorted. exact Hs. }
  apply G. constructor.
Qed.

Lemma sorted_ptail l : StronglySorted key_le l -> Forall (fun a => 0 <= a_prio a) l -> ptail l.
Proof.
  induction 1 as [|a r Hr IH Ha]; intros Hp; cbn; [exact I|].
  inversion Hp as [|? ? Hpa Hpr]; subst. split; [|apply IH; exact Hpr].
  intros Hz. rewrite Forall_forall in *. intros b Hb. specialize (Ha b Hb). specialize (Hpr b Hb).
  unfold key_le in Ha. lia.
Qed.

Lemma avail_q_pos x k : 0 <= x -> (0 < avail_q x k)%Q.
Proof.
  intros Hx. unfold avail_q. destruct (Z.leb_spec 2 x).
  - change 0%Q with (inject_Z 0). rewrite <- Zlt_Qlt. lia.
  - apply Qlt_le_trans with (inject_Z (Z.of_nat (S k)) * feps)%Q.
    + apply Qmult_lt_0_compat; [change 0%Q with (inject_Z 0); rewrite <- Zlt_Qlt; lia|reflexivity].
    + rewrite <- (Qplus_0_l (inject_Z (Z.of_nat (S k)) * feps)) at 1. apply Qplus_le_compat; [|apply Qle_refl].
      change 0%Q with (inject_Z 0). rewrite <- Zle_Qle. exact Hx.
Qed.
Lemma avail_vec_pos xs k : nonneg xs -> qpos (avail_vec xs k).
Proof. induction 1; cbn; constructor; auto. apply avail_q_pos. assumption. Qed.

Lemma lookup_apps_in names apps a : In a (lookup_apps names apps) -> In a apps.
Proof.
  induction names as [|n r IH]; cbn; [tauto|].
  destruct (get_app n apps) as [b|] eqn:E; [|exact IH].
  intros [<-|H]; [|apply IH; exact H].
  clear -E. induction apps as [|x t IHt]; cbn in E; [discriminate|].
  destruct (Z.eqb (a_name x) n); [inversion E; left; reflexivity|right; apply IHt; exact E].
Qed.

Definition apps_ok (dim : nat) (apps : list app) : Prop :=
  Forall (fun a => 0 <= a_prio a /\ length (a_demand a) = dim /\ nonneg (a_demand a)) apps.

Theorem priv_queue_rank_sorted dim apps al :
  apps_ok dim apps -> 0 <= al_adj al -> al_rank al <= UNPLACED_RANK -> nonneg (al_reserved al) ->
  rank_sorted (priv_queue dim al apps).
Proof.
  intros Hok Hadj Hrank Hres. unfold rank_sorted, priv_queue.
  set (l := sort_apps (lookup_apps (al_apps al) apps)).
  assert (Hin : forall a, In a l -> In a apps).
  { intros a Ha. apply (lookup_apps_in (al_apps al)).
    eapply Permutation_in; [symmetry; apply sort_apps_perm|exact Ha]. }
  unfold apps_ok in Hok. rewrite Forall_forall in Hok.
  apply priv_loop_rank_sorted with (dim := dim); auto.
  - apply avail_vec_pos. exact Hres.
  - apply sorted_ptail; [apply sort_apps_sorted|]. apply Forall_forall. intros a Ha. apply Hok, Hin, Ha.
  - apply Forall_forall. intros a Ha. destruct (Hok a (Hin a Ha)) as (_ & H1 & H2). split; assumption.
  - unfold vzero. apply repeat_length.
  - apply Qle_refl.
Qed.

(** every allocation of the tree is well-formed *)
Definition alloc_ok : alloc -> Prop :=
  fix ok (al : alloc) : Prop :=
    let '(Alloc res rank adj traits maxu names subs) := al in
    (0 <= adj /\ rank <= UNPLACED_RANK /\ nonneg res) /\
    (fix go (l : list (Z * alloc)) : Prop := match l with [] => True | (_, s) :: r => ok s /\ go r end) subs.

Theorem util_queue_rank_sorted_wf dim free keps apps al :
  apps_ok dim apps -> alloc_ok al -> rank_sorted (util_queue dim free keps apps al).
Proof.
  intros Hok Hal. apply util_queue_rank_sorted.
  induction al as [res rank adj traits maxu names subs IH] using alloc_rect'.
  destruct Hal as [(Ha & Hr & Hn) Hsubs]. split.
  - apply priv_queue_rank_sorted; assumption.
  - clear Ha Hr Hn. induction subs as [|[n s] r IHr]; [exact I|].
    inversion IH as [|? ? Hs Hrr]; subst. destruct Hsubs as [Hs1 Hs2]. split; [apply Hs; exact Hs1|apply IHr; assumption].
Qed.

(** the private queue lists the allocation's instances in key order *)
Theorem priv_queue_order dim al apps :
  map e_app (priv_queue dim al apps) = map a_name (sort_apps (lookup_apps (al_apps al) apps)) /\
  StronglySorted key_le (sort_apps (lookup_apps (al_apps al) apps)).
Proof. split; [unfold priv_queue; apply priv_loop_app|apply sort_apps_sorted]. Qed.

(** every entry of the private queue carries the rank decided by [rank_of] on its own utilisation values *)
Theorem priv_loop_rank_of rank adj maxu res av l : forall acc ub,
  Forall (fun e => e_rank e = rank_of rank adj maxu (e_ub e) (e_ua e)) (priv_loop rank adj maxu res av l acc ub).
Proof.
  induction l as [|a r IH]; intros acc ub; [constructor|]. rewrite priv_loop_cons.
  destruct (rescore res av (acc, ub) (a_demand a) (a_prio a)) as [[acc' ub1] ua1]. constructor; [reflexivity|apply IH].
Qed.
