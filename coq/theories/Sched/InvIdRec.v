(** "A placed instance of an identity group holds an identity" as an invariant of every history (C05),
    and the end-of-cycle facts of the placement loop stated for every reachable state. *)
From Coq Require Import ZArith QArith List Bool Lia.
From RecordUpdate Require Import RecordSet.
From TM Require Import Sched.Vec Sched.Types Sched.Queue Sched.Tree Sched.Cycle Sched.Events Sched.Steps Sched.MapsP
                       Sched.FrameP Sched.InvAcct Sched.InvIdent Sched.TurnP Sched.CycleP.
Import ListNotations.
Open Scope Z_scope.

Definition IdRec (c : cell) : Prop := forall x a, app_of c x = Some a -> id_rec a.

Lemma IdRec_ext c c' : c_apps c' = c_apps c -> IdRec c -> IdRec c'.
Proof. intros E H x a Ha. unfold app_of in Ha. rewrite E in Ha. exact (H x a Ha). Qed.
Lemma IdRec_same_core c c' : same_core c c' -> IdRec c -> IdRec c'.
Proof. intros (_ & _ & _ & H4 & _). apply IdRec_ext. exact H4. Qed.

(** transitions that only take placements away (or leave the record's placement and identity alone) *)
Lemma IdRec_touched c c' : all_touched c c' -> (forall x, app_of c x = None -> app_of c' x = None) -> IdRec c -> IdRec c'.
Proof.
  intros Ht Hn H x a' Ha'. destruct (app_of c x) as [a|] eqn:Ea; [|rewrite (Hn x Ea) in Ha'; discriminate].
  destruct (Ht x a Ea) as (a2 & Ha2 & T). rewrite Ha' in Ha2. inversion Ha2; subst a2.
  eapply id_rec_touched; [exact T|exact (H x a Ea)].
Qed.

Lemma IdRec_srv_remove c sn v : Acct c -> IdRec c -> IdRec (srv_remove c sn v).
Proof. intros HA. apply IdRec_touched; [apply at_srv_remove; exact HA|intros x; apply psteps_none, srv_remove_ps]. Qed.

Lemma IdRec_upd_app c n f : (forall z, a_name (f z) = a_name z /\ a_server (f z) = a_server z /\ a_group (f z) = a_group z /\
                                        a_identity (f z) = a_identity z) -> IdRec c -> IdRec (c_upd_app n f c).
Proof.
  intros Hf H x a' Ha'. destruct (Z.eq_dec x n) as [->|Hne].
  - destruct (app_of c n) as [a|] eqn:Ea.
    + rewrite (upd_app_self c n f a (fun z => proj1 (Hf z)) Ea) in Ha'. inversion Ha'; subst a'.
      destruct (Hf a) as (_ & F1 & F2 & F3). unfold id_rec, has_id. intros Hs. rewrite F1 in Hs. destruct (H n a Ea Hs) as [G|G]; [left|right]; congruence.
    + unfold app_of in *. cbn [c_upd_app c_apps set] in Ha'. rewrite get_upd_app_none in Ha' by exact Ea. rewrite Ea in Ha'. discriminate.
  - rewrite upd_app_other in Ha' by (try exact Hne; intros z; apply (proj1 (Hf z))). exact (H x a' Ha').
Qed.

Lemma IdRec_upd_alloc c label path f : IdRec c -> IdRec (upd_alloc c label path f).
Proof. unfold upd_alloc, ensure_part. destruct (aget label (c_parts c)); apply IdRec_ext; reflexivity. Qed.
Lemma IdRec_ensure_group c g : IdRec c -> IdRec (ensure_group c g).
Proof. unfold ensure_group. destruct g as [n|]; [|tauto]. destruct (aget n (c_groups c)); [tauto|]. apply IdRec_ext. reflexivity. Qed.

Lemma IdRec_srv_remove_all c sn : Acct c -> IdRec c -> IdRec (srv_remove_all c sn).
Proof.
  unfold srv_remove_all. destruct (get_srv sn (c_servers c)) as [s|]; [|tauto].
  generalize (s_apps s) as l. intros l. revert c. induction l as [|x r IH]; intros c HA H; cbn [fold_left]; [exact H|].
  apply IH; [apply Acct_srv_remove; exact HA|apply IdRec_srv_remove; assumption].
Qed.

Lemma IdRec_remove_app c n : Acct c -> Ident c -> IdRec c -> IdRec (remove_app c n).
Proof.
  intros HA HI H. unfold remove_app. destruct (get_app n (c_apps c)) as [a|] eqn:Ea; [|exact H].
  set (c1 := match a_server a with Some sn => if is_member c sn then srv_remove c sn n else c | None => c end).
  assert (H1 : IdRec c1 /\ Ident c1).
  { subst c1. destruct (a_server a) as [sn|]; [|split; assumption]. destruct (is_member c sn); [|split; assumption].
    split; [apply IdRec_srv_remove; assumption|eapply Ident_psteps; [apply srv_remove_ps|exact HI]]. }
  destruct H1 as [H1 HI1].
  set (c2 := match a_alloc a with Some (l0, p0) => upd_alloc c1 l0 p0 (alloc_del_app n) | None => c1 end).
  assert (H2 : IdRec c2 /\ Ident c2).
  { subst c2. destruct (a_alloc a) as [[l0 p0]|]; [split; [apply IdRec_upd_alloc; exact H1|apply Ident_upd_alloc; exact HI1]|split; assumption]. }
  destruct H2 as [H2 HI2].
  assert (HI3 : Ident (release_identity c2 n)) by (apply Ident_release; exact HI2).
  intros x a' Ha'. unfold app_of in Ha'. cbn [c_apps set] in Ha'.
  rewrite get_app_del in Ha' by (apply (id_names _ HI3)).
  destruct (Z.eqb_spec x n) as [->|Hne]; [discriminate|].
  change (app_of (release_identity c2 n) x = Some a') in Ha'. rewrite release_app in Ha' by exact Hne. exact (H2 x a' Ha').
Qed.

Lemma IdRec_add_app c label path a :
  (get_app (a_name a) (c_apps c) = None -> a_server a = None) -> Ident c -> IdRec c -> IdRec (add_app c label path a).
Proof.
  intros Hwf HI H. unfold add_app. destruct (get_app (a_name a) (c_apps c)) as [old|] eqn:Eo.
  - apply IdRec_ensure_group. apply IdRec_upd_app; [intros z; repeat split|].
    apply IdRec_upd_alloc. destruct (a_alloc old) as [[l0 p0]|]; [apply IdRec_upd_alloc|]; exact H.
  - apply IdRec_ensure_group. specialize (Hwf eq_refl).
    set (c1 := upd_alloc c label path (alloc_add_app (a_name a))).
    assert (E1 : c_apps c1 = c_apps c) by (subst c1; unfold upd_alloc, ensure_part; destruct (aget label (c_parts c)); reflexivity).
    intros x a' Ha'. unfold app_of in Ha'. cbn [c_apps set] in Ha'. rewrite E1 in Ha'.
    rewrite get_app_snoc in Ha'. destruct (get_app x (c_apps c)) as [b|] eqn:Eb.
    + inversion Ha'; subst a'. exact (H x b Eb).
    + destruct (Z.eqb (a_name (a <| a_alloc := Some (label, path) |>)) x); [|discriminate].
      inversion Ha'; subst a'. intros Hs. cbn in Hs. congruence.
Qed.

(** the cycle: instances of the partition trees by [schedule_final], the others by [schedule_outside] *)
Lemma IdRec_schedule c ch : Acct c -> Ident c -> parts_wf c -> IdRec c -> IdRec (fst (fst (schedule c ch))).
Proof.
  intros HA HI Hwf H x a' Ha'.
  destruct (app_of c x) as [a|] eqn:Ea.
  2:{ rewrite (psteps_none _ _ x (schedule_ps c ch) Ea) in Ha'. discriminate. }
  destruct (in_dec Z.eq_dec x (part_apps (c_parts c))) as [Hin|Hout].
  - destruct (schedule_final c ch HA HI Hwf x a Hin Ea (H x a Ea)) as (a2 & Ha2 & (_ & _ & F & _)).
    rewrite Ha' in Ha2. inversion Ha2; subst a2. exact F.
  - destruct (schedule_outside c ch HA HI Hwf x a Hout Ea) as (a0 & a2 & Ha2 & T & (Hd & Hs & _)).
    rewrite Ha' in Ha2. inversion Ha2; subst a2.
    pose proof (id_rec_touched _ _ T (H x a Ea)) as H0. intros Hne. rewrite Hs in Hne. eapply has_id_dyn; [exact Hd|exact (H0 Hne)].
Qed.

(** Loader.restore_placement for one recorded instance *)
Lemma restore_put_other c sn an vb ex x : x <> an -> app_of (fst (restore_put c sn an vb ex)) x = app_of c x.
Proof.
  intros Hne. unfold restore_put. destruct vb; [apply srv_restore_app; exact Hne|].
  destruct (get_app an (c_apps c)) as [a|]; [|reflexivity]. destruct (a_once a); [reflexivity|].
  destruct (srv_put c sn an) as [c'|] eqn:E; [|reflexivity]. cbn [fst].
  destruct (srv_put_frame _ _ _ _ E) as [_ Hf]. apply Hf. exact Hne.
Qed.
Lemma restore_put_fail c sn an vb ex : snd (restore_put c sn an vb ex) = false -> IdRec c -> IdRec (fst (restore_put c sn an vb ex)).
Proof.
  unfold restore_put. destruct vb.
  - unfold srv_restore. destruct (get_app an (c_apps c)) as [a|]; [|tauto].
    destruct (srv_put_lease c sn an 0); cbn [fst snd]; [discriminate|]. intros _. apply IdRec_upd_app. intros z; repeat split.
  - destruct (get_app an (c_apps c)) as [a|]; [|tauto]. destruct (a_once a); [tauto|].
    destruct (srv_put c sn an); cbn [fst snd]; [discriminate|tauto].
Qed.
Lemma force_other c an i x : x <> an -> app_of (force_identity c an i) x = app_of c x.
Proof.
  intros Hne. unfold force_identity. destruct i as [i|]; [|reflexivity]. destruct (get_app an (c_apps c)) as [a|]; [|reflexivity].
  destruct (group_of c a) as [[g grp]|]; [|reflexivity]. unfold app_of. cbn [c_upd_app c_apps c_groups set].
  apply get_upd_app_other; [reflexivity|exact Hne].
Qed.

Lemma IdRec_restore_op c sn an vb ex ident :
  wf_op_id c (ORestore sn an vb ex ident) -> Acct c -> Ident c -> IdRec c -> IdRec (restore_op c sn an vb ex ident).
Proof.
  intros Hwf HA HI H. unfold restore_op. destruct (get_app an (c_apps c)) as [a|] eqn:Ea; [|exact H].
  pose proof (Acct_psteps _ _ (restore_put_ps c sn an vb ex) HA) as HA1.
  pose proof (Ident_psteps _ _ (restore_put_ps c sn an vb ex) HI) as HI1.
  pose proof (restore_put_eqi c sn an vb ex) as [_ Hq].
  pose proof (restore_put_fail c sn an vb ex) as Hfail.
  pose proof (fun x => restore_put_other c sn an vb ex x) as Hoth.
  destruct (restore_put c sn an vb ex) as [c1 ok]. cbn [fst snd] in *.
  destruct ok.
  - intros x a2 Ha2. destruct (Z.eq_dec x an) as [->|Hne].
    2:{ rewrite force_other in Ha2 by exact Hne. rewrite Hoth in Ha2 by exact Hne. exact (H x a2 Ha2). }
    intros _. pose proof (get_app_eqi _ _ Hq an) as Q. rewrite Ea in Q.
    destruct (get_app an (c_apps c1)) as [a1|] eqn:Ea1; [|contradiction]. destruct Q as (_ & Q2 & Q3).
    cbn [wf_op_id] in Hwf. unfold force_identity in Ha2. destruct ident as [i|].
    + destruct (Hwf a Ea) as (_ & g & Hg & _). rewrite Ea1 in Ha2.
      assert (Hgo : exists grp, group_of c1 a1 = Some (g, grp)).
      { unfold group_of. rewrite <- Q2, Hg. destruct (id_group_exists _ HI1 an a1 g Ea1 (eq_trans (eq_sym Q2) Hg)) as (grp & Hgrp).
        rewrite Hgrp. eexists; reflexivity. }
      destruct Hgo as (grp & Hgo). rewrite Hgo in Ha2. unfold app_of in Ha2. cbn [c_upd_app c_apps c_groups set] in Ha2.
      erewrite get_upd_app_same in Ha2; [|intros z; reflexivity|exact Ea1]. inversion Ha2; subst a2. right. cbn. discriminate.
    + unfold app_of in Ha2. rewrite Ea1 in Ha2. inversion Ha2; subst a2.
      destruct (Hwf a Ea) as [G|G]; [left|right]; congruence.
  - specialize (Hfail eq_refl H). destruct (a_once a); [apply IdRec_remove_app; assumption|exact Hfail].
Qed.

(** every operation of the alphabet *)
Theorem IdRec_step c o : wf_op c o -> wf_op_id c o -> (forall ch, o = OSchedule ch -> parts_wf c) ->
  Acct c -> Ident c -> IdRec c -> IdRec (step c o).
Proof.
  intros Hwf Hwi Hpw HA HI H. destruct o; cbn [step].
  - unfold add_bucket. eapply IdRec_same_core; [apply attach_common_sc|]. revert H. apply IdRec_ext; reflexivity.
  - unfold add_server, new_server. cbn [s_parent]. eapply IdRec_same_core; [apply attach_common_sc|].
    revert H. apply IdRec_ext; reflexivity.
  - assert (H0 : IdRec (if raw then c else srv_remove_all c name)) by (destruct raw; [exact H|apply IdRec_srv_remove_all; assumption]).
    set (c0 := if raw then c else srv_remove_all c name) in *.
    unfold detach_server. destruct (get_srv name (c_servers c0)) as [s|]; [|exact H0].
    assert (H1 : IdRec (c0 <| c_servers ::= del_srv name |>)) by (revert H0; apply IdRec_ext; reflexivity).
    destruct (s_parent s) as [p|]; [|exact H1].
    eapply IdRec_same_core; [apply unhook_server_sc|exact H1].
  - unfold move_server. destruct (get_srv name (c_servers c)) as [s|]; [|exact H].
    eapply IdRec_same_core; [apply attach_common_sc|].
    match goal with |- IdRec (c_upd_srv _ _ ?c0) => apply (IdRec_ext c0); [reflexivity|] end.
    destruct (s_parent s) as [p0|]; [eapply IdRec_same_core; [apply unhook_server_sc|exact H]|exact H].
  - unfold srv_set_state. destruct (get_srv name (c_servers c)) as [s|]; [|exact H].
    destruct (sstate_eqb (s_state s) st); [exact H|].
    assert (H1 : IdRec (c_upd_srv name (fun x => x <| s_state := st |> <| s_since := since |>) c))
      by (revert H; apply IdRec_ext; reflexivity).
    destruct st; (eapply IdRec_same_core; [|exact H1]);
      [apply adjust_up_from_sc|apply adjust_down_from_sc|apply adjust_down_from_sc].
  - revert H; apply IdRec_ext; reflexivity.
  - apply IdRec_add_app; [intros E; exact (proj1 (Hwf E))|exact HI|exact H].
  - apply IdRec_remove_app; assumption.
  - apply IdRec_upd_app; [intros z; repeat split|exact H].
  - apply IdRec_upd_app; [intros z; repeat split|exact H].
  - apply IdRec_upd_app; [intros z; repeat split|exact H].
  - apply IdRec_upd_app; [intros z; repeat split|exact H].
  - apply IdRec_upd_app; [intros z; repeat split|exact H].
  - apply IdRec_upd_alloc; exact H.
  - revert H. unfold config_group. destruct (aget name (c_groups c)); apply IdRec_ext; reflexivity.
  - revert H. unfold remove_group. destruct (aget name (c_groups c)); [|tauto].
    destruct (existsb _ (c_apps c)); apply IdRec_ext; reflexivity.
  - revert H; apply IdRec_ext; reflexivity.
  - pose proof (IdRec_schedule c choices HA HI (Hpw choices eq_refl) H) as H1.
    destruct (schedule c choices) as [[c' qs] pl]. exact H1.
  - apply IdRec_restore_op; assumption.
Qed.
