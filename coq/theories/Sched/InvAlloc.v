(** Well-formedness of the allocation trees (Cell.partitions / Allocation.sub_allocations / Allocation.apps)
    against the instance records (Application.allocation): every name queued in the allocation at
    (partition label, path) belongs to a live instance whose record points back to exactly that position,
    every live instance is queued at the position its record names, no name is queued twice, and the
    dict-like association lists (partitions, sub-allocations) have unique keys.

    The invariant holds in the initial cell and is preserved by EVERY event of the alphabet of Events.v,
    without any side condition on the event ([wf_op_alloc] is [True]).  Consequences: [parts_wf] (the premise of
    the cycle-level theorems of CycleP.v) and "every live instance is queued in some partition". *)
From Coq Require Import ZArith QArith List Bool Lia Relations.
From RecordUpdate Require Import RecordSet.
From TM Require Import Sched.Vec Sched.Types Sched.Queue Sched.QueueP Sched.Tree Sched.Cycle Sched.Steps Sched.MapsP
                       Sched.Events Sched.InvAcct Sched.InvIdent Sched.TurnP Sched.CycleP.
Import ListNotations.
Open Scope Z_scope.

(** ** positions in an allocation tree *)

(** a projection of the allocation found at [p] below [al] (empty when there is none) *)
Definition sel_at {A} (g : alloc -> list A) (al : alloc) (p : list Z) : list A :=
  match alloc_at al p with Some s => g s | None => [] end.
(** the names queued in the allocation at path [p] below [al] *)
Definition apps_at : alloc -> list Z -> list Z := sel_at al_apps.
(** the names of the sub-allocations of the allocation at path [p] below [al] *)
Definition keys_at : alloc -> list Z -> list Z := sel_at (fun s => map fst (al_subs s)).

(** the names queued at (label, path) of a partition table *)
Definition listed_in (ps : list (Z * alloc)) (l : Z) (p : list Z) : list Z :=
  match aget l ps with Some top => apps_at top p | None => [] end.
Definition subkeys_in (ps : list (Z * alloc)) (l : Z) (p : list Z) : list Z :=
  match aget l ps with Some top => keys_at top p | None => [] end.
Definition listed (c : cell) : Z -> list Z -> list Z := listed_in (c_parts c).

(** the same thing as a relation: [x] occurs in the apps list of the allocation at path [p] below [al] *)
Inductive occurs : alloc -> list Z -> Z -> Prop :=
| occ_here al x : In x (al_apps al) -> occurs al [] x
| occ_sub al k s r x : aget k (al_subs al) = Some s -> occurs s r x -> occurs al (k :: r) x.

Lemma alloc_at_cons al k r :
  alloc_at al (k :: r) = match aget k (al_subs al) with Some s => alloc_at s r | None => None end.
Proof. reflexivity. Qed.

Lemma occurs_iff : forall p al x, occurs al p x <-> In x (apps_at al p).
Proof.
  induction p as [|k r IH]; intros al x.
  - split; [intros H; inversion H; subst; assumption|intros H; constructor; exact H].
  - unfold apps_at, sel_at. rewrite alloc_at_cons. split.
    + intros H. inversion H as [|? ? s ? ? Hs Ho]; subst. rewrite Hs. apply IH. exact Ho.
    + destruct (aget k (al_subs al)) as [s|] eqn:E; [|intros []]. intros H. eapply occ_sub; [exact E|apply IH; exact H].
Qed.

(** ** the invariant *)
Record AllocWf (c : cell) : Prop := {
  (* Cell.partitions is a dict: labels are unique *)
  aw_labels : NoDup (map fst (c_parts c));
  (* Allocation.sub_allocations is a dict at every node of every tree *)
  aw_subkeys : forall l p, NoDup (subkeys_in (c_parts c) l p);
  (* no name is queued twice in one allocation *)
  aw_nodup : forall l p, NoDup (listed c l p);
  (* a queued name is a live instance whose record names exactly this allocation *)
  aw_owner : forall l p x, In x (listed c l p) -> exists a, app_of c x = Some a /\ a_alloc a = Some (l, p);
  (* every live instance has an allocation and is queued there *)
  aw_listed : forall x a, app_of c x = Some a -> exists l p, a_alloc a = Some (l, p) /\ In x (listed c l p);
  (* Cell.apps is a dict: instance names are unique *)
  aw_names : NoDup (map a_name (c_apps c))
}.

(** the invariant in terms of [occurs] *)
Lemma listed_occurs c l p x : In x (listed c l p) <-> exists top, aget l (c_parts c) = Some top /\ occurs top p x.
Proof.
  unfold listed, listed_in. destruct (aget l (c_parts c)) as [top|].
  - rewrite <- occurs_iff. split; [intros H; exists top; auto|intros (t & E & H); inversion E; subst; exact H].
  - split; [intros []|intros (t & E & _); discriminate].
Qed.

(** ** the invariant reads (name, allocation) of the instance records and the partition table *)
Definition adir (l : list app) : list (Z * option (Z * list Z)) := map (fun a => (a_name a, a_alloc a)) l.

Lemma adir_get l x : aget x (adir l) = option_map a_alloc (get_app x l).
Proof. induction l as [|a t IH]; cbn; [reflexivity|]. destruct (Z.eqb (a_name a) x); [reflexivity|exact IH]. Qed.
Lemma adir_names l : map a_name l = map fst (adir l).
Proof. unfold adir. rewrite map_map. reflexivity. Qed.

Lemma adir_back l l' x b : adir l' = adir l -> get_app x l' = Some b ->
  exists a, get_app x l = Some a /\ a_alloc a = a_alloc b.
Proof.
  intros Hd Hb. pose proof (adir_get l x) as H1. pose proof (adir_get l' x) as H2. rewrite Hd, H1, Hb in H2.
  destruct (get_app x l) as [a|]; [|discriminate]. cbn in H2. inversion H2. exists a. auto.
Qed.

Lemma AllocWf_ext c c' : adir (c_apps c') = adir (c_apps c) -> c_parts c' = c_parts c -> AllocWf c -> AllocWf c'.
Proof.
  intros Hd Hp [W1 W2 W3 W4 W5 W6]. unfold listed, app_of in *.
  constructor; unfold listed, app_of; rewrite ?Hp; try assumption.
  - intros l p x Hin. destruct (W4 l p x Hin) as (a & Ha & Hal).
    destruct (adir_back _ _ x a (eq_sym Hd) Ha) as (b & Hb & E). exists b. split; [exact Hb|congruence].
  - intros x b Hb. destruct (adir_back _ _ x b Hd Hb) as (a & Ha & E). rewrite <- E. apply W5. exact Ha.
  - rewrite adir_names, Hd, <- adir_names. exact W6.
Qed.

Lemma adir_upd_app n f l : (forall x, a_name (f x) = a_name x /\ a_alloc (f x) = a_alloc x) ->
  adir (upd_app n f l) = adir l.
Proof.
  intros Hf. unfold adir. induction l as [|x t IH]; cbn [upd_app map]; [reflexivity|].
  destruct (Z.eqb (a_name x) n); cbn [map]; [destruct (Hf x) as [-> ->]; reflexivity|rewrite IH; reflexivity].
Qed.

Lemma AllocWf_upd_app c n f : (forall x, a_name (f x) = a_name x /\ a_alloc (f x) = a_alloc x) ->
  AllocWf c -> AllocWf (c_upd_app n f c).
Proof. intros Hf. apply AllocWf_ext; [apply adir_upd_app; exact Hf|reflexivity]. Qed.
Lemma AllocWf_same_core c c' : same_core c c' -> AllocWf c -> AllocWf c'.
Proof. intros (_ & _ & _ & H4 & H5 & _). apply AllocWf_ext; [rewrite H4; reflexivity|exact H5]. Qed.

(** ** a scheduling cycle changes neither the trees nor any instance's (name, allocation) *)
Lemma release_adir c n : adir (c_apps (release_identity c n)) = adir (c_apps c) /\ c_parts (release_identity c n) = c_parts c.
Proof.
  unfold release_identity. destruct (get_app n (c_apps c)) as [a|]; [|auto].
  destruct (group_of c a) as [[g grp]|]; [|auto]. destruct (a_identity a); [|auto].
  split; [|reflexivity]. cbn [c_upd_app c_apps set]. apply adir_upd_app. intros x; split; reflexivity.
Qed.
Lemma acquire_adir c n ch :
  adir (c_apps (fst (acquire_identity c n ch))) = adir (c_apps c) /\ c_parts (fst (acquire_identity c n ch)) = c_parts c.
Proof.
  unfold acquire_identity. destruct (get_app n (c_apps c)) as [a|]; [|auto].
  destruct (group_of c a) as [[g grp]|]; [|auto]. destruct (a_identity a); [auto|]. destruct (g_avail grp); [auto|].
  split; [|reflexivity]. cbn [fst c_upd_app c_apps set]. apply adir_upd_app. intros x; split; reflexivity.
Qed.

Lemma pstep_adir c c' : pstep c c' -> adir (c_apps c') = adir (c_apps c) /\ c_parts c' = c_parts c.
Proof.
  intros Hs. destruct Hs.
  - destruct H as (_ & _ & _ & H4 & H5 & _). rewrite H4. auto.
  - split; [|reflexivity]. unfold prim_put. cbn [c_upd_app c_upd_srv c_apps set]. apply adir_upd_app.
    intros x. destruct (a_expiry x); split; reflexivity.
  - split; [|reflexivity]. unfold prim_remove. cbn [c_upd_app c_upd_srv c_apps set]. apply adir_upd_app.
    intros x. split; reflexivity.
  - split; [|reflexivity]. cbn [c_upd_app c_apps set]. apply adir_upd_app. intros x.
    destruct (H x) as (H1 & _ & _ & _ & _ & _ & _ & _ & _ & _ & _ & H12 & _). auto.
  - split; [|reflexivity]. cbn [c_upd_app c_apps set]. apply adir_upd_app. intros x. split; reflexivity.
  - apply release_adir.
  - apply acquire_adir.
  - split; [|reflexivity]. cbn [c_upd_app c_apps set]. apply adir_upd_app. intros x. split; reflexivity.
Qed.
Lemma psteps_adir c c' : psteps c c' -> adir (c_apps c') = adir (c_apps c) /\ c_parts c' = c_parts c.
Proof.
  induction 1 as [c c' Hs|c|a b c _ [H1 H2] _ [H3 H4]]; [apply pstep_adir; exact Hs|auto|split; congruence].
Qed.
Theorem AllocWf_psteps c c' : psteps c c' -> AllocWf c -> AllocWf c'.
Proof. intros Hp. destruct (psteps_adir _ _ Hp) as [H1 H2]. apply AllocWf_ext; assumption. Qed.
Theorem AllocWf_schedule c ch : AllocWf c -> AllocWf (fst (fst (schedule c ch))).
Proof. apply AllocWf_psteps, schedule_ps. Qed.

(** ** [alloc_update]: what an update at path [p] does to every position *)

(** the update functions used by the events keep the sub-allocations *)
Definition sp (f : alloc -> alloc) : Prop := forall s, al_subs (f s) = al_subs s.

Definition at_or_empty (dim : nat) (al : alloc) (p : list Z) : alloc :=
  match alloc_at al p with Some s => s | None => empty_alloc dim end.

Lemma alloc_at_empty dim p :
  alloc_at (empty_alloc dim) p = match p with [] => Some (empty_alloc dim) | _ :: _ => None end.
Proof. destruct p; reflexivity. Qed.
Lemma apps_at_empty dim p : apps_at (empty_alloc dim) p = [].
Proof. unfold apps_at, sel_at. rewrite alloc_at_empty. destruct p; reflexivity. Qed.
Lemma keys_at_empty dim p : keys_at (empty_alloc dim) p = [].
Proof. unfold keys_at, sel_at. rewrite alloc_at_empty. destruct p; reflexivity. Qed.

Lemma alloc_update_cons dim al k r f :
  alloc_update dim al (k :: r) f =
  Alloc (al_reserved al) (al_rank al) (al_adj al) (al_traits al) (al_maxutil al) (al_apps al)
        (aset k (alloc_update dim (match aget k (al_subs al) with Some s => s | None => empty_alloc dim end) r f)
              (al_subs al)).
Proof. destruct al; reflexivity. Qed.

Lemma alloc_at_update_same dim f : forall p al,
  alloc_at (alloc_update dim al p f) p = Some (f (at_or_empty dim al p)).
Proof.
  induction p as [|k r IH]; intros al; [reflexivity|].
  rewrite alloc_update_cons, alloc_at_cons. cbn [al_subs]. rewrite aget_aset_same, IH.
  unfold at_or_empty. rewrite alloc_at_cons. destruct (aget k (al_subs al)) as [s|]; [reflexivity|].
  rewrite alloc_at_empty. destruct r; reflexivity.
Qed.

Lemma al_apps_at_or_empty dim al p : al_apps (at_or_empty dim al p) = apps_at al p.
Proof. unfold at_or_empty, apps_at, sel_at. destruct (alloc_at al p); reflexivity. Qed.

Lemma apps_at_update_same dim f p al : apps_at (alloc_update dim al p f) p = al_apps (f (at_or_empty dim al p)).
Proof. unfold apps_at, sel_at. rewrite alloc_at_update_same. reflexivity. Qed.

Lemma apps_at_update_other dim f : sp f -> forall p al p', p' <> p ->
  apps_at (alloc_update dim al p f) p' = apps_at al p'.
Proof.
  intros Hf. induction p as [|k r IH]; intros al p' Hne.
  - destruct p' as [|k' r']; [congruence|]. unfold apps_at, sel_at. cbn [alloc_update].
    rewrite !alloc_at_cons, Hf. reflexivity.
  - rewrite alloc_update_cons. destruct p' as [|k' r']; [reflexivity|].
    unfold apps_at, sel_at. rewrite !alloc_at_cons. cbn [al_subs].
    destruct (Z.eq_dec k' k) as [->|Hk].
    + rewrite aget_aset_same. assert (Hr : r' <> r) by congruence.
      specialize (IH (match aget k (al_subs al) with Some s => s | None => empty_alloc dim end) r' Hr).
      unfold apps_at, sel_at in IH. rewrite IH.
      destruct (aget k (al_subs al)) as [s|]; [reflexivity|]. rewrite alloc_at_empty. destruct r'; reflexivity.
    + rewrite aget_aset_other by exact Hk. reflexivity.
Qed.

Lemma keys_at_update dim f : sp f -> forall p al,
  (forall q, NoDup (keys_at al q)) -> forall q, NoDup (keys_at (alloc_update dim al p f) q).
Proof.
  intros Hf. induction p as [|k r IH]; intros al H q.
  - cbn [alloc_update]. destruct q as [|k' r'].
    + unfold keys_at, sel_at. cbn [alloc_at]. rewrite Hf. exact (H []).
    + specialize (H (k' :: r')). unfold keys_at, sel_at in *. rewrite alloc_at_cons in *. rewrite Hf. exact H.
  - rewrite alloc_update_cons. destruct q as [|k' r'].
    + unfold keys_at, sel_at. cbn [alloc_at al_subs]. apply aset_keys_NoDup. exact (H []).
    + unfold keys_at, sel_at. rewrite alloc_at_cons. cbn [al_subs]. destruct (Z.eq_dec k' k) as [->|Hk].
      * rewrite aget_aset_same.
        apply (IH (match aget k (al_subs al) with Some s => s | None => empty_alloc dim end)). intros q'.
        destruct (aget k (al_subs al)) as [s|] eqn:E.
        -- specialize (H (k :: q')). unfold keys_at, sel_at in *. rewrite alloc_at_cons, E in H. exact H.
        -- rewrite keys_at_empty. constructor.
      * rewrite aget_aset_other by exact Hk. specialize (H (k' :: r')). unfold keys_at, sel_at in H.
        rewrite alloc_at_cons in H. exact H.
Qed.

(** the three update functions *)
Lemma sp_add n : sp (alloc_add_app n).
Proof. intros [res rank adj traits maxu names subs]. cbn. destruct (zmem n names); reflexivity. Qed.
Lemma sp_del n : sp (alloc_del_app n).
Proof. intros [res rank adj traits maxu names subs]. reflexivity. Qed.
Lemma al_apps_add n s : al_apps (alloc_add_app n s) = zadd_set n (al_apps s).
Proof. destruct s as [res rank adj traits maxu names subs]. cbn. unfold zadd_set. destruct (zmem n names); reflexivity. Qed.
Lemma al_apps_del n s : al_apps (alloc_del_app n s) = zremove n (al_apps s).
Proof. destruct s as [res rank adj traits maxu names subs]. reflexivity. Qed.

(** ** [upd_alloc] on the cell *)
Lemma aset_aset {A} k (v w : A) m : aset k v (aset k w m) = aset k v m.
Proof.
  induction m as [|[k' u] r IH]; cbn; [rewrite Z.eqb_refl; reflexivity|].
  destruct (Z.eqb k' k) eqn:E; cbn; rewrite E; [reflexivity|rewrite IH; reflexivity].
Qed.

Definition top0 (c : cell) (l : Z) : alloc :=
  match aget l (c_parts c) with Some t => t | None => empty_alloc (c_dim c) end.

Lemma parts_upd_alloc c l p f :
  c_parts (upd_alloc c l p f) = aset l (alloc_update (c_dim c) (top0 c l) p f) (c_parts c).
Proof.
  unfold upd_alloc, ensure_part, top0. destruct (aget l (c_parts c)) as [top|] eqn:E; cbn [c_parts set].
  - rewrite E. reflexivity.
  - rewrite aget_aset_same, aset_aset. reflexivity.
Qed.
Lemma apps_upd_alloc c l p f : c_apps (upd_alloc c l p f) = c_apps c.
Proof. unfold upd_alloc, ensure_part. destruct (aget l (c_parts c)); reflexivity. Qed.
Lemma dim_upd_alloc c l p f : c_dim (upd_alloc c l p f) = c_dim c.
Proof. unfold upd_alloc, ensure_part. destruct (aget l (c_parts c)); reflexivity. Qed.

Lemma listed_top0 c l p : listed c l p = apps_at (top0 c l) p.
Proof. unfold listed, listed_in, top0. destruct (aget l (c_parts c)); [reflexivity|rewrite apps_at_empty; reflexivity]. Qed.

Lemma listed_upd_same c l p f g : (forall s, al_apps (f s) = g (al_apps s)) ->
  listed (upd_alloc c l p f) l p = g (listed c l p).
Proof.
  intros Hg. rewrite (listed_top0 c). unfold listed, listed_in.
  rewrite parts_upd_alloc, aget_aset_same, apps_at_update_same, Hg, al_apps_at_or_empty. reflexivity.
Qed.
Lemma listed_upd_other c l p f l' p' : sp f -> (l', p') <> (l, p) ->
  listed (upd_alloc c l p f) l' p' = listed c l' p'.
Proof.
  intros Hf Hne. rewrite (listed_top0 c). unfold listed, listed_in. rewrite parts_upd_alloc.
  destruct (Z.eq_dec l' l) as [->|Hl].
  - rewrite aget_aset_same, apps_at_update_other; [reflexivity|exact Hf|congruence].
  - rewrite aget_aset_other by exact Hl. unfold top0. destruct (aget l' (c_parts c)); [reflexivity|].
    rewrite apps_at_empty. reflexivity.
Qed.

Lemma subkeys_upd c l p f : sp f -> (forall l' q, NoDup (subkeys_in (c_parts c) l' q)) ->
  forall l' q, NoDup (subkeys_in (c_parts (upd_alloc c l p f)) l' q).
Proof.
  intros Hf H l' q. unfold subkeys_in. rewrite parts_upd_alloc. destruct (Z.eq_dec l' l) as [->|Hl].
  - rewrite aget_aset_same. apply keys_at_update; [exact Hf|]. intros q'. specialize (H l q').
    unfold subkeys_in, top0 in *. destruct (aget l (c_parts c)); [exact H|]. rewrite keys_at_empty. constructor.
  - rewrite aget_aset_other by exact Hl. exact (H l' q).
Qed.
Lemma labels_upd c l p f : NoDup (map fst (c_parts c)) -> NoDup (map fst (c_parts (upd_alloc c l p f))).
Proof. intros H. rewrite parts_upd_alloc. apply aset_keys_NoDup. exact H. Qed.

Definition pos_eq_dec (a b : Z * list Z) : {a = b} + {a <> b}.
Proof. decide equality; [apply (list_eq_dec Z.eq_dec)|apply Z.eq_dec]. Defined.

(** ** the events that touch the trees *)

(** a name is queued only at the position its record names *)
Lemma owner_pos c n a l0 p0 l p : AllocWf c -> app_of c n = Some a -> a_alloc a = Some (l0, p0) ->
  In n (listed c l p) -> (l, p) = (l0, p0).
Proof.
  intros W Ha Hal Hin. destruct (aw_owner c W l p n Hin) as (a' & Ha' & Hal'). congruence.
Qed.

(** leaving the queue of one's allocation *)
Lemma listed_del c n a l0 p0 : AllocWf c -> app_of c n = Some a -> a_alloc a = Some (l0, p0) ->
  forall l p, NoDup (listed (upd_alloc c l0 p0 (alloc_del_app n)) l p) /\
              forall x, In x (listed (upd_alloc c l0 p0 (alloc_del_app n)) l p) <-> x <> n /\ In x (listed c l p).
Proof.
  intros W Ha Hal l p. destruct (pos_eq_dec (l, p) (l0, p0)) as [E|E].
  - inversion E; subst l p. rewrite (listed_upd_same c l0 p0 _ (zremove n) (al_apps_del n)).
    split; [apply zremove_NoDup, (aw_nodup c W)|]. intros x. apply zremove_In_iff, (aw_nodup c W).
  - rewrite (listed_upd_other c l0 p0 _ l p (sp_del n) E). split; [apply (aw_nodup c W)|].
    intros x. split; [|tauto]. intros Hin. split; [|exact Hin]. intros ->. apply E. eapply owner_pos; eassumption.
Qed.

(** joining a queue *)
Lemma listed_add c n l1 p1 : (forall l p, NoDup (listed c l p)) ->
  forall l p, NoDup (listed (upd_alloc c l1 p1 (alloc_add_app n)) l p) /\
              forall x, In x (listed (upd_alloc c l1 p1 (alloc_add_app n)) l p) <->
                        ((l, p) = (l1, p1) /\ x = n) \/ In x (listed c l p).
Proof.
  intros Hnd l p. destruct (pos_eq_dec (l, p) (l1, p1)) as [E|E].
  - inversion E; subst l p. rewrite (listed_upd_same c l1 p1 _ (zadd_set n) (al_apps_add n)).
    split; [apply zadd_set_NoDup, Hnd|]. intros x. rewrite zadd_set_In. tauto.
  - rewrite (listed_upd_other c l1 p1 _ l p (sp_add n) E). split; [apply Hnd|]. intros x. tauto.
Qed.

(** Cell.add_app of a new instance *)
Lemma AllocWf_add_new c label path a : AllocWf c -> app_of c (a_name a) = None ->
  AllocWf ((upd_alloc c label path (alloc_add_app (a_name a)))
             <| c_apps ::= (fun l => l ++ [a <| a_alloc := Some (label, path) |>]) |>).
Proof.
  intros W Hnew. set (n := a_name a) in *. set (a' := a <| a_alloc := Some (label, path) |>).
  set (c1 := upd_alloc c label path (alloc_add_app n)).
  pose proof (listed_add c n label path (aw_nodup c W)) as Hl. fold c1 in Hl.
  assert (Happs : c_apps c1 = c_apps c) by apply apps_upd_alloc.
  assert (Hget : forall x b, get_app x (c_apps c ++ [a']) = Some b ->
                             get_app x (c_apps c) = Some b \/ (x = n /\ b = a')).
  { intros x b Hb. rewrite get_app_snoc in Hb. destruct (get_app x (c_apps c)); [left; exact Hb|].
    change (a_name a') with n in Hb. destruct (Z.eqb_spec n x); inversion Hb; subst. right; auto. }
  constructor; unfold listed, app_of; cbn [c_apps c_parts set]; fold (listed c1); rewrite ?Happs.
  - apply labels_upd, (aw_labels c W).
  - apply subkeys_upd; [apply sp_add|apply (aw_subkeys c W)].
  - intros l p. apply Hl.
  - intros l p x Hin. apply Hl in Hin. rewrite get_app_snoc. destruct Hin as [[E ->]|Hin].
    + unfold app_of in Hnew. rewrite Hnew. change (a_name a') with n. rewrite Z.eqb_refl. exists a'. split; [reflexivity|].
      rewrite E. reflexivity.
    + destruct (aw_owner c W l p x Hin) as (b & Hb & Hal). unfold app_of in Hb. rewrite Hb. exists b. auto.
  - intros x b Hb. destruct (Hget x b Hb) as [Hb'|[-> ->]].
    + destruct (aw_listed c W x b Hb') as (l & p & Hal & Hin). exists l, p. split; [exact Hal|]. apply Hl. right. exact Hin.
    + exists label, path. split; [reflexivity|]. apply Hl. left. auto.
  - apply NoDup_map_snoc; [apply (aw_names c W)|]. change (a_name a') with n. apply get_app_none_notin. exact Hnew.
Qed.

(** Cell.add_app of an existing instance: it moves from its allocation to (label, path) *)
Lemma AllocWf_add_old c label path n old l0 p0 : AllocWf c -> app_of c n = Some old -> a_alloc old = Some (l0, p0) ->
  AllocWf (c_upd_app n (fun x => x <| a_alloc := Some (label, path) |>)
             (upd_alloc (upd_alloc c l0 p0 (alloc_del_app n)) label path (alloc_add_app n))).
Proof.
  intros W Ho Hal.
  set (c1 := upd_alloc c l0 p0 (alloc_del_app n)). set (c2 := upd_alloc c1 label path (alloc_add_app n)).
  set (fa := fun x : app => x <| a_alloc := Some (label, path) |>).
  assert (Hfa : forall x, a_name (fa x) = a_name x) by reflexivity.
  pose proof (listed_del c n old l0 p0 W Ho Hal) as Hd. fold c1 in Hd.
  pose proof (listed_add c1 n label path (fun l p => proj1 (Hd l p))) as Hl. fold c2 in Hl.
  assert (Happs : c_apps c2 = c_apps c) by (unfold c2, c1; rewrite !apps_upd_alloc; reflexivity).
  assert (Hin2 : forall l p x, In x (listed c2 l p) <-> ((l, p) = (label, path) /\ x = n) \/ (x <> n /\ In x (listed c l p))).
  { intros l p x. rewrite (proj2 (Hl l p) x), (proj2 (Hd l p) x). tauto. }
  unfold app_of in Ho.
  constructor; unfold listed, app_of; cbn [c_upd_app c_apps c_parts set]; fold (listed c2); rewrite ?Happs.
  - apply labels_upd, labels_upd, (aw_labels c W).
  - apply subkeys_upd; [apply sp_add|]. apply subkeys_upd; [apply sp_del|apply (aw_subkeys c W)].
  - intros l p. apply Hl.
  - intros l p x Hin. apply Hin2 in Hin. destruct Hin as [[E ->]|[Hne Hin]].
    + rewrite (get_upd_app_same n fa _ old Hfa Ho). exists (fa old). split; [reflexivity|]. rewrite E. reflexivity.
    + rewrite get_upd_app_other by assumption. apply (aw_owner c W). exact Hin.
  - intros x b Hb. destruct (Z.eq_dec x n) as [->|Hne].
    + rewrite (get_upd_app_same n fa _ old Hfa Ho) in Hb. inversion Hb; subst b. exists label, path.
      split; [reflexivity|]. apply Hin2. left. auto.
    + rewrite get_upd_app_other in Hb by assumption. destruct (aw_listed c W x b Hb) as (l & p & Hal' & Hin).
      exists l, p. split; [exact Hal'|]. apply Hin2. right. auto.
  - rewrite upd_app_names by exact Hfa. apply (aw_names c W).
Qed.

(** Cell.remove_app: the instance leaves its queue and its record is dropped *)
Lemma AllocWf_del c n a l0 p0 : AllocWf c -> app_of c n = Some a -> a_alloc a = Some (l0, p0) ->
  AllocWf ((upd_alloc c l0 p0 (alloc_del_app n)) <| c_apps ::= del_app n |>).
Proof.
  intros W Ha Hal. set (c1 := upd_alloc c l0 p0 (alloc_del_app n)).
  pose proof (listed_del c n a l0 p0 W Ha Hal) as Hd. fold c1 in Hd.
  assert (Happs : c_apps c1 = c_apps c) by apply apps_upd_alloc.
  pose proof (aw_names c W) as Hnd.
  constructor; unfold listed, app_of; cbn [c_apps c_parts set]; fold (listed c1); rewrite ?Happs.
  - apply labels_upd, (aw_labels c W).
  - apply subkeys_upd; [apply sp_del|apply (aw_subkeys c W)].
  - intros l p. apply Hd.
  - intros l p x Hin. apply Hd in Hin. destruct Hin as [Hne Hin]. rewrite get_app_del by exact Hnd.
    destruct (Z.eqb_spec x n); [contradiction|]. apply (aw_owner c W). exact Hin.
  - intros x b Hb. rewrite get_app_del in Hb by exact Hnd. destruct (Z.eqb_spec x n) as [|Hne]; [discriminate|].
    destruct (aw_listed c W x b Hb) as (l & p & Hal' & Hin). exists l, p. split; [exact Hal'|]. apply Hd. auto.
  - apply del_app_names_NoDup. exact Hnd.
Qed.

(** Allocation.update of the attributes of an allocation (created on demand, like get_sub_alloc) *)
Lemma AllocWf_upd_attrs c l1 p1 f : sp f -> (forall s, al_apps (f s) = al_apps s) ->
  AllocWf c -> AllocWf (upd_alloc c l1 p1 f).
Proof.
  intros Hsp Hap W.
  assert (Hl : forall l p, listed (upd_alloc c l1 p1 f) l p = listed c l p).
  { intros l p. destruct (pos_eq_dec (l, p) (l1, p1)) as [E|E].
    - inversion E; subst. apply (listed_upd_same c l1 p1 f (fun x => x)). exact Hap.
    - apply listed_upd_other; assumption. }
  constructor; unfold app_of; rewrite ?apps_upd_alloc; try (intros l p; rewrite Hl).
  - apply labels_upd, (aw_labels c W).
  - apply subkeys_upd; [exact Hsp|apply (aw_subkeys c W)].
  - apply (aw_nodup c W).
  - apply (aw_owner c W).
  - intros x a Ha. destruct (aw_listed c W x a Ha) as (l & p & Hal & Hin). exists l, p. rewrite Hl. auto.
  - apply (aw_names c W).
Qed.

Lemma AllocWf_ensure_group c g : AllocWf c -> AllocWf (ensure_group c g).
Proof.
  unfold ensure_group. destruct g as [n|]; [|tauto]. destruct (aget n (c_groups c)); [tauto|].
  apply AllocWf_ext; reflexivity.
Qed.

Lemma AllocWf_add_app c label path a : AllocWf c -> AllocWf (add_app c label path a).
Proof.
  intros W. unfold add_app. destruct (get_app (a_name a) (c_apps c)) as [old|] eqn:Eo.
  - destruct (aw_listed c W _ old Eo) as (l0 & p0 & Hal & _). rewrite Hal.
    apply AllocWf_ensure_group. apply (AllocWf_add_old c label path (a_name a) old l0 p0 W Eo Hal).
  - apply AllocWf_ensure_group. apply AllocWf_add_new; assumption.
Qed.

Lemma adir_del_app n l : adir (del_app n l) = adel n (adir l).
Proof.
  unfold adir. induction l as [|x t IH]; cbn [del_app map adel]; [reflexivity|].
  destruct (Z.eqb (a_name x) n); [reflexivity|]. cbn [map]. rewrite IH. reflexivity.
Qed.

Lemma AllocWf_remove_app c n : AllocWf c -> AllocWf (remove_app c n).
Proof.
  intros W. unfold remove_app. destruct (get_app n (c_apps c)) as [a|] eqn:Ea; [|exact W].
  destruct (aw_listed c W n a Ea) as (l0 & p0 & Hal & _). rewrite Hal.
  set (c1 := match a_server a with
             | Some sn => if is_member c sn then srv_remove c sn n else c
             | None => c
             end).
  assert (Hps : psteps c c1).
  { subst c1. destruct (a_server a) as [sn|]; [|apply ps_refl]. destruct (is_member c sn); [apply srv_remove_ps|apply ps_refl]. }
  pose proof (AllocWf_psteps _ _ Hps W) as W1. destruct (psteps_adir _ _ Hps) as [Hd _].
  destruct (adir_back (c_apps c1) (c_apps c) n a (eq_sym Hd) Ea) as (a1 & Ea1 & E1).
  set (c2 := upd_alloc c1 l0 p0 (alloc_del_app n)).
  apply (AllocWf_ext (c2 <| c_apps ::= del_app n |>)).
  - cbn [c_apps set]. rewrite !adir_del_app. rewrite (proj1 (release_adir c2 n)). reflexivity.
  - cbn [c_parts set]. apply release_adir.
  - apply (AllocWf_del c1 n a1 l0 p0 W1 Ea1). congruence.
Qed.

(** ** every event preserves the invariant *)

(** The side condition on events.  NONE is needed:
    - OAddApp label path a, new name: the record's own [a_alloc] is overwritten with (label, path) and the name is
      appended to that queue (the allocations along the path are created on demand); the name cannot be queued
      anywhere yet because queued names are live ([aw_owner]);
    - OAddApp label path a, existing name: the record's current allocation is the one whose queue holds the name
      ([aw_listed]), so leaving it and joining (label, path) keeps both directions; every live record has an
      allocation, so the [None] branch of [add_app] is dead;
    - ORemoveApp: the record's allocation is the one whose queue holds the name, and the record goes away with it;
    - OUpdateAlloc changes attributes only; the server, group and clock events and the scheduling cycle touch
      neither the trees nor any record's (name, allocation).
    The definition is kept (as [True]) so that the statements have the same shape as [Acct_step] / [IdentG_step]. *)
Definition wf_op_alloc (c : cell) (o : op) : Prop := True.

Lemma AllocWf_force_identity c an i : AllocWf c -> AllocWf (force_identity c an i).
Proof.
  unfold force_identity. destruct i as [i|]; [|tauto]. destruct (get_app an (c_apps c)) as [a|]; [|tauto].
  destruct (group_of c a) as [[g grp]|]; [|tauto].
  intros H. apply AllocWf_upd_app; [intros x; split; reflexivity|]. revert H. apply AllocWf_ext; reflexivity.
Qed.

Theorem AllocWf_step_any c o : AllocWf c -> AllocWf (step c o).
Proof.
  intros H. destruct o; cbn [step].
  - unfold add_bucket. eapply AllocWf_same_core; [apply attach_common_sc|]. revert H. apply AllocWf_ext; reflexivity.
  - unfold add_server, new_server. cbn [s_parent]. eapply AllocWf_same_core; [apply attach_common_sc|].
    revert H. apply AllocWf_ext; reflexivity.
  - (* ORemoveServer *)
    assert (H0 : AllocWf (if raw then c else srv_remove_all c name)).
    { destruct raw; [exact H|]. unfold srv_remove_all. destruct (get_srv name (c_servers c)) as [s|]; [|exact H].
      eapply AllocWf_psteps; [|exact H]. apply fold_ps. intros c0 x. apply srv_remove_ps. }
    set (c0 := if raw then c else srv_remove_all c name) in *.
    unfold detach_server. destruct (get_srv name (c_servers c0)) as [s|]; [|exact H0].
    assert (H1 : AllocWf (c0 <| c_servers ::= del_srv name |>)) by (revert H0; apply AllocWf_ext; reflexivity).
    destruct (s_parent s) as [p|]; [|exact H1].
    eapply AllocWf_same_core; [apply unhook_server_sc|exact H1].
  - (* OMoveServer *)
    unfold move_server. destruct (get_srv name (c_servers c)) as [s|]; [|exact H].
    eapply AllocWf_same_core; [apply attach_common_sc|].
    match goal with |- AllocWf (c_upd_srv _ _ ?c0) => apply (AllocWf_ext c0); [reflexivity|reflexivity|] end.
    destruct (s_parent s) as [p0|]; [eapply AllocWf_same_core; [apply unhook_server_sc|exact H]|exact H].
  - (* OSetState *)
    unfold srv_set_state. destruct (get_srv name (c_servers c)) as [s|]; [|exact H].
    destruct (sstate_eqb (s_state s) st); [exact H|].
    assert (H1 : AllocWf (c_upd_srv name (fun x => x <| s_state := st |> <| s_since := since |>) c))
      by (revert H; apply AllocWf_ext; reflexivity).
    destruct st; (eapply AllocWf_same_core; [|exact H1]);
      [apply adjust_up_from_sc|apply adjust_down_from_sc|apply adjust_down_from_sc].
  - revert H; apply AllocWf_ext; reflexivity.
  - apply AllocWf_add_app. exact H.
  - apply AllocWf_remove_app. exact H.
  - apply AllocWf_upd_app; [intros x; split; reflexivity|exact H].
  - apply AllocWf_upd_app; [intros x; split; reflexivity|exact H].
  - apply AllocWf_upd_app; [intros x; split; reflexivity|exact H].
  - apply AllocWf_upd_app; [intros x; split; reflexivity|exact H].
  - apply AllocWf_upd_app; [intros x; split; reflexivity|exact H].
  - (* OUpdateAlloc *)
    apply AllocWf_upd_attrs; [intros [? ? ? ? ? ? ?]; reflexivity|intros [? ? ? ? ? ? ?]; reflexivity|exact H].
  - revert H. unfold config_group. destruct (aget name (c_groups c)); apply AllocWf_ext; reflexivity.
  - revert H. unfold remove_group. destruct (aget name (c_groups c)); [|tauto].
    destruct (existsb _ (c_apps c)); apply AllocWf_ext; reflexivity.
  - revert H; apply AllocWf_ext; reflexivity.
  - pose proof (schedule_ps c choices) as Hps. destruct (schedule c choices) as [[c' qs] pl]. cbn [fst] in Hps.
    eapply AllocWf_psteps; eassumption.
  - (* ORestore *)
    unfold restore_op. destruct (get_app aname (c_apps c)) as [a|]; [|exact H].
    pose proof (AllocWf_psteps _ _ (restore_put_ps c sname aname verbatim expires) H) as H1.
    destruct (restore_put c sname aname verbatim expires) as [c1 ok]. cbn [fst] in H1.
    destruct ok; [apply AllocWf_force_identity; exact H1|]. destruct (a_once a); [apply AllocWf_remove_app|]; exact H1.
Qed.

Lemma AllocWf_step c o : AllocWf c -> wf_op_alloc c o -> AllocWf (step c o).
Proof. intros H _. apply AllocWf_step_any. exact H. Qed.

Fixpoint wf_ops_alloc (c : cell) (ops : list op) : Prop :=
  match ops with [] => True | o :: r => wf_op_alloc c o /\ wf_ops_alloc (step c o) r end.

Theorem AllocWf_run : forall ops c, wf_ops_alloc c ops -> AllocWf c -> AllocWf (run c ops).
Proof.
  induction ops as [|o r IH]; intros c Hwf H; cbn [run fold_left]; [exact H|]. destruct Hwf as [H1 H2].
  apply (IH (step c o)); [exact H2|apply AllocWf_step; assumption].
Qed.
(** the same without the (trivial) premise *)
Theorem AllocWf_run_any : forall ops c, AllocWf c -> AllocWf (run c ops).
Proof.
  induction ops as [|o r IH]; intros c H; cbn [run fold_left]; [exact H|]. apply (IH (step c o)), AllocWf_step_any, H.
Qed.

Lemma AllocWf_init dim root level : AllocWf (init_cell dim root level).
Proof.
  constructor; unfold listed, listed_in, subkeys_in, app_of; cbn; try (constructor; fail); intros; try contradiction; discriminate.
Qed.

(** ** consequences: the flattened trees *)
Lemma NoDup_app_intro {A} (l1 l2 : list A) :
  NoDup l1 -> NoDup l2 -> (forall x, In x l1 -> In x l2 -> False) -> NoDup (l1 ++ l2).
Proof.
  induction 1 as [|y t Hn Hd IH]; intros H2 Hdis; cbn [List.app]; [exact H2|]. constructor.
  - intros Hin. apply in_app_or in Hin as [Hin|Hin]; [contradiction|]. apply (Hdis y); [left; reflexivity|exact Hin].
  - apply IH; [exact H2|]. intros x Hx. apply Hdis. right. exact Hx.
Qed.

(** flattening a dict whose values have pairwise disjoint duplicate-free contents *)
Lemma NoDup_flat_keys {A} (g : A -> list Z) (m : list (Z * A)) :
  NoDup (map fst m) -> (forall q, In q m -> NoDup (g (snd q))) ->
  (forall q q' x, In q m -> In q' m -> In x (g (snd q)) -> In x (g (snd q')) -> fst q = fst q') ->
  NoDup (flat_map (fun q => g (snd q)) m).
Proof.
  induction m as [|q r IH]; intros Hk Hn Hx; cbn [flat_map]; [constructor|].
  cbn [map] in Hk. inversion Hk as [|? ? Hni Hkr]; subst.
  apply NoDup_app_intro.
  - apply Hn. left; reflexivity.
  - apply IH; [exact Hkr|intros q0 H0; apply Hn; right; exact H0|intros q1 q2 x H1 H2; apply Hx; right; assumption].
  - intros x H1 H2. apply in_flat_map in H2 as (q' & Hq' & Hin'). apply Hni.
    rewrite (Hx q q' x); [apply in_map; exact Hq'|left; reflexivity|right; exact Hq'|exact H1|exact Hin'].
Qed.

Lemma aget_In {A} k (v : A) m : aget k m = Some v -> In (k, v) m.
Proof.
  induction m as [|[k' w] r IH]; cbn; [discriminate|]. destruct (Z.eqb_spec k' k) as [->|Hne].
  - intros H; inversion H; subst. left; reflexivity.
  - intros H. right. apply IH. exact H.
Qed.

Lemma all_apps_flat al : all_apps al = al_apps al ++ flat_map (fun q => all_apps (snd q)) (al_subs al).
Proof.
  destruct al as [res rank adj traits maxu names subs]. cbn [all_apps al_apps al_subs]. f_equal.
  induction subs as [|[k s] r IH]; [reflexivity|]. cbn [flat_map snd]. rewrite <- IH. reflexivity.
Qed.

Lemma occ_all_apps : forall p al x, In x (apps_at al p) -> In x (all_apps al).
Proof.
  induction p as [|k r IH]; intros al x Hin; rewrite all_apps_flat; apply in_or_app.
  - left. exact Hin.
  - right. unfold apps_at, sel_at in Hin. rewrite alloc_at_cons in Hin.
    destruct (aget k (al_subs al)) as [s|] eqn:E; [|destruct Hin].
    apply in_flat_map. exists (k, s). split; [apply aget_In; exact E|]. apply IH. exact Hin.
Qed.

Lemma sub_at al k s r : aget k (al_subs al) = Some s ->
  apps_at al (k :: r) = apps_at s r /\ keys_at al (k :: r) = keys_at s r.
Proof. intros E. unfold apps_at, keys_at, sel_at. rewrite alloc_at_cons, E. auto. Qed.

Lemma all_apps_occ : forall al, (forall q, NoDup (keys_at al q)) ->
  forall x, In x (all_apps al) -> exists p, In x (apps_at al p).
Proof.
  induction al as [res rank adj traits maxu names subs IH] using alloc_rect'. intros Hk x Hin.
  set (al := Alloc res rank adj traits maxu names subs) in *.
  rewrite all_apps_flat in Hin. apply in_app_or in Hin as [Hin|Hin]; [exists []; exact Hin|].
  apply in_flat_map in Hin as ([k s] & Hq & Hin). cbn [snd] in Hin.
  assert (Hget : aget k (al_subs al) = Some s) by (apply (aget_nodup subs (Hk []) (k, s) Hq)).
  rewrite Forall_forall in IH. pose proof (IH (k, s) Hq) as IHs. cbn [snd] in IHs.
  destruct IHs with (x := x) as (r & Hr).
  - intros q. rewrite <- (proj2 (sub_at al k s q Hget)). apply Hk.
  - exact Hin.
  - exists (k :: r). rewrite (proj1 (sub_at al k s r Hget)). exact Hr.
Qed.

Lemma all_apps_NoDup : forall al,
  (forall q, NoDup (keys_at al q)) -> (forall q, NoDup (apps_at al q)) ->
  (forall q q' x, In x (apps_at al q) -> In x (apps_at al q') -> q = q') -> NoDup (all_apps al).
Proof.
  induction al as [res rank adj traits maxu names subs IH] using alloc_rect'. intros Hk Hn Hu.
  set (al := Alloc res rank adj traits maxu names subs) in *.
  assert (Hget : forall k s, In (k, s) subs -> aget k (al_subs al) = Some s)
    by (intros k s Hq; apply (aget_nodup subs (Hk []) (k, s) Hq)).
  assert (Hks : forall k s, In (k, s) subs -> forall q, NoDup (keys_at s q)).
  { intros k s Hq q. rewrite <- (proj2 (sub_at al k s q (Hget k s Hq))). apply Hk. }
  rewrite all_apps_flat. apply NoDup_app_intro.
  - exact (Hn []).
  - apply NoDup_flat_keys.
    + exact (Hk []).
    + intros [k s] Hq. cbn [snd]. rewrite Forall_forall in IH. pose proof (IH (k, s) Hq) as IHs. cbn [snd] in IHs.
      apply IHs.
      * eapply Hks; exact Hq.
      * intros q. rewrite <- (proj1 (sub_at al k s q (Hget k s Hq))). apply Hn.
      * intros q q' x H1 H2. rewrite <- (proj1 (sub_at al k s q (Hget k s Hq))) in H1.
        rewrite <- (proj1 (sub_at al k s q' (Hget k s Hq))) in H2.
        specialize (Hu _ _ _ H1 H2). congruence.
    + intros [k s] [k' s'] x Hq Hq' H1 H2. cbn [fst snd] in *.
      apply all_apps_occ in H1 as (r & H1); [|eapply Hks; exact Hq].
      apply all_apps_occ in H2 as (r' & H2); [|eapply Hks; exact Hq'].
      rewrite <- (proj1 (sub_at al k s _ (Hget k s Hq))) in H1.
      rewrite <- (proj1 (sub_at al k' s' _ (Hget k' s' Hq'))) in H2.
      specialize (Hu _ _ _ H1 H2). congruence.
  - intros x H1 H2. apply in_flat_map in H2 as ([k s] & Hq & H2). cbn [snd] in H2.
    apply all_apps_occ in H2 as (r & H2); [|eapply Hks; exact Hq].
    rewrite <- (proj1 (sub_at al k s _ (Hget k s Hq))) in H2.
    specialize (Hu [] (k :: r) x H1 H2). discriminate.
Qed.

(** the premise of the cycle-level theorems of CycleP.v *)
Theorem AllocWf_parts_wf c : AllocWf c -> parts_wf c.
Proof.
  intros W. split; [apply (aw_labels c W)|]. unfold part_apps.
  assert (Hget : forall l top, In (l, top) (c_parts c) -> aget l (c_parts c) = Some top)
    by (intros l top Hq; apply (aget_nodup _ (aw_labels c W) (l, top) Hq)).
  assert (Hlst : forall l top p, In (l, top) (c_parts c) -> listed c l p = apps_at top p)
    by (intros l top p Hq; unfold listed, listed_in; rewrite (Hget _ _ Hq); reflexivity).
  assert (Hkeys : forall l top, In (l, top) (c_parts c) -> forall q, NoDup (keys_at top q)).
  { intros l top Hq q. pose proof (aw_subkeys c W l q) as K. unfold subkeys_in in K. rewrite (Hget _ _ Hq) in K. exact K. }
  assert (Hown : forall l p l' p' x, In x (listed c l p) -> In x (listed c l' p') -> (l, p) = (l', p')).
  { intros l p l' p' x H1 H2. destruct (aw_owner c W _ _ _ H1) as (a1 & Ha1 & E1).
    destruct (aw_owner c W _ _ _ H2) as (a2 & Ha2 & E2). congruence. }
  apply NoDup_flat_keys.
  - apply (aw_labels c W).
  - intros [l top] Hq. cbn [snd]. apply all_apps_NoDup.
    + eapply Hkeys; exact Hq.
    + intros q. rewrite <- (Hlst l top q Hq). apply (aw_nodup c W).
    + intros q q' x H1 H2. rewrite <- (Hlst l top q Hq) in H1. rewrite <- (Hlst l top q' Hq) in H2. pose proof (Hown _ _ _ _ _ H1 H2). congruence.
  - intros [l top] [l' top'] x Hq Hq' H1 H2. cbn [fst snd] in *.
    apply all_apps_occ in H1 as (p & H1); [|eapply Hkeys; exact Hq].
    apply all_apps_occ in H2 as (p' & H2); [|eapply Hkeys; exact Hq'].
    rewrite <- (Hlst l top _ Hq) in H1. rewrite <- (Hlst l' top' _ Hq') in H2.
    pose proof (Hown _ _ _ _ _ H1 H2). congruence.
Qed.

(** every live instance is queued in some partition's tree *)
Theorem AllocWf_listed c : AllocWf c -> forall x a, app_of c x = Some a -> In x (part_apps (c_parts c)).
Proof.
  intros W x a Ha. destruct (aw_listed c W x a Ha) as (l & p & _ & Hin).
  unfold listed, listed_in in Hin. destruct (aget l (c_parts c)) as [top|] eqn:E; [|destruct Hin].
  unfold part_apps. apply in_flat_map. exists (l, top). split; [apply aget_In; exact E|].
  cbn [snd]. eapply occ_all_apps. exact Hin.
Qed.
(** and conversely every queued name is a live instance *)
Theorem AllocWf_queued_live c : AllocWf c -> forall x, In x (part_apps (c_parts c)) -> exists a, app_of c x = Some a.
Proof.
  intros W x Hin. unfold part_apps in Hin. apply in_flat_map in Hin as ([l top] & Hq & Hin). cbn [snd] in Hin.
  pose proof (aget_nodup _ (aw_labels c W) (l, top) Hq) as Hget. cbn [fst snd] in Hget.
  apply all_apps_occ in Hin as (p & Hin).
  - destruct (aw_owner c W l p x) as (a & Ha & _); [|exists a; exact Ha].
    unfold listed, listed_in. rewrite Hget. exact Hin.
  - intros q. pose proof (aw_subkeys c W l q) as K. unfold subkeys_in in K. rewrite Hget in K. exact K.
Qed.

(** ** non-vacuity: a concrete history *)
Module Example.
  Definition inst (n : Z) : app :=
    mkApp n 1 [1] 7 [] 0 0 None None false n None None None None false false false false 0.

  (** two partitions (1, 2), nested sub-allocations 1/[10;11], 1/[10], 2/[20;21]; instance 100 moves from 1/[10;11]
      to 2/[20;21], instance 103 is re-added where it already is, instance 101 is removed, a cycle runs, and 103 moves
      to a top allocation *)
  Definition ops : list op :=
    [ OAddApp 1 [10; 11] (inst 100);
      OAddApp 1 [10] (inst 101);
      OAddApp 2 [] (inst 102);
      OUpdateAlloc 2 [20] [5] 50 0 None 0;
      OAddApp 2 [20; 21] (inst 103);
      OAddApp 2 [20; 21] (inst 100);
      OAddApp 2 [20; 21] (inst 103);
      ORemoveApp 101;
      OSchedule [];
      OAddApp 1 [] (inst 103) ].
  Definition c0 : cell := init_cell 1 0 0.

  Example ops_wf : wf_ops_alloc c0 ops.
  Proof. cbn [wf_ops_alloc ops]. unfold wf_op_alloc. repeat split. Qed.

  Example final_wf : AllocWf (run c0 ops).
  Proof. apply AllocWf_run; [exact ops_wf|apply AllocWf_init]. Qed.

  (** what the final state looks like: the flattened trees and the (name, allocation) directory *)
  Example final_parts : part_apps (c_parts (run c0 ops)) = [103; 102; 100].
  Proof. vm_compute. reflexivity. Qed.
  Example final_dir : adir (c_apps (run c0 ops)) =
    [(100, Some (2, [20; 21])); (102, Some (2, [])); (103, Some (1, []))].
  Proof. vm_compute. reflexivity. Qed.
  Example final_queues :
    listed (run c0 ops) 1 [] = [103] /\ listed (run c0 ops) 1 [10; 11] = [] /\ listed (run c0 ops) 1 [10] = [] /\
    listed (run c0 ops) 2 [] = [102] /\ listed (run c0 ops) 2 [20; 21] = [100] /\
    subkeys_in (c_parts (run c0 ops)) 1 [] = [10] /\ subkeys_in (c_parts (run c0 ops)) 2 [20] = [21].
  Proof. vm_compute. repeat split. Qed.
  (** mid-history, before the removal: 100 has left 1/[10;11] and queues behind 103 in 2/[20;21] *)
  Example mid_queues :
    listed (run c0 (firstn 7 ops)) 2 [20; 21] = [100; 103] /\ listed (run c0 (firstn 7 ops)) 1 [10; 11] = [] /\
    listed (run c0 (firstn 7 ops)) 1 [10] = [101].
  Proof. vm_compute. repeat split. Qed.
End Example.

Print Assumptions AllocWf_init.
Print Assumptions AllocWf_step.
Print Assumptions AllocWf_run.
Print Assumptions AllocWf_parts_wf.
Print Assumptions AllocWf_listed.
Print Assumptions AllocWf_queued_live.
Print Assumptions Example.final_wf.
