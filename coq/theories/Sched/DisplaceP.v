(** C07 at the level of the placement loop: an instance running on an up server whose placement is still admissible
    for its allocation is displaced only if an instance strictly ahead of it in the queue gained a placement. *)
From Coq Require Import ZArith QArith List Bool Lia Relations Permutation.
From RecordUpdate Require Import RecordSet.
From TM Require Import Sched.Vec Sched.Types Sched.Queue Sched.Tree Sched.Cycle Sched.Steps Sched.MapsP Sched.FrameP
                       Sched.InvAcct Sched.InvAff Sched.InvIdent Sched.QueueP Sched.TurnP Sched.CycleP Sched.KeepP.
Import ListNotations.
Open Scope Z_scope.

(** ** instances whose turn has not come: as they were, or evicted and remembered *)
Definition waiting (c : cell) (st : loopst) (z : Z) : Prop :=
  forall az, app_of c z = Some az ->
    (app_of (l_cell st) z = Some az /\ aget z (l_evicted st) = None) \/
    (exists sn, a_server az = Some sn /\ app_of (l_cell st) z = Some (removed az) /\
                aget z (l_evicted st) = Some (sn, a_expiry az)).

Lemma waiting_step c rq st y z : Acct (l_cell st) -> z <> y -> waiting c st z -> waiting c (place_one rq st y) z.
Proof.
  intros HA Hne Hw az Haz.
  destruct (Hw az Haz) as [[Hcur Hev]|(sn & Hsv & Hcur & Hev)].
  - destruct (place_one_other rq st y z HA Hne) as [[H1 H2]|(_ & a0 & sn & s & Ha0 & Hsv0 & _ & _ & Hr1 & Hr2)].
    + left. split; [rewrite H1; exact Hcur|rewrite H2; exact Hev].
    + rewrite Hcur in Ha0. inversion Ha0; subst a0. right. exists sn. auto.
  - destruct (place_one_other rq st y z HA Hne) as [[H1 H2]|(_ & a0 & sn0 & s & Ha0 & Hsv0 & _)].
    + right. exists sn. split; [exact Hsv|]. split; [rewrite H1; exact Hcur|rewrite H2; exact Hev].
    + rewrite Hcur in Ha0. inversion Ha0; subst a0. cbn in Hsv0. discriminate.
Qed.

(** the loop over a stretch of the queue: whoever is neither done nor in the stretch is still waiting *)
Lemma waiting_fold c rq : forall l st (D : Z -> Prop),
  Acct c -> psteps c (l_cell st) -> (forall z, ~ D z -> waiting c st z) ->
  psteps c (l_cell (fold_left (place_one rq) l st)) /\
  forall z, ~ D z -> ~ In z l -> waiting c (fold_left (place_one rq) l st) z.
Proof.
  induction l as [|y r IH]; intros st D HA Hps Hw; cbn [fold_left]; [split; [exact Hps|intros z Hz _; exact (Hw z Hz)]|].
  assert (HA1 : Acct (l_cell st)) by (eapply Acct_psteps; eassumption).
  destruct (IH (place_one rq st y) (fun z => D z \/ z = y) HA) as [H1 H2].
  - eapply ps_trans; [exact Hps|apply place_one_ps].
  - intros z Hz. apply waiting_step; [exact HA1|intros E; apply Hz; right; exact E|]. apply Hw. intros Hd. apply Hz. left. exact Hd.
  - split; [exact H1|]. intros z Hz Hni. apply H2; [intros [Hd|E]; [exact (Hz Hd)|apply Hni; left; congruence]|].
    intros Hin. apply Hni. right. exact Hin.
Qed.

(** an instance whose turn is over is not touched by the turns of instances behind it *)
Lemma done_fold c q pre0 : forall l st z, NoDup q -> (exists mid, q = pre0 ++ mid ++ l) -> In z pre0 ->
  Acct c -> psteps c (l_cell st) ->
  app_of (l_cell (fold_left (place_one (rev q)) l st)) z = app_of (l_cell st) z.
Proof.
  induction l as [|y r IH]; intros st z Hnd (mid & Hq) Hz HA Hps; cbn [fold_left]; [reflexivity|].
  assert (HA1 : Acct (l_cell st)) by (eapply Acct_psteps; eassumption).
  assert (Hq' : q = (pre0 ++ mid) ++ y :: r) by (rewrite Hq, app_assoc; reflexivity).
  assert (Hbp : before_placer (rev q) y = rev r) by (rewrite Hq'; apply before_placer_rev; rewrite <- Hq'; exact Hnd).
  assert (Hzy : z <> y).
  { intros ->. rewrite Hq' in Hnd. apply NoDup_remove_2 in Hnd. apply Hnd. apply in_or_app. left. apply in_or_app. left. exact Hz. }
  assert (Hzr : ~ In z r).
  { intros Hin. rewrite Hq in Hnd. clear -Hnd Hz Hin. induction pre0 as [|p t IHt]; [destruct Hz|].
    cbn [List.app] in Hnd. inversion Hnd as [|? ? Hn Ht]; subst. destruct Hz as [->|Hz]; [|exact (IHt Ht Hz)].
    apply Hn. apply in_or_app. right. apply in_or_app. right. right. exact Hin. }
  rewrite (IH (place_one (rev q) st y) z Hnd); [|exists (mid ++ [y]); rewrite <- app_assoc; exact Hq|exact Hz|exact HA|eapply ps_trans; [exact Hps|apply place_one_ps]].
  destruct (place_one_other (rev q) st y z HA1 Hzy) as [[H _]|(Hbad & _)]; [exact H|].
  exfalso. rewrite Hbp in Hbad. apply in_rev in Hbad. exact (Hzr Hbad).
Qed.

(** ** vectors, sums over sub-lists *)
Definition vle (a b : vec) : Prop := Forall2 Z.le a b.
Lemma vle_any_gt : forall d f, vle d f -> any_gt d f = false.
Proof. induction 1 as [|x y d f Hxy _ IH]; cbn; [reflexivity|]. rewrite IH. destruct (Z.gtb_spec x y); [lia|reflexivity]. Qed.
Lemma vle_refl a : vle a a.
Proof. induction a; constructor; [lia|assumption]. Qed.
Lemma vle_vadd_nonneg : forall a b, length a = length b -> nonneg b -> vle a (vadd b a).
Proof.
  induction a as [|x a IH]; intros [|y b] Hl Hb; cbn in *; try discriminate; [constructor|].
  inversion Hb; subst. constructor; [lia|apply IH; [lia|assumption]].
Qed.
Lemma vle_vadd_mono : forall d a b, vle a b -> length d = length a -> vle (vadd d a) (vadd d b).
Proof.
  induction d as [|x d IH]; intros a b H Hl; inversion H; subst; cbn in *; try discriminate; constructor; [lia|].
  apply IH; [assumption|lia].
Qed.
Lemma vle_length a b : vle a b -> length a = length b.
Proof. induction 1; cbn; congruence. Qed.

(* f3 + t3 = f + t, d + t3 <= t, f >= 0  ==>  d <= f3 *)
Lemma room_back : forall (f3 t3 f t d : vec),
  vadd f3 t3 = vadd f t -> vle (vadd d t3) t -> nonneg f ->
  length f3 = length d -> length t3 = length d -> length f = length d -> length t = length d -> vle d f3.
Proof.
  induction f3 as [|a f3 IH]; intros [|b t3] [|e f] [|g t] [|h d] E L N H1 H2 H3 H4; cbn in *; try discriminate; [constructor|].
  inversion E. inversion L; subst. inversion N; subst.
  constructor; [lia|]. eapply IH; try eassumption; lia.
Qed.

Lemma total_incl apps dim : forall l1 l2,
  (forall n a, get_app n apps = Some a -> length (a_demand a) = dim /\ nonneg (a_demand a)) ->
  NoDup l1 -> NoDup l2 -> incl l1 l2 -> vle (total apps dim l1) (total apps dim l2).
Proof.
  intros l1 l2 Hd. assert (Hlen : forall n a, get_app n apps = Some a -> length (a_demand a) = dim) by (intros n a H; apply (Hd n a H)).
  assert (Hnn : forall l, nonneg (total apps dim l)).
  { induction l as [|m r IH]; cbn [total]; [unfold vzero; apply Forall_forall; intros z Hz; apply repeat_spec in Hz; lia|].
    apply nonneg_vadd; [|exact IH]. unfold demand_of. destruct (get_app m apps) as [a|] eqn:E; [apply (Hd m a E)|].
    unfold vzero. apply Forall_forall. intros z Hz. apply repeat_spec in Hz. lia. }
  revert l2. induction l1 as [|m r IH]; intros l2 Hn1 Hn2 Hi; cbn [total].
  - pose proof (total_length apps dim l2 Hlen) as Hl. pose proof (Hnn l2) as Hn. revert Hl Hn. generalize (total apps dim l2). clear.
    induction dim as [|d IHd]; intros [|y v] Hl Hn; cbn in *; try discriminate; constructor; [inversion Hn; lia|].
    apply IHd; [lia|inversion Hn; assumption].
  - inversion Hn1 as [|? ? Hni Hnr]; subst.
    assert (Hm : In m l2) by (apply Hi; left; reflexivity).
    rewrite (total_zremove apps dim m l2 Hlen Hm).
    apply vle_vadd_mono.
    + apply IH; [exact Hnr|apply zremove_NoDup; exact Hn2|].
      intros z Hz. apply zremove_keep; [intros ->; contradiction|apply Hi; right; exact Hz].
    + unfold demand_of. rewrite (total_length apps dim r Hlen). destruct (get_app m apps) as [a|] eqn:E; [apply (Hlen m a E)|apply repeat_length].
Qed.

Lemma filter_incl_length {A} (f : A -> bool) l1 l2 : NoDup l1 -> incl l1 l2 -> (length (filter f l1) <= length (filter f l2))%nat.
Proof.
  intros Hn Hi. apply NoDup_incl_length; [apply NoDup_filter; exact Hn|].
  intros z Hz. apply filter_In in Hz as [H1 H2]. apply filter_In. split; [apply Hi; exact H1|exact H2].
Qed.

(** ** the static part of every record survives every primitive transition *)
Lemma upd_app_fwd c n f z a : (forall x, a_name (f x) = a_name x) -> app_of c z = Some a ->
  app_of (c_upd_app n f c) z = Some (if Z.eq_dec z n then f a else a).
Proof.
  intros Hf Ha. destruct (Z.eq_dec z n) as [->|Hne]; [apply upd_app_self; assumption|].
  rewrite upd_app_other by assumption. exact Ha.
Qed.
Lemma pstep_stat c c' : pstep c c' -> forall z a, app_of c z = Some a -> exists a', app_of c' z = Some a' /\ stat_eq a a'.
Proof.
  intros Hs z a Ha. destruct Hs.
  - exists a. split; [rewrite (app_of_sc _ _ z H); exact Ha|apply stat_eq_refl].
  - unfold prim_put. eexists. split; [apply upd_app_fwd; [intros x; destruct (a_expiry x); reflexivity|]; exact Ha|].
    destruct (Z.eq_dec z aname); [|apply stat_eq_refl]. destruct (a_expiry a); repeat split.
  - unfold prim_remove. eexists. split; [apply upd_app_fwd; [reflexivity|]; exact Ha|].
    destruct (Z.eq_dec z aname); [repeat split|apply stat_eq_refl].
  - eexists. split; [apply upd_app_fwd; [intros x; apply (proj1 (H x))|exact Ha]|].
    destruct (Z.eq_dec z aname); [|apply stat_eq_refl].
    destruct (H a) as (F1 & F2 & F3 & F4 & F5 & F6 & F7 & F8 & F9 & F10 & F11 & F12 & F13 & F14 & F15). repeat split; assumption.
  - eexists. split; [apply upd_app_fwd; [reflexivity|exact Ha]|]. destruct (Z.eq_dec z aname); [repeat split|apply stat_eq_refl].
  - destruct (Z.eq_dec z aname) as [->|Hne].
    + destruct (release_self _ _ _ Ha) as (a' & Ha' & Hst & _). exists a'. auto.
    + exists a. split; [rewrite release_app by exact Hne; exact Ha|apply stat_eq_refl].
  - destruct (Z.eq_dec z aname) as [->|Hne].
    + destruct (acquire_self c aname ch a Ha) as [(_ & E & _)|(_ & a' & Ha' & Hst & _)].
      * exists a. split; [rewrite E; exact Ha|apply stat_eq_refl].
      * exists a'. auto.
    + exists a. split; [rewrite acquire_app by exact Hne; exact Ha|apply stat_eq_refl].
  - eexists. split; [apply upd_app_fwd; [reflexivity|exact Ha]|]. destruct (Z.eq_dec z aname); [repeat split|apply stat_eq_refl].
Qed.
Lemma psteps_stat c c' : psteps c c' -> forall z a, app_of c z = Some a -> exists a', app_of c' z = Some a' /\ stat_eq a a'.
Proof.
  induction 1 as [c c' Hs|c|c1 c2 c3 H1 IH1 H2 IH2]; intros z a Ha.
  - eapply pstep_stat; eassumption.
  - exists a. split; [exact Ha|apply stat_eq_refl].
  - destruct (IH1 z a Ha) as (a1 & Ha1 & S1). destruct (IH2 z a1 Ha1) as (a2 & Ha2 & S2).
    exists a2. split; [exact Ha2|eapply stat_eq_trans; eassumption].
Qed.
Lemma psteps_demand c c' z : psteps c c' -> demand_of (c_apps c') (c_dim c) z = demand_of (c_apps c) (c_dim c) z.
Proof.
  intros Hp. unfold demand_of. destruct (get_app z (c_apps c)) as [a|] eqn:Ea.
  - destruct (psteps_stat _ _ Hp z a Ea) as (a' & Ha' & (_ & _ & Hd & _)). unfold app_of in Ha'. rewrite Ha'. exact Hd.
  - pose proof (psteps_none _ _ z Hp Ea) as E. unfold app_of in E. rewrite E. reflexivity.
Qed.
Lemma psteps_has_aff c c' aff z : psteps c c' -> has_aff (c_apps c') aff z = has_aff (c_apps c) aff z.
Proof.
  intros Hp. unfold has_aff. destruct (get_app z (c_apps c)) as [a|] eqn:Ea.
  - destruct (psteps_stat _ _ Hp z a Ea) as (a' & Ha' & (_ & _ & _ & Hf & _)). unfold app_of in Ha'. rewrite Ha', Hf. reflexivity.
  - pose proof (psteps_none _ _ z Hp Ea) as E. unfold app_of in E. rewrite E. reflexivity.
Qed.

Lemma total_ext apps apps' dim l : (forall z, demand_of apps' dim z = demand_of apps dim z) -> total apps' dim l = total apps dim l.
Proof. intros H. induction l as [|m r IH]; cbn [total]; [reflexivity|]. rewrite H, IH. reflexivity. Qed.

(** ** the crux: if nobody new sits on the server, an instance that was on it can be restored onto it *)
Lemma restore_guard c c3 x a a3 n s s3 :
  Acct c -> Aff c -> psteps c c3 ->
  app_of c x = Some a -> a_server a = Some n -> get_srv n (c_servers c) = Some s ->
  (forall l, app_label a = Some l -> l = s_label s) ->
  (app_traits c a = 0 \/ has_traits (s_traits s) (app_traits c a) = true) ->
  app_of c3 x = Some a3 -> stat_eq a a3 -> a_server a3 = None ->
  get_srv n (c_servers c3) = Some s3 -> incl (s_apps s3) (s_apps s) ->
  put_guard c3 s3 a3 0 = true.
Proof.
  intros HA HF Hp Ha Hsv Hs Hlab Htr Ha3 Hst Hsv3 Hs3 Hincl.
  assert (HA3 : Acct c3) by (eapply Acct_psteps; eassumption).
  assert (HF3 : Aff c3) by (eapply Aff_psteps; eassumption).
  pose proof (psteps_static _ _ Hp) as (Hnow & Hparts & Hdim & Hsrv).
  destruct (Hsrv _ _ Hs3) as (s0 & Hs0 & (Sn & Sst & Slab & Str & Svu & Ssince & Scap)).
  rewrite Hs in Hs0. inversion Hs0; subst s0.
  pose proof (get_app_name _ _ _ Ha) as Hnx.
  pose proof Hst as (Enm & _ & Edem & Eaff & Elim & _ & _ & _ & _ & _ & _ & Eal & _).
  assert (Hnx3 : a_name a3 = x) by congruence.
  assert (Hni : ~ In x (s_apps s3)).
  { intros Hin. destruct (ac_listed _ HA3 _ _ _ Hs3 Hin) as (b & Hb & Hsb). unfold app_of in Ha3. rewrite Ha3 in Hb. inversion Hb; subst b. congruence. }
  assert (Hxs : In x (s_apps s)) by (eapply (ac_placed _ HA); eassumption).
  assert (Hnd : NoDup (x :: s_apps s3)) by (constructor; [exact Hni|exact (ac_nodup _ HA3 _ _ Hs3)]).
  assert (Hinc : incl (x :: s_apps s3) (s_apps s)) by (intros z [<-|Hz]; [exact Hxs|apply Hincl; exact Hz]).
  unfold put_guard. rewrite Hnx3, Hsv3.
  apply andb_true_intro. split; [apply andb_true_intro; split; [apply andb_true_intro; split|]|].
  - apply negb_true_iff. apply zmem_false. exact Hni.
  - reflexivity.
  - unfold check_lifetime. reflexivity.
  - unfold check_constraints.
    apply andb_true_intro. split; [apply andb_true_intro; split; [apply andb_true_intro; split|]|].
    + (* partition label *)
      assert (El : app_label a3 = app_label a) by (unfold app_label; rewrite Eal; reflexivity).
      rewrite El. destruct (app_label a) as [l|] eqn:E; [|reflexivity].
      rewrite (Hlab l eq_refl), Slab. cbn [zmem]. rewrite Z.eqb_refl. reflexivity.
    + (* traits *)
      rewrite (app_traits_static c c3 a a3 Hparts Hst), Str.
      destruct Htr as [E|E]; [rewrite E; reflexivity|rewrite E; apply orb_true_r].
    + (* affinity head-room at server level *)
      unfold aff_limit. rewrite Elim, Eaff. fold (aff_limit a LEVEL_SERVER).
      destruct (aff_limit a LEVEL_SERVER) as [L|] eqn:EL; [|reflexivity]. cbn [under_limit]. apply Z.ltb_lt.
      rewrite (af_exact _ HF3 _ _ (a_aff a) Hs3).
      assert (E3 : count_aff (c_apps c3) (a_aff a) (s_apps s3) = count_aff (c_apps c) (a_aff a) (s_apps s3)).
      { unfold count_aff. f_equal. f_equal. apply filter_ext. intros z. apply psteps_has_aff. exact Hp. }
      rewrite E3.
      pose proof (af_limit _ HF _ _ _ _ _ Hs Hxs Ha EL) as Hlim. rewrite (af_exact _ HF _ _ (a_aff a) Hs) in Hlim.
      pose proof (filter_incl_length (has_aff (c_apps c) (a_aff a)) _ _ Hnd Hinc) as Hlen.
      cbn [filter] in Hlen. assert (Hx1 : has_aff (c_apps c) (a_aff a) x = true) by (unfold has_aff; unfold app_of in Ha; rewrite Ha; apply Z.eqb_refl).
      rewrite Hx1 in Hlen. cbn [length] in Hlen. unfold count_aff in *. lia.
    + (* room *)
      apply negb_true_iff. apply vle_any_gt.
      destruct (ac_srv_dims _ HA _ _ Hs) as (_ & Lf & Nf). destruct (ac_srv_dims _ HA3 _ _ Hs3) as (_ & Lf3 & _).
      destruct (ac_app_dims _ HA _ _ Ha) as (Ld & _).
      assert (Hlen : forall m b, get_app m (c_apps c) = Some b -> length (a_demand b) = c_dim c) by (intros m b Hb; apply (ac_app_dims _ HA _ _ Hb)).
      assert (Ht3 : total (c_apps c3) (c_dim c3) (s_apps s3) = total (c_apps c) (c_dim c) (s_apps s3)).
      { rewrite Hdim. apply total_ext. intros z. apply psteps_demand. exact Hp. }
      pose proof (ac_acct _ HA3 _ _ Hs3) as E3. rewrite Ht3, Scap in E3.
      pose proof (ac_acct _ HA _ _ Hs) as E0.
      apply (room_back (s_free s3) (total (c_apps c) (c_dim c) (s_apps s3)) (s_free s) (total (c_apps c) (c_dim c) (s_apps s)) (a_demand a3)).
      * congruence.
      * rewrite Edem. replace (a_demand a) with (demand_of (c_apps c) (c_dim c) x) by (unfold demand_of; unfold app_of in Ha; rewrite Ha; reflexivity).
        change (vle (total (c_apps c) (c_dim c) (x :: s_apps s3)) (total (c_apps c) (c_dim c) (s_apps s))).
        apply total_incl; [intros m b Hb; apply (ac_app_dims _ HA _ _ Hb)|exact Hnd|exact (ac_nodup _ HA _ _ Hs)|exact Hinc].
      * exact Nf.
      * rewrite Edem, Lf3, Ld. congruence.
      * rewrite Edem, Ld. apply total_length. exact Hlen.
      * rewrite Edem, Ld. exact Lf.
      * rewrite Edem, Ld. apply total_length. exact Hlen.
Qed.

(** ** the turn of an evicted instance whose old server takes it back *)
Lemma acquire_has c x ch a : Ident c -> app_of c x = Some a -> has_id a -> acquire_identity c x ch = (c, true).
Proof.
  intros HI Ha Hh. unfold acquire_identity. unfold app_of in Ha. rewrite Ha.
  destruct (group_of c a) as [[g grp]|] eqn:Eg; [|reflexivity].
  destruct (a_identity a) eqn:Ei; [reflexivity|]. exfalso.
  destruct Hh as [Hg|Hn]; [|congruence]. unfold group_of in Eg. rewrite Hg in Eg. discriminate.
Qed.

Lemma place_one_restores rq st x ar sn ex :
  Ident (l_cell st) -> app_of (l_cell st) x = Some ar ->
  a_blacklisted ar = false -> a_rank ar <> UNPLACED_RANK -> a_renew ar = false -> a_server ar = None -> has_id ar ->
  aget x (l_evicted st) = Some (sn, ex) ->
  srv_put_lease (c_upd_app x (fun z => z <| a_renew := false |>) (l_cell st)) sn x 0 <> None ->
  exists a', app_of (l_cell (place_one rq st x)) x = Some a' /\ a_server a' = Some sn.
Proof.
  intros HI Ha Hbl Hrank Hren Hsv Hh Hev Hput. unfold place_one.
  assert (Ha' : get_app x (c_apps (l_cell st)) = Some ar) by exact Ha. rewrite Ha', Hbl.
  destruct (Z.eqb_spec (a_rank ar) UNPLACED_RANK) as [E|_]; [contradiction|]. rewrite Hren.
  set (c2 := c_upd_app x (fun z => z <| a_renew := false |>) (l_cell st)) in *.
  set (a2 := ar <| a_renew := false |>).
  assert (Ha2 : app_of c2 x = Some a2) by (apply upd_app_self; [reflexivity|exact Ha]).
  assert (Ha2' : get_app x (c_apps c2) = Some a2) by exact Ha2. rewrite Ha2'.
  change (a_server a2) with (a_server ar). rewrite Hsv.
  assert (HI2 : Ident c2) by (eapply Ident_psteps; [apply ps_one, PS_soft, soft_renew|exact HI]).
  rewrite (acquire_has c2 x (aget x (l_choices st)) a2 HI2 Ha2) by (destruct Hh as [H|H]; [left|right]; exact H).
  cbn [negb]. rewrite Hev.
  destruct (srv_restore_self c2 sn x ex a2 Ha2) as (a4 & Ha4 & Hd4 & Hsv4).
  assert (Hok : snd (srv_restore c2 sn x ex) = true).
  { unfold srv_restore. rewrite Ha2'. destruct (srv_put_lease c2 sn x 0); [reflexivity|contradiction]. }
  destruct (srv_restore c2 sn x ex) as [c4 ok4]. cbn [fst snd] in *. subst ok4. cbn [l_cell set].
  eexists. split; [apply upd_app_self; [reflexivity|exact Ha4]|]. exact Hsv4.
Qed.

Lemma zincl_dec (l1 l2 : list Z) : {incl l1 l2} + {~ incl l1 l2}.
Proof.
  induction l1 as [|y r IH]; [left; intros z []|].
  destruct (in_dec Z.eq_dec y l2) as [Hy|Hy]; [|right; intros H; apply Hy, H; left; reflexivity].
  destruct IH as [Hr|Hr]; [left; intros z [<-|Hz]; [exact Hy|apply Hr; exact Hz]|right; intros H; apply Hr; intros z Hz; apply H; right; exact Hz].
Qed.
Lemma not_incl_witness (l1 l2 : list Z) : ~ incl l1 l2 -> exists z, In z l1 /\ ~ In z l2.
Proof.
  induction l1 as [|y r IH]; intros H; [exfalso; apply H; intros z []|].
  destruct (in_dec Z.eq_dec y l2) as [Hy|Hy]; [|exists y; split; [left; reflexivity|exact Hy]].
  destruct IH as (z & Hz1 & Hz2); [intros Hr; apply H; intros z [<-|Hz]; [exact Hy|apply Hr; exact Hz]|].
  exists z. split; [right; exact Hz1|exact Hz2].
Qed.

(** ** C07 for the placement loop
    [c0] is the state the accounting refers to (the start of the cycle), [c] the state at the start of this loop. *)
Section Displace.
  Variables (c0 c : cell) (q pre0 post0 : list Z) (ch : list (Z * Z)) (x : Z) (a0 a : app) (n : Z) (s0 : server).
  Hypothesis Hq : q = pre0 ++ x :: post0.
  Hypothesis Hnd : NoDup q.
  Hypothesis Hp0 : psteps c0 c.
  Hypothesis HA0 : Acct c0.
  Hypothesis HF0 : Aff c0.
  Hypothesis HI0 : Ident c0.
  Hypothesis Ha0 : app_of c0 x = Some a0.
  Hypothesis Hsv0 : a_server a0 = Some n.
  Hypothesis Hs0 : get_srv n (c_servers c0) = Some s0.
  Hypothesis Ha : app_of c x = Some a.
  Hypothesis Hk : keeps_r a0 a.
  Hypothesis Hbl : a_blacklisted a0 = false.
  Hypothesis Hren : a_renew a = false.
  Hypothesis Hrank : a_rank a <> UNPLACED_RANK.
  Hypothesis Hid : has_id a0.
  Hypothesis Hlab : forall l, app_label a0 = Some l -> l = s_label s0.
  Hypothesis Htr : app_traits c0 a0 = 0 \/ has_traits (s_traits s0) (app_traits c0 a0) = true.

  Theorem find_placements_displaced :
    (exists a', app_of (find_placements c q ch) x = Some a' /\ a_server a' = Some n) \/
    (exists z az0 bz, z <> x /\ app_of c0 z = Some az0 /\ a_server az0 <> Some n /\ a_server bz = Some n /\
                      ((In z pre0 /\ app_of (find_placements c q ch) z = Some bz) \/
                       (~ In z pre0 /\ app_of c z = Some bz))).
  Proof.
    pose proof Hk as (Kd & Ksv & Kex & Kev & Kun & Krn).
    assert (HA : Acct c) by (eapply Acct_psteps; eassumption).
    assert (HI : Ident c) by (eapply Ident_psteps; eassumption).
    assert (Hsv : a_server a = Some n) by congruence.
    assert (Hbla : a_blacklisted a = false) by (destruct Kd as (_ & _ & _ & _ & _ & _ & _ & _ & _ & _ & _ & _ & Hb & _); congruence).
    assert (Hida : has_id a) by (eapply has_id_dyn; eassumption).
    unfold find_placements. set (rq := rev q). set (st0 := mkLoop c [] [] ch).
    rewrite Hq, fold_left_app. cbn [fold_left]. fold rq.
    set (st1 := fold_left (place_one rq) pre0 st0).
    assert (Hx_pre : ~ In x pre0) by (rewrite Hq in Hnd; apply NoDup_remove_2 in Hnd; intros H; apply Hnd, in_or_app; left; exact H).
    destruct (waiting_fold c rq pre0 st0 (fun _ => False) HA (ps_refl c)) as [Hp1 Hw1].
    { intros z _ az Haz. left. split; [exact Haz|reflexivity]. }
    fold st1 in Hp1, Hw1.
    assert (HA1 : Acct (l_cell st1)) by (eapply Acct_psteps; eassumption).
    assert (HI1 : Ident (l_cell st1)) by (eapply Ident_psteps; eassumption).
    (* what the turns of instances behind x leave alone *)
    assert (Hdone_x : forall st2, psteps c (l_cell st2) ->
              app_of (l_cell (fold_left (place_one rq) post0 st2)) x = app_of (l_cell st2) x).
    { intros st2 Hp2. unfold rq. apply (done_fold c q (pre0 ++ [x]) post0 st2 x Hnd); [exists []; rewrite <- app_assoc; exact Hq|apply in_or_app; right; left; reflexivity|exact HA|exact Hp2]. }
    destruct (Hw1 x (fun f => f) Hx_pre a Ha) as [[Hcur Hev]|(sn & Hsn & Hcur & Hev)].
    - (* never evicted: passed over in its own turn *)
      left. destruct (place_one_stays rq st1 x a n Hcur Hsv Hbla Hren Hrank) as (a2 & Ha2 & (_ & Ks & _)).
      exists a2. split; [|congruence]. rewrite Hdone_x; [exact Ha2|eapply ps_trans; [exact Hp1|apply place_one_ps]].
    - (* evicted by somebody ahead *)
      rewrite Hsv in Hsn. inversion Hsn; subst sn.
      set (c2 := c_upd_app x (fun z => z <| a_renew := false |>) (l_cell st1)).
      assert (Hp2 : psteps c c2) by (eapply ps_trans; [exact Hp1|apply ps_one, PS_soft, soft_renew]).
      assert (Hp02 : psteps c0 c2) by (eapply ps_trans; eassumption).
      destruct (psteps_srv_exists _ _ _ _ Hp02 Hs0) as (s2 & Hs2).
      destruct (zincl_dec (s_apps s2) (s_apps s0)) as [Hincl|Hnincl].
      + (* nobody new on the server: restored *)
        left.
        assert (Ha2 : app_of c2 x = Some (removed a <| a_renew := false |>)) by (apply upd_app_self; [reflexivity|exact Hcur]).
        assert (Hg : put_guard c2 s2 (removed a <| a_renew := false |>) 0 = true).
        { apply (restore_guard c0 c2 x a0 _ n s0 s2 HA0 HF0 Hp02 Ha0 Hsv0 Hs0 Hlab Htr Ha2); [|reflexivity|exact Hs2|exact Hincl].
          eapply stat_eq_trans; [apply dyn_stat; exact Kd|repeat split]. }
        assert (Hh : has_id (removed a)) by (destruct Hida as [H|H]; [left|right]; exact H).
        assert (Hput : srv_put_lease c2 n x 0 <> None).
        { unfold srv_put_lease. rewrite Hs2. unfold app_of in Ha2. rewrite Ha2, Hg. discriminate. }
        destruct (place_one_restores rq st1 x (removed a) n (a_expiry a) HI1 Hcur Hbla Hrank Hren eq_refl Hh Hev Hput) as (a3 & Ha3 & Hsv3).
        exists a3. split; [|exact Hsv3]. rewrite Hdone_x; [exact Ha3|eapply ps_trans; [exact Hp1|apply place_one_ps]].
      + (* somebody took the room *)
        right. destruct (not_incl_witness _ _ Hnincl) as (z & Hz2 & Hz0).
        assert (HA2 : Acct c2) by (eapply Acct_psteps; eassumption).
        destruct (ac_listed _ HA2 _ _ _ Hs2 Hz2) as (bz & Hbz & Hsbz).
        assert (Hzx : z <> x).
        { intros ->. assert (E : app_of c2 x = Some (removed a <| a_renew := false |>)) by (apply upd_app_self; [reflexivity|exact Hcur]).
          unfold app_of in E. rewrite E in Hbz. inversion Hbz; subst bz. cbn in Hsbz. discriminate. }
        assert (Hbz1 : app_of (l_cell st1) z = Some bz).
        { assert (E : app_of c2 z = app_of (l_cell st1) z) by (apply upd_app_other; [reflexivity|exact Hzx]). rewrite <- E. exact Hbz. }
        destruct (app_of c0 z) as [az0|] eqn:Eaz0.
        2:{ rewrite (psteps_none _ _ z (ps_trans _ _ _ Hp0 Hp1) Eaz0) in Hbz1. discriminate. }
        assert (Hnaz : a_server az0 <> Some n) by (intros E; apply Hz0; eapply (ac_placed _ HA0); eassumption).
        exists z, az0, bz. split; [exact Hzx|]. split; [exact Eaz0|]. split; [exact Hnaz|]. split; [exact Hsbz|].
        destruct (in_dec Z.eq_dec z pre0) as [Hzpre|Hzpre].
        * left. split; [exact Hzpre|].
          change (app_of (l_cell (fold_left (place_one rq) (x :: post0) st1)) z = Some bz).
          unfold rq. rewrite (done_fold c q pre0 (x :: post0) st1 z Hnd); [exact Hbz1|exists []; exact Hq|exact Hzpre|exact HA|exact Hp1].
        * right. split; [exact Hzpre|].
          destruct (app_of c z) as [az|] eqn:Eaz.
          2:{ rewrite (psteps_none _ _ z Hp1 Eaz) in Hbz1. discriminate. }
          destruct (Hw1 z (fun f => f) Hzpre az Eaz) as [[E _]|(sn & _ & E & _)]; rewrite Hbz1 in E; inversion E; subst bz; [reflexivity|cbn in Hsbz; discriminate].
  Qed.
End Displace.
