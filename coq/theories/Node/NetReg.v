(** Executable model of what a container start registers on the host and what its finish removes:

      treadmill.runtime.linux._run._unshare_network      (start)
      treadmill.runtime.linux._finish._cleanup_network   (finish; _cleanup_ephemeral_ports inlined)

    on top of the owner tables of Node/Owners.v (RuleMgr, EndpointsMgr) and two ip-sets.

    WHAT the two functions register / remove is not written here: both are *programs*
    (loops over the manifest with rule / endpoint-spec / ip-set statements whose arguments are
    symbolic source expressions), extracted from the Python AST by harness/tables_c16.py into
    [TM.Gen.Tables.c16_start] and [c16_finish].  This file gives the programs their meaning.
    No proofs in this file. *)
From Coq Require Import ZArith List Bool.
From TM Require Import Base.Flat Node.Owners.
Import ListNotations.
Open Scope Z_scope.

(** * Manifest *)
Record endpoint := { e_name : Z; e_proto : Z; e_port : Z; e_rport : Z; e_infra : bool }.
Record netinfo := { n_vip : Z; n_ext : Z }.                  (* reply of the network service: vip, external_ip *)
Record manifest := {
  m_uniq : Z;                  (* appcfg.app_unique_name(app): owner of everything the container registers *)
  m_app : Z;                   (* app.name *)
  m_pid : Z;                   (* os.getpid() of the process that runs _unshare_network *)
  m_net : netinfo;             (* app.network *)
  m_eps : list endpoint;       (* app.endpoints *)
  m_eph_tcp : list Z;          (* app.ephemeral_ports.tcp *)
  m_eph_udp : list Z;          (* app.ephemeral_ports.udp *)
  m_pt : list Z;               (* app.passthrough (host names) *)
  m_vring : bool               (* app.vring *)
}.

(** * Programs (what the translator extracts) *)
Inductive src :=
| SNone                         (* keyword not given *)
| SConst (z : Z)                (* literal: 'tcp' = 0, 'udp' = 1 *)
| SNetVip | SNetExt             (* app.network.vip / app_network['vip'];  ...external_ip *)
| SEpName | SEpProto | SEpPort | SEpRport     (* endpoint.name / .proto / .port / .real_port *)
| SItem                         (* the loop variable of an ephemeral-port or passthrough loop *)
| SApp                          (* app.name *)
| SPid.                         (* str(os.getpid()) *)

Inductive ctx := CTop | CEndpoint | CEphTcp | CEphUdp | CPass.
Inductive guard := GNone | GVring | GInfra.   (* if app.vring / if getattr(endpoint, 'type', None) == 'infra' *)

Inductive action :=
| ARule (create : bool) (chain kind : Z) (fields : list src) (owner_unique : bool)
    (* rules.create_rule / unlink_rule(chain, firewall.<kind>Rule(fields), owner=unique_name);
       fields: proto src_ip src_port dst_ip dst_port new_ip new_port *)
| ASpecCreate (fields : list src) (owner_unique : bool)
    (* endpoints.create_spec(appname, proto, endpoint, real_port, pid, port, owner=apps_dir/unique_name) *)
| ASpecUnlinkAll (app : src) (owner_checked : bool)
    (* endpoints.unlink_all(app, owner=unique_name) *)
| AIpset (add : bool) (set : Z) (val : list src).
    (* iptables.add_ip_set / rm_ip_set(set, '{ip}' | '{ip},{proto}:{port}') *)

Record stmt := { st_guard : guard; st_act : action }.
Record block := { b_ctx : ctx; b_body : list stmt }.
Definition program := list block.

(** * Host state *)
Definition rule := list Z.     (* chain kind proto src_ip src_port dst_ip dst_port new_ip new_port; 0 = wildcard *)
Record host := {
  h_rules : @table rule;            (* <root>/rules *)
  h_specs : @table spec;            (* <root>/endpoints *)
  h_ipset : list (list Z);          (* rows [set; vip] or [set; vip; proto; port] of the two ip-sets *)
  h_net : list (Z * netinfo)        (* network resource service: unique name -> reply *)
}.
Definition empty_host : host := {| h_rules := []; h_specs := []; h_ipset := []; h_net := [] |}.

Definition set_hrules (h : host) t := {| h_rules := t; h_specs := h_specs h; h_ipset := h_ipset h; h_net := h_net h |}.
Definition set_hspecs (h : host) t := {| h_rules := h_rules h; h_specs := t; h_ipset := h_ipset h; h_net := h_net h |}.
Definition set_hipset (h : host) l := {| h_rules := h_rules h; h_specs := h_specs h; h_ipset := l; h_net := h_net h |}.
Definition set_hnet (h : host) l := {| h_rules := h_rules h; h_specs := h_specs h; h_ipset := h_ipset h; h_net := l |}.

Fixpoint net_get (u : Z) (l : list (Z * netinfo)) : option netinfo :=
  match l with [] => None | (k, n) :: r => if k =? u then Some n else net_get u r end.
Definition net_del (u : Z) (l : list (Z * netinfo)) := filter (fun e => negb (fst e =? u)) l.
Definition net_put (u : Z) (n : netinfo) (l : list (Z * netinfo)) := net_del u l ++ [(u, n)].

Fixpoint mem_row (r : list Z) (l : list (list Z)) : bool :=
  match l with [] => false | x :: t => zlist_eqb x r || mem_row r t end.
Definition add_row (r : list Z) (l : list (list Z)) := if mem_row r l then l else l ++ [r].   (* ipset add -exist *)
Definition del_row (r : list Z) (l : list (list Z)) := filter (fun x => negb (zlist_eqb x r)) l.   (* ipset del -exist *)

(** * Meaning of a program *)
Record item := { it_name : Z; it_proto : Z; it_port : Z; it_rport : Z; it_infra : bool; it_val : Z }.
Definition item_of_ep (e : endpoint) : item :=
  {| it_name := e_name e; it_proto := e_proto e; it_port := e_port e; it_rport := e_rport e;
     it_infra := e_infra e; it_val := 0 |}.
Definition item_of_val (v : Z) : item :=
  {| it_name := 0; it_proto := 0; it_port := 0; it_rport := 0; it_infra := false; it_val := v |}.

(** deterministic resolver: socket.gethostbyname as an association list (unknown host: 0) *)
Fixpoint resolve (dns : list (Z * Z)) (h : Z) : Z :=
  match dns with [] => 0 | (k, ip) :: r => if k =? h then ip else resolve r h end.
(** {gethostbyname(h) for h in hosts}: duplicates collapse *)
Fixpoint dedup (l : list Z) : list Z :=
  match l with [] => [] | x :: t => if mem_z x t then dedup t else x :: dedup t end.

Definition items (m : manifest) (dns : list (Z * Z)) (c : ctx) : list item :=
  match c with
  | CTop => [item_of_val 0]
  | CEndpoint => map item_of_ep (m_eps m)
  | CEphTcp => map item_of_val (m_eph_tcp m)
  | CEphUdp => map item_of_val (m_eph_udp m)
  | CPass => map item_of_val (dedup (map (resolve dns) (m_pt m)))
  end.

Definition eval (m : manifest) (n : netinfo) (it : item) (s : src) : Z :=
  match s with
  | SNone => 0
  | SConst z => z
  | SNetVip => n_vip n
  | SNetExt => n_ext n
  | SEpName => it_name it
  | SEpProto => it_proto it
  | SEpPort => it_port it
  | SEpRport => it_rport it
  | SItem => it_val it
  | SApp => m_app m
  | SPid => m_pid m
  end.

Definition guard_ok (m : manifest) (it : item) (g : guard) : bool :=
  match g with GNone => true | GVring => m_vring m | GInfra => it_infra it end.

(** primitive operations with concrete arguments *)
Inductive prim :=
| PCreateRule (k : rule) (o : Z)
| PUnlinkRule (k : rule) (o : Z)
| PCreateSpec (k : spec) (o : Z)
| PUnlinkAll (app : Z) (o : option Z)
| PAdd (r : list Z)
| PRm (r : list Z).

Definition spec_of (l : list Z) : spec :=
  {| sp_app := nth 0 l 0; sp_proto := nth 1 l 0; sp_ep := nth 2 l 0; sp_rport := nth 3 l 0;
     sp_pid := nth 4 l 0; sp_port := nth 5 l 0 |}.

(** owner argument: unique_name when the source says so, otherwise an owner nobody has (-1) *)
Definition owner_of (m : manifest) (unique : bool) : Z := if unique then m_uniq m else -1.

Definition prim_of (m : manifest) (n : netinfo) (it : item) (a : action) : prim :=
  match a with
  | ARule create chain kind fields ou =>
      let k := chain :: kind :: map (eval m n it) fields in
      if create then PCreateRule k (owner_of m ou) else PUnlinkRule k (owner_of m ou)
  | ASpecCreate fields ou => PCreateSpec (spec_of (map (eval m n it) fields)) (owner_of m ou)
  | ASpecUnlinkAll app oc => PUnlinkAll (eval m n it app) (if oc then Some (m_uniq m) else None)
  | AIpset add set val =>
      let r := set :: map (eval m n it) val in if add then PAdd r else PRm r
  end.

Definition expand_stmt (m : manifest) (n : netinfo) (it : item) (s : stmt) : list prim :=
  if guard_ok m it (st_guard s) then [prim_of m n it (st_act s)] else [].
Definition expand_block (m : manifest) (n : netinfo) (dns : list (Z * Z)) (b : block) : list prim :=
  flat_map (fun it => flat_map (expand_stmt m n it) (b_body b)) (items m dns (b_ctx b)).
Definition expand (p : program) (m : manifest) (n : netinfo) (dns : list (Z * Z)) : list prim :=
  flat_map (expand_block m n dns) p.

(** one primitive on the host; [None] = the call raises (FileExistsError) *)
Definition do_prim (p : prim) (h : host) : option host :=
  match p with
  | PCreateRule k o =>
      match create_tolerant zlist_eqb k o o (h_rules h) with
      | Some t => Some (set_hrules h t) | None => None end
  | PUnlinkRule k o => Some (set_hrules h (snd (release zlist_eqb k o (h_rules h))))
  | PCreateSpec k o =>
      match create_tolerant spec_eqb k o (sp_app k) (h_specs h) with
      | Some t => Some (set_hspecs h t) | None => None end
  | PUnlinkAll a o => Some (set_hspecs h (unlink_all a None None o (h_specs h)))
  | PAdd r => Some (set_hipset h (add_row r (h_ipset h)))
  | PRm r => Some (set_hipset h (del_row r (h_ipset h)))
  end.

(** statements in source order; the first raising call aborts the function *)
Fixpoint run_prims (ps : list prim) (h : host) : host * bool :=
  match ps with
  | [] => (h, true)
  | p :: r => match do_prim p h with
              | Some h' => run_prims r h'
              | None => (h, false)
              end
  end.

(** _unshare_network(tm_env, container_dir, app): app.network was filled in from the network service's reply *)
Definition start (sp : program) (dns : list (Z * Z)) (m : manifest) (h : host) : host * bool :=
  run_prims (expand sp m (m_net m) dns) h.

(** _cleanup_network: network_client.get(unique_name) -> nothing to do when absent;
    otherwise the cleanup program, then network_client.delete(unique_name) *)
Definition cleanup (fp : program) (dns : list (Z * Z)) (m : manifest) (n : netinfo) (h : host) : host * bool :=
  run_prims (expand fp m n dns) h.
Definition finish (fp : program) (dns : list (Z * Z)) (m : manifest) (h : host) : host * bool :=
  match net_get (m_uniq m) (h_net h) with
  | None => (h, true)
  | Some n =>
      let (h', ok) := cleanup fp dns m n h in
      if ok then (set_hnet h' (net_del (m_uniq m) (h_net h')), true) else (h', false)
  end.

(** the network service's reply is recorded (runtime.linux._run.run: network_client.put/wait before
    _unshare_network), then the container's network is set up *)
Definition start_container (sp : program) (dns : list (Z * Z)) (m : manifest) (h : host) : host * bool :=
  start sp dns m (set_hnet h (net_put (m_uniq m) (m_net m) (h_net h))).

(** * The premise discharged on the generated tables *)
Definition src_eqb (a b : src) : bool :=
  match a, b with
  | SNone, SNone | SNetVip, SNetVip | SNetExt, SNetExt | SEpName, SEpName | SEpProto, SEpProto
  | SEpPort, SEpPort | SEpRport, SEpRport | SItem, SItem | SApp, SApp | SPid, SPid => true
  | SConst x, SConst y => x =? y
  | _, _ => false
  end.
Fixpoint srcs_eqb (a b : list src) : bool :=
  match a, b with
  | [], [] => true
  | x :: a', y :: b' => src_eqb x y && srcs_eqb a' b'
  | _, _ => false
  end.
Definition ctx_eqb (a b : ctx) : bool :=
  match a, b with
  | CTop, CTop | CEndpoint, CEndpoint | CEphTcp, CEphTcp | CEphUdp, CEphUdp | CPass, CPass => true
  | _, _ => false
  end.
Definition guard_eqb (a b : guard) : bool :=
  match a, b with GNone, GNone | GVring, GVring | GInfra, GInfra => true | _, _ => false end.

(** sources that do not depend on the loop item *)
Definition src_global (s : src) : bool :=
  match s with SNone | SConst _ | SNetVip | SNetExt | SApp | SPid => true | _ => false end.

(** does statement [f] of a block with context [cf] undo statement [s] of a block with context [cs]? *)
Definition undoes (cs : ctx) (s : stmt) (cf : ctx) (f : stmt) : bool :=
  match st_act s, st_act f with
  | ARule true ch k fl ou, ARule false ch' k' fl' ou' =>
      ctx_eqb cs cf && guard_eqb (st_guard s) (st_guard f) &&
      (ch =? ch') && (k =? k') && srcs_eqb fl fl' && ou && ou'
  | AIpset true set v, AIpset false set' v' =>
      (set =? set') && srcs_eqb v v' &&
      ((ctx_eqb cs cf && (guard_eqb (st_guard s) (st_guard f) || guard_eqb (st_guard f) GNone)) ||
       (ctx_eqb cf CTop && forallb src_global v &&
        (guard_eqb (st_guard f) GNone || (guard_eqb (st_guard f) GVring && guard_eqb (st_guard s) GVring))))
  | _, _ => false
  end.

Definition stmts_of (p : program) : list (ctx * stmt) :=
  flat_map (fun b => map (fun s => (b_ctx b, s)) (b_body b)) p.

(** every rule created and every ip-set entry added by start is removed by a statement of finish *)
Definition covers (sp fp : program) : bool :=
  forallb (fun cs =>
             match st_act (snd cs) with
             | ARule _ _ _ _ _ | AIpset _ _ _ =>
                 existsb (fun cf => undoes (fst cs) (snd cs) (fst cf) (snd cf)) (stmts_of fp)
             | _ => true
             end) (stmts_of sp).

(** start only creates / adds, always as unique_name, specs under app.name, ip-set entries keyed by the vip *)
Definition start_stmt_ok (cs : ctx * stmt) : bool :=
  match st_act (snd cs) with
  | ARule create _ _ fl ou => create && ou && (length fl =? 7)%nat
  | ASpecCreate fl ou => ou && (length fl =? 6)%nat && src_eqb (nth 0 fl SNone) SApp
  | ASpecUnlinkAll _ _ => false
  | AIpset add _ v => add && src_eqb (nth 0 v SNone) SNetVip
  end.
(** finish only unlinks / removes, always owner-checked as unique_name, ip-set entries keyed by the vip *)
Definition finish_stmt_ok (cs : ctx * stmt) : bool :=
  match st_act (snd cs) with
  | ARule create _ _ fl ou => negb create && ou && (length fl =? 7)%nat
  | ASpecCreate _ _ => false
  | ASpecUnlinkAll a oc => oc && src_eqb a SApp
  | AIpset add _ v => negb add && src_eqb (nth 0 v SNone) SNetVip
  end.
(** the specs of start are removed: an unguarded top-level unlink_all(app.name, owner=unique_name) *)
Definition has_unlink_all (fp : program) : bool :=
  existsb (fun cf => ctx_eqb (fst cf) CTop && guard_eqb (st_guard (snd cf)) GNone &&
                     match st_act (snd cf) with ASpecUnlinkAll a oc => oc && src_eqb a SApp | _ => false end)
          (stmts_of fp).

Definition templates_match (sp fp : program) : bool :=
  forallb start_stmt_ok (stmts_of sp) && forallb finish_stmt_ok (stmts_of fp) &&
  covers sp fp && has_unlink_all fp.

(** port pools of runtime._allocate_sockets *)
Definition ranges_disjoint (lo1 hi1 lo2 hi2 : Z) : bool := (lo1 <=? hi1) && (lo2 <=? hi2) && ((hi1 <? lo2) || (hi2 <? lo1)).

(** * Operation sequences of several containers; flattening for the correspondence check *)
Inductive cop :=
| CNetPut (i : nat)        (* the network service answers container i's request *)
| CNetDel (i : nat)        (* ... and forgets it *)
| CStart (i : nat)         (* _unshare_network *)
| CFinish (i : nat).       (* _cleanup_network *)

Definition default_manifest : manifest :=
  {| m_uniq := 0; m_app := 0; m_pid := 0; m_net := {| n_vip := 0; n_ext := 0 |}; m_eps := [];
     m_eph_tcp := []; m_eph_udp := []; m_pt := []; m_vring := false |}.
Definition cop_index (o : cop) : nat := match o with CNetPut i | CNetDel i | CStart i | CFinish i => i end.

Definition cstep (sp fp : program) (dns : list (Z * Z)) (ms : list manifest) (o : cop) (h : host) : host * bool :=
  let dm := default_manifest in
  match o with
  | CNetPut i => let m := nth i ms dm in (set_hnet h (net_put (m_uniq m) (m_net m) (h_net h)), true)
  | CNetDel i => let m := nth i ms dm in (set_hnet h (net_del (m_uniq m) (h_net h)), true)
  | CStart i => start sp dns (nth i ms dm) h
  | CFinish i => finish fp dns (nth i ms dm) h
  end.

Fixpoint crun (sp fp : program) (dns : list (Z * Z)) (ms : list manifest) (ops : list cop) (h : host) : host :=
  match ops with
  | [] => h
  | o :: r => crun sp fp dns ms r (fst (cstep sp fp dns ms o h))
  end.

Definition dump_host (h : host) : list Z :=
  dump_rows (map (fun e => fst e ++ [snd e]) (h_rules h)) ++
  dump_specs (h_specs h) ++ dump_rows (h_ipset h) ++ dump_rows (map (fun e => [fst e]) (h_net h)).

Fixpoint crun_obs (sp fp : program) (dns : list (Z * Z)) (ms : list manifest) (ops : list cop) (h : host) : list Z :=
  match ops with
  | [] => []
  | o :: r => let (h', ok) := cstep sp fp dns ms o h in
              (if ok then 0 else 1) :: dump_host h' ++ crun_obs sp fp dns ms r h'
  end.

Definition run_case (sp fp : program) (inp : list (Z * Z) * list manifest * list cop) : list Z :=
  let '(dns, ms, ops) := inp in crun_obs sp fp dns ms ops empty_host.
