(** Proofs about Node/AppCfg.v. *)
From Coq Require Import ZArith List Bool Lia.
From TM Require Import Node.AppCfg.
Import ListNotations.
Open Scope Z_scope.

(** * Finite maps *)
Section MapFacts.
  Context {K V : Type} (eqb : K -> K -> bool).
  Hypothesis eqb_spec : forall a b, eqb a b = true <-> a = b.

  Lemma eqb_refl' a : eqb a a = true.
  Proof. now apply eqb_spec. Qed.

  Lemma mget_mset (m : list (K * V)) k v k' :
    mget eqb (mset eqb m k v) k' = if eqb k k' then Some v else mget eqb m k'.
  Proof.
    induction m as [|[k0 w] r IH]; cbn.
    - reflexivity.
    - destruct (eqb k0 k) eqn:E; cbn.
      + apply eqb_spec in E. subst k0. destruct (eqb k k'); reflexivity.
      + rewrite IH. destruct (eqb k0 k') eqn:E2; auto.
        destruct (eqb k k') eqn:E3; auto.
        apply eqb_spec in E2, E3. subst. rewrite eqb_refl' in E. discriminate.
  Qed.

  Lemma mget_mdel (m : list (K * V)) k k' :
    mget eqb (mdel eqb m k) k' = if eqb k k' then None else mget eqb m k'.
  Proof.
    induction m as [|[k0 w] r IH]; cbn.
    - destruct (eqb k k'); reflexivity.
    - destruct (eqb k0 k) eqn:E; cbn.
      + apply eqb_spec in E. subst k0. rewrite IH. destruct (eqb k k'); reflexivity.
      + rewrite IH. destruct (eqb k0 k') eqn:E2; auto.
        destruct (eqb k k') eqn:E3; auto.
        apply eqb_spec in E2, E3. subst. rewrite eqb_refl' in E. discriminate.
  Qed.
End MapFacts.

Lemma zeqb_spec a b : Z.eqb a b = true <-> a = b.
Proof. apply Z.eqb_eq. Qed.

Lemma cont_eqb_spec a b : cont_eqb a b = true <-> a = b.
Proof.
  destruct a as [a1 a2], b as [b1 b2]. unfold cont_eqb. cbn.
  rewrite andb_true_iff, !Z.eqb_eq. split; [intros [-> ->]; reflexivity | intros H; inversion H; auto].
Qed.

Lemma lname_eqb_spec a b : lname_eqb a b = true <-> a = b.
Proof.
  destruct a as [i|c], b as [j|d]; cbn.
  - rewrite Z.eqb_eq. split; [intros ->; reflexivity | intros H; inversion H; auto].
  - split; [discriminate | intros H; inversion H].
  - split; [discriminate | intros H; inversion H].
  - rewrite cont_eqb_spec. split; [intros ->; reflexivity | intros H; inversion H; auto].
Qed.

Lemma cont_eqb_false a b : cont_eqb a b = false <-> a <> b.
Proof. rewrite <- cont_eqb_spec. destruct (cont_eqb a b); split; congruence. Qed.
Lemma lname_eqb_false a b : lname_eqb a b = false <-> a <> b.
Proof. rewrite <- lname_eqb_spec. destruct (lname_eqb a b); split; congruence. Qed.

Definition rget_mset := mget_mset (V := cont) Z.eqb zeqb_spec.
Definition rget_mdel := mget_mdel (V := cont) Z.eqb zeqb_spec.
Definition lget_mset := mget_mset (V := cont) lname_eqb lname_eqb_spec.
Definition lget_mdel := mget_mdel (V := cont) lname_eqb lname_eqb_spec.
Definition aget_mset := mget_mset (V := flags) cont_eqb cont_eqb_spec.
Definition aget_mdel := mget_mdel (V := flags) cont_eqb cont_eqb_spec.
Definition cget_mset := mget_mset (V := Z * bool) Z.eqb zeqb_spec.
Definition cget_mdel := mget_mdel (V := Z * bool) Z.eqb zeqb_spec.

(** * Link shape: the only names under which a container can be linked *)
Definition wf (s : st) : Prop :=
  (forall i c, rget (running s) i = Some c -> app_name c = i) /\
  (forall l c, lget (cleanup s) l = Some c -> l = LInst (app_name c) \/ l = LCont c).

Lemma wf_init : wf init.
Proof. split; cbn; intros; discriminate. Qed.

Lemma wf_same_links s s' : running s' = running s -> cleanup s' = cleanup s -> wf s -> wf s'.
Proof. intros Hr Hc [W1 W2]. split; rewrite ?Hr, ?Hc; auto. Qed.

Lemma wf_configure s i : wf s -> wf (fst (configure s i)).
Proof.
  intros [W1 W2]. unfold configure.
  destruct (cget (cache s) i) as [[f [|]]|]; cbn [fst]; [| split; auto | split; auto].
  destruct (aget (apps s) (i, f)); cbn.
  - split; cbn; auto. intros j c. unfold rget. rewrite rget_mset.
    destruct (Z.eqb i j) eqn:E; [|apply W1]. apply Z.eqb_eq in E. intros H; inversion H; subst. reflexivity.
  - split; cbn; auto. intros j c. unfold rget. rewrite rget_mset.
    destruct (Z.eqb i j) eqn:E; [|apply W1]. apply Z.eqb_eq in E. intros H; inversion H; subst. reflexivity.
Qed.

Lemma wf_terminate s i : wf s -> wf (terminate s i).
Proof.
  intros [W1 W2]. unfold terminate. destruct (rget (running s) i) as [c|] eqn:Hr; [|split; auto].
  split; cbn.
  - intros j c'. unfold rget. rewrite rget_mdel. destruct (Z.eqb i j); [discriminate | apply W1].
  - intros l c'. unfold lget. rewrite lget_mset. destruct (lname_eqb (LCont c) l) eqn:E; [|apply W2].
    apply lname_eqb_spec in E. intros H; inversion H; subst. now right.
Qed.

Lemma wf_add_inst_link s c : wf s -> wf (with_cleanup s (mset lname_eqb (cleanup s) (LInst (app_name c)) c)).
Proof.
  intros [W1 W2]. split; cbn; auto.
  intros l c'. unfold lget. rewrite lget_mset. destruct (lname_eqb (LInst (app_name c)) l) eqn:E; [|apply W2].
  apply lname_eqb_spec in E. intros H; inversion H; subst. now left.
Qed.

Lemma wf_sync_container s cached c : wf s -> wf (fst (sync_container (s, cached) c)).
Proof.
  intros W. unfold sync_container.
  destruct (target_exists s (rget (running s) (app_name c))).
  { cbn [fst]. destruct (match mget Z.eqb cached (app_name c) with Some c' => cont_eqb c' c | None => false end);
      [exact W | now apply wf_terminate]. }
  destruct (target_exists s (lget (cleanup s) (LInst (app_name c)))); [exact W|].
  destruct (match mget Z.eqb cached (app_name c) with Some c' => cont_eqb c' c | None => false end).
  - destruct (match aget (apps s) c with Some f => flagged f | None => false end).
    + cbn [fst]. now apply wf_add_inst_link.
    + destruct (configure s (app_name c)) as [s1 ok] eqn:Hc.
      assert (W1 : wf s1) by (change s1 with (fst (s1, ok)); rewrite <- Hc; now apply wf_configure).
      cbn [fst]. destruct ok; [exact W1 | now apply wf_add_inst_link].
  - cbn [fst]. now apply wf_add_inst_link.
Qed.

Lemma wf_fold_sync l : forall s cached, wf s -> wf (fst (fold_left sync_container l (s, cached))).
Proof.
  induction l as [|c l IH]; intros s cached W; cbn [fold_left]; [exact W|].
  destruct (sync_container (s, cached) c) as [s1 c1] eqn:H.
  apply IH. change s1 with (fst (s1, c1)). rewrite <- H. now apply wf_sync_container.
Qed.

Lemma wf_fold_configure l : forall s, wf s -> wf (fold_left (fun s i => fst (configure s i)) l s).
Proof. induction l as [|i l IH]; intros s W; cbn; auto. apply IH. now apply wf_configure. Qed.

Lemma wf_synchronize s oc oi : wf s -> wf (synchronize s oc oi).
Proof.
  intros W. unfold synchronize.
  destruct (fold_left sync_container _ _) as [s1 cached1] eqn:H.
  apply wf_fold_configure. change s1 with (fst (s1, cached1)). rewrite <- H. now apply wf_fold_sync.
Qed.

Lemma wf_handle s e oc oi : wf s -> wf (handle s e oc oi).
Proof.
  intros W. destruct e as [i|i| | |b]; cbn.
  - destruct (negb (active s)); auto. destruct (rget (running s) i); auto. now apply wf_configure.
  - destruct (negb (active s)); auto. now apply wf_terminate.
  - destruct (active s); auto. apply wf_synchronize. exact (wf_same_links s _ eq_refl eq_refl W).
  - exact (wf_same_links s _ eq_refl eq_refl W).
  - exact W.
Qed.

Lemma wf_flag_cont s c k : wf s -> wf (flag_cont s c k).
Proof.
  intros W. unfold flag_cont. destruct (aget (apps s) c); auto.
  unfold mark_finished. destruct (memb cont_eqb c _); exact (wf_same_links s _ eq_refl eq_refl W).
Qed.

Lemma wf_step s o : wf s -> wf (step s o).
Proof.
  intros W. destruct o as [i f ok|i| | |b|oc oi|i k|c k|l| |]; cbn.
  - exact (wf_same_links s _ eq_refl eq_refl W).
  - destruct (cget (cache s) i); [exact (wf_same_links s _ eq_refl eq_refl W) | exact W].
  - exact (wf_same_links s _ eq_refl eq_refl W).
  - exact (wf_same_links s _ eq_refl eq_refl W).
  - exact (wf_same_links s _ eq_refl eq_refl W).
  - destruct (queue s) as [|e q]; auto. apply wf_handle. exact (wf_same_links s _ eq_refl eq_refl W).
  - destruct (rget (running s) i) as [c|] eqn:Hr; auto.
    assert (W1 := wf_flag_cont s c k W).
    assert (Hrun : running (flag_cont s c k) = running s).
    { unfold flag_cont. destruct (aget (apps s) c); auto. unfold mark_finished. destruct (memb cont_eqb c _); auto. }
    destruct W as [Wr Wc]. destruct W1 as [W1r W1c]. split; cbn.
    + intros j c'. unfold rget. rewrite rget_mdel. destruct (Z.eqb i j); [discriminate | apply W1r].
    + intros l c'. unfold lget. rewrite lget_mset. destruct (lname_eqb (LInst i) l) eqn:E; [|apply W1c].
      apply lname_eqb_spec in E. intros H; inversion H; subst. left. now rewrite (Wr i c' Hr).
  - now apply wf_flag_cont.
  - destruct (lget (cleanup s) l) as [c|]; auto. destruct W as [Wr Wc]. split; cbn; auto.
    intros l' c'. unfold lget. rewrite lget_mdel. destruct (lname_eqb l l'); [discriminate | apply Wc].
  - exact (wf_same_links s _ eq_refl eq_refl W).
  - split; cbn; intros; discriminate.
Qed.

Lemma wf_run ops : forall s, wf s -> wf (run ops s).
Proof. induction ops as [|o r IH]; intros s W; cbn; auto. apply IH. now apply wf_step. Qed.

(** every event sequence: a container is linked at most as running/<its instance>,
    cleanup/<its instance> and cleanup/<its own name> *)
Theorem links_wf_all ops : wf (run ops init).
Proof. apply wf_run, wf_init. Qed.

(** * Handlers other than a resynchronisation *)

(** a deleted event for a cached-out instance hands its running container to cleanup *)
Lemma deleted_hands_over s i c oc oi :
  active s = true -> rget (running s) i = Some c ->
  let s' := handle s (EvDeleted i) oc oi in
  rget (running s') i = None /\ lget (cleanup s') (LCont c) = Some c /\
  (forall j, j <> i -> rget (running s') j = rget (running s) j).
Proof.
  intros Ha Hr. cbn. rewrite Ha. cbn. unfold terminate. rewrite Hr. cbn. repeat split.
  - unfold rget. rewrite rget_mdel. now rewrite Z.eqb_refl.
  - unfold lget. rewrite lget_mset. now rewrite (proj2 (lname_eqb_spec _ _) eq_refl).
  - intros j Hj. unfold rget. rewrite rget_mdel. destruct (Z.eqb i j) eqn:E; auto.
    apply Z.eqb_eq in E. congruence.
Qed.

Lemma configure_running_other s i j : j <> i -> rget (running (fst (configure s i))) j = rget (running s) j.
Proof.
  intros Hj. unfold configure. destruct (cget (cache s) i) as [[f [|]]|]; cbn [fst]; auto.
  assert (E : Z.eqb i j = false) by (apply Z.eqb_neq; congruence).
  destruct (aget (apps s) (i, f)); cbn; unfold rget; rewrite rget_mset, E; reflexivity.
Qed.

Lemma terminate_running_other s i j : j <> i -> rget (running (terminate s i)) j = rget (running s) j.
Proof.
  intros Hj. unfold terminate. destruct (rget (running s) i); auto. cbn.
  unfold rget. rewrite rget_mdel. destruct (Z.eqb i j) eqn:E; auto. apply Z.eqb_eq in E. congruence.
Qed.

(** every handler except a deleted event for the instance itself and a resynchronisation
    leaves a running link alone *)
Lemma handler_keeps_running s e oc oi i c :
  rget (running s) i = Some c ->
  e <> EvDeleted i -> (e = EvReadyUp -> active s = true) ->
  rget (running (handle s e oc oi)) i = Some c.
Proof.
  intros Hr Hd Hu. destruct e as [j|j| | |b]; cbn.
  - destruct (negb (active s)); auto. destruct (Z.eq_dec j i) as [->|Hj].
    + now rewrite Hr.
    + destruct (rget (running s) j); auto. rewrite configure_running_other; auto.
  - destruct (negb (active s)); auto. rewrite terminate_running_other; auto. congruence.
  - now rewrite (Hu eq_refl).
  - exact Hr.
  - exact Hr.
Qed.

(** a created event configures exactly the container of the current cache entry *)
Lemma created_configures s i f oc oi :
  active s = true -> rget (running s) i = None -> cget (cache s) i = Some (f, true) ->
  rget (running (handle s (EvCreated i) oc oi)) i = Some (i, f).
Proof.
  intros Ha Hr Hc. cbn. rewrite Ha, Hr. cbn. unfold configure. rewrite Hc.
  destruct (aget (apps s) (i, f)); cbn; unfold rget; rewrite rget_mset, Z.eqb_refl; reflexivity.
Qed.

(** * Ordered iteration over a set *)
Section Arrange.
  Context {A : Type} (eqb : A -> A -> bool).
  Hypothesis eqb_spec : forall a b, eqb a b = true <-> a = b.

  Lemma memb_In x l : memb eqb x l = true <-> In x l.
  Proof.
    induction l as [|y r IH]; cbn; [split; [discriminate | tauto]|].
    rewrite orb_true_iff, IH, eqb_spec. tauto.
  Qed.
  Lemma memb_false x l : memb eqb x l = false <-> ~ In x l.
  Proof. rewrite <- memb_In. destruct (memb eqb x l); split; congruence. Qed.

  Lemma dedupb_In x l : In x (dedupb eqb l) <-> In x l.
  Proof.
    induction l as [|y r IH]; cbn; [tauto|].
    destruct (memb eqb y r) eqn:E.
    - rewrite IH. apply memb_In in E. split; [auto | intros [H|H]; [subst; auto | auto]].
    - cbn. rewrite IH. tauto.
  Qed.
  Lemma dedupb_NoDup l : NoDup (dedupb eqb l).
  Proof.
    induction l as [|y r IH]; cbn; [constructor|].
    destruct (memb eqb y r) eqn:E; auto. constructor; auto. rewrite dedupb_In. now apply memb_false.
  Qed.

  Lemma arrangeb_In ord l x : In x (arrangeb eqb ord l) <-> In x l.
  Proof.
    unfold arrangeb. rewrite in_app_iff, !filter_In, dedupb_In, memb_In, negb_true_iff, memb_false.
    split; [tauto|]. intros H. destruct (memb eqb x ord) eqn:E.
    - left. split; auto. now apply memb_In.
    - right. split; auto. now apply memb_false.
  Qed.

  Lemma NoDup_filter' (f : A -> bool) l : NoDup l -> NoDup (filter f l).
  Proof.
    induction 1 as [|x l Hx Hl IH]; cbn; [constructor|].
    destruct (f x); auto. constructor; auto. rewrite filter_In. tauto.
  Qed.

  Lemma arrangeb_NoDup ord l : NoDup l -> NoDup (arrangeb eqb ord l).
  Proof.
    intros Hl. unfold arrangeb.
    assert (H1 := NoDup_filter' (fun x => memb eqb x l) _ (dedupb_NoDup ord)).
    assert (H2 := NoDup_filter' (fun x => negb (memb eqb x ord)) _ Hl).
    assert (Hd : forall x, In x (filter (fun x => memb eqb x l) (dedupb eqb ord)) ->
                           ~ In x (filter (fun x => negb (memb eqb x ord)) l)).
    { intros x HA HB. rewrite filter_In in HA, HB. destruct HA as [HA _]. destruct HB as [_ HB].
      rewrite dedupb_In in HA. apply negb_true_iff in HB. apply memb_false in HB. exact (HB HA). }
    revert H1 H2 Hd. generalize (filter (fun x => memb eqb x l) (dedupb eqb ord)) as l1.
    generalize (filter (fun x => negb (memb eqb x ord)) l) as l2.
    intros l2 l1 H1 H2. induction H1 as [|x l1 Hx Hl1 IH]; cbn; intros Hd; auto.
    constructor.
    - rewrite in_app_iff. intros [H|H]; [auto | apply (Hd x); cbn; auto].
    - apply IH. intros y Hy. apply Hd. cbn; auto.
  Qed.
End Arrange.

Lemma NoDup_split {A} (c : A) l : NoDup l -> In c l -> exists l1 l2, l = l1 ++ c :: l2 /\ ~ In c l1 /\ ~ In c l2.
Proof.
  intros Hnd Hin. destruct (in_split _ _ Hin) as (l1 & l2 & ->).
  exists l1, l2. split; auto. apply NoDup_remove_2 in Hnd. rewrite in_app_iff in Hnd. tauto.
Qed.

(** * One instance's view of the state; steps about other instances do not change it *)
Definition same_inst (i : inst) (s s' : st) : Prop :=
  cget (cache s') i = cget (cache s) i /\
  rget (running s') i = rget (running s) i /\
  lget (cleanup s') (LInst i) = lget (cleanup s) (LInst i) /\
  (forall f, lget (cleanup s') (LCont (i, f)) = lget (cleanup s) (LCont (i, f))) /\
  (forall f, aget (apps s') (i, f) = aget (apps s) (i, f)).

Lemma same_inst_refl i s : same_inst i s s.
Proof. repeat split; auto. Qed.

Lemma same_inst_trans i s1 s2 s3 : same_inst i s1 s2 -> same_inst i s2 s3 -> same_inst i s1 s3.
Proof.
  intros (A1 & A2 & A3 & A4 & A5) (B1 & B2 & B3 & B4 & B5).
  repeat split; intros; congruence.
Qed.

Lemma same_inst_sym i s1 s2 : same_inst i s1 s2 -> same_inst i s2 s1.
Proof. intros (A1 & A2 & A3 & A4 & A5). repeat split; intros; symmetry; auto. Qed.

Lemma configure_other s i j : j <> i -> same_inst i s (fst (configure s j)).
Proof.
  intros Hj. assert (E : Z.eqb j i = false) by (apply Z.eqb_neq; congruence).
  unfold configure. destruct (cget (cache s) j) as [[f [|]]|]; cbn [fst]; [| | apply same_inst_refl].
  - assert (Ea : forall f', cont_eqb (j, f) (i, f') = false).
    { intros f'. apply cont_eqb_false. intros H; inversion H; congruence. }
    destruct (aget (apps s) (j, f)); cbn; repeat split; cbn; auto;
      try (unfold rget; rewrite rget_mset, E; reflexivity).
    intros f'. unfold aget. rewrite aget_mset, Ea. reflexivity.
  - repeat split; cbn; auto. unfold cget. rewrite cget_mdel, E. reflexivity.
Qed.

Lemma terminate_other s i j : j <> i -> wf s -> same_inst i s (terminate s j).
Proof.
  intros Hj [W1 _]. assert (E : Z.eqb j i = false) by (apply Z.eqb_neq; congruence).
  unfold terminate. destruct (rget (running s) j) as [c|] eqn:Hr; [|apply same_inst_refl].
  assert (Hc : app_name c = j) by (now apply W1).
  repeat split; cbn; auto.
  - unfold rget. rewrite rget_mdel, E. reflexivity.
  - unfold lget. rewrite lget_mset. reflexivity.
  - intros f. unfold lget. rewrite lget_mset.
    assert (El : lname_eqb (LCont c) (LCont (i, f)) = false).
    { apply lname_eqb_false. intros H; inversion H; subst. cbn in Hj. congruence. }
    now rewrite El.
Qed.

Lemma add_inst_link_other s i c' :
  app_name c' <> i -> same_inst i s (with_cleanup s (mset lname_eqb (cleanup s) (LInst (app_name c')) c')).
Proof.
  intros Hj. repeat split; cbn; auto.
  - unfold lget. rewrite lget_mset.
    assert (El : lname_eqb (LInst (app_name c')) (LInst i) = false).
    { apply lname_eqb_false. intros H; inversion H; congruence. }
    now rewrite El.
  - intros f. unfold lget. rewrite lget_mset. reflexivity.
Qed.

Lemma mget_mdel_other_z {V} (m : list (inst * V)) j i : j <> i -> mget Z.eqb (mdel Z.eqb m j) i = mget Z.eqb m i.
Proof.
  intros Hj. rewrite (mget_mdel Z.eqb zeqb_spec). destruct (Z.eqb j i) eqn:E; auto. apply Z.eqb_eq in E. congruence.
Qed.

Lemma sync_container_other s cached c' i :
  app_name c' <> i -> wf s ->
  same_inst i s (fst (sync_container (s, cached) c')) /\
  mget Z.eqb (snd (sync_container (s, cached) c')) i = mget Z.eqb cached i.
Proof.
  intros Hj W. unfold sync_container.
  destruct (target_exists s (rget (running s) (app_name c'))).
  { cbn [fst snd]. split; [|now apply mget_mdel_other_z].
    destruct (match mget Z.eqb cached (app_name c') with Some c'0 => cont_eqb c'0 c' | None => false end);
      [apply same_inst_refl | now apply terminate_other]. }
  destruct (target_exists s (lget (cleanup s) (LInst (app_name c')))).
  { cbn [fst snd]. split; [apply same_inst_refl | now apply mget_mdel_other_z]. }
  destruct (match mget Z.eqb cached (app_name c') with Some c'0 => cont_eqb c'0 c' | None => false end).
  - destruct (match aget (apps s) c' with Some f => flagged f | None => false end).
    + cbn [fst snd]. split; [now apply add_inst_link_other | now apply mget_mdel_other_z].
    + destruct (configure s (app_name c')) as [s1 ok] eqn:Hc.
      assert (S1 : same_inst i s s1) by (change s1 with (fst (s1, ok)); rewrite <- Hc; now apply configure_other).
      cbn [fst snd]. split; [|now apply mget_mdel_other_z].
      destruct ok; auto. eapply same_inst_trans; [exact S1 | now apply add_inst_link_other].
  - cbn [fst snd]. split; [now apply add_inst_link_other | reflexivity].
Qed.

Lemma fold_sync_other i l : forall s cached,
  wf s -> (forall c', In c' l -> app_name c' <> i) ->
  same_inst i s (fst (fold_left sync_container l (s, cached))) /\
  mget Z.eqb (snd (fold_left sync_container l (s, cached))) i = mget Z.eqb cached i /\
  wf (fst (fold_left sync_container l (s, cached))).
Proof.
  induction l as [|c' l IH]; intros s cached W Hl; cbn [fold_left].
  - split; [apply same_inst_refl | split; [reflexivity | exact W]].
  - destruct (sync_container (s, cached) c') as [s1 c1] eqn:H.
    assert (Hc : app_name c' <> i) by (apply Hl; cbn; auto).
    destruct (sync_container_other s cached c' i Hc W) as [S1 M1]. rewrite H in S1, M1. cbn [fst snd] in S1, M1.
    assert (W1 : wf s1) by (change s1 with (fst (s1, c1)); rewrite <- H; now apply wf_sync_container).
    destruct (IH s1 c1 W1 (fun x Hx => Hl x (or_intror Hx))) as (S2 & M2 & W2).
    split; [eapply same_inst_trans; eauto | split; [congruence | exact W2]].
Qed.

(** the final loop of _synchronize: configure is idempotent on its own instance and a frame for the others *)
Ltac si_split := split; [|split; [|split; [|split]]].
Ltac psimpl := cbn [cache apps running cleanup active queue finished with_cache with_apps with_running
                    with_cleanup with_active with_queue with_finished enqueue fst snd].

Lemma configure_congr s1 s2 i :
  same_inst i s1 s2 -> same_inst i (fst (configure s1 i)) (fst (configure s2 i)).
Proof.
  intros (A1 & A2 & A3 & A4 & A5). unfold configure. rewrite A1.
  destruct (cget (cache s1) i) as [[f [|]]|] eqn:Hc1; psimpl.
  - rewrite (A5 f). destruct (aget (apps s1) (i, f)); si_split; psimpl; auto; try congruence.
    + unfold rget. rewrite !rget_mset. now rewrite Z.eqb_refl.
    + unfold rget. rewrite !rget_mset. now rewrite Z.eqb_refl.
    + intros f'. unfold aget. rewrite !aget_mset. destruct (cont_eqb (i, f) (i, f')); auto.
  - si_split; psimpl; auto. unfold cget. rewrite !cget_mdel. now rewrite Z.eqb_refl.
  - si_split; auto; congruence.
Qed.

Lemma configure_idem s i : same_inst i (fst (configure s i)) (fst (configure (fst (configure s i)) i)).
Proof.
  destruct (cget (cache s) i) as [[f [|]]|] eqn:Hc.
  - set (s' := fst (configure s i)).
    assert (Hc' : cget (cache s') i = Some (f, true)).
    { unfold s', configure. rewrite Hc. destruct (aget (apps s) (i, f)); exact Hc. }
    assert (Ha' : exists fl, aget (apps s') (i, f) = Some fl).
    { unfold s', configure. rewrite Hc. destruct (aget (apps s) (i, f)) eqn:Ha; psimpl.
      - eexists; exact Ha.
      - unfold aget. rewrite aget_mset, (proj2 (cont_eqb_spec _ _) eq_refl). eexists; reflexivity. }
    assert (Hr' : rget (running s') i = Some (i, f)).
    { unfold s', configure. rewrite Hc. destruct (aget (apps s) (i, f)); psimpl;
        unfold rget; rewrite rget_mset, Z.eqb_refl; reflexivity. }
    destruct Ha' as [fl Ha']. unfold configure. rewrite Hc', Ha'. psimpl.
    si_split; psimpl; auto. rewrite Hr'. unfold rget. rewrite rget_mset, Z.eqb_refl. reflexivity.
  - assert (Hc' : cget (cache (fst (configure s i))) i = None).
    { unfold configure. rewrite Hc. psimpl. unfold cget. rewrite cget_mdel, Z.eqb_refl. reflexivity. }
    unfold configure at 2. rewrite Hc'. apply same_inst_refl.
  - unfold configure. rewrite Hc. psimpl. rewrite Hc. apply same_inst_refl.
Qed.

Lemma final_loop_not_in i l : forall s, ~ In i l -> same_inst i s (fold_left (fun s j => fst (configure s j)) l s).
Proof.
  induction l as [|j l IH]; intros s Hn; cbn [fold_left]; [apply same_inst_refl|].
  eapply same_inst_trans; [apply (configure_other s i j) | apply IH].
  - intros ->. apply Hn. cbn; auto.
  - intros H. apply Hn. cbn; auto.
Qed.

Lemma final_loop_after i l : forall s0 s,
  same_inst i (fst (configure s0 i)) s -> same_inst i (fst (configure s0 i)) (fold_left (fun s j => fst (configure s j)) l s).
Proof.
  induction l as [|j l IH]; intros s0 s Hs; cbn [fold_left]; auto.
  apply IH. destruct (Z.eq_dec j i) as [->|Hj].
  - eapply same_inst_trans; [apply configure_idem|]. now apply configure_congr.
  - eapply same_inst_trans; [exact Hs | now apply configure_other].
Qed.

Lemma final_loop_in i l : forall s, In i l -> same_inst i (fst (configure s i)) (fold_left (fun s j => fst (configure s j)) l s).
Proof.
  induction l as [|j l IH]; intros s Hin; [destruct Hin|]. cbn [fold_left].
  destruct (Z.eq_dec j i) as [->|Hj].
  - apply final_loop_after. apply same_inst_refl.
  - destruct Hin as [->|Hin]; [congruence|].
    eapply same_inst_trans; [|apply (IH _ Hin)].
    apply configure_congr. now apply configure_other.
Qed.

(** * What _synchronize does to an instance whose only container directory is [c] *)
Lemma cont_eta (c : cont) : c = (app_name c, snd c).
Proof. destruct c; reflexivity. Qed.

Lemma target_exists_congr i s1 s2 (o : option cont) :
  same_inst i s1 s2 -> (forall c, o = Some c -> app_name c = i) ->
  target_exists s2 o = target_exists s1 o.
Proof.
  intros (_ & _ & _ & _ & A5) Ho. destruct o as [c|]; cbn; auto.
  rewrite (cont_eta c), (Ho c eq_refl). now rewrite A5.
Qed.

Lemma terminate_congr i s1 s2 :
  same_inst i s1 s2 -> same_inst i (terminate s1 i) (terminate s2 i).
Proof.
  intros (A1 & A2 & A3 & A4 & A5). unfold terminate. rewrite A2.
  destruct (rget (running s1) i) as [c|] eqn:Hr; [|si_split; auto; congruence].
  si_split; psimpl; auto.
  - unfold rget. rewrite !rget_mdel. now rewrite Z.eqb_refl.
  - unfold lget. rewrite !lget_mset. cbn. exact A3.
  - intros f. unfold lget. rewrite !lget_mset. destruct (lname_eqb (LCont c) (LCont (i, f))); auto.
Qed.

Lemma add_link_congr i s1 s2 c :
  same_inst i s1 s2 ->
  same_inst i (with_cleanup s1 (mset lname_eqb (cleanup s1) (LInst i) c))
              (with_cleanup s2 (mset lname_eqb (cleanup s2) (LInst i) c)).
Proof.
  intros (A1 & A2 & A3 & A4 & A5). si_split; psimpl; auto.
  - unfold lget. rewrite !lget_mset. now rewrite (proj2 (lname_eqb_spec _ _) eq_refl).
  - intros f. unfold lget. rewrite !lget_mset. cbn. apply A4.
Qed.

Lemma sync_container_congr i f0 s1 s2 c1 c2 :
  same_inst i s1 s2 -> wf s1 -> mget Z.eqb c2 i = mget Z.eqb c1 i ->
  same_inst i (fst (sync_container (s1, c1) (i, f0))) (fst (sync_container (s2, c2) (i, f0))) /\
  mget Z.eqb (snd (sync_container (s2, c2) (i, f0))) i = mget Z.eqb (snd (sync_container (s1, c1) (i, f0))) i.
Proof.
  intros S [W1 W2] Hc. assert (S' := S). destruct S' as (A1 & A2 & A3 & A4 & A5).
  unfold sync_container. cbn [app_name fst].
  rewrite Hc, A2, A3, (A5 f0).
  rewrite (target_exists_congr i s1 s2 (rget (running s1) i) S) by (intros c H; now apply W1).
  rewrite (target_exists_congr i s1 s2 (lget (cleanup s1) (LInst i)) S).
  2:{ intros c H. destruct (W2 _ _ H) as [E|E]; inversion E; auto. }
  assert (Hdel : mget Z.eqb (mdel Z.eqb c2 i) i = mget Z.eqb (mdel Z.eqb c1 i) i).
  { rewrite !(mget_mdel Z.eqb zeqb_spec). now rewrite Z.eqb_refl. }
  destruct (target_exists s1 (rget (running s1) i)).
  { cbn [fst snd]. split; auto.
    destruct (match mget Z.eqb c1 i with Some c' => cont_eqb c' (i, f0) | None => false end); auto.
    now apply terminate_congr. }
  destruct (target_exists s1 (lget (cleanup s1) (LInst i))); [cbn [fst snd]; split; auto|].
  destruct (match mget Z.eqb c1 i with Some c' => cont_eqb c' (i, f0) | None => false end).
  - destruct (match aget (apps s1) (i, f0) with Some f => flagged f | None => false end).
    + cbn [fst snd]. split; auto. now apply add_link_congr.
    + assert (C := configure_congr s1 s2 i S).
      assert (Hok : snd (configure s2 i) = snd (configure s1 i)).
      { unfold configure. rewrite A1. destruct (cget (cache s1) i) as [[f [|]]|]; reflexivity. }
      destruct (configure s1 i) as [t1 ok1]. destruct (configure s2 i) as [t2 ok2].
      cbn [fst snd] in *. subst ok2. split; auto. destruct ok1; auto. now apply add_link_congr.
  - cbn [fst snd]. split; auto. now apply add_link_congr.
Qed.

Lemma cached0_get (c : list (inst * (Z * bool))) i :
  mget Z.eqb (map (fun kv => (fst kv, (fst kv, fst (snd kv)))) c) i =
  match cget c i with Some v => Some (i, fst v) | None => None end.
Proof.
  induction c as [|[k v] r IH]; cbn; auto.
  destruct (Z.eqb k i) eqn:E; auto. apply Z.eqb_eq in E. now subst.
Qed.

Lemma mget_keys {V} (m : list (inst * V)) i : In i (map fst m) <-> mget Z.eqb m i <> None.
Proof.
  induction m as [|[k v] r IH]; cbn; [split; [tauto | congruence]|].
  destruct (Z.eqb k i) eqn:E.
  - apply Z.eqb_eq in E. split; [congruence | auto].
  - apply Z.eqb_neq in E. rewrite IH. split; [intros [H|H]; [congruence | auto] | auto].
Qed.

Definition cached0 (s : st) := map (fun kv => (fst kv, (fst kv, fst (snd kv)))) (cache s).

(** [lone i f0 s]: apps/ holds exactly one container of instance i, namely (i, f0) *)
Definition lone (i : inst) (f0 : Z) (s : st) : Prop :=
  NoDup (map fst (apps s)) /\ In (i, f0) (map fst (apps s)) /\
  forall c', In c' (map fst (apps s)) -> app_name c' = i -> c' = (i, f0).

(** [none i s]: apps/ holds no container of instance i *)
Definition none (i : inst) (s : st) : Prop := forall c', In c' (map fst (apps s)) -> app_name c' <> i.

Lemma fold_sync_other_eq i l s cached sA cA :
  wf s -> (forall c', In c' l -> app_name c' <> i) ->
  fold_left sync_container l (s, cached) = (sA, cA) ->
  same_inst i s sA /\ mget Z.eqb cA i = mget Z.eqb cached i /\ wf sA.
Proof. intros W Ho H. generalize (fold_sync_other i l s cached W Ho). rewrite H. auto. Qed.

Lemma sync_container_congr_eq i f0 s1 s2 c1 c2 t1 d1 t2 d2 :
  same_inst i s1 s2 -> wf s1 -> mget Z.eqb c2 i = mget Z.eqb c1 i ->
  sync_container (s1, c1) (i, f0) = (t1, d1) -> sync_container (s2, c2) (i, f0) = (t2, d2) ->
  same_inst i t1 t2 /\ mget Z.eqb d2 i = mget Z.eqb d1 i.
Proof. intros S W M H1 H2. generalize (sync_container_congr i f0 s1 s2 c1 c2 S W M). rewrite H1, H2. auto. Qed.

Theorem sync_lone s oc oi i f0 sB cB :
  wf s -> lone i f0 s ->
  sync_container (s, cached0 s) (i, f0) = (sB, cB) ->
  same_inst i (match mget Z.eqb cB i with Some _ => fst (configure sB i) | None => sB end)
              (synchronize s oc oi).
Proof.
  intros W (Hnd & Hin & Hlone) HB0.
  unfold synchronize. fold (cached0 s).
  set (conf := arrangeb cont_eqb oc (map fst (apps s))).
  assert (Hnd' : NoDup conf) by (apply (arrangeb_NoDup cont_eqb cont_eqb_spec); exact Hnd).
  assert (Hin' : In (i, f0) conf) by (apply (arrangeb_In cont_eqb cont_eqb_spec); exact Hin).
  destruct (@NoDup_split cont (i, f0) conf Hnd' Hin') as (l1 & l2 & Hconf & Hn1 & Hn2).
  assert (Hother : forall l, (forall x, In x l -> In x conf) -> ~ In (i, f0) l -> forall c', In c' l -> app_name c' <> i).
  { intros l Hsub Hn c' Hc' E. apply Hn. rewrite <- (Hlone c'); auto.
    apply (arrangeb_In cont_eqb cont_eqb_spec oc). apply Hsub. exact Hc'. }
  assert (Ho1 : forall c', In c' l1 -> app_name c' <> i).
  { apply Hother; auto. intros x Hx. rewrite Hconf. apply in_or_app. now left. }
  assert (Ho2 : forall c', In c' l2 -> app_name c' <> i).
  { apply Hother; auto. intros x Hx. rewrite Hconf. apply in_or_app. right. now right. }
  rewrite Hconf, fold_left_app. cbn [fold_left].
  destruct (fold_left sync_container l1 (s, cached0 s)) as [sA cA] eqn:HA.
  destruct (fold_sync_other_eq i l1 s (cached0 s) sA cA W Ho1 HA) as (SA & MA & WA).
  destruct (sync_container (sA, cA) (i, f0)) as [sB' cB'] eqn:HB.
  destruct (sync_container_congr_eq i f0 s sA (cached0 s) cA sB cB sB' cB' SA W MA HB0 HB) as [SB MB].
  assert (WB : wf sB') by (change sB' with (fst (sB', cB')); rewrite <- HB; now apply wf_sync_container).
  destruct (fold_left sync_container l2 (sB', cB')) as [sC cC] eqn:HC.
  destruct (fold_sync_other_eq i l2 sB' cB' sC cC WB Ho2 HC) as (SC & MC & WC).
  assert (SBC : same_inst i sB sC) by (eapply same_inst_trans; eauto).
  assert (MBC : mget Z.eqb cC i = mget Z.eqb cB i) by congruence.
  rewrite <- MBC.
  destruct (mget Z.eqb cC i) eqn:Hm.
  - eapply same_inst_trans; [apply configure_congr; exact SBC|].
    apply final_loop_in. apply (arrangeb_In Z.eqb zeqb_spec). apply mget_keys. congruence.
  - eapply same_inst_trans; [exact SBC|].
    apply final_loop_not_in. intros Hin2. apply (arrangeb_In Z.eqb zeqb_spec) in Hin2.
    apply mget_keys in Hin2. congruence.
Qed.

(** instance without a container directory: configured iff it is cached *)
Theorem sync_none s oc oi i :
  wf s -> none i s ->
  same_inst i (match cget (cache s) i with Some _ => fst (configure s i) | None => s end)
              (synchronize s oc oi).
Proof.
  intros W Hnone. unfold synchronize. fold (cached0 s).
  set (conf := arrangeb cont_eqb oc (map fst (apps s))).
  assert (Ho : forall c', In c' conf -> app_name c' <> i).
  { intros c' Hc'. apply Hnone. now apply (arrangeb_In cont_eqb cont_eqb_spec oc). }
  destruct (fold_left sync_container conf (s, cached0 s)) as [sA cA] eqn:HA.
  destruct (fold_sync_other_eq i conf s (cached0 s) sA cA W Ho HA) as (SA & MA & WA).
  unfold cached0 in MA. rewrite cached0_get in MA.
  destruct (cget (cache s) i) as [v|] eqn:Hc; rewrite ?Hc in MA.
  - eapply same_inst_trans; [apply configure_congr; exact SA|].
    apply final_loop_in. apply (arrangeb_In Z.eqb zeqb_spec). apply mget_keys.
    intros Hx. pose proof (eq_trans (eq_sym MA) Hx) as Hy. discriminate Hy.
  - eapply same_inst_trans; [exact SA|].
    apply final_loop_not_in. intros Hin2. apply (arrangeb_In Z.eqb zeqb_spec) in Hin2.
    apply mget_keys in Hin2. exact (Hin2 MA).
Qed.

Lemma aget_keys (m : list (cont * flags)) c : In c (map fst m) <-> aget m c <> None.
Proof.
  unfold aget. induction m as [|[k v] r IH]; cbn; [split; [tauto | congruence]|].
  destruct (cont_eqb k c) eqn:E.
  - apply cont_eqb_spec in E. split; [congruence | auto].
  - apply cont_eqb_false in E. rewrite IH. split; [intros [H|H]; [congruence | auto] | auto].
Qed.

Lemma cached0_cur s i f0 :
  match mget Z.eqb (cached0 s) i with Some c' => cont_eqb c' (i, f0) | None => false end =
  match cget (cache s) i with Some v => Z.eqb (fst v) f0 | None => false end.
Proof.
  unfold cached0. rewrite cached0_get. destruct (cget (cache s) i) as [v|]; auto.
  unfold cont_eqb. cbn. now rewrite Z.eqb_refl.
Qed.

Lemma cached0_del s i : mget Z.eqb (mdel Z.eqb (cached0 s) i) i = None.
Proof. rewrite (mget_mdel Z.eqb zeqb_spec). now rewrite Z.eqb_refl. Qed.

(** ** the corollaries used by Props/C13.v; all about one instance [i] whose only container directory is (i, f0) *)
Section Lone.
  Variables (s : st) (oc : list cont) (oi : list inst) (i : inst) (f0 : Z).
  Hypothesis W : wf s.
  Hypothesis L : lone i f0 s.

  Let s' := synchronize s oc oi.

  Lemma lone_exists : exists fl, aget (apps s) (i, f0) = Some fl.
  Proof.
    destruct L as (_ & Hin & _). apply aget_keys in Hin. destruct (aget (apps s) (i, f0)) as [fl|]; [eauto | congruence].
  Qed.

  (** an unchanged running container is left running *)
  Lemma sync_keeps_unchanged ok :
    rget (running s) i = Some (i, f0) -> cget (cache s) i = Some (f0, ok) ->
    rget (running s') i = Some (i, f0).
  Proof.
    intros Hr Hc. destruct lone_exists as [fl Ha].
    destruct (sync_container (s, cached0 s) (i, f0)) as [sB cB] eqn:HB.
    assert (S := sync_lone s oc oi i f0 sB cB W L HB).
    unfold sync_container in HB. cbn [app_name fst] in HB.
    rewrite Hr in HB. cbn [target_exists] in HB. rewrite Ha in HB.
    rewrite cached0_cur, Hc in HB. cbn [fst] in HB. rewrite Z.eqb_refl in HB.
    inversion HB; subst sB cB; clear HB.
    rewrite cached0_del in S. destruct S as (_ & S2 & _). unfold s'. now rewrite S2.
  Qed.

  (** a running container whose cache entry disappeared (or was replaced) is handed to cleanup *)
  Lemma sync_hands_over :
    rget (running s) i = Some (i, f0) ->
    (forall ok, cget (cache s) i <> Some (f0, ok)) ->
    rget (running s') i = None /\ lget (cleanup s') (LCont (i, f0)) = Some (i, f0).
  Proof.
    intros Hr Hc. destruct lone_exists as [fl Ha].
    destruct (sync_container (s, cached0 s) (i, f0)) as [sB cB] eqn:HB.
    assert (S := sync_lone s oc oi i f0 sB cB W L HB).
    unfold sync_container in HB. cbn [app_name fst] in HB.
    rewrite Hr in HB. cbn [target_exists] in HB. rewrite Ha in HB.
    rewrite cached0_cur in HB.
    assert (Hcur : match cget (cache s) i with Some v => Z.eqb (fst v) f0 | None => false end = false).
    { destruct (cget (cache s) i) as [[f ok]|] eqn:E; auto. cbn. apply Z.eqb_neq. intros ->. now apply (Hc ok). }
    rewrite Hcur in HB. inversion HB; subst sB cB; clear HB.
    rewrite cached0_del in S. destruct S as (_ & S2 & _ & S4 & _). unfold s'. rewrite S2, S4.
    unfold terminate. rewrite Hr. psimpl. split.
    - unfold rget. rewrite rget_mdel. now rewrite Z.eqb_refl.
    - unfold lget. rewrite lget_mset. now rewrite (proj2 (lname_eqb_spec _ _) eq_refl).
  Qed.

  (** a finished / aborted / oom container that is not running is not started by a resynchronisation *)
  Lemma sync_no_restart fl :
    aget (apps s) (i, f0) = Some fl -> flagged fl = true -> rget (running s) i = None ->
    rget (running s') i <> Some (i, f0).
  Proof.
    intros Ha Hfl Hr.
    destruct (sync_container (s, cached0 s) (i, f0)) as [sB cB] eqn:HB.
    assert (S := sync_lone s oc oi i f0 sB cB W L HB).
    unfold sync_container in HB. cbn [app_name fst] in HB.
    rewrite Hr in HB. change (target_exists s None) with false in HB. cbv iota in HB.
    rewrite cached0_cur, Ha, Hfl in HB.
    destruct (target_exists s (lget (cleanup s) (LInst i))) eqn:Et; rewrite ?Et in HB.
    { inversion HB; subst sB cB; clear HB. rewrite cached0_del in S.
      destruct S as (_ & S2 & _). unfold s'. rewrite S2, Hr. discriminate. }
    destruct (cget (cache s) i) as [[f ok]|] eqn:Hc; cbn [fst] in HB.
    - destruct (Z.eqb f f0) eqn:Ef.
      + inversion HB; subst sB cB; clear HB. rewrite cached0_del in S.
        destruct S as (_ & S2 & _). unfold s'. rewrite S2. psimpl. rewrite Hr. discriminate.
      + inversion HB; subst sB cB; clear HB.
        unfold cached0 in S. rewrite cached0_get, Hc in S.
        destruct S as (_ & S2 & _). unfold s'. rewrite S2.
        unfold configure. psimpl. rewrite Hc. apply Z.eqb_neq in Ef.
        destruct ok; psimpl.
        * destruct (aget (apps s) (i, f)); psimpl; unfold rget; rewrite rget_mset, Z.eqb_refl;
            intros H; inversion H; congruence.
        * rewrite Hr. discriminate.
    - inversion HB; subst sB cB; clear HB.
      unfold cached0 in S. rewrite cached0_get, Hc in S.
      destruct S as (_ & S2 & _). unfold s'. rewrite S2. psimpl. rewrite Hr. discriminate.
  Qed.

  (** no stale generation: the instance runs afterwards exactly when its cached manifest can be
      configured (not in cleanup under its instance name, not finished, configure succeeds) *)
  Lemma sync_running_lone ok fl :
    cget (cache s) i = Some (f0, ok) -> aget (apps s) (i, f0) = Some fl ->
    rget (running s) i = None ->
    rget (running s') i =
      if target_exists s (lget (cleanup s) (LInst i)) || flagged fl || negb ok then None else Some (i, f0).
  Proof.
    intros Hc Ha Hr.
    destruct (sync_container (s, cached0 s) (i, f0)) as [sB cB] eqn:HB.
    assert (S := sync_lone s oc oi i f0 sB cB W L HB).
    unfold sync_container in HB. cbn [app_name fst] in HB.
    rewrite Hr in HB. change (target_exists s None) with false in HB. cbv iota in HB.
    rewrite cached0_cur, Ha, Hc in HB. cbn [fst] in HB. rewrite Z.eqb_refl in HB.
    destruct (target_exists s (lget (cleanup s) (LInst i))) eqn:Et; rewrite ?Et in HB; cbn [orb].
    { inversion HB; subst sB cB; clear HB. rewrite cached0_del in S.
      destruct S as (_ & S2 & _). unfold s'. now rewrite S2. }
    destruct (flagged fl); cbn [orb].
    { inversion HB; subst sB cB; clear HB. rewrite cached0_del in S.
      destruct S as (_ & S2 & _). unfold s'. rewrite S2. psimpl. exact Hr. }
    unfold configure in HB. rewrite Hc, Ha in HB. destruct ok; cbn [negb]; psimpl.
    - inversion HB; subst sB cB; clear HB. rewrite cached0_del in S.
      destruct S as (_ & S2 & _). unfold s'. rewrite S2. psimpl.
      unfold rget. rewrite rget_mset, Z.eqb_refl. reflexivity.
    - inversion HB; subst sB cB; clear HB. rewrite cached0_del in S.
      destruct S as (_ & S2 & _). unfold s'. rewrite S2. psimpl. exact Hr.
  Qed.
End Lone.

(** an instance without a container directory is configured exactly when it is cached and configurable *)
Lemma sync_running_none s oc oi i :
  wf s -> none i s -> rget (running s) i = None ->
  rget (running (synchronize s oc oi)) i =
    match cget (cache s) i with Some (f, true) => Some (i, f) | _ => None end.
Proof.
  intros W N Hr. destruct (sync_none s oc oi i W N) as (_ & S2 & _). rewrite S2.
  destruct (cget (cache s) i) as [[f ok]|] eqn:Hc; auto.
  unfold configure. rewrite Hc. destruct ok; psimpl; auto.
  destruct (aget (apps s) (i, f)); psimpl; unfold rget; rewrite rget_mset, Z.eqb_refl; reflexivity.
Qed.
