(** Proofs about Node/AppCfg.v. *)
From Coq Require Import ZArith List Bool Lia.
From TM Require Import Node.AppCfg.
Import ListNotations.
Open Scope Z_scope.

(** * Finite maps *)
Section MapFacts.
  Context {K V : Type} (eqb : K -> K -> bool).
  Hypothesis eqb_spec : forall a b, eqb a b = true <-> a = b.

  Lemma eqb_refl' a : eqb a a = true.
  Proof. now apply eqb_spec. Qed.

  Lemma mget_mset (m : list (K * V)) k v k' :
    mget eqb (mset eqb m k v) k' = if eqb k k' then Some v else mget eqb m k'.
  Proof.
    induction m as [|[k0 w] r IH]; cbn.
    - reflexivity.
    - destruct (eqb k0 k) eqn:E; cbn.
      + apply eqb_spec in E. subst k0. destruct (eqb k k'); reflexivity.
      + rewrite IH. destruct (eqb k0 k') eqn:E2; auto.
        destruct (eqb k k') eqn:E3; auto.
        apply eqb_spec in E2, E3. subst. rewrite eqb_refl' in E. discriminate.
  Qed.

  Lemma mget_mdel (m : list (K * V)) k k' :
    mget eqb (mdel eqb m k) k' = if eqb k k' then None else mget eqb m k'.
  Proof.
    induction m as [|[k0 w] r IH]; cbn.
    - destruct (eqb k k'); reflexivity.
    - destruct (eqb k0 k) eqn:E; cbn.
      + apply eqb_spec in E. subst k0. rewrite IH. destruct (eqb k k'); reflexivity.
      + rewrite IH. destruct (eqb k0 k') eqn:E2; auto.
        destruct (eqb k k') eqn:E3; auto.
        apply eqb_spec in E2, E3. subst. rewrite eqb_refl' in E. discriminate.
  Qed.
End MapFacts.

Lemma zeqb_spec a b : Z.eqb a b = true <-> a = b.
Proof. apply Z.eqb_eq. Qed.

Lemma cont_eqb_spec a b : cont_eqb a b = true <-> a = b.
Proof.
  destruct a as [a1 a2], b as [b1 b2]. unfold cont_eqb. cbn.
  rewrite andb_true_iff, !Z.eqb_eq. split; [intros [-> ->]; reflexivity | intros H; inversion H; auto].
Qed.

Lemma lname_eqb_spec a b : lname_eqb a b = true <-> a = b.
Proof.
  destruct a as [i|c], b as [j|d]; cbn.
  - rewrite Z.eqb_eq. split; [intros ->; reflexivity | intros H; inversion H; auto].
  - split; [discriminate | intros H; inversion H].
  - split; [discriminate | intros H; inversion H].
  - rewrite cont_eqb_spec. split; [intros ->; reflexivity | intros H; inversion H; auto].
Qed.

Lemma cont_eqb_false a b : cont_eqb a b = false <-> a <> b.
Proof. rewrite <- cont_eqb_spec. destruct (cont_eqb a b); split; congruence. Qed.
Lemma lname_eqb_false a b : lname_eqb a b = false <-> a <> b.
Proof. rewrite <- lname_eqb_spec. destruct (lname_eqb a b); split; congruence. Qed.

Definition rget_mset := mget_mset (V := cont) Z.eqb zeqb_spec.
Definition rget_mdel := mget_mdel (V := cont) Z.eqb zeqb_spec.
Definition lget_mset := mget_mset (V := cont) lname_eqb lname_eqb_spec.
Definition lget_mdel := mget_mdel (V := cont) lname_eqb lname_eqb_spec.
Definition aget_mset := mget_mset (V := flags) cont_eqb cont_eqb_spec.
Definition aget_mdel := mget_mdel (V := flags) cont_eqb cont_eqb_spec.
Definition cget_mset := mget_mset (V := Z * bool) Z.eqb zeqb_spec.
Definition cget_mdel := mget_mdel (V := Z * bool) Z.eqb zeqb_spec.

(** * Link shape: the only names under which a container can be linked *)
Definition wf (s : st) : Prop :=
  (forall i c, rget (running s) i = Some c -> app_name c = i) /\
  (forall l c, lget (cleanup s) l = Some c -> l = LInst (app_name c) \/ l = LCont c).

Lemma wf_init : wf init.
Proof. split; cbn; intros; discriminate. Qed.

Lemma wf_same_links s s' : running s' = running s -> cleanup s' = cleanup s -> wf s -> wf s'.
Proof. intros Hr Hc [W1 W2]. split; rewrite ?Hr, ?Hc; auto. Qed.

Lemma wf_configure s i : wf s -> wf (fst (configure s i)).
Proof.
  intros [W1 W2]. unfold configure.
  destruct (cget (cache s) i) as [[f [|]]|]; cbn [fst]; [| split; auto | split; auto].
  destruct (aget (apps s) (i, f)); cbn.
  - split; cbn; auto. intros j c. unfold rget. rewrite rget_mset.
    destruct (Z.eqb i j) eqn:E; [|apply W1]. apply Z.eqb_eq in E. intros H; inversion H; subst. reflexivity.
  - split; cbn; auto. intros j c. unfold rget. rewrite rget_mset.
    destruct (Z.eqb i j) eqn:E; [|apply W1]. apply Z.eqb_eq in E. intros H; inversion H; subst. reflexivity.
Qed.

Lemma wf_terminate s i : wf s -> wf (terminate s i).
Proof.
  intros [W1 W2]. unfold terminate. destruct (rget (running s) i) as [c|] eqn:Hr; [|split; auto].
  split; cbn.
  - intros j c'. unfold rget. rewrite rget_mdel. destruct (Z.eqb i j); [discriminate | apply W1].
  - intros l c'. unfold lget. rewrite lget_mset. destruct (lname_eqb (LCont c) l) eqn:E; [|apply W2].
    apply lname_eqb_spec in E. intros H; inversion H; subst. now right.
Qed.

Lemma wf_add_inst_link s c : wf s -> wf (with_cleanup s (mset lname_eqb (cleanup s) (LInst (app_name c)) c)).
Proof.
  intros [W1 W2]. split; cbn; auto.
  intros l c'. unfold lget. rewrite lget_mset. destruct (lname_eqb (LInst (app_name c)) l) eqn:E; [|apply W2].
  apply lname_eqb_spec in E. intros H; inversion H; subst. now left.
Qed.

Lemma wf_add_cleanup_link s o c : wf s -> wf (add_cleanup_link s o c).
Proof. intros W. unfold add_cleanup_link. destruct o; [exact W | now apply wf_add_inst_link]. Qed.

Lemma wf_sync_container s cached c : wf s -> wf (fst (sync_container (s, cached) c)).
Proof.
  intros W. unfold sync_container.
  destruct (opt_is c (linked s (rget (running s) (app_name c)))).
  { destruct (opt_is c (mget Z.eqb cached (app_name c))); cbn [fst]; [exact W | now apply wf_terminate]. }
  destruct (opt_is c (linked s (lget (cleanup s) (LInst (app_name c))))); [exact W|].
  destruct (opt_is c (mget Z.eqb cached (app_name c))).
  - destruct (has_cleanup_file s c).
    + cbn [fst]. now apply wf_add_cleanup_link.
    + destruct (configure s (app_name c)) as [s1 ok] eqn:Hc.
      assert (W1 : wf s1) by (change s1 with (fst (s1, ok)); rewrite <- Hc; now apply wf_configure).
      cbn [fst]. destruct ok; [exact W1 | now apply wf_add_cleanup_link].
  - cbn [fst]. now apply wf_add_cleanup_link.
Qed.

Lemma wf_fold_sync l : forall s cached, wf s -> wf (fst (fold_left sync_container l (s, cached))).
Proof.
  induction l as [|c l IH]; intros s cached W; cbn [fold_left]; [exact W|].
  destruct (sync_container (s, cached) c) as [s1 c1] eqn:H.
  apply IH. change s1 with (fst (s1, c1)). rewrite <- H. now apply wf_sync_container.
Qed.

Lemma wf_fold_configure l : forall s, wf s -> wf (fold_left (fun s i => fst (configure s i)) l s).
Proof. induction l as [|i l IH]; intros s W; cbn; auto. apply IH. now apply wf_configure. Qed.

Lemma wf_synchronize s oc oi : wf s -> wf (synchronize s oc oi).
Proof.
  intros W. unfold synchronize.
  destruct (fold_left sync_container _ _) as [s1 cached1] eqn:H.
  apply wf_fold_configure. change s1 with (fst (s1, cached1)). rewrite <- H. now apply wf_fold_sync.
Qed.

Lemma wf_handle s e oc oi : wf s -> wf (handle s e oc oi).
Proof.
  intros W. destruct e as [i|i| | |b]; cbn.
  - destruct (negb (active s)); auto. destruct (rget (running s) i); auto.
    destruct (is_finished s i); auto. now apply wf_configure.
  - destruct (negb (active s)); auto. destruct (runs_manifest s i); auto. now apply wf_terminate.
  - destruct (active s); auto. apply wf_synchronize. exact (wf_same_links s _ eq_refl eq_refl W).
  - exact (wf_same_links s _ eq_refl eq_refl W).
  - exact W.
Qed.

Lemma wf_flag_cont s c k : wf s -> wf (flag_cont s c k).
Proof.
  intros W. unfold flag_cont. destruct (aget (apps s) c); auto.
  unfold mark_finished. destruct (memb cont_eqb c _); exact (wf_same_links s _ eq_refl eq_refl W).
Qed.

Lemma wf_step s o : wf s -> wf (step s o).
Proof.
  intros W. destruct o as [i f ok|i| | |b|oc oi|i k|c k|l| |]; cbn.
  - exact (wf_same_links s _ eq_refl eq_refl W).
  - destruct (cget (cache s) i); [exact (wf_same_links s _ eq_refl eq_refl W) | exact W].
  - exact (wf_same_links s _ eq_refl eq_refl W).
  - exact (wf_same_links s _ eq_refl eq_refl W).
  - exact (wf_same_links s _ eq_refl eq_refl W).
  - destruct (queue s) as [|e q]; auto. apply wf_handle. exact (wf_same_links s _ eq_refl eq_refl W).
  - destruct (rget (running s) i) as [c|] eqn:Hr; auto.
    assert (W1 := wf_flag_cont s c k W).
    assert (Hrun : running (flag_cont s c k) = running s).
    { unfold flag_cont. destruct (aget (apps s) c); auto. unfold mark_finished. destruct (memb cont_eqb c _); auto. }
    destruct W as [Wr Wc]. destruct W1 as [W1r W1c]. split; cbn.
    + intros j c'. unfold rget. rewrite rget_mdel. destruct (Z.eqb i j); [discriminate | apply W1r].
    + intros l c'. unfold lget. rewrite lget_mset. destruct (lname_eqb (LInst i) l) eqn:E; [|apply W1c].
      apply lname_eqb_spec in E. intros H; inversion H; subst. left. now rewrite (Wr i c' Hr).
  - now apply wf_flag_cont.
  - destruct (lget (cleanup s) l) as [c|]; auto. destruct W as [Wr Wc]. split; cbn; auto.
    intros l' c'. unfold lget. rewrite lget_mdel. destruct (lname_eqb l l'); [discriminate | apply Wc].
  - exact (wf_same_links s _ eq_refl eq_refl W).
  - split; cbn; intros; discriminate.
Qed.

Lemma wf_run ops : forall s, wf s -> wf (run ops s).
Proof. induction ops as [|o r IH]; intros s W; cbn; auto. apply IH. now apply wf_step. Qed.

(** every event sequence: a container is linked at most as running/<its instance>,
    cleanup/<its instance> and cleanup/<its own name> *)
Theorem links_wf_all ops : wf (run ops init).
Proof. apply wf_run, wf_init. Qed.

(** * Handlers other than a resynchronisation *)

(** a deleted event for a cached-out instance hands its running container to cleanup *)
Lemma deleted_hands_over s i c oc oi :
  active s = true -> rget (running s) i = Some c -> runs_manifest s i = false ->
  let s' := handle s (EvDeleted i) oc oi in
  rget (running s') i = None /\ lget (cleanup s') (LCont c) = Some c /\
  (forall j, j <> i -> rget (running s') j = rget (running s) j).
Proof.
  intros Ha Hr Hm. cbn. rewrite Ha, Hm. cbn. unfold terminate. rewrite Hr. cbn. repeat split.
  - unfold rget. rewrite rget_mdel. now rewrite Z.eqb_refl.
  - unfold lget. rewrite lget_mset. now rewrite (proj2 (lname_eqb_spec _ _) eq_refl).
  - intros j Hj. unfold rget. rewrite rget_mdel. destruct (Z.eqb i j) eqn:E; auto.
    apply Z.eqb_eq in E. congruence.
Qed.

Lemma configure_running_other s i j : j <> i -> rget (running (fst (configure s i))) j = rget (running s) j.
Proof.
  intros Hj. unfold configure. destruct (cget (cache s) i) as [[f [|]]|]; cbn [fst]; auto.
  assert (E : Z.eqb i j = false) by (apply Z.eqb_neq; congruence).
  destruct (aget (apps s) (i, f)); cbn; unfold rget; rewrite rget_mset, E; reflexivity.
Qed.

Lemma terminate_running_other s i j : j <> i -> rget (running (terminate s i)) j = rget (running s) j.
Proof.
  intros Hj. unfold terminate. destruct (rget (running s) i); auto. cbn.
  unfold rget. rewrite rget_mdel. destruct (Z.eqb i j) eqn:E; auto. apply Z.eqb_eq in E. congruence.
Qed.

(** every handler except a deleted event for the instance itself and a resynchronisation
    leaves a running link alone *)
Lemma handler_keeps_running s e oc oi i c :
  rget (running s) i = Some c ->
  (e = EvDeleted i -> runs_manifest s i = true) -> (e = EvReadyUp -> active s = true) ->
  rget (running (handle s e oc oi)) i = Some c.
Proof.
  intros Hr Hd Hu. destruct e as [j|j| | |b]; cbn.
  - destruct (negb (active s)); auto. destruct (Z.eq_dec j i) as [->|Hj].
    + now rewrite Hr.
    + destruct (rget (running s) j); auto. destruct (is_finished s j); auto.
      rewrite configure_running_other; auto.
  - destruct (negb (active s)); auto. destruct (Z.eq_dec j i) as [->|Hj].
    + now rewrite (Hd eq_refl).
    + destruct (runs_manifest s j); auto. rewrite terminate_running_other; auto.
  - now rewrite (Hu eq_refl).
  - exact Hr.
  - exact Hr.
Qed.

(** a created event configures exactly the container of the current cache entry, unless it finished *)
Lemma created_configures s i f oc oi :
  active s = true -> rget (running s) i = None -> cget (cache s) i = Some (f, true) ->
  is_finished s i = false ->
  rget (running (handle s (EvCreated i) oc oi)) i = Some (i, f).
Proof.
  intros Ha Hr Hc Hf. cbn. rewrite Ha, Hr, Hf. cbn. unfold configure. rewrite Hc.
  destruct (aget (apps s) (i, f)); cbn; unfold rget; rewrite rget_mset, Z.eqb_refl; reflexivity.
Qed.

(** no handler for a cache event starts a container that has a cleanup file and is not running *)
Lemma event_no_restart s e oc oi c fl :
  e <> EvReadyUp ->
  aget (apps s) c = Some fl -> flagged fl = true -> rget (running s) (app_name c) <> Some c ->
  rget (running (handle s e oc oi)) (app_name c) <> Some c.
Proof.
  intros He Ha Hfl Hr. destruct e as [j|j| | |b]; cbn; auto; try congruence.
  - destruct (negb (active s)); auto. destruct (rget (running s) j) eqn:Hj; auto.
    destruct (is_finished s j) eqn:Hf; auto.
    destruct (Z.eq_dec j (app_name c)) as [->|Hne].
    + unfold configure. destruct (cget (cache s) (app_name c)) as [[f [|]]|] eqn:Hc; cbn [fst]; auto.
      intros H.
      assert (Hrun : Some (app_name c, f) = Some c).
      { destruct (aget (apps s) (app_name c, f)); cbn in H; unfold rget in H;
          rewrite rget_mset, Z.eqb_refl in H; exact H. }
      assert (Hc' : (app_name c, f) = c) by congruence.
      unfold is_finished, current_cont in Hf. rewrite Hc in Hf.
      unfold has_cleanup_file in Hf. rewrite Hc', Ha in Hf. congruence.
    + rewrite configure_running_other by congruence. exact Hr.
  - destruct (negb (active s)); auto. destruct (runs_manifest s j); auto.
    destruct (Z.eq_dec j (app_name c)) as [->|Hne].
    + unfold terminate. destruct (rget (running s) (app_name c)) eqn:E; [|rewrite E; discriminate]. cbn.
      unfold rget. rewrite rget_mdel, Z.eqb_refl. discriminate.
    + rewrite terminate_running_other by congruence. exact Hr.
Qed.

(** * Ordered iteration over a set *)
Section Arrange.
  Context {A : Type} (eqb : A -> A -> bool).
  Hypothesis eqb_spec : forall a b, eqb a b = true <-> a = b.

  Lemma memb_In x l : memb eqb x l = true <-> In x l.
  Proof.
    induction l as [|y r IH]; cbn; [split; [discriminate | tauto]|].
    rewrite orb_true_iff, IH, eqb_spec. tauto.
  Qed.
  Lemma memb_false x l : memb eqb x l = false <-> ~ In x l.
  Proof. rewrite <- memb_In. destruct (memb eqb x l); split; congruence. Qed.

  Lemma dedupb_In x l : In x (dedupb eqb l) <-> In x l.
  Proof.
    induction l as [|y r IH]; cbn; [tauto|].
    destruct (memb eqb y r) eqn:E.
    - rewrite IH. apply memb_In in E. split; [auto | intros [H|H]; [subst; auto | auto]].
    - cbn. rewrite IH. tauto.
  Qed.
  Lemma dedupb_NoDup l : NoDup (dedupb eqb l).
  Proof.
    induction l as [|y r IH]; cbn; [constructor|].
    destruct (memb eqb y r) eqn:E; auto. constructor; auto. rewrite dedupb_In. now apply memb_false.
  Qed.

  Lemma arrangeb_In ord l x : In x (arrangeb eqb ord l) <-> In x l.
  Proof.
    unfold arrangeb. rewrite in_app_iff, !filter_In, dedupb_In, memb_In, negb_true_iff, memb_false.
    split; [tauto|]. intros H. destruct (memb eqb x ord) eqn:E.
    - left. split; auto. now apply memb_In.
    - right. split; auto. now apply memb_false.
  Qed.

  Lemma NoDup_filter' (f : A -> bool) l : NoDup l -> NoDup (filter f l).
  Proof.
    induction 1 as [|x l Hx Hl IH]; cbn; [constructor|].
    destruct (f x); auto. constructor; auto. rewrite filter_In. tauto.
  Qed.

  Lemma arrangeb_NoDup ord l : NoDup l -> NoDup (arrangeb eqb ord l).
  Proof.
    intros Hl. unfold arrangeb.
    assert (H1 := NoDup_filter' (fun x => memb eqb x l) _ (dedupb_NoDup ord)).
    assert (H2 := NoDup_filter' (fun x => negb (memb eqb x ord)) _ Hl).
    assert (Hd : forall x, In x (filter (fun x => memb eqb x l) (dedupb eqb ord)) ->
                           ~ In x (filter (fun x => negb (memb eqb x ord)) l)).
    { intros x HA HB. rewrite filter_In in HA, HB. destruct HA as [HA _]. destruct HB as [_ HB].
      rewrite dedupb_In in HA. apply negb_true_iff in HB. apply memb_false in HB. exact (HB HA). }
    revert H1 H2 Hd. generalize (filter (fun x => memb eqb x l) (dedupb eqb ord)) as l1.
    generalize (filter (fun x => negb (memb eqb x ord)) l) as l2.
    intros l2 l1 H1 H2. induction H1 as [|x l1 Hx Hl1 IH]; cbn; intros Hd; auto.
    constructor.
    - rewrite in_app_iff. intros [H|H]; [auto | apply (Hd x); cbn; auto].
    - apply IH. intros y Hy. apply Hd. cbn; auto.
  Qed.
End Arrange.

Lemma NoDup_split {A} (c : A) l : NoDup l -> In c l -> exists l1 l2, l = l1 ++ c :: l2 /\ ~ In c l1 /\ ~ In c l2.
Proof.
  intros Hnd Hin. destruct (in_split _ _ Hin) as (l1 & l2 & ->).
  exists l1, l2. split; auto. apply NoDup_remove_2 in Hnd. rewrite in_app_iff in Hnd. tauto.
Qed.

(** * One instance's view of the state; steps about other instances do not change it *)
Definition same_inst (i : inst) (s s' : st) : Prop :=
  cget (cache s') i = cget (cache s) i /\
  rget (running s') i = rget (running s) i /\
  lget (cleanup s') (LInst i) = lget (cleanup s) (LInst i) /\
  (forall f, lget (cleanup s') (LCont (i, f)) = lget (cleanup s) (LCont (i, f))) /\
  (forall f, aget (apps s') (i, f) = aget (apps s) (i, f)).

Lemma same_inst_refl i s : same_inst i s s.
Proof. repeat split; auto. Qed.

Lemma same_inst_trans i s1 s2 s3 : same_inst i s1 s2 -> same_inst i s2 s3 -> same_inst i s1 s3.
Proof.
  intros (A1 & A2 & A3 & A4 & A5) (B1 & B2 & B3 & B4 & B5).
  repeat split; intros; congruence.
Qed.

Lemma same_inst_sym i s1 s2 : same_inst i s1 s2 -> same_inst i s2 s1.
Proof. intros (A1 & A2 & A3 & A4 & A5). repeat split; intros; symmetry; auto. Qed.

Lemma configure_other s i j : j <> i -> same_inst i s (fst (configure s j)).
Proof.
  intros Hj. assert (E : Z.eqb j i = false) by (apply Z.eqb_neq; congruence).
  unfold configure. destruct (cget (cache s) j) as [[f [|]]|]; cbn [fst]; [| | apply same_inst_refl].
  - assert (Ea : forall f', cont_eqb (j, f) (i, f') = false).
    { intros f'. apply cont_eqb_false. intros H; inversion H; congruence. }
    destruct (aget (apps s) (j, f)); cbn; repeat split; cbn; auto;
      try (unfold rget; rewrite rget_mset, E; reflexivity).
    intros f'. unfold aget. rewrite aget_mset, Ea. reflexivity.
  - repeat split; cbn; auto. unfold cget. rewrite cget_mdel, E. reflexivity.
Qed.

Lemma terminate_other s i j : j <> i -> wf s -> same_inst i s (terminate s j).
Proof.
  intros Hj [W1 _]. assert (E : Z.eqb j i = false) by (apply Z.eqb_neq; congruence).
  unfold terminate. destruct (rget (running s) j) as [c|] eqn:Hr; [|apply same_inst_refl].
  assert (Hc : app_name c = j) by (now apply W1).
  repeat split; cbn; auto.
  - unfold rget. rewrite rget_mdel, E. reflexivity.
  - unfold lget. rewrite lget_mset. reflexivity.
  - intros f. unfold lget. rewrite lget_mset.
    assert (El : lname_eqb (LCont c) (LCont (i, f)) = false).
    { apply lname_eqb_false. intros H; inversion H; subst. cbn in Hj. congruence. }
    now rewrite El.
Qed.

Lemma add_inst_link_other s i c' :
  app_name c' <> i -> same_inst i s (with_cleanup s (mset lname_eqb (cleanup s) (LInst (app_name c')) c')).
Proof.
  intros Hj. repeat split; cbn; auto.
  - unfold lget. rewrite lget_mset.
    assert (El : lname_eqb (LInst (app_name c')) (LInst i) = false).
    { apply lname_eqb_false. intros H; inversion H; congruence. }
    now rewrite El.
  - intros f. unfold lget. rewrite lget_mset. reflexivity.
Qed.

Lemma mget_mdel_other_z {V} (m : list (inst * V)) j i : j <> i -> mget Z.eqb (mdel Z.eqb m j) i = mget Z.eqb m i.
Proof.
  intros Hj. rewrite (mget_mdel Z.eqb zeqb_spec). destruct (Z.eqb j i) eqn:E; auto. apply Z.eqb_eq in E. congruence.
Qed.

Lemma add_cleanup_link_other s i o c' :
  app_name c' <> i -> same_inst i s (add_cleanup_link s o c').
Proof. intros H. unfold add_cleanup_link. destruct o; [apply same_inst_refl | now apply add_inst_link_other]. Qed.

Lemma sync_container_other s cached c' i :
  app_name c' <> i -> wf s ->
  same_inst i s (fst (sync_container (s, cached) c')) /\
  mget Z.eqb (snd (sync_container (s, cached) c')) i = mget Z.eqb cached i.
Proof.
  intros Hj W. unfold sync_container.
  destruct (opt_is c' (linked s (rget (running s) (app_name c')))).
  { destruct (opt_is c' (mget Z.eqb cached (app_name c'))); cbn [fst snd].
    - split; [apply same_inst_refl | now apply mget_mdel_other_z].
    - split; [now apply terminate_other | reflexivity]. }
  destruct (opt_is c' (linked s (lget (cleanup s) (LInst (app_name c'))))).
  { cbn [fst snd]. split; [apply same_inst_refl|].
    destruct (opt_is c' (mget Z.eqb cached (app_name c'))); [now apply mget_mdel_other_z | reflexivity]. }
  destruct (opt_is c' (mget Z.eqb cached (app_name c'))).
  - destruct (has_cleanup_file s c').
    + cbn [fst snd]. split; [now apply add_cleanup_link_other | now apply mget_mdel_other_z].
    + destruct (configure s (app_name c')) as [s1 ok] eqn:Hc.
      assert (S1 : same_inst i s s1) by (change s1 with (fst (s1, ok)); rewrite <- Hc; now apply configure_other).
      cbn [fst snd]. split; [|now apply mget_mdel_other_z].
      destruct ok; auto. eapply same_inst_trans; [exact S1 | now apply add_cleanup_link_other].
  - cbn [fst snd]. split; [now apply add_cleanup_link_other | reflexivity].
Qed.

Lemma fold_sync_other i l : forall s cached,
  wf s -> (forall c', In c' l -> app_name c' <> i) ->
  same_inst i s (fst (fold_left sync_container l (s, cached))) /\
  mget Z.eqb (snd (fold_left sync_container l (s, cached))) i = mget Z.eqb cached i /\
  wf (fst (fold_left sync_container l (s, cached))).
Proof.
  induction l as [|c' l IH]; intros s cached W Hl; cbn [fold_left].
  - split; [apply same_inst_refl | split; [reflexivity | exact W]].
  - destruct (sync_container (s, cached) c') as [s1 c1] eqn:H.
    assert (Hc : app_name c' <> i) by (apply Hl; cbn; auto).
    destruct (sync_container_other s cached c' i Hc W) as [S1 M1]. rewrite H in S1, M1. cbn [fst snd] in S1, M1.
    assert (W1 : wf s1) by (change s1 with (fst (s1, c1)); rewrite <- H; now apply wf_sync_container).
    destruct (IH s1 c1 W1 (fun x Hx => Hl x (or_intror Hx))) as (S2 & M2 & W2).
    split; [eapply same_inst_trans; eauto | split; [congruence | exact W2]].
Qed.

(** the final loop of _synchronize: configure is idempotent on its own instance and a frame for the others *)
Ltac si_split := split; [|split; [|split; [|split]]].
Ltac psimpl := cbn [cache apps running cleanup active queue finished with_cache with_apps with_running
                    with_cleanup with_active with_queue with_finished enqueue fst snd].

Ltac psimpl_in H := cbn [cache apps running cleanup active queue finished with_cache with_apps with_running
                           with_cleanup with_active with_queue with_finished enqueue fst snd] in H.

Lemma configure_congr s1 s2 i :
  same_inst i s1 s2 -> same_inst i (fst (configure s1 i)) (fst (configure s2 i)).
Proof.
  intros (A1 & A2 & A3 & A4 & A5). unfold configure. rewrite A1.
  destruct (cget (cache s1) i) as [[f [|]]|] eqn:Hc1; psimpl.
  - rewrite (A5 f). destruct (aget (apps s1) (i, f)); si_split; psimpl; auto; try congruence.
    + unfold rget. rewrite !rget_mset. now rewrite Z.eqb_refl.
    + unfold rget. rewrite !rget_mset. now rewrite Z.eqb_refl.
    + intros f'. unfold aget. rewrite !aget_mset. destruct (cont_eqb (i, f) (i, f')); auto.
  - si_split; psimpl; auto. unfold cget. rewrite !cget_mdel. now rewrite Z.eqb_refl.
  - si_split; auto; congruence.
Qed.

Lemma configure_idem s i : same_inst i (fst (configure s i)) (fst (configure (fst (configure s i)) i)).
Proof.
  destruct (cget (cache s) i) as [[f [|]]|] eqn:Hc.
  - set (s' := fst (configure s i)).
    assert (Hc' : cget (cache s') i = Some (f, true)).
    { unfold s', configure. rewrite Hc. destruct (aget (apps s) (i, f)); exact Hc. }
    assert (Ha' : exists fl, aget (apps s') (i, f) = Some fl).
    { unfold s', configure. rewrite Hc. destruct (aget (apps s) (i, f)) eqn:Ha; psimpl.
      - eexists; exact Ha.
      - unfold aget. rewrite aget_mset, (proj2 (cont_eqb_spec _ _) eq_refl). eexists; reflexivity. }
    assert (Hr' : rget (running s') i = Some (i, f)).
    { unfold s', configure. rewrite Hc. destruct (aget (apps s) (i, f)); psimpl;
        unfold rget; rewrite rget_mset, Z.eqb_refl; reflexivity. }
    destruct Ha' as [fl Ha']. unfold configure. rewrite Hc', Ha'. psimpl.
    si_split; psimpl; auto. rewrite Hr'. unfold rget. rewrite rget_mset, Z.eqb_refl. reflexivity.
  - assert (Hc' : cget (cache (fst (configure s i))) i = None).
    { unfold configure. rewrite Hc. psimpl. unfold cget. rewrite cget_mdel, Z.eqb_refl. reflexivity. }
    unfold configure at 2. rewrite Hc'. apply same_inst_refl.
  - unfold configure. rewrite Hc. psimpl. rewrite Hc. apply same_inst_refl.
Qed.

Lemma final_loop_not_in i l : forall s, ~ In i l -> same_inst i s (fold_left (fun s j => fst (configure s j)) l s).
Proof.
  induction l as [|j l IH]; intros s Hn; cbn [fold_left]; [apply same_inst_refl|].
  eapply same_inst_trans; [apply (configure_other s i j) | apply IH].
  - intros ->. apply Hn. cbn; auto.
  - intros H. apply Hn. cbn; auto.
Qed.

Lemma final_loop_after i l : forall s0 s,
  same_inst i (fst (configure s0 i)) s -> same_inst i (fst (configure s0 i)) (fold_left (fun s j => fst (configure s j)) l s).
Proof.
  induction l as [|j l IH]; intros s0 s Hs; cbn [fold_left]; auto.
  apply IH. destruct (Z.eq_dec j i) as [->|Hj].
  - eapply same_inst_trans; [apply configure_idem|]. now apply configure_congr.
  - eapply same_inst_trans; [exact Hs | now apply configure_other].
Qed.

Lemma final_loop_in i l : forall s, In i l -> same_inst i (fst (configure s i)) (fold_left (fun s j => fst (configure s j)) l s).
Proof.
  induction l as [|j l IH]; intros s Hin; [destruct Hin|]. cbn [fold_left].
  destruct (Z.eq_dec j i) as [->|Hj].
  - apply final_loop_after. apply same_inst_refl.
  - destruct Hin as [->|Hin]; [congruence|].
    eapply same_inst_trans; [|apply (IH _ Hin)].
    apply configure_congr. now apply configure_other.
Qed.

(** * What _synchronize does to an instance whose only container directory is [c] *)
Lemma cont_eta (c : cont) : c = (app_name c, snd c).
Proof. destruct c; reflexivity. Qed.

Lemma linked_congr i s1 s2 (o : option cont) :
  same_inst i s1 s2 -> (forall c, o = Some c -> app_name c = i) ->
  linked s2 o = linked s1 o.
Proof.
  intros (_ & _ & _ & _ & A5) Ho. destruct o as [c|]; cbn; auto.
  rewrite (cont_eta c), (Ho c eq_refl). now rewrite A5.
Qed.

Lemma terminate_congr i s1 s2 :
  same_inst i s1 s2 -> same_inst i (terminate s1 i) (terminate s2 i).
Proof.
  intros (A1 & A2 & A3 & A4 & A5). unfold terminate. rewrite A2.
  destruct (rget (running s1) i) as [c|] eqn:Hr; [|si_split; auto; congruence].
  si_split; psimpl; auto.
  - unfold rget. rewrite !rget_mdel. now rewrite Z.eqb_refl.
  - unfold lget. rewrite !lget_mset. cbn. exact A3.
  - intros f. unfold lget. rewrite !lget_mset. destruct (lname_eqb (LCont c) (LCont (i, f))); auto.
Qed.

Lemma add_link_congr i s1 s2 c :
  same_inst i s1 s2 ->
  same_inst i (with_cleanup s1 (mset lname_eqb (cleanup s1) (LInst i) c))
              (with_cleanup s2 (mset lname_eqb (cleanup s2) (LInst i) c)).
Proof.
  intros (A1 & A2 & A3 & A4 & A5). si_split; psimpl; auto.
  - unfold lget. rewrite !lget_mset. now rewrite (proj2 (lname_eqb_spec _ _) eq_refl).
  - intros f. unfold lget. rewrite !lget_mset. cbn. apply A4.
Qed.

Lemma add_cleanup_link_congr i s1 s2 o f0 :
  same_inst i s1 s2 -> same_inst i (add_cleanup_link s1 o (i, f0)) (add_cleanup_link s2 o (i, f0)).
Proof. intros S. unfold add_cleanup_link. destruct o; auto. cbn [app_name fst]. now apply add_link_congr. Qed.

Lemma sync_container_congr i f0 s1 s2 c1 c2 :
  same_inst i s1 s2 -> wf s1 -> mget Z.eqb c2 i = mget Z.eqb c1 i ->
  same_inst i (fst (sync_container (s1, c1) (i, f0))) (fst (sync_container (s2, c2) (i, f0))) /\
  mget Z.eqb (snd (sync_container (s2, c2) (i, f0))) i = mget Z.eqb (snd (sync_container (s1, c1) (i, f0))) i.
Proof.
  intros S [W1 W2] Hc. assert (S' := S). destruct S' as (A1 & A2 & A3 & A4 & A5).
  unfold sync_container. cbn [app_name fst].
  rewrite Hc, A2, A3. unfold has_cleanup_file. rewrite (A5 f0).
  rewrite (linked_congr i s1 s2 (rget (running s1) i) S) by (intros c H; now apply W1).
  rewrite (linked_congr i s1 s2 (lget (cleanup s1) (LInst i)) S).
  2:{ intros c H. destruct (W2 _ _ H) as [E|E]; inversion E; auto. }
  assert (Hdel : mget Z.eqb (mdel Z.eqb c2 i) i = mget Z.eqb (mdel Z.eqb c1 i) i).
  { rewrite !(mget_mdel Z.eqb zeqb_spec). now rewrite Z.eqb_refl. }
  destruct (opt_is (i, f0) (linked s1 (rget (running s1) i))).
  { destruct (opt_is (i, f0) (mget Z.eqb c1 i)); cbn [fst snd]; split; auto. now apply terminate_congr. }
  destruct (opt_is (i, f0) (linked s1 (lget (cleanup s1) (LInst i)))).
  { cbn [fst snd]. split; auto. destruct (opt_is (i, f0) (mget Z.eqb c1 i)); auto. }
  destruct (opt_is (i, f0) (mget Z.eqb c1 i)).
  - destruct (match aget (apps s1) (i, f0) with Some f => flagged f | None => false end).
    + cbn [fst snd]. split; auto. now apply add_cleanup_link_congr.
    + assert (C := configure_congr s1 s2 i S).
      assert (Hok : snd (configure s2 i) = snd (configure s1 i)).
      { unfold configure. rewrite A1. destruct (cget (cache s1) i) as [[f [|]]|]; reflexivity. }
      destruct (configure s1 i) as [t1 ok1]. destruct (configure s2 i) as [t2 ok2].
      cbn [fst snd] in *. subst ok2. split; auto. destruct ok1; auto. now apply add_cleanup_link_congr.
  - cbn [fst snd]. split; auto. now apply add_cleanup_link_congr.
Qed.

Lemma cached0_get (c : list (inst * (Z * bool))) i :
  mget Z.eqb (map (fun kv => (fst kv, (fst kv, fst (snd kv)))) c) i =
  match cget c i with Some v => Some (i, fst v) | None => None end.
Proof.
  induction c as [|[k v] r IH]; cbn; auto.
  destruct (Z.eqb k i) eqn:E; auto. apply Z.eqb_eq in E. now subst.
Qed.

Lemma mget_keys {V} (m : list (inst * V)) i : In i (map fst m) <-> mget Z.eqb m i <> None.
Proof.
  induction m as [|[k v] r IH]; cbn; [split; [tauto | congruence]|].
  destruct (Z.eqb k i) eqn:E.
  - apply Z.eqb_eq in E. split; [congruence | auto].
  - apply Z.eqb_neq in E. rewrite IH. split; [intros [H|H]; [congruence | auto] | auto].
Qed.

Definition cached0 (s : st) : list (inst * cont) := map (fun kv => (fst kv, (fst kv, fst (snd kv)))) (cache s).

(** * _synchronize seen from one instance: only the containers of that instance matter *)
Definition of_inst (i : inst) (c : cont) : bool := Z.eqb (app_name c) i.

Lemma fold_sync_other_eq i l s cached sA cA :
  wf s -> (forall c', In c' l -> app_name c' <> i) ->
  fold_left sync_container l (s, cached) = (sA, cA) ->
  same_inst i s sA /\ mget Z.eqb cA i = mget Z.eqb cached i /\ wf sA.
Proof. intros W Ho H. generalize (fold_sync_other i l s cached W Ho). rewrite H. auto. Qed.

Lemma sync_container_congr_eq i f0 s1 s2 c1 c2 t1 d1 t2 d2 :
  same_inst i s1 s2 -> wf s1 -> mget Z.eqb c2 i = mget Z.eqb c1 i ->
  sync_container (s1, c1) (i, f0) = (t1, d1) -> sync_container (s2, c2) (i, f0) = (t2, d2) ->
  same_inst i t1 t2 /\ mget Z.eqb d2 i = mget Z.eqb d1 i.
Proof. intros S W M H1 H2. generalize (sync_container_congr i f0 s1 s2 c1 c2 S W M). rewrite H1, H2. auto. Qed.

Lemma sync_container_other_eq s cached c' i t d :
  app_name c' <> i -> wf s -> sync_container (s, cached) c' = (t, d) ->
  same_inst i s t /\ mget Z.eqb d i = mget Z.eqb cached i.
Proof. intros H W E. generalize (sync_container_other s cached c' i H W). rewrite E. auto. Qed.

Lemma wf_sync_container_eq s cached c t d : wf s -> sync_container (s, cached) c = (t, d) -> wf t.
Proof. intros W E. generalize (wf_sync_container s cached c W). now rewrite E. Qed.

Lemma fold_proj i : forall L s1 c1 s2 c2 t1 d1 t2 d2,
  wf s1 -> wf s2 -> same_inst i s1 s2 -> mget Z.eqb c2 i = mget Z.eqb c1 i ->
  fold_left sync_container L (s1, c1) = (t1, d1) ->
  fold_left sync_container (filter (of_inst i) L) (s2, c2) = (t2, d2) ->
  same_inst i t1 t2 /\ mget Z.eqb d2 i = mget Z.eqb d1 i.
Proof.
  induction L as [|c' L IH]; intros s1 c1 s2 c2 t1 d1 t2 d2 W1 W2 S M H1 H2.
  - cbn in H1, H2. inversion H1; inversion H2; subst. auto.
  - cbn [fold_left filter] in H1, H2.
    destruct (sync_container (s1, c1) c') as [u1 e1] eqn:E1.
    destruct (of_inst i c') eqn:Ei.
    + destruct c' as [j f]. unfold of_inst in Ei. cbn in Ei. apply Z.eqb_eq in Ei. subst j.
      cbn [fold_left] in H2.
      destruct (sync_container (s2, c2) (i, f)) as [u2 e2] eqn:E2.
      destruct (sync_container_congr_eq i f s1 s2 c1 c2 u1 e1 u2 e2 S W1 M E1 E2) as [SB MB].
      assert (V1 : wf u1) by exact (wf_sync_container_eq s1 c1 (i, f) u1 e1 W1 E1).
      assert (V2 : wf u2) by exact (wf_sync_container_eq s2 c2 (i, f) u2 e2 W2 E2).
      exact (IH u1 e1 u2 e2 t1 d1 t2 d2 V1 V2 SB MB H1 H2).
    + assert (Hne : app_name c' <> i) by (unfold of_inst in Ei; now apply Z.eqb_neq in Ei).
      destruct (sync_container_other_eq s1 c1 c' i u1 e1 Hne W1 E1) as [SB MB].
      assert (V1 : wf u1) by exact (wf_sync_container_eq s1 c1 c' u1 e1 W1 E1).
      assert (S' : same_inst i u1 s2) by (eapply same_inst_trans; [apply same_inst_sym; exact SB | exact S]).
      assert (M' : mget Z.eqb c2 i = mget Z.eqb e1 i) by congruence.
      exact (IH u1 e1 s2 c2 t1 d1 t2 d2 V1 W2 S' M' H1 H2).
Qed.

Definition inst_conts (s : st) (oc : list cont) (i : inst) : list cont :=
  filter (of_inst i) (arrangeb cont_eqb oc (map fst (apps s))).

Theorem sync_proj s oc oi i sB cB :
  wf s ->
  fold_left sync_container (inst_conts s oc i) (s, cached0 s) = (sB, cB) ->
  same_inst i (match mget Z.eqb cB i with Some _ => fst (configure sB i) | None => sB end)
              (synchronize s oc oi).
Proof.
  intros W HB. unfold synchronize. fold (cached0 s).
  destruct (fold_left sync_container (arrangeb cont_eqb oc (map fst (apps s))) (s, cached0 s)) as [sC cC] eqn:HC.
  destruct (fold_proj i _ s (cached0 s) s (cached0 s) sC cC sB cB W W (same_inst_refl i s) eq_refl HC HB) as [S M].
  rewrite M.
  destruct (mget Z.eqb cC i) eqn:Hm.
  - eapply same_inst_trans; [apply configure_congr; apply same_inst_sym; exact S|].
    apply final_loop_in. apply (arrangeb_In Z.eqb zeqb_spec). apply mget_keys.
    intros Hx. pose proof (eq_trans (eq_sym Hm) Hx) as Hy. discriminate Hy.
  - eapply same_inst_trans; [apply same_inst_sym; exact S|].
    apply final_loop_not_in. intros Hin2. apply (arrangeb_In Z.eqb zeqb_spec) in Hin2.
    apply mget_keys in Hin2. exact (Hin2 Hm).
Qed.

Lemma aget_keys (m : list (cont * flags)) c : In c (map fst m) <-> aget m c <> None.
Proof.
  unfold aget. induction m as [|[k v] r IH]; cbn; [split; [tauto | congruence]|].
  destruct (cont_eqb k c) eqn:E.
  - apply cont_eqb_spec in E. split; [congruence | auto].
  - apply cont_eqb_false in E. rewrite IH. split; [intros [H|H]; [congruence | auto] | auto].
Qed.

Lemma inst_conts_spec s oc i c : In c (inst_conts s oc i) <-> app_name c = i /\ aget (apps s) c <> None.
Proof.
  unfold inst_conts. rewrite filter_In, (arrangeb_In cont_eqb cont_eqb_spec), aget_keys.
  unfold of_inst. rewrite Z.eqb_eq. tauto.
Qed.

Lemma inst_conts_NoDup s oc i : NoDup (map fst (apps s)) -> NoDup (inst_conts s oc i).
Proof. intros H. unfold inst_conts. apply NoDup_filter'. now apply (arrangeb_NoDup cont_eqb cont_eqb_spec). Qed.

(** ** containers of the instance that are not the cached generation *)
Lemma linked_apps s s' o : apps s' = apps s -> linked s' o = linked s o.
Proof. intros H. unfold linked. now rewrite H. Qed.

Lemma linked_some s o x : linked s o = Some x -> o = Some x /\ aget (apps s) x <> None.
Proof.
  unfold linked. destruct o as [c|]; [|discriminate]. destruct (aget (apps s) c) eqn:E; [|discriminate].
  intros H; inversion H; subst. split; [reflexivity | congruence].
Qed.

Lemma opt_is_true c o : opt_is c o = true <-> o = Some c.
Proof.
  unfold opt_is. destruct o as [c'|]; [|split; discriminate].
  rewrite cont_eqb_spec. split; [intros ->; reflexivity | intros H; inversion H; reflexivity].
Qed.

Lemma opt_is_false_some c x : opt_is c (Some x) = false <-> x <> c.
Proof. unfold opt_is. apply cont_eqb_false. Qed.

Definition Ki (s : st) (i : inst) := lget (cleanup s) (LInst i).

Lemma nc_step s cached i f' t d :
  wf s -> opt_is (i, f') (mget Z.eqb cached i) = false ->
  sync_container (s, cached) (i, f') = (t, d) ->
  d = cached /\ apps t = apps s /\ cache t = cache s /\
  rget (running t) i = (if opt_is (i, f') (linked s (rget (running s) i)) then None else rget (running s) i) /\
  (linked s (Ki s i) <> None -> Ki t i = Ki s i) /\
  (forall x, linked t (Ki t i) = Some x -> linked s (Ki s i) = Some x \/ x = (i, f')) /\
  (forall x, lget (cleanup s) (LCont x) = Some x -> lget (cleanup t) (LCont x) = Some x) /\
  (opt_is (i, f') (linked s (rget (running s) i)) = true -> lget (cleanup t) (LCont (i, f')) = Some (i, f')).
Proof.
  intros W Hnc H. unfold sync_container in H. cbn [app_name fst] in H. rewrite Hnc in H. fold (Ki s i) in H.
  destruct (opt_is (i, f') (linked s (rget (running s) i))) eqn:E1.
  - inversion H; subst t d; clear H.
    apply opt_is_true in E1. apply linked_some in E1. destruct E1 as [Hr _].
    unfold terminate. rewrite Hr. psimpl. repeat split; auto.
    + unfold rget. rewrite rget_mdel, Z.eqb_refl. reflexivity.
    + intros _. unfold Ki. psimpl. unfold lget. rewrite lget_mset. reflexivity.
    + intros x Hx. left. unfold Ki in *. psimpl_in Hx. unfold lget in Hx. rewrite lget_mset in Hx. cbn [lname_eqb] in Hx.
      rewrite <- Hx. symmetry. now apply linked_apps.
    + intros x Hx. unfold lget. rewrite lget_mset. destruct (lname_eqb (LCont (i, f')) (LCont x)) eqn:E; auto.
      apply lname_eqb_spec in E. inversion E; subst. reflexivity.
    + intros _. unfold lget. rewrite lget_mset. now rewrite (proj2 (lname_eqb_spec _ _) eq_refl).
  - destruct (opt_is (i, f') (linked s (Ki s i))) eqn:E2.
    + inversion H; subst t d; clear H. repeat split; auto. discriminate.
    + inversion H; subst t d; clear H. unfold add_cleanup_link. cbn [app_name fst].
      destruct (linked s (Ki s i)) as [k|] eqn:Ek.
      * repeat split; auto; [intros x Hx; left; congruence | discriminate].
      * psimpl. repeat split; auto.
        -- congruence.
        -- intros x Hx. right. unfold Ki in Hx. psimpl_in Hx. unfold lget in Hx. rewrite lget_mset in Hx.
           rewrite (proj2 (lname_eqb_spec _ _) eq_refl) in Hx. apply linked_some in Hx. destruct Hx as [Hx _].
           congruence.
        -- intros x Hx. unfold lget. rewrite lget_mset. cbn. exact Hx.
        -- discriminate.
Qed.

Definition kill (L : list cont) (s : st) (i : inst) : option cont :=
  match linked s (rget (running s) i) with
  | Some x => if memb cont_eqb x L then None else rget (running s) i
  | None => rget (running s) i
  end.

Definition r_killed (s : st) (i : inst) : option cont :=
  match linked s (rget (running s) i) with Some _ => None | None => rget (running s) i end.

Lemma nc_fold i : forall L s cached t d,
  wf s -> (forall c', In c' L -> app_name c' = i /\ opt_is c' (mget Z.eqb cached i) = false) ->
  fold_left sync_container L (s, cached) = (t, d) ->
  d = cached /\ apps t = apps s /\ cache t = cache s /\ wf t /\
  rget (running t) i = kill L s i /\
  (linked s (Ki s i) <> None -> Ki t i = Ki s i) /\
  (forall x, linked t (Ki t i) = Some x -> linked s (Ki s i) = Some x \/ In x L) /\
  (forall x, lget (cleanup s) (LCont x) = Some x -> lget (cleanup t) (LCont x) = Some x) /\
  (forall x, In x L -> linked s (rget (running s) i) = Some x -> lget (cleanup t) (LCont x) = Some x).
Proof.
  induction L as [|c' L IH]; intros s cached t d W HL H.
  - cbn in H. inversion H; subst.
    split; [reflexivity|]. split; [reflexivity|]. split; [reflexivity|]. split; [exact W|].
    split. { unfold kill. destruct (linked t (rget (running t) i)); reflexivity. }
    split; [auto|]. split; [intros x Hx; left; exact Hx|]. split; [auto|]. intros x [].
  - cbn [fold_left] in H.
    destruct (HL c' (or_introl eq_refl)) as [Hi Hnc]. destruct c' as [j f']. cbn in Hi. subst j.
    destruct (sync_container (s, cached) (i, f')) as [s1 d1] eqn:E1.
    destruct (nc_step s cached i f' s1 d1 W Hnc E1) as (N1 & N2 & N3 & N4 & N5 & N6 & N7 & N8).
    subst d1.
    assert (W1 : wf s1) by exact (wf_sync_container_eq s cached (i, f') s1 cached W E1).
    destruct (IH s1 cached t d W1 (fun x Hx => HL x (or_intror Hx)) H) as (I1 & I2 & I3 & I4 & I5 & I6 & I7 & I8 & I9).
    assert (Hlk : forall o, linked s1 o = linked s o) by (intros o; now apply linked_apps).
    split; [exact I1|]. split; [congruence|]. split; [congruence|]. split; [exact I4|].
    split; [|split; [|split; [|split]]].
    + rewrite I5. unfold kill. rewrite Hlk, N4. cbn [memb].
      destruct (linked s (rget (running s) i)) as [x|] eqn:Ex; cbn [opt_is].
      * destruct (cont_eqb x (i, f')) eqn:Exc.
        -- apply cont_eqb_spec in Exc. subst x. unfold cont_eqb. cbn [fst snd].
           rewrite !Z.eqb_refl. cbn [andb orb linked]. reflexivity.
        -- rewrite Ex.
           assert (E' : cont_eqb (i, f') x = false).
           { apply cont_eqb_false. apply cont_eqb_false in Exc. congruence. }
           rewrite E'. reflexivity.
      * rewrite Ex. reflexivity.
    + intros Hk. rewrite I6; [now apply N5|]. rewrite Hlk. rewrite (N5 Hk). exact Hk.
    + intros x Hx. destruct (I7 x Hx) as [Hy|Hy]; [|right; right; exact Hy].
      destruct (N6 x Hy) as [Hz|Hz]; [left; exact Hz | right; left; congruence].
    + intros x Hx. apply I8. now apply N7.
    + intros x [<-|Hx] Hr.
      * apply I8. apply N8. rewrite Hr. apply opt_is_true. reflexivity.
      * destruct (cont_eqb x (i, f')) eqn:Exc.
        -- apply cont_eqb_spec in Exc. subst x. apply I8. apply N8. rewrite Hr. apply opt_is_true. reflexivity.
        -- apply I9; auto. rewrite Hlk, N4, Hr. cbn [opt_is]. rewrite Exc. exact Hr.
Qed.

Lemma memb_app {A} (eqb : A -> A -> bool) x l1 l2 : memb eqb x (l1 ++ l2) = memb eqb x l1 || memb eqb x l2.
Proof. induction l1 as [|y r IH]; cbn; auto. rewrite IH. now rewrite orb_assoc. Qed.

Lemma kill_cases L s i : kill L s i = None \/ kill L s i = rget (running s) i.
Proof. unfold kill. destruct (linked s (rget (running s) i)) as [x|]; auto. destruct (memb cont_eqb x L); auto. Qed.

Lemma kill_compose L1 L2 s t i :
  apps t = apps s -> rget (running t) i = kill L1 s i -> kill L2 t i = kill (L1 ++ L2) s i.
Proof.
  intros Ha Hr.
  assert (E : kill L2 t i = match linked s (kill L1 s i) with
                           | Some x => if memb cont_eqb x L2 then None else kill L1 s i
                           | None => kill L1 s i end).
  { unfold kill at 1. now rewrite (linked_apps s t _ Ha), Hr. }
  rewrite E. unfold kill.
  destruct (linked s (rget (running s) i)) as [x|] eqn:Ex.
  - rewrite memb_app. destruct (memb cont_eqb x L1); cbn [orb linked]; auto. now rewrite Ex.
  - now rewrite Ex.
Qed.

Lemma kill_all L s i : (forall x, linked s (rget (running s) i) = Some x -> In x L) -> kill L s i = r_killed s i.
Proof.
  intros H. unfold kill, r_killed. destruct (linked s (rget (running s) i)) as [x|]; auto.
  rewrite (proj2 (memb_In cont_eqb cont_eqb_spec x L) (H x eq_refl)). reflexivity.
Qed.

Lemma kill_keep L s i c : rget (running s) i = Some c -> ~ In c L -> kill L s i = Some c.
Proof.
  intros Hr Hn. unfold kill. rewrite Hr. destruct (linked s (Some c)) as [x|] eqn:E; auto.
  apply linked_some in E. destruct E as [E _]. inversion E; subst.
  rewrite (proj2 (memb_false cont_eqb cont_eqb_spec x L) Hn). reflexivity.
Qed.

(** ** the running link of an instance after a resynchronisation, every state, any number of generations *)
Definition expected_running (s : st) (i : inst) : option cont :=
  match cget (cache s) i with
  | Some (f, ok) =>
      match aget (apps s) (i, f) with
      | Some fl =>
          if opt_is (i, f) (linked s (rget (running s) i)) then Some (i, f)      (* already running: left alone *)
          else if opt_is (i, f) (linked s (Ki s i)) || flagged fl || negb ok
               then r_killed s i                              (* in cleanup, finished, or configure fails *)
               else Some (i, f)                               (* configured *)
      | None => if ok then Some (i, f) else r_killed s i      (* new manifest: configured *)
      end
  | None => r_killed s i                                      (* not cached: a running generation is terminated *)
  end.

Lemma cached0_i s i :
  mget Z.eqb (cached0 s) i = match cget (cache s) i with Some v => Some ((i, fst v) : cont) | None => None end.
Proof. unfold cached0. apply cached0_get. Qed.

Lemma cached0_del s i : mget Z.eqb (mdel Z.eqb (cached0 s) i) i = None.
Proof. rewrite (mget_mdel Z.eqb zeqb_spec). now rewrite Z.eqb_refl. Qed.

Lemma linked_running_in s oc i x : wf s -> linked s (rget (running s) i) = Some x -> In x (inst_conts s oc i).
Proof.
  intros [W1 _] H. apply linked_some in H. destruct H as [Hr Ha]. apply inst_conts_spec. split; auto.
Qed.

Lemma fold_split {A B} (f : A -> B -> A) l1 c l2 a r :
  fold_left f (l1 ++ c :: l2) a = r ->
  exists a1 a2, fold_left f l1 a = a1 /\ f a1 c = a2 /\ fold_left f l2 a2 = r.
Proof. intros H. rewrite fold_left_app in H. cbn in H. eauto. Qed.

Lemma opt_is_refl c : opt_is c (Some c) = true.
Proof. now apply opt_is_true. Qed.

Theorem sync_running_general s oc oi i :
  wf s -> NoDup (map fst (apps s)) ->
  rget (running (synchronize s oc oi)) i = expected_running s i.
Proof.
  intros W Hnd.
  destruct (fold_left sync_container (inst_conts s oc i) (s, cached0 s)) as [sB cB] eqn:HB.
  destruct (sync_proj s oc oi i sB cB W HB) as (_ & S2 & _). rewrite S2. clear S2.
  unfold expected_running.
  destruct (cget (cache s) i) as [[f ok]|] eqn:Hc.
  2:{ (* not cached *)
    assert (HL : forall c', In c' (inst_conts s oc i) ->
                            app_name c' = i /\ opt_is c' (mget Z.eqb (cached0 s) i) = false).
    { intros c' Hc'. apply inst_conts_spec in Hc'. split; [tauto|]. rewrite cached0_i, Hc. reflexivity. }
    destruct (nc_fold i _ s (cached0 s) sB cB W HL HB) as (N1 & N2 & N3 & N4 & N5 & _).
    subst cB. rewrite cached0_i, Hc. rewrite N5. apply kill_all.
    intros x Hx. eapply linked_running_in; eauto. }
  assert (Hc0 : mget Z.eqb (cached0 s) i = Some (i, f)) by (rewrite cached0_i, Hc; reflexivity).
  destruct (aget (apps s) (i, f)) as [fl|] eqn:Ha.
  2:{ (* cached, no container directory yet *)
    assert (HL : forall c', In c' (inst_conts s oc i) ->
                            app_name c' = i /\ opt_is c' (mget Z.eqb (cached0 s) i) = false).
    { intros c' Hc'. apply inst_conts_spec in Hc'. split; [tauto|]. rewrite Hc0.
      apply opt_is_false_some. intros E. destruct Hc' as [_ Hex]. rewrite <- E in Hex. exact (Hex Ha). }
    destruct (nc_fold i _ s (cached0 s) sB cB W HL HB) as (N1 & N2 & N3 & N4 & N5 & _).
    subst cB. rewrite Hc0. unfold configure. rewrite N3, Hc.
    destruct ok; psimpl.
    - rewrite N2, Ha. psimpl. unfold rget. rewrite rget_mset, Z.eqb_refl. reflexivity.
    - rewrite N5. apply kill_all. intros x Hx. eapply linked_running_in; eauto. }
  (* cached and its container exists: it is one of the instance's containers *)
  assert (Hin : In (i, f) (inst_conts s oc i)).
  { apply inst_conts_spec. split; [reflexivity | congruence]. }
  destruct (@NoDup_split cont (i, f) _ (inst_conts_NoDup s oc i Hnd) Hin) as (L1 & L2 & Hsp & Hn1 & Hn2).
  rewrite Hsp in HB. apply fold_split in HB. destruct HB as ([sA cA] & [sM cM] & HA & HM & HT).
  assert (Hmem : forall x, In x L1 \/ In x L2 -> In x (inst_conts s oc i)).
  { intros x Hx. rewrite Hsp. apply in_or_app. destruct Hx; [left; auto | right; right; auto]. }
  assert (HL1 : forall c', In c' L1 -> app_name c' = i /\ opt_is c' (mget Z.eqb (cached0 s) i) = false).
  { intros c' Hc'. split.
    - apply (inst_conts_spec s oc i c'). apply Hmem; auto.
    - rewrite Hc0. apply opt_is_false_some. intros E. apply Hn1. now rewrite E. }
  destruct (nc_fold i L1 s (cached0 s) sA cA W HL1 HA) as (A1 & A2 & A3 & A4 & A5 & A6 & A7 & _).
  subst cA.
  assert (Hlk : forall o, linked sA o = linked s o) by (intros o; now apply linked_apps).
  assert (WM : wf sM) by exact (wf_sync_container_eq sA (cached0 s) (i, f) sM cM A4 HM).
  (* the rest of the list, once the cached generation is handled *)
  assert (Tail : mget Z.eqb cM i = None -> apps sM = apps s ->
                 mget Z.eqb cB i = None /\ rget (running sB) i = kill L2 sM i).
  { intros Hm Hap.
    assert (HL2 : forall c', In c' L2 -> app_name c' = i /\ opt_is c' (mget Z.eqb cM i) = false).
    { intros c' Hc'. split; [apply (inst_conts_spec s oc i c'); apply Hmem; auto | now rewrite Hm]. }
    destruct (nc_fold i L2 sM cM sB cB WM HL2 HT) as (T1 & _ & _ & _ & T5 & _).
    subst cB. auto. }
  assert (Rest : forall t, apps t = apps s -> rget (running t) i = kill L1 s i ->
                 opt_is (i, f) (linked s (rget (running s) i)) = false ->
                 kill L2 t i = r_killed s i).
  { intros t Hap Hr E1. rewrite (kill_compose L1 L2 s t i Hap Hr). apply kill_all.
    intros x Hx. assert (Hxi := linked_running_in s oc i x W Hx). rewrite Hsp in Hxi.
    apply in_app_or in Hxi. apply in_or_app. destruct Hxi as [H|[H|H]]; auto.
    subst x. rewrite Hx, opt_is_refl in E1. discriminate. }
  assert (Hdel : mget Z.eqb (mdel Z.eqb (cached0 s) i) i = None) by apply cached0_del.
  unfold sync_container in HM. cbn [app_name fst] in HM. rewrite Hc0, opt_is_refl in HM.
  fold (Ki sA i) in HM. rewrite !Hlk in HM.
  destruct (opt_is (i, f) (linked s (rget (running s) i))) eqn:E1.
  - (* already running *)
    assert (HRA : rget (running sA) i = Some (i, f)).
    { rewrite A5. apply kill_keep; auto. apply opt_is_true in E1. now apply linked_some in E1. }
    rewrite HRA in HM. replace (linked s (Some (i, f))) with (Some (i, f)) in HM by (cbn; now rewrite Ha).
    rewrite opt_is_refl in HM. inversion HM; subst sM cM; clear HM.
    destruct (Tail Hdel A2) as [Hm Hr]. rewrite Hm, Hr. apply kill_keep; auto.
  - assert (E1A : opt_is (i, f) (linked s (rget (running sA) i)) = false).
    { rewrite A5. destruct (kill_cases L1 s i) as [->| ->]; [reflexivity | exact E1]. }
    rewrite E1A in HM.
    destruct (opt_is (i, f) (linked s (Ki s i))) eqn:E2; cbn [orb].
    + (* in cleanup under the instance name *)
      assert (HK : Ki sA i = Ki s i).
      { apply A6. apply opt_is_true in E2. congruence. }
      rewrite HK, E2 in HM. inversion HM; subst sM cM; clear HM.
      destruct (Tail Hdel A2) as [Hm Hr]. rewrite Hm, Hr. apply Rest; auto.
    + assert (E2A : opt_is (i, f) (linked s (Ki sA i)) = false).
      { destruct (linked s (Ki sA i)) as [x|] eqn:Ex; [|reflexivity].
        apply opt_is_false_some. intros ->. rewrite <- Hlk in Ex. destruct (A7 _ Ex) as [H|H].
        - rewrite H, opt_is_refl in E2. discriminate.
        - contradiction. }
      rewrite E2A in HM. unfold has_cleanup_file in HM. rewrite A2, Ha in HM.
      destruct (flagged fl); cbn [orb].
      * (* finished *)
        inversion HM; subst sM cM; clear HM.
        assert (Hap : apps (add_cleanup_link sA (linked s (Ki sA i)) (i, f)) = apps s).
        { unfold add_cleanup_link. destruct (linked s (Ki sA i)); psimpl; exact A2. }
        destruct (Tail Hdel Hap) as [Hm Hr]. rewrite Hm, Hr. apply Rest; auto.
        unfold add_cleanup_link. destruct (linked s (Ki sA i)); psimpl; exact A5.
      * unfold configure in HM. rewrite A3, Hc, A2, Ha in HM. destruct ok; cbn [negb].
        -- inversion HM; subst sM cM; clear HM.
           destruct (Tail Hdel A2) as [Hm Hr]. rewrite Hm, Hr. apply kill_keep; auto.
           psimpl. unfold rget. rewrite rget_mset, Z.eqb_refl. reflexivity.
        -- inversion HM; subst sM cM; clear HM.
           set (sX := enqueue (with_cache sA (mdel Z.eqb (cache s) i)) (EvDeleted i)) in *.
           assert (Hap : apps (add_cleanup_link sX (linked s (Ki sA i)) (i, f)) = apps s).
           { unfold add_cleanup_link. destruct (linked s (Ki sA i)); psimpl; exact A2. }
           destruct (Tail Hdel Hap) as [Hm Hr]. rewrite Hm, Hr. apply Rest; auto.
           unfold add_cleanup_link. destruct (linked s (Ki sA i)); psimpl; exact A5.
Qed.

(** ** corollaries used by Props/C13.v *)

(** an unchanged running container is left running by a resynchronisation, whatever else is in apps/ *)
Lemma sync_keeps_unchanged s oc oi i f ok :
  wf s -> NoDup (map fst (apps s)) ->
  rget (running s) i = Some (i, f) -> aget (apps s) (i, f) <> None -> cget (cache s) i = Some (f, ok) ->
  rget (running (synchronize s oc oi)) i = Some (i, f).
Proof.
  intros W Hnd Hr Ha Hc. rewrite (sync_running_general s oc oi i W Hnd). unfold expected_running.
  rewrite Hc. destruct (aget (apps s) (i, f)) as [fl|] eqn:E; [|congruence].
  rewrite Hr. cbn [linked]. rewrite E. now rewrite opt_is_refl.
Qed.

(** a resynchronisation never starts a container that has a cleanup file and is not running *)
Lemma sync_no_restart s oc oi c fl :
  wf s -> NoDup (map fst (apps s)) ->
  aget (apps s) c = Some fl -> flagged fl = true -> rget (running s) (app_name c) <> Some c ->
  rget (running (synchronize s oc oi)) (app_name c) <> Some c.
Proof.
  intros W Hnd Ha Hfl Hr. rewrite (sync_running_general s oc oi _ W Hnd). unfold expected_running.
  assert (Hk : r_killed s (app_name c) <> Some c).
  { unfold r_killed. destruct (linked s (rget (running s) (app_name c))); [discriminate | exact Hr]. }
  destruct (cget (cache s) (app_name c)) as [[f ok]|] eqn:Hc; auto.
  destruct (Z.eq_dec f (snd c)) as [->|Hf].
  - rewrite <- (cont_eta c), Ha.
    destruct (opt_is c (linked s (rget (running s) (app_name c)))) eqn:E1.
    + apply opt_is_true in E1. apply linked_some in E1. destruct E1 as [E1 _]. congruence.
    + rewrite Hfl, orb_true_r. cbn [orb]. exact Hk.
  - assert (Hne : (app_name c, f) <> c) by (rewrite (cont_eta c) at 2; intros H; inversion H; congruence).
    destruct (aget (apps s) (app_name c, f)).
    + destruct (opt_is _ _); [congruence|]. destruct (_ || _ || _); [exact Hk | congruence].
    + destruct ok; [congruence | exact Hk].
Qed.

(** a running generation whose manifest is gone, or was replaced by one that is not configured yet, is handed
    to cleanup, and the new manifest (if any, and configurable) is configured *)
Lemma sync_hands_over s oc oi i x :
  wf s -> NoDup (map fst (apps s)) ->
  linked s (rget (running s) i) = Some x ->
  (forall f ok, cget (cache s) i = Some (f, ok) -> aget (apps s) (i, f) = None) ->
  lget (cleanup (synchronize s oc oi)) (LCont x) = Some x /\
  rget (running (synchronize s oc oi)) i = match cget (cache s) i with Some (f, true) => Some (i, f) | _ => None end.
Proof.
  intros W Hnd Hx Hnew. split.
  - assert (Hxi : app_name x = i).
    { apply linked_some in Hx. destruct Hx as [Hx _]. destruct W as [W1 _]. now apply W1. }
    destruct x as [j fx]. cbn in Hxi. subst j.
    destruct (fold_left sync_container (inst_conts s oc i) (s, cached0 s)) as [sB cB] eqn:HB.
    destruct (sync_proj s oc oi i sB cB W HB) as (_ & _ & _ & S4 & _).
    rewrite S4.
    assert (HL : forall c', In c' (inst_conts s oc i) ->
                            app_name c' = i /\ opt_is c' (mget Z.eqb (cached0 s) i) = false).
    { intros c' Hc'. apply inst_conts_spec in Hc'. split; [tauto|]. rewrite cached0_i.
      destruct (cget (cache s) i) as [[f ok]|] eqn:Hc; [|reflexivity]. cbn [fst].
      apply opt_is_false_some. intros E. destruct Hc' as [_ Hex]. rewrite <- E in Hex.
      exact (Hex (Hnew f ok eq_refl)). }
    destruct (nc_fold i _ s (cached0 s) sB cB W HL HB) as (_ & _ & _ & _ & _ & _ & _ & _ & N9).
    assert (Hcl : lget (cleanup sB) (LCont (i, fx)) = Some (i, fx)).
    { apply N9; auto. now apply (linked_running_in s oc i (i, fx) W). }
    destruct (mget Z.eqb cB i); auto.
    unfold configure. destruct (cget (cache sB) i) as [[f [|]]|]; psimpl; auto.
    destruct (aget (apps sB) (i, f)); psimpl; auto.
  - rewrite (sync_running_general s oc oi i W Hnd). unfold expected_running, r_killed. rewrite Hx.
    destruct (cget (cache s) i) as [[f ok]|] eqn:Hc; auto.
    rewrite (Hnew f ok eq_refl). reflexivity.
Qed.

(** * apps/ has one entry per container name, in every reachable state *)
Lemma keys_mset (m : list (cont * flags)) k v : NoDup (map fst m) -> NoDup (map fst (mset cont_eqb m k v)).
Proof.
  induction m as [|[k0 w] r IH]; cbn; intros H.
  - constructor; [intros [] | constructor].
  - inversion H as [|? ? Hn Hr]; subst. destruct (cont_eqb k0 k) eqn:E; cbn.
    + constructor; auto.
    + constructor; [|now apply IH]. intros Hin. apply Hn.
      clear -Hin E. induction r as [|[k1 w1] r IH]; cbn in *.
      * destruct Hin as [H|[]]. subst. rewrite (proj2 (cont_eqb_spec _ _) eq_refl) in E. discriminate.
      * destruct (cont_eqb k1 k); cbn in Hin; destruct Hin as [H|H]; auto.
Qed.

Lemma keys_mdel (m : list (cont * flags)) k : NoDup (map fst m) -> NoDup (map fst (mdel cont_eqb m k)).
Proof.
  induction m as [|[k0 w] r IH]; cbn; intros H; [constructor|].
  inversion H as [|? ? Hn Hr]; subst. destruct (cont_eqb k0 k); cbn; auto.
  constructor; [|now apply IH]. intros Hin. apply Hn.
  clear -Hin. induction r as [|[k1 w1] r IH]; cbn in *; [contradiction|].
  destruct (cont_eqb k1 k); cbn in Hin; [right; auto | destruct Hin; auto].
Qed.

Definition nd (s : st) : Prop := NoDup (map fst (apps s)).

Lemma nd_same s s' : apps s' = apps s -> nd s -> nd s'.
Proof. unfold nd. now intros ->. Qed.

Lemma nd_configure s i : nd s -> nd (fst (configure s i)).
Proof.
  intros H. unfold configure. destruct (cget (cache s) i) as [[f [|]]|]; cbn [fst]; auto.
  destruct (aget (apps s) (i, f)); unfold nd; psimpl; auto. now apply keys_mset.
Qed.

Lemma nd_sync_container s cached c : nd s -> nd (fst (sync_container (s, cached) c)).
Proof.
  intros H. unfold sync_container.
  assert (Ht : nd (terminate s (app_name c))).
  { unfold terminate. destruct (rget (running s) (app_name c)); auto. }
  assert (Ha : forall t o, nd t -> nd (add_cleanup_link t o c)).
  { intros t o Hn. unfold add_cleanup_link. destruct o; auto. }
  destruct (opt_is c (linked s (rget (running s) (app_name c)))).
  { destruct (opt_is c (mget Z.eqb cached (app_name c))); cbn [fst]; auto. }
  destruct (opt_is c (linked s (lget (cleanup s) (LInst (app_name c))))); auto.
  destruct (opt_is c (mget Z.eqb cached (app_name c))); cbn [fst]; auto.
  destruct (has_cleanup_file s c); cbn [fst]; auto.
  assert (Hc := nd_configure s (app_name c) H).
  destruct (configure s (app_name c)) as [s1 ok]. cbn [fst] in *. destruct ok; auto.
Qed.

Lemma nd_synchronize s oc oi : nd s -> nd (synchronize s oc oi).
Proof.
  intros H. unfold synchronize.
  assert (F1 : forall l sc, nd (fst sc) -> nd (fst (fold_left sync_container l sc))).
  { induction l as [|c l IH]; intros [t d] Hn; cbn [fold_left]; auto. apply IH. now apply nd_sync_container. }
  assert (F2 : forall l t, nd t -> nd (fold_left (fun s i => fst (configure s i)) l t)).
  { induction l as [|j l IH]; intros t Hn; cbn [fold_left]; auto. apply IH. now apply nd_configure. }
  specialize (F1 (arrangeb cont_eqb oc (map fst (apps s))) (s, cached0 s) H). fold (cached0 s).
  destruct (fold_left sync_container _ _) as [s1 c1]. apply F2. exact F1.
Qed.

Lemma nd_step s o : nd s -> nd (step s o).
Proof.
  intros H. destruct o as [i f ok|i| | |b|oc oi|i k|c k|l| |]; cbn; auto.
  - destruct (cget (cache s) i); auto.
  - destruct (queue s) as [|e q]; auto. destruct e as [i|i| | |b]; cbn.
    + destruct (negb (active s)); auto. destruct (rget (running s) i); auto.
      destruct (is_finished _ i); auto. now apply nd_configure.
    + destruct (negb (active s)); auto. destruct (runs_manifest _ i); auto.
      unfold terminate. destruct (rget _ i); auto.
    + destruct (active s); auto. now apply nd_synchronize.
    + exact H.
    + exact H.
  - destruct (rget (running s) i) as [c|]; auto. unfold nd. psimpl.
    unfold flag_cont. destruct (aget (apps s) c); auto. unfold mark_finished.
    destruct (memb cont_eqb c _); psimpl; now apply keys_mset.
  - unfold flag_cont. destruct (aget (apps s) c); auto. unfold mark_finished, nd.
    destruct (memb cont_eqb c _); psimpl; now apply keys_mset.
  - destruct (lget (cleanup s) l); auto. unfold nd. psimpl. now apply keys_mdel.
Qed.

Lemma nd_run ops : forall s, nd s -> nd (run ops s).
Proof. induction ops as [|o r IH]; intros s H; cbn; auto. apply IH. now apply nd_step. Qed.

Theorem reachable_ok ops : wf (run ops init) /\ nd (run ops init).
Proof. split; [apply links_wf_all | apply nd_run; constructor]. Qed.

Lemma event_eq_dec (a b : event) : {a = b} + {a <> b}.
Proof. decide equality; try apply Z.eq_dec; apply bool_dec. Qed.

(** * Statements over every event sequence, in the form used by Props/C13.v *)
Lemma reach_one_link_partial ops :
  let s := run ops init in
  (forall i c, rget (running s) i = Some c -> i = app_name c) /\
  (forall l c, lget (cleanup s) l = Some c -> l = LInst (app_name c) \/ l = LCont c).
Proof.
  intros s. destruct (links_wf_all ops) as [W1 W2]. split; [|exact W2].
  intros i c H. symmetry. now apply W1.
Qed.

Lemma first_sync s oc oi :
  active s = false -> handle s EvReadyUp oc oi = synchronize (with_active s true) oc oi.
Proof. intros H. cbn. now rewrite H. Qed.

Lemma reach_unchanged_stays ops e oc oi i f ok :
  let s := run ops init in
  rget (running s) i = Some (i, f) -> aget (apps s) (i, f) <> None -> cget (cache s) i = Some (f, ok) ->
  rget (running (handle s e oc oi)) i = Some (i, f).
Proof.
  intros s Hr Ha Hc. destruct (reachable_ok ops) as [W N]. fold s in W, N.
  destruct (event_eq_dec e EvReadyUp) as [->|He].
  - cbn. destruct (active s) eqn:Hact; [exact Hr|].
    exact (sync_keeps_unchanged (with_active s true) oc oi i f ok
             (wf_same_links s _ eq_refl eq_refl W) N Hr Ha Hc).
  - apply handler_keeps_running; [exact Hr | | congruence].
    intros _. unfold runs_manifest, current_cont. rewrite Hc, Hr. cbn [linked].
    destruct (aget (apps s) (i, f)); [apply opt_is_refl | congruence].
Qed.

Lemma reach_no_restart_finished ops e oc oi c fl :
  let s := run ops init in
  aget (apps s) c = Some fl -> flagged fl = true -> rget (running s) (app_name c) <> Some c ->
  rget (running (handle s e oc oi)) (app_name c) <> Some c.
Proof.
  intros s Ha Hfl Hr. destruct (reachable_ok ops) as [W N]. fold s in W, N.
  destruct (event_eq_dec e EvReadyUp) as [->|He].
  - cbn. destruct (active s) eqn:Hact; [exact Hr|].
    exact (sync_no_restart (with_active s true) oc oi c fl
             (wf_same_links s _ eq_refl eq_refl W) N Ha Hfl Hr).
  - exact (event_no_restart s e oc oi c fl He Ha Hfl Hr).
Qed.

Lemma reach_sync_running ops oc oi i :
  let s := run ops init in
  rget (running (synchronize s oc oi)) i = expected_running s i.
Proof. intros s. destruct (reachable_ok ops) as [W N]. now apply sync_running_general. Qed.

Lemma reach_sync_configures_new ops oc oi i f :
  let s := run ops init in
  cget (cache s) i = Some (f, true) -> aget (apps s) (i, f) = None ->
  rget (running (synchronize s oc oi)) i = Some (i, f).
Proof.
  intros s Hc Ha. unfold s. rewrite (reach_sync_running ops oc oi i). fold s.
  unfold expected_running. now rewrite Hc, Ha.
Qed.

Lemma reach_gone_to_cleanup_sync ops oc oi i x :
  let s := run ops init in
  linked s (rget (running s) i) = Some x ->
  (forall f ok, cget (cache s) i = Some (f, ok) -> aget (apps s) (i, f) = None) ->
  lget (cleanup (synchronize s oc oi)) (LCont x) = Some x /\
  rget (running (synchronize s oc oi)) i = match cget (cache s) i with Some (f, true) => Some (i, f) | _ => None end.
Proof. intros s H1 H2. destruct (reachable_ok ops) as [W N]. now apply sync_hands_over. Qed.
