(** Proofs about Node/AppCfg.v. *)
From Coq Require Import ZArith List Bool Lia.
From TM Require Import Node.AppCfg.
Import ListNotations.
Open Scope Z_scope.

(** * Finite maps *)
Section MapFacts.
  Context {K V : Type} (eqb : K -> K -> bool).
  Hypothesis eqb_spec : forall a b, eqb a b = true <-> a = b.

  Lemma eqb_refl' a : eqb a a = true.
  Proof. now apply eqb_spec. Qed.

  Lemma mget_mset (m : list (K * V)) k v k' :
    mget eqb (mset eqb m k v) k' = if eqb k k' then Some v else mget eqb m k'.
  Proof.
    induction m as [|[k0 w] r IH]; cbn.
    - reflexivity.
    - destruct (eqb k0 k) eqn:E; cbn.
      + apply eqb_spec in E. subst k0. destruct (eqb k k'); reflexivity.
      + rewrite IH. destruct (eqb k0 k') eqn:E2; auto.
        destruct (eqb k k') eqn:E3; auto.
        apply eqb_spec in E2, E3. subst. rewrite eqb_refl' in E. discriminate.
  Qed.

  Lemma mget_mdel (m : list (K * V)) k k' :
    mget eqb (mdel eqb m k) k' = if eqb k k' then None else mget eqb m k'.
  Proof.
    induction m as [|[k0 w] r IH]; cbn.
    - destruct (eqb k k'); reflexivity.
    - destruct (eqb k0 k) eqn:E; cbn.
      + apply eqb_spec in E. subst k0. rewrite IH. destruct (eqb k k'); reflexivity.
      + rewrite IH. destruct (eqb k0 k') eqn:E2; auto.
        destruct (eqb k k') eqn:E3; auto.
        apply eqb_spec in E2, E3. subst. rewrite eqb_refl' in E. discriminate.
  Qed.
End MapFacts.

Lemma zeqb_spec a b : Z.eqb a b = true <-> a = b.
Proof. apply Z.eqb_eq. Qed.

Lemma cont_eqb_spec a b : cont_eqb a b = true <-> a = b.
Proof.
  destruct a as [a1 a2], b as [b1 b2]. unfold cont_eqb. cbn.
  rewrite andb_true_iff, !Z.eqb_eq. split; [intros [-> ->]; reflexivity | intros H; inversion H; auto].
Qed.

Lemma lname_eqb_spec a b : lname_eqb a b = true <-> a = b.
Proof.
  destruct a as [i|c], b as [j|d]; cbn.
  - rewrite Z.eqb_eq. split; [intros ->; reflexivity | intros H; inversion H; auto].
  - split; [discriminate | intros H; inversion H].
  - split; [discriminate | intros H; inversion H].
  - rewrite cont_eqb_spec. split; [intros ->; reflexivity | intros H; inversion H; auto].
Qed.

Lemma cont_eqb_false a b : cont_eqb a b = false <-> a <> b.
Proof. rewrite <- cont_eqb_spec. destruct (cont_eqb a b); split; congruence. Qed.
Lemma lname_eqb_false a b : lname_eqb a b = false <-> a <> b.
Proof. rewrite <- lname_eqb_spec. destruct (lname_eqb a b); split; congruence. Qed.

Definition rget_mset := mget_mset (V := cont) Z.eqb zeqb_spec.
Definition rget_mdel := mget_mdel (V := cont) Z.eqb zeqb_spec.
Definition lget_mset := mget_mset (V := cont) lname_eqb lname_eqb_spec.
Definition lget_mdel := mget_mdel (V := cont) lname_eqb lname_eqb_spec.
Definition aget_mset := mget_mset (V := flags) cont_eqb cont_eqb_spec.
Definition aget_mdel := mget_mdel (V := flags) cont_eqb cont_eqb_spec.
Definition cget_mset := mget_mset (V := Z * bool) Z.eqb zeqb_spec.
Definition cget_mdel := mget_mdel (V := Z * bool) Z.eqb zeqb_spec.

(** * Link shape: the only names under which a container can be linked *)
Definition wf (s : st) : Prop :=
  (forall i c, rget (running s) i = Some c -> app_name c = i) /\
  (forall l c, lget (cleanup s) l = Some c -> l = LInst (app_name c) \/ l = LCont c).

Lemma wf_init : wf init.
Proof. split; cbn; intros; discriminate. Qed.

Lemma wf_same_links s s' : running s' = running s -> cleanup s' = cleanup s -> wf s -> wf s'.
Proof. intros Hr Hc [W1 W2]. split; rewrite ?Hr, ?Hc; auto. Qed.

Lemma wf_configure s i : wf s -> wf (fst (configure s i)).
Proof.
  intros [W1 W2]. unfold configure.
  destruct (cget (cache s) i) as [[f [|]]|]; cbn [fst]; [| split; auto | split; auto].
  destruct (aget (apps s) (i, f)); cbn.
  - split; cbn; auto. intros j c. unfold rget. rewrite rget_mset.
    destruct (Z.eqb i j) eqn:E; [|apply W1]. apply Z.eqb_eq in E. intros H; inversion H; subst. reflexivity.
  - split; cbn; auto. intros j c. unfold rget. rewrite rget_mset.
    destruct (Z.eqb i j) eqn:E; [|apply W1]. apply Z.eqb_eq in E. intros H; inversion H; subst. reflexivity.
Qed.

Lemma wf_terminate s i : wf s -> wf (terminate s i).
Proof.
  intros [W1 W2]. unfold terminate. destruct (rget (running s) i) as [c|] eqn:Hr; [|split; auto].
  split; cbn.
  - intros j c'. unfold rget. rewrite rget_mdel. destruct (Z.eqb i j); [discriminate | apply W1].
  - intros l c'. unfold lget. rewrite lget_mset. destruct (lname_eqb (LCont c) l) eqn:E; [|apply W2].
    apply lname_eqb_spec in E. intros H; inversion H; subst. now right.
Qed.

Lemma wf_add_inst_link s c : wf s -> wf (with_cleanup s (mset lname_eqb (cleanup s) (LInst (app_name c)) c)).
Proof.
  intros [W1 W2]. split; cbn; auto.
  intros l c'. unfold lget. rewrite lget_mset. destruct (lname_eqb (LInst (app_name c)) l) eqn:E; [|apply W2].
  apply lname_eqb_spec in E. intros H; inversion H; subst. now left.
Qed.

Lemma wf_sync_container s cached c : wf s -> wf (fst (sync_container (s, cached) c)).
Proof.
  intros W. unfold sync_container.
  destruct (target_exists s (rget (running s) (app_name c))).
  { cbn [fst]. destruct (match mget Z.eqb cached (app_name c) with Some c' => cont_eqb c' c | None => false end);
      [exact W | now apply wf_terminate]. }
  destruct (target_exists s (lget (cleanup s) (LInst (app_name c)))); [exact W|].
  destruct (match mget Z.eqb cached (app_name c) with Some c' => cont_eqb c' c | None => false end).
  - destruct (match aget (apps s) c with Some f => flagged f | None => false end).
    + cbn [fst]. now apply wf_add_inst_link.
    + destruct (configure s (app_name c)) as [s1 ok] eqn:Hc.
      assert (W1 : wf s1) by (change s1 with (fst (s1, ok)); rewrite <- Hc; now apply wf_configure).
      cbn [fst]. destruct ok; [exact W1 | now apply wf_add_inst_link].
  - cbn [fst]. now apply wf_add_inst_link.
Qed.

Lemma wf_fold_sync l : forall s cached, wf s -> wf (fst (fold_left sync_container l (s, cached))).
Proof.
  induction l as [|c l IH]; intros s cached W; cbn [fold_left]; [exact W|].
  destruct (sync_container (s, cached) c) as [s1 c1] eqn:H.
  apply IH. change s1 with (fst (s1, c1)). rewrite <- H. now apply wf_sync_container.
Qed.

Lemma wf_fold_configure l : forall s, wf s -> wf (fold_left (fun s i => fst (configure s i)) l s).
Proof. induction l as [|i l IH]; intros s W; cbn; auto. apply IH. now apply wf_configure. Qed.

Lemma wf_synchronize s oc oi : wf s -> wf (synchronize s oc oi).
Proof.
  intros W. unfold synchronize.
  destruct (fold_left sync_container _ _) as [s1 cached1] eqn:H.
  apply wf_fold_configure. change s1 with (fst (s1, cached1)). rewrite <- H. now apply wf_fold_sync.
Qed.

Lemma wf_handle s e oc oi : wf s -> wf (handle s e oc oi).
Proof.
  intros W. destruct e as [i|i| | |b]; cbn.
  - destruct (negb (active s)); auto. destruct (rget (running s) i); auto. now apply wf_configure.
  - destruct (negb (active s)); auto. now apply wf_terminate.
  - destruct (active s); auto. apply wf_synchronize. exact (wf_same_links s _ eq_refl eq_refl W).
  - exact (wf_same_links s _ eq_refl eq_refl W).
  - exact W.
Qed.

Lemma wf_flag_cont s c k : wf s -> wf (flag_cont s c k).
Proof.
  intros W. unfold flag_cont. destruct (aget (apps s) c); auto.
  unfold mark_finished. destruct (memb cont_eqb c _); exact (wf_same_links s _ eq_refl eq_refl W).
Qed.

Lemma wf_step s o : wf s -> wf (step s o).
Proof.
  intros W. destruct o as [i f ok|i| | |b|oc oi|i k|c k|l|]; cbn.
  - exact (wf_same_links s _ eq_refl eq_refl W).
  - destruct (cget (cache s) i); [exact (wf_same_links s _ eq_refl eq_refl W) | exact W].
  - exact (wf_same_links s _ eq_refl eq_refl W).
  - exact (wf_same_links s _ eq_refl eq_refl W).
  - exact (wf_same_links s _ eq_refl eq_refl W).
  - destruct (queue s) as [|e q]; auto. apply wf_handle. exact (wf_same_links s _ eq_refl eq_refl W).
  - destruct (rget (running s) i) as [c|] eqn:Hr; auto.
    assert (W1 := wf_flag_cont s c k W).
    assert (Hrun : running (flag_cont s c k) = running s).
    { unfold flag_cont. destruct (aget (apps s) c); auto. unfold mark_finished. destruct (memb cont_eqb c _); auto. }
    destruct W as [Wr Wc]. destruct W1 as [W1r W1c]. split; cbn.
    + intros j c'. unfold rget. rewrite rget_mdel. destruct (Z.eqb i j); [discriminate | apply W1r].
    + intros l c'. unfold lget. rewrite lget_mset. destruct (lname_eqb (LInst i) l) eqn:E; [|apply W1c].
      apply lname_eqb_spec in E. intros H; inversion H; subst. left. now rewrite (Wr i c' Hr).
  - now apply wf_flag_cont.
  - destruct (lget (cleanup s) l) as [c|]; auto. destruct W as [Wr Wc]. split; cbn; auto.
    intros l' c'. unfold lget. rewrite lget_mdel. destruct (lname_eqb l l'); [discriminate | apply Wc].
  - exact (wf_same_links s _ eq_refl eq_refl W).
Qed.

Lemma wf_run ops : forall s, wf s -> wf (run ops s).
Proof. induction ops as [|o r IH]; intros s W; cbn; auto. apply IH. now apply wf_step. Qed.

(** every event sequence: a container is linked at most as running/<its instance>,
    cleanup/<its instance> and cleanup/<its own name> *)
Theorem links_wf_all ops : wf (run ops init).
Proof. apply wf_run, wf_init. Qed.

(** * Handlers other than a resynchronisation *)

(** a deleted event for a cached-out instance hands its running container to cleanup *)
Lemma deleted_hands_over s i c oc oi :
  active s = true -> rget (running s) i = Some c ->
  let s' := handle s (EvDeleted i) oc oi in
  rget (running s') i = None /\ lget (cleanup s') (LCont c) = Some c /\
  (forall j, j <> i -> rget (running s') j = rget (running s) j).
Proof.
  intros Ha Hr. cbn. rewrite Ha. cbn. unfold terminate. rewrite Hr. cbn. repeat split.
  - unfold rget. rewrite rget_mdel. now rewrite Z.eqb_refl.
  - unfold lget. rewrite lget_mset. now rewrite (proj2 (lname_eqb_spec _ _) eq_refl).
  - intros j Hj. unfold rget. rewrite rget_mdel. destruct (Z.eqb i j) eqn:E; auto.
    apply Z.eqb_eq in E. congruence.
Qed.

Lemma configure_running_other s i j : j <> i -> rget (running (fst (configure s i))) j = rget (running s) j.
Proof.
  intros Hj. unfold configure. destruct (cget (cache s) i) as [[f [|]]|]; cbn [fst]; auto.
  assert (E : Z.eqb i j = false) by (apply Z.eqb_neq; congruence).
  destruct (aget (apps s) (i, f)); cbn; unfold rget; rewrite rget_mset, E; reflexivity.
Qed.

Lemma terminate_running_other s i j : j <> i -> rget (running (terminate s i)) j = rget (running s) j.
Proof.
  intros Hj. unfold terminate. destruct (rget (running s) i); auto. cbn.
  unfold rget. rewrite rget_mdel. destruct (Z.eqb i j) eqn:E; auto. apply Z.eqb_eq in E. congruence.
Qed.

(** every handler except a deleted event for the instance itself and a resynchronisation
    leaves a running link alone *)
Lemma handler_keeps_running s e oc oi i c :
  rget (running s) i = Some c ->
  e <> EvDeleted i -> (e = EvReadyUp -> active s = true) ->
  rget (running (handle s e oc oi)) i = Some c.
Proof.
  intros Hr Hd Hu. destruct e as [j|j| | |b]; cbn.
  - destruct (negb (active s)); auto. destruct (Z.eq_dec j i) as [->|Hj].
    + now rewrite Hr.
    + destruct (rget (running s) j); auto. rewrite configure_running_other; auto.
  - destruct (negb (active s)); auto. rewrite terminate_running_other; auto. congruence.
  - now rewrite (Hu eq_refl).
  - exact Hr.
  - exact Hr.
Qed.

(** a created event configures exactly the container of the current cache entry *)
Lemma created_configures s i f oc oi :
  active s = true -> rget (running s) i = None -> cget (cache s) i = Some (f, true) ->
  rget (running (handle s (EvCreated i) oc oi)) i = Some (i, f).
Proof.
  intros Ha Hr Hc. cbn. rewrite Ha, Hr. cbn. unfold configure. rewrite Hc.
  destruct (aget (apps s) (i, f)); cbn; unfold rget; rewrite rget_mset, Z.eqb_refl; reflexivity.
Qed.
