(** Proofs about Node/NetReg.v: what start registers, finish removes; finish is idempotent and
    leaves other containers' entries alone.  All statements are for arbitrary programs [sp], [fp]
    under the computational premise [templates_match sp fp = true]. *)
From Coq Require Import ZArith List Bool Lia.
From TM Require Import Base.Flat Node.Owners Node.OwnersP Node.NetReg.
Import ListNotations.
Open Scope Z_scope.

(** * List and table facts *)
Lemma filter_filter {A} (f g : A -> bool) l : filter f (filter g l) = filter (fun x => g x && f x) l.
Proof.
  induction l as [|x l IH]; cbn; [reflexivity|]. destruct (g x); cbn; [destruct (f x)|]; rewrite IH; reflexivity.
Qed.

Lemma filter_none {A} (f : A -> bool) l : (forall x, In x l -> f x = false) -> filter f l = [].
Proof.
  induction l as [|x l IH]; cbn; intros H; [reflexivity|]. rewrite (H x) by (left; reflexivity).
  apply IH. intros y Hy. apply H. right; exact Hy.
Qed.

Lemma filter_implied {A} (p q : A -> bool) l :
  (forall x, In x l -> p x = true -> q x = true) -> filter p (filter q l) = filter p l.
Proof.
  intros H. rewrite filter_filter. apply filter_ext_in. intros x Hx. destruct (p x) eqn:E.
  - rewrite (H x Hx E). reflexivity.
  - apply andb_false_r.
Qed.

Section ReleaseFilter.
  Context {K : Type}.
  Variable keqb : K -> K -> bool.
  Hypothesis keqb_spec : forall a b, keqb a b = true <-> a = b.

  Lemma release_filter k o (t : @table K) :
    NoDup (keys t) ->
    snd (release keqb k o t) = filter (fun e => negb (keqb k (fst e) && (o =? snd e))) t.
  Proof.
    intros Hnd. destruct (release_cases keqb k o t) as [[H1 H2]|[H1 H2]]; rewrite H1.
    - symmetry. apply filter_all_true. intros [k' o'] Hin. cbn.
      destruct (keqb k k') eqn:E; [|reflexivity]. apply keqb_spec in E; subst k'.
      destruct (o =? o') eqn:E2; [|reflexivity]. apply Z.eqb_eq in E2; subst o'.
      exfalso. apply H2. apply (NoDup_lookup keqb keqb_spec); assumption.
    - unfold remove. apply filter_ext_in. intros [k' o'] Hin. cbn.
      destruct (keqb k' k) eqn:E.
      + apply keqb_spec in E; subst k'. rewrite (proj2 (keqb_spec k k) eq_refl). cbn.
        apply (lookup_In keqb keqb_spec) in H2. rewrite (NoDup_functional keqb keqb_spec _ _ _ _ Hnd H2 Hin).
        rewrite Z.eqb_refl. reflexivity.
      + destruct (keqb k k') eqn:E2; [|reflexivity]. apply keqb_spec in E2; subst k'.
        rewrite (proj2 (keqb_spec k k) eq_refl) in E. discriminate.
  Qed.
End ReleaseFilter.

Lemma zl_spec : forall a b, zlist_eqb a b = true <-> a = b.
Proof. exact zlist_eqb_eq. Qed.

(** * Host well-formedness: directory names are unique *)
Definition hwf (h : host) : Prop := NoDup (keys (h_rules h)) /\ NoDup (keys (h_specs h)).

Lemma hwf_empty : hwf empty_host.
Proof. split; constructor. Qed.

Lemma create_tolerant_NoDup {K} (keqb : K -> K -> bool) (Hs : forall a b, keqb a b = true <-> a = b) k o same t t' :
  NoDup (keys t) -> create_tolerant keqb k o same t = Some t' -> NoDup (keys t').
Proof.
  intros Hnd H. apply create_tolerant_cases in H as [[H1 ->]|[-> _]]; [|exact Hnd].
  apply (NoDup_snoc keqb Hs); assumption.
Qed.

Lemma do_prim_hwf p h h' : hwf h -> do_prim p h = Some h' -> hwf h'.
Proof.
  intros [Hr Hs] H. destruct p; cbn in H.
  - destruct (create_tolerant zlist_eqb k o o (h_rules h)) as [t|] eqn:E; inversion H; subst. split; cbn; [|exact Hs].
    apply (create_tolerant_NoDup zlist_eqb zl_spec _ _ _ _ _ Hr E).
  - inversion H; subst. split; cbn; [|exact Hs]. apply (release_NoDup zlist_eqb). exact Hr.
  - destruct (create_tolerant spec_eqb k o (sp_app k) (h_specs h)) as [t|] eqn:E; inversion H; subst. split; cbn; [exact Hr|].
    apply (create_tolerant_NoDup spec_eqb spec_eqb_spec _ _ _ _ _ Hs E).
  - inversion H; subst. split; cbn; [exact Hr|]. apply NoDup_filter. exact Hs.
  - inversion H; subst. split; assumption.
  - inversion H; subst. split; assumption.
Qed.

Lemma run_prims_hwf ps : forall h, hwf h -> hwf (fst (run_prims ps h)).
Proof.
  induction ps as [|p r IH]; intros h H; cbn; [exact H|].
  destruct (do_prim p h) as [h'|] eqn:E; [|exact H]. apply IH. apply (do_prim_hwf p h h' H E).
Qed.

(** * Cleanup programs are filters *)
Definition is_cleanup_prim (p : prim) : bool :=
  match p with PUnlinkRule _ _ | PUnlinkAll _ _ | PRm _ => true | _ => false end.
Definition rm_rule (F : list prim) (e : rule * Z) : bool :=
  existsb (fun p => match p with PUnlinkRule k o => zlist_eqb k (fst e) && (o =? snd e) | _ => false end) F.
Definition rm_spec (F : list prim) (e : spec * Z) : bool :=
  existsb (fun p => match p with PUnlinkAll a o => (sp_app (fst e) =? a) && opt_matches o (snd e) | _ => false end) F.
Definition rm_row (F : list prim) (r : list Z) : bool :=
  existsb (fun p => match p with PRm x => zlist_eqb r x | _ => false end) F.

Definition filtered (F : list prim) (h : host) : host :=
  {| h_rules := filter (fun e => negb (rm_rule F e)) (h_rules h);
     h_specs := filter (fun e => negb (rm_spec F e)) (h_specs h);
     h_ipset := filter (fun r => negb (rm_row F r)) (h_ipset h);
     h_net := h_net h |}.

Lemma filtered_hwf F h : hwf h -> hwf (filtered F h).
Proof. intros [H1 H2]. split; cbn; apply NoDup_filter; assumption. Qed.

Lemma host_ext a b c d a' b' c' d' :
  a = a' -> b = b' -> c = c' -> d = d' ->
  {| h_rules := a; h_specs := b; h_ipset := c; h_net := d |} = {| h_rules := a'; h_specs := b'; h_ipset := c'; h_net := d' |}.
Proof. intros; subst; reflexivity. Qed.

Lemma run_cleanup_filter F : forall h,
  forallb is_cleanup_prim F = true -> hwf h -> run_prims F h = (filtered F h, true).
Proof.
  induction F as [|p F IH]; intros h Hc Hw.
  - cbn. unfold filtered. cbn. rewrite !filter_all_true by reflexivity. destruct h; reflexivity.
  - cbn in Hc. apply andb_true_iff in Hc as [Hp Hc]. destruct Hw as [Hr Hs].
    destruct p; try discriminate; cbn [run_prims do_prim].
    + (* PUnlinkRule *)
      rewrite IH; [|exact Hc|split; cbn; [apply (release_NoDup zlist_eqb); exact Hr|exact Hs]].
      unfold filtered. cbn. f_equal. apply host_ext; [| | |reflexivity].
      * rewrite (release_filter zlist_eqb zl_spec) by exact Hr. rewrite filter_filter.
        apply filter_ext. intros e. rewrite negb_orb. reflexivity.
      * apply filter_ext. intros e. reflexivity.
      * apply filter_ext. intros e. reflexivity.
    + (* PUnlinkAll *)
      rewrite IH; [|exact Hc|split; cbn; [exact Hr|apply NoDup_filter; exact Hs]].
      unfold filtered. cbn. f_equal. apply host_ext; [| | |reflexivity].
      * apply filter_ext. intros e. reflexivity.
      * unfold unlink_all. rewrite filter_filter. apply filter_ext. intros e. rewrite negb_orb.
        unfold spec_matches. cbn. rewrite !andb_true_r. reflexivity.
      * apply filter_ext. intros e. reflexivity.
    + (* PRm *)
      rewrite IH; [|exact Hc|split; assumption].
      unfold filtered. cbn. f_equal. apply host_ext; [| | |reflexivity].
      * apply filter_ext. intros e. reflexivity.
      * apply filter_ext. intros e. reflexivity.
      * unfold del_row. rewrite filter_filter. apply filter_ext. intros e. rewrite negb_orb. reflexivity.
Qed.

(** * From statements to primitives *)
Lemma In_stmts_of p c s : In (c, s) (stmts_of p) <-> exists b, In b p /\ c = b_ctx b /\ In s (b_body b).
Proof.
  unfold stmts_of. rewrite in_flat_map. split.
  - intros [b [Hb H]]. apply in_map_iff in H as [s' [E Hs]]. inversion E; subst. exists b; auto.
  - intros [b [Hb [-> Hs]]]. exists b. split; [exact Hb|]. apply in_map_iff. exists s; auto.
Qed.

Lemma In_expand x p m n dns :
  In x (expand p m n dns) <->
  exists c s it, In (c, s) (stmts_of p) /\ In it (items m dns c) /\ guard_ok m it (st_guard s) = true /\
                 x = prim_of m n it (st_act s).
Proof.
  unfold expand, expand_block, expand_stmt. rewrite in_flat_map. split.
  - intros [b [Hb H]]. apply in_flat_map in H as [it [Hit H]]. apply in_flat_map in H as [s [Hs H]].
    destruct (guard_ok m it (st_guard s)) eqn:G; [|destruct H]. destruct H as [H|[]]; subst.
    exists (b_ctx b), s, it. repeat split; auto. apply In_stmts_of. exists b; auto.
  - intros (c & s & it & H1 & H2 & H3 & H4). apply In_stmts_of in H1 as [b [Hb [-> Hs]]].
    exists b. split; [exact Hb|]. apply in_flat_map. exists it. split; [exact H2|].
    apply in_flat_map. exists s. split; [exact Hs|]. rewrite H3. left. auto.
Qed.

Lemma src_eqb_eq a b : src_eqb a b = true -> a = b.
Proof. destruct a, b; cbn; intros H; try discriminate; try reflexivity. apply Z.eqb_eq in H; subst; reflexivity. Qed.

Lemma srcs_eqb_eq a : forall b, srcs_eqb a b = true -> a = b.
Proof.
  induction a as [|x a IH]; intros [|y b] H; cbn in H; try discriminate; [reflexivity|].
  apply andb_true_iff in H as [H1 H2]. apply src_eqb_eq in H1. apply IH in H2. congruence.
Qed.

Lemma ctx_eqb_eq a b : ctx_eqb a b = true -> a = b.
Proof. destruct a, b; cbn; intros H; try discriminate; reflexivity. Qed.

Lemma guard_eqb_eq a b : guard_eqb a b = true -> a = b.
Proof. destruct a, b; cbn; intros H; try discriminate; reflexivity. Qed.

Lemma eval_global m n it it' v : forallb src_global v = true -> map (eval m n it) v = map (eval m n it') v.
Proof.
  induction v as [|s v IH]; cbn; intros H; [reflexivity|]. apply andb_true_iff in H as [H1 H2].
  rewrite IH by exact H2. f_equal. destruct s; cbn in *; try discriminate; reflexivity.
Qed.

(** every rule created by start is unlinked, with the same key and owner, by finish *)
Lemma covers_rule sp fp m n dns k o :
  covers sp fp = true -> In (PCreateRule k o) (expand sp m n dns) -> In (PUnlinkRule k o) (expand fp m n dns).
Proof.
  intros Hc Hin. apply In_expand in Hin as (c & s & it & H1 & H2 & H3 & H4).
  unfold covers in Hc. rewrite forallb_forall in Hc. specialize (Hc (c, s) H1). cbn in Hc.
  destruct (st_act s) as [cr ch kd fl ou|fl ou|a oc|ad st v] eqn:Ea; cbn in H4; try discriminate;
    [|destruct ad; discriminate].
  destruct cr; [|discriminate]. inversion H4; subst k o. clear H4.
  apply existsb_exists in Hc as [[c' s'] [Hf Hu]]. unfold undoes in Hu. cbn in Hu. rewrite Ea in Hu.
  destruct (st_act s') as [cr' ch' kd' fl' ou'|?|?|?] eqn:Ea'; try discriminate. destruct cr'; [discriminate|].
  apply andb_true_iff in Hu as [Hu Ho']. apply andb_true_iff in Hu as [Hu Ho]. apply andb_true_iff in Hu as [Hu Hfl].
  apply andb_true_iff in Hu as [Hu Hkd]. apply andb_true_iff in Hu as [Hu Hch]. apply andb_true_iff in Hu as [Hcx Hg].
  apply ctx_eqb_eq in Hcx. apply guard_eqb_eq in Hg. apply Z.eqb_eq in Hch. apply Z.eqb_eq in Hkd.
  apply srcs_eqb_eq in Hfl. subst.
  apply In_expand. exists c', s', it. repeat split; auto; [congruence|]. rewrite Ea'. cbn. reflexivity.
Qed.

(** every ip-set entry added by start is removed by finish *)
Lemma covers_row sp fp m n dns r :
  covers sp fp = true -> In (PAdd r) (expand sp m n dns) -> In (PRm r) (expand fp m n dns).
Proof.
  intros Hc Hin. apply In_expand in Hin as (c & s & it & H1 & H2 & H3 & H4).
  unfold covers in Hc. rewrite forallb_forall in Hc. specialize (Hc (c, s) H1). cbn in Hc.
  destruct (st_act s) as [cr ch kd fl ou|fl ou|a oc|ad st v] eqn:Ea; cbn in H4; try discriminate;
    [destruct cr; discriminate|].
  destruct ad; [|discriminate]. inversion H4; subst r. clear H4.
  apply existsb_exists in Hc as [[c' s'] [Hf Hu]]. unfold undoes in Hu. cbn in Hu. rewrite Ea in Hu.
  destruct (st_act s') as [?|?|?|ad' st' v'] eqn:Ea'; try discriminate. destruct ad'; [discriminate|].
  apply andb_true_iff in Hu as [Hu Hctx]. apply andb_true_iff in Hu as [Hst Hv].
  apply Z.eqb_eq in Hst. apply srcs_eqb_eq in Hv. subst st' v'.
  apply orb_true_iff in Hctx as [Hsame|Htop].
  - apply andb_true_iff in Hsame as [Hcx Hg]. apply ctx_eqb_eq in Hcx. subst c'.
    apply In_expand. exists c, s', it. repeat split; auto; [|rewrite Ea'; reflexivity].
    apply orb_true_iff in Hg as [Hg|Hg]; apply guard_eqb_eq in Hg; [rewrite <- Hg; exact H3|rewrite Hg; reflexivity].
  - apply andb_true_iff in Htop as [Htop Hg]. apply andb_true_iff in Htop as [Hcx Hgl]. apply ctx_eqb_eq in Hcx. subst c'.
    apply In_expand. exists CTop, s', (item_of_val 0). repeat split; auto; [left; reflexivity| |].
    + apply orb_true_iff in Hg as [Hg|Hg]; [apply guard_eqb_eq in Hg; rewrite Hg; reflexivity|].
      apply andb_true_iff in Hg as [Hg1 Hg2]. apply guard_eqb_eq in Hg1. apply guard_eqb_eq in Hg2.
      rewrite Hg1. rewrite Hg2 in H3. exact H3.
    + rewrite Ea'. cbn. rewrite (eval_global m n it (item_of_val 0) v Hgl). reflexivity.
Qed.

(** * What the well-formedness part of the premise says about the primitives *)
Definition start_shaped (m : manifest) (n : netinfo) (p : prim) : Prop :=
  match p with
  | PCreateRule _ o => o = m_uniq m
  | PCreateSpec k o => o = m_uniq m /\ sp_app k = m_app m
  | PAdd r => nth 1 r 0 = n_vip n
  | _ => False
  end.
Definition finish_shaped (m : manifest) (n : netinfo) (p : prim) : Prop :=
  match p with
  | PUnlinkRule _ o => o = m_uniq m
  | PUnlinkAll a o => a = m_app m /\ o = Some (m_uniq m)
  | PRm r => nth 1 r 0 = n_vip n
  | _ => False
  end.

Lemma nth0_map_eval m n it (l : list src) : nth 0 (map (eval m n it) l) 0 = eval m n it (nth 0 l SNone).
Proof. destruct l; reflexivity. Qed.

Lemma start_prims_shaped sp m n dns p :
  forallb start_stmt_ok (stmts_of sp) = true -> In p (expand sp m n dns) -> start_shaped m n p.
Proof.
  intros Hok Hin. apply In_expand in Hin as (c & s & it & H1 & H2 & H3 & ->).
  rewrite forallb_forall in Hok. specialize (Hok (c, s) H1). unfold start_stmt_ok in Hok. cbn in Hok.
  destruct (st_act s) as [cr ch kd fl ou|fl ou|a oc|ad st v]; cbn.
  - apply andb_true_iff in Hok as [Hok _]. apply andb_true_iff in Hok as [Hcr Hou]. rewrite Hcr, Hou. reflexivity.
  - apply andb_true_iff in Hok as [Hok Happ]. apply andb_true_iff in Hok as [Hou _]. rewrite Hou. split; [reflexivity|].
    unfold spec_of. cbn. rewrite nth0_map_eval. apply src_eqb_eq in Happ. rewrite Happ. reflexivity.
  - discriminate.
  - apply andb_true_iff in Hok as [Had Hv]. rewrite Had. cbn. rewrite nth0_map_eval.
    apply src_eqb_eq in Hv. rewrite Hv. reflexivity.
Qed.

Lemma finish_prims_shaped fp m n dns p :
  forallb finish_stmt_ok (stmts_of fp) = true -> In p (expand fp m n dns) -> finish_shaped m n p.
Proof.
  intros Hok Hin. apply In_expand in Hin as (c & s & it & H1 & H2 & H3 & ->).
  rewrite forallb_forall in Hok. specialize (Hok (c, s) H1). unfold finish_stmt_ok in Hok. cbn in Hok.
  destruct (st_act s) as [cr ch kd fl ou|fl ou|a oc|ad st v]; cbn.
  - apply andb_true_iff in Hok as [Hok _]. apply andb_true_iff in Hok as [Hcr Hou].
    destruct cr; [discriminate|]. rewrite Hou. reflexivity.
  - discriminate.
  - apply andb_true_iff in Hok as [Hoc Ha]. apply src_eqb_eq in Ha. rewrite Hoc, Ha. split; reflexivity.
  - apply andb_true_iff in Hok as [Had Hv]. destruct ad; [discriminate|]. cbn. rewrite nth0_map_eval.
    apply src_eqb_eq in Hv. rewrite Hv. reflexivity.
Qed.

Lemma finish_prims_cleanup fp m n dns :
  forallb finish_stmt_ok (stmts_of fp) = true -> forallb is_cleanup_prim (expand fp m n dns) = true.
Proof.
  intros Hok. apply forallb_forall. intros p Hp. apply (finish_prims_shaped fp m n dns p Hok) in Hp.
  destruct p; cbn in *; try contradiction; reflexivity.
Qed.

Lemma finish_has_unlink_all fp m n dns :
  has_unlink_all fp = true -> In (PUnlinkAll (m_app m) (Some (m_uniq m))) (expand fp m n dns).
Proof.
  unfold has_unlink_all. intros H. apply existsb_exists in H as [[c s] [Hin H]]. cbn in H.
  apply andb_true_iff in H as [H Hact]. apply andb_true_iff in H as [Hc Hg].
  apply ctx_eqb_eq in Hc. apply guard_eqb_eq in Hg. subst c.
  destruct (st_act s) as [?|?|a oc|?] eqn:Ea; try discriminate.
  apply andb_true_iff in Hact as [Hoc Ha]. apply src_eqb_eq in Ha. subst.
  apply In_expand. exists CTop, s, (item_of_val 0). repeat split; auto; [left; reflexivity|rewrite Hg; reflexivity|].
  rewrite Ea. reflexivity.
Qed.

(** * What start does on a fresh host *)
Definition is_start_prim (p : prim) : bool :=
  match p with PCreateRule _ _ | PCreateSpec _ _ | PAdd _ => true | _ => false end.
Definition spec_keys (S : list prim) : list spec :=
  flat_map (fun p => match p with PCreateSpec k _ => [k] | _ => [] end) S.

Section LookupSnoc.
  Context {K : Type}.
  Variable keqb : K -> K -> bool.
  Hypothesis keqb_spec : forall a b, keqb a b = true <-> a = b.
  Lemma lookup_snoc k k' o (t : @table K) :
    lookup keqb k' (t ++ [(k, o)]) =
    match lookup keqb k' t with Some x => Some x | None => if keqb k k' then Some o else None end.
  Proof.
    induction t as [|[k0 o0] t IH]; cbn; [reflexivity|]. destruct (keqb k0 k'); [reflexivity|exact IH].
  Qed.
End LookupSnoc.

Lemma mem_row_In r l : mem_row r l = true <-> In r l.
Proof.
  induction l as [|x l IH]; cbn; split; intros H; try discriminate; try contradiction.
  - apply orb_true_iff in H as [H|H]; [left; apply zl_spec in H; exact H|right; apply IH; exact H].
  - apply orb_true_iff. destruct H as [H|H]; [left; apply zl_spec; exact H|right; apply IH; exact H].
Qed.

Lemma start_run u S : forall hc,
  (forall p, In p S -> is_start_prim p = true) ->
  (forall k o, In (PCreateRule k o) S ->
               o = u /\ (lookup zlist_eqb k (h_rules hc) = None \/ lookup zlist_eqb k (h_rules hc) = Some u)) ->
  (forall k o, In (PCreateSpec k o) S -> o = u /\ lookup spec_eqb k (h_specs hc) = None) ->
  NoDup (spec_keys S) ->
  exists R P A,
    run_prims S hc = ({| h_rules := h_rules hc ++ R; h_specs := h_specs hc ++ P; h_ipset := h_ipset hc ++ A;
                         h_net := h_net hc |}, true) /\
    (forall e, In e R -> snd e = u /\ In (PCreateRule (fst e) u) S) /\
    (forall e, In e P -> snd e = u /\ In (PCreateSpec (fst e) u) S) /\
    (forall r, In r A -> In (PAdd r) S).
Proof.
  induction S as [|p S IH]; intros hc Hst Hr Hs Hnd.
  - exists [], [], []. cbn. rewrite !app_nil_r. destruct hc; cbn. split; [reflexivity|].
    split; [|split]; intros ? [].
  - assert (Hst' : forall q, In q S -> is_start_prim q = true) by (intros q Hq; apply Hst; right; exact Hq).
    pose proof (Hst p (or_introl eq_refl)) as Hp. destruct p as [k o|k o|k o|a o|r|r]; try discriminate; cbn [run_prims do_prim].
    + (* PCreateRule *)
      destruct (Hr k o (or_introl eq_refl)) as [-> Hl]. unfold create_tolerant, symlink.
      assert (Hnd' : NoDup (spec_keys S)) by exact Hnd.
      destruct Hl as [Hl|Hl]; rewrite Hl; cbv beta iota.
      * destruct (IH (set_hrules hc (h_rules hc ++ [(k, u)]))) as (R & P & A & E & H1 & H2 & H3); auto.
        { intros k' o' Hin. destruct (Hr k' o' (or_intror Hin)) as [-> Hl']. split; [reflexivity|]. cbn.
          rewrite (lookup_snoc zlist_eqb). destruct Hl' as [Hl'|Hl']; rewrite Hl'; [|right; reflexivity].
          destruct (zlist_eqb k k'); [right|left]; reflexivity. }
        { intros k' o' Hin. apply (Hs k' o' (or_intror Hin)). }
        exists ((k, u) :: R), P, A. split; [eapply eq_trans; [exact E|]; cbn [set_hrules set_hspecs set_hipset h_rules h_specs h_ipset h_net]; rewrite <- ?app_assoc; reflexivity|]. repeat split; auto.
        -- destruct H as [<-|H]; [reflexivity|apply H1; exact H].
        -- destruct H as [<-|H]; [left; reflexivity|right; apply H1; exact H].
        -- apply H2; exact H.
        -- right. apply H2; exact H.
        -- intros r Hr'. right. apply H3; exact Hr'.
      * rewrite Z.eqb_refl. cbv beta iota.
        destruct (IH (set_hrules hc (h_rules hc))) as (R & P & A & E & H1 & H2 & H3); auto.
        { intros k' o' Hin. apply (Hr k' o' (or_intror Hin)). }
        { intros k' o' Hin. apply (Hs k' o' (or_intror Hin)). }
        exists R, P, A. split; [eapply eq_trans; [exact E|]; cbn [set_hrules set_hspecs set_hipset h_rules h_specs h_ipset h_net]; rewrite <- ?app_assoc; reflexivity|]. repeat split; auto.
        -- apply H1; exact H.
        -- right. apply H1; exact H.
        -- apply H2; exact H.
        -- right. apply H2; exact H.
        -- intros r Hr'. right. apply H3; exact Hr'.
    + (* PCreateSpec *)
      destruct (Hs k o (or_introl eq_refl)) as [-> Hl]. unfold create_tolerant, symlink. rewrite Hl. cbv beta iota.
      cbn in Hnd. inversion Hnd as [|? ? Hni Hnd']; subst.
      destruct (IH (set_hspecs hc (h_specs hc ++ [(k, u)]))) as (R & P & A & E & H1 & H2 & H3); auto.
      { intros k' o' Hin. apply (Hr k' o' (or_intror Hin)). }
      { intros k' o' Hin. destruct (Hs k' o' (or_intror Hin)) as [-> Hl']. split; [reflexivity|]. cbn.
        rewrite (lookup_snoc spec_eqb). rewrite Hl'. destruct (spec_eqb k k') eqn:E; [|reflexivity].
        apply spec_eqb_spec in E; subst k'. exfalso. apply Hni. unfold spec_keys. apply in_flat_map.
        exists (PCreateSpec k u). split; [exact Hin|left; reflexivity]. }
      exists R, ((k, u) :: P), A. split; [eapply eq_trans; [exact E|]; cbn [set_hrules set_hspecs set_hipset h_rules h_specs h_ipset h_net]; rewrite <- ?app_assoc; reflexivity|]. repeat split; auto.
      -- apply H1; exact H.
      -- right. apply H1; exact H.
      -- destruct H as [<-|H]; [reflexivity|apply H2; exact H].
      -- destruct H as [<-|H]; [left; reflexivity|right; apply H2; exact H].
      -- intros r Hr'. right. apply H3; exact Hr'.
    + (* PAdd *)
      assert (Hnd' : NoDup (spec_keys S)) by exact Hnd.
      destruct (IH (set_hipset hc (add_row r (h_ipset hc)))) as (R & P & A & E & H1 & H2 & H3); auto.
      { intros k' o' Hin. apply (Hr k' o' (or_intror Hin)). }
      { intros k' o' Hin. apply (Hs k' o' (or_intror Hin)). }
      unfold add_row in E. cbn [set_hrules set_hspecs set_hipset h_rules h_specs h_ipset h_net] in E.
      unfold add_row. destruct (mem_row r (h_ipset hc)) eqn:Em.
      * exists R, P, A. split; [eapply eq_trans; [exact E|]; cbn [set_hrules set_hspecs set_hipset h_rules h_specs h_ipset h_net]; rewrite <- ?app_assoc; reflexivity|]. repeat split; auto.
        -- apply H1; exact H.
        -- right. apply H1; exact H.
        -- apply H2; exact H.
        -- right. apply H2; exact H.
        -- intros r' Hr'. right. apply H3; exact Hr'.
      * exists R, P, (r :: A). split; [eapply eq_trans; [exact E|]; cbn [set_hrules set_hspecs set_hipset h_rules h_specs h_ipset h_net]; rewrite <- ?app_assoc; reflexivity|]. repeat split; auto.
        -- apply H1; exact H.
        -- right. apply H1; exact H.
        -- apply H2; exact H.
        -- right. apply H2; exact H.
        -- intros r' [<-|Hr']; [left; reflexivity|right; apply H3; exact Hr'].
Qed.

(** * finish (start host) = host *)
Definition fresh (sp : program) (dns : list (Z * Z)) (m : manifest) (h : host) : Prop :=
  let S := expand sp m (m_net m) dns in
  (forall e, In e (h_rules h) -> snd e <> m_uniq m) /\
  (forall e, In e (h_specs h) -> snd e <> m_uniq m) /\
  (forall k o, In (PCreateRule k o) S -> ~ In k (keys (h_rules h))) /\
  (forall k o, In (PCreateSpec k o) S -> ~ In k (keys (h_specs h))) /\
  NoDup (spec_keys S) /\
  (forall r, In r (h_ipset h) -> nth 1 r 0 <> n_vip (m_net m)) /\
  net_get (m_uniq m) (h_net h) = None.

Lemma net_del_absent u l : net_get u l = None -> net_del u l = l.
Proof.
  induction l as [|[k n] l IH]; cbn; intros H; [reflexivity|]. destruct (k =? u); [discriminate|]. cbn.
  unfold net_del in IH. rewrite IH by exact H. reflexivity.
Qed.

Lemma net_get_del u l : net_get u (net_del u l) = None.
Proof.
  induction l as [|[k n] l IH]; cbn; [reflexivity|]. destruct (k =? u) eqn:E; cbn; [exact IH|rewrite E; exact IH].
Qed.

Lemma net_get_app_none u l l' : net_get u l = None -> net_get u (l ++ l') = net_get u l'.
Proof. induction l as [|[k n] l IH]; cbn; intros H; [reflexivity|]. destruct (k =? u); [discriminate|apply IH; exact H]. Qed.

Lemma net_get_put u n l : net_get u (net_put u n l) = Some n.
Proof. unfold net_put. rewrite net_get_app_none by apply net_get_del. cbn. rewrite Z.eqb_refl. reflexivity. Qed.

Lemma net_del_put u n l : net_get u l = None -> net_del u (net_put u n l) = l.
Proof.
  intros H. unfold net_put. rewrite (net_del_absent u l H). unfold net_del. rewrite filter_app. cbn.
  rewrite Z.eqb_refl. cbn. rewrite app_nil_r. apply (net_del_absent u l H).
Qed.

Lemma existsb_In {A} (f : A -> bool) l x : In x l -> f x = true -> existsb f l = true.
Proof. intros H1 H2. apply existsb_exists. exists x; auto. Qed.

Theorem start_finish_identity sp fp dns m h :
  templates_match sp fp = true -> hwf h -> fresh sp dns m h ->
  snd (start_container sp dns m h) = true /\
  finish fp dns m (fst (start_container sp dns m h)) = (h, true).
Proof.
  intros Ht Hw (F1 & F2 & F3 & F4 & F5 & F6 & F7).
  unfold templates_match in Ht. apply andb_true_iff in Ht as [Ht Hua]. apply andb_true_iff in Ht as [Ht Hcov].
  apply andb_true_iff in Ht as [Hsok Hfok].
  set (u := m_uniq m) in *. set (n := m_net m) in *. set (S := expand sp m n dns) in *.
  set (h0 := set_hnet h (net_put u n (h_net h))).
  assert (Hw0 : hwf h0) by exact Hw.
  destruct (start_run u S h0) as (R & P & A & E & HR & HP & HA).
  { intros p Hp. apply (start_prims_shaped sp m n dns p Hsok) in Hp. destruct p; cbn in *; try contradiction; reflexivity. }
  { intros k o Hin. split.
    - apply (start_prims_shaped sp m n dns _ Hsok) in Hin. exact Hin.
    - left. apply (lookup_None zlist_eqb zl_spec). apply (F3 k o Hin). }
  { intros k o Hin. split.
    - apply (start_prims_shaped sp m n dns _ Hsok) in Hin. apply Hin.
    - apply (lookup_None spec_eqb spec_eqb_spec). apply (F4 k o Hin). }
  { exact F5. }
  unfold start_container, start. fold u n S h0. rewrite E. cbn [fst snd]. split; [reflexivity|].
  set (h1 := {| h_rules := h_rules h0 ++ R; h_specs := h_specs h0 ++ P; h_ipset := h_ipset h0 ++ A; h_net := h_net h0 |}).
  assert (Hw1 : hwf h1).
  { pose proof (run_prims_hwf S h0 Hw0) as H. rewrite E in H. exact H. }
  unfold finish. fold u. change (h_net h1) with (net_put u n (h_net h)). rewrite net_get_put.
  unfold cleanup. set (F := expand fp m n dns).
  rewrite (run_cleanup_filter F h1 (finish_prims_cleanup fp m n dns Hfok) Hw1).
  clear Hw1 Hw0 E. unfold filtered, h1, h0. destruct h as [hr hs hi hn].
  cbn [h_net set_hnet h_rules h_specs h_ipset] in *. f_equal. apply host_ext; cbn [h_net h_rules h_specs h_ipset].
  - (* rules *)
    rewrite filter_app. rewrite (filter_all_true _ hr), (filter_none _ R); [apply app_nil_r| |].
    + intros e He. destruct (HR e He) as [Ho Hc]. apply negb_false_iff.
      apply (covers_rule sp fp m n dns _ _ Hcov) in Hc. fold F in Hc.
      apply (existsb_In _ _ _ Hc). cbn. rewrite (proj2 (zl_spec _ _) eq_refl). rewrite Ho. rewrite Z.eqb_refl. reflexivity.
    + intros e He. apply negb_true_iff. destruct (rm_rule F e) eqn:Erm; [|reflexivity]. exfalso.
      apply existsb_exists in Erm as [p [Hp Hm]]. pose proof (finish_prims_shaped fp m n dns p Hfok Hp) as Hsh.
      destruct p; try discriminate. cbn in Hsh. apply andb_true_iff in Hm as [_ Hm]. apply Z.eqb_eq in Hm.
      apply (F1 e He). unfold u. congruence.
  - (* specs *)
    rewrite filter_app. rewrite (filter_all_true _ hs), (filter_none _ P); [apply app_nil_r| |].
    + intros e He. destruct (HP e He) as [Ho Hc]. apply negb_false_iff.
      pose proof (start_prims_shaped sp m n dns _ Hsok Hc) as [_ Happ].
      pose proof (finish_has_unlink_all fp m n dns Hua) as Hin. fold F in Hin.
      apply (existsb_In _ _ _ Hin). cbn. rewrite Happ, Ho. fold u. rewrite !Z.eqb_refl. reflexivity.
    + intros e He. apply negb_true_iff. destruct (rm_spec F e) eqn:Erm; [|reflexivity]. exfalso.
      apply existsb_exists in Erm as [p [Hp Hm]]. pose proof (finish_prims_shaped fp m n dns p Hfok Hp) as Hsh.
      destruct p; try discriminate. cbn in Hsh. destruct Hsh as [_ ->]. apply andb_true_iff in Hm as [_ Hm].
      cbn in Hm. apply Z.eqb_eq in Hm. apply (F2 e He). unfold u. congruence.
  - (* ip-sets *)
    rewrite filter_app. rewrite (filter_all_true _ hi), (filter_none _ A); [apply app_nil_r| |].
    + intros r Hr. apply negb_false_iff. pose proof (HA r Hr) as Hc.
      apply (covers_row sp fp m n dns _ Hcov) in Hc. fold F in Hc.
      apply (existsb_In _ _ _ Hc). cbn. apply zl_spec. reflexivity.
    + intros r Hr. apply negb_true_iff. destruct (rm_row F r) eqn:Erm; [|reflexivity]. exfalso.
      apply existsb_exists in Erm as [p [Hp Hm]]. pose proof (finish_prims_shaped fp m n dns p Hfok Hp) as Hsh.
      destruct p; try discriminate. cbn in Hsh. apply zl_spec in Hm. subst. apply (F6 _ Hr). exact Hsh.
  - apply net_del_put. exact F7.
Qed.

(** * Finishing is safe to repeat *)
Lemma finish_cases fp dns m h :
  forallb finish_stmt_ok (stmts_of fp) = true -> hwf h ->
  (net_get (m_uniq m) (h_net h) = None /\ finish fp dns m h = (h, true)) \/
  (exists n, net_get (m_uniq m) (h_net h) = Some n /\
             finish fp dns m h =
             (set_hnet (filtered (expand fp m n dns) h) (net_del (m_uniq m) (h_net h)), true)).
Proof.
  intros Hok Hw. unfold finish. destruct (net_get (m_uniq m) (h_net h)) as [n|] eqn:E; [right|left; auto].
  exists n. split; [reflexivity|]. unfold cleanup.
  rewrite (run_cleanup_filter _ h (finish_prims_cleanup fp m n dns Hok) Hw). reflexivity.
Qed.

Theorem finish_idempotent fp dns m h :
  forallb finish_stmt_ok (stmts_of fp) = true -> hwf h ->
  snd (finish fp dns m h) = true /\
  finish fp dns m (fst (finish fp dns m h)) = (fst (finish fp dns m h), true).
Proof.
  intros Hok Hw. destruct (finish_cases fp dns m h Hok Hw) as [[E1 E2]|[n [E1 E2]]]; rewrite E2; cbn [fst snd].
  - split; [reflexivity|exact E2].
  - split; [reflexivity|]. unfold finish. cbn [h_net set_hnet]. rewrite net_get_del. reflexivity.
Qed.

(** the cleanup itself (when network_client.delete did not happen, e.g. it raised) is idempotent as well *)
Theorem cleanup_idempotent fp dns m n h :
  forallb finish_stmt_ok (stmts_of fp) = true -> hwf h ->
  cleanup fp dns m n (fst (cleanup fp dns m n h)) = cleanup fp dns m n h.
Proof.
  intros Hok Hw. unfold cleanup. pose proof (finish_prims_cleanup fp m n dns Hok) as Hc.
  rewrite (run_cleanup_filter _ h Hc Hw). cbn [fst].
  rewrite (run_cleanup_filter _ _ Hc (filtered_hwf _ h Hw)). f_equal.
  unfold filtered. cbn. apply host_ext; try reflexivity; rewrite filter_filter; apply filter_ext; intros e;
    apply andb_diag.
Qed.

(** * Entries of other containers are never touched *)
Definition others_rules (u : Z) (h : host) := filter (fun e => negb (snd e =? u)) (h_rules h).
Definition others_specs (u : Z) (h : host) := filter (fun e => negb (snd e =? u)) (h_specs h).
Definition others_ipset (vip : Z) (h : host) := filter (fun r => negb (nth 1 r 0 =? vip)) (h_ipset h).

Theorem finish_others fp dns m h :
  forallb finish_stmt_ok (stmts_of fp) = true -> hwf h ->
  let h' := fst (finish fp dns m h) in
  others_rules (m_uniq m) h' = others_rules (m_uniq m) h /\
  others_specs (m_uniq m) h' = others_specs (m_uniq m) h /\
  (forall vip, (forall n, net_get (m_uniq m) (h_net h) = Some n -> n_vip n = vip) ->
               others_ipset vip h' = others_ipset vip h) /\
  net_del (m_uniq m) (h_net h') = net_del (m_uniq m) (h_net h) /\
  (forall u, u <> m_uniq m -> net_get u (h_net h') = net_get u (h_net h)).
Proof.
  intros Hok Hw. destruct (finish_cases fp dns m h Hok Hw) as [[E1 E2]|[n [E1 E2]]]; rewrite E2; cbn [fst].
  - repeat split; reflexivity.
  - set (F := expand fp m n dns).
    assert (Hsh : forall p, In p F -> finish_shaped m n p) by (intros p; apply finish_prims_shaped; exact Hok).
    unfold others_rules, others_specs, others_ipset. cbn [set_hnet filtered h_rules h_specs h_ipset h_net]. repeat split.
    + apply filter_implied. intros e _ He. apply negb_true_iff. destruct (rm_rule F e) eqn:Erm; [|reflexivity]. exfalso.
      apply existsb_exists in Erm as [p [Hp Hm]]. pose proof (Hsh p Hp) as Hs. destruct p; try discriminate. cbn in Hs.
      apply andb_true_iff in Hm as [_ Hm]. apply Z.eqb_eq in Hm. apply negb_true_iff in He. apply Z.eqb_neq in He. congruence.
    + apply filter_implied. intros e _ He. apply negb_true_iff. destruct (rm_spec F e) eqn:Erm; [|reflexivity]. exfalso.
      apply existsb_exists in Erm as [p [Hp Hm]]. pose proof (Hsh p Hp) as Hs. destruct p; try discriminate. cbn in Hs.
      destruct Hs as [_ ->]. apply andb_true_iff in Hm as [_ Hm]. cbn in Hm. apply Z.eqb_eq in Hm.
      apply negb_true_iff in He. apply Z.eqb_neq in He. congruence.
    + intros vip Hv. specialize (Hv n E1). subst vip.
      apply filter_implied. intros r _ He. apply negb_true_iff. destruct (rm_row F r) eqn:Erm; [|reflexivity]. exfalso.
      apply existsb_exists in Erm as [p [Hp Hm]]. pose proof (Hsh p Hp) as Hs. destruct p; try discriminate. cbn in Hs.
      apply zl_spec in Hm. subst. apply negb_true_iff in He. apply Z.eqb_neq in He. congruence.
    + unfold net_del. rewrite filter_filter. apply filter_ext. intros e. apply andb_diag.
    + intros u Hu. clear -Hu. induction (h_net h) as [|[k n'] l IH]; cbn; [reflexivity|].
      destruct (k =? m_uniq m) eqn:E; cbn.
      * apply Z.eqb_eq in E. subst k. destruct (m_uniq m =? u) eqn:E2; [apply Z.eqb_eq in E2; congruence|exact IH].
      * destruct (k =? u); [reflexivity|exact IH].
Qed.

Lemma do_start_prim_others m n p h h' :
  start_shaped m n p -> do_prim p h = Some h' ->
  others_rules (m_uniq m) h' = others_rules (m_uniq m) h /\
  others_specs (m_uniq m) h' = others_specs (m_uniq m) h /\
  others_ipset (n_vip n) h' = others_ipset (n_vip n) h /\ h_net h' = h_net h.
Proof.
  intros Hs H. unfold others_rules, others_specs, others_ipset. destruct p; cbn in Hs; try contradiction; cbn in H.
  - destruct (create_tolerant zlist_eqb k o o (h_rules h)) as [t|] eqn:E; inversion H; subst h'. cbn. repeat split.
    apply create_tolerant_cases in E as [[_ ->]|[-> _]]; [|reflexivity].
    rewrite filter_app. cbn. rewrite Hs, Z.eqb_refl. cbn. apply app_nil_r.
  - destruct (create_tolerant spec_eqb k o (sp_app k) (h_specs h)) as [t|] eqn:E; inversion H; subst h'. cbn. repeat split.
    apply create_tolerant_cases in E as [[_ ->]|[-> _]]; [|reflexivity].
    rewrite filter_app. cbn. destruct Hs as [-> _]. rewrite Z.eqb_refl. cbn. apply app_nil_r.
  - inversion H; subst h'. cbn. repeat split. unfold add_row. destruct (mem_row r (h_ipset h)); [reflexivity|].
    rewrite filter_app. cbn. rewrite Hs, Z.eqb_refl. cbn. apply app_nil_r.
Qed.

Lemma run_start_prims_others m n S : forall h,
  (forall p, In p S -> start_shaped m n p) ->
  let h' := fst (run_prims S h) in
  others_rules (m_uniq m) h' = others_rules (m_uniq m) h /\
  others_specs (m_uniq m) h' = others_specs (m_uniq m) h /\
  others_ipset (n_vip n) h' = others_ipset (n_vip n) h /\ h_net h' = h_net h.
Proof.
  induction S as [|p S IH]; intros h Hs; cbn; [repeat split; reflexivity|].
  destruct (do_prim p h) as [h1|] eqn:E; [|cbn; repeat split; reflexivity].
  destruct (do_start_prim_others m n p h h1 (Hs p (or_introl eq_refl)) E) as (A1 & A2 & A3 & A4).
  destruct (IH h1 (fun q Hq => Hs q (or_intror Hq))) as (B1 & B2 & B3 & B4). cbn in *.
  repeat split; congruence.
Qed.

(** start, also when it fails half-way or runs on a host that is not fresh, only adds entries of its own *)
Theorem start_others sp dns m h :
  forallb start_stmt_ok (stmts_of sp) = true ->
  let h' := fst (start sp dns m h) in
  others_rules (m_uniq m) h' = others_rules (m_uniq m) h /\
  others_specs (m_uniq m) h' = others_specs (m_uniq m) h /\
  others_ipset (n_vip (m_net m)) h' = others_ipset (n_vip (m_net m)) h /\ h_net h' = h_net h.
Proof.
  intros Hok. unfold start. apply run_start_prims_others. intros p. apply start_prims_shaped. exact Hok.
Qed.

(** * Any interleaving of other containers' starts and finishes leaves a container's registrations alone *)
Definition mine_rules (u : Z) (h : host) := filter (fun e => snd e =? u) (h_rules h).
Definition mine_specs (u : Z) (h : host) := filter (fun e => snd e =? u) (h_specs h).
Definition mine_ipset (vip : Z) (h : host) := filter (fun r => nth 1 r 0 =? vip) (h_ipset h).

Lemma mine_of_others {A} (f : A -> Z) u u0 (l l' : list A) :
  u <> u0 ->
  filter (fun e => negb (f e =? u)) l' = filter (fun e => negb (f e =? u)) l ->
  filter (fun e => f e =? u0) l' = filter (fun e => f e =? u0) l.
Proof.
  intros Hne H.
  rewrite <- (filter_implied (fun e => f e =? u0) (fun e => negb (f e =? u)) l').
  - rewrite <- (filter_implied (fun e => f e =? u0) (fun e => negb (f e =? u)) l); [rewrite H; reflexivity|].
    intros x _ Hx. apply Z.eqb_eq in Hx. apply negb_true_iff. apply Z.eqb_neq. congruence.
  - intros x _ Hx. apply Z.eqb_eq in Hx. apply negb_true_iff. apply Z.eqb_neq. congruence.
Qed.

Definition foreign (ms : list manifest) (u0 vip0 : Z) (o : cop) : Prop :=
  let m := nth (cop_index o) ms default_manifest in m_uniq m <> u0 /\ n_vip (m_net m) <> vip0.
Definition net_inv (u0 vip0 : Z) (h : host) : Prop :=
  forall u n, In (u, n) (h_net h) -> u <> u0 -> n_vip n <> vip0.

Lemma net_get_In u n l : net_get u l = Some n -> In (u, n) l.
Proof.
  induction l as [|[k n'] l IH]; cbn; intros H; [discriminate|]. destruct (k =? u) eqn:E.
  - apply Z.eqb_eq in E. inversion H; subst. left; reflexivity.
  - right. apply IH. exact H.
Qed.

Lemma net_get_del_other u u0 l : u <> u0 -> net_get u0 (net_del u l) = net_get u0 l.
Proof.
  intros Hne. induction l as [|[k n'] l IH]; cbn; [reflexivity|]. destruct (k =? u) eqn:E; cbn.
  - apply Z.eqb_eq in E. subst k. destruct (u =? u0) eqn:E2; [apply Z.eqb_eq in E2; contradiction|exact IH].
  - destruct (k =? u0); [reflexivity|exact IH].
Qed.

Lemma net_get_app_other u u0 n l : u <> u0 -> net_get u0 (l ++ [(u, n)]) = net_get u0 l.
Proof.
  intros Hne. induction l as [|[k n'] l IH]; cbn.
  - destruct (u =? u0) eqn:E; [apply Z.eqb_eq in E; contradiction|reflexivity].
  - destruct (k =? u0); [reflexivity|exact IH].
Qed.

Definition view_eq (u0 vip0 : Z) (h' h : host) : Prop :=
  mine_rules u0 h' = mine_rules u0 h /\ mine_specs u0 h' = mine_specs u0 h /\
  mine_ipset vip0 h' = mine_ipset vip0 h /\ net_get u0 (h_net h') = net_get u0 (h_net h).

Lemma cstep_foreign sp fp dns ms u0 vip0 o h :
  templates_match sp fp = true -> hwf h -> net_inv u0 vip0 h -> foreign ms u0 vip0 o ->
  let h1 := fst (cstep sp fp dns ms o h) in hwf h1 /\ net_inv u0 vip0 h1 /\ view_eq u0 vip0 h1 h.
Proof.
  intros Ht Hw Hn [Hu Hv]. unfold templates_match in Ht. apply andb_true_iff in Ht as [Ht _].
  apply andb_true_iff in Ht as [Ht _]. apply andb_true_iff in Ht as [Hsok Hfok].
  destruct o as [i|i|i|i]; cbn [cop_index] in Hu, Hv; cbn [cstep fst]; set (m := nth i ms default_manifest) in *.
  - (* CNetPut *)
    split; [exact Hw|]. split.
    + intros u n Hin Hne. cbn in Hin. unfold net_put in Hin. apply in_app_or in Hin as [Hin|[Hin|[]]].
      * unfold net_del in Hin. apply filter_In in Hin as [Hin _]. apply (Hn u n Hin Hne).
      * inversion Hin; subst. exact Hv.
    + repeat split. cbn. unfold net_put. rewrite (net_get_app_other _ _ _ _ Hu). apply net_get_del_other. exact Hu.
  - (* CNetDel *)
    split; [exact Hw|]. split.
    + intros u n Hin Hne. cbn in Hin. unfold net_del in Hin. apply filter_In in Hin as [Hin _]. apply (Hn u n Hin Hne).
    + repeat split. cbn. apply net_get_del_other. exact Hu.
  - (* CStart *)
    destruct (start_others sp dns m h Hsok) as (A1 & A2 & A3 & A4). split; [apply run_prims_hwf; exact Hw|]. split.
    + intros u n Hin Hne. rewrite A4 in Hin. apply (Hn u n Hin Hne).
    + repeat split.
      * apply (mine_of_others snd _ _ _ _ Hu A1).
      * apply (mine_of_others snd _ _ _ _ Hu A2).
      * apply (mine_of_others (fun r => nth 1 r 0) _ _ _ _ Hv A3).
      * rewrite A4. reflexivity.
  - (* CFinish *)
    destruct (finish_others fp dns m h Hfok Hw) as (A1 & A2 & A3 & A4 & A5).
    assert (Hw1 : hwf (fst (finish fp dns m h))).
    { destruct (finish_cases fp dns m h Hfok Hw) as [[_ E]|[n [_ E]]]; rewrite E; cbn [fst]; [exact Hw|].
      apply (filtered_hwf _ h Hw). }
    split; [exact Hw1|]. split.
    + intros u n Hin Hne.
      destruct (finish_cases fp dns m h Hfok Hw) as [[_ E]|[n' [_ E]]]; rewrite E in Hin; cbn [fst] in Hin;
        [apply (Hn u n Hin Hne)|].
      cbn in Hin. unfold net_del in Hin. apply filter_In in Hin as [Hin _]. apply (Hn u n Hin Hne).
    + repeat split.
      * apply (mine_of_others snd _ _ _ _ Hu A1).
      * apply (mine_of_others snd _ _ _ _ Hu A2).
      * destruct (net_get (m_uniq m) (h_net h)) as [n|] eqn:E.
        -- assert (Hvn : n_vip n <> vip0) by (apply (Hn (m_uniq m) n (net_get_In _ _ _ E) Hu)).
           apply (mine_of_others (fun r => nth 1 r 0) _ _ _ _ Hvn). apply A3. intros n' Hn'. congruence.
        -- apply (mine_of_others (fun r => nth 1 r 0) _ _ _ _ Hv). apply A3. intros n' Hn'. discriminate.
      * apply A5. intros E. apply Hu. symmetry. exact E.
Qed.

Theorem interleaving sp fp dns ms u0 vip0 :
  templates_match sp fp = true -> forall ops h,
  hwf h -> net_inv u0 vip0 h -> Forall (foreign ms u0 vip0) ops ->
  view_eq u0 vip0 (crun sp fp dns ms ops h) h.
Proof.
  intros Ht. induction ops as [|o r IH]; intros h Hw Hn Hf; cbn.
  - repeat split; reflexivity.
  - inversion Hf as [|? ? Ho Hr]; subst.
    destruct (cstep_foreign sp fp dns ms u0 vip0 o h Ht Hw Hn Ho) as (W1 & N1 & (V1 & V2 & V3 & V4)).
    destruct (IH _ W1 N1 Hr) as (U1 & U2 & U3 & U4). repeat split; congruence.
Qed.

(** * A decidable form of [fresh] *)
Definition rule_keys (S : list prim) : list rule := flat_map (fun p => match p with PCreateRule k _ => [k] | _ => [] end) S.
Fixpoint nodupb {A} (eqb : A -> A -> bool) (l : list A) : bool :=
  match l with [] => true | x :: t => negb (existsb (eqb x) t) && nodupb eqb t end.

Definition freshb (sp : program) (dns : list (Z * Z)) (m : manifest) (h : host) : bool :=
  let S := expand sp m (m_net m) dns in
  forallb (fun e => negb (snd e =? m_uniq m)) (h_rules h) &&
  forallb (fun e => negb (snd e =? m_uniq m)) (h_specs h) &&
  forallb (fun k => negb (existsb (fun e => zlist_eqb (fst e) k) (h_rules h))) (rule_keys S) &&
  forallb (fun k => negb (existsb (fun e => spec_eqb (fst e) k) (h_specs h))) (spec_keys S) &&
  nodupb spec_eqb (spec_keys S) &&
  forallb (fun r => negb (nth 1 r 0 =? n_vip (m_net m))) (h_ipset h) &&
  negb (is_some (net_get (m_uniq m) (h_net h))).

Lemma nodupb_NoDup {A} (eqb : A -> A -> bool) (Hs : forall a b, eqb a b = true <-> a = b) l :
  nodupb eqb l = true -> NoDup l.
Proof.
  induction l as [|x l IH]; cbn; intros H; [constructor|]. apply andb_true_iff in H as [H1 H2].
  constructor; [|apply IH; exact H2]. intros Hin. apply negb_true_iff in H1.
  assert (existsb (eqb x) l = true) by (apply existsb_exists; exists x; split; [exact Hin|apply Hs; reflexivity]). congruence.
Qed.

Lemma freshb_fresh sp dns m h : freshb sp dns m h = true -> fresh sp dns m h.
Proof.
  unfold freshb, fresh. intros H.
  apply andb_true_iff in H as [H H7]. apply andb_true_iff in H as [H H6]. apply andb_true_iff in H as [H H5].
  apply andb_true_iff in H as [H H4]. apply andb_true_iff in H as [H H3]. apply andb_true_iff in H as [H1 H2].
  rewrite forallb_forall in H1, H2, H3, H4, H6. repeat split.
  - intros e He E. specialize (H1 e He). rewrite E, Z.eqb_refl in H1. discriminate.
  - intros e He E. specialize (H2 e He). rewrite E, Z.eqb_refl in H2. discriminate.
  - intros k o Hin Hk. assert (Hrk : In k (rule_keys (expand sp m (m_net m) dns))).
    { unfold rule_keys. apply in_flat_map. exists (PCreateRule k o). split; [exact Hin|left; reflexivity]. }
    specialize (H3 k Hrk). apply negb_true_iff in H3.
    unfold keys in Hk. apply in_map_iff in Hk as [e [E He]].
    assert (existsb (fun e => zlist_eqb (fst e) k) (h_rules h) = true)
      by (apply existsb_exists; exists e; split; [exact He|apply zl_spec; exact E]). congruence.
  - intros k o Hin Hk. assert (Hsk : In k (spec_keys (expand sp m (m_net m) dns))).
    { unfold spec_keys. apply in_flat_map. exists (PCreateSpec k o). split; [exact Hin|left; reflexivity]. }
    specialize (H4 k Hsk). apply negb_true_iff in H4.
    unfold keys in Hk. apply in_map_iff in Hk as [e [E He]].
    assert (existsb (fun e => spec_eqb (fst e) k) (h_specs h) = true)
      by (apply existsb_exists; exists e; split; [exact He|apply spec_eqb_spec; exact E]). congruence.
  - apply (nodupb_NoDup spec_eqb spec_eqb_spec). exact H5.
  - intros r Hr E. specialize (H6 r Hr). rewrite E, Z.eqb_refl in H6. discriminate.
  - destruct (net_get (m_uniq m) (h_net h)); [discriminate|reflexivity].
Qed.
