(** The cache model's source-derived parameters, taken from the generated tables. *)
From Coq Require Import String.
From TM Require Import Node.Cache Gen.Tables.

Definition c12_cfg : cfg :=
  {| c_pre := c12_tmp_pre; c_post := c12_tmp_post; c_ready := c12_ready_file |}.
