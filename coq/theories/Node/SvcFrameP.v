(** Proofs about Node/SvcFrame.v: what the resource-service framework hands to the implementation. *)
From Coq Require Import ZArith List Bool Lia.
From TM Require Import Node.Owners Node.OwnersP Node.SvcFrame.
Import ListNotations.
Open Scope Z_scope.

(** * Tables *)
Lemma fget_fset_same n e t : fget n (fset n e t) = e.
Proof.
  induction t as [|[k e'] t IH]; cbn; [rewrite Z.eqb_refl; reflexivity|].
  destruct (k =? n) eqn:E; cbn; rewrite E; [reflexivity|exact IH].
Qed.

Lemma fget_fset_other n m e t : m <> n -> fget n (fset m e t) = fget n t.
Proof.
  intros Hne. induction t as [|[k e'] t IH]; cbn.
  - destruct (m =? n) eqn:E; [apply Z.eqb_eq in E; contradiction|reflexivity].
  - destruct (k =? m) eqn:E; cbn.
    + apply Z.eqb_eq in E. subst k. destruct (m =? n) eqn:E2; [apply Z.eqb_eq in E2; contradiction|reflexivity].
    + destruct (k =? n); [reflexivity|exact IH].
Qed.

Lemma fget_entry n t : fget n t = absent \/ In (n, fget n t) t.
Proof.
  induction t as [|[k e] t IH]; cbn; [left; reflexivity|].
  destruct (k =? n) eqn:E; [apply Z.eqb_eq in E; subst; right; left; reflexivity|].
  destruct IH as [IH|IH]; [left; exact IH|right; right; exact IH].
Qed.

Lemma live_set_link_false e : live (set_link false e) = false.
Proof. reflexivity. Qed.
Lemma req_env_live e x : req_env e = Some x -> live e = true.
Proof. unfold req_env. destruct (live e); [reflexivity|discriminate]. Qed.
Lemma replayable_live e : replayable e = true -> live e = true.
Proof. unfold replayable. destruct (req_env e) eqn:E; [intros _; exact (req_env_live e z E)|discriminate]. Qed.
Lemma req_env_set_reply r e : req_env (set_reply r e) = req_env e.
Proof. reflexivity. Qed.

(** * Owners: lists, guards *)
Lemma In_del_z x y l : In x (del_z y l) <-> In x l /\ x <> y.
Proof.
  unfold del_z. rewrite filter_In. split; intros [H1 H2]; split; try exact H1.
  - intros ->. rewrite Z.eqb_refl in H2. discriminate.
  - destruct (x =? y) eqn:E; [apply Z.eqb_eq in E; contradiction|reflexivity].
Qed.

Lemma guarded_app c a : forall b s, guarded c (a ++ b) s = guarded c a s && guarded c b (run c a s).
Proof.
  induction a as [|p a IH]; intros b s; cbn; [reflexivity|]. rewrite IH. rewrite andb_assoc. reflexivity.
Qed.

Lemma guarded_quiet c ops : forall s, forallb quiet ops = true -> guarded c ops s = true.
Proof.
  induction ops as [|p ops IH]; intros s H; cbn; [reflexivity|]. cbn in H. apply andb_true_iff in H as [H1 H2].
  rewrite IH by exact H2. destruct p; cbn in *; try reflexivity; discriminate.
Qed.

Lemma In_dset k x o d (m : devs) : In (k, x) (dset o d m) -> (k = o /\ x = d) \/ In (k, x) m.
Proof.
  induction m as [|[k' d'] m IH]; cbn.
  - intros [H|[]]. inversion H; subst. left; split; reflexivity.
  - destruct (k' =? o) eqn:E; cbn.
    + intros [H|H]; [inversion H; subst; apply Z.eqb_eq in E; subst; left; split; reflexivity|right; right; exact H].
    + intros [H|H]; [right; left; exact H|]. destruct (IH H) as [H'|H']; [left; exact H'|right; right; exact H'].
Qed.

Definition all_stale (m : devs) : Prop := forall k x, In (k, x) m -> d_stale x = true.

Lemma fold_veth_all_stale l : forall m, all_stale m ->
  all_stale (fold_left (fun m o => dset o {| d_ip := None; d_dev := true; d_env := None; d_stale := true |} m) l m).
Proof.
  induction l as [|o l IH]; intros m H; cbn; [exact H|]. apply IH. intros k x Hin.
  destruct (In_dset _ _ _ _ _ Hin) as [[_ ->]|H']; [reflexivity|exact (H k x H')].
Qed.

Lemma fold_restart_all_stale l : forall m, all_stale m -> all_stale (fold_left restart_step l m).
Proof.
  induction l as [|[a o] l IH]; intros m H; cbn; [exact H|]. apply IH. intros k x Hin. unfold restart_step in Hin.
  destruct (dget o m); destruct (In_dset _ _ _ _ _ Hin) as [[_ ->]|H']; try reflexivity; exact (H k x H').
Qed.

(** SvcRestart marks every device stale and leaves the directories alone *)
Lemma restart_all_stale s : all_stale (s_devs (svc_restart s)).
Proof.
  rewrite svc_restart_devs. apply fold_restart_all_stale. apply fold_veth_all_stale. intros k x [].
Qed.

Lemma restart_res s : s_res (svc_restart s) = s_res s.
Proof. reflexivity. Qed.

(** SvcCreate o un-stales only o and never changes the set of resources *)
Lemma create_devs c o env s k x :
  In (k, x) (s_devs (fst (svc_create c o env s))) -> k = o \/ In (k, x) (s_devs s).
Proof.
  destruct (svc_create c o env s) as [s' r] eqn:E. apply svc_create_outcome' in E. cbn [fst]. intros Hin.
  inversion E as [r0 Hr|a s0 H1 H2 H3 H4 H5 H6 H7 H8 H9 H10|a s0 H1 H2 H3 H4 H5 H6 H7]; subst.
  - right; exact Hin.
  - rewrite H6 in Hin. destruct (In_dset _ _ _ _ _ Hin) as [[-> _]|H']; [left; reflexivity|right; exact H'].
  - rewrite H3 in Hin. destruct (In_dset _ _ _ _ _ Hin) as [[-> _]|H']; [left; reflexivity|right; exact H'].
Qed.

Lemma create_res c o env s : s_res (fst (svc_create c o env s)) = s_res s.
Proof.
  destruct (svc_create c o env s) as [s' r] eqn:E. apply svc_create_outcome' in E. cbn [fst].
  inversion E as [r0 Hr|a s0 H1 H2 H3 H4 H5 H6 H7 H8 H9 H10|a s0 H1 H2 H3 H4 H5 H6 H7]; subst;
    [reflexivity|exact H9|exact H6].
Qed.

Lemma delete_res o s : s_res (svc_delete o s) = s_res s.
Proof.
  unfold svc_delete. destruct (dget o (s_devs s)) as [d|]; [|reflexivity]. destruct (d_ip d); reflexivity.
Qed.

Lemma del_all_res l : forall s, s_res (fold_left (fun st o => svc_delete o st) l s) = s_res s.
Proof. induction l as [|o l IH]; intros s; cbn; [reflexivity|]. rewrite IH. apply delete_res. Qed.

Lemma sync_res s : s_res (fst (svc_sync s)) = s_res s.
Proof.
  unfold svc_sync. match goal with |- context [if ?b then _ else _] => destruct b end; cbn; apply del_all_res.
Qed.

(** * The invariants *)
(** every link that resolves is a resource Owners.v knows *)
Definition covers (t : ftable) (s : state) : Prop := forall n, live (fget n t) = true -> In n (s_res s).
(** every device that is not stale belongs to a request the framework hands over *)
Definition fresh_replayed (t : ftable) (s : state) : Prop :=
  forall k x, In (k, x) (s_devs s) -> d_stale x = false -> replayable (fget k t) = true.

Lemma res_covers_covers t s : res_covers t s = true -> covers t s.
Proof.
  intros H n Hl. destruct (fget_entry n t) as [E|E]; [rewrite E in Hl; discriminate|].
  unfold res_covers in H. rewrite forallb_forall in H. specialize (H _ E). cbn in H. rewrite Hl in H. cbn in H.
  apply mem_z_In. exact H.
Qed.

Lemma covers_same_res t s s' : covers t s -> s_res s' = s_res s -> covers t s'.
Proof. intros H E n Hn. rewrite E. exact (H n Hn). Qed.

(** changing one entry and telling Owners.v about the change of the fact keeps [covers] *)
Lemma covers_delta c t s n e' :
  covers t s -> covers (fset n e' t) (run c (res_delta n (fget n t) e') s).
Proof.
  intros H m Hm. unfold res_delta.
  destruct (Z.eq_dec m n) as [->|Hne].
  - rewrite fget_fset_same in Hm. rewrite Hm. cbn [andb].
    destruct (live (fget n t)) eqn:El; cbn.
    + exact (H n El).
    + apply In_add_z. left; reflexivity.
  - rewrite fget_fset_other in Hm by congruence. pose proof (H m Hm) as Hin.
    destruct (live e' && negb (live (fget n t))); cbn; [apply In_add_z; right; exact Hin|].
    destruct (live (fget n t) && negb (live e')); cbn; [apply In_del_z; split; assumption|exact Hin].
Qed.

Lemma quiet_delta n e e' : forallb quiet (res_delta n e e') = true.
Proof.
  unfold res_delta. destruct (live e' && negb (live e)); [reflexivity|].
  destruct (live e && negb (live e')); reflexivity.
Qed.

Lemma quiet_deliver l : forallb quiet (deliver l) = true.
Proof.
  induction l as [|n l IH]; cbn; [reflexivity|]. unfold on_deleted at 1. destruct (is_dot n); cbn; exact IH.
Qed.

Lemma deliver_res c l : forall s, s_res (run c (deliver l) s) = s_res s.
Proof.
  induction l as [|n l IH]; intros s; cbn; [reflexivity|]. unfold on_deleted. destruct (is_dot n); cbn; [apply IH|].
  rewrite IH. apply delete_res.
Qed.

(** ** _on_created *)
Lemma on_created_inv c n t s t' ops dels :
  on_created c n t s = (t', ops, dels) -> covers t s ->
  forallb quiet ops = true /\ covers t' (run c ops s) /\
  (fresh_replayed t s -> fresh_replayed t' (run c ops s)).
Proof.
  unfold on_created. intros E Hc.
  destruct (is_dot n); [inversion E; subst; cbn; auto|].
  destruct (negb (e_link (fget n t))) eqn:El; [inversion E; subst; cbn; auto|].
  destruct (if e_dir (fget n t) then e_req (fget n t) else None) as [env|] eqn:Er.
  - assert (Hlive : live (fget n t) = true).
    { unfold live. apply negb_false_iff in El. rewrite El. destruct (e_dir (fget n t)); [reflexivity|discriminate]. }
    assert (Hreq : e_req (fget n t) = Some env) by (destruct (e_dir (fget n t)); [exact Er|discriminate]).
    destruct (env <? 0) eqn:Eenv; inversion E; subst; clear E.
    + cbn [run forallb]. split; [reflexivity|]. split.
      * intros m Hm. destruct (Z.eq_dec m n) as [->|Hne]; [exact (Hc n Hlive)|].
        rewrite fget_fset_other in Hm by congruence. exact (Hc m Hm).
      * intros Hf k x Hin Hst. specialize (Hf k x Hin Hst).
        destruct (Z.eq_dec k n) as [->|Hne]; [rewrite fget_fset_same; exact Hf|].
        rewrite fget_fset_other by congruence. exact Hf.
    + split; [reflexivity|]. cbn [run step]. split.
      * intros m Hm. rewrite create_res.
        destruct (Z.eq_dec m n) as [->|Hne]; [exact (Hc n Hlive)|].
        rewrite fget_fset_other in Hm by congruence. exact (Hc m Hm).
      * intros Hf k x Hin Hst.
        destruct (Z.eq_dec k n) as [->|Hne].
        { rewrite fget_fset_same. unfold replayable. rewrite req_env_set_reply. unfold req_env.
          rewrite Hlive, Hreq, Eenv. reflexivity. }
        rewrite fget_fset_other by congruence.
        destruct (create_devs c n env s k x Hin) as [->|Hin']; [contradiction|]. exact (Hf k x Hin' Hst).
  - inversion E; subst; clear E. split; [apply quiet_delta|]. split; [apply covers_delta; exact Hc|].
    intros Hf k x Hin Hst.
    assert (Hd : s_devs (run c (res_delta n (fget n t) (set_link false (fget n t))) s) = s_devs s).
    { unfold res_delta. destruct (live (set_link false (fget n t)) && negb (live (fget n t))); [reflexivity|].
      destruct (live (fget n t) && negb (live (set_link false (fget n t)))); reflexivity. }
    rewrite Hd in Hin. specialize (Hf k x Hin Hst).
    destruct (Z.eq_dec k n) as [->|Hne]; [|rewrite fget_fset_other by congruence; exact Hf].
    exfalso. unfold replayable, req_env in Hf. unfold live in Hf.
    destruct (e_link (fget n t)); [|discriminate]. cbn in Hf.
    destruct (e_dir (fget n t)); [|discriminate]. rewrite Er in Hf. discriminate.
Qed.

Lemma on_created_path_inv c p t s t' ops dels :
  on_created_path c p t s = (t', ops, dels) -> covers t s ->
  forallb quiet ops = true /\ covers t' (run c ops s).
Proof.
  destruct p as [|n]; cbn; intros E Hc; [inversion E; subst; cbn; auto|].
  destruct (on_created_inv c n t s t' ops dels E Hc) as (H1 & H2 & _). auto.
Qed.

(** ** the replay loop *)
Lemma replay_inv c l : forall t s t' ops dels,
  replay c l t s = (t', ops, dels) -> covers t s ->
  forallb quiet ops = true /\ covers t' (run c ops s) /\
  (fresh_replayed t s -> fresh_replayed t' (run c ops s)).
Proof.
  induction l as [|n l IH]; intros t s t' ops dels E Hc; cbn in E.
  - inversion E; subst. cbn. auto.
  - destruct (on_created c n t s) as [[t1 o1] d1] eqn:E1.
    destruct (replay c l t1 (run c o1 s)) as [[t2 o2] d2] eqn:E2. inversion E; subst; clear E.
    destruct (on_created_inv c n t s t1 o1 d1 E1 Hc) as (Q1 & C1 & F1).
    destruct (IH t1 (run c o1 s) t' o2 d2 E2 C1) as (Q2 & C2 & F2).
    rewrite forallb_app, Q1, Q2, run_app. auto.
Qed.

(** ** _check_requests *)
Lemma check_requests_covers l : forall t s svcs t' rm,
  check_requests l t = (svcs, t', rm) -> covers t s -> covers t' s.
Proof.
  induction l as [|n l IH]; intros t s svcs t' rm E Hc; cbn in E; [inversion E; subst; exact Hc|].
  destruct (e_dir (fget n t)) eqn:Ed.
  - destruct (check_requests l t) as [[sv t1] r1] eqn:E1. inversion E; subst. exact (IH _ s _ _ _ E1 Hc).
  - destruct (check_requests l (fset n (set_link false (fget n t)) t)) as [[sv t1] r1] eqn:E1. inversion E; subst.
    apply (IH _ s _ _ _ E1). intros m Hm.
    destruct (Z.eq_dec m n) as [->|Hne]; [rewrite fget_fset_same in Hm; discriminate|].
    rewrite fget_fset_other in Hm by congruence. exact (Hc m Hm).
Qed.

(** * (b) the start-up sequence satisfies the guard of C14_service_consistent *)
Lemma sync_guard_from t s : covers t s -> fresh_replayed t s -> guard s SvcSync = true.
Proof.
  intros Hc Hf. cbn. apply forallb_forall. intros [k x] Hin. cbn.
  destruct (d_stale x) eqn:Est; [reflexivity|]. cbn. apply mem_z_In. apply Hc. apply replayable_live.
  exact (Hf k x Hin Est).
Qed.

Lemma startup_inv c order t s t' ops dels :
  startup c order t s = (t', ops, dels) -> covers t s ->
  guarded c ops s = true /\ covers t' (run c ops s).
Proof.
  unfold startup. intros E Hc.
  destruct (check_requests (glob order t) t) as [[svcs t0] rm0] eqn:E0.
  destruct (replay c svcs t0 (run c [SvcRestart] s)) as [[t1 o1] d1] eqn:E1. inversion E; subst; clear E.
  pose proof (check_requests_covers _ _ s _ _ _ E0 Hc) as Hc0.
  assert (Hc1 : covers t0 (run c [SvcRestart] s)) by (apply (covers_same_res t0 s); [exact Hc0|reflexivity]).
  destruct (replay_inv c svcs t0 _ t' o1 d1 E1 Hc1) as (Q & C & F).
  assert (F0 : fresh_replayed t0 (run c [SvcRestart] s)).
  { intros k x Hin Hst. cbn in Hin. rewrite (restart_all_stale s k x Hin) in Hst. discriminate. }
  specialize (F F0).
  change (SvcRestart :: o1 ++ [SvcSync]) with ([SvcRestart] ++ o1 ++ [SvcSync]).
  rewrite !guarded_app, !run_app. split.
  - rewrite (guarded_quiet c o1 _ Q). pose proof (sync_guard_from t' _ C F) as Hg.
    cbn [guarded]. rewrite Hg. reflexivity.
  - apply (covers_same_res t' (run c o1 (run c [SvcRestart] s))); [exact C|]. cbn [run step]. apply sync_res.
Qed.

Theorem startup_guarded c order t s :
  (forall n, live (fget n t) = true -> In n (s_res s)) ->
  guarded c (snd (fst (startup c order t s))) s = true.
Proof.
  intros Hc. destruct (startup c order t s) as [[t' ops] dels] eqn:E. cbn.
  exact (proj1 (startup_inv c order t s t' ops dels E Hc)).
Qed.

(** ... and any number of restarts interleaved with client requests, releases, vanishing containers, foreign
    interference with request.yml and stray events *)
Lemma fstep_inv c f st :
  covers (f_tbl st) (f_own st) ->
  guarded c (snd (fstep c f st)) (f_own st) = true /\
  f_own (fst (fstep c f st)) = run c (snd (fstep c f st)) (f_own st) /\
  covers (f_tbl (fst (fstep c f st))) (f_own (fst (fstep c f st))).
Proof.
  intros Hc. unfold fstep. destruct (fstep_raw c f st) as [[t ops] up] eqn:E. cbn [fst snd f_own f_tbl].
  split; [|split; [reflexivity|]]; revert E; unfold fstep_raw; destruct f as [order| |n env|n|n|n|n|p].
  (* guarded *)
  - destruct (startup c order (f_tbl st) (f_own st)) as [[t1 o1] d1] eqn:E1. intros E; inversion E; subst.
    rewrite guarded_app. rewrite (proj1 (startup_inv c order _ _ _ _ _ E1 Hc)). cbn.
    apply guarded_quiet. apply quiet_deliver.
  - intros E; inversion E; subst. reflexivity.
  - destruct (client_put n env (fget n (f_tbl st))) as [e' ev] eqn:Ep.
    assert (Hc1 := covers_delta c (f_tbl st) (f_own st) n e' Hc).
    destruct ev; try (intros E; inversion E; subst; apply guarded_quiet; apply quiet_delta).
    destruct (f_up st); [|intros E; inversion E; subst; apply guarded_quiet; apply quiet_delta].
    destruct (on_created c n _ _) as [[t2 o2] d2] eqn:E2. intros E; inversion E; subst.
    destruct (on_created_inv c n _ _ _ _ _ E2 Hc1) as (Q & _ & _).
    apply guarded_quiet. rewrite !forallb_app, quiet_delta, Q, quiet_deliver. reflexivity.
  - destruct (client_delete (fget n (f_tbl st))) as [e' ev] eqn:Ep. intros E; inversion E; subst.
    apply guarded_quiet. rewrite forallb_app, quiet_delta. cbn.
    destruct ev; try reflexivity. destruct (f_up st); [|reflexivity]. unfold on_deleted. destruct (is_dot n); reflexivity.
  - destruct (f_up st); intros E; inversion E; subst; apply guarded_quiet; [|apply quiet_delta].
    rewrite forallb_app, quiet_delta. cbn. destruct (e_link (fget n (f_tbl st))); [|reflexivity].
    unfold on_deleted. destruct (is_dot n); reflexivity.
  - intros E; inversion E; subst. reflexivity.
  - intros E; inversion E; subst. reflexivity.
  - destruct (f_up st); [|intros E; inversion E; subst; reflexivity].
    destruct (on_created_path c p _ _) as [[t2 o2] d2] eqn:E2. intros E; inversion E; subst.
    destruct (on_created_path_inv c p _ _ _ _ _ E2 Hc) as (Q & _).
    apply guarded_quiet. rewrite forallb_app, Q, quiet_deliver. reflexivity.
  (* covers *)
  - destruct (startup c order (f_tbl st) (f_own st)) as [[t1 o1] d1] eqn:E1. intros E; inversion E; subst.
    rewrite run_app. apply (covers_same_res t (run c o1 (f_own st))); [|apply deliver_res].
    exact (proj2 (startup_inv c order _ _ _ _ _ E1 Hc)).
  - intros E; inversion E; subst. exact Hc.
  - destruct (client_put n env (fget n (f_tbl st))) as [e' ev] eqn:Ep.
    assert (Hc1 := covers_delta c (f_tbl st) (f_own st) n e' Hc).
    destruct ev; try (intros E; inversion E; subst; exact Hc1).
    destruct (f_up st); [|intros E; inversion E; subst; exact Hc1].
    destruct (on_created c n _ _) as [[t2 o2] d2] eqn:E2. intros E; inversion E; subst.
    destruct (on_created_inv c n _ _ _ _ _ E2 Hc1) as (_ & C & _).
    rewrite !run_app. apply (covers_same_res t (run c o2 (run c (res_delta n (fget n (f_tbl st)) e') (f_own st))));
      [exact C|apply deliver_res].
  - destruct (client_delete (fget n (f_tbl st))) as [e' ev] eqn:Ep. intros E; inversion E; subst.
    assert (Hc1 := covers_delta c (f_tbl st) (f_own st) n e' Hc). rewrite run_app.
    apply (covers_same_res _ _ _ Hc1).
    destruct ev; try reflexivity. destruct (f_up st); [|reflexivity]. unfold on_deleted.
    destruct (is_dot n); [reflexivity|]. cbn. apply delete_res.
  - destruct (f_up st); intros E; inversion E; subst; [|apply covers_delta; exact Hc].
    rewrite run_app. eapply covers_same_res; [apply covers_delta; exact Hc|].
    destruct (e_link (fget n (f_tbl st))); [|reflexivity]. unfold on_deleted.
    destruct (is_dot n); [reflexivity|]. cbn. apply delete_res.
  - intros E; inversion E; subst. exact Hc.
  - intros E; inversion E; subst. cbn [run].
    destruct (e_dir (fget n (f_tbl st))); [|exact Hc].
    intros m Hm. destruct (Z.eq_dec m n) as [->|Hne].
    + rewrite fget_fset_same in Hm. apply Hc. exact Hm.
    + rewrite fget_fset_other in Hm by congruence. exact (Hc m Hm).
  - destruct (f_up st); [|intros E; inversion E; subst; exact Hc].
    destruct (on_created_path c p _ _) as [[t2 o2] d2] eqn:E2. intros E; inversion E; subst.
    destruct (on_created_path_inv c p _ _ _ _ _ E2 Hc) as (_ & C).
    rewrite run_app. apply (covers_same_res t (run c o2 (f_own st))); [exact C|apply deliver_res].
Qed.

Lemma frame_run_inv c fs : forall st,
  covers (f_tbl st) (f_own st) ->
  guarded c (snd (frame_run c fs st)) (f_own st) = true /\
  f_own (fst (frame_run c fs st)) = run c (snd (frame_run c fs st)) (f_own st) /\
  covers (f_tbl (fst (frame_run c fs st))) (f_own (fst (frame_run c fs st))).
Proof.
  induction fs as [|f fs IH]; intros st Hc; cbn; [auto|].
  destruct (fstep_inv c f st Hc) as (G1 & R1 & C1).
  destruct (fstep c f st) as [st1 o1] eqn:E1. cbn [fst snd] in *.
  destruct (IH st1 C1) as (G2 & R2 & C2).
  destruct (frame_run c fs st1) as [st2 o2] eqn:E2. cbn [fst snd] in *.
  rewrite guarded_app, run_app, G1, <- R1, G2. auto.
Qed.

Theorem frame_run_guarded c fs :
  guarded c (frame_ops c fs) empty_state = true /\
  f_own (fst (frame_run c fs fstate0)) = run c (frame_ops c fs) empty_state.
Proof.
  assert (Hc : covers (f_tbl fstate0) (f_own fstate0)) by (intros n Hn; discriminate).
  destruct (frame_run_inv c fs fstate0 Hc) as (G & R & _). exact (conj G R).
Qed.

(** hence C14_service_consistent applies to every history of the framework (restated here so that the Props file is
    a one-liner) *)
Theorem frame_service_consistent c fs :
  let s := f_own (fst (frame_run c fs fstate0)) in
  (forall o a, dev_holds (s_devs s) o a = true -> lookup Z.eqb a (s_vips s) = Some o) /\
  (forall o1 o2 a, dev_holds (s_devs s) o1 a = true -> dev_holds (s_devs s) o2 a = true -> o1 = o2).
Proof.
  intros s. destruct (frame_run_guarded c fs) as (G & R). unfold s. rewrite R.
  pose proof (run_consistent c (frame_ops c fs) empty_state (wf_empty c) G consistent_empty) as Hc.
  exact (conj Hc (fun o1 o2 a => consistent_exclusive _ o1 o2 a Hc)).
Qed.

(** * (a) the start-up replays every request exactly once, in directory order, and nothing else *)
Lemma creates_app a b : creates (a ++ b) = creates a ++ creates b.
Proof.
  induction a as [|p a IH]; cbn; [reflexivity|]. destruct (create_of p); cbn; rewrite IH; reflexivity.
Qed.

Lemma creates_delta n e e' : creates (res_delta n e e') = [].
Proof.
  unfold res_delta. destruct (live e' && negb (live e)); [reflexivity|].
  destruct (live e && negb (live e')); reflexivity.
Qed.

Definition replay_item (t : ftable) (n : Z) : list (Z * Z) :=
  match req_env (fget n t) with Some env => [(n, env)] | None => [] end.

Lemma on_created_creates c n t s t' ops dels :
  on_created c n t s = (t', ops, dels) -> is_dot n = false ->
  creates ops = replay_item t n /\ (forall m, m <> n -> fget m t' = fget m t).
Proof.
  unfold on_created, replay_item, req_env, live. intros E Hd. rewrite Hd in E.
  destruct (e_link (fget n t)) eqn:El; cbn [negb andb] in *; [|inversion E; subst; auto].
  destruct (e_dir (fget n t)) eqn:Ed.
  - destruct (e_req (fget n t)) as [env|] eqn:Er.
    + destruct (env <? 0); inversion E; subst; split; try reflexivity; intros m Hm; apply fget_fset_other; congruence.
    + inversion E; subst. split; [apply creates_delta|]. intros m Hm; apply fget_fset_other; congruence.
  - inversion E; subst. split; [apply creates_delta|]. intros m Hm; apply fget_fset_other; congruence.
Qed.

Lemma flat_map_ext_in' {A B} (f g : A -> list B) l : (forall x, In x l -> f x = g x) -> flat_map f l = flat_map g l.
Proof.
  induction l as [|x l IH]; intros H; cbn; [reflexivity|]. rewrite (H x (or_introl eq_refl)), IH; [reflexivity|].
  intros y Hy. apply H. right; exact Hy.
Qed.

Lemma replay_creates c l : forall t s t' ops dels,
  replay c l t s = (t', ops, dels) -> NoDup l -> forallb (fun n => negb (is_dot n)) l = true ->
  creates ops = flat_map (replay_item t) l.
Proof.
  induction l as [|n l IH]; intros t s t' ops dels E Hnd Hdot; cbn in E; [inversion E; reflexivity|].
  destruct (on_created c n t s) as [[t1 o1] d1] eqn:E1.
  destruct (replay c l t1 (run c o1 s)) as [[t2 o2] d2] eqn:E2. inversion E; subst; clear E.
  cbn in Hdot. apply andb_true_iff in Hdot as [Hd1 Hd2]. apply negb_true_iff in Hd1.
  inversion Hnd as [|x l' Hnotin Hnd']; subst.
  destruct (on_created_creates c n t s t1 o1 d1 E1 Hd1) as (Hc1 & Hsame).
  rewrite creates_app, Hc1, (IH t1 _ t' o2 d2 E2 Hnd' Hd2). cbn [flat_map]. f_equal.
  apply flat_map_ext_in'. intros m Hm. unfold replay_item. rewrite Hsame; [reflexivity|].
  intros ->. contradiction.
Qed.

Lemma check_requests_spec l : forall t svcs t' rm,
  check_requests l t = (svcs, t', rm) ->
  svcs = filter (fun n => e_dir (fget n t)) l /\
  (forall m, e_dir (fget m t) = true -> fget m t' = fget m t) /\
  (forall m, e_dir (fget m t') = e_dir (fget m t)).
Proof.
  induction l as [|n l IH]; intros t svcs t' rm E; cbn in E; [inversion E; subst; cbn; auto|].
  cbn [filter]. destruct (e_dir (fget n t)) eqn:Ed.
  - destruct (check_requests l t) as [[sv t1] r1] eqn:E1. inversion E; subst.
    destruct (IH _ _ _ _ E1) as (H1 & H2 & H3). rewrite H1. auto.
  - destruct (check_requests l (fset n (set_link false (fget n t)) t)) as [[sv t1] r1] eqn:E1. inversion E; subst.
    destruct (IH _ _ _ _ E1) as (H1 & H2 & H3).
    assert (Hd : forall m, e_dir (fget m (fset n (set_link false (fget n t)) t)) = e_dir (fget m t)).
    { intros m. destruct (Z.eq_dec m n) as [->|Hne]; [rewrite fget_fset_same; reflexivity|].
      rewrite fget_fset_other by congruence. reflexivity. }
    split; [|split].
    + rewrite H1. apply filter_ext. intros m. apply Hd.
    + intros m Hm. rewrite H2 by (rewrite Hd; exact Hm).
      destruct (Z.eq_dec m n) as [->|Hne]; [rewrite Hm in Ed; discriminate|]. apply fget_fset_other. congruence.
    + intros m. rewrite H3. apply Hd.
Qed.

Lemma NoDup_filter {A} (f : A -> bool) l : NoDup l -> NoDup (filter f l).
Proof.
  induction 1 as [|x l Hn Hnd IH]; cbn; [constructor|]. destruct (f x); [|exact IH].
  constructor; [|exact IH]. intros Hin. apply filter_In in Hin. tauto.
Qed.

Lemma nodup_z_NoDup l : nodup_z l = true -> NoDup l.
Proof.
  induction l as [|x l IH]; cbn; intros H; [constructor|]. apply andb_true_iff in H as [H1 H2].
  constructor; [|exact (IH H2)]. intros Hin. apply mem_z_In in Hin. rewrite Hin in H1. discriminate.
Qed.

Lemma flat_map_filter_nil {A B} (f : A -> list B) (p : A -> bool) l :
  (forall x, p x = false -> f x = []) -> flat_map f (filter p l) = flat_map f l.
Proof.
  intros H. induction l as [|x l IH]; cbn; [reflexivity|]. destruct (p x) eqn:E; cbn; rewrite IH; [reflexivity|].
  rewrite (H x E). reflexivity.
Qed.

Theorem startup_replays_all c order t s :
  nodup_z order = true ->
  let ops := snd (fst (startup c order t s)) in
  (exists mid, ops = SvcRestart :: mid ++ [SvcSync] /\ forallb quiet mid = true) /\
  creates ops = to_replay order t.
Proof.
  intros Hnd ops. unfold ops, startup.
  destruct (check_requests (glob order t) t) as [[svcs t0] rm0] eqn:E0.
  destruct (replay c svcs t0 (run c [SvcRestart] s)) as [[t1 o1] d1] eqn:E1. cbn [fst snd].
  destruct (check_requests_spec _ _ _ _ _ E0) as (Hs & Hkeep & Hdir).
  assert (Hg : NoDup (glob order t)) by (apply NoDup_filter; apply nodup_z_NoDup; exact Hnd).
  assert (Hsv : NoDup svcs) by (rewrite Hs; apply NoDup_filter; exact Hg).
  assert (Hdot : forallb (fun n => negb (is_dot n)) svcs = true).
  { apply forallb_forall. intros n Hn. rewrite Hs in Hn. apply filter_In in Hn as [Hn _].
    unfold glob in Hn. apply filter_In in Hn as [_ Hn]. apply andb_true_iff in Hn. tauto. }
  split.
  - exists o1. split; [reflexivity|].
    assert (Hq : forall l t s t' ops dels, replay c l t s = (t', ops, dels) -> forallb quiet ops = true).
    { induction l as [|n l IH]; intros ta sa tb oa da E; cbn in E; [inversion E; reflexivity|].
      destruct (on_created c n ta sa) as [[tx ox] dx] eqn:Ex.
      destruct (replay c l tx (run c ox sa)) as [[ty oy] dy] eqn:Ey. inversion E; subst.
      rewrite forallb_app, (IH _ _ _ _ _ Ey), andb_true_r. revert Ex. unfold on_created.
      destruct (is_dot n); [intros Ex; inversion Ex; reflexivity|].
      destruct (negb (e_link (fget n ta))); [intros Ex; inversion Ex; reflexivity|].
      destruct (if e_dir (fget n ta) then e_req (fget n ta) else None) as [env|].
      - destruct (env <? 0); intros Ex; inversion Ex; reflexivity.
      - intros Ex; inversion Ex. apply quiet_delta. }
    exact (Hq _ _ _ _ _ _ E1).
  - change (SvcRestart :: o1 ++ [SvcSync]) with ([SvcRestart] ++ o1 ++ [SvcSync]).
    rewrite !creates_app. cbn [creates create_of]. rewrite app_nil_r. cbn [app].
    rewrite (replay_creates c svcs t0 _ t1 o1 d1 E1 Hsv Hdot). rewrite Hs. unfold to_replay.
    rewrite flat_map_filter_nil.
    + apply flat_map_ext_in'. intros n Hn. unfold replay_item.
      destruct (e_dir (fget n t)) eqn:Ed; [rewrite Hkeep by exact Ed; reflexivity|].
      unfold req_env, live. rewrite Hdir, Ed, !andb_false_r. reflexivity.
    + intros n Hn. unfold replay_item, req_env, live. rewrite Hdir, Hn, andb_false_r. reflexivity.
Qed.

(** exactly once: a request that has to be handed over and that the listing shows is handed over once *)
Lemma count_flat_single (f : Z -> option Z) (l : list Z) n env :
  NoDup l -> In n l -> f n = Some env ->
  filter (fun x => fst x =? n) (flat_map (fun k => match f k with Some e => [(k, e)] | None => [] end) l) = [(n, env)].
Proof.
  intros Hnd.
  assert (Hnil : forall l', ~ In n l' ->
    filter (fun x : Z * Z => fst x =? n) (flat_map (fun k => match f k with Some e => [(k, e)] | None => [] end) l') = []).
  { induction l' as [|y l' IH']; intros Hy; cbn; [reflexivity|].
    rewrite filter_app, IH' by (intros H; apply Hy; right; exact H).
    rewrite app_nil_r. destruct (f y); [|reflexivity]. cbn.
    destruct (y =? n) eqn:E; [apply Z.eqb_eq in E; subst; exfalso; apply Hy; left; reflexivity|reflexivity]. }
  induction Hnd as [|x l Hn Hnd IH]; intros Hin Hf; [destruct Hin|].
  cbn [flat_map]. rewrite filter_app. destruct Hin as [->|Hin].
  - rewrite Hf, (Hnil l Hn). cbn. rewrite Z.eqb_refl. reflexivity.
  - rewrite (IH Hin Hf). destruct (f x); [|reflexivity]. cbn.
    destruct (x =? n) eqn:E; [apply Z.eqb_eq in E; subst; contradiction|reflexivity].
Qed.

Theorem startup_replays_once c order t s n env :
  nodup_z order = true -> In n order -> is_dot n = false -> req_env (fget n t) = Some env ->
  filter (fun x => fst x =? n) (creates (snd (fst (startup c order t s)))) = [(n, env)].
Proof.
  intros Hnd Hin Hdot Hreq. rewrite (proj2 (startup_replays_all c order t s Hnd)). unfold to_replay.
  apply (count_flat_single (fun k => req_env (fget k t))).
  - apply NoDup_filter. apply nodup_z_NoDup. exact Hnd.
  - unfold glob. apply filter_In. split; [exact Hin|]. rewrite Hdot. cbn.
    pose proof (req_env_live _ _ Hreq) as Hl. unfold live in Hl. apply andb_true_iff in Hl. tauto.
  - exact Hreq.
Qed.

(** nothing else: whatever is handed over is a request of the directory that resolves, with its own payload *)
Theorem startup_replays_only c order t s n env :
  nodup_z order = true -> In (n, env) (creates (snd (fst (startup c order t s)))) ->
  In n order /\ is_dot n = false /\ req_env (fget n t) = Some env.
Proof.
  intros Hnd Hin. rewrite (proj2 (startup_replays_all c order t s Hnd)) in Hin. unfold to_replay in Hin.
  apply in_flat_map in Hin as (k & Hk & Hin). unfold glob in Hk. apply filter_In in Hk as [Hk1 Hk2].
  destruct (req_env (fget k t)) as [e|] eqn:E; [|destruct Hin]. destruct Hin as [Hin|[]]. inversion Hin; subst.
  apply andb_true_iff in Hk2 as [Hk2 _]. apply negb_true_iff in Hk2. auto.
Qed.

(** * (c) client laws *)
Theorem get_after_delete e : client_get (fst (client_delete e)) = None \/ e_uid e = false.
Proof. unfold client_delete. destruct (e_uid e); [left; reflexivity|right; reflexivity]. Qed.

Theorem delete_twice e : fst (client_delete (fst (client_delete e))) = fst (client_delete e).
Proof. unfold client_delete. destruct (e_uid e) eqn:E; cbn; [reflexivity|rewrite E; reflexivity]. Qed.

(** the second delete tells the service nothing *)
Theorem delete_twice_silent e : snd (client_delete (fst (client_delete e))) = CNone.
Proof. unfold client_delete. destruct (e_uid e) eqn:E; cbn; [reflexivity|rewrite E; reflexivity]. Qed.

(** put of a registered request removes the reply and notifies the service *)
Theorem put_existing_removes_reply n env e :
  live e = true -> e_uid e = true ->
  client_get (fst (client_put n env e)) = None /\ snd (client_put n env e) = CCreated /\
  e_req (fst (client_put n env e)) = Some env /\ live (fst (client_put n env e)) = true.
Proof.
  destruct e as [l d r u rep]. unfold live, client_put, client_get. cbn. intros Hl Hu.
  apply andb_true_iff in Hl as [-> ->]. subst u. cbn. auto.
Qed.

(** put; the service answers; get returns the answer *)
Theorem put_answer_get c n env t s up :
  0 <= n -> 0 <= env ->
  let st1 := fst (fstep c (FPut n env) {| f_tbl := t; f_own := s; f_up := up |}) in
  e_uid (fget n t) = false \/ live (fget n t) = true ->
  (up = true ->
   exists r, client_get (fget n (f_tbl st1)) = Some r /\
             In (SvcCreate n env) (snd (fstep c (FPut n env) {| f_tbl := t; f_own := s; f_up := up |}))) /\
  (up = false -> client_get (fget n (f_tbl st1)) = (if e_uid (fget n t) then None else client_get (fget n t))).
Proof.
  intros Hn Henv st1 Hpre. unfold st1, fstep, fstep_raw. cbn [f_tbl f_own f_up].
  assert (Hdot : is_dot n = false) by (unfold is_dot; lia).
  assert (Hneg : (env <? 0) = false) by lia.
  destruct (client_put n env (fget n t)) as [e' ev] eqn:Ep.
  assert (Hev : ev = CCreated /\ e_link e' = true /\ e_dir e' = true /\ e_req e' = Some env /\
                (e_uid (fget n t) = true -> e_reply e' = None) /\
                (e_uid (fget n t) = false -> e_dir (fget n t) = true -> e_reply e' = e_reply (fget n t)) /\
                (e_dir (fget n t) = false -> e_reply e' = None)).
  { revert Ep. unfold client_put, live in *. destruct (e_dir (fget n t)) eqn:Ed.
    - cbn. destruct (e_uid (fget n t)) eqn:Eu.
      + destruct Hpre as [Hp|Hp]; [discriminate|]. apply andb_true_iff in Hp as [Hp _]. rewrite Hp.
        intros E; inversion E; subst; cbn. repeat split; auto; try discriminate.
      + intros E; inversion E; subst; cbn. repeat split; auto; try discriminate.
    - cbn. intros E; inversion E; subst; cbn. repeat split; auto; try discriminate. }
  destruct Hev as (-> & Hl & Hd & Hr & Hrep1 & Hrep2 & Hrep3). split.
  - intros ->. unfold on_created. rewrite Hdot, fget_fset_same, Hl, Hd, Hr, Hneg. cbn [negb fst snd f_tbl].
    rewrite fget_fset_same. unfold client_get. cbn. rewrite Hd. eexists. split; [reflexivity|].
    apply in_or_app. right. left. reflexivity.
  - intros ->. cbn [fst snd f_tbl]. rewrite fget_fset_same. unfold client_get. rewrite Hd.
    destruct (e_uid (fget n t)) eqn:Eu; [exact (Hrep1 eq_refl)|].
    destruct (e_dir (fget n t)) eqn:Ed; [exact (Hrep2 eq_refl eq_refl)|]. exact (Hrep3 eq_refl).
Qed.

(** * A live, replayed owner keeps its address across a start-up *)
(** [o] holds [a]: the directory says so and the service's device says so *)
Definition holds (o a : Z) (s : state) : Prop := In (a, o) (s_vips s) /\ dev_holds (s_devs s) o a = true.
(** [a] is the only address of [o] in the directory (side condition of the restart: initialize() keeps, per owner,
    the address listed last) *)
Definition sole (o a : Z) (s : state) : Prop := forall a', In (a', o) (s_vips s) -> a' = a.
Definition sole_addr (o a : Z) (s : state) : bool :=
  forallb (fun e => negb (snd e =? o) || (fst e =? a)) (s_vips s).
Definition fresh (o : Z) (s : state) : Prop := dev_stale (s_devs s) o = false.

Lemma sole_addr_sole o a s : sole_addr o a s = true -> sole o a s.
Proof.
  intros H a' Hin. unfold sole_addr in H. rewrite forallb_forall in H. specialize (H _ Hin). cbn in H.
  rewrite Z.eqb_refl in H. cbn in H. apply Z.eqb_eq in H. exact H.
Qed.

(** operations of the framework other than the owner's own delete, synchronize and a restart *)
Definition calm (o : Z) (p : op) : bool :=
  match p with
  | ResUp _ | ResDown _ | SvcCreate _ _ => true
  | SvcDelete x => negb (x =? o)
  | _ => false
  end.
Definition mild (p : op) : bool :=
  match p with ResUp _ | ResDown _ | SvcCreate _ _ => true | _ => false end.

Lemma mild_calm o ops : forallb mild ops = true -> forallb (calm o) ops = true.
Proof.
  induction ops as [|p ops IH]; cbn; [reflexivity|]. intros H. apply andb_true_iff in H as [H1 H2].
  rewrite (IH H2), andb_true_r. destruct p; cbn in *; try reflexivity; discriminate.
Qed.

Lemma create_fresh c o env s a :
  dev_holds (s_devs s) o a = true -> dev_stale (s_devs (fst (svc_create c o env s))) o = false.
Proof.
  intros Hh. apply dev_holds_iff in Hh as [d [H1 H2]]. unfold svc_create. rewrite H1, H2.
  destruct (d_dev d); cbn; unfold dev_stale; rewrite dget_dset_same; reflexivity.
Qed.

Lemma step_calm c o a p s :
  calm o p = true -> wf c s -> holds o a s -> sole o a s ->
  holds o a (fst (step c p s)) /\ sole o a (fst (step c p s)) /\
  (fresh o s -> fresh o (fst (step c p s))) /\
  (forall env, p = SvcCreate o env -> fresh o (fst (step c p s))).
Proof.
  intros Hc Hw [Hin Hh] Hs. destruct p; try discriminate; cbn [step fst].
  - unfold holds, sole, fresh; cbn. repeat split; auto. intros; discriminate.
  - unfold holds, sole, fresh; cbn. repeat split; auto. intros; discriminate.
  - destruct (Z.eq_dec o0 o) as [->|Hne].
    + destruct (svc_create_reuse c o env s a Hh) as (_ & Hv & Hh' & _).
      pose proof (create_fresh c o env s a Hh) as Hf.
      unfold holds, sole, fresh. rewrite Hv. repeat split; auto.
    + destruct (svc_create c o0 env s) as [s' r] eqn:E. apply svc_create_outcome' in E. cbn [fst].
      assert (Hx : forall env', SvcCreate o0 env <> SvcCreate o env') by (intros env' X; inversion X; contradiction).
      inversion E as [r' Hr'|b s1 G1 G2 G3 G4 G5 G6 G7 G8 G9 G10|b s1 G1 G2 G3 G4 G5 G6 G7]; subst.
      * unfold holds. repeat split; auto. intros env' X. destruct (Hx env' X).
      * unfold holds, sole, fresh, dev_holds, dev_stale in *. rewrite G5, G6, dget_dset_other by exact Hne.
        repeat split; auto.
        -- apply in_or_app. left. exact Hin.
        -- intros a' Ha. apply in_app_or in Ha as [Ha|[Ha|[]]]; [exact (Hs a' Ha)|]. inversion Ha; subst. contradiction.
        -- intros env' X. destruct (Hx env' X).
      * unfold holds, sole, fresh, dev_holds, dev_stale in *. rewrite G2, G3, dget_dset_other by exact Hne.
        repeat split; auto. intros env' X. destruct (Hx env' X).
  - cbn in Hc. apply negb_true_iff in Hc. apply Z.eqb_neq in Hc.
    destruct (svc_delete_frame o0 s) as (_ & _ & _ & _ & _ & G). destruct Hw as (Hv & _).
    unfold holds, sole, fresh, dev_holds, dev_stale in *. rewrite G, dget_ddel_other by exact Hc.
    repeat split; auto.
    + apply svc_delete_keeps; auto. intros [X _]. contradiction.
    + intros a' Ha. apply Hs. exact (svc_delete_incl o0 s _ Ha).
    + intros; discriminate.
Qed.

Lemma run_calm c o a ops : forall s,
  forallb (calm o) ops = true -> wf c s -> holds o a s -> sole o a s ->
  holds o a (run c ops s) /\ sole o a (run c ops s) /\
  (fresh o s \/ (exists env, In (SvcCreate o env) ops) -> fresh o (run c ops s)).
Proof.
  induction ops as [|p ops IH]; intros s Hc Hw Hh Hs; cbn.
  - split; [exact Hh|split; [exact Hs|]]. intros [H|[env []]]. exact H.
  - cbn in Hc. apply andb_true_iff in Hc as [Hc1 Hc2].
    destruct (step_calm c o a p s Hc1 Hw Hh Hs) as (Hh1 & Hs1 & Hf1 & Hf2).
    destruct (IH _ Hc2 (step_wf c p s Hw) Hh1 Hs1) as (Hh2 & Hs2 & Hf3).
    split; [exact Hh2|split; [exact Hs2|]].
    intros [H|[env [H|H]]]; apply Hf3.
    + left. exact (Hf1 H).
    + left. exact (Hf2 env H).
    + right. exists env. exact H.
Qed.

(** SvcRestart: the owner of a single address gets a (stale) device with that address *)
Lemma fold_restart_holds_sole o a l : forall m,
  (forall a', In (a', o) l -> a' = a) -> In (a, o) l \/ dev_holds m o a = true ->
  dev_holds (fold_left restart_step l m) o a = true.
Proof.
  induction l as [|[b x] l IH]; intros m Hs H; cbn.
  - destruct H as [[]|H]. exact H.
  - apply IH; [intros a' Ha; apply Hs; right; exact Ha|].
    destruct (Z.eq_dec x o) as [->|Hne].
    + right. assert (b = a) by (apply Hs; left; reflexivity). subst b. unfold restart_step, dev_holds.
      destruct (dget o m); rewrite dget_dset_same; cbn; apply Z.eqb_refl.
    + destruct H as [[H|H]|H]; [inversion H; subst; contradiction|left; exact H|right].
      unfold restart_step, dev_holds in *. destruct (dget x m); rewrite dget_dset_other by exact Hne; exact H.
Qed.

Lemma restart_holds o a s : In (a, o) (s_vips s) -> sole o a s -> holds o a (svc_restart s).
Proof.
  intros Hin Hs. split; [exact Hin|]. rewrite svc_restart_devs. apply fold_restart_holds_sole; [exact Hs|left; exact Hin].
Qed.

Lemma creates_In n env ops : In (n, env) (creates ops) -> In (SvcCreate n env) ops.
Proof.
  induction ops as [|p ops IH]; cbn; [auto|]. destruct p; cbn; try (intros H; right; exact (IH H)).
  intros [H|H]; [inversion H; subst; left; reflexivity|right; exact (IH H)].
Qed.

Lemma on_created_mild c n t s t' ops dels : on_created c n t s = (t', ops, dels) -> forallb mild ops = true.
Proof.
  unfold on_created. destruct (is_dot n); [intros E; inversion E; reflexivity|].
  destruct (negb (e_link (fget n t))); [intros E; inversion E; reflexivity|].
  destruct (if e_dir (fget n t) then e_req (fget n t) else None) as [env|].
  - destruct (env <? 0); intros E; inversion E; reflexivity.
  - intros E; inversion E. unfold res_delta.
    destruct (live (set_link false (fget n t)) && negb (live (fget n t))); [reflexivity|].
    destruct (live (fget n t) && negb (live (set_link false (fget n t)))); reflexivity.
Qed.

Lemma replay_mild c l : forall t s t' ops dels, replay c l t s = (t', ops, dels) -> forallb mild ops = true.
Proof.
  induction l as [|n l IH]; intros t s t' ops dels E; cbn in E; [inversion E; reflexivity|].
  destruct (on_created c n t s) as [[t1 o1] d1] eqn:E1.
  destruct (replay c l t1 (run c o1 s)) as [[t2 o2] d2] eqn:E2. inversion E; subst.
  rewrite forallb_app, (on_created_mild _ _ _ _ _ _ _ E1), (IH _ _ _ _ _ E2). reflexivity.
Qed.

(** the start-up in parts: what holds right before synchronize *)
Lemma startup_parts c order t s t' ops dels :
  startup c order t s = (t', ops, dels) -> covers t s ->
  exists mid, ops = SvcRestart :: mid ++ [SvcSync] /\ forallb mild mid = true /\
    covers t' (run c mid (svc_restart s)) /\ fresh_replayed t' (run c mid (svc_restart s)).
Proof.
  unfold startup. intros E Hc.
  destruct (check_requests (glob order t) t) as [[svcs t0] rm0] eqn:E0.
  destruct (replay c svcs t0 (run c [SvcRestart] s)) as [[t1 o1] d1] eqn:E1. inversion E; subst; clear E.
  pose proof (check_requests_covers _ _ s _ _ _ E0 Hc) as Hc0.
  assert (Hc1 : covers t0 (run c [SvcRestart] s)) by (apply (covers_same_res t0 s); [exact Hc0|reflexivity]).
  destruct (replay_inv c svcs t0 _ t' o1 d1 E1 Hc1) as (Q & C & F).
  assert (F0 : fresh_replayed t0 (run c [SvcRestart] s)).
  { intros k x Hin Hst. cbn in Hin. rewrite (restart_all_stale s k x Hin) in Hst. discriminate. }
  exists o1. repeat split; [exact (replay_mild _ _ _ _ _ _ _ E1)|exact C|exact (F F0)].
Qed.

(** synchronize keeps the address of a device that is not stale and whose resource exists *)
Lemma sync_keeps c o a s :
  wf c s -> holds o a s -> fresh o s -> In o (s_res s) ->
  holds o a (fst (svc_sync s)) /\ fresh o (fst (svc_sync s)).
Proof.
  intros Hw [Hin Hh] Hf Hr.
  assert (Hv : In (a, o) (s_vips (fst (step c SvcSync s)))).
  { apply step_keeps_vip; [exact Hw|exact Hin|]. cbn. unfold fresh in Hf. rewrite Hf. cbn.
    apply negb_false_iff. apply mem_z_In. exact Hr. }
  cbn [step fst] in Hv.
  assert (Hd : dget o (s_devs (fst (svc_sync s))) = dget o (s_devs s)).
  { assert (Hm : mem_z o (stale_owners (s_devs s)) = false).
    { destruct (mem_z o (stale_owners (s_devs s))) eqn:Em; [|reflexivity]. apply mem_z_In in Em.
      apply stale_owners_In in Em; [|exact (proj1 (proj2 (proj2 (proj2 Hw))))]. unfold fresh in Hf. congruence. }
    destruct (svc_sync_cases s) as [[E _]|[E _]]; rewrite E; cbn [s_devs set_vips]; rewrite del_all_dget, Hm; reflexivity. }
  unfold holds, fresh, dev_holds, dev_stale in *. rewrite Hd. auto.
Qed.

Theorem startup_keeps_live_address c order t s o a :
  wf c s -> (forall n, live (fget n t) = true -> In n (s_res s)) ->
  nodup_z order = true -> In o order -> is_dot o = false -> replayable (fget o t) = true ->
  lookup Z.eqb a (s_vips s) = Some o -> sole_addr o a s = true ->
  let s' := run c (snd (fst (startup c order t s))) s in
  lookup Z.eqb a (s_vips s') = Some o /\ dev_holds (s_devs s') o a = true /\ dev_stale (s_devs s') o = false.
Proof.
  intros Hw Hc Hnd Hord Hdot Hrep Hlk Hsole s'.
  assert (Hin : In (a, o) (s_vips s)) by (apply (lookup_In Z.eqb zeqb_spec); exact Hlk).
  pose proof (sole_addr_sole o a s Hsole) as Hs.
  destruct (startup c order t s) as [[t' ops] dels] eqn:E. unfold s'. cbn [fst snd].
  destruct (startup_parts c order t s t' ops dels E Hc) as (mid & -> & Hmild & Hcov & Hfr).
  assert (Hcr : exists env, In (SvcCreate o env) mid).
  { unfold replayable in Hrep. destruct (req_env (fget o t)) as [env|] eqn:Er; [|discriminate]. exists env.
    pose proof (startup_replays_once c order t s o env Hnd Hord Hdot Er) as H1. rewrite E in H1. cbn [fst snd] in H1.
    assert (H2 : In (o, env) (creates (SvcRestart :: mid ++ [SvcSync]))).
    { assert (H3 : In (o, env) (filter (fun x : Z * Z => fst x =? o) (creates (SvcRestart :: mid ++ [SvcSync]))))
        by (rewrite H1; left; reflexivity). apply filter_In in H3. tauto. }
    apply creates_In in H2. destruct H2 as [H2|H2]; [discriminate|].
    apply in_app_or in H2 as [H2|[H2|[]]]; [exact H2|discriminate]. }
  change (SvcRestart :: mid ++ [SvcSync]) with ([SvcRestart] ++ mid ++ [SvcSync]). rewrite !run_app.
  cbn [run step fst].
  pose proof (step_wf c SvcRestart s Hw) as Hw1. cbn [step fst] in Hw1.
  pose proof (restart_holds o a s Hin Hs) as Hh1.
  assert (Hs1 : sole o a (svc_restart s)) by exact Hs.
  destruct (run_calm c o a mid (svc_restart s) (mild_calm o mid Hmild) Hw1 Hh1 Hs1) as (Hh2 & _ & Hf2).
  specialize (Hf2 (or_intror Hcr)).
  pose proof (run_wf c mid _ Hw1) as Hw2.
  assert (Hres : In o (s_res (run c mid (svc_restart s)))).
  { apply Hcov. apply replayable_live. destruct Hh2 as [_ Hh2]. apply dev_holds_iff in Hh2 as [d [Hd1 Hd2]].
    apply (Hfr o d); [apply dget_In; exact Hd1|]. unfold fresh, dev_stale in Hf2. rewrite Hd1 in Hf2. exact Hf2. }
  destruct (sync_keeps c o a _ Hw2 Hh2 Hf2 Hres) as ([Hv3 Hh3] & Hf3).
  pose proof (step_wf c SvcSync _ Hw2) as Hw3. cbn [step fst] in Hw3.
  split; [|split; [exact Hh3|exact Hf3]].
  apply (NoDup_lookup Z.eqb zeqb_spec); [exact (proj1 Hw3)|exact Hv3].
Qed.

(** the reclaim direction: an address the start-up takes from its holder belonged to a request that is not handed
    over (container gone, request.yml gone or rejected by the schema) *)
Theorem startup_frees_only_unreplayable c order t s o a :
  wf c s -> (forall n, live (fget n t) = true -> In n (s_res s)) ->
  nodup_z order = true -> In o order -> is_dot o = false ->
  lookup Z.eqb a (s_vips s) = Some o -> sole_addr o a s = true ->
  lookup Z.eqb a (s_vips (run c (snd (fst (startup c order t s))) s)) <> Some o ->
  replayable (fget o t) = false.
Proof.
  intros Hw Hc Hnd Hord Hdot Hlk Hsole Hlost. destruct (replayable (fget o t)) eqn:Er; [|reflexivity].
  exfalso. apply Hlost. exact (proj1 (startup_keeps_live_address c order t s o a Hw Hc Hnd Hord Hdot Er Hlk Hsole)).
Qed.

(** * ... and over whole histories *)
Lemma sync_incl s e : In e (s_vips (fst (svc_sync s))) -> In e (s_vips s).
Proof.
  destruct (svc_sync_cases s) as [[E _]|[E _]]; rewrite E; cbn [s_vips set_vips]; intros H.
  - unfold gc in H. apply filter_In in H as [H _]. exact (del_all_incl _ _ _ H).
  - exact (del_all_incl _ _ _ H).
Qed.

Lemma startup_keeps_core c order t s o a :
  wf c s -> covers t s -> nodup_z order = true -> In o order -> is_dot o = false ->
  replayable (fget o t) = true -> holds o a s -> sole o a s ->
  let s' := run c (snd (fst (startup c order t s))) s in
  wf c s' /\ holds o a s' /\ sole o a s' /\ fresh o s'.
Proof.
  intros Hw Hc Hnd Hord Hdot Hrep [Hin _] Hs s'.
  destruct (startup c order t s) as [[t' ops] dels] eqn:E. unfold s'. cbn [fst snd].
  destruct (startup_parts c order t s t' ops dels E Hc) as (mid & -> & Hmild & Hcov & Hfr).
  assert (Hcr : exists env, In (SvcCreate o env) mid).
  { unfold replayable in Hrep. destruct (req_env (fget o t)) as [env|] eqn:Er; [|discriminate]. exists env.
    pose proof (startup_replays_once c order t s o env Hnd Hord Hdot Er) as H1. rewrite E in H1. cbn [fst snd] in H1.
    assert (H2 : In (o, env) (creates (SvcRestart :: mid ++ [SvcSync]))).
    { assert (H3 : In (o, env) (filter (fun x : Z * Z => fst x =? o) (creates (SvcRestart :: mid ++ [SvcSync]))))
        by (rewrite H1; left; reflexivity). apply filter_In in H3. tauto. }
    apply creates_In in H2. destruct H2 as [H2|H2]; [discriminate|].
    apply in_app_or in H2 as [H2|[H2|[]]]; [exact H2|discriminate]. }
  change (SvcRestart :: mid ++ [SvcSync]) with ([SvcRestart] ++ mid ++ [SvcSync]). rewrite !run_app.
  cbn [run step fst].
  pose proof (step_wf c SvcRestart s Hw) as Hw1. cbn [step fst] in Hw1.
  pose proof (restart_holds o a s Hin Hs) as Hh1.
  assert (Hs1 : sole o a (svc_restart s)) by exact Hs.
  destruct (run_calm c o a mid (svc_restart s) (mild_calm o mid Hmild) Hw1 Hh1 Hs1) as (Hh2 & Hs2 & Hf2).
  specialize (Hf2 (or_intror Hcr)).
  pose proof (run_wf c mid _ Hw1) as Hw2.
  assert (Hres : In o (s_res (run c mid (svc_restart s)))).
  { apply Hcov. apply replayable_live. destruct Hh2 as [_ Hh2]. apply dev_holds_iff in Hh2 as [d [Hd1 Hd2]].
    apply (Hfr o d); [apply dget_In; exact Hd1|]. unfold fresh, dev_stale in Hf2. rewrite Hd1 in Hf2. exact Hf2. }
  destruct (sync_keeps c o a _ Hw2 Hh2 Hf2 Hres) as (Hh3 & Hf3).
  pose proof (step_wf c SvcSync _ Hw2) as Hw3. cbn [step fst] in Hw3.
  split; [exact Hw3|split; [exact Hh3|split; [|exact Hf3]]].
  intros a' Ha. apply Hs2. exact (sync_incl _ _ Ha).
Qed.

(** what the owner has been told, if anything, is [a] *)
Definition told_ok (a : Z) (e : ent) : Prop := e_reply e = None \/ e_reply e = Some (RepOk a).

Lemma replayable_inv e : replayable e = true ->
  e_link e = true /\ e_dir e = true /\ exists env, e_req e = Some env /\ (env <? 0) = false.
Proof.
  unfold replayable, req_env, live. destruct (e_link e), (e_dir e); cbn; try discriminate.
  destruct (e_req e) as [env|]; [|discriminate]. destruct (env <? 0) eqn:E; [discriminate|]. intros _.
  split; [reflexivity|split; [reflexivity|exists env; split; [reflexivity|exact E]]].
Qed.

Lemma on_created_frame c n t s t' ops dels : on_created c n t s = (t', ops, dels) ->
  (forall m, m <> n -> fget m t' = fget m t) /\ (forall x, In x dels -> x = n).
Proof.
  unfold on_created. destruct (is_dot n); [intros E; inversion E; subst; split; [intros; reflexivity|intros x []]|].
  destruct (negb (e_link (fget n t))); [intros E; inversion E; subst; split; [intros; reflexivity|intros x []]|].
  destruct (if e_dir (fget n t) then e_req (fget n t) else None) as [env|].
  - destruct (env <? 0); intros E; inversion E; subst;
      (split; [intros m Hm; apply fget_fset_other; congruence|intros x []]).
  - intros E; inversion E; subst. split; [intros m Hm; apply fget_fset_other; congruence|].
    intros x [H|[]]. auto.
Qed.

Lemma on_created_self c o a t s t' ops dels : on_created c o t s = (t', ops, dels) ->
  replayable (fget o t) = true -> holds o a s -> told_ok a (fget o t) ->
  replayable (fget o t') = true /\ dels = [] /\ told_ok a (fget o t').
Proof.
  intros E Hr [_ Hh] Ht. destruct (replayable_inv _ Hr) as (Hl & Hd & env & Hq & Hneg).
  revert E. unfold on_created. destruct (is_dot o); [intros E; inversion E; subst; auto|].
  rewrite Hl, Hd, Hq, Hneg. cbn [negb]. intros E; inversion E; subst. rewrite fget_fset_same.
  split; [|split; [reflexivity|]].
  - unfold replayable. rewrite req_env_set_reply. exact Hr.
  - right. cbn [set_reply e_reply step]. rewrite (proj1 (svc_create_reuse c o env s a Hh)). reflexivity.
Qed.

Lemma on_created_spares c o a n t s t' ops dels : on_created c n t s = (t', ops, dels) ->
  replayable (fget o t) = true -> holds o a s -> told_ok a (fget o t) ->
  replayable (fget o t') = true /\ ~ In o dels /\ told_ok a (fget o t').
Proof.
  intros E Hr Hh Ht. destruct (Z.eq_dec n o) as [->|Hne].
  - destruct (on_created_self c o a t s t' ops dels E Hr Hh Ht) as (H1 & -> & H3). auto.
  - destruct (on_created_frame c n t s t' ops dels E) as (Hf & Hd). rewrite (Hf o) by congruence.
    split; [exact Hr|split; [|exact Ht]]. intros Hin. apply Hd in Hin. congruence.
Qed.

Lemma replay_spares c o a l : forall t s t' ops dels, replay c l t s = (t', ops, dels) ->
  wf c s -> replayable (fget o t) = true -> holds o a s -> sole o a s -> told_ok a (fget o t) ->
  replayable (fget o t') = true /\ ~ In o dels /\ told_ok a (fget o t').
Proof.
  induction l as [|n l IH]; intros t s t' ops dels E Hw Hr Hh Hs Ht; cbn in E.
  - inversion E; subst. split; [exact Hr|split; [intros []|exact Ht]].
  - destruct (on_created c n t s) as [[t1 o1] d1] eqn:E1.
    destruct (replay c l t1 (run c o1 s)) as [[t2 o2] d2] eqn:E2. inversion E; subst; clear E.
    destruct (on_created_spares c o a n t s t1 o1 d1 E1 Hr Hh Ht) as (R1 & D1 & T1).
    pose proof (mild_calm o o1 (on_created_mild _ _ _ _ _ _ _ E1)) as C1.
    destruct (run_calm c o a o1 s C1 Hw Hh Hs) as (Hh1 & Hs1 & _).
    destruct (IH t1 _ t' o2 d2 E2 (run_wf c o1 s Hw) R1 Hh1 Hs1 T1) as (R2 & D2 & T2).
    split; [exact R2|split; [|exact T2]]. intros Hin. apply in_app_or in Hin. tauto.
Qed.

Lemma check_requests_rm l : forall t svcs t' rm, check_requests l t = (svcs, t', rm) ->
  forall x, In x rm -> e_dir (fget x t) = false.
Proof.
  induction l as [|n l IH]; intros t svcs t' rm E x Hx; cbn in E; [inversion E; subst; destruct Hx|].
  destruct (e_dir (fget n t)) eqn:Ed.
  - destruct (check_requests l t) as [[sv t1] r1] eqn:E1. inversion E; subst. exact (IH _ _ _ _ E1 x Hx).
  - destruct (check_requests l (fset n (set_link false (fget n t)) t)) as [[sv t1] r1] eqn:E1. inversion E; subst.
    destruct Hx as [->|Hx]; [exact Ed|]. pose proof (IH _ _ _ _ E1 x Hx) as H.
    destruct (Z.eq_dec x n) as [->|Hne]; [exact Ed|]. rewrite fget_fset_other in H by congruence. exact H.
Qed.

Lemma startup_spares c o a order t s t' ops dels : startup c order t s = (t', ops, dels) ->
  wf c s -> replayable (fget o t) = true -> holds o a s -> sole o a s -> told_ok a (fget o t) ->
  replayable (fget o t') = true /\ ~ In o dels /\ told_ok a (fget o t').
Proof.
  unfold startup. intros E Hw Hr [Hin _] Hs Ht.
  destruct (check_requests (glob order t) t) as [[svcs t0] rm0] eqn:E0.
  destruct (replay c svcs t0 (run c [SvcRestart] s)) as [[t1 o1] d1] eqn:E1. inversion E; subst; clear E.
  destruct (replayable_inv _ Hr) as (_ & Hd & _).
  destruct (check_requests_spec _ _ _ _ _ E0) as (_ & Hkeep & _).
  pose proof (Hkeep o Hd) as Ho.
  pose proof (step_wf c SvcRestart s Hw) as Hw1.
  assert (Hr0 : replayable (fget o t0) = true) by (rewrite Ho; exact Hr).
  assert (Ht0 : told_ok a (fget o t0)) by (rewrite Ho; exact Ht).
  destruct (replay_spares c o a svcs t0 _ t' o1 d1 E1 Hw1 Hr0 (restart_holds o a s Hin Hs) Hs Ht0) as (R & D & T).
  split; [exact R|split; [|exact T]]. intros Hx. apply in_app_or in Hx as [Hx|Hx]; [|exact (D Hx)].
  pose proof (check_requests_rm _ _ _ _ _ E0 o Hx) as H. congruence.
Qed.

Lemma mild_delta n e e' : forallb mild (res_delta n e e') = true.
Proof.
  unfold res_delta. destruct (live e' && negb (live e)); [reflexivity|].
  destruct (live e && negb (live e')); reflexivity.
Qed.
Lemma calm_delta o n e e' : forallb (calm o) (res_delta n e e') = true.
Proof. apply mild_calm. apply mild_delta. Qed.
Lemma calm_on_deleted o n : n <> o -> forallb (calm o) (on_deleted n) = true.
Proof.
  intros H. unfold on_deleted. destruct (is_dot n); cbn; [reflexivity|].
  destruct (n =? o) eqn:E; [apply Z.eqb_eq in E; contradiction|reflexivity].
Qed.
Lemma calm_deliver o dels : ~ In o dels -> forallb (calm o) (deliver dels) = true.
Proof.
  induction dels as [|n l IH]; intros H; [reflexivity|].
  change (deliver (n :: l)) with (on_deleted n ++ deliver l).
  rewrite forallb_app, IH by (intros X; apply H; right; exact X).
  rewrite calm_on_deleted; [reflexivity|]. intros ->. apply H. left; reflexivity.
Qed.

Lemma client_put_replayable n env a e : replayable e = true -> (0 <=? env) = true -> told_ok a e ->
  replayable (fst (client_put n env e)) = true /\ told_ok a (fst (client_put n env e)).
Proof.
  intros Hr He Ht. destruct (replayable_inv e Hr) as (Hl & Hd & env0 & Hq & _).
  assert (Hneg : (env <? 0) = false) by lia.
  destruct e as [l d q u rep]. unfold told_ok in *. cbn in *. subst l d. unfold client_put. cbn.
  destruct u; cbn; unfold replayable, req_env, live; cbn; rewrite Hneg; split; try reflexivity.
  - left; reflexivity.
  - exact Ht.
Qed.

(** steps that leave the request of [o] alone: no client delete, no vanishing, no interference with its request.yml,
    only valid payloads; a start lists the directory without repetition and with [o] in it *)
Definition spares (o : Z) (f : fop) : bool :=
  match f with
  | FBoot order => nodup_z order && mem_z o order
  | FPut n env => negb (n =? o) || (0 <=? env)
  | FDelete n | FGone n | FRmReq n => negb (n =? o)
  | _ => true
  end.

Definition keeps_inv (c : cidr) (o a : Z) (st : fstate) : Prop :=
  wf c (f_own st) /\ covers (f_tbl st) (f_own st) /\ replayable (fget o (f_tbl st)) = true /\
  holds o a (f_own st) /\ sole o a (f_own st) /\ told_ok a (fget o (f_tbl st)).

Lemma fstep_raw_spares c o a f st t' ops up' :
  is_dot o = false -> spares o f = true -> keeps_inv c o a st -> fstep_raw c f st = (t', ops, up') ->
  replayable (fget o t') = true /\ told_ok a (fget o t') /\
  holds o a (run c ops (f_own st)) /\ sole o a (run c ops (f_own st)).
Proof.
  intros Hdot Hsp (Hw & Hc & Hr & Hh & Hs & Ht).
  assert (CALM : forall l, forallb (calm o) l = true ->
                 holds o a (run c l (f_own st)) /\ sole o a (run c l (f_own st))).
  { intros l Hl. destruct (run_calm c o a l _ Hl Hw Hh Hs) as (H1 & H2 & _). auto. }
  unfold fstep_raw. cbv zeta. destruct f as [order| |n env|n|n|n|n|p].
  - cbn in Hsp. apply andb_true_iff in Hsp as [Hnd Hmem]. apply mem_z_In in Hmem.
    destruct (startup c order (f_tbl st) (f_own st)) as [[t1 o1] d1] eqn:E1. intros E; inversion E; subst; clear E.
    destruct (startup_spares c o a order _ _ _ _ _ E1 Hw Hr Hh Hs Ht) as (R & D & T).
    pose proof (startup_keeps_core c order _ _ o a Hw Hc Hnd Hmem Hdot Hr Hh Hs) as K. rewrite E1 in K.
    cbn [fst snd] in K. destruct K as (Hw1 & Hh1 & Hs1 & _).
    rewrite run_app. destruct (run_calm c o a (deliver d1) _ (calm_deliver o d1 D) Hw1 Hh1 Hs1) as (H1 & H2 & _). auto.
  - intros E; inversion E; subst. cbn [run]. auto.
  - destruct (client_put n env (fget n (f_tbl st))) as [e' ev] eqn:Ep.
    pose (t1 := fset n e' (f_tbl st)). pose (o1 := res_delta n (fget n (f_tbl st)) e').
    assert (R1 : replayable (fget o t1) = true /\ told_ok a (fget o t1)).
    { unfold t1. destruct (Z.eq_dec n o) as [->|Hne].
      - rewrite fget_fset_same. cbn in Hsp. rewrite Z.eqb_refl in Hsp. cbn in Hsp.
        pose proof (client_put_replayable o env a _ Hr Hsp Ht) as X. rewrite Ep in X. exact X.
      - rewrite fget_fset_other by congruence. auto. }
    destruct R1 as [R1 T1].
    assert (C1 : forallb (calm o) o1 = true) by apply calm_delta.
    destruct ev.
    + intros E; inversion E; subst. destruct (CALM _ C1). auto.
    + destruct (f_up st).
      * destruct (on_created c n _ _) as [[t2 o2] d2] eqn:E2. intros E; inversion E; subst.
        destruct (CALM _ C1) as [Hh1 Hs1].
        destruct (on_created_spares c o a n _ _ _ _ _ E2 R1 Hh1 T1) as (R2 & D2 & T2).
        split; [exact R2|split; [exact T2|]]. apply CALM.
        rewrite !forallb_app. fold o1. rewrite C1, (mild_calm o _ (on_created_mild _ _ _ _ _ _ _ E2)), (calm_deliver o d2 D2).
        reflexivity.
      * intros E; inversion E; subst. destruct (CALM _ C1). auto.
    + intros E; inversion E; subst. destruct (CALM _ C1). auto.
  - cbn in Hsp. apply negb_true_iff in Hsp. apply Z.eqb_neq in Hsp.
    destruct (client_delete (fget n (f_tbl st))) as [e' ev] eqn:Ep. intros E; inversion E; subst.
    rewrite fget_fset_other by exact Hsp. split; [exact Hr|split; [exact Ht|]]. apply CALM.
    rewrite forallb_app, calm_delta. cbn [andb]. destruct ev; try reflexivity.
    destruct (f_up st); [|reflexivity]. apply calm_on_deleted. exact Hsp.
  - cbn in Hsp. apply negb_true_iff in Hsp. apply Z.eqb_neq in Hsp.
    destruct (f_up st); intros E; inversion E; subst; rewrite fget_fset_other by exact Hsp;
      (split; [exact Hr|split; [exact Ht|]]); apply CALM.
    + rewrite forallb_app, calm_delta. cbn [andb].
      destruct (e_link (fget n (f_tbl st))); [apply calm_on_deleted; exact Hsp|reflexivity].
    + apply calm_delta.
  - intros E; inversion E; subst. cbn [run]. auto.
  - cbn in Hsp. apply negb_true_iff in Hsp. apply Z.eqb_neq in Hsp.
    intros E; inversion E; subst. cbn [run].
    destruct (e_dir (fget n (f_tbl st))); [rewrite fget_fset_other by exact Hsp|]; auto.
  - destruct (f_up st); [|intros E; inversion E; subst; cbn [run]; auto].
    destruct p as [|n]; cbn [on_created_path]; [intros E; inversion E; subst; cbn [run app deliver flat_map]; auto|].
    destruct (on_created c n _ _) as [[t2 o2] d2] eqn:E2. intros E; inversion E; subst.
    destruct (on_created_spares c o a n _ _ _ _ _ E2 Hr Hh Ht) as (R2 & D2 & T2).
    split; [exact R2|split; [exact T2|]]. apply CALM.
    rewrite forallb_app, (mild_calm o _ (on_created_mild _ _ _ _ _ _ _ E2)), (calm_deliver o d2 D2). reflexivity.
Qed.

Lemma fstep_keeps c o a f st :
  is_dot o = false -> spares o f = true -> keeps_inv c o a st -> keeps_inv c o a (fst (fstep c f st)).
Proof.
  intros Hdot Hsp Hk. pose proof Hk as (Hw & Hc & _).
  destruct (fstep_inv c f st Hc) as (_ & Hrun & Hc'). revert Hrun Hc'. unfold fstep.
  destruct (fstep_raw c f st) as [[t' ops] up'] eqn:E. cbn [fst snd f_own f_tbl]. intros _ Hc'.
  destruct (fstep_raw_spares c o a f st t' ops up' Hdot Hsp Hk E) as (R & T & H & S).
  unfold keeps_inv. cbn [f_own f_tbl]. split; [apply run_wf; exact Hw|]. auto.
Qed.

Theorem frame_run_keeps c o a fs : forall st,
  is_dot o = false -> forallb (spares o) fs = true -> keeps_inv c o a st ->
  keeps_inv c o a (fst (frame_run c fs st)).
Proof.
  induction fs as [|f fs IH]; intros st Hdot Hsp Hk; cbn; [exact Hk|].
  cbn in Hsp. apply andb_true_iff in Hsp as [H1 H2].
  pose proof (fstep_keeps c o a f st Hdot H1 Hk) as Hk1.
  destruct (fstep c f st) as [st1 o1] eqn:E1. cbn [fst] in Hk1.
  pose proof (IH st1 Hdot H2 Hk1) as Hk2.
  destruct (frame_run c fs st1) as [st2 o2] eqn:E2. cbn [fst] in *. exact Hk2.
Qed.

(** from the empty node: after any history [fs1], an owner that has been told [a], holds it and holds nothing else
    keeps it - in the directory, in the service's device, and in whatever reply it reads - through every continuation
    [fs2] that leaves its request alone *)
Theorem history_keeps_told_address c o a fs1 fs2 :
  let st1 := fst (frame_run c fs1 fstate0) in
  0 <= o -> replayable (fget o (f_tbl st1)) = true ->
  client_get (fget o (f_tbl st1)) = Some (RepOk a) ->
  lookup Z.eqb a (s_vips (f_own st1)) = Some o -> dev_holds (s_devs (f_own st1)) o a = true ->
  sole_addr o a (f_own st1) = true ->
  forallb (spares o) fs2 = true ->
  let st2 := fst (frame_run c fs2 st1) in
  lookup Z.eqb a (s_vips (f_own st2)) = Some o /\ dev_holds (s_devs (f_own st2)) o a = true /\
  replayable (fget o (f_tbl st2)) = true /\
  (client_get (fget o (f_tbl st2)) = None \/ client_get (fget o (f_tbl st2)) = Some (RepOk a)).
Proof.
  intros st1 Ho Hr Hg Hlk Hh Hso Hsp st2.
  assert (Hdot : is_dot o = false) by (unfold is_dot; lia).
  assert (Hc0 : covers (f_tbl fstate0) (f_own fstate0)) by (intros n Hn; discriminate).
  destruct (frame_run_inv c fs1 fstate0 Hc0) as (_ & Hrun & Hc1). fold st1 in Hrun, Hc1.
  assert (Hw1 : wf c (f_own st1)) by (rewrite Hrun; apply run_wf; apply wf_empty).
  destruct (replayable_inv _ Hr) as (_ & Hd & _).
  assert (Hk : keeps_inv c o a st1).
  { unfold keeps_inv. split; [exact Hw1|split; [exact Hc1|split; [exact Hr|]]].
    split; [split; [apply (lookup_In Z.eqb zeqb_spec); exact Hlk|exact Hh]|].
    split; [apply sole_addr_sole; exact Hso|]. right. unfold client_get in Hg. rewrite Hd in Hg. exact Hg. }
  destruct (frame_run_keeps c o a fs2 st1 Hdot Hsp Hk) as (Hw2 & _ & R2 & [Hin2 Hh2] & _ & T2). fold st2 in Hw2, R2, Hin2, Hh2, T2.
  split; [apply (NoDup_lookup Z.eqb zeqb_spec); [exact (proj1 Hw2)|exact Hin2]|].
  split; [exact Hh2|split; [exact R2|]].
  destruct (replayable_inv _ R2) as (_ & Hd2 & _). unfold client_get. rewrite Hd2. exact T2.
Qed.
