(** Proofs about Node/SvcFrame.v: what the resource-service framework hands to the implementation. *)
From Coq Require Import ZArith List Bool Lia.
From TM Require Import Node.Owners Node.OwnersP Node.SvcFrame.
Import ListNotations.
Open Scope Z_scope.

(** * Tables *)
Lemma fget_fset_same n e t : fget n (fset n e t) = e.
Proof.
  induction t as [|[k e'] t IH]; cbn; [rewrite Z.eqb_refl; reflexivity|].
  destruct (k =? n) eqn:E; cbn; rewrite E; [reflexivity|exact IH].
Qed.

Lemma fget_fset_other n m e t : m <> n -> fget n (fset m e t) = fget n t.
Proof.
  intros Hne. induction t as [|[k e'] t IH]; cbn.
  - destruct (m =? n) eqn:E; [apply Z.eqb_eq in E; contradiction|reflexivity].
  - destruct (k =? m) eqn:E; cbn.
    + apply Z.eqb_eq in E. subst k. destruct (m =? n) eqn:E2; [apply Z.eqb_eq in E2; contradiction|reflexivity].
    + destruct (k =? n); [reflexivity|exact IH].
Qed.

Lemma fget_entry n t : fget n t = absent \/ In (n, fget n t) t.
Proof.
  induction t as [|[k e] t IH]; cbn; [left; reflexivity|].
  destruct (k =? n) eqn:E; [apply Z.eqb_eq in E; subst; right; left; reflexivity|].
  destruct IH as [IH|IH]; [left; exact IH|right; right; exact IH].
Qed.

Lemma live_set_link_false e : live (set_link false e) = false.
Proof. reflexivity. Qed.
Lemma req_env_live e x : req_env e = Some x -> live e = true.
Proof. unfold req_env. destruct (live e); [reflexivity|discriminate]. Qed.
Lemma replayable_live e : replayable e = true -> live e = true.
Proof. unfold replayable. destruct (req_env e) eqn:E; [intros _; exact (req_env_live e z E)|discriminate]. Qed.
Lemma req_env_set_reply r e : req_env (set_reply r e) = req_env e.
Proof. reflexivity. Qed.

(** * Owners: lists, guards *)
Lemma In_del_z x y l : In x (del_z y l) <-> In x l /\ x <> y.
Proof.
  unfold del_z. rewrite filter_In. split; intros [H1 H2]; split; try exact H1.
  - intros ->. rewrite Z.eqb_refl in H2. discriminate.
  - destruct (x =? y) eqn:E; [apply Z.eqb_eq in E; contradiction|reflexivity].
Qed.

Lemma guarded_app c a : forall b s, guarded c (a ++ b) s = guarded c a s && guarded c b (run c a s).
Proof.
  induction a as [|p a IH]; intros b s; cbn; [reflexivity|]. rewrite IH. rewrite andb_assoc. reflexivity.
Qed.

Lemma guarded_quiet c ops : forall s, forallb quiet ops = true -> guarded c ops s = true.
Proof.
  induction ops as [|p ops IH]; intros s H; cbn; [reflexivity|]. cbn in H. apply andb_true_iff in H as [H1 H2].
  rewrite IH by exact H2. destruct p; cbn in *; try reflexivity; discriminate.
Qed.

Lemma In_dset k x o d (m : devs) : In (k, x) (dset o d m) -> (k = o /\ x = d) \/ In (k, x) m.
Proof.
  induction m as [|[k' d'] m IH]; cbn.
  - intros [H|[]]. inversion H; subst. left; split; reflexivity.
  - destruct (k' =? o) eqn:E; cbn.
    + intros [H|H]; [inversion H; subst; apply Z.eqb_eq in E; subst; left; split; reflexivity|right; right; exact H].
    + intros [H|H]; [right; left; exact H|]. destruct (IH H) as [H'|H']; [left; exact H'|right; right; exact H'].
Qed.

Definition all_stale (m : devs) : Prop := forall k x, In (k, x) m -> d_stale x = true.

Lemma fold_veth_all_stale l : forall m, all_stale m ->
  all_stale (fold_left (fun m o => dset o {| d_ip := None; d_dev := true; d_env := None; d_stale := true |} m) l m).
Proof.
  induction l as [|o l IH]; intros m H; cbn; [exact H|]. apply IH. intros k x Hin.
  destruct (In_dset _ _ _ _ _ Hin) as [[_ ->]|H']; [reflexivity|exact (H k x H')].
Qed.

Lemma fold_restart_all_stale l : forall m, all_stale m -> all_stale (fold_left restart_step l m).
Proof.
  induction l as [|[a o] l IH]; intros m H; cbn; [exact H|]. apply IH. intros k x Hin. unfold restart_step in Hin.
  destruct (dget o m); destruct (In_dset _ _ _ _ _ Hin) as [[_ ->]|H']; try reflexivity; exact (H k x H').
Qed.

(** SvcRestart marks every device stale and leaves the directories alone *)
Lemma restart_all_stale s : all_stale (s_devs (svc_restart s)).
Proof.
  rewrite svc_restart_devs. apply fold_restart_all_stale. apply fold_veth_all_stale. intros k x [].
Qed.

Lemma restart_res s : s_res (svc_restart s) = s_res s.
Proof. reflexivity. Qed.

(** SvcCreate o un-stales only o and never changes the set of resources *)
Lemma create_devs c o env s k x :
  In (k, x) (s_devs (fst (svc_create c o env s))) -> k = o \/ In (k, x) (s_devs s).
Proof.
  destruct (svc_create c o env s) as [s' r] eqn:E. apply svc_create_outcome' in E. cbn [fst]. intros Hin.
  inversion E as [r0 Hr|a s0 H1 H2 H3 H4 H5 H6 H7 H8 H9 H10|a s0 H1 H2 H3 H4 H5 H6 H7]; subst.
  - right; exact Hin.
  - rewrite H6 in Hin. destruct (In_dset _ _ _ _ _ Hin) as [[-> _]|H']; [left; reflexivity|right; exact H'].
  - rewrite H3 in Hin. destruct (In_dset _ _ _ _ _ Hin) as [[-> _]|H']; [left; reflexivity|right; exact H'].
Qed.

Lemma create_res c o env s : s_res (fst (svc_create c o env s)) = s_res s.
Proof.
  destruct (svc_create c o env s) as [s' r] eqn:E. apply svc_create_outcome' in E. cbn [fst].
  inversion E as [r0 Hr|a s0 H1 H2 H3 H4 H5 H6 H7 H8 H9 H10|a s0 H1 H2 H3 H4 H5 H6 H7]; subst;
    [reflexivity|exact H9|exact H6].
Qed.

Lemma delete_res o s : s_res (svc_delete o s) = s_res s.
Proof.
  unfold svc_delete. destruct (dget o (s_devs s)) as [d|]; [|reflexivity]. destruct (d_ip d); reflexivity.
Qed.

Lemma del_all_res l : forall s, s_res (fold_left (fun st o => svc_delete o st) l s) = s_res s.
Proof. induction l as [|o l IH]; intros s; cbn; [reflexivity|]. rewrite IH. apply delete_res. Qed.

Lemma sync_res s : s_res (fst (svc_sync s)) = s_res s.
Proof.
  unfold svc_sync. match goal with |- context [if ?b then _ else _] => destruct b end; cbn; apply del_all_res.
Qed.

(** * The invariants *)
(** every link that resolves is a resource Owners.v knows *)
Definition covers (t : ftable) (s : state) : Prop := forall n, live (fget n t) = true -> In n (s_res s).
(** every device that is not stale belongs to a request the framework hands over *)
Definition fresh_replayed (t : ftable) (s : state) : Prop :=
  forall k x, In (k, x) (s_devs s) -> d_stale x = false -> replayable (fget k t) = true.

Lemma res_covers_covers t s : res_covers t s = true -> covers t s.
Proof.
  intros H n Hl. destruct (fget_entry n t) as [E|E]; [rewrite E in Hl; discriminate|].
  unfold res_covers in H. rewrite forallb_forall in H. specialize (H _ E). cbn in H. rewrite Hl in H. cbn in H.
  apply mem_z_In. exact H.
Qed.

Lemma covers_same_res t s s' : covers t s -> s_res s' = s_res s -> covers t s'.
Proof. intros H E n Hn. rewrite E. exact (H n Hn). Qed.

(** changing one entry and telling Owners.v about the change of the fact keeps [covers] *)
Lemma covers_delta c t s n e' :
  covers t s -> covers (fset n e' t) (run c (res_delta n (fget n t) e') s).
Proof.
  intros H m Hm. unfold res_delta.
  destruct (Z.eq_dec m n) as [->|Hne].
  - rewrite fget_fset_same in Hm. rewrite Hm. cbn [andb].
    destruct (live (fget n t)) eqn:El; cbn.
    + exact (H n El).
    + apply In_add_z. left; reflexivity.
  - rewrite fget_fset_other in Hm by congruence. pose proof (H m Hm) as Hin.
    destruct (live e' && negb (live (fget n t))); cbn; [apply In_add_z; right; exact Hin|].
    destruct (live (fget n t) && negb (live e')); cbn; [apply In_del_z; split; assumption|exact Hin].
Qed.

Lemma quiet_delta n e e' : forallb quiet (res_delta n e e') = true.
Proof.
  unfold res_delta. destruct (live e' && negb (live e)); [reflexivity|].
  destruct (live e && negb (live e')); reflexivity.
Qed.

Lemma quiet_deliver l : forallb quiet (deliver l) = true.
Proof.
  induction l as [|n l IH]; cbn; [reflexivity|]. unfold on_deleted at 1. destruct (is_dot n); cbn; exact IH.
Qed.

Lemma deliver_res c l : forall s, s_res (run c (deliver l) s) = s_res s.
Proof.
  induction l as [|n l IH]; intros s; cbn; [reflexivity|]. unfold on_deleted. destruct (is_dot n); cbn; [apply IH|].
  rewrite IH. apply delete_res.
Qed.

(** ** _on_created *)
Lemma on_created_inv c n t s t' ops dels :
  on_created c n t s = (t', ops, dels) -> covers t s ->
  forallb quiet ops = true /\ covers t' (run c ops s) /\
  (fresh_replayed t s -> fresh_replayed t' (run c ops s)).
Proof.
  unfold on_created. intros E Hc.
  destruct (is_dot n); [inversion E; subst; cbn; auto|].
  destruct (negb (e_link (fget n t))) eqn:El; [inversion E; subst; cbn; auto|].
  destruct (if e_dir (fget n t) then e_req (fget n t) else None) as [env|] eqn:Er.
  - assert (Hlive : live (fget n t) = true).
    { unfold live. apply negb_false_iff in El. rewrite El. destruct (e_dir (fget n t)); [reflexivity|discriminate]. }
    assert (Hreq : e_req (fget n t) = Some env) by (destruct (e_dir (fget n t)); [exact Er|discriminate]).
    destruct (env <? 0) eqn:Eenv; inversion E; subst; clear E.
    + cbn [run forallb]. split; [reflexivity|]. split.
      * intros m Hm. destruct (Z.eq_dec m n) as [->|Hne]; [exact (Hc n Hlive)|].
        rewrite fget_fset_other in Hm by congruence. exact (Hc m Hm).
      * intros Hf k x Hin Hst. specialize (Hf k x Hin Hst).
        destruct (Z.eq_dec k n) as [->|Hne]; [rewrite fget_fset_same; exact Hf|].
        rewrite fget_fset_other by congruence. exact Hf.
    + split; [reflexivity|]. cbn [run step]. split.
      * intros m Hm. rewrite create_res.
        destruct (Z.eq_dec m n) as [->|Hne]; [exact (Hc n Hlive)|].
        rewrite fget_fset_other in Hm by congruence. exact (Hc m Hm).
      * intros Hf k x Hin Hst.
        destruct (Z.eq_dec k n) as [->|Hne].
        { rewrite fget_fset_same. unfold replayable. rewrite req_env_set_reply. unfold req_env.
          rewrite Hlive, Hreq, Eenv. reflexivity. }
        rewrite fget_fset_other by congruence.
        destruct (create_devs c n env s k x Hin) as [->|Hin']; [contradiction|]. exact (Hf k x Hin' Hst).
  - inversion E; subst; clear E. split; [apply quiet_delta|]. split; [apply covers_delta; exact Hc|].
    intros Hf k x Hin Hst.
    assert (Hd : s_devs (run c (res_delta n (fget n t) (set_link false (fget n t))) s) = s_devs s).
    { unfold res_delta. destruct (live (set_link false (fget n t)) && negb (live (fget n t))); [reflexivity|].
      destruct (live (fget n t) && negb (live (set_link false (fget n t)))); reflexivity. }
    rewrite Hd in Hin. specialize (Hf k x Hin Hst).
    destruct (Z.eq_dec k n) as [->|Hne]; [|rewrite fget_fset_other by congruence; exact Hf].
    exfalso. unfold replayable, req_env in Hf. unfold live in Hf.
    destruct (e_link (fget n t)); [|discriminate]. cbn in Hf.
    destruct (e_dir (fget n t)); [|discriminate]. rewrite Er in Hf. discriminate.
Qed.

Lemma on_created_path_inv c p t s t' ops dels :
  on_created_path c p t s = (t', ops, dels) -> covers t s ->
  forallb quiet ops = true /\ covers t' (run c ops s).
Proof.
  destruct p as [|n]; cbn; intros E Hc; [inversion E; subst; cbn; auto|].
  destruct (on_created_inv c n t s t' ops dels E Hc) as (H1 & H2 & _). auto.
Qed.

(** ** the replay loop *)
Lemma replay_inv c l : forall t s t' ops dels,
  replay c l t s = (t', ops, dels) -> covers t s ->
  forallb quiet ops = true /\ covers t' (run c ops s) /\
  (fresh_replayed t s -> fresh_replayed t' (run c ops s)).
Proof.
  induction l as [|n l IH]; intros t s t' ops dels E Hc; cbn in E.
  - inversion E; subst. cbn. auto.
  - destruct (on_created c n t s) as [[t1 o1] d1] eqn:E1.
    destruct (replay c l t1 (run c o1 s)) as [[t2 o2] d2] eqn:E2. inversion E; subst; clear E.
    destruct (on_created_inv c n t s t1 o1 d1 E1 Hc) as (Q1 & C1 & F1).
    destruct (IH t1 (run c o1 s) t' o2 d2 E2 C1) as (Q2 & C2 & F2).
    rewrite forallb_app, Q1, Q2, run_app. auto.
Qed.

(** ** _check_requests *)
Lemma check_requests_covers l : forall t s svcs t' rm,
  check_requests l t = (svcs, t', rm) -> covers t s -> covers t' s.
Proof.
  induction l as [|n l IH]; intros t s svcs t' rm E Hc; cbn in E; [inversion E; subst; exact Hc|].
  destruct (e_dir (fget n t)) eqn:Ed.
  - destruct (check_requests l t) as [[sv t1] r1] eqn:E1. inversion E; subst. exact (IH _ s _ _ _ E1 Hc).
  - destruct (check_requests l (fset n (set_link false (fget n t)) t)) as [[sv t1] r1] eqn:E1. inversion E; subst.
    apply (IH _ s _ _ _ E1). intros m Hm.
    destruct (Z.eq_dec m n) as [->|Hne]; [rewrite fget_fset_same in Hm; discriminate|].
    rewrite fget_fset_other in Hm by congruence. exact (Hc m Hm).
Qed.

(** * (b) the start-up sequence satisfies the guard of C14_service_consistent *)
Lemma sync_guard_from t s : covers t s -> fresh_replayed t s -> guard s SvcSync = true.
Proof.
  intros Hc Hf. cbn. apply forallb_forall. intros [k x] Hin. cbn.
  destruct (d_stale x) eqn:Est; [reflexivity|]. cbn. apply mem_z_In. apply Hc. apply replayable_live.
  exact (Hf k x Hin Est).
Qed.

Lemma startup_inv c order t s t' ops dels :
  startup c order t s = (t', ops, dels) -> covers t s ->
  guarded c ops s = true /\ covers t' (run c ops s).
Proof.
  unfold startup. intros E Hc.
  destruct (check_requests (glob order t) t) as [[svcs t0] rm0] eqn:E0.
  destruct (replay c svcs t0 (run c [SvcRestart] s)) as [[t1 o1] d1] eqn:E1. inversion E; subst; clear E.
  pose proof (check_requests_covers _ _ s _ _ _ E0 Hc) as Hc0.
  assert (Hc1 : covers t0 (run c [SvcRestart] s)) by (apply (covers_same_res t0 s); [exact Hc0|reflexivity]).
  destruct (replay_inv c svcs t0 _ t' o1 d1 E1 Hc1) as (Q & C & F).
  assert (F0 : fresh_replayed t0 (run c [SvcRestart] s)).
  { intros k x Hin Hst. cbn in Hin. rewrite (restart_all_stale s k x Hin) in Hst. discriminate. }
  specialize (F F0).
  change (SvcRestart :: o1 ++ [SvcSync]) with ([SvcRestart] ++ o1 ++ [SvcSync]).
  rewrite !guarded_app, !run_app. split.
  - rewrite (guarded_quiet c o1 _ Q). pose proof (sync_guard_from t' _ C F) as Hg.
    cbn [guarded]. rewrite Hg. reflexivity.
  - apply (covers_same_res t' (run c o1 (run c [SvcRestart] s))); [exact C|]. cbn [run step]. apply sync_res.
Qed.

Theorem startup_guarded c order t s :
  (forall n, live (fget n t) = true -> In n (s_res s)) ->
  guarded c (snd (fst (startup c order t s))) s = true.
Proof.
  intros Hc. destruct (startup c order t s) as [[t' ops] dels] eqn:E. cbn.
  exact (proj1 (startup_inv c order t s t' ops dels E Hc)).
Qed.

(** ... and any number of restarts interleaved with client requests, releases, vanishing containers, foreign
    interference with request.yml and stray events *)
Lemma fstep_inv c f st :
  covers (f_tbl st) (f_own st) ->
  guarded c (snd (fstep c f st)) (f_own st) = true /\
  f_own (fst (fstep c f st)) = run c (snd (fstep c f st)) (f_own st) /\
  covers (f_tbl (fst (fstep c f st))) (f_own (fst (fstep c f st))).
Proof.
  intros Hc. unfold fstep. destruct (fstep_raw c f st) as [[t ops] up] eqn:E. cbn [fst snd f_own f_tbl].
  split; [|split; [reflexivity|]]; revert E; unfold fstep_raw; destruct f as [order| |n env|n|n|n|n|p].
  (* guarded *)
  - destruct (startup c order (f_tbl st) (f_own st)) as [[t1 o1] d1] eqn:E1. intros E; inversion E; subst.
    rewrite guarded_app. rewrite (proj1 (startup_inv c order _ _ _ _ _ E1 Hc)). cbn.
    apply guarded_quiet. apply quiet_deliver.
  - intros E; inversion E; subst. reflexivity.
  - destruct (client_put n env (fget n (f_tbl st))) as [e' ev] eqn:Ep.
    assert (Hc1 := covers_delta c (f_tbl st) (f_own st) n e' Hc).
    destruct ev; try (intros E; inversion E; subst; apply guarded_quiet; apply quiet_delta).
    destruct (f_up st); [|intros E; inversion E; subst; apply guarded_quiet; apply quiet_delta].
    destruct (on_created c n _ _) as [[t2 o2] d2] eqn:E2. intros E; inversion E; subst.
    destruct (on_created_inv c n _ _ _ _ _ E2 Hc1) as (Q & _ & _).
    apply guarded_quiet. rewrite !forallb_app, quiet_delta, Q, quiet_deliver. reflexivity.
  - destruct (client_delete (fget n (f_tbl st))) as [e' ev] eqn:Ep. intros E; inversion E; subst.
    apply guarded_quiet. rewrite forallb_app, quiet_delta. cbn.
    destruct ev; try reflexivity. destruct (f_up st); [|reflexivity]. unfold on_deleted. destruct (is_dot n); reflexivity.
  - destruct (f_up st); intros E; inversion E; subst; apply guarded_quiet; [|apply quiet_delta].
    rewrite forallb_app, quiet_delta. cbn. destruct (e_link (fget n (f_tbl st))); [|reflexivity].
    unfold on_deleted. destruct (is_dot n); reflexivity.
  - intros E; inversion E; subst. reflexivity.
  - intros E; inversion E; subst. reflexivity.
  - destruct (f_up st); [|intros E; inversion E; subst; reflexivity].
    destruct (on_created_path c p _ _) as [[t2 o2] d2] eqn:E2. intros E; inversion E; subst.
    destruct (on_created_path_inv c p _ _ _ _ _ E2 Hc) as (Q & _).
    apply guarded_quiet. rewrite forallb_app, Q, quiet_deliver. reflexivity.
  (* covers *)
  - destruct (startup c order (f_tbl st) (f_own st)) as [[t1 o1] d1] eqn:E1. intros E; inversion E; subst.
    rewrite run_app. apply (covers_same_res t (run c o1 (f_own st))); [|apply deliver_res].
    exact (proj2 (startup_inv c order _ _ _ _ _ E1 Hc)).
  - intros E; inversion E; subst. exact Hc.
  - destruct (client_put n env (fget n (f_tbl st))) as [e' ev] eqn:Ep.
    assert (Hc1 := covers_delta c (f_tbl st) (f_own st) n e' Hc).
    destruct ev; try (intros E; inversion E; subst; exact Hc1).
    destruct (f_up st); [|intros E; inversion E; subst; exact Hc1].
    destruct (on_created c n _ _) as [[t2 o2] d2] eqn:E2. intros E; inversion E; subst.
    destruct (on_created_inv c n _ _ _ _ _ E2 Hc1) as (_ & C & _).
    rewrite !run_app. apply (covers_same_res t (run c o2 (run c (res_delta n (fget n (f_tbl st)) e') (f_own st))));
      [exact C|apply deliver_res].
  - destruct (client_delete (fget n (f_tbl st))) as [e' ev] eqn:Ep. intros E; inversion E; subst.
    assert (Hc1 := covers_delta c (f_tbl st) (f_own st) n e' Hc). rewrite run_app.
    apply (covers_same_res _ _ _ Hc1).
    destruct ev; try reflexivity. destruct (f_up st); [|reflexivity]. unfold on_deleted.
    destruct (is_dot n); [reflexivity|]. cbn. apply delete_res.
  - destruct (f_up st); intros E; inversion E; subst; [|apply covers_delta; exact Hc].
    rewrite run_app. eapply covers_same_res; [apply covers_delta; exact Hc|].
    destruct (e_link (fget n (f_tbl st))); [|reflexivity]. unfold on_deleted.
    destruct (is_dot n); [reflexivity|]. cbn. apply delete_res.
  - intros E; inversion E; subst. exact Hc.
  - intros E; inversion E; subst. cbn [run].
    destruct (e_dir (fget n (f_tbl st))); [|exact Hc].
    intros m Hm. destruct (Z.eq_dec m n) as [->|Hne].
    + rewrite fget_fset_same in Hm. apply Hc. exact Hm.
    + rewrite fget_fset_other in Hm by congruence. exact (Hc m Hm).
  - destruct (f_up st); [|intros E; inversion E; subst; exact Hc].
    destruct (on_created_path c p _ _) as [[t2 o2] d2] eqn:E2. intros E; inversion E; subst.
    destruct (on_created_path_inv c p _ _ _ _ _ E2 Hc) as (_ & C).
    rewrite run_app. apply (covers_same_res t (run c o2 (f_own st))); [exact C|apply deliver_res].
Qed.

Lemma frame_run_inv c fs : forall st,
  covers (f_tbl st) (f_own st) ->
  guarded c (snd (frame_run c fs st)) (f_own st) = true /\
  f_own (fst (frame_run c fs st)) = run c (snd (frame_run c fs st)) (f_own st) /\
  covers (f_tbl (fst (frame_run c fs st))) (f_own (fst (frame_run c fs st))).
Proof.
  induction fs as [|f fs IH]; intros st Hc; cbn; [auto|].
  destruct (fstep_inv c f st Hc) as (G1 & R1 & C1).
  destruct (fstep c f st) as [st1 o1] eqn:E1. cbn [fst snd] in *.
  destruct (IH st1 C1) as (G2 & R2 & C2).
  destruct (frame_run c fs st1) as [st2 o2] eqn:E2. cbn [fst snd] in *.
  rewrite guarded_app, run_app, G1, <- R1, G2. auto.
Qed.

Theorem frame_run_guarded c fs :
  guarded c (frame_ops c fs) empty_state = true /\
  f_own (fst (frame_run c fs fstate0)) = run c (frame_ops c fs) empty_state.
Proof.
  assert (Hc : covers (f_tbl fstate0) (f_own fstate0)) by (intros n Hn; discriminate).
  destruct (frame_run_inv c fs fstate0 Hc) as (G & R & _). exact (conj G R).
Qed.

(** hence C14_service_consistent applies to every history of the framework (restated here so that the Props file is
    a one-liner) *)
Theorem frame_service_consistent c fs :
  let s := f_own (fst (frame_run c fs fstate0)) in
  (forall o a, dev_holds (s_devs s) o a = true -> lookup Z.eqb a (s_vips s) = Some o) /\
  (forall o1 o2 a, dev_holds (s_devs s) o1 a = true -> dev_holds (s_devs s) o2 a = true -> o1 = o2).
Proof.
  intros s. destruct (frame_run_guarded c fs) as (G & R). unfold s. rewrite R.
  pose proof (run_consistent c (frame_ops c fs) empty_state (wf_empty c) G consistent_empty) as Hc.
  exact (conj Hc (fun o1 o2 a => consistent_exclusive _ o1 o2 a Hc)).
Qed.

(** * (a) the start-up replays every request exactly once, in directory order, and nothing else *)
Lemma creates_app a b : creates (a ++ b) = creates a ++ creates b.
Proof.
  induction a as [|p a IH]; cbn; [reflexivity|]. destruct (create_of p); cbn; rewrite IH; reflexivity.
Qed.

Lemma creates_delta n e e' : creates (res_delta n e e') = [].
Proof.
  unfold res_delta. destruct (live e' && negb (live e)); [reflexivity|].
  destruct (live e && negb (live e')); reflexivity.
Qed.

Definition replay_item (t : ftable) (n : Z) : list (Z * Z) :=
  match req_env (fget n t) with Some env => [(n, env)] | None => [] end.

Lemma on_created_creates c n t s t' ops dels :
  on_created c n t s = (t', ops, dels) -> is_dot n = false ->
  creates ops = replay_item t n /\ (forall m, m <> n -> fget m t' = fget m t).
Proof.
  unfold on_created, replay_item, req_env, live. intros E Hd. rewrite Hd in E.
  destruct (e_link (fget n t)) eqn:El; cbn [negb andb] in *; [|inversion E; subst; auto].
  destruct (e_dir (fget n t)) eqn:Ed.
  - destruct (e_req (fget n t)) as [env|] eqn:Er.
    + destruct (env <? 0); inversion E; subst; split; try reflexivity; intros m Hm; apply fget_fset_other; congruence.
    + inversion E; subst. split; [apply creates_delta|]. intros m Hm; apply fget_fset_other; congruence.
  - inversion E; subst. split; [apply creates_delta|]. intros m Hm; apply fget_fset_other; congruence.
Qed.

Lemma flat_map_ext_in' {A B} (f g : A -> list B) l : (forall x, In x l -> f x = g x) -> flat_map f l = flat_map g l.
Proof.
  induction l as [|x l IH]; intros H; cbn; [reflexivity|]. rewrite (H x (or_introl eq_refl)), IH; [reflexivity|].
  intros y Hy. apply H. right; exact Hy.
Qed.

Lemma replay_creates c l : forall t s t' ops dels,
  replay c l t s = (t', ops, dels) -> NoDup l -> forallb (fun n => negb (is_dot n)) l = true ->
  creates ops = flat_map (replay_item t) l.
Proof.
  induction l as [|n l IH]; intros t s t' ops dels E Hnd Hdot; cbn in E; [inversion E; reflexivity|].
  destruct (on_created c n t s) as [[t1 o1] d1] eqn:E1.
  destruct (replay c l t1 (run c o1 s)) as [[t2 o2] d2] eqn:E2. inversion E; subst; clear E.
  cbn in Hdot. apply andb_true_iff in Hdot as [Hd1 Hd2]. apply negb_true_iff in Hd1.
  inversion Hnd as [|x l' Hnotin Hnd']; subst.
  destruct (on_created_creates c n t s t1 o1 d1 E1 Hd1) as (Hc1 & Hsame).
  rewrite creates_app, Hc1, (IH t1 _ t' o2 d2 E2 Hnd' Hd2). cbn [flat_map]. f_equal.
  apply flat_map_ext_in'. intros m Hm. unfold replay_item. rewrite Hsame; [reflexivity|].
  intros ->. contradiction.
Qed.

Lemma check_requests_spec l : forall t svcs t' rm,
  check_requests l t = (svcs, t', rm) ->
  svcs = filter (fun n => e_dir (fget n t)) l /\
  (forall m, e_dir (fget m t) = true -> fget m t' = fget m t) /\
  (forall m, e_dir (fget m t') = e_dir (fget m t)).
Proof.
  induction l as [|n l IH]; intros t svcs t' rm E; cbn in E; [inversion E; subst; cbn; auto|].
  cbn [filter]. destruct (e_dir (fget n t)) eqn:Ed.
  - destruct (check_requests l t) as [[sv t1] r1] eqn:E1. inversion E; subst.
    destruct (IH _ _ _ _ E1) as (H1 & H2 & H3). rewrite H1. auto.
  - destruct (check_requests l (fset n (set_link false (fget n t)) t)) as [[sv t1] r1] eqn:E1. inversion E; subst.
    destruct (IH _ _ _ _ E1) as (H1 & H2 & H3).
    assert (Hd : forall m, e_dir (fget m (fset n (set_link false (fget n t)) t)) = e_dir (fget m t)).
    { intros m. destruct (Z.eq_dec m n) as [->|Hne]; [rewrite fget_fset_same; reflexivity|].
      rewrite fget_fset_other by congruence. reflexivity. }
    split; [|split].
    + rewrite H1. apply filter_ext. intros m. apply Hd.
    + intros m Hm. rewrite H2 by (rewrite Hd; exact Hm).
      destruct (Z.eq_dec m n) as [->|Hne]; [rewrite Hm in Ed; discriminate|]. apply fget_fset_other. congruence.
    + intros m. rewrite H3. apply Hd.
Qed.

Lemma NoDup_filter {A} (f : A -> bool) l : NoDup l -> NoDup (filter f l).
Proof.
  induction 1 as [|x l Hn Hnd IH]; cbn; [constructor|]. destruct (f x); [|exact IH].
  constructor; [|exact IH]. intros Hin. apply filter_In in Hin. tauto.
Qed.

Lemma nodup_z_NoDup l : nodup_z l = true -> NoDup l.
Proof.
  induction l as [|x l IH]; cbn; intros H; [constructor|]. apply andb_true_iff in H as [H1 H2].
  constructor; [|exact (IH H2)]. intros Hin. apply mem_z_In in Hin. rewrite Hin in H1. discriminate.
Qed.

Lemma flat_map_filter_nil {A B} (f : A -> list B) (p : A -> bool) l :
  (forall x, p x = false -> f x = []) -> flat_map f (filter p l) = flat_map f l.
Proof.
  intros H. induction l as [|x l IH]; cbn; [reflexivity|]. destruct (p x) eqn:E; cbn; rewrite IH; [reflexivity|].
  rewrite (H x E). reflexivity.
Qed.

Theorem startup_replays_all c order t s :
  nodup_z order = true ->
  let ops := snd (fst (startup c order t s)) in
  (exists mid, ops = SvcRestart :: mid ++ [SvcSync] /\ forallb quiet mid = true) /\
  creates ops = to_replay order t.
Proof.
  intros Hnd ops. unfold ops, startup.
  destruct (check_requests (glob order t) t) as [[svcs t0] rm0] eqn:E0.
  destruct (replay c svcs t0 (run c [SvcRestart] s)) as [[t1 o1] d1] eqn:E1. cbn [fst snd].
  destruct (check_requests_spec _ _ _ _ _ E0) as (Hs & Hkeep & Hdir).
  assert (Hg : NoDup (glob order t)) by (apply NoDup_filter; apply nodup_z_NoDup; exact Hnd).
  assert (Hsv : NoDup svcs) by (rewrite Hs; apply NoDup_filter; exact Hg).
  assert (Hdot : forallb (fun n => negb (is_dot n)) svcs = true).
  { apply forallb_forall. intros n Hn. rewrite Hs in Hn. apply filter_In in Hn as [Hn _].
    unfold glob in Hn. apply filter_In in Hn as [_ Hn]. apply andb_true_iff in Hn. tauto. }
  split.
  - exists o1. split; [reflexivity|].
    assert (Hq : forall l t s t' ops dels, replay c l t s = (t', ops, dels) -> forallb quiet ops = true).
    { induction l as [|n l IH]; intros ta sa tb oa da E; cbn in E; [inversion E; reflexivity|].
      destruct (on_created c n ta sa) as [[tx ox] dx] eqn:Ex.
      destruct (replay c l tx (run c ox sa)) as [[ty oy] dy] eqn:Ey. inversion E; subst.
      rewrite forallb_app, (IH _ _ _ _ _ Ey), andb_true_r. revert Ex. unfold on_created.
      destruct (is_dot n); [intros Ex; inversion Ex; reflexivity|].
      destruct (negb (e_link (fget n ta))); [intros Ex; inversion Ex; reflexivity|].
      destruct (if e_dir (fget n ta) then e_req (fget n ta) else None) as [env|].
      - destruct (env <? 0); intros Ex; inversion Ex; reflexivity.
      - intros Ex; inversion Ex. apply quiet_delta. }
    exact (Hq _ _ _ _ _ _ E1).
  - change (SvcRestart :: o1 ++ [SvcSync]) with ([SvcRestart] ++ o1 ++ [SvcSync]).
    rewrite !creates_app. cbn [creates create_of]. rewrite app_nil_r. cbn [app].
    rewrite (replay_creates c svcs t0 _ t1 o1 d1 E1 Hsv Hdot). rewrite Hs. unfold to_replay.
    rewrite flat_map_filter_nil.
    + apply flat_map_ext_in'. intros n Hn. unfold replay_item.
      destruct (e_dir (fget n t)) eqn:Ed; [rewrite Hkeep by exact Ed; reflexivity|].
      unfold req_env, live. rewrite Hdir, Ed, !andb_false_r. reflexivity.
    + intros n Hn. unfold replay_item, req_env, live. rewrite Hdir, Hn, andb_false_r. reflexivity.
Qed.

(** exactly once: a request that has to be handed over and that the listing shows is handed over once *)
Lemma count_flat_single (f : Z -> option Z) (l : list Z) n env :
  NoDup l -> In n l -> f n = Some env ->
  filter (fun x => fst x =? n) (flat_map (fun k => match f k with Some e => [(k, e)] | None => [] end) l) = [(n, env)].
Proof.
  intros Hnd.
  assert (Hnil : forall l', ~ In n l' ->
    filter (fun x : Z * Z => fst x =? n) (flat_map (fun k => match f k with Some e => [(k, e)] | None => [] end) l') = []).
  { induction l' as [|y l' IH']; intros Hy; cbn; [reflexivity|].
    rewrite filter_app, IH' by (intros H; apply Hy; right; exact H).
    rewrite app_nil_r. destruct (f y); [|reflexivity]. cbn.
    destruct (y =? n) eqn:E; [apply Z.eqb_eq in E; subst; exfalso; apply Hy; left; reflexivity|reflexivity]. }
  induction Hnd as [|x l Hn Hnd IH]; intros Hin Hf; [destruct Hin|].
  cbn [flat_map]. rewrite filter_app. destruct Hin as [->|Hin].
  - rewrite Hf, (Hnil l Hn). cbn. rewrite Z.eqb_refl. reflexivity.
  - rewrite (IH Hin Hf). destruct (f x); [|reflexivity]. cbn.
    destruct (x =? n) eqn:E; [apply Z.eqb_eq in E; subst; contradiction|reflexivity].
Qed.

Theorem startup_replays_once c order t s n env :
  nodup_z order = true -> In n order -> is_dot n = false -> req_env (fget n t) = Some env ->
  filter (fun x => fst x =? n) (creates (snd (fst (startup c order t s)))) = [(n, env)].
Proof.
  intros Hnd Hin Hdot Hreq. rewrite (proj2 (startup_replays_all c order t s Hnd)). unfold to_replay.
  apply (count_flat_single (fun k => req_env (fget k t))).
  - apply NoDup_filter. apply nodup_z_NoDup. exact Hnd.
  - unfold glob. apply filter_In. split; [exact Hin|]. rewrite Hdot. cbn.
    pose proof (req_env_live _ _ Hreq) as Hl. unfold live in Hl. apply andb_true_iff in Hl. tauto.
  - exact Hreq.
Qed.

(** nothing else: whatever is handed over is a request of the directory that resolves, with its own payload *)
Theorem startup_replays_only c order t s n env :
  nodup_z order = true -> In (n, env) (creates (snd (fst (startup c order t s)))) ->
  In n order /\ is_dot n = false /\ req_env (fget n t) = Some env.
Proof.
  intros Hnd Hin. rewrite (proj2 (startup_replays_all c order t s Hnd)) in Hin. unfold to_replay in Hin.
  apply in_flat_map in Hin as (k & Hk & Hin). unfold glob in Hk. apply filter_In in Hk as [Hk1 Hk2].
  destruct (req_env (fget k t)) as [e|] eqn:E; [|destruct Hin]. destruct Hin as [Hin|[]]. inversion Hin; subst.
  apply andb_true_iff in Hk2 as [Hk2 _]. apply negb_true_iff in Hk2. auto.
Qed.

(** * (c) client laws *)
Theorem get_after_delete e : client_get (fst (client_delete e)) = None \/ e_uid e = false.
Proof. unfold client_delete. destruct (e_uid e); [left; reflexivity|right; reflexivity]. Qed.

Theorem delete_twice e : fst (client_delete (fst (client_delete e))) = fst (client_delete e).
Proof. unfold client_delete. destruct (e_uid e) eqn:E; cbn; [reflexivity|rewrite E; reflexivity]. Qed.

(** the second delete tells the service nothing *)
Theorem delete_twice_silent e : snd (client_delete (fst (client_delete e))) = CNone.
Proof. unfold client_delete. destruct (e_uid e) eqn:E; cbn; [reflexivity|rewrite E; reflexivity]. Qed.

(** put of a registered request removes the reply and notifies the service *)
Theorem put_existing_removes_reply n env e :
  live e = true -> e_uid e = true ->
  client_get (fst (client_put n env e)) = None /\ snd (client_put n env e) = CCreated /\
  e_req (fst (client_put n env e)) = Some env /\ live (fst (client_put n env e)) = true.
Proof.
  destruct e as [l d r u rep]. unfold live, client_put, client_get. cbn. intros Hl Hu.
  apply andb_true_iff in Hl as [-> ->]. subst u. cbn. auto.
Qed.

(** put; the service answers; get returns the answer *)
Theorem put_answer_get c n env t s up :
  0 <= n -> 0 <= env ->
  let st1 := fst (fstep c (FPut n env) {| f_tbl := t; f_own := s; f_up := up |}) in
  e_uid (fget n t) = false \/ live (fget n t) = true ->
  (up = true ->
   exists r, client_get (fget n (f_tbl st1)) = Some r /\
             In (SvcCreate n env) (snd (fstep c (FPut n env) {| f_tbl := t; f_own := s; f_up := up |}))) /\
  (up = false -> client_get (fget n (f_tbl st1)) = (if e_uid (fget n t) then None else client_get (fget n t))).
Proof.
  intros Hn Henv st1 Hpre. unfold st1, fstep, fstep_raw. cbn [f_tbl f_own f_up].
  assert (Hdot : is_dot n = false) by (unfold is_dot; lia).
  assert (Hneg : (env <? 0) = false) by lia.
  destruct (client_put n env (fget n t)) as [e' ev] eqn:Ep.
  assert (Hev : ev = CCreated /\ e_link e' = true /\ e_dir e' = true /\ e_req e' = Some env /\
                (e_uid (fget n t) = true -> e_reply e' = None) /\
                (e_uid (fget n t) = false -> e_dir (fget n t) = true -> e_reply e' = e_reply (fget n t)) /\
                (e_dir (fget n t) = false -> e_reply e' = None)).
  { revert Ep. unfold client_put, live in *. destruct (e_dir (fget n t)) eqn:Ed.
    - cbn. destruct (e_uid (fget n t)) eqn:Eu.
      + destruct Hpre as [Hp|Hp]; [discriminate|]. apply andb_true_iff in Hp as [Hp _]. rewrite Hp.
        intros E; inversion E; subst; cbn. repeat split; auto; try discriminate.
      + intros E; inversion E; subst; cbn. repeat split; auto; try discriminate.
    - cbn. intros E; inversion E; subst; cbn. repeat split; auto; try discriminate. }
  destruct Hev as (-> & Hl & Hd & Hr & Hrep1 & Hrep2 & Hrep3). split.
  - intros ->. unfold on_created. rewrite Hdot, fget_fset_same, Hl, Hd, Hr, Hneg. cbn [negb fst snd f_tbl].
    rewrite fget_fset_same. unfold client_get. cbn. rewrite Hd. eexists. split; [reflexivity|].
    apply in_or_app. right. left. reflexivity.
  - intros ->. cbn [fst snd f_tbl]. rewrite fget_fset_same. unfold client_get. rewrite Hd.
    destruct (e_uid (fget n t)) eqn:Eu; [exact (Hrep1 eq_refl)|].
    destruct (e_dir (fget n t)) eqn:Ed; [exact (Hrep2 eq_refl eq_refl)|]. exact (Hrep3 eq_refl).
Qed.
