(** Executable small-step model of the presence service against ZooKeeper:
      treadmill.services.presence_service.PresenceResourceService
        .on_create_request / .on_delete_request / ._safe_create / ._safe_delete / ._watch
      (zkutils.create / get_with_metadata / update / ensure_deleted underneath).

    System state = ZooKeeper node table (path -> data, owner session) x clients
    (session id, alive, the service-local [presence] map, pending continuation).
    A request is a resumption performing ONE ZooKeeper call per [AStep]; the
    continuation is defunctionalised as a program counter [pc].  Environment
    actions: a client starts a request ([AReq], any request at any time it is
    idle -- this subsumes retries triggered by watches), a session expires
    ([AExpire]: its ephemeral nodes vanish and the client performs no further
    operation), the service process is restarted with a fresh session and empty
    state ([ARestart]).

    Modelled, not verified: ZooKeeper single-node operations are atomic and
    linearizable, ephemeral nodes are deleted on session expiry, an expired
    session issues no further successful operation (the service exits on LOST:
    sproc/service.py adds zkutils.exit_on_lost), session ids are never reused.
    No proofs in this file. *)
From Coq Require Import ZArith List Bool.
Import ListNotations.
Open Scope Z_scope.

(** * ZooKeeper node table *)
Record node := { n_path : Z; n_data : Z; n_owner : Z }.   (* n_owner = ephemeral owner session *)
Definition zk := list node.                                 (* creation order *)

Definition zk_get (t : zk) (p : Z) : option node := find (fun n => n_path n =? p) t.
Definition zk_create (t : zk) (p d owner : Z) : option zk :=
  match zk_get t p with Some _ => None | None => Some (t ++ [{| n_path := p; n_data := d; n_owner := owner |}]) end.
Definition zk_set (t : zk) (p d : Z) : option zk :=
  match zk_get t p with
  | None => None
  | Some _ => Some (map (fun n => if n_path n =? p then {| n_path := p; n_data := d; n_owner := n_owner n |} else n) t)
  end.
Definition zk_delete (t : zk) (p : Z) : option zk :=
  match zk_get t p with None => None | Some _ => Some (filter (fun n => negb (n_path n =? p)) t) end.
Definition zk_expire (t : zk) (sid : Z) : zk := filter (fun n => negb (n_owner n =? sid)) t.
Definition owner_of (t : zk) (p : Z) : option Z := option_map n_owner (zk_get t p).

(** * The service-local map  presence[app][path] = rsrc_id  (dict of dicts, insertion ordered) *)
Record pentry := { pe_app : Z; pe_path : Z; pe_rid : Z }.
Definition pmap := list pentry.
Definition pe_is (app p : Z) (e : pentry) : bool := (pe_app e =? app) && (pe_path e =? p).
Definition pm_get (m : pmap) (app p : Z) : option Z := option_map pe_rid (find (pe_is app p) m).
Definition pm_set (m : pmap) (app p rid : Z) : pmap :=
  if existsb (pe_is app p) m
  then map (fun e => if pe_is app p e then {| pe_app := app; pe_path := p; pe_rid := rid |} else e) m
  else m ++ [{| pe_app := app; pe_path := p; pe_rid := rid |}].
Definition pm_del (m : pmap) (app p : Z) : pmap := filter (fun e => negb (pe_is app p e)) m.
(** to_delete = [path for path in presence[app] if presence[app][path] == rsrc_id] *)
Definition pm_paths (m : pmap) (app rid : Z) : list Z :=
  map pe_path (filter (fun e => (pe_app e =? app) && (pe_rid e =? rid)) m).

(** * Requests and continuations *)
Inductive request :=
| RCreate (rid app : Z) (items : list (Z * Z))   (* on_create_request: (path, data) of running, endpoints, identity *)
| RDelete (rid app : Z).                          (* on_delete_request *)

Inductive pc :=
| PIdle
| PCreate (rid app p d : Z) (rest : list (Z * Z))    (* next call: create(p, d, ephemeral=True)             *)
| PGet (rid app p d : Z) (rest : list (Z * Z))       (* NodeExists -> get_with_metadata(p)                   *)
| PUpdate (rid app p d : Z) (rest : list (Z * Z))    (* own node, other content -> zkutils.update = set(p,d)  *)
| PWatchGet (rid app p : Z)                          (* foreign owner -> DataWatch(p): get(p, watch)          *)
| PWatchExists (rid app p : Z)                       (* DataWatch: NoNode -> exists(p, watch)                 *)
| PDelGet (rid app p : Z) (rest : list Z)            (* _safe_delete: get_with_metadata(p)                    *)
| PDelChildren (rid app p : Z) (rest : list Z)       (* own node -> ensure_deleted: get_children(p)           *)
| PDelDelete (rid app p : Z) (rest : list Z).        (* ensure_deleted: delete(p)                             *)

Record client := { c_sess : Z; c_alive : bool; c_pmap : pmap; c_pc : pc }.
Record state := { st_zk : zk; st_clients : list client; st_next : Z }.

Inductive action :=
| AReq (c : nat) (r : request)
| AStep (c : nat)
| AExpire (c : nat)
| ARestart (c : nat).

(** what a ZooKeeper call looked like *)
Inductive zop := OCreate | OGet | OSet | OExists | OChildren | ODelete.
Record obs := {
  o_client : nat; o_sess : Z; o_op : zop; o_path : Z; o_data : Z;
  o_ok : bool;                  (* the call succeeded (no NoNodeError / NodeExistsError)                 *)
  o_owner : option Z;           (* owner session of the node at the path BEFORE the call                  *)
  o_owner_after : option Z;     (* ... AFTER the call                                                      *)
  o_rid : Z;                    (* the request being processed                                             *)
  o_is_delete_req : bool;       (* ... is an on_delete_request                                             *)
  o_reg : option Z;             (* presence[app][path] of the calling service before the call              *)
  o_retry : bool                (* the call was followed by retry_request(rid)                             *)
}.
Definition mutating (o : zop) : bool := match o with OSet | ODelete => true | _ => false end.

(** continue on_create_request with the remaining items / on_delete_request with the remaining paths *)
Definition next_create (rid app : Z) (rest : list (Z * Z)) : pc :=
  match rest with [] => PIdle | (p, d) :: rest' => PCreate rid app p d rest' end.
Definition next_delete (rid app : Z) (rest : list Z) : pc :=
  match rest with [] => PIdle | p :: rest' => PDelGet rid app p rest' end.

Definition start (c : client) (r : request) : client :=
  match r with
  | RCreate rid app items =>
      {| c_sess := c_sess c; c_alive := c_alive c; c_pmap := c_pmap c; c_pc := next_create rid app items |}
  | RDelete rid app =>
      {| c_sess := c_sess c; c_alive := c_alive c; c_pmap := c_pmap c;
         c_pc := next_delete rid app (pm_paths (c_pmap c) app rid) |}
  end.

Definition with_pc (c : client) (m : pmap) (k : pc) : client :=
  {| c_sess := c_sess c; c_alive := c_alive c; c_pmap := m; c_pc := k |}.

Definition mk_obs (i : nat) (c : client) (t t' : zk) (op : zop) (p d : Z) (ok : bool)
           (rid app : Z) (isdel retry : bool) : obs :=
  {| o_client := i; o_sess := c_sess c; o_op := op; o_path := p; o_data := d; o_ok := ok;
     o_owner := owner_of t p; o_owner_after := owner_of t' p; o_rid := rid; o_is_delete_req := isdel;
     o_reg := pm_get (c_pmap c) app p; o_retry := retry |}.

(** one ZooKeeper call of client number i (alive, not idle): new table, new client, observation *)
Definition client_step (i : nat) (t : zk) (c : client) : option (zk * client * obs) :=
  let sid := c_sess c in
  match c_pc c with
  | PIdle => None
  | PCreate rid app p d rest =>
      match zk_create t p d sid with
      | Some t' => Some (t', with_pc c (pm_set (c_pmap c) app p rid) (next_create rid app rest),
                         mk_obs i c t t' OCreate p d true rid app false false)
      | None => Some (t, with_pc c (c_pmap c) (PGet rid app p d rest),
                      mk_obs i c t t OCreate p d false rid app false false)
      end
  | PGet rid app p d rest =>
      match zk_get t p with
      | None => Some (t, with_pc c (c_pmap c) PIdle, mk_obs i c t t OGet p d false rid app false true)
      | Some n =>
          if negb (n_owner n =? sid)
          then Some (t, with_pc c (c_pmap c) (PWatchGet rid app p), mk_obs i c t t OGet p d true rid app false false)
          else if negb (n_data n =? d)
          then Some (t, with_pc c (c_pmap c) (PUpdate rid app p d rest), mk_obs i c t t OGet p d true rid app false false)
          else Some (t, with_pc c (pm_set (c_pmap c) app p rid) (next_create rid app rest),
                     mk_obs i c t t OGet p d true rid app false false)
      end
  | PUpdate rid app p d rest =>
      match zk_set t p d with
      | Some t' => Some (t', with_pc c (pm_set (c_pmap c) app p rid) (next_create rid app rest),
                         mk_obs i c t t' OSet p d true rid app false false)
      | None => Some (t, with_pc c (c_pmap c) PIdle, mk_obs i c t t OSet p d false rid app false false)
      end
  | PWatchGet rid app p =>
      match zk_get t p with
      | Some _ => Some (t, with_pc c (c_pmap c) PIdle, mk_obs i c t t OGet p 0 true rid app false false)
      | None => Some (t, with_pc c (c_pmap c) (PWatchExists rid app p), mk_obs i c t t OGet p 0 false rid app false false)
      end
  | PWatchExists rid app p =>
      match zk_get t p with
      | Some _ => Some (t, with_pc c (c_pmap c) PIdle, mk_obs i c t t OExists p 0 true rid app false false)
      | None => Some (t, with_pc c (c_pmap c) PIdle, mk_obs i c t t OExists p 0 false rid app false true)
      end
  | PDelGet rid app p rest =>
      match zk_get t p with
      | None => Some (t, with_pc c (pm_del (c_pmap c) app p) (next_delete rid app rest),
                      mk_obs i c t t OGet p 0 false rid app true false)
      | Some n =>
          if n_owner n =? sid
          then Some (t, with_pc c (c_pmap c) (PDelChildren rid app p rest), mk_obs i c t t OGet p 0 true rid app true false)
          else Some (t, with_pc c (pm_del (c_pmap c) app p) (next_delete rid app rest),
                     mk_obs i c t t OGet p 0 true rid app true false)
      end
  | PDelChildren rid app p rest =>
      match zk_get t p with
      | Some _ => Some (t, with_pc c (c_pmap c) (PDelDelete rid app p rest), mk_obs i c t t OChildren p 0 true rid app true false)
      | None => Some (t, with_pc c (pm_del (c_pmap c) app p) (next_delete rid app rest),
                      mk_obs i c t t OChildren p 0 false rid app true false)
      end
  | PDelDelete rid app p rest =>
      match zk_delete t p with
      | Some t' => Some (t', with_pc c (pm_del (c_pmap c) app p) (next_delete rid app rest),
                         mk_obs i c t t' ODelete p 0 true rid app true false)
      | None => Some (t, with_pc c (pm_del (c_pmap c) app p) (next_delete rid app rest),
                      mk_obs i c t t ODelete p 0 false rid app true false)
      end
  end.

Fixpoint upd {X} (l : list X) (i : nat) (x : X) : list X :=
  match l, i with
  | [], _ => []
  | _ :: t, O => x :: t
  | y :: t, S j => y :: upd t j x
  end.

Definition is_idle (k : pc) : bool := match k with PIdle => true | _ => false end.

(** [None]: the action is not enabled *)
Definition step (s : state) (a : action) : option (state * list obs) :=
  match a with
  | AReq i r =>
      match nth_error (st_clients s) i with
      | Some c => if c_alive c && is_idle (c_pc c)
                  then Some ({| st_zk := st_zk s; st_clients := upd (st_clients s) i (start c r); st_next := st_next s |}, [])
                  else None
      | None => None
      end
  | AStep i =>
      match nth_error (st_clients s) i with
      | Some c => if c_alive c
                  then match client_step i (st_zk s) c with
                       | Some (t', c', o) =>
                           Some ({| st_zk := t'; st_clients := upd (st_clients s) i c'; st_next := st_next s |}, [o])
                       | None => None
                       end
                  else None
      | None => None
      end
  | AExpire i =>
      match nth_error (st_clients s) i with
      | Some c => if c_alive c
                  then Some ({| st_zk := zk_expire (st_zk s) (c_sess c);
                                st_clients := upd (st_clients s) i
                                  {| c_sess := c_sess c; c_alive := false; c_pmap := c_pmap c; c_pc := c_pc c |};
                                st_next := st_next s |}, [])
                  else None
      | None => None
      end
  | ARestart i =>
      match nth_error (st_clients s) i with
      | Some c => if c_alive c then None
                  else Some ({| st_zk := st_zk s;
                                st_clients := upd (st_clients s) i
                                  {| c_sess := st_next s; c_alive := true; c_pmap := []; c_pc := PIdle |};
                                st_next := st_next s + 1 |}, [])
      | None => None
      end
  end.

Fixpoint run (s : state) (acts : list action) : option (state * list obs) :=
  match acts with
  | [] => Some (s, [])
  | a :: t => match step s a with
              | None => None
              | Some (s', o) => match run s' t with
                                | None => None
                                | Some (s'', o') => Some (s'', o ++ o')
                                end
              end
  end.

(** initial states: sessions pairwise distinct and below the session counter, every client idle;
    node table and presence maps ARBITRARY (the local map may be stale) *)
Fixpoint nodupb (l : list Z) : bool :=
  match l with [] => true | x :: t => negb (existsb (Z.eqb x) t) && nodupb t end.
(** presence maps have unique keys (a dict) *)
Fixpoint pm_nodup (m : pmap) : bool :=
  match m with [] => true | e :: t => negb (existsb (pe_is (pe_app e) (pe_path e)) t) && pm_nodup t end.

Definition wf_init (s : state) : bool :=
  nodupb (map c_sess (st_clients s)) &&
  forallb (fun c => (c_sess c <? st_next s) && is_idle (c_pc c) && pm_nodup (c_pmap c)) (st_clients s).

(** * What the property says about one ZooKeeper call *)
(** a set/delete finds the node owned by the caller's own session (and therefore succeeds); a successful
    create makes a node owned by the caller's session where there was none; a set does not change the owner *)
Definition safe_obs (o : obs) : Prop :=
  (mutating (o_op o) = true -> o_ok o = true /\ o_owner o = Some (o_sess o)) /\
  (o_op o = OCreate -> o_ok o = true -> o_owner o = None /\ o_owner_after o = Some (o_sess o)) /\
  (o_op o = OSet -> o_owner_after o = o_owner o).
(** every call made while processing on_delete_request rid is on a path that the service's map registers for
    rid; deletes are issued only by delete requests, creates and sets only by create requests *)
Definition reg_obs (o : obs) : Prop :=
  (o_is_delete_req o = true -> o_reg o = Some (o_rid o)) /\
  (o_op o = ODelete -> o_is_delete_req o = true) /\
  (o_op o = OSet \/ o_op o = OCreate -> o_is_delete_req o = false).

(** * Correspondence: flattened observables *)
Definition zb (b : bool) : Z := if b then 1 else 0.
Definition zop_code (o : zop) : Z :=
  match o with OCreate => 1 | OGet => 2 | OSet => 3 | OExists => 4 | OChildren => 5 | ODelete => 6 end.
Definition dump_obs (o : obs) : list Z :=
  [Z.of_nat (o_client o); zop_code (o_op o); o_path o;
   match o_op o with OCreate | OSet => o_data o | _ => 0 end; zb (o_ok o); zb (o_retry o)].
(* the nested dict is dumped sorted by (app, path) *)
Definition pe_leb (a b : pentry) : bool :=
  if pe_app a <? pe_app b then true else if pe_app b <? pe_app a then false else pe_path a <=? pe_path b.
Fixpoint pe_insert (x : pentry) (l : list pentry) : list pentry :=
  match l with [] => [x] | y :: t => if pe_leb x y then x :: l else y :: pe_insert x t end.
Definition pe_sort (l : list pentry) : list pentry := fold_right pe_insert [] l.
Definition dump_client (c : client) : list Z :=
  [c_sess c; zb (c_alive c); zb (c_alive c && is_idle (c_pc c)); Z.of_nat (length (c_pmap c))]
  ++ flat_map (fun e => [pe_app e; pe_path e; pe_rid e]) (pe_sort (c_pmap c)).
Definition dump_state (s : state) : list Z :=
  Z.of_nat (length (st_zk s)) :: flat_map (fun n => [n_path n; n_data n; n_owner n]) (st_zk s)
  ++ flat_map dump_client (st_clients s).

(** per action: 1 + its observations (or [-1] if the model does not enable it), then the final state *)
Fixpoint run_dump (s : state) (acts : list action) : list Z :=
  match acts with
  | [] => dump_state s
  | a :: t => match step s a with
              | None => [-1]
              | Some (s', os) => 1 :: flat_map dump_obs os ++ run_dump s' t
              end
  end.
Definition run_case (c : state * list action) : list Z := let '(s, acts) := c in run_dump s acts.
