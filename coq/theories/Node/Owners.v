(** Executable model of the node's three symlink databases and of the network service on top:

      treadmill.vipfile.VipMgr          <svc>/vips/<ip>     -> ../resources/<owner>
      treadmill.rulefile.RuleMgr        <root>/rules/<rule> -> ../apps/<owner>
      treadmill.endpoints.EndpointsMgr  <root>/endpoints/<spec> -> <owner path>
      treadmill.services.network_service.NetworkResourceService  (_devices, on top of VipMgr)

    An *owner table* is a directory of symbolic links: name (key) -> basename of the link
    target (owner).  An owner is *live* when the link target exists (os.stat follows the link).

    Modelled, not verified (definitions below): symlink(2) fails with EEXIST when the name
    exists ([symlink]); readlink/unlink/stat on dangling links ([release], [gc]).
    No proofs in this file. *)
From Coq Require Import ZArith List Bool.
Import ListNotations.
Open Scope Z_scope.

Fixpoint mem_z (x : Z) (l : list Z) : bool :=
  match l with [] => false | y :: t => (y =? x) || mem_z x t end.
Definition add_z (x : Z) (l : list Z) : list Z := if mem_z x l then l else l ++ [x].
Definition del_z (x : Z) (l : list Z) : list Z := filter (fun y => negb (y =? x)) l.
Definition is_some {A} (o : option A) : bool := match o with Some _ => true | None => false end.

(** * Owner tables (generic in the key type) *)
Section Table.
  Context {K : Type}.
  Variable keqb : K -> K -> bool.

  Definition table := list (K * Z).

  Fixpoint lookup (k : K) (t : table) : option Z :=
    match t with
    | [] => None
    | (k', o) :: r => if keqb k' k then Some o else lookup k r
    end.

  Definition remove (k : K) (t : table) : table := filter (fun e => negb (keqb (fst e) k)) t.

  (** os.symlink(target, name): EEXIST ([None]) when the name exists -- atomic test-and-set by definition *)
  Definition symlink (k : K) (o : Z) (t : table) : option table :=
    match lookup k t with
    | Some _ => None
    | None => Some (t ++ [(k, o)])
    end.

  Inductive rel_result := RelOk | RelNotFound | RelNotOwner.

  (** readlink(name); compare basename with the caller; unlink(name)
      -- the body shared by VipMgr.free, RuleMgr.unlink_rule, EndpointsMgr.unlink_spec(owner) *)
  Definition release (k : K) (o : Z) (t : table) : rel_result * table :=
    match lookup k t with
    | None => (RelNotFound, t)
    | Some o' => if o' =? o then (RelOk, remove k t) else (RelNotOwner, t)
    end.

  (** for every entry: os.stat(link) -> ENOENT (dangling) -> unlink *)
  Definition gc (live : list Z) (t : table) : table := filter (fun e => mem_z (snd e) live) t.

  (** create with the "already mine" tolerance of RuleMgr.create_rule / EndpointsMgr.create_spec:
      on EEXIST the existing owner is compared with [same] *)
  Definition create_tolerant (k : K) (o same : Z) (t : table) : option table :=
    match symlink k o t with
    | Some t' => Some t'
    | None => match lookup k t with
              | Some o' => if o' =? same then Some t else None
              | None => None
              end
    end.
End Table.

(** * VipMgr *)
Record cidr := { c_base : Z; c_size : Z }.     (* ipaddress.IPv4Network: base address, number of addresses *)

Definition in_cidr (c : cidr) (a : Z) : bool := (c_base c <=? a) && (a <? c_base c + c_size c).
(** IPv4Network.hosts(): without network and broadcast address (prefix <= 30); all addresses for /31, /32 *)
Definition hosts_first (c : cidr) : Z := if 4 <=? c_size c then c_base c + 1 else c_base c.
Definition hosts_count (c : cidr) : nat := Z.to_nat (if 4 <=? c_size c then c_size c - 2 else c_size c).
Definition is_host (c : cidr) (a : Z) : bool := (c_base c <? a) && (a <? c_base c + c_size c - 1).

(** for vip in hosts: if self._alloc(owner, vip): break *)
Fixpoint scan_alloc (t : @table Z) (o : Z) (a : Z) (n : nat) : option (Z * @table Z) :=
  match n with
  | O => None
  | S n' => match symlink Z.eqb a o t with
            | Some t' => Some (a, t')
            | None => scan_alloc t o (a + 1) n'
            end
  end.

Inductive res := ROk | RAddr (a : Z) | RExists | RValue | RNoFree | RKey.

Definition vip_alloc (c : cidr) (o : Z) (picked : option Z) (t : @table Z) : res * @table Z :=
  match picked with
  | Some p =>
      if in_cidr c p then
        match symlink Z.eqb p o t with
        | Some t' => (RAddr p, t')
        | None => (RNoFree, t)                 (* Exception('Unable to assign IP') *)
        end
      else (RValue, t)                          (* ValueError('IP not in CIDR') *)
  | None =>
      match scan_alloc t o (hosts_first c) (hosts_count c) with
      | Some (a, t') => (RAddr a, t')
      | None => (RNoFree, t)                    (* Exception('Unable to find a free IP') *)
      end
  end.

(** * EndpointsMgr keys: appname~proto~endpoint~real_port~pid~port *)
Record spec := { sp_app : Z; sp_proto : Z; sp_ep : Z; sp_rport : Z; sp_pid : Z; sp_port : Z }.
Definition spec_eqb (a b : spec) : bool :=
  (sp_app a =? sp_app b) && (sp_proto a =? sp_proto b) && (sp_ep a =? sp_ep b) &&
  (sp_rport a =? sp_rport b) && (sp_pid a =? sp_pid b) && (sp_port a =? sp_port b).

Definition opt_matches (p : option Z) (v : Z) : bool := match p with None => true | Some x => x =? v end.
(** glob appname~proto|*~endpoint|*~*~*~* (names without glob metacharacters) *)
Definition spec_matches (app : Z) (proto ep : option Z) (k : spec) : bool :=
  (sp_app k =? app) && opt_matches proto (sp_proto k) && opt_matches ep (sp_ep k).

(** EndpointsMgr.unlink_all: entries matching the pattern; with an owner only those it owns *)
Definition unlink_all (app : Z) (proto ep : option Z) (owner : option Z) (t : @table spec) : @table spec :=
  filter (fun e => negb (spec_matches app proto ep (fst e) && opt_matches owner (snd e))) t.

(** EndpointsMgr.unlink_spec: owner-checked when an owner is given, unconditional otherwise *)
Definition unlink_spec (k : spec) (owner : option Z) (t : @table spec) : @table spec :=
  match owner with
  | Some o => snd (release spec_eqb k o t)
  | None => remove spec_eqb k t
  end.

(** * NetworkResourceService._devices *)
Record dev := { d_ip : option Z; d_dev : bool; d_env : option Z; d_stale : bool }.
Definition devs := list (Z * dev).

Fixpoint dget (o : Z) (m : devs) : option dev :=
  match m with [] => None | (k, d) :: r => if k =? o then Some d else dget o r end.
Fixpoint dset (o : Z) (d : dev) (m : devs) : devs :=
  match m with
  | [] => [(o, d)]
  | (k, d') :: r => if k =? o then (k, d) :: r else (k, d') :: dset o d r
  end.
Definition ddel (o : Z) (m : devs) : devs := filter (fun e => negb (fst e =? o)) m.

(** * Whole node state *)
Record state := {
  s_vips  : @table Z;       (* <svc>/vips *)
  s_rules : @table Z;       (* <root>/rules; key = rule file name (identifier) *)
  s_specs : @table spec;    (* <root>/endpoints *)
  s_res   : list Z;         (* existing entries of <svc>/resources   (owners of vips) *)
  s_apps  : list Z;         (* existing entries of <root>/apps       (owners of rules and endpoint specs) *)
  s_devs  : devs;           (* NetworkResourceService._devices *)
  s_veth  : list Z          (* recording netdev fake: aliases of the veth pairs on the bridge *)
}.

Definition empty_state : state :=
  {| s_vips := []; s_rules := []; s_specs := []; s_res := []; s_apps := []; s_devs := []; s_veth := [] |}.

Definition set_vips (s : state) (t : @table Z) : state :=
  {| s_vips := t; s_rules := s_rules s; s_specs := s_specs s; s_res := s_res s; s_apps := s_apps s;
     s_devs := s_devs s; s_veth := s_veth s |}.
Definition set_rules (s : state) (t : @table Z) : state :=
  {| s_vips := s_vips s; s_rules := t; s_specs := s_specs s; s_res := s_res s; s_apps := s_apps s;
     s_devs := s_devs s; s_veth := s_veth s |}.
Definition set_specs (s : state) (t : @table spec) : state :=
  {| s_vips := s_vips s; s_rules := s_rules s; s_specs := t; s_res := s_res s; s_apps := s_apps s;
     s_devs := s_devs s; s_veth := s_veth s |}.
Definition set_res (s : state) (l : list Z) : state :=
  {| s_vips := s_vips s; s_rules := s_rules s; s_specs := s_specs s; s_res := l; s_apps := s_apps s;
     s_devs := s_devs s; s_veth := s_veth s |}.
Definition set_apps (s : state) (l : list Z) : state :=
  {| s_vips := s_vips s; s_rules := s_rules s; s_specs := s_specs s; s_res := s_res s; s_apps := l;
     s_devs := s_devs s; s_veth := s_veth s |}.
Definition set_devs (s : state) (m : devs) : state :=
  {| s_vips := s_vips s; s_rules := s_rules s; s_specs := s_specs s; s_res := s_res s; s_apps := s_apps s;
     s_devs := m; s_veth := s_veth s |}.
Definition set_veth (s : state) (l : list Z) : state :=
  {| s_vips := s_vips s; s_rules := s_rules s; s_specs := s_specs s; s_res := s_res s; s_apps := s_apps s;
     s_devs := s_devs s; s_veth := l |}.

(** on_delete_request: delete the veth pair, pop the device, free its address as the resource owner *)
Definition svc_delete (o : Z) (s : state) : state :=
  let s1 := set_veth s (del_z o (s_veth s)) in
  match dget o (s_devs s) with
  | None => s1
  | Some d =>
      let s2 := set_devs s1 (ddel o (s_devs s)) in
      match d_ip d with
      | None => s2
      | Some a => set_vips s2 (snd (release Z.eqb a o (s_vips s)))
      end
  end.

(** on_create_request *)
Definition svc_create (c : cidr) (o env : Z) (s : state) : state * res :=
  let finish (a : Z) (had_dev : bool) (s0 : state) :=
    let s1 := if had_dev then s0 else set_veth s0 (add_z o (s_veth s0)) in
    (set_devs s1 (dset o {| d_ip := Some a; d_dev := true; d_env := Some env; d_stale := false |} (s_devs s1)),
     RAddr a) in
  match dget o (s_devs s) with
  | None =>
      match vip_alloc c o None (s_vips s) with
      | (RAddr a, t') => finish a false (set_vips s t')
      | (r, _) => (s, r)
      end
  | Some d =>
      match d_ip d with
      | None => (s, RKey)                        (* self._devices[name]['ip'] -> KeyError *)
      | Some a => finish a (d_dev d) s
      end
  end.

(** synchronize: delete every stale device, then (ip-set bookkeeping elided) VipMgr.garbage_collect *)
Definition svc_sync (s : state) : state * res :=
  let stale := map fst (filter (fun e => d_stale (snd e)) (s_devs s)) in
  let s1 := fold_left (fun st o => svc_delete o st) stale s in
  if forallb (fun e => is_some (d_env (snd e)) && is_some (d_ip (snd e))) (s_devs s1)
  then (set_vips s1 (gc (s_res s1) (s_vips s1)), ROk)
  else (s1, RKey).                              (* device['environment'] / device['ip'] -> KeyError *)

(** a new service instance + initialize(): devices on the bridge, then the addresses listed in vips/, all stale *)
Definition svc_restart (s : state) : state :=
  let d0 := fold_left (fun m o => dset o {| d_ip := None; d_dev := true; d_env := None; d_stale := true |} m)
                      (s_veth s) [] in
  let d1 := fold_left (fun m (e : Z * Z) =>
                         let (a, o) := e in
                         match dget o m with
                         | Some d => dset o {| d_ip := Some a; d_dev := d_dev d; d_env := d_env d; d_stale := true |} m
                         | None => dset o {| d_ip := Some a; d_dev := false; d_env := None; d_stale := true |} m
                         end) (s_vips s) d0 in
  set_devs s d1.

(** * Operations *)
Inductive op :=
| ResUp (o : Z) | ResDown (o : Z)                 (* <svc>/resources/<o> appears / disappears *)
| AppUp (o : Z) | AppDown (o : Z)                 (* <root>/apps/<o> appears / disappears *)
| VethDown (o : Z)                                (* the veth pair of <o> disappears (host reboot, manual deletion) *)
| VipAlloc (o : Z) (picked : option Z)
| VipFree (o a : Z)
| VipGc
| RuleCreate (k o : Z)
| RuleUnlink (k o : Z)
| RuleGc
| SpecCreate (k : spec) (o : Z)
| SpecUnlink (k : spec) (o : option Z)
| SpecUnlinkAll (app : Z) (proto ep : option Z) (o : option Z)
| SpecGc
| SvcCreate (o env : Z)
| SvcDelete (o : Z)
| SvcSync
| SvcRestart.

Definition step (c : cidr) (o : op) (s : state) : state * res :=
  match o with
  | ResUp x => (set_res s (add_z x (s_res s)), ROk)
  | ResDown x => (set_res s (del_z x (s_res s)), ROk)
  | AppUp x => (set_apps s (add_z x (s_apps s)), ROk)
  | AppDown x => (set_apps s (del_z x (s_apps s)), ROk)
  | VethDown x => (set_veth s (del_z x (s_veth s)), ROk)
  | VipAlloc x p => let (r, t) := vip_alloc c x p (s_vips s) in (set_vips s t, r)
  | VipFree x a => (set_vips s (snd (release Z.eqb a x (s_vips s))), ROk)
  | VipGc => (set_vips s (gc (s_res s) (s_vips s)), ROk)
  | RuleCreate k x =>
      match create_tolerant Z.eqb k x x (s_rules s) with
      | Some t => (set_rules s t, ROk)
      | None => (s, RExists)
      end
  | RuleUnlink k x => (set_rules s (snd (release Z.eqb k x (s_rules s))), ROk)
  | RuleGc => (set_rules s (gc (s_apps s) (s_rules s)), ROk)
  | SpecCreate k x =>
      (* the source compares the existing owner with [appname], not with [owner] *)
      match create_tolerant spec_eqb k x (sp_app k) (s_specs s) with
      | Some t => (set_specs s t, ROk)
      | None => (s, RExists)
      end
  | SpecUnlink k x => (set_specs s (unlink_spec k x (s_specs s)), ROk)
  | SpecUnlinkAll a p e x => (set_specs s (unlink_all a p e x (s_specs s)), ROk)
  | SpecGc => (set_specs s (gc (s_apps s) (s_specs s)), ROk)
  | SvcCreate x env => svc_create c x env s
  | SvcDelete x => (svc_delete x s, ROk)
  | SvcSync => svc_sync s
  | SvcRestart => (svc_restart s, ROk)
  end.

Fixpoint run (c : cidr) (ops : list op) (s : state) : state :=
  match ops with
  | [] => s
  | o :: r => run c r (fst (step c o s))
  end.

(** * A collection during which an owner appears

    "Owners appear at arbitrary points": also in the middle of a garbage collection.  [X..GcWith] is a
    collection pass during which, after the collector has read the directory it walks, owner [o]'s
    directory is created and [o] registers an entry (through its own manager instance, as a container
    start in another process does).  The code under test looks at each listed entry's owner *when it visits
    the entry* (os.stat through the link), and the newcomer's entry is not in the listing it walks.  Hence the
    pass has the effect of the sequence "owner appears; owner registers; collect" - which is the definition
    below ([lin]); the correspondence check drives the real garbage_collect with os.listdir wrapped and
    compares.  An implementation that judges liveness from an earlier snapshot does not have this effect. *)
Inductive xop :=
| XBase (p : op)
| XVipGcWith (o : Z) (picked : option Z)
| XRuleGcWith (k o : Z)
| XSpecGcWith (k : spec) (o : Z).

Definition lin (x : xop) : list op :=
  match x with
  | XBase p => [p]
  | XVipGcWith o p => [ResUp o; VipAlloc o p; VipGc]
  | XRuleGcWith k o => [AppUp o; RuleCreate k o; RuleGc]
  | XSpecGcWith k o => [AppUp o; SpecCreate k o; SpecGc]
  end.

Definition xstep (c : cidr) (x : xop) (s : state) : state * res :=
  match x with
  | XBase p => step c p s
  | _ => (run c (lin x) s, ROk)          (* the newcomer's own outcome is not the collector's *)
  end.

Fixpoint xrun (c : cidr) (xs : list xop) (s : state) : state :=
  match xs with
  | [] => s
  | x :: r => xrun c r (fst (xstep c x s))
  end.

(** * Flattening for the correspondence check *)
Definition res_z (r : res) : list Z :=
  match r with
  | ROk => [0] | RAddr a => [0; a] | RExists => [1] | RValue => [2] | RNoFree => [3] | RKey => [4]
  end.

Fixpoint lex_leb (a b : list Z) : bool :=
  match a, b with
  | [], _ => true
  | _ :: _, [] => false
  | x :: a', y :: b' => if x <? y then true else if y <? x then false else lex_leb a' b'
  end.
Fixpoint insert_row (x : list Z) (l : list (list Z)) : list (list Z) :=
  match l with
  | [] => [x]
  | y :: t => if lex_leb x y then x :: l else y :: insert_row x t
  end.
Definition sort_rows (l : list (list Z)) : list (list Z) := fold_right insert_row [] l.
Definition dump_rows (rows : list (list Z)) : list Z := Z.of_nat (length rows) :: concat (sort_rows rows).

Definition zo (o : option Z) : Z := match o with Some z => z | None => -1 end.
Definition dump_ztable (t : @table Z) : list Z := dump_rows (map (fun e => [fst e; snd e]) t).
Definition dump_specs (t : @table spec) : list Z :=
  dump_rows (map (fun e => let k := fst e in
                           [sp_app k; sp_proto k; sp_ep k; sp_rport k; sp_pid k; sp_port k; snd e]) t).
Definition dump_devs (m : devs) : list Z :=
  dump_rows (map (fun e => let d := snd e in
                           [fst e; zo (d_ip d); if d_dev d then 1 else 0; zo (d_env d); if d_stale d then 1 else 0]) m).

(** after each operation: its result and the directory (directories) it works on *)
Definition dump_after (o : op) (s : state) : list Z :=
  match o with
  | ResUp _ | ResDown _ | AppUp _ | AppDown _ | VethDown _ => []
  | VipAlloc _ _ | VipFree _ _ | VipGc => dump_ztable (s_vips s)
  | RuleCreate _ _ | RuleUnlink _ _ | RuleGc => dump_ztable (s_rules s)
  | SpecCreate _ _ | SpecUnlink _ _ | SpecUnlinkAll _ _ _ _ | SpecGc => dump_specs (s_specs s)
  | SvcCreate _ _ | SvcDelete _ | SvcSync | SvcRestart => dump_ztable (s_vips s) ++ dump_devs (s_devs s)
  end.

Definition dump_all (s : state) : list Z :=
  dump_ztable (s_vips s) ++ dump_ztable (s_rules s) ++ dump_specs (s_specs s) ++ dump_devs (s_devs s)
  ++ dump_rows (map (fun x => [x]) (s_veth s)).

Definition xdump_after (x : xop) (s : state) : list Z :=
  match x with
  | XBase p => dump_after p s
  | XVipGcWith _ _ => dump_ztable (s_vips s)
  | XRuleGcWith _ _ => dump_ztable (s_rules s)
  | XSpecGcWith _ _ => dump_specs (s_specs s)
  end.

Fixpoint run_obs (c : cidr) (xs : list xop) (s : state) : list Z :=
  match xs with
  | [] => dump_all s
  | x :: r => let (s', rr) := xstep c x s in res_z rr ++ xdump_after x s' ++ run_obs c r s'
  end.

Definition run_case (inp : cidr * list xop) : list Z := run_obs (fst inp) (snd inp) empty_state.

(** * Vocabulary of the property statements (decidable predicates; no proofs here) *)
Definition keys {K} (t : @table K) : list K := map fst t.

Definition dev_holds (m : devs) (o a : Z) : bool :=
  match dget o m with
  | Some d => match d_ip d with Some b => b =? a | None => false end
  | None => false
  end.
Definition dev_stale (m : devs) (o : Z) : bool :=
  match dget o m with Some d => d_stale d | None => false end.

(** which operations may make the entry [k -> o] disappear: only [o]'s own release (directly, or its
    deleted / never replayed service request) and a collection while [o] does not exist *)
Definition may_remove_vip (s : state) (p : op) (k o : Z) : bool :=
  match p with
  | VipFree x a => (x =? o) && (a =? k)
  | VipGc => negb (mem_z o (s_res s))
  | SvcDelete x => (x =? o) && dev_holds (s_devs s) o k
  | SvcSync => (dev_stale (s_devs s) o && dev_holds (s_devs s) o k) || negb (mem_z o (s_res s))
  | _ => false
  end.
Definition may_remove_rule (s : state) (p : op) (k o : Z) : bool :=
  match p with
  | RuleUnlink k' x => (x =? o) && (k' =? k)
  | RuleGc => negb (mem_z o (s_apps s))
  | _ => false
  end.
Definition may_remove_spec (s : state) (p : op) (k : spec) (o : Z) : bool :=
  match p with
  | SpecUnlink k' x => spec_eqb k' k && opt_matches x o          (* x = None: the ownerless administrative call *)
  | SpecUnlinkAll a pr e x => spec_matches a pr e k && opt_matches x o
  | SpecGc => negb (mem_z o (s_apps s))
  | _ => false
  end.

(** which operation may create an entry, and for whom *)
Definition creates_for (p : op) : option Z :=
  match p with
  | VipAlloc x _ | RuleCreate _ x | SpecCreate _ x | SvcCreate x _ => Some x
  | _ => None
  end.

(** schedules of the network service as services/_base_service.py produces them: no collection while a
    device's resource directory is missing, no direct free of a device's address behind the service *)
Definition guard (s : state) (p : op) : bool :=
  match p with
  | VipGc => forallb (fun e => negb (is_some (d_ip (snd e))) || mem_z (fst e) (s_res s)) (s_devs s)
  | SvcSync => forallb (fun e => d_stale (snd e) || mem_z (fst e) (s_res s)) (s_devs s)
  | VipFree x a => negb (dev_holds (s_devs s) x a)
  | _ => true
  end.
Fixpoint guarded (c : cidr) (ops : list op) (s : state) : bool :=
  match ops with
  | [] => true
  | p :: r => guard s p && guarded c r (fst (step c p s))
  end.

(** picked addresses that are the network or the broadcast address *)
Definition picks_host (c : cidr) (p : op) : bool :=
  match p with VipAlloc _ (Some a) => is_host c a | _ => true end.

(** operations that leave the device entry of [o] in place *)
Definition keeps_dev (o : Z) (p : op) : bool :=
  match p with
  | SvcDelete x => negb (x =? o)
  | SvcSync | SvcRestart => false
  | _ => true
  end.
