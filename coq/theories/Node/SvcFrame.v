(** Executable model of the resource-service FRAMEWORK that drives the network service of Node/Owners.v:

      treadmill.services._base_service        ResourceServiceClient.put / delete / get (wait, timeout 0)
                                              ResourceService.clt_new_request / clt_del_request /
                                              _check_requests / _on_created / _on_deleted
      treadmill.services._linux_base_service  LinuxResourceService._run (start-up sequence and one loop iteration),
                                              clt_update_request = _update_request

    The service directory <svc>/resources holds one symbolic link per request, <svc>/resources/<n> ->
    <apps>/<n>/rsrc/req-<service>-<n> (the request directory of the container: request.yml, reply.yml, svc_req_id).
    One table entry per request name describes both sides ([ent]).  Names are integers; a negative name stands for
    a dot name (temporary files: '.tmp<id>...').

    The framework's calls to the implementation are [Owners.op]s: SvcRestart (a new implementation object +
    initialize), SvcCreate n env (on_create_request), SvcDelete n (on_delete_request), SvcSync (synchronize).  The
    facts the implementation reads from the file system - does <svc>/resources/<n> resolve - are the ResUp / ResDown
    operations of Owners.v; they are emitted whenever a step of this model changes that fact ([res_delta]).

    Inputs that are not computed: the order in which glob.glob lists the directory ([FBoot order]).
    Not modelled: registration failing with OSError, request.yml that is not YAML, a link whose target is a plain
    file (ENOTDIR), steps of other processes in the middle of the start-up sequence.
    No proofs in this file. *)
From Coq Require Import ZArith List Bool.
From TM Require Import Node.Owners.
Import ListNotations.
Open Scope Z_scope.

Inductive rtag := RepOk (a : Z) | RepErr.           (* reply.yml: the implementation's answer | {'_error': ...} *)

Record ent := {
  e_link  : bool;           (* <svc>/resources/<n> exists (lstat) *)
  e_dir   : bool;           (* the request directory exists: the link, if any, resolves *)
  e_req   : option Z;       (* request.yml: Some env (env < 0: a payload the schema rejects) *)
  e_uid   : bool;           (* svc_req_id *)
  e_reply : option rtag     (* reply.yml *)
}.
Definition absent : ent := {| e_link := false; e_dir := false; e_req := None; e_uid := false; e_reply := None |}.
Definition ftable := list (Z * ent).

Fixpoint fget (n : Z) (t : ftable) : ent :=
  match t with [] => absent | (k, e) :: r => if k =? n then e else fget n r end.
Fixpoint fset (n : Z) (e : ent) (t : ftable) : ftable :=
  match t with
  | [] => [(n, e)]
  | (k, e') :: r => if k =? n then (k, e) :: r else (k, e') :: fset n e r
  end.

Definition set_link (b : bool) (e : ent) : ent :=
  {| e_link := b; e_dir := e_dir e; e_req := e_req e; e_uid := e_uid e; e_reply := e_reply e |}.
Definition set_reply (r : option rtag) (e : ent) : ent :=
  {| e_link := e_link e; e_dir := e_dir e; e_req := e_req e; e_uid := e_uid e; e_reply := r |}.
Definition set_req (r : option Z) (e : ent) : ent :=
  {| e_link := e_link e; e_dir := e_dir e; e_req := r; e_uid := e_uid e; e_reply := e_reply e |}.

Definition is_dot (n : Z) : bool := n <? 0.                       (* req_id[0] == '.' *)
Definition live (e : ent) : bool := e_link e && e_dir e.          (* os.stat(<svc>/resources/<n>) succeeds *)
(** what _on_created hands to the implementation: the link resolves, request.yml is there and passes the schema *)
Definition req_env (e : ent) : option Z :=
  if live e then match e_req e with Some env => if env <? 0 then None else Some env | None => None end else None.
Definition replayable (e : ent) : bool := is_some (req_env e).

(** the file-system fact Owners.v calls s_res, kept up to date *)
Definition res_delta (n : Z) (before after : ent) : list op :=
  if live after && negb (live before) then [ResUp n]
  else if live before && negb (live after) then [ResDown n] else [].

(** * Server side *)
Inductive fpath := PDir | PName (n : Z).           (* an event's path: the resources directory itself | an entry *)

(** ResourceService._on_created(impl, <rsrc_dir>/n) in implementation state [s].
    Result: the table, the operations (in order), the names whose link the framework itself removed (inotify
    reports these deletions later, see [deliver]). *)
Definition on_created (c : cidr) (n : Z) (t : ftable) (s : state) : ftable * list op * list Z :=
  if is_dot n then (t, [], [])                                        (* temporary files *)
  else
    let e := fget n t in
    if negb (e_link e) then (t, [], [])                               (* ENOENT; fs.rm_safe(filepath) finds nothing *)
    else
      match (if e_dir e then e_req e else None) with
      | None =>
          (* io.open(request.yml) -> ENOENT: 'Removing invalid request', fs.rm_safe(filepath), no reply, no call *)
          let e' := set_link false e in
          (fset n e' t, res_delta n e e', [n])
      | Some env =>
          if env <? 0
          then (fset n (set_reply (Some RepErr) e) t, [], [])         (* utils.validate -> InvalidInputError -> _error *)
          else
            let r := snd (step c (SvcCreate n env) s) in              (* impl.on_create_request; an exception -> _error *)
            (fset n (set_reply (Some (match r with RAddr a => RepOk a | _ => RepErr end)) e) t,
             [SvcCreate n env], [])
      end.

Definition on_created_path (c : cidr) (p : fpath) (t : ftable) (s : state) : ftable * list op * list Z :=
  match p with
  | PDir => (t, [], [])                                               (* filepath == self._rsrc_dir *)
  | PName n => on_created c n t s
  end.

(** ResourceService._on_deleted *)
Definition on_deleted (n : Z) : list op := if is_dot n then [] else [SvcDelete n].

(** glob.glob of the pattern <rsrc_dir>/STAR: the entries of the directory whose name does not start with a dot, in the order [order] *)
Definition glob (order : list Z) (t : ftable) : list Z :=
  filter (fun n => negb (is_dot n) && e_link (fget n t)) order.

(** ResourceService._check_requests over a glob result: (svcs, table, removed stale links) *)
Fixpoint check_requests (l : list Z) (t : ftable) : list Z * ftable * list Z :=
  match l with
  | [] => ([], t, [])
  | n :: r =>
      let e := fget n t in
      if e_dir e
      then let '(svcs, t', rm) := check_requests r t in (n :: svcs, t', rm)
      else let '(svcs, t', rm) := check_requests r (fset n (set_link false e) t) in (svcs, t', n :: rm)
  end.

(** for existing_svcs in svcs: self._on_created(impl, existing_svcs) *)
Fixpoint replay (c : cidr) (l : list Z) (t : ftable) (s : state) : ftable * list op * list Z :=
  match l with
  | [] => (t, [], [])
  | n :: r =>
      let '(t1, o1, d1) := on_created c n t s in
      let '(t2, o2, d2) := replay c r t1 (run c o1 s) in
      (t2, o1 ++ o2, d1 ++ d2)
  end.

(** LinuxResourceService._run up to and including impl.synchronize():
    impl.initialize; the watcher; _check_requests; the faked created events; impl.synchronize.
    Result: table, operations, the deletions inotify has queued meanwhile. *)
Definition startup (c : cidr) (order : list Z) (t : ftable) (s : state) : ftable * list op * list Z :=
  let '(svcs, t0, rm0) := check_requests (glob order t) t in
  let '(t1, o1, d1) := replay c svcs t0 (run c [SvcRestart] s) in
  (t1, SvcRestart :: o1 ++ [SvcSync], rm0 ++ d1).

(** the seeded change as a definition: no replay between initialize and synchronize *)
Definition startup_noreplay (c : cidr) (order : list Z) (t : ftable) (s : state) : ftable * list op * list Z :=
  let '(svcs, t0, rm0) := check_requests (glob order t) t in
  (t0, [SvcRestart; SvcSync], rm0).

(** the loop handles the queued deletion events *)
Definition deliver (dels : list Z) : list op := flat_map on_deleted dels.

(** * Client side (ResourceServiceClient) *)
Inductive cevent := CNone | CCreated | CDeleted.

(** put(n, {'environment': env}) *)
Definition client_put (n env : Z) (e : ent) : ent * cevent :=
  (* fs.mkdir_safe(req_dir) (a new directory is empty); request.yml written *)
  let e0 := if e_dir e then e
            else {| e_link := e_link e; e_dir := true; e_req := None; e_uid := false; e_reply := None |} in
  let e1 := set_req (Some env) e0 in
  if e_uid e1
  then
    (* clt_update_request -> _update_request: rm_safe(<link>/reply.yml), lchown(<link>); ENOENT ignored in both *)
    if e_link e1 then (set_reply None e1, CCreated) else (e1, CNone)
  else
    (* clt_new_request: symlink + rename over <rsrc_dir>/<n>; svc_req_id written *)
    ({| e_link := true; e_dir := true; e_req := e_req e1; e_uid := true; e_reply := e_reply e1 |}, CCreated).

(** delete(n): no svc_req_id -> warning, nothing; else clt_del_request (rm_safe link) and the directory is renamed away *)
Definition client_delete (e : ent) : ent * cevent :=
  if e_uid e then (absent, if e_link e then CDeleted else CNone) else (e, CNone).

(** get(n) = wait(n, timeout=0): None when reply.yml is not there, the reply, or ResourceServiceRequestError *)
Definition client_get (e : ent) : option rtag := if e_dir e then e_reply e else None.

(** the container directory disappears without a delete *)
Definition client_gone (e : ent) : ent :=
  {| e_link := e_link e; e_dir := false; e_req := None; e_uid := false; e_reply := None |}.

(** * Histories *)
Inductive fop :=
| FBoot (order : list Z)      (* a service process starts: _run until the loop is idle *)
| FStop                       (* the service process ends *)
| FPut (n env : Z)
| FDelete (n : Z)
| FGone (n : Z)
| FGet (n : Z)
| FRmReq (n : Z)              (* request.yml disappears (foreign interference) *)
| FTouch (p : fpath).         (* an attribute change of the directory itself / of an entry / a dot file comes and goes *)

Record fstate := { f_tbl : ftable; f_own : state; f_up : bool }.
Definition fstate0 : fstate := {| f_tbl := []; f_own := empty_state; f_up := false |}.

(** one step: the new table, the operations in order, whether the service is up afterwards *)
Definition fstep_raw (c : cidr) (f : fop) (st : fstate) : ftable * list op * bool :=
  let t := f_tbl st in
  let s := f_own st in
  let up := f_up st in
  match f with
  | FBoot order =>
      let '(t1, ops, dels) := startup c order t s in (t1, ops ++ deliver dels, true)
  | FStop => (t, [], false)
  | FPut n env =>
      let e := fget n t in
      let (e', ev) := client_put n env e in
      let t1 := fset n e' t in
      let o1 := res_delta n e e' in
      match ev with
      | CCreated =>
          if up then let '(t2, o2, d2) := on_created c n t1 (run c o1 s) in (t2, o1 ++ o2 ++ deliver d2, up)
          else (t1, o1, up)
      | _ => (t1, o1, up)
      end
  | FDelete n =>
      let e := fget n t in
      let (e', ev) := client_delete e in
      (fset n e' t, res_delta n e e' ++ (match ev with CDeleted => if up then on_deleted n else [] | _ => [] end), up)
  | FGone n =>
      let e := fget n t in
      let e1 := client_gone e in
      if up
      then (* the loop's _check_requests removes the dangling link; the deletion event follows *)
        let e2 := set_link false e1 in
        (fset n e2 t, res_delta n e e2 ++ (if e_link e then on_deleted n else []), up)
      else (fset n e1 t, res_delta n e e1, up)
  | FGet _ => (t, [], up)
  | FRmReq n =>
      let e := fget n t in
      (if e_dir e then fset n (set_req None e) t else t, [], up)
  | FTouch p =>
      if up then let '(t2, o2, d2) := on_created_path c p t s in (t2, o2 ++ deliver d2, up)
      else (t, [], up)
  end.

Definition fstep (c : cidr) (f : fop) (st : fstate) : fstate * list op :=
  let '(t, ops, up) := fstep_raw c f st in
  ({| f_tbl := t; f_own := run c ops (f_own st); f_up := up |}, ops).

Fixpoint frame_run (c : cidr) (fs : list fop) (st : fstate) : fstate * list op :=
  match fs with
  | [] => (st, [])
  | f :: r =>
      let (st1, o1) := fstep c f st in
      let (st2, o2) := frame_run c r st1 in
      (st2, o1 ++ o2)
  end.

Definition frame_ops (c : cidr) (fs : list fop) : list op := snd (frame_run c fs fstate0).

(** * Vocabulary of the statements *)
Definition is_create (p : op) : bool := match p with SvcCreate _ _ => true | _ => false end.
Definition create_of (p : op) : option (Z * Z) := match p with SvcCreate n env => Some (n, env) | _ => None end.
Fixpoint creates (ops : list op) : list (Z * Z) :=
  match ops with
  | [] => []
  | p :: r => match create_of p with Some x => x :: creates r | None => creates r end
  end.
(** the requests the start-up has to hand over, in directory order *)
Definition to_replay (order : list Z) (t : ftable) : list (Z * Z) :=
  flat_map (fun n => match req_env (fget n t) with Some env => [(n, env)] | None => [] end) (glob order t).
(** [order] lists the directory: no name twice *)
Fixpoint nodup_z (l : list Z) : bool :=
  match l with [] => true | x :: r => negb (mem_z x r) && nodup_z r end.
(** ... and every entry of the directory *)
Definition lists_dir (order : list Z) (t : ftable) : bool :=
  forallb (fun e => negb (e_link (snd e)) || mem_z (fst e) order) t.
(** operations that never need a guard *)
Definition quiet (p : op) : bool :=
  match p with SvcSync | VipGc | VipFree _ _ => false | _ => true end.
(** the resources Owners.v believes to exist cover the links that resolve *)
Definition res_covers (t : ftable) (s : state) : bool :=
  forallb (fun e => negb (live (snd e)) || mem_z (fst e) (s_res s)) t.
