(** Proofs about Node/Fs.v and Node/Cache.v. *)
From Coq Require Import ZArith List Bool String Ascii Lia.
From TM Require Import Node.Fs Node.Cache.
Import ListNotations.
Open Scope Z_scope.

(** * Directories *)
Lemma seqb_refl n : String.eqb n n = true.
Proof. apply String.eqb_refl. Qed.

Lemma lookup_set_same d n v : lookup (set d n v) n = Some v.
Proof.
  induction d as [|[k w] r IH]; cbn.
  - now rewrite seqb_refl.
  - destruct (String.eqb k n) eqn:E; cbn; rewrite E; auto.
Qed.

Lemma lookup_set_other d n v m : m <> n -> lookup (set d n v) m = lookup d m.
Proof.
  intros Hne. induction d as [|[k w] r IH]; cbn.
  - destruct (String.eqb n m) eqn:E; auto. apply String.eqb_eq in E. congruence.
  - destruct (String.eqb k n) eqn:E; cbn.
    + apply String.eqb_eq in E. subst k.
      destruct (String.eqb n m) eqn:E2; auto. apply String.eqb_eq in E2. congruence.
    + destruct (String.eqb k m); auto.
Qed.

Lemma lookup_remove_same d n : lookup (remove d n) n = None.
Proof.
  induction d as [|[k w] r IH]; cbn; auto.
  destruct (String.eqb k n) eqn:E; cbn; auto. now rewrite E.
Qed.

Lemma lookup_remove_other d n m : m <> n -> lookup (remove d n) m = lookup d m.
Proof.
  intros Hne. induction d as [|[k w] r IH]; cbn; auto.
  destruct (String.eqb k n) eqn:E; cbn.
  - apply String.eqb_eq in E. subst k.
    destruct (String.eqb n m) eqn:E2; auto. apply String.eqb_eq in E2. congruence.
  - destruct (String.eqb k m); auto.
Qed.

Lemma in_names_lookup d n : In n (names d) <-> lookup d n <> None.
Proof.
  unfold names. induction d as [|[k w] r IH]; cbn.
  - split; [tauto | congruence].
  - destruct (String.eqb k n) eqn:E.
    + apply String.eqb_eq in E. split; [congruence | auto].
    + apply String.eqb_neq in E. rewrite IH. split; [intros [H|H]; [congruence | auto] | auto].
Qed.

Lemma mem_In n l : mem n l = true <-> In n l.
Proof.
  induction l as [|x r IH]; cbn.
  - split; [discriminate | tauto].
  - rewrite orb_true_iff, IH, String.eqb_eq. tauto.
Qed.

Lemma mem_false n l : mem n l = false <-> ~ In n l.
Proof. rewrite <- mem_In. destruct (mem n l); split; congruence. Qed.

Lemma dedup_In n l : In n (dedup l) <-> In n l.
Proof.
  induction l as [|x r IH]; cbn; [tauto|].
  destruct (mem x r) eqn:E.
  - rewrite IH. apply mem_In in E. split; [auto | intros [H|H]; [subst; auto | auto]].
  - cbn. rewrite IH. tauto.
Qed.

Lemma dedup_NoDup l : NoDup (dedup l).
Proof.
  induction l as [|x r IH]; cbn; [constructor|].
  destruct (mem x r) eqn:E; auto.
  constructor; auto. rewrite dedup_In. now apply mem_false.
Qed.

Lemma arrange_In ord l n : In n (arrange ord l) <-> In n l.
Proof.
  unfold arrange. rewrite in_app_iff, !filter_In, dedup_In, mem_In, negb_true_iff, mem_false.
  split.
  - tauto.
  - intros H. destruct (mem n ord) eqn:E.
    + left. split; auto. now apply mem_In.
    + right. split; auto. now apply mem_false.
Qed.

Lemma NoDup_filter {A} (f : A -> bool) l : NoDup l -> NoDup (filter f l).
Proof.
  induction 1 as [|x l Hx Hl IH]; cbn; [constructor|].
  destruct (f x); auto. constructor; auto. rewrite filter_In. tauto.
Qed.

Lemma NoDup_app_disj {A} (l1 l2 : list A) :
  NoDup l1 -> NoDup l2 -> (forall x, In x l1 -> ~ In x l2) -> NoDup (l1 ++ l2).
Proof.
  intros H1 H2. induction H1 as [|x l1 Hx Hl IH]; cbn; intros Hd; auto.
  constructor.
  - rewrite in_app_iff. intros [H|H]; [auto | apply (Hd x); cbn; auto].
  - apply IH. intros y Hy. apply Hd. cbn; auto.
Qed.

Lemma arrange_NoDup ord l : NoDup l -> NoDup (arrange ord l).
Proof.
  intros Hl. unfold arrange. apply NoDup_app_disj.
  - apply NoDup_filter, dedup_NoDup.
  - now apply NoDup_filter.
  - intros x HA HB. rewrite filter_In in HA, HB.
    destruct HA as [HA _]. destruct HB as [_ HB]. rewrite dedup_In in HA.
    apply negb_true_iff in HB. apply mem_false in HB. exact (HB HA).
Qed.

(** * Name patterns *)
Lemma glob_not_dot n : glob_star n = true -> dot_prefixed n = false.
Proof. destruct n as [|c r]; cbn; [discriminate|]. now rewrite negb_true_iff. Qed.

Lemma dot_not_glob n : dot_prefixed n = true -> glob_star n = false.
Proof. destruct n as [|c r]; cbn; [discriminate|]. intros ->. reflexivity. Qed.

Lemma dot_prefixed_app a b : dot_prefixed a = true -> dot_prefixed (a ++ b)%string = true.
Proof. destruct a as [|c r]; cbn; [discriminate | auto]. Qed.

Lemma tmp_name_dot cf a s : dot_prefixed (c_pre cf) = true -> dot_prefixed (tmp_name cf a s) = true.
Proof. intros H. unfold tmp_name. now apply dot_prefixed_app. Qed.

(** temporary names are invisible to glob '*' and ignored by the app configuration manager *)
Lemma tmp_name_hidden cf a s :
  dot_prefixed (c_pre cf) = true ->
  glob_star (tmp_name cf a s) = false /\ appcfg_ignores (tmp_name cf a s) = true.
Proof.
  intros H. apply (tmp_name_dot cf a s) in H. split; [now apply dot_not_glob | exact H].
Qed.

Lemma tmp_ne_visible cf a s n :
  dot_prefixed (c_pre cf) = true -> glob_star n = true -> tmp_name cf a s <> n.
Proof.
  intros H Hn E. apply (tmp_name_dot cf a s) in H. rewrite E in H.
  apply glob_not_dot in Hn. congruence.
Qed.

(** * write_safe: every prefix of its system calls *)
Section WriteSafe.
  Variables (d : dir) (tmp n : name) (c : content) (w : wspec).
  Hypothesis Hfresh : lookup d tmp = None.
  Hypothesis Hne : tmp <> n.

  Let ops := write_safe_ops tmp n c w.
  Let new := File c (w_now w).

  (** the state after each number of system calls, as a closed form *)
  Definition ws_state (k : nat) : dir :=
    match k with
    | O => d
    | 1%nat => set d tmp (File [] (w_now w))
    | 2%nat => set (set d tmp (File [] (w_now w))) tmp (File ([] ++ firstn (w_pre w) c) (w_now w))
    | 3%nat => set (set d tmp (File [] (w_now w))) tmp (File ([] ++ firstn (w_pre w) c) (w_now w))
    | 4%nat => set (set (set d tmp (File [] (w_now w))) tmp (File ([] ++ firstn (w_pre w) c) (w_now w)))
                   tmp (File (([] ++ firstn (w_pre w) c) ++ skipn (w_pre w) c) (w_now w))
    | 5%nat => set (remove (set (set (set d tmp (File [] (w_now w))) tmp
                   (File ([] ++ firstn (w_pre w) c) (w_now w)))
                   tmp (File (([] ++ firstn (w_pre w) c) ++ skipn (w_pre w) c) (w_now w))) tmp)
                   n (File (([] ++ firstn (w_pre w) c) ++ skipn (w_pre w) c) (w_now w))
    | _ => remove (set (remove (set (set (set d tmp (File [] (w_now w))) tmp
                   (File ([] ++ firstn (w_pre w) c) (w_now w)))
                   tmp (File (([] ++ firstn (w_pre w) c) ++ skipn (w_pre w) c) (w_now w))) tmp)
                   n (File (([] ++ firstn (w_pre w) c) ++ skipn (w_pre w) c) (w_now w))) tmp
    end.

  Lemma ws_run_prefix k : run_ops (firstn k ops) d = (ws_state k, true).
  Proof.
    unfold ops, write_safe_ops.
    destruct k as [|[|[|[|[|[|k]]]]]]; cbn [firstn run_ops apply_op ws_state];
      rewrite ?Hfresh, ?lookup_set_same; try reflexivity.
    all: rewrite ?firstn_nil; cbn [run_ops]; reflexivity.
  Qed.

  Lemma ws_run_all : run_ops ops d = (ws_state 6, true).
  Proof. rewrite <- (ws_run_prefix 6). reflexivity. Qed.

  Lemma full_content : ([] ++ firstn (w_pre w) c) ++ skipn (w_pre w) c = c.
  Proof. cbn. apply firstn_skipn. Qed.

  (** names other than the target and the temporary file never change *)
  Lemma ws_other k x : x <> n -> x <> tmp -> lookup (ws_state k) x = lookup d x.
  Proof.
    intros H1 H2.
    destruct k as [|[|[|[|[|[|k]]]]]]; cbn [ws_state];
      repeat (first [ rewrite lookup_set_other by auto | rewrite lookup_remove_other by auto ]); reflexivity.
  Qed.

  (** the target is the old entry before the rename and the complete new file after it *)
  Lemma ws_target k :
    (k <= 4)%nat /\ lookup (ws_state k) n = lookup d n \/
    (5 <= k)%nat /\ lookup (ws_state k) n = Some new.
  Proof.
    assert (Hn : n <> tmp) by congruence.
    destruct k as [|[|[|[|[|[|k]]]]]]; cbn [ws_state].
    1-5: left; split; [lia|];
      repeat (first [ rewrite lookup_set_other by auto | rewrite lookup_remove_other by auto ]); reflexivity.
    all: right; split; [lia|]; rewrite ?lookup_remove_other by auto; rewrite lookup_set_same;
      unfold new; now rewrite full_content.
  Qed.

  (** the temporary file: absent before creation and after the rename; in between it holds a prefix *)
  Lemma ws_tmp k :
    match lookup (ws_state k) tmp with
    | None => (k = 0 \/ 5 <= k)%nat
    | Some (File c' _) => (1 <= k <= 4)%nat /\ exists j, c' = firstn j c
    | Some (Link _) => False
    end.
  Proof.
    destruct k as [|[|[|[|[|[|k]]]]]]; cbn [ws_state].
    - rewrite Hfresh. lia.
    - rewrite lookup_set_same. split; [lia|]. exists 0%nat. reflexivity.
    - rewrite lookup_set_same. split; [lia|]. exists (w_pre w). reflexivity.
    - rewrite lookup_set_same. split; [lia|]. exists (w_pre w). reflexivity.
    - rewrite lookup_set_same. split; [lia|]. exists (List.length c). rewrite full_content.
      now rewrite firstn_all.
    - rewrite lookup_set_other by auto. rewrite lookup_remove_same. lia.
    - rewrite lookup_remove_same. lia.
  Qed.
End WriteSafe.

(** * write_safe with its exception handling *)
Definition is_new (o : option node) (c : content) : Prop := exists t, o = Some (File c t).

Lemma write_safe_spec cf d n c w d' o :
  dot_prefixed (c_pre cf) = true -> glob_star n = true ->
  lookup d (tmp_name cf n (w_sfx w)) = None ->
  write_safe cf d n c w = (d', o) ->
  let tmp := tmp_name cf n (w_sfx w) in
  (forall x, x <> n -> x <> tmp -> lookup d' x = lookup d x) /\
  (lookup d' n = lookup d n \/ lookup d' n = Some (File c (w_now w))) /\
  (o <> Killed -> lookup d' tmp = None) /\
  (o = Done -> lookup d' n = Some (File c (w_now w))) /\
  (w_fault w = None -> o = Done) /\
  (o = Killed -> match lookup d' tmp with
                 | None => True
                 | Some (File c' _) => exists j, c' = firstn j c
                 | Some (Link _) => False
                 end).
Proof.
  intros Hdot Hvis Hfresh Hrun tmp.
  assert (Hne : tmp <> n) by (apply tmp_ne_visible; auto).
  unfold write_safe in Hrun. fold tmp in Hrun.
  destruct (w_fault w) as [[k kill]|] eqn:Hf.
  - unfold crash_at in Hrun. rewrite (ws_run_prefix d tmp n c w Hfresh) in Hrun. cbn [fst] in Hrun.
    remember (Nat.leb 1 k) as lb eqn:Elb.
    assert (Ht := ws_target d tmp n c w Hne k).
    assert (Ho := fun x => ws_other d tmp n c w k x).
    assert (Hm := ws_tmp d tmp n c w Hfresh Hne k).
    destruct kill; inversion Hrun; subst d' o; clear Hrun.
    + repeat split; try congruence.
      * intros x H1 H2. now apply Ho.
      * destruct Ht as [[_ H]|[_ H]]; auto.
      * intros _. destruct (lookup (ws_state d tmp n c w k) tmp) as [[c' t|l]|]; auto. tauto.
    + assert (Hrm : forall x, x <> tmp ->
                lookup (if lb then remove (ws_state d tmp n c w k) tmp else ws_state d tmp n c w k) x
                = lookup (ws_state d tmp n c w k) x).
      { intros x Hx. destruct lb; auto. now apply lookup_remove_other. }
      repeat split; try congruence.
      * intros x H1 H2. rewrite Hrm by auto. now apply Ho.
      * rewrite Hrm by congruence. destruct Ht as [[_ H]|[_ H]]; auto.
      * intros _. destruct lb.
        -- apply lookup_remove_same.
        -- symmetry in Elb. apply Nat.leb_gt in Elb. assert (k = 0)%nat by lia. subst k. cbn. exact Hfresh.
  - rewrite (ws_run_all d tmp n c w Hfresh) in Hrun. inversion Hrun; subst d' o; clear Hrun.
    assert (Ht := ws_target d tmp n c w Hne 6).
    assert (Hm := ws_tmp d tmp n c w Hfresh Hne 6).
    destruct Ht as [[Hk _]|[_ Ht]]; [lia|].
    repeat split; try congruence; auto.
    + intros x H1 H2. exact (ws_other d tmp n c w 6 x H1 H2).
    + intros _. change (lookup (ws_state d tmp n c w 6) tmp = None).
      destruct (lookup (ws_state d tmp n c w 6) tmp) as [[c' t|l]|]; auto; [lia | tauto].
Qed.

(** * _cache of one instance *)
Definition new_content (z : zkst) (a : name) : option content :=
  match alookup (z_place z) a, alookup (z_sched z) a, after_hash a with
  | Some p, Some m, Some t => Some (dump (merged m t p))
  | _, _, _ => None
  end.

(** [written z orc a o]: entry [o] is the complete file _cache writes for instance [a] *)
Definition written (z : zkst) (orc : name -> wspec) (a : name) (o : option node) : Prop :=
  exists c, new_content z a = Some c /\ o = Some (File c (w_now (orc a))).

Lemma cache_one_spec cf z orc d a check d' o :
  dot_prefixed (c_pre cf) = true -> glob_star a = true ->
  lookup d (tmp_name cf a (w_sfx (orc a))) = None ->
  cache_one cf z d a check (orc a) = (d', o) ->
  let tmp := tmp_name cf a (w_sfx (orc a)) in
  (forall x, x <> a -> x <> tmp -> lookup d' x = lookup d x) /\
  (lookup d' a = lookup d a \/ written z orc a (lookup d' a)) /\
  (o <> Killed -> lookup d' tmp = None) /\
  (o = Done -> alookup (z_place z) a <> None -> alookup (z_sched z) a <> None -> lookup d' a <> None) /\
  (o = Done -> forall p, alookup (z_place z) a = Some p -> alookup (z_sched z) a <> None ->
               check && uptodate d a p = false -> written z orc a (lookup d' a)) /\
  (w_fault (orc a) = None -> after_hash a <> None -> o = Done).
Proof.
  intros Hdot Hvis Hfresh Hrun tmp. unfold cache_one in Hrun.
  assert (Hsame : forall dd, dd = d -> (forall x, x <> a -> x <> tmp -> lookup dd x = lookup d x) /\
                                     (lookup dd a = lookup d a \/ written z orc a (lookup dd a)) /\
                                     lookup dd tmp = None).
  { intros dd ->. repeat split; auto. }
  destruct (alookup (z_place z) a) as [p|] eqn:Hp.
  2:{ inversion Hrun; subst d' o; clear Hrun. destruct (Hsame d eq_refl) as (H1 & H2 & H3).
      repeat split; auto; try congruence. }
  destruct (check && uptodate d a p) eqn:Hup.
  { inversion Hrun; subst d' o; clear Hrun. destruct (Hsame d eq_refl) as (H1 & H2 & H3).
    repeat split; auto; try congruence.
    intros _ _ _. apply andb_true_iff in Hup as [_ Hup]. unfold uptodate in Hup.
    destruct (lookup d a); congruence. }
  destruct (alookup (z_sched z) a) as [m|] eqn:Hm.
  2:{ inversion Hrun; subst d' o; clear Hrun. destruct (Hsame d eq_refl) as (H1 & H2 & H3).
      repeat split; auto; try congruence. }
  destruct (after_hash a) as [t|] eqn:Ht.
  2:{ inversion Hrun; subst d' o; clear Hrun. destruct (Hsame d eq_refl) as (H1 & H2 & H3).
      repeat split; auto; try congruence. }
  destruct (write_safe_spec cf d a _ (orc a) d' o Hdot Hvis Hfresh Hrun) as (W1 & W2 & W3 & W4 & W5 & W6).
  assert (Hnc : new_content z a = Some (dump (merged m t p))).
  { unfold new_content. now rewrite Hp, Hm, Ht. }
  repeat split; auto.
  - destruct W2 as [W2|W2]; [now left | right]. eexists; split; [exact Hnc | exact W2].
  - intros Ho _ _. rewrite (W4 Ho). congruence.
  - intros Ho p' Hp' _ _. eexists; split; [exact Hnc | exact (W4 Ho)].
Qed.

(** * cache_all: a sequence of _cache calls *)
Definition fresh_for (cf : cfg) (orc : name -> wspec) (d : dir) (l : list name) : Prop :=
  forall a, In a l -> lookup d (tmp_name cf a (w_sfx (orc a))) = None.

Lemma cache_all_spec cf z orc check : dot_prefixed (c_pre cf) = true ->
  forall l d d' o,
  (forall a, In a l -> glob_star a = true) ->
  fresh_for cf orc d l ->
  cache_all cf z check orc l d = (d', o) ->
  (* names outside l: unchanged, except (after a kill) the temporary file of one member *)
  (forall x, ~ In x l -> (forall a, In a l -> x <> tmp_name cf a (w_sfx (orc a))) -> lookup d' x = lookup d x) /\
  (o <> Killed -> forall x, ~ In x l -> lookup d' x = lookup d x) /\
  (* members: old entry or the complete new file *)
  (forall a, In a l -> lookup d' a = lookup d a \/ written z orc a (lookup d' a)) /\
  (o = Done -> forall a, In a l -> alookup (z_place z) a <> None -> alookup (z_sched z) a <> None ->
               lookup d' a <> None) /\
  (o = Done -> forall a p, In a l -> alookup (z_place z) a = Some p -> alookup (z_sched z) a <> None ->
               check && uptodate d a p = false -> written z orc a (lookup d' a)) /\
  ((forall a, In a l -> w_fault (orc a) = None /\ after_hash a <> None) -> o = Done).
Proof.
  intros Hdot. induction l as [|a l IH]; intros d d' o Hvis Hfresh Hrun.
  - cbn in Hrun. inversion Hrun; subst. repeat split; auto; try (intros; cbn in *; tauto).
  - cbn [cache_all] in Hrun.
    destruct (cache_one cf z d a check (orc a)) as [d1 o1] eqn:H1.
    assert (Hva : glob_star a = true) by (apply Hvis; cbn; auto).
    assert (Hfa : lookup d (tmp_name cf a (w_sfx (orc a))) = None) by (apply Hfresh; cbn; auto).
    destruct (cache_one_spec cf z orc d a check d1 o1 Hdot Hva Hfa H1) as (C1 & C2 & C3 & C4 & C5 & C6).
    set (tmp := tmp_name cf a (w_sfx (orc a))) in *.
    assert (Htmp_ne : forall x, glob_star x = true -> x <> tmp).
    { intros x Hx E. symmetry in E. revert E. now apply tmp_ne_visible. }
    destruct o1.
    + (* Done: continue *)
      assert (Hall : forall x, x <> a -> lookup d1 x = lookup d x).
      { intros x Hx. destruct (string_dec x tmp) as [->|Hxt]; [|now apply C1].
        rewrite C3 by congruence. now rewrite Hfa. }
      assert (Hfresh1 : fresh_for cf orc d1 l).
      { intros b Hb. rewrite Hall; [apply Hfresh; cbn; auto|].
        apply tmp_ne_visible; auto. }
      destruct (IH d1 d' o (fun b Hb => Hvis b (or_intror Hb)) Hfresh1 Hrun)
        as (I1 & I2 & I3 & I4 & I5 & I6).
      assert (Hmember_a : lookup d' a = lookup d a \/ written z orc a (lookup d' a)).
      { destruct (in_dec string_dec a l) as [Hin|Hnin].
        - destruct (I3 a Hin) as [E|E]; [rewrite E; exact C2 | now right].
        - rewrite (I1 a Hnin); [exact C2|]. intros b Hb. apply not_eq_sym. apply tmp_ne_visible; auto. }
      repeat split.
      * intros x Hx Ht.
        assert (Hxa : x <> a) by (intros ->; apply Hx; left; reflexivity).
        assert (Hxl : ~ In x l) by (intros H; apply Hx; right; exact H).
        rewrite I1; [now apply Hall | exact Hxl | intros b Hb; apply Ht; cbn; auto].
      * intros Ho x Hx.
        assert (Hxa : x <> a) by (intros ->; apply Hx; left; reflexivity).
        assert (Hxl : ~ In x l) by (intros H; apply Hx; right; exact H).
        rewrite I2; [now apply Hall | exact Ho | exact Hxl].
      * intros b [->|Hb]; [exact Hmember_a|].
        destruct (I3 b Hb) as [E|E]; [|now right].
        destruct (string_dec b a) as [->|Hba]; [exact Hmember_a|]. left. rewrite E. now apply Hall.
      * intros Ho b [->|Hb] Hp Hs.
        -- destruct Hmember_a as [E|[c [_ E]]]; [|rewrite E; congruence].
           destruct (in_dec string_dec b l) as [Hin|Hnin]; [now apply (I4 Ho b Hin)|].
           rewrite (I1 b Hnin); [now apply C4|].
           intros b' Hb'. apply not_eq_sym. apply tmp_ne_visible; auto.
        -- now apply (I4 Ho b Hb).
      * intros Ho b p [->|Hb] Hp Hs Hup.
        -- assert (Wd1 : written z orc b (lookup d1 b)) by (apply (C5 eq_refl p); auto; congruence).
           destruct (in_dec string_dec b l) as [Hin|Hnin].
           ++ destruct (I3 b Hin) as [E|E]; [now rewrite E | exact E].
           ++ rewrite (I1 b Hnin); [exact Wd1|].
              intros b' Hb'. apply not_eq_sym. apply tmp_ne_visible; auto.
        -- destruct (string_dec b a) as [->|Hba].
           ++ assert (Wd1 : written z orc a (lookup d1 a)) by (apply (C5 eq_refl p); auto; congruence).
              destruct (I3 a Hb) as [E|E]; [now rewrite E | exact E].
           ++ apply (I5 Ho b p Hb Hp Hs). unfold uptodate in *. now rewrite (Hall b Hba).
      * intros Hok. apply I6. intros b Hb. apply Hok. cbn; auto.
    + (* Raised: stop *)
      inversion Hrun; subst d' o; clear Hrun.
      assert (Hall : forall x, x <> a -> lookup d1 x = lookup d x).
      { intros x Hx. destruct (string_dec x tmp) as [->|Hxt]; [|now apply C1].
        rewrite C3 by congruence. now rewrite Hfa. }
      repeat split; try congruence.
      * intros x Hx _. apply Hall. intros ->; apply Hx; left; reflexivity.
      * intros _ x Hx. apply Hall. intros ->; apply Hx; left; reflexivity.
      * intros b [->|Hb]; [exact C2|]. destruct (string_dec b a) as [->|Hba]; [exact C2|].
        left. now apply Hall.
      * intros Hok. destruct (Hok a (or_introl eq_refl)) as [Hf Hh]. specialize (C6 Hf Hh). congruence.
    + (* Killed: stop *)
      inversion Hrun; subst d' o; clear Hrun.
      repeat split; try congruence.
      * intros x Hx Ht. apply C1; [intros ->; apply Hx; left; reflexivity|]. apply Ht. cbn; auto.
      * intros b [->|Hb]; [exact C2|]. destruct (string_dec b a) as [->|Hba]; [exact C2|].
        left. apply C1; auto. apply Htmp_ne. apply Hvis. cbn; auto.
      * intros Hok. destruct (Hok a (or_introl eq_refl)) as [Hf Hh]. specialize (C6 Hf Hh). congruence.
Qed.

(** skipped instances keep their entry: placement or manifest node missing, or the file is up to date *)
Definition skips (z : zkst) (check : bool) (d : dir) (a : name) : Prop :=
  alookup (z_place z) a = None \/ alookup (z_sched z) a = None \/
  exists p, alookup (z_place z) a = Some p /\ check && uptodate d a p = true.

Lemma cache_one_skip cf z d a check w : skips z check d a -> cache_one cf z d a check w = (d, Done).
Proof.
  unfold cache_one. intros [H|[H|[p [Hp Hu]]]].
  - now rewrite H.
  - destruct (alookup (z_place z) a) as [p|]; auto. destruct (check && uptodate d a p); auto. now rewrite H.
  - now rewrite Hp, Hu.
Qed.

Lemma cache_all_skip cf z orc check : dot_prefixed (c_pre cf) = true ->
  forall l d d' o,
  (forall a, In a l -> glob_star a = true) ->
  fresh_for cf orc d l ->
  cache_all cf z check orc l d = (d', o) ->
  forall a, glob_star a = true -> skips z check d a -> lookup d' a = lookup d a.
Proof.
  intros Hdot. induction l as [|b l IH]; intros d d' o Hvis Hfresh Hrun a Hva Hskip.
  - cbn in Hrun. now inversion Hrun.
  - cbn [cache_all] in Hrun.
    destruct (string_dec b a) as [->|Hba].
    + rewrite (cache_one_skip cf z d a check (orc a) Hskip) in Hrun.
      apply (IH d d' o); auto.
      * intros x Hx. apply Hvis. cbn; auto.
      * intros x Hx. apply Hfresh. cbn; auto.
    + destruct (cache_one cf z d b check (orc b)) as [d1 o1] eqn:H1.
      assert (Hvb : glob_star b = true) by (apply Hvis; cbn; auto).
      assert (Hfb : lookup d (tmp_name cf b (w_sfx (orc b))) = None) by (apply Hfresh; cbn; auto).
      destruct (cache_one_spec cf z orc d b check d1 o1 Hdot Hvb Hfb H1) as (C1 & C2 & C3 & C4 & C5 & C6).
      assert (Hd1a : lookup d1 a = lookup d a).
      { apply C1; [congruence|]. apply not_eq_sym. apply tmp_ne_visible; auto. }
      assert (Hskip1 : skips z check d1 a).
      { destruct Hskip as [H|[H|[p [Hp Hu]]]]; [left; auto | right; left; auto|].
        right; right. exists p. split; auto. unfold uptodate in *. now rewrite Hd1a. }
      destruct o1.
      * rewrite <- Hd1a. apply (IH d1 d' o); auto.
        -- intros x Hx. apply Hvis. cbn; auto.
        -- intros x Hx.
           assert (Hvx : glob_star x = true) by (apply Hvis; cbn; auto).
           destruct (string_dec (tmp_name cf x (w_sfx (orc x))) (tmp_name cf b (w_sfx (orc b)))) as [E|E].
           ++ rewrite E. apply C3. congruence.
           ++ rewrite C1; [apply Hfresh; cbn; auto | apply tmp_ne_visible; auto | exact E].
      * inversion Hrun; subst. exact Hd1a.
      * inversion Hrun; subst. exact Hd1a.
Qed.

(** * unlinking the extra entries *)
Lemma unlink_all_spec l : forall d d1 o,
  unlink_all l d = (d1, o) ->
  (forall x, ~ In x l -> lookup d1 x = lookup d x) /\
  (forall x, lookup d1 x = lookup d x \/ In x l /\ lookup d1 x = None) /\
  (o = Done -> forall x, In x l -> lookup d1 x = None) /\
  o <> Killed /\
  (NoDup l -> (forall x, In x l -> lookup d x <> None) -> o = Done).
Proof.
  induction l as [|a l IH]; intros d d1 o Hrun.
  - cbn in Hrun. inversion Hrun; subst. repeat split; auto; try congruence; intros; cbn in *; tauto.
  - cbn [unlink_all apply_op] in Hrun.
    destruct (lookup d a) as [v|] eqn:Ha.
    + destruct (IH _ _ _ Hrun) as (I1 & I2 & I3 & I4 & I5).
      repeat split; auto.
      * intros x Hx. rewrite I1 by (intros H; apply Hx; right; exact H).
        apply lookup_remove_other. intros ->; apply Hx; left; reflexivity.
      * intros x. destruct (I2 x) as [E|[Hin E]]; [|right; split; [right; auto | auto]].
        destruct (string_dec x a) as [->|Hxa].
        -- right. split; [left; auto|]. rewrite E. apply lookup_remove_same.
        -- left. rewrite E. now apply lookup_remove_other.
      * intros Ho x [->|Hx]; [|now apply I3].
        destruct (I2 x) as [E|[_ E]]; auto. rewrite E. apply lookup_remove_same.
      * intros Hnd Hall. inversion Hnd as [|? ? Hna Hnd']; subst. apply I5; auto.
        intros x Hx. rewrite lookup_remove_other; [apply Hall; right; auto|].
        intros ->. contradiction.
    + inversion Hrun; subst. repeat split; auto; try congruence.
      intros _ Hall. exfalso. apply (Hall a); [left; auto | exact Ha].
Qed.

(** * _synchronize *)
Lemma in_visible d x : In x (visible d) <-> glob_star x = true /\ lookup d x <> None.
Proof. unfold visible. rewrite filter_In, in_names_lookup. tauto. Qed.

Lemma in_extra d E x : In x (extra_of d E) <-> In x (visible d) /\ ~ In x E.
Proof. unfold extra_of. rewrite filter_In, dedup_In, negb_true_iff, mem_false. tauto. Qed.
Lemma in_missing d E x : In x (missing_of d E) <-> In x E /\ ~ In x (visible d).
Proof. unfold missing_of. rewrite filter_In, dedup_In, negb_true_iff, mem_false. tauto. Qed.
Lemma in_existing d E x : In x (existing_of d E) <-> In x (visible d) /\ In x E.
Proof. unfold existing_of. rewrite filter_In, dedup_In, mem_In. tauto. Qed.

(** what one synchronisation may do to an entry that glob '*' can see *)
Definition evolves (z : zkst) (orc : name -> wspec) (E : list name) (d d' : dir) : Prop :=
  forall x, glob_star x = true ->
    lookup d' x = lookup d x \/
    (lookup d' x = None /\ ~ In x E) \/
    (In x E /\ written z orc x (lookup d' x)).

Lemma evolves_refl z orc E d : evolves z orc E d d.
Proof. intros x _. now left. Qed.

Lemma evolves_trans z orc E d1 d2 d3 : evolves z orc E d1 d2 -> evolves z orc E d2 d3 -> evolves z orc E d1 d3.
Proof.
  intros H12 H23 x Hx. destruct (H23 x Hx) as [H|[H|H]]; [|right; left; exact H | right; right; exact H].
  rewrite H. now apply H12.
Qed.

(** hidden names (dot files, among them [.ready]): untouched, except temporary files of members *)
Definition hidden_same (cf : cfg) (orc : name -> wspec) (E : list name) (d d' : dir) : Prop :=
  forall x, glob_star x = false -> (forall a, In a E -> x <> tmp_name cf a (w_sfx (orc a))) ->
            lookup d' x = lookup d x.

Section Sync.
  Variables (cf : cfg) (z : zkst) (orc : name -> wspec) (E : list name) (check : bool) (ord : list name).
  Hypothesis Hdot : dot_prefixed (c_pre cf) = true.
  Hypothesis Hexp : forall a, In a E -> glob_star a = true.

  Lemma phase_cache (chk : bool) l d d' o :
    (forall a, In a l -> In a E) -> fresh_for cf orc d l ->
    cache_all cf z chk orc l d = (d', o) ->
    evolves z orc E d d' /\ hidden_same cf orc E d d' /\
    (o <> Killed -> forall x, glob_star x = false -> lookup d' x = lookup d x).
  Proof.
    intros Hsub Hfresh Hrun.
    destruct (cache_all_spec cf z orc chk Hdot l d d' o (fun a Ha => Hexp a (Hsub a Ha)) Hfresh Hrun)
      as (S1 & S2 & S3 & _).
    assert (Hnotin : forall x, glob_star x = false -> ~ In x l).
    { intros x Hx Hin. rewrite (Hexp x (Hsub x Hin)) in Hx. discriminate. }
    repeat split.
    - intros x Hx. destruct (in_dec string_dec x l) as [Hin|Hnin].
      + destruct (S3 x Hin) as [H|H]; [now left | right; right; split; auto].
      + left. apply S1; auto. intros a Ha. apply not_eq_sym. apply tmp_ne_visible; auto.
    - intros x Hx Ht. apply S1; auto.
    - intros Ho x Hx. apply S2; auto.
  Qed.

  Variable d : dir.
  Hypothesis Hfresh : fresh_for cf orc d E.

  Let extra := arrange ord (extra_of d E).
  Let missing := arrange ord (missing_of d E).
  Let existing := arrange ord (existing_of d E).

  Lemma extra_visible x : In x extra -> glob_star x = true /\ lookup d x <> None /\ ~ In x E.
  Proof. unfold extra. rewrite arrange_In, in_extra, in_visible. tauto. Qed.

  Lemma phase_unlink d1 o : unlink_all extra d = (d1, o) ->
    evolves z orc E d d1 /\ (forall x, glob_star x = false -> lookup d1 x = lookup d x) /\ o <> Killed /\
    (forall x, In x E -> lookup d1 x = lookup d x).
  Proof.
    intros Hrun. destruct (unlink_all_spec extra d d1 o Hrun) as (U1 & U2 & U3 & U4 & U5).
    repeat split; auto.
    - intros x Hx. destruct (U2 x) as [H|[Hin H]]; [now left|].
      right; left. split; auto. now apply extra_visible.
    - intros x Hx. apply U1. intros Hin. apply extra_visible in Hin. destruct Hin as [H _]. congruence.
    - intros x Hx. apply U1. intros Hin. apply extra_visible in Hin. tauto.
  Qed.

  (** every outcome, every fault: visible entries are old, removed extras, or complete new files *)
  Lemma sync_atomic d' o :
    synchronize cf z d E check ord orc = (d', o) ->
    evolves z orc E d d' /\ hidden_same cf orc E d d' /\
    (o <> Killed -> forall x, glob_star x = false -> lookup d' x = lookup d x).
  Proof.
    unfold synchronize. fold extra missing existing. intros Hrun.
    destruct (unlink_all extra d) as [d1 o1] eqn:H1.
    destruct (phase_unlink d1 o1 H1) as (P1 & P1h & P1k & P1e).
    assert (Hh1 : hidden_same cf orc E d d1) by (intros x Hx _; now apply P1h).
    destruct o1; [| inversion Hrun; subst; repeat split; auto | congruence].
    assert (Hf1 : forall l, (forall a, In a l -> In a E) -> fresh_for cf orc d1 l).
    { intros l Hl a Ha. rewrite P1h; [apply Hfresh; auto|]. apply dot_not_glob. now apply tmp_name_dot. }
    assert (Hmiss : forall a, In a missing -> In a E).
    { intros a. unfold missing. rewrite arrange_In, in_missing. tauto. }
    assert (Hexi : forall a, In a existing -> In a E).
    { intros a. unfold existing. rewrite arrange_In, in_existing. tauto. }
    destruct (cache_all cf z false orc missing d1) as [d2 o2] eqn:H2.
    destruct (phase_cache false missing d1 d2 o2 Hmiss (Hf1 _ Hmiss) H2) as (P2 & P2h & P2k).
    assert (E12 : evolves z orc E d d2) by (eapply evolves_trans; eauto).
    assert (Hh2 : hidden_same cf orc E d d2).
    { intros x Hx Ht. rewrite P2h; auto. }
    assert (Hk2 : o2 <> Killed -> forall x, glob_star x = false -> lookup d2 x = lookup d x).
    { intros Ho x Hx. rewrite P2k; auto. }
    destruct o2; [| inversion Hrun; subst; repeat split; auto | inversion Hrun; subst; repeat split; auto].
    destruct check; [| inversion Hrun; subst; repeat split; auto].
    assert (Hf2 : fresh_for cf orc d2 existing).
    { intros a Ha. rewrite Hk2; [apply Hfresh; auto | congruence |]. apply dot_not_glob. now apply tmp_name_dot. }
    destruct (phase_cache true existing d2 d' o Hexi Hf2 Hrun) as (P3 & P3h & P3k).
    repeat split.
    - eapply evolves_trans; eauto.
    - intros x Hx Ht. rewrite P3h; auto.
    - intros Ho x Hx. rewrite P3k by auto. apply Hk2; [congruence | exact Hx].
  Qed.

  (** a synchronisation that ran to completion *)
  Lemma sync_done d' :
    synchronize cf z d E check ord orc = (d', Done) ->
    (* names: nothing visible that is not placed *)
    (forall x, glob_star x = true -> lookup d' x <> None -> In x E) /\
    (* present: placement node and manifest exist => an entry exists *)
    (forall a, In a E -> alookup (z_place z) a <> None -> alookup (z_sched z) a <> None -> lookup d' a <> None) /\
    (* content: missing or outdated entries are (re)written with the merged manifest *)
    (forall a p, In a E -> alookup (z_place z) a = Some p -> alookup (z_sched z) a <> None ->
                 (lookup d a = None \/ (check = true /\ uptodate d a p = false)) ->
                 written z orc a (lookup d' a)) /\
    (* what is not rewritten keeps its entry *)
    (forall a, In a E -> lookup d a <> None -> check = false \/ skips z true d a -> lookup d' a = lookup d a) /\
    (forall a, In a E -> lookup d a = None -> skips z false d a -> lookup d' a = None).
  Proof.
    unfold synchronize. fold extra missing existing. intros Hrun.
    destruct (unlink_all extra d) as [d1 o1] eqn:H1.
    destruct (phase_unlink d1 o1 H1) as (P1 & P1h & P1k & P1e).
    destruct (unlink_all_spec extra d d1 o1 H1) as (U1 & U2 & U3 & U4 & U5).
    destruct o1; try discriminate.
    assert (Hf1 : forall l, (forall a, In a l -> In a E) -> fresh_for cf orc d1 l).
    { intros l Hl a Ha. rewrite P1h; [apply Hfresh; auto|]. apply dot_not_glob. now apply tmp_name_dot. }
    assert (Hmiss : forall a, In a missing <-> In a E /\ lookup d a = None).
    { intros a. unfold missing. rewrite arrange_In, in_missing, in_visible. split.
      - intros [Ha Hn]. split; auto. destruct (lookup d a) eqn:El; auto. exfalso. apply Hn. split; [auto|congruence].
      - intros [Ha Hn]. split; auto. intros [_ H]. congruence. }
    assert (Hexi : forall a, In a existing <-> In a E /\ lookup d a <> None).
    { intros a. unfold existing. rewrite arrange_In, in_existing, in_visible. split; [tauto|].
      intros [Ha Hn]. split; auto. }
    destruct (cache_all cf z false orc missing d1) as [d2 o2] eqn:H2.
    assert (HmE : forall a, In a missing -> In a E) by (intros a Ha; now apply Hmiss in Ha).
    assert (HeE : forall a, In a existing -> In a E) by (intros a Ha; now apply Hexi in Ha).
    destruct (cache_all_spec cf z orc false Hdot missing d1 d2 o2 (fun a Ha => Hexp a (HmE a Ha)) (Hf1 _ HmE) H2)
      as (A1 & A2 & A3 & A4 & A5 & A6).
    assert (Askip := cache_all_skip cf z orc false Hdot missing d1 d2 o2 (fun a Ha => Hexp a (HmE a Ha)) (Hf1 _ HmE) H2).
    destruct o2; try discriminate.
    (* the third phase, as a relation between d2 and d' *)
    assert (Hph3 : exists l3, (forall a, In a l3 -> In a existing) /\ (check = true -> forall a, In a existing -> In a l3) /\
                   (check = false -> l3 = []) /\ cache_all cf z true orc l3 d2 = (d', Done)).
    { destruct check.
      - exists existing. repeat split; auto. discriminate.
      - exists []. repeat split; auto; try discriminate. cbn; tauto. }
    destruct Hph3 as (l3 & L3a & L3b & L3c & H3).
    assert (Hl3E : forall a, In a l3 -> In a E) by (intros a Ha; auto).
    assert (Hf2 : fresh_for cf orc d2 l3).
    { intros a Ha. rewrite A2; [apply Hf1 with (l := l3); auto | congruence |].
      intros Hin. apply HmE in Hin. apply Hexp in Hin.
      rewrite (dot_not_glob _ (tmp_name_dot cf a (w_sfx (orc a)) Hdot)) in Hin. discriminate. }
    destruct (cache_all_spec cf z orc true Hdot l3 d2 d' Done (fun a Ha => Hexp a (Hl3E a Ha)) Hf2 H3)
      as (B1 & B2 & B3 & B4 & B5 & B6).
    assert (Bskip := cache_all_skip cf z orc true Hdot l3 d2 d' Done (fun a Ha => Hexp a (Hl3E a Ha)) Hf2 H3).
    assert (Hdisj : forall a, In a missing -> ~ In a l3).
    { intros a Hm Hl. apply L3a in Hl. apply Hmiss in Hm. apply Hexi in Hl. tauto. }
    assert (D2 : forall a, ~ In a missing -> lookup d2 a = lookup d1 a) by (intros a Ha; apply A2; [congruence|auto]).
    assert (D3 : forall a, ~ In a l3 -> lookup d' a = lookup d2 a) by (intros a Ha; apply B2; [congruence|auto]).
    repeat split.
    - (* names *)
      intros x Hx Hne. destruct (in_dec string_dec x E) as [|Hnin]; auto. exfalso.
      assert (Hn3 : ~ In x l3) by (intros H; apply Hnin; auto).
      assert (Hn2 : ~ In x missing) by (intros H; apply Hnin; auto).
      rewrite (D3 x Hn3), (D2 x Hn2) in Hne.
      destruct (lookup d x) eqn:El.
      + apply Hne. apply (U3 eq_refl). unfold extra. rewrite arrange_In, in_extra, in_visible.
        split; [split; [auto|congruence] | auto].
      + rewrite U1 in Hne; [congruence|]. intros Hin. apply extra_visible in Hin. tauto.
    - (* present *)
      intros a Ha Hp Hs. destruct (lookup d a) eqn:El.
      + assert (Hn2 : ~ In a missing) by (intros H; apply Hmiss in H; destruct H; congruence).
        assert (Hd2 : lookup d2 a <> None) by (rewrite (D2 a Hn2), (P1e a Ha); congruence).
        destruct (in_dec string_dec a l3) as [Hin|Hnin].
        * now apply (B4 eq_refl a Hin).
        * now rewrite (D3 a Hnin).
      + assert (Hm : In a missing) by (apply Hmiss; auto).
        rewrite (D3 a (Hdisj a Hm)). now apply (A4 eq_refl a Hm).
    - (* content *)
      intros a p Ha Hp Hs [Hnone | [Hc Hup]].
      + assert (Hm : In a missing) by (apply Hmiss; auto).
        rewrite (D3 a (Hdisj a Hm)). apply (A5 eq_refl a p Hm Hp Hs). reflexivity.
      + destruct (lookup d a) eqn:El.
        * assert (Hin : In a l3) by (apply (L3b Hc); apply Hexi; split; [auto|congruence]).
          assert (Hn2 : ~ In a missing) by (intros H; apply Hmiss in H; destruct H; congruence).
          apply (B5 eq_refl a p Hin Hp Hs). unfold uptodate in *.
          rewrite (D2 a Hn2), (P1e a Ha), El. rewrite El in Hup. now rewrite Hup.
        * assert (Hm : In a missing) by (apply Hmiss; auto).
          rewrite (D3 a (Hdisj a Hm)). apply (A5 eq_refl a p Hm Hp Hs). reflexivity.
    - (* kept *)
      intros a Ha Hne Hwhy.
      assert (Hn2 : ~ In a missing) by (intros H; apply Hmiss in H; destruct H; congruence).
      assert (Hd2 : lookup d2 a = lookup d a) by (rewrite (D2 a Hn2); apply (P1e a Ha)).
      destruct Hwhy as [Hc | Hsk].
      + rewrite D3; auto. rewrite (L3c Hc). cbn; tauto.
      + rewrite <- Hd2. apply Bskip; [now apply Hexp|].
        destruct Hsk as [H|[H|[p [Hp Hu]]]]; [left; auto | right; left; auto|].
        right; right. exists p. split; auto. unfold uptodate in *. now rewrite Hd2.
    - intros a Ha Hnone Hsk.
      assert (Hm : In a missing) by (apply Hmiss; auto).
      rewrite (D3 a (Hdisj a Hm)).
      assert (Hd1 : lookup d1 a = None) by (rewrite (P1e a Ha); auto).
      rewrite <- Hd1. apply Askip; [now apply Hexp|].
      destruct Hsk as [H|[H|[p [Hp Hu]]]]; [left; auto | right; left; auto|]. cbn in Hu. discriminate.
  Qed.

  (** without an injected fault, with instance names of the form <app>#<id>, the synchronisation completes *)
  Lemma sync_completes :
    (forall a, In a E -> w_fault (orc a) = None /\ after_hash a <> None) ->
    snd (synchronize cf z d E check ord orc) = Done.
  Proof.
    intros Hok. unfold synchronize. fold extra missing existing.
    destruct (unlink_all extra d) as [d1 o1] eqn:H1.
    destruct (phase_unlink d1 o1 H1) as (P1 & P1h & P1k & P1e).
    destruct (unlink_all_spec extra d d1 o1 H1) as (U1 & U2 & U3 & U4 & U5).
    assert (o1 = Done).
    { apply U5.
      - unfold extra. apply arrange_NoDup. unfold extra_of. apply NoDup_filter, dedup_NoDup.
      - intros x Hx. now apply extra_visible in Hx. }
    subst o1.
    assert (Hf1 : forall l, (forall a, In a l -> In a E) -> fresh_for cf orc d1 l).
    { intros l Hl a Ha. rewrite P1h; [apply Hfresh; auto|]. apply dot_not_glob. now apply tmp_name_dot. }
    assert (HmE : forall a, In a missing -> In a E).
    { intros a. unfold missing. rewrite arrange_In, in_missing. tauto. }
    assert (HeE : forall a, In a existing -> In a E).
    { intros a. unfold existing. rewrite arrange_In, in_existing. tauto. }
    destruct (cache_all cf z false orc missing d1) as [d2 o2] eqn:H2.
    destruct (cache_all_spec cf z orc false Hdot missing d1 d2 o2 (fun a Ha => Hexp a (HmE a Ha)) (Hf1 _ HmE) H2)
      as (A1 & A2 & A3 & A4 & A5 & A6).
    assert (o2 = Done) by (apply A6; intros a Ha; apply Hok; auto). subst o2.
    destruct check; [|reflexivity].
    destruct (cache_all cf z true orc existing d2) as [d3 o3] eqn:H3.
    assert (Hf2 : fresh_for cf orc d2 existing).
    { intros a Ha. rewrite A2; [apply Hf1 with (l := existing); auto | congruence |].
      intros Hin. apply HmE in Hin. apply Hexp in Hin.
      rewrite (dot_not_glob _ (tmp_name_dot cf a (w_sfx (orc a)) Hdot)) in Hin. discriminate. }
    destruct (cache_all_spec cf z orc true Hdot existing d2 d3 o3 (fun a Ha => Hexp a (HeE a Ha)) Hf2 H3)
      as (B1 & B2 & B3 & B4 & B5 & B6).
    cbn. apply B6. intros a Ha. apply Hok; auto.
  Qed.
End Sync.

(** * the merged manifest: placement data wins, then the task id, then the manifest *)
Lemma d_get_set_same m k v : d_get (d_set m k v) k = Some v.
Proof.
  induction m as [|[k' w] r IH]; cbn.
  - now rewrite Z.eqb_refl.
  - destruct (Z.eqb k' k) eqn:E; cbn; rewrite E; auto.
Qed.

Lemma d_get_set_other m k v k2 : k2 <> k -> d_get (d_set m k v) k2 = d_get m k2.
Proof.
  intros Hne. induction m as [|[k' w] r IH]; cbn.
  - destruct (Z.eqb k k2) eqn:E; auto. apply Z.eqb_eq in E. congruence.
  - destruct (Z.eqb k' k) eqn:E; cbn.
    + apply Z.eqb_eq in E. subst k'. destruct (Z.eqb k k2) eqn:E2; auto. apply Z.eqb_eq in E2. congruence.
    + destruct (Z.eqb k' k2); auto.
Qed.

Lemma d_get_update m other k :
  d_get (d_update m other) k =
  match d_get (rev other) k with Some v => Some v | None => d_get m k end.
Proof.
  revert m. induction other as [|[k' v] r IH]; intros m; cbn [d_update rev]; auto.
  rewrite IH. clear IH.
  assert (Happ : forall l, d_get (l ++ [(k', v)]) k =
                           match d_get l k with Some x => Some x | None => if Z.eqb k' k then Some v else None end).
  { induction l as [|[k2 v2] l IHl]; cbn; auto. destruct (Z.eqb k2 k); auto. }
  rewrite Happ. destruct (d_get (rev r) k); auto.
  destruct (Z.eqb k' k) eqn:E.
  - apply Z.eqb_eq in E. subst. apply d_get_set_same.
  - apply Z.eqb_neq in E. apply d_get_set_other. congruence.
Qed.

(** the last binding of a key in the placement payload (a JSON object has one binding per key) *)
Definition pl_get (p : placement) (k : Z) : option val :=
  match pl_data p with None => None | Some pd => d_get (rev pd) k end.

Lemma merged_get m t p k :
  d_get (merged m t p) k =
  match pl_get p k with
  | Some v => Some v
  | None => if Z.eqb k K_TASK then Some (VStr t) else d_get m k
  end.
Proof.
  unfold merged, pl_get.
  assert (H1 : d_get (d_set m K_TASK (VStr t)) k = if Z.eqb k K_TASK then Some (VStr t) else d_get m k).
  { destruct (Z.eqb k K_TASK) eqn:E.
    - apply Z.eqb_eq in E. subst. apply d_get_set_same.
    - apply Z.eqb_neq in E. now apply d_get_set_other. }
  destruct (pl_data p) as [pd|]; [rewrite d_get_update|]; rewrite H1; reflexivity.
Qed.

(** * _cache_notify touches only the ready file, which glob '*' never matches *)
Lemma cache_notify_other cf d b now x : x <> c_ready cf -> lookup (cache_notify cf d b now) x = lookup d x.
Proof.
  intros Hx. unfold cache_notify. destruct b.
  - destruct (lookup d (c_ready cf)) as [[c t|l]|]; now apply lookup_set_other.
  - now apply lookup_remove_other.
Qed.

Lemma cache_notify_ready cf d b now :
  (b = true -> exists t, lookup (cache_notify cf d b now) (c_ready cf) = Some (File [] t)) /\
  (b = false -> lookup (cache_notify cf d b now) (c_ready cf) = None).
Proof.
  unfold cache_notify. split; intros ->.
  - destruct (lookup d (c_ready cf)) as [[c t|l]|]; eexists; apply lookup_set_same.
  - apply lookup_remove_same.
Qed.

(** * Statements in the form used by Props/C12.v *)
Lemma written_explicit z orc a o :
  written z orc a o <->
  exists m p t, alookup (z_sched z) a = Some m /\ alookup (z_place z) a = Some p /\ after_hash a = Some t /\
                o = Some (File (dump (merged m t p)) (w_now (orc a))).
Proof.
  unfold written, new_content. split.
  - intros [c [Hc Ho]].
    destruct (alookup (z_place z) a) as [p|]; [|discriminate].
    destruct (alookup (z_sched z) a) as [m|]; [|discriminate].
    destruct (after_hash a) as [t|]; [|discriminate].
    inversion Hc; subst. exists m, p, t. auto.
  - intros (m & p & t & Hm & Hp & Ht & Ho). rewrite Hm, Hp, Ht. eexists; split; [reflexivity | exact Ho].
Qed.

Lemma write_safe_crash_atomic cf d n c w k :
  dot_prefixed (c_pre cf) = true -> glob_star n = true ->
  lookup d (tmp_name cf n (w_sfx w)) = None ->
  let tmp := tmp_name cf n (w_sfx w) in
  let ops := write_safe_ops tmp n c w in
  let d' := crash_at k ops d in
  snd (run_ops (firstn k ops) d) = true /\
  (lookup d' n = lookup d n \/ lookup d' n = Some (File c (w_now w))) /\
  (forall x, x <> n -> x <> tmp -> lookup d' x = lookup d x) /\
  (forall x, In x (visible d') -> x = n \/ In x (visible d)) /\
  (match lookup d' tmp with
   | None => True | Some (File c' _) => exists j, c' = firstn j c | Some (Link _) => False end) /\
  ((List.length ops <= k)%nat -> lookup d' n = Some (File c (w_now w)) /\ lookup d' tmp = None).
Proof.
  intros Hdot Hvis Hfresh tmp ops d'.
  assert (Hne : tmp <> n) by (apply tmp_ne_visible; auto).
  unfold d', crash_at, ops. rewrite (ws_run_prefix d tmp n c w Hfresh). cbn [fst snd].
  assert (Ht := ws_target d tmp n c w Hne k).
  assert (Ho := fun x => ws_other d tmp n c w k x).
  assert (Hm := ws_tmp d tmp n c w Hfresh Hne k).
  repeat split.
  - destruct Ht as [[_ H]|[_ H]]; auto.
  - intros x H1 H2. now apply Ho.
  - intros x Hx. apply in_visible in Hx. destruct Hx as [Hg Hl].
    destruct (string_dec x n) as [|Hxn]; [now left | right].
    apply in_visible. split; auto. rewrite <- Ho; auto.
    intros ->. unfold tmp in Hg. rewrite (dot_not_glob _ (tmp_name_dot cf n (w_sfx w) Hdot)) in Hg. discriminate.
  - destruct (lookup (ws_state d tmp n c w k) tmp) as [[c' t|l]|]; auto; tauto.
  - cbn in H. destruct Ht as [[Hk _]|[_ H']]; [lia | exact H'].
  - cbn in H. destruct (lookup (ws_state d tmp n c w k) tmp) as [[c' t|l]|]; auto; [lia | tauto].
Qed.

Lemma sync_names cf z orc E check ord d d' :
  dot_prefixed (c_pre cf) = true -> (forall a, In a E -> glob_star a = true) -> fresh_for cf orc d E ->
  synchronize cf z d E check ord orc = (d', Done) ->
  forall x, In x (visible d') -> In x E.
Proof.
  intros Hdot Hexp Hfresh Hrun x Hx. apply in_visible in Hx. destruct Hx as [Hg Hl].
  destruct (sync_done cf z orc E check ord Hdot Hexp d Hfresh d' Hrun) as (S1 & _). now apply S1.
Qed.
