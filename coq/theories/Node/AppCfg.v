(** Model of the app configuration manager's link bookkeeping:
      treadmill.appcfgmgr.AppCfgMgr._on_created/_on_deleted/_on_modified/_first_sync/
                                    _synchronize/_configure/_terminate
      treadmill.monitor.MonitorContainerCleanup.execute
      treadmill.cleanup.Cleanup.invoke
    on the directories  cache/  apps/  running/  cleanup/.

    Names: an instance is a number; a cache file has an identity [fid] (inode + ctime, what
    appcfg.gen_uniqueid hashes); a container is the pair (instance, fid) -- the model of
    appcfg.eventfile_unique_name / app_name (new cache file id => new container name,
    [app_name (i, f) = i]).  Cleanup links are named either after the instance ([LInst],
    used by _synchronize and the monitor) or after the container ([LCont], used by
    _terminate): the model follows the code as it is (after the repairs of _synchronize,
    _on_deleted and _on_created: container-wise resynchronisation, stale deleted events,
    finished containers).

    inotify is a FIFO queue of events, one per change of the cache directory, delivered by
    the [Deliver] op; everything else (eventmgr writing/removing cache files, readiness
    flips, containers exiting, the cleanup service finishing, manager restarts) is an op
    of the environment.  One handler call is atomic.

    Executable definitions only; proofs are in Node/AppCfgP.v. *)
From Coq Require Import ZArith List Bool.
Import ListNotations.
Open Scope Z_scope.

(** * Finite maps as association lists (update keeps position, new keys appended) *)
Section Map.
  Context {K V : Type} (eqb : K -> K -> bool).
  Fixpoint mget (m : list (K * V)) (k : K) : option V :=
    match m with [] => None | (k', v) :: r => if eqb k' k then Some v else mget r k end.
  Fixpoint mdel (m : list (K * V)) (k : K) : list (K * V) :=
    match m with [] => [] | (k', v) :: r => if eqb k' k then mdel r k else (k', v) :: mdel r k end.
  Fixpoint mset (m : list (K * V)) (k : K) (v : V) : list (K * V) :=
    match m with
    | [] => [(k, v)]
    | (k', w) :: r => if eqb k' k then (k', v) :: r else (k', w) :: mset r k v
    end.
End Map.

Notation inst := Z (only parsing).
Notation cont := (Z * Z)%type (only parsing).     (* (instance, cache file id) *)
Definition app_name (c : cont) : inst := fst c.  (* appcfg.app_name *)

Inductive lname := LInst (i : inst) | LCont (c : cont).

Definition cont_eqb (a b : cont) : bool := Z.eqb (fst a) (fst b) && Z.eqb (snd a) (snd b).
Definition lname_eqb (a b : lname) : bool :=
  match a, b with
  | LInst i, LInst j => Z.eqb i j
  | LCont c, LCont d => cont_eqb c d
  | _, _ => false
  end.

(** the files _synchronize looks for in <container>/data *)
Record flags := { f_exitinfo : bool; f_aborted : bool; f_oom : bool }.
Definition no_flags := {| f_exitinfo := false; f_aborted := false; f_oom := false |}.
Definition flagged (f : flags) : bool := f_exitinfo f || f_aborted f || f_oom f.
Inductive fkind := KExit | KAborted | KOom.
Definition set_flag (f : flags) (k : fkind) : flags :=
  match k with
  | KExit => {| f_exitinfo := true; f_aborted := f_aborted f; f_oom := f_oom f |}
  | KAborted => {| f_exitinfo := f_exitinfo f; f_aborted := true; f_oom := f_oom f |}
  | KOom => {| f_exitinfo := f_exitinfo f; f_aborted := f_aborted f; f_oom := true |}
  end.

Inductive event :=
| EvCreated (i : inst)     (* a cache file appeared / was replaced *)
| EvDeleted (i : inst)
| EvReadyUp                (* .ready created or re-opened *)
| EvReadyDown              (* .ready deleted *)
| EvDot (created : bool).  (* any other dot file (temporary files of write_safe) *)

Record st := {
  cache : list (inst * (Z * bool));    (* instance -> (file id, configure succeeds) *)
  apps : list (cont * flags);          (* container directories *)
  running : list (inst * cont);        (* running/<instance> -> apps/<container> *)
  cleanup : list (lname * cont);       (* cleanup/<name> -> apps/<container> *)
  active : bool;                       (* AppCfgMgr._is_active *)
  queue : list event;                  (* pending inotify events, oldest first *)
  finished : list cont                 (* history: containers that ever carried a flag *)
}.

Definition init : st :=
  {| cache := []; apps := []; running := []; cleanup := []; active := false; queue := []; finished := [] |}.

Definition cget := mget (V := Z * bool) Z.eqb.
Definition aget := mget (V := flags) cont_eqb.
Definition rget := mget (V := cont) Z.eqb.
Definition lget := mget (V := cont) lname_eqb.

Definition with_cache s v := {| cache := v; apps := apps s; running := running s; cleanup := cleanup s;
                                active := active s; queue := queue s; finished := finished s |}.
Definition with_apps s v := {| cache := cache s; apps := v; running := running s; cleanup := cleanup s;
                               active := active s; queue := queue s; finished := finished s |}.
Definition with_running s v := {| cache := cache s; apps := apps s; running := v; cleanup := cleanup s;
                                  active := active s; queue := queue s; finished := finished s |}.
Definition with_cleanup s v := {| cache := cache s; apps := apps s; running := running s; cleanup := v;
                                  active := active s; queue := queue s; finished := finished s |}.
Definition with_active s v := {| cache := cache s; apps := apps s; running := running s; cleanup := cleanup s;
                                 active := v; queue := queue s; finished := finished s |}.
Definition with_queue s v := {| cache := cache s; apps := apps s; running := running s; cleanup := cleanup s;
                                active := active s; queue := v; finished := finished s |}.
Definition with_finished s v := {| cache := cache s; apps := apps s; running := running s; cleanup := cleanup s;
                                   active := active s; queue := queue s; finished := v |}.
Definition enqueue s e := with_queue s (queue s ++ [e]).

(** AppCfgMgr._configure(instance): the stubbed app_cfg.configure creates apps/<unique name>
    (idempotent) or fails; on failure the event file is removed (-> a deleted event) *)
Definition configure (s : st) (i : inst) : st * bool :=
  match cget (cache s) i with
  | None => (s, false)                                      (* event file is gone *)
  | Some (f, true) =>
      let c := (i, f) in
      let s1 := match aget (apps s) c with Some _ => s | None => with_apps s (mset cont_eqb (apps s) c no_flags) end in
      (with_running s1 (mset Z.eqb (running s1) i c), true)  (* fs.symlink_safe: create or replace *)
  | Some (f, false) => (enqueue (with_cache s (mdel Z.eqb (cache s) i)) (EvDeleted i), false)
  end.

(** AppCfgMgr._terminate(instance): rename running/<instance> to cleanup/<container name> *)
Definition terminate (s : st) (i : inst) : st :=
  match rget (running s) i with
  | None => s                                               (* ENOENT: ignored *)
  | Some c => with_cleanup (with_running s (mdel Z.eqb (running s) i)) (mset lname_eqb (cleanup s) (LCont c) c)
  end.

(** AppCfgMgr._linked_container(link): the container a link points to, if the link exists and the
    directory it points to exists *)
Definition linked (s : st) (o : option cont) : option cont :=
  match o with
  | Some c => match aget (apps s) c with Some _ => Some c | None => None end
  | None => None
  end.
Definition opt_is (c : cont) (o : option cont) : bool :=
  match o with Some c' => cont_eqb c' c | None => false end.

(** AppCfgMgr._has_cleanup_file(container) *)
Definition has_cleanup_file (s : st) (c : cont) : bool :=
  match aget (apps s) c with Some f => flagged f | None => false end.

(** fs.symlink_safe(cleanup/<instance>, apps/<container>) unless another generation holds that name *)
Definition add_cleanup_link (s : st) (in_cleanup : option cont) (c : cont) : st :=
  match in_cleanup with
  | None => with_cleanup s (mset lname_eqb (cleanup s) (LInst (app_name c)) c)
  | Some _ => s                                          (* deferred to a later synchronisation *)
  end.

(** one iteration of the first loop of _synchronize; [cached] is the local dict *)
Definition sync_container (sc : st * list (inst * cont)) (c : cont) : st * list (inst * cont) :=
  let '(s, cached) := sc in
  let i := app_name c in
  let is_cur := opt_is c (mget Z.eqb cached i) in
  let in_cleanup := linked s (lget (cleanup s) (LInst i)) in
  if opt_is c (linked s (rget (running s) i)) then
    if is_cur then (s, mdel Z.eqb cached i) else (terminate s i, cached)
  else if opt_is c in_cleanup then
    (s, if is_cur then mdel Z.eqb cached i else cached)
  else if is_cur then
    let '(s1, ok) := if has_cleanup_file s c then (s, false) else configure s i in
    ((if ok then s1 else add_cleanup_link s1 in_cleanup c), mdel Z.eqb cached i)
  else
    (add_cleanup_link s in_cleanup c, cached).

Fixpoint memb {A} (eqb : A -> A -> bool) (x : A) (l : list A) : bool :=
  match l with [] => false | y :: r => eqb y x || memb eqb x r end.
Fixpoint dedupb {A} (eqb : A -> A -> bool) (l : list A) : list A :=
  match l with [] => [] | x :: r => if memb eqb x r then dedupb eqb r else x :: dedupb eqb r end.

(** iterate over the set [l] in the recorded order [ord]; members not mentioned follow *)
Definition arrangeb {A} (eqb : A -> A -> bool) (ord l : list A) : list A :=
  filter (fun x => memb eqb x l) (dedupb eqb ord) ++ filter (fun x => negb (memb eqb x ord)) l.

(** AppCfgMgr._synchronize; [oc]/[oi] = iteration order of the set of containers / of the cached dict *)
Definition synchronize (s : st) (oc : list cont) (oi : list inst) : st :=
  let configured := arrangeb cont_eqb oc (map fst (apps s)) in
  let cached0 : list (inst * cont) := map (fun kv => (fst kv, (fst kv, fst (snd kv)))) (cache s) in
  let '(s1, cached1) := fold_left sync_container configured (s, cached0) in
  let rest := arrangeb Z.eqb oi (map fst cached1) in
  fold_left (fun s i => fst (configure s i)) rest s1.

(** container of the event file as it exists now (appcfg.eventfile_unique_name; None = file gone) *)
Definition current_cont (s : st) (i : inst) : option cont :=
  match cget (cache s) i with Some (f, _) => Some (i, f) | None => None end.

(** AppCfgMgr._runs_manifest: running/<instance> points at the container of the current event file *)
Definition runs_manifest (s : st) (i : inst) : bool :=
  match current_cont s i with
  | Some c => opt_is c (linked s (rget (running s) i))
  | None => false
  end.

(** AppCfgMgr._is_finished: the container of the current event file has a cleanup file *)
Definition is_finished (s : st) (i : inst) : bool :=
  match current_cont s i with Some c => has_cleanup_file s c | None => false end.

(** the handlers *)
Definition handle (s : st) (e : event) (oc : list cont) (oi : list inst) : st :=
  match e with
  | EvReadyUp => if active s then s else synchronize (with_active s true) oc oi     (* _first_sync *)
  | EvReadyDown => with_active s false
  | EvDot _ => s
  | EvCreated i =>
      if negb (active s) then s
      else match rget (running s) i with
           | Some _ => s                                   (* os.path.islink(running/<instance>) *)
           | None => if is_finished s i then s else fst (configure s i)
           end
  | EvDeleted i =>
      if negb (active s) then s
      else if runs_manifest s i then s                     (* stale event: placed again meanwhile *)
      else terminate s i
  end.

Inductive op :=
| CachePut (i : inst) (f : Z) (ok : bool)   (* eventmgr writes cache/<i> (a new file) *)
| CacheDel (i : inst)                       (* eventmgr removes cache/<i> *)
| ReadyUp | ReadyDown                       (* eventmgr _cache_notify *)
| DotFile (created : bool)                  (* a temporary file appears / disappears in cache/ *)
| Deliver (oc : list cont) (oi : list inst) (* the manager handles the oldest pending event *)
| Exit (i : inst) (k : fkind)               (* the container under running/<i> ends: flag file + monitor cleanup *)
| Flag (c : cont) (k : fkind)               (* a flag file appears in an existing container directory *)
| CleanupDone (l : lname)                   (* cleanup.Cleanup.invoke(<l>) completes *)
| Restart                                   (* the manager process restarts *)
| Boot.                                     (* node start: run.sh clears running/ and cleanup/, the manager starts *)

Definition mark_finished (s : st) (c : cont) : st :=
  if memb cont_eqb c (finished s) then s else with_finished s (c :: finished s).

Definition flag_cont (s : st) (c : cont) (k : fkind) : st :=
  match aget (apps s) c with
  | Some f => mark_finished (with_apps s (mset cont_eqb (apps s) c (set_flag f k))) c
  | None => s
  end.

Definition step (s : st) (o : op) : st :=
  match o with
  | CachePut i f ok => enqueue (with_cache s (mset Z.eqb (cache s) i (f, ok))) (EvCreated i)
  | CacheDel i =>
      match cget (cache s) i with
      | Some _ => enqueue (with_cache s (mdel Z.eqb (cache s) i)) (EvDeleted i)
      | None => s
      end
  | ReadyUp => enqueue s EvReadyUp
  | ReadyDown => enqueue s EvReadyDown
  | DotFile b => enqueue s (EvDot b)
  | Deliver oc oi =>
      match queue s with
      | [] => s
      | e :: q => handle (with_queue s q) e oc oi
      end
  | Exit i k =>
      match rget (running s) i with
      | None => s
      | Some c =>
          let s1 := flag_cont s c k in
          with_cleanup (with_running s1 (mdel Z.eqb (running s1) i)) (mset lname_eqb (cleanup s1) (LInst i) c)
      end
  | Flag c k => flag_cont s c k
  | CleanupDone l =>
      match lget (cleanup s) l with
      | None => s
      | Some c => with_cleanup (with_apps s (mdel cont_eqb (apps s) c)) (mdel lname_eqb (cleanup s) l)
      end
  | Restart => with_queue (with_active s false) []
  | Boot => with_queue (with_active (with_cleanup (with_running s []) []) false) []
  end.

Definition run (ops : list op) (s : st) : st := fold_left step ops s.

(** * The property statements as decidable predicates on a state / a step *)
Definition links_to (s : st) (c : cont) : nat :=
  List.length (filter (fun kv => cont_eqb (snd kv) c) (running s)) +
  List.length (filter (fun kv => cont_eqb (snd kv) c) (cleanup s)).

Definition all_conts (s : st) : list cont :=
  map fst (apps s) ++ map snd (running s) ++ map snd (cleanup s).

(** every container is referenced by at most one link *)
Definition one_link (s : st) : bool := forallb (fun c => Nat.leb (links_to s c) 1) (all_conts s).

(** * Flattening for the correspondence check *)
Definition zb (b : bool) : Z := if b then 1 else 0.
Definition flat_cont (o : option cont) : list Z := match o with None => [0] | Some c => [1; fst c; snd c] end.
Definition flat_flags (o : option flags) : list Z :=
  match o with None => [0] | Some f => [1; zb (f_exitinfo f); zb (f_aborted f); zb (f_oom f)] end.
Definition flat_event (e : event) : list Z :=
  match e with
  | EvCreated i => [1; i] | EvDeleted i => [2; i] | EvReadyUp => [3] | EvReadyDown => [4]
  | EvDot b => [5; zb b]
  end.

Definition flat_state (insts : list inst) (conts : list cont) (s : st) : list Z :=
  [zb (active s); Z.of_nat (List.length (cache s)); Z.of_nat (List.length (apps s));
   Z.of_nat (List.length (running s)); Z.of_nat (List.length (cleanup s)); Z.of_nat (List.length (queue s))]
  ++ flat_map (fun i => match cget (cache s) i with None => [0] | Some (f, ok) => [1; f; zb ok] end) insts
  ++ flat_map (fun i => flat_cont (rget (running s) i)) insts
  ++ flat_map (fun i => flat_cont (lget (cleanup s) (LInst i))) insts
  ++ flat_map (fun c => flat_cont (lget (cleanup s) (LCont c))) conts
  ++ flat_map (fun c => flat_flags (aget (apps s) c)) conts
  ++ flat_map flat_event (queue s).

Fixpoint trace (ops : list op) (s : st) (insts : list inst) (conts : list cont) : list Z :=
  match ops with
  | [] => []
  | o :: r => let s' := step s o in flat_state insts conts s' ++ trace r s' insts conts
  end.

Definition run_case (k : list op * list inst * list cont) : list Z :=
  let '(ops, insts, conts) := k in trace ops init insts conts.
