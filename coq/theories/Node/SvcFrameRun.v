(** C14 (resource-service framework) correspondence runner.  The file names of the request directory are the plain
    definitions harness/tables_svcframe.py regenerates into Gen/Tables.v on every run; [run_case] flattens what the
    model says the framework does - the calls to the implementation after each step, what a client reads, the
    directories at the end - to [list Z] exactly like harness/props/svcframe.py flattens the recorded calls of the real
    framework. *)
From Coq Require Import ZArith List Bool.
From TM Require Import Node.Owners Node.SvcFrame Gen.Tables.
Import ListNotations.
Open Scope Z_scope.

(** the model keeps request.yml, reply.yml and svc_req_id apart and never takes one of them for a temporary file:
    the three names are pairwise different plain names that do not start with a dot *)
Fixpoint zl_eqb (a b : list Z) : bool :=
  match a, b with
  | [], [] => true
  | x :: a', y :: b' => (x =? y) && zl_eqb a' b'
  | _, _ => false
  end.
Definition plain_name (l : list Z) : bool :=
  match l with
  | [] => false
  | x :: _ => negb (x =? 46) && forallb (fun ch => negb (ch =? 47)) l
  end.
Definition svcframe_names_ok (req rep uid rsrc : list Z) : bool :=
  plain_name req && plain_name rep && plain_name uid && plain_name rsrc &&
  negb (zl_eqb req rep) && negb (zl_eqb req uid) && negb (zl_eqb rep uid).
Definition svcframe_tables_ok : bool :=
  svcframe_names_ok svcframe_req_file svcframe_rep_file svcframe_uid_file svcframe_rsrc_dir.

(** the calls the framework makes to the implementation (the ResUp / ResDown facts are not calls) *)
Definition fcall (p : op) : list Z :=
  match p with
  | SvcCreate n env => [3; n; env]
  | SvcDelete n => [4; n]
  | SvcSync => [5]
  | SvcRestart => [6]
  | _ => []
  end.
Definition freply (r : option rtag) : list Z :=
  match r with None => [0] | Some (RepOk a) => [1; a] | Some RepErr => [2] end.
Definition b2z (b : bool) : Z := if b then 1 else 0.
Definition fent (e : ent) : list Z :=
  [b2z (e_link e); b2z (e_dir e)] ++ (match e_req e with None => [0] | Some v => [1; v] end)
  ++ [b2z (e_uid e)] ++ freply (e_reply e).

Record fcase := { fc_cidr : cidr; fc_ops : list fop; fc_names : list Z }.

(** after each step: the calls, for a get what the client read, then -1; at the end every named entry *)
Fixpoint run_obs (c : cidr) (fs : list fop) (names : list Z) (st : fstate) : list Z :=
  match fs with
  | [] => flat_map (fun n => fent (fget n (f_tbl st))) names
  | f :: r =>
      let (st1, ops) := fstep c f st in
      flat_map fcall ops
      ++ (match f with FGet n => freply (client_get (fget n (f_tbl st))) | _ => [] end)
      ++ (-1) :: run_obs c r names st1
  end.

Definition run_case (x : fcase) : list Z := run_obs (fc_cidr x) (fc_ops x) (fc_names x) fstate0.
