(** Executable model of the two hostname-ownership mechanisms named by C17's anchors that
    Node/Presence.v does not cover:

      treadmill.presence.EndpointPresence
        .register_running / .unregister_running / .register_endpoints / .unregister_endpoints /
        .register_identity / .unregister_identity   (and _create_ephemeral_with_retry)
      treadmill.trace.app.zk._unschedule

    A ZooKeeper node table maps a path to (payload, ephemeral owner session).  Paths are structured
    (the functions compute them from the instance name, the endpoint's proto/name, the identity group and
    the host name); payloads are byte strings, except that the JSON object written by register_identity is
    kept parsed.  A host acts through a session ([agent]); unregister_* decide by the HOST NAME found in the
    node (not by the owner session: presence.kill_node calls them from an administrator's session).

    Granularity: one [op] is one call of one of these functions; the ZooKeeper calls inside it (get then
    delete, exists then delete, the 13 create attempts) see no other operation in between.  The two halves of
    the check-then-act pairs are separate definitions ([unreg_check] / [unreg_act]) so that the consequence
    of splitting them can be stated (Props/C17.v, C17_ep_check_then_act_witness).

    Modelled, not verified: ZooKeeper single-node operations; ephemeral nodes vanish when their session
    expires; the nodes under /running, /endpoints, /identity-groups and /scheduled/<instance> have no children;
    a payload that is not the JSON object of register_identity does not parse (JSON/YAML) to a mapping and is
    valid UTF-8; a host name does not begin with '{' (so the JSON text of an identity node is never equal to a
    host name, nor is its part before the first ':').
    No proofs in this file. *)
From Coq Require Import ZArith List Bool.
Import ListNotations.
Open Scope Z_scope.

(** * byte strings *)
Definition text := list Z.
Fixpoint text_eqb (a b : text) : bool :=
  match a, b with
  | [], [] => true
  | x :: a', y :: b' => (x =? y) && text_eqb a' b'
  | _, _ => false
  end.
Definition is_empty (s : text) : bool := match s with [] => true | _ => false end.
Definition colon : Z := 58.
(** s.split(':')[0] *)
Fixpoint before_colon (s : text) : text :=
  match s with
  | [] => []
  | c :: r => if c =? colon then [] else c :: before_colon r
  end.
(** hostname + ':' + str(real_port) *)
Definition hostport (h port : text) : text := h ++ colon :: port.

(** * paths and payloads *)
Inductive path :=
| PRunning (app : Z)                  (* /running/<instance>                               *)
| PEndpoint (app proto name : Z)      (* /endpoints/<proid>/<instance>:<proto>:<name>      *)
| PIdentity (group ident : Z)         (* /identity-groups/<group>/<identity>               *)
| PPlacement (host : text) (inst : Z) (* /placement/<host>/<instance>                      *)
| PScheduled (inst : Z)               (* /scheduled/<instance>                             *)
| POther (c : Z).

Definition path_eqb (a b : path) : bool :=
  match a, b with
  | PRunning x, PRunning y => x =? y
  | PEndpoint a1 p1 n1, PEndpoint a2 p2 n2 => (a1 =? a2) && (p1 =? p2) && (n1 =? n2)
  | PIdentity g1 i1, PIdentity g2 i2 => (g1 =? g2) && (i1 =? i2)
  | PPlacement h1 i1, PPlacement h2 i2 => text_eqb h1 h2 && (i1 =? i2)
  | PScheduled x, PScheduled y => x =? y
  | POther x, POther y => x =? y
  | _, _ => false
  end.

Inductive payload :=
| DText (s : text)                    (* raw bytes                                          *)
| DIdent (host : text) (app : Z).     (* {"app": <instance>, "host": <host>}                *)

Record enode := { e_path : path; e_data : payload; e_owner : Z }.   (* e_owner = 0: not ephemeral *)
Definition table := list enode.                                      (* creation order *)

Definition tget (t : table) (p : path) : option enode := find (fun n => path_eqb (e_path n) p) t.
Definition texists (t : table) (p : path) : bool := match tget t p with Some _ => true | None => false end.
Definition tcreate (t : table) (p : path) (d : payload) (owner : Z) : option table :=
  match tget t p with
  | Some _ => None                                                     (* NodeExistsError *)
  | None => Some (t ++ [{| e_path := p; e_data := d; e_owner := owner |}])
  end.
Definition tdelete (t : table) (p : path) : option table :=
  match tget t p with
  | None => None                                                       (* NoNodeError *)
  | Some _ => Some (filter (fun n => negb (path_eqb (e_path n) p)) t)
  end.
Definition texpire (t : table) (sid : Z) : table :=
  if sid =? 0 then t else filter (fun n => negb (e_owner n =? sid)) t.
(** zkutils.ensure_deleted on a node without children: delete, NoNodeError ignored *)
Definition ensure_deleted (t : table) (p : path) : table :=
  match tdelete t p with Some t' => t' | None => t end.

(** * who calls, and with which manifest *)
Record agent := { a_host : text; a_sess : Z }.
Record endpoint := { ep_proto : Z; ep_name : Z; ep_port : text }.     (* ep_name = 0: the empty name *)
Record manifest := { m_app : Z; m_eps : list endpoint; m_ident : option (Z * Z) }.   (* identity_group, identity *)
Definition ep_path (app : Z) (e : endpoint) : path := PEndpoint app (ep_proto e) (ep_name e).
Definition ident_path (gi : Z * Z) : path := PIdentity (fst gi) (snd gi).

Inductive outcome :=
| Done          (* the call returned                                            *)
| SetupError    (* exc.ContainerSetupError after _EPHEMERAL_RETRY_COUNT attempts *)
| Raised.       (* another exception left the call                              *)

(** * _create_ephemeral_with_retry: up to 13 attempts, each create(ephemeral=True); NodeExists -> read, sleep, again *)
Definition retry_count : nat := 13.
Fixpoint create_retry (n : nat) (t : table) (sess : Z) (p : path) (d : payload) : table * outcome :=
  match n with
  | O => (t, SetupError)
  | S k => match tcreate t p d sess with
           | Some t' => (t', Done)
           | None => create_retry k t sess p d
           end
  end.
Definition create_ephemeral (t : table) (sess : Z) (p : path) (d : payload) : table * outcome :=
  create_retry retry_count t sess p d.

(** * what "the node names host h" means to each unregister_* *)
(** unregister_running:    data and data.decode() == self.hostname *)
Definition names_running (d : payload) (h : text) : bool :=
  match d with DText s => negb (is_empty s) && text_eqb s h | DIdent _ _ => false end.
(** unregister_endpoints:  data and data.decode().split(':')[0] == self.hostname *)
Definition names_endpoint (d : payload) (h : text) : bool :=
  match d with DText s => negb (is_empty s) && text_eqb (before_colon s) h | DIdent _ _ => false end.
(** unregister_identity:   zkutils.get(path)['host'] == self.hostname   (a non-mapping raises) *)
Definition names_identity (d : payload) (h : text) : bool :=
  match d with DText _ => false | DIdent h' _ => text_eqb h' h end.
Definition names (p : path) (d : payload) (h : text) : bool :=
  match p with
  | PRunning _ => names_running d h
  | PEndpoint _ _ _ => names_endpoint d h
  | PIdentity _ _ => names_identity d h
  | _ => false
  end.
(** the node at p (if any) names h *)
Definition holds (t : table) (p : path) (h : text) : bool :=
  match tget t p with Some n => names p (e_data n) h | None => false end.

(** check-then-act: get + comparison, then delete (NoNodeError ignored) *)
Definition unreg_check (t : table) (p : path) (h : text) : bool := holds t p h.
Definition unreg_act (t : table) (p : path) : table := ensure_deleted t p.
Definition unreg_node (t : table) (p : path) (h : text) : table :=
  if unreg_check t p h then unreg_act t p else t.

(** * EndpointPresence *)
Definition register_running (a : agent) (m : manifest) (t : table) : table * outcome :=
  create_ephemeral t (a_sess a) (PRunning (m_app m)) (DText (a_host a)).
Definition unregister_running (a : agent) (m : manifest) (t : table) : table * outcome :=
  (unreg_node t (PRunning (m_app m)) (a_host a), Done).

Fixpoint register_endpoints_loop (a : agent) (app : Z) (eps : list endpoint) (t : table) : table * outcome :=
  match eps with
  | [] => (t, Done)
  | e :: r =>
      match create_ephemeral t (a_sess a) (ep_path app e) (DText (hostport (a_host a) (ep_port e))) with
      | (t', Done) => register_endpoints_loop a app r t'
      | (t', o) => (t', o)
      end
  end.
Definition register_endpoints (a : agent) (m : manifest) (t : table) : table * outcome :=
  register_endpoints_loop a (m_app m) (m_eps m) t.

(** the loop returns at the first endpoint without a name ("Logic error, no endpoint info") *)
Fixpoint unregister_endpoints_loop (h : text) (app : Z) (eps : list endpoint) (t : table) : table :=
  match eps with
  | [] => t
  | e :: r => if ep_name e =? 0 then t
              else unregister_endpoints_loop h app r (unreg_node t (ep_path app e) h)
  end.
Definition unregister_endpoints (a : agent) (m : manifest) (t : table) : table * outcome :=
  (unregister_endpoints_loop (a_host a) (m_app m) (m_eps m) t, Done).
(** the endpoints the loop reaches *)
Fixpoint reached (eps : list endpoint) : list endpoint :=
  match eps with
  | [] => []
  | e :: r => if ep_name e =? 0 then [] else e :: reached r
  end.

Definition register_identity (a : agent) (m : manifest) (t : table) : table * outcome :=
  match m_ident m with
  | None => (t, Done)
  | Some gi => create_ephemeral t (a_sess a) (ident_path gi) (DIdent (a_host a) (m_app m))
  end.
Definition unregister_identity (a : agent) (m : manifest) (t : table) : table * outcome :=
  match m_ident m with
  | None => (t, Done)
  | Some gi =>
      match tget t (ident_path gi) with
      | None => (t, Done)                                   (* NoNodeError: "does not exist" *)
      | Some n =>
          match e_data n with
          | DText _ => (t, Raised)                          (* data['host'] on a non-mapping *)
          | DIdent _ _ => (unreg_node t (ident_path gi) (a_host a), Done)
          end
      end
  end.

(** EndpointPresence.register: identity, running, endpoints; an exception ends it *)
Definition register_all (a : agent) (m : manifest) (t : table) : table * outcome :=
  match register_identity a m t with
  | (t1, Done) =>
      match register_running a m t1 with
      | (t2, Done) => register_endpoints a m t2
      | r => r
      end
  | r => r
  end.
Definition registered_paths (m : manifest) : list path :=
  PRunning (m_app m) :: map (ep_path (m_app m)) (m_eps m)
  ++ match m_ident m with Some gi => [ident_path gi] | None => [] end.

(** * trace.app.zk._unschedule with _HOSTNAME = h *)
Definition unschedule (h : text) (inst : Z) (t : table) : table :=
  if texists t (PPlacement h inst) then ensure_deleted t (PScheduled inst) else t.

(** * operations: the calls of any number of hosts, and everybody else (the master placing and scheduling,
      leftovers of earlier sessions, administrators, session expiry) *)
Inductive op :=
| ORegRunning (a : agent) (m : manifest)
| OUnregRunning (a : agent) (m : manifest)
| ORegEndpoints (a : agent) (m : manifest)
| OUnregEndpoints (a : agent) (m : manifest)
| ORegIdentity (a : agent) (m : manifest)
| OUnregIdentity (a : agent) (m : manifest)
| OUnschedule (a : agent) (inst : Z)
| OCreate (p : path) (d : payload) (owner : Z)
| ODelete (p : path)
| OExpire (sid : Z).

Definition ep_step (t : table) (o : op) : table * outcome :=
  match o with
  | ORegRunning a m => register_running a m t
  | OUnregRunning a m => unregister_running a m t
  | ORegEndpoints a m => register_endpoints a m t
  | OUnregEndpoints a m => unregister_endpoints a m t
  | ORegIdentity a m => register_identity a m t
  | OUnregIdentity a m => unregister_identity a m t
  | OUnschedule a inst => (unschedule (a_host a) inst t, Done)
  | OCreate p d owner => match tcreate t p d owner with Some t' => (t', Done) | None => (t, Raised) end
  | ODelete p => match tdelete t p with Some t' => (t', Done) | None => (t, Raised) end
  | OExpire sid => (texpire t sid, Done)
  end.
Fixpoint ep_run (t : table) (ops : list op) : table :=
  match ops with
  | [] => t
  | o :: r => ep_run (fst (ep_step t o)) r
  end.

(** the agent of an unregister_* call *)
Definition unregister_by (o : op) : option agent :=
  match o with
  | OUnregRunning a _ | OUnregEndpoints a _ | OUnregIdentity a _ => Some a
  | _ => None
  end.

(** * what an operation list must not contain for a given node to be out of its reach *)
(** the only operations that may remove node n when it names host b: an unregister_* by b itself (through any
    session), an explicit delete of its path, the expiry of its owner session *)
Definition spares (b : text) (n : enode) (o : op) : bool :=
  match o with
  | OUnregRunning a _ | OUnregEndpoints a _ | OUnregIdentity a _ => negb (text_eqb (a_host a) b)
  | ODelete p => negb (path_eqb p (e_path n))
  | OExpire sid => (sid =? 0) || negb (e_owner n =? sid)
  | _ => true
  end.
(** host a holds no placement of instance i; these operations do not give it one, and only a's own (stale)
    events try to unschedule i; nobody deletes /scheduled/i directly and its owner (if any) does not expire *)
Definition stale_for (a : text) (i : Z) (n : enode) (o : op) : bool :=
  match o with
  | OUnschedule b j => negb (j =? i) || text_eqb (a_host b) a
  | OCreate p _ _ => negb (path_eqb p (PPlacement a i))
  | ODelete p => negb (path_eqb p (PScheduled i))
  | OExpire sid => (sid =? 0) || negb (e_owner n =? sid)
  | _ => true
  end.
(** a host name the endpoint comparison can recognise: not empty, no ':' *)
Definition host_ok (h : text) : bool := negb (is_empty h) && negb (existsb (Z.eqb colon) h).

(** * Correspondence: flattened observables *)
Definition dump_text (s : text) : list Z := Z.of_nat (length s) :: s.
Definition dump_path (p : path) : list Z :=
  match p with
  | PRunning a => [1; a]
  | PEndpoint a pr n => [2; a; pr; n]
  | PIdentity g i => [3; g; i]
  | PPlacement h i => 4 :: i :: dump_text h
  | PScheduled i => [5; i]
  | POther c => [6; c]
  end.
Definition dump_payload (d : payload) : list Z :=
  match d with
  | DText s => 0 :: dump_text s
  | DIdent h a => 1 :: a :: dump_text h
  end.
Definition dump_node (n : enode) : list Z := dump_path (e_path n) ++ dump_payload (e_data n) ++ [e_owner n].
Definition dump_table (t : table) : list Z := Z.of_nat (length t) :: flat_map dump_node t.
Definition outcome_code (o : outcome) : Z := match o with Done => 0 | SetupError => 1 | Raised => 2 end.
(** per operation: its outcome, then the whole node table *)
Fixpoint ep_run_dump (t : table) (ops : list op) : list Z :=
  match ops with
  | [] => []
  | o :: r => let '(t', oc) := ep_step t o in outcome_code oc :: dump_table t' ++ ep_run_dump t' r
  end.
Definition ep_case (c : table * list op) : list Z := let '(t, ops) := c in ep_run_dump t ops.
