(** A directory of the node's file system, at the level of the system calls that
    treadmill.fs.write_safe, EventMgr._synchronize/_cache_notify and AppCfgMgr issue.

    A directory is an ordered map  name -> regular file (content, ctime) | symlink (target).
    The semantics of the system calls below IS the model's definition of the file system
    (trusted, see the property's trusted list): in particular [ORename] replaces the
    destination in ONE step (rename(2) atomicity), a reader sees the directory between two
    steps, and a crash is a prefix of a system-call list ([run_ops (firstn k ops)]).

    Executable definitions only; the lemmas about them are in Node/CacheP.v. *)
From Coq Require Import ZArith List Bool String Ascii.
Import ListNotations.
Open Scope Z_scope.

Definition name := string.
Definition content := list Z.            (* serialised bytes / tokens of a file *)

Inductive node :=
| File (c : content) (ctime : Z)         (* regular file: content, st_ctime (ms, 0 = falsy in Python) *)
| Link (target : string).                (* symbolic link *)

Definition dir := list (name * node).

Fixpoint lookup (d : dir) (n : name) : option node :=
  match d with
  | [] => None
  | (k, v) :: r => if String.eqb k n then Some v else lookup r n
  end.

Fixpoint remove (d : dir) (n : name) : dir :=
  match d with
  | [] => []
  | (k, v) :: r => if String.eqb k n then remove r n else (k, v) :: remove r n
  end.

(** update keeps the position, a new name is appended *)
Fixpoint set (d : dir) (n : name) (v : node) : dir :=
  match d with
  | [] => [(n, v)]
  | (k, w) :: r => if String.eqb k n then (k, v) :: r else (k, w) :: set r n v
  end.

Definition names (d : dir) : list name := map fst d.

(** ** Name patterns used by the readers *)
Definition dot_prefixed (n : name) : bool :=
  match n with String c _ => Ascii.eqb c "."%char | EmptyString => false end.

(** glob.glob(os.path.join(dir, '*')): every non-empty name that does not start with a dot *)
Definition glob_star (n : name) : bool :=
  match n with String c _ => negb (Ascii.eqb c "."%char) | EmptyString => false end.

(** AppCfgMgr._on_created/_on_deleted/_on_modified: [instance_name[0] == '.'] => ignored *)
Definition appcfg_ignores (n : name) : bool := dot_prefixed n.

Definition visible (d : dir) : list name := filter glob_star (names d).

(** ** System calls *)
Inductive op :=
| OCreate (n : name) (now : Z)           (* open(O_CREAT|O_EXCL): EEXIST if the name exists *)
| OAppend (n : name) (chunk : content)   (* write(2) on the open temporary file *)
| OChmod (n : name)                      (* fchmod(2): permissions are not modelled, only the boundary *)
| ORename (a b : name)                   (* rename(2)/os.replace: atomically replaces b *)
| OUnlink (n : name)                     (* unlink(2): ENOENT if absent *)
| OUnlinkQ (n : name)                    (* fs.rm_safe: unlink(2), ENOENT ignored *)
| OSymlink (n : name) (target : string). (* symlink(2): EEXIST if the name exists *)

(** [None] = the system call fails (the directory is unchanged) *)
Definition apply_op (o : op) (d : dir) : option dir :=
  match o with
  | OCreate n now => match lookup d n with None => Some (set d n (File [] now)) | Some _ => None end
  | OAppend n ch =>
      match lookup d n with Some (File c t) => Some (set d n (File (c ++ ch) t)) | _ => None end
  | OChmod n => match lookup d n with Some _ => Some d | None => None end
  | ORename a b => match lookup d a with Some v => Some (set (remove d a) b v) | None => None end
  | OUnlink n => match lookup d n with Some _ => Some (remove d n) | None => None end
  | OUnlinkQ n => Some (remove d n)
  | OSymlink n t => match lookup d n with None => Some (set d n (Link t)) | Some _ => None end
  end.

(** run a list of system calls; stops at the first failing call: (directory, all succeeded) *)
Fixpoint run_ops (os : list op) (d : dir) : dir * bool :=
  match os with
  | [] => (d, true)
  | o :: r => match apply_op o d with Some d' => run_ops r d' | None => (d, false) end
  end.

(** the directory a crash after [k] system calls leaves behind *)
Definition crash_at (k : nat) (os : list op) (d : dir) : dir := fst (run_ops (firstn k os) d).

Fixpoint mem (n : name) (l : list name) : bool :=
  match l with [] => false | x :: r => String.eqb x n || mem n r end.

Fixpoint dedup (l : list name) : list name :=
  match l with [] => [] | x :: r => if mem x r then dedup r else x :: dedup r end.
