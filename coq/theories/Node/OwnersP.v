(** Proofs about Node/Owners.v: invariants of every operation sequence. *)
From Coq Require Import ZArith List Bool Lia.
From TM Require Import Node.Owners.
Import ListNotations.
Open Scope Z_scope.

(** * Small facts *)
Lemma mem_z_In x l : mem_z x l = true <-> In x l.
Proof.
  induction l as [|y l IH]; cbn; split; intros H; try discriminate; try contradiction.
  - apply orb_true_iff in H as [H|H]; [left; apply Z.eqb_eq in H; exact H | right; apply IH; exact H].
  - apply orb_true_iff. destruct H as [H|H]; [left; apply Z.eqb_eq; exact H | right; apply IH; exact H].
Qed.

(** * Owner tables *)
Section TableP.
  Context {K : Type}.
  Variable keqb : K -> K -> bool.
  Hypothesis keqb_spec : forall a b, keqb a b = true <-> a = b.

  Lemma keqb_refl a : keqb a a = true.
  Proof. apply keqb_spec. reflexivity. Qed.

  Lemma keqb_neq a b : a <> b -> keqb a b = false.
  Proof. intros H. destruct (keqb a b) eqn:E; [apply keqb_spec in E; contradiction | reflexivity]. Qed.

  Lemma lookup_In k o (t : @table K) : lookup keqb k t = Some o -> In (k, o) t.
  Proof.
    induction t as [|[k' o'] t IH]; cbn; intros H; [discriminate|].
    destruct (keqb k' k) eqn:E.
    - apply keqb_spec in E. inversion H; subst. left; reflexivity.
    - right; apply IH; exact H.
  Qed.

  Lemma lookup_None k (t : @table K) : lookup keqb k t = None <-> ~ In k (keys t).
  Proof.
    induction t as [|[k' o'] t IH]; cbn; split; intros H; try reflexivity; try tauto.
    - destruct (keqb k' k) eqn:E; [discriminate|]. intros [H1|H1].
      + subst. rewrite keqb_refl in E. discriminate.
      + apply IH in H. apply H. exact H1.
    - destruct (keqb k' k) eqn:E.
      + apply keqb_spec in E. subst. exfalso. apply H. left; reflexivity.
      + apply IH. intros H1. apply H. right; exact H1.
  Qed.

  Lemma In_keys k o (t : @table K) : In (k, o) t -> In k (keys t).
  Proof. intros H. apply (in_map fst) in H. exact H. Qed.

  Lemma NoDup_lookup k o (t : @table K) : NoDup (keys t) -> In (k, o) t -> lookup keqb k t = Some o.
  Proof.
    induction t as [|[k' o'] t IH]; cbn; intros Hnd Hin; [contradiction|].
    inversion Hnd as [|? ? Hni Hnd']; subst.
    destruct Hin as [Hin|Hin].
    - inversion Hin; subst. rewrite keqb_refl. reflexivity.
    - destruct (keqb k' k) eqn:E.
      + apply keqb_spec in E. subst. exfalso. apply Hni. apply (In_keys _ _ _ Hin).
      + apply IH; assumption.
  Qed.

  (** at most one holder per key *)
  Lemma NoDup_functional k o1 o2 (t : @table K) : NoDup (keys t) -> In (k, o1) t -> In (k, o2) t -> o1 = o2.
  Proof.
    intros Hnd H1 H2. apply (NoDup_lookup _ _ _ Hnd) in H1. apply (NoDup_lookup _ _ _ Hnd) in H2. congruence.
  Qed.

  Lemma keys_filter_incl f (t : @table K) k : In k (keys (filter f t)) -> In k (keys t).
  Proof.
    unfold keys. intros H. apply in_map_iff in H as [[k' o'] [H1 H2]]. apply filter_In in H2 as [H2 _].
    cbn in H1; subst. apply (In_keys _ _ _ H2).
  Qed.

  Lemma NoDup_filter f (t : @table K) : NoDup (keys t) -> NoDup (keys (filter f t)).
  Proof.
    induction t as [|[k o] t IH]; cbn; intros H; [constructor|].
    inversion H as [|? ? Hni Hnd]; subst.
    destruct (f (k, o)); cbn.
    - constructor; [|apply IH; exact Hnd]. intros Hin. apply Hni. apply (keys_filter_incl _ _ _ Hin).
    - apply IH; exact Hnd.
  Qed.

  Lemma keys_app (t u : @table K) : keys (t ++ u) = keys t ++ keys u.
  Proof. unfold keys. apply map_app. Qed.

  Lemma NoDup_snoc k o (t : @table K) : NoDup (keys t) -> lookup keqb k t = None -> NoDup (keys (t ++ [(k, o)])).
  Proof.
    intros Hnd Hl. rewrite keys_app. cbn. apply lookup_None in Hl.
    induction (keys t) as [|x l IH]; cbn.
    - constructor; [intros []|constructor].
    - inversion Hnd as [|? ? Hni Hnd']; subst. constructor.
      + intros Hin. apply in_app_or in Hin as [Hin|[Hin|[]]]; [apply Hni; exact Hin|].
        subst. apply Hl. left; reflexivity.
      + apply IH; [exact Hnd'|]. intros Hin. apply Hl. right; exact Hin.
  Qed.

  Lemma symlink_spec k o (t t' : @table K) :
    symlink keqb k o t = Some t' -> lookup keqb k t = None /\ t' = t ++ [(k, o)].
  Proof. unfold symlink. destruct (lookup keqb k t); intros H; [discriminate|]. inversion H; auto. Qed.

  Lemma symlink_exists k o (t : @table K) : symlink keqb k o t = None <-> lookup keqb k t <> None.
  Proof. unfold symlink. destruct (lookup keqb k t); split; intros H; congruence. Qed.

  Lemma In_remove k k' o' (t : @table K) : In (k', o') (remove keqb k t) <-> In (k', o') t /\ k' <> k.
  Proof.
    unfold remove. rewrite filter_In. cbn. split; intros [H1 H2]; split; try exact H1.
    - intros E; subst. rewrite keqb_refl in H2. discriminate.
    - rewrite (keqb_neq _ _ H2). reflexivity.
  Qed.

  (** the effect of a release: nothing, unless the caller is the holder *)
  Lemma release_cases k o (t : @table K) :
    (snd (release keqb k o t) = t /\ lookup keqb k t <> Some o) \/
    (snd (release keqb k o t) = remove keqb k t /\ lookup keqb k t = Some o).
  Proof.
    unfold release. destruct (lookup keqb k t) as [o'|] eqn:E.
    - destruct (o' =? o) eqn:E2; cbn.
      + apply Z.eqb_eq in E2; subst. right; auto.
      + apply Z.eqb_neq in E2. left; split; [reflexivity|congruence].
    - left; split; [reflexivity|congruence].
  Qed.

  Lemma release_noop k o (t : @table K) : lookup keqb k t <> Some o -> snd (release keqb k o t) = t.
  Proof. intros H. destruct (release_cases k o t) as [[H1 _]|[_ H2]]; [exact H1|contradiction]. Qed.

  Lemma release_NoDup k o (t : @table K) : NoDup (keys t) -> NoDup (keys (snd (release keqb k o t))).
  Proof.
    intros H. destruct (release_cases k o t) as [[H1 _]|[H1 _]]; rewrite H1; [exact H|apply NoDup_filter; exact H].
  Qed.

  (** a release removes [k' -> o'] only when it names that key and that owner *)
  Lemma release_keeps k o k' o' (t : @table K) :
    NoDup (keys t) -> In (k', o') t -> ~ (k = k' /\ o = o') -> In (k', o') (snd (release keqb k o t)).
  Proof.
    intros Hnd Hin Hne. destruct (release_cases k o t) as [[H1 _]|[H1 H2]]; rewrite H1; [exact Hin|].
    apply In_remove. split; [exact Hin|]. intros E; subst k'.
    apply lookup_In in H2. apply Hne. split; [reflexivity|]. apply (NoDup_functional _ _ _ _ Hnd H2 Hin).
  Qed.

  Lemma release_incl k o e (t : @table K) : In e (snd (release keqb k o t)) -> In e t.
  Proof.
    destruct (release_cases k o t) as [[H1 _]|[H1 _]]; rewrite H1; [auto|].
    unfold remove. intros H. apply filter_In in H. tauto.
  Qed.

  Lemma release_gone k o (t : @table K) : NoDup (keys t) -> ~ In (k, o) (snd (release keqb k o t)).
  Proof.
    intros Hnd Hin. destruct (release_cases k o t) as [[H1 H2]|[H1 _]]; rewrite H1 in Hin.
    - apply H2. apply NoDup_lookup; assumption.
    - apply In_remove in Hin as [_ Hne]. apply Hne; reflexivity.
  Qed.

  Lemma gc_In live e (t : @table K) : In e (gc live t) <-> In e t /\ In (snd e) live.
  Proof. unfold gc. rewrite filter_In. rewrite mem_z_In. reflexivity. Qed.

  Lemma lookup_app k (t u : @table K) o : lookup keqb k t = Some o -> lookup keqb k (t ++ u) = Some o.
  Proof.
    induction t as [|[k' o'] t IH]; cbn; intros H; [discriminate|].
    destruct (keqb k' k); [exact H|apply IH; exact H].
  Qed.

  Lemma lookup_snoc_new k o (t : @table K) : lookup keqb k t = None -> lookup keqb k (t ++ [(k, o)]) = Some o.
  Proof.
    induction t as [|[k' o'] t IH]; cbn; intros H.
    - rewrite keqb_refl. reflexivity.
    - destruct (keqb k' k); [discriminate|apply IH; exact H].
  Qed.

  Lemma lookup_filter_keep f k o (t : @table K) :
    lookup keqb k t = Some o -> f (k, o) = true -> lookup keqb k (filter f t) = Some o.
  Proof.
    induction t as [|[k' o'] t IH]; cbn; intros H Hf; [discriminate|].
    destruct (keqb k' k) eqn:E.
    - apply keqb_spec in E. subst k'. inversion H; subst o'. rewrite Hf. cbn. rewrite keqb_refl. reflexivity.
    - destruct (f (k', o')); cbn; [rewrite E|]; apply IH; assumption.
  Qed.

  Lemma lookup_remove_other k k' o (t : @table K) :
    lookup keqb k' t = Some o -> k' <> k -> lookup keqb k' (remove keqb k t) = Some o.
  Proof.
    intros H Hne. unfold remove. apply lookup_filter_keep; [exact H|]. cbn. rewrite (keqb_neq _ _ Hne). reflexivity.
  Qed.

  Lemma create_tolerant_cases k o same (t t' : @table K) :
    create_tolerant keqb k o same t = Some t' ->
    (lookup keqb k t = None /\ t' = t ++ [(k, o)]) \/ (t' = t /\ lookup keqb k t = Some same).
  Proof.
    unfold create_tolerant. destruct (symlink keqb k o t) as [t1|] eqn:E.
    - intros H; inversion H; subst. left. apply symlink_spec. exact E.
    - destruct (lookup keqb k t) as [o'|] eqn:E2; [|discriminate].
      destruct (o' =? same) eqn:E3; [|discriminate]. apply Z.eqb_eq in E3; subst.
      intros H; inversion H; subst. right; auto.
  Qed.

  Lemma create_tolerant_fail k o same (t : @table K) :
    create_tolerant keqb k o same t = None -> exists o', lookup keqb k t = Some o' /\ o' <> same.
  Proof.
    unfold create_tolerant, symlink. destruct (lookup keqb k t) as [o'|] eqn:E; [|discriminate].
    destruct (o' =? same) eqn:E3; [discriminate|]. apply Z.eqb_neq in E3. intros _. exists o'. auto.
  Qed.
End TableP.

Lemma zeqb_spec : forall a b, (a =? b) = true <-> a = b.
Proof. intros. apply Z.eqb_eq. Qed.

Lemma spec_eqb_spec : forall a b, spec_eqb a b = true <-> a = b.
Proof.
  intros [a1 a2 a3 a4 a5 a6] [b1 b2 b3 b4 b5 b6]. unfold spec_eqb; cbn. split.
  - intros H. repeat (apply andb_true_iff in H as [H ?]).
    repeat match goal with E : (_ =? _) = true |- _ => apply Z.eqb_eq in E end. subst. reflexivity.
  - intros H; inversion H; subst. rewrite !Z.eqb_refl. reflexivity.
Qed.

(** * Specialisations *)
Notation zlookup := (lookup Z.eqb).
Notation slookup := (lookup spec_eqb).

(** * Devices (Python dict as association list) *)
Lemma dget_In o d (m : devs) : dget o m = Some d -> In (o, d) m.
Proof.
  induction m as [|[k d'] m IH]; cbn; intros H; [discriminate|].
  destruct (k =? o) eqn:E; [apply Z.eqb_eq in E; inversion H; subst; left; reflexivity | right; apply IH; exact H].
Qed.

Lemma dget_dset_same o d (m : devs) : dget o (dset o d m) = Some d.
Proof.
  induction m as [|[k d'] m IH]; cbn; [rewrite Z.eqb_refl; reflexivity|].
  destruct (k =? o) eqn:E; cbn; rewrite E; [reflexivity|exact IH].
Qed.

Lemma dget_dset_other o x d (m : devs) : x <> o -> dget o (dset x d m) = dget o m.
Proof.
  intros Hne. induction m as [|[k d'] m IH]; cbn.
  - destruct (x =? o) eqn:E; [apply Z.eqb_eq in E; contradiction|reflexivity].
  - destruct (k =? x) eqn:E; cbn.
    + apply Z.eqb_eq in E; subst k. destruct (x =? o) eqn:E2; [apply Z.eqb_eq in E2; contradiction|reflexivity].
    + destruct (k =? o); [reflexivity|exact IH].
Qed.

Lemma dget_ddel_same o (m : devs) : dget o (ddel o m) = None.
Proof.
  induction m as [|[k d'] m IH]; cbn; [reflexivity|].
  destruct (k =? o) eqn:E; cbn; [exact IH|rewrite E; exact IH].
Qed.

Lemma dget_ddel_other o x (m : devs) : x <> o -> dget o (ddel x m) = dget o m.
Proof.
  intros Hne. induction m as [|[k d'] m IH]; cbn; [reflexivity|].
  destruct (k =? x) eqn:E; cbn.
  - apply Z.eqb_eq in E; subst k. destruct (x =? o) eqn:E2; [apply Z.eqb_eq in E2; contradiction|exact IH].
  - destruct (k =? o); [reflexivity|exact IH].
Qed.

Lemma dkeys_dset o d (m : devs) : NoDup (map fst m) -> NoDup (map fst (dset o d m)).
Proof.
  assert (Hin : forall x m', In x (map fst (dset o d m')) -> x = o \/ In x (map fst m')).
  { intros x m'. induction m' as [|[k d'] m' IH]; cbn.
    - intros [H|[]]; left; congruence.
    - destruct (k =? o) eqn:E; cbn; intros [H|H]; auto. destruct (IH H); auto. }
  induction m as [|[k d'] m IH]; cbn; intros H.
  - constructor; [intros []|constructor].
  - inversion H as [|? ? Hni Hnd]; subst. destruct (k =? o) eqn:E; cbn.
    + constructor; assumption.
    + constructor; [|apply IH; exact Hnd]. intros Hx. apply Hin in Hx as [Hx|Hx]; [|contradiction].
      subst. rewrite Z.eqb_refl in E. discriminate.
Qed.

Lemma dkeys_ddel o (m : devs) : NoDup (map fst m) -> NoDup (map fst (ddel o m)).
Proof.
  unfold ddel. induction m as [|[k d'] m IH]; cbn; intros H; [constructor|].
  inversion H as [|? ? Hni Hnd]; subst. destruct (negb (k =? o)); cbn; [|apply IH; exact Hnd].
  constructor; [|apply IH; exact Hnd]. intros Hin. apply Hni.
  apply in_map_iff in Hin as [[k2 d2] [H1 H2]]. apply filter_In in H2 as [H2 _]. cbn in H1; subst.
  apply (in_map fst) in H2. exact H2.
Qed.

Lemma dget_NoDup o d (m : devs) : NoDup (map fst m) -> In (o, d) m -> dget o m = Some d.
Proof.
  induction m as [|[k d'] m IH]; cbn; intros Hnd Hin; [contradiction|].
  inversion Hnd as [|? ? Hni Hnd']; subst. destruct Hin as [Hin|Hin].
  - inversion Hin; subst. rewrite Z.eqb_refl. reflexivity.
  - destruct (k =? o) eqn:E; [|apply IH; assumption].
    apply Z.eqb_eq in E; subst. exfalso. apply Hni. apply (in_map fst) in Hin. exact Hin.
Qed.

(** * VipMgr.alloc *)
Lemma scan_alloc_spec t o n : forall a x t',
  scan_alloc t o a n = Some (x, t') ->
  a <= x < a + Z.of_nat n /\ zlookup x t = None /\ t' = t ++ [(x, o)] /\
  (forall y, a <= y < x -> zlookup y t <> None).
Proof.
  induction n as [|n IH]; intros a x t' H; [discriminate|]. cbn [scan_alloc] in H.
  destruct (symlink Z.eqb a o t) as [t1|] eqn:E.
  - inversion H; subst. apply symlink_spec in E as [E1 E2]. repeat split; try lia; auto.
  - apply IH in H as (H1 & H2 & H3 & H4). repeat split; try lia; auto.
    intros y Hy. destruct (Z.eq_dec y a) as [->|Hne]; [apply (proj1 (symlink_exists Z.eqb a o t)); exact E|apply H4; lia].
Qed.

Lemma hosts_in_cidr c a :
  hosts_first c <= a < hosts_first c + Z.of_nat (hosts_count c) ->
  in_cidr c a = true /\ (4 <= c_size c -> is_host c a = true).
Proof.
  unfold hosts_first, hosts_count, in_cidr, is_host. destruct (4 <=? c_size c) eqn:E; intros H.
  - apply Z.leb_le in E. rewrite Z2Nat.id in H by lia. split; [|intros _]; apply andb_true_iff; split;
      try apply Z.leb_le; try apply Z.ltb_lt; lia.
  - apply Z.leb_gt in E. destruct (Z_le_gt_dec (c_size c) 0) as [Hs|Hs].
    + assert (Z.to_nat (c_size c) = 0%nat) as E0 by lia. rewrite E0 in H. cbn in H. lia.
    + rewrite Z2Nat.id in H by lia. split; [|lia]. apply andb_true_iff; split; [apply Z.leb_le|apply Z.ltb_lt]; lia.
Qed.

Inductive alloc_outcome (c : cidr) (o : Z) (p : option Z) (t : @table Z) : res -> @table Z -> Prop :=
| AllocFail r : (forall a, r <> RAddr a) -> alloc_outcome c o p t r t
| AllocOk a : zlookup a t = None -> in_cidr c a = true ->
              (p = None -> 4 <= c_size c -> is_host c a = true) ->
              (forall q, p = Some q -> a = q) ->
              (p = None -> forall y, hosts_first c <= y < a -> zlookup y t <> None) ->
              alloc_outcome c o p t (RAddr a) (t ++ [(a, o)]).

Lemma vip_alloc_outcome c o p t : alloc_outcome c o p t (fst (vip_alloc c o p t)) (snd (vip_alloc c o p t)).
Proof.
  unfold vip_alloc. destruct p as [q|].
  - destruct (in_cidr c q) eqn:E; [|cbn; constructor; congruence].
    destruct (symlink Z.eqb q o t) as [t1|] eqn:E2; cbn; [|constructor; congruence].
    apply symlink_spec in E2 as [E2 ->]. constructor; auto; congruence.
  - destruct (scan_alloc t o (hosts_first c) (hosts_count c)) as [[a t1]|] eqn:E; cbn; [|constructor; congruence].
    apply scan_alloc_spec in E as (H1 & H2 & -> & H4). apply hosts_in_cidr in H1 as [H1 H1'].
    constructor; auto. congruence.
Qed.

(** * State invariants *)
Definition wf (c : cidr) (s : state) : Prop :=
  NoDup (keys (s_vips s)) /\ NoDup (keys (s_rules s)) /\ NoDup (keys (s_specs s)) /\
  NoDup (map fst (s_devs s)) /\ Forall (fun e => in_cidr c (fst e) = true) (s_vips s).

(** the service's view agrees with the directory: a device's address is held by that device's owner *)
Definition dev_consistent (s : state) : Prop :=
  forall o a, dev_holds (s_devs s) o a = true -> zlookup a (s_vips s) = Some o.

Lemma dev_holds_iff m o a : dev_holds m o a = true <-> exists d, dget o m = Some d /\ d_ip d = Some a.
Proof.
  unfold dev_holds. destruct (dget o m) as [d|]; [|split; [discriminate|intros [d [H _]]; discriminate]].
  destruct (d_ip d) as [b|] eqn:E.
  - split; [intros H; apply Z.eqb_eq in H; subst; exists d; auto|].
    intros [d' [H1 H2]]. inversion H1; subst. rewrite E in H2. inversion H2; subst. apply Z.eqb_refl.
  - split; [discriminate|]. intros [d' [H1 H2]]. inversion H1; subst. congruence.
Qed.

Lemma ddel_absent o (m : devs) : dget o m = None -> ddel o m = m.
Proof.
  induction m as [|[k d] m IH]; cbn; intros H; [reflexivity|].
  destruct (k =? o) eqn:E; [discriminate|]. cbn. unfold ddel in IH. rewrite IH by exact H. reflexivity.
Qed.

(** ** on_delete_request *)
Lemma svc_delete_frame o s :
  s_rules (svc_delete o s) = s_rules s /\ s_specs (svc_delete o s) = s_specs s /\
  s_res (svc_delete o s) = s_res s /\ s_apps (svc_delete o s) = s_apps s /\
  s_veth (svc_delete o s) = del_z o (s_veth s) /\ s_devs (svc_delete o s) = ddel o (s_devs s).
Proof.
  unfold svc_delete. destruct (dget o (s_devs s)) as [d|] eqn:E.
  - destruct (d_ip d); cbn; repeat split; reflexivity.
  - cbn. repeat split; try reflexivity. symmetry. apply ddel_absent. exact E.
Qed.

Lemma svc_delete_vips o s :
  s_vips (svc_delete o s) =
  match dget o (s_devs s) with
  | Some d => match d_ip d with Some a => snd (release Z.eqb a o (s_vips s)) | None => s_vips s end
  | None => s_vips s
  end.
Proof. unfold svc_delete. destruct (dget o (s_devs s)) as [d|]; [destruct (d_ip d)|]; reflexivity. Qed.

Lemma svc_delete_vips_cases o s :
  s_vips (svc_delete o s) = s_vips s \/
  exists a, dev_holds (s_devs s) o a = true /\ s_vips (svc_delete o s) = snd (release Z.eqb a o (s_vips s)).
Proof.
  rewrite svc_delete_vips. destruct (dget o (s_devs s)) as [d|] eqn:E; [|left; reflexivity].
  destruct (d_ip d) as [a|] eqn:E2; [|left; reflexivity]. right. exists a. split; [|reflexivity].
  apply dev_holds_iff. exists d; auto.
Qed.

Lemma svc_delete_incl o s e : In e (s_vips (svc_delete o s)) -> In e (s_vips s).
Proof.
  destruct (svc_delete_vips_cases o s) as [H|[a [_ H]]]; rewrite H; [auto|]. apply (release_incl Z.eqb).
Qed.

Lemma svc_delete_NoDup o s : NoDup (keys (s_vips s)) -> NoDup (keys (s_vips (svc_delete o s))).
Proof.
  intros Hnd. destruct (svc_delete_vips_cases o s) as [H|[a [_ H]]]; rewrite H; [exact Hnd|].
  apply (release_NoDup Z.eqb). exact Hnd.
Qed.

Lemma svc_delete_keeps x s k o :
  NoDup (keys (s_vips s)) -> In (k, o) (s_vips s) ->
  ~ (x = o /\ dev_holds (s_devs s) o k = true) -> In (k, o) (s_vips (svc_delete x s)).
Proof.
  intros Hnd Hin Hne. destruct (svc_delete_vips_cases x s) as [H|[a [Ha H]]]; rewrite H; [exact Hin|].
  apply (release_keeps Z.eqb zeqb_spec); auto. intros [E1 E2]; subst. apply Hne. auto.
Qed.

Lemma dev_holds_ddel x m o a : dev_holds (ddel x m) o a = true -> x <> o /\ dev_holds m o a = true.
Proof.
  unfold dev_holds. destruct (Z.eq_dec x o) as [->|Hne].
  - rewrite dget_ddel_same. discriminate.
  - rewrite dget_ddel_other by exact Hne. auto.
Qed.

Lemma svc_delete_consistent x s :
  NoDup (keys (s_vips s)) -> dev_consistent s -> dev_consistent (svc_delete x s).
Proof.
  intros Hnd Hc o a Hh. destruct (svc_delete_frame x s) as (_ & _ & _ & _ & _ & Hd). rewrite Hd in Hh.
  apply dev_holds_ddel in Hh as [Hne Hh]. pose proof (Hc o a Hh) as Hl.
  destruct (svc_delete_vips_cases x s) as [H|[b [Hb H]]]; rewrite H; [exact Hl|].
  destruct (release_cases Z.eqb b x (s_vips s)) as [[H1 _]|[H1 H2]]; rewrite H1; [exact Hl|].
  apply (lookup_remove_other Z.eqb zeqb_spec); [exact Hl|]. intros E; subst. congruence.
Qed.

(** ** the stale-device loop of synchronize *)
Definition del_all (l : list Z) (s : state) : state := fold_left (fun st o => svc_delete o st) l s.

Lemma del_all_frame l : forall s,
  s_rules (del_all l s) = s_rules s /\ s_specs (del_all l s) = s_specs s /\
  s_res (del_all l s) = s_res s /\ s_apps (del_all l s) = s_apps s.
Proof.
  induction l as [|x l IH]; intros s; cbn; [repeat split; reflexivity|].
  destruct (IH (svc_delete x s)) as (H1 & H2 & H3 & H4).
  destruct (svc_delete_frame x s) as (G1 & G2 & G3 & G4 & _). unfold del_all in *. cbn.
  rewrite H1, H2, H3, H4. auto.
Qed.

Lemma del_all_dget l : forall s x,
  dget x (s_devs (del_all l s)) = if mem_z x l then None else dget x (s_devs s).
Proof.
  induction l as [|y l IH]; intros s x; cbn; [reflexivity|]. unfold del_all in *. cbn. rewrite IH.
  destruct (svc_delete_frame y s) as (_ & _ & _ & _ & _ & Hd). rewrite Hd.
  destruct (y =? x) eqn:E; cbn.
  - apply Z.eqb_eq in E; subst. rewrite dget_ddel_same. destruct (mem_z x l); reflexivity.
  - apply Z.eqb_neq in E. rewrite dget_ddel_other by exact E. reflexivity.
Qed.

Lemma del_all_dkeys l : forall s, NoDup (map fst (s_devs s)) -> NoDup (map fst (s_devs (del_all l s))).
Proof.
  induction l as [|y l IH]; intros s H; cbn; [exact H|]. unfold del_all in *. cbn. apply IH.
  destruct (svc_delete_frame y s) as (_ & _ & _ & _ & _ & Hd). rewrite Hd. apply dkeys_ddel. exact H.
Qed.

Lemma del_all_incl l : forall s e, In e (s_vips (del_all l s)) -> In e (s_vips s).
Proof.
  induction l as [|y l IH]; intros s e H; cbn in *; [exact H|]. unfold del_all in *. cbn in H.
  apply IH in H. apply (svc_delete_incl y s e H).
Qed.

Lemma del_all_NoDup l : forall s, NoDup (keys (s_vips s)) -> NoDup (keys (s_vips (del_all l s))).
Proof.
  induction l as [|y l IH]; intros s H; cbn; [exact H|]. unfold del_all in *. cbn. apply IH.
  apply svc_delete_NoDup. exact H.
Qed.

Lemma del_all_keeps l : forall s k o,
  NoDup (keys (s_vips s)) -> In (k, o) (s_vips s) ->
  ~ (In o l /\ dev_holds (s_devs s) o k = true) -> In (k, o) (s_vips (del_all l s)).
Proof.
  induction l as [|x l IH]; intros s k o Hnd Hin Hne; cbn; [exact Hin|]. unfold del_all in *. cbn.
  apply IH.
  - apply svc_delete_NoDup. exact Hnd.
  - apply svc_delete_keeps; auto. intros [E H]; subst. apply Hne. split; [left; reflexivity|exact H].
  - intros [H1 H2]. destruct (svc_delete_frame x s) as (_ & _ & _ & _ & _ & Hd). rewrite Hd in H2.
    apply dev_holds_ddel in H2 as [_ H2]. apply Hne. split; [right; exact H1|exact H2].
Qed.

Lemma del_all_frees l : forall s k o,
  NoDup (keys (s_vips s)) -> In o l -> dev_holds (s_devs s) o k = true -> ~ In (k, o) (s_vips (del_all l s)).
Proof.
  induction l as [|x l IH]; intros s k o Hnd Hin Hh; [contradiction|]. unfold del_all in *. cbn.
  destruct (Z.eq_dec x o) as [->|Hne].
  - intros H. apply del_all_incl in H. revert H. rewrite svc_delete_vips.
    apply dev_holds_iff in Hh as [d [H1 H2]]. rewrite H1, H2. apply (release_gone Z.eqb zeqb_spec). exact Hnd.
  - destruct Hin as [Hin|Hin]; [contradiction|]. apply IH; [apply svc_delete_NoDup; exact Hnd|exact Hin|].
    destruct (svc_delete_frame x s) as (_ & _ & _ & _ & _ & Hd). rewrite Hd.
    unfold dev_holds in *. rewrite dget_ddel_other by exact Hne. exact Hh.
Qed.

Lemma del_all_consistent l : forall s,
  NoDup (keys (s_vips s)) -> dev_consistent s -> dev_consistent (del_all l s).
Proof.
  induction l as [|x l IH]; intros s Hnd Hc; cbn; [exact Hc|]. unfold del_all in *. cbn.
  apply IH; [apply svc_delete_NoDup; exact Hnd|apply svc_delete_consistent; assumption].
Qed.

Definition stale_owners (m : devs) : list Z := map fst (filter (fun e => d_stale (snd e)) m).

Lemma stale_owners_In m o : NoDup (map fst m) -> (In o (stale_owners m) <-> dev_stale m o = true).
Proof.
  intros Hnd. unfold stale_owners, dev_stale. split.
  - intros H. apply in_map_iff in H as [[k d] [H1 H2]]. cbn in H1; subst. apply filter_In in H2 as [H2 H3].
    rewrite (dget_NoDup _ _ _ Hnd H2). exact H3.
  - destruct (dget o m) as [d|] eqn:E; [|discriminate]. intros H. apply dget_In in E.
    apply in_map_iff. exists (o, d). split; [reflexivity|]. apply filter_In. auto.
Qed.

(** ** on_create_request *)
Inductive create_outcome (c : cidr) (o env : Z) (s : state) : state -> res -> Prop :=
| CreateFail r : (forall a, r <> RAddr a) -> create_outcome c o env s s r
| CreateNew a s' :
    dget o (s_devs s) = None -> zlookup a (s_vips s) = None -> in_cidr c a = true ->
    (4 <= c_size c -> is_host c a = true) ->
    s_vips s' = s_vips s ++ [(a, o)] ->
    s_devs s' = dset o {| d_ip := Some a; d_dev := true; d_env := Some env; d_stale := false |} (s_devs s) ->
    s_rules s' = s_rules s -> s_specs s' = s_specs s -> s_res s' = s_res s -> s_apps s' = s_apps s ->
    create_outcome c o env s s' (RAddr a)
| CreateReuse a s' :
    dev_holds (s_devs s) o a = true ->
    s_vips s' = s_vips s ->
    s_devs s' = dset o {| d_ip := Some a; d_dev := true; d_env := Some env; d_stale := false |} (s_devs s) ->
    s_rules s' = s_rules s -> s_specs s' = s_specs s -> s_res s' = s_res s -> s_apps s' = s_apps s ->
    create_outcome c o env s s' (RAddr a).

Lemma svc_create_outcome c o env s :
  create_outcome c o env s (fst (svc_create c o env s)) (snd (svc_create c o env s)).
Proof.
  unfold svc_create. destruct (dget o (s_devs s)) as [d|] eqn:E.
  - destruct (d_ip d) as [a|] eqn:E2; [|cbn; constructor; congruence].
    assert (Hh : dev_holds (s_devs s) o a = true) by (apply dev_holds_iff; exists d; auto).
    destruct (d_dev d); cbn; apply CreateReuse; auto.
  - pose proof (vip_alloc_outcome c o None (s_vips s)) as Ha.
    destruct (vip_alloc c o None (s_vips s)) as [r t'] eqn:E2. cbn in Ha.
    inversion Ha as [r' Hr|a H1 H2 H3 H4 H5]; subst.
    + destruct r; cbn; try (constructor; congruence).
    + cbn. apply CreateNew; auto.
Qed.

Lemma svc_create_outcome' c o env s s' r : svc_create c o env s = (s', r) -> create_outcome c o env s s' r.
Proof. intros E. pose proof (svc_create_outcome c o env s) as H. rewrite E in H. exact H. Qed.

(** ** a new service instance: initialize() *)
Definition restart_step (m : devs) (e : Z * Z) : devs :=
  let (a, o) := e in
  match dget o m with
  | Some d => dset o {| d_ip := Some a; d_dev := d_dev d; d_env := d_env d; d_stale := true |} m
  | None => dset o {| d_ip := Some a; d_dev := false; d_env := None; d_stale := true |} m
  end.

Lemma svc_restart_devs s :
  s_devs (svc_restart s) =
  fold_left restart_step (s_vips s)
    (fold_left (fun m o => dset o {| d_ip := None; d_dev := true; d_env := None; d_stale := true |} m) (s_veth s) []).
Proof. reflexivity. Qed.

Lemma restart_step_keys m e : NoDup (map fst m) -> NoDup (map fst (restart_step m e)).
Proof. destruct e as [a o]. unfold restart_step. destruct (dget o m); apply dkeys_dset. Qed.

Lemma fold_restart_keys l : forall m, NoDup (map fst m) -> NoDup (map fst (fold_left restart_step l m)).
Proof. induction l as [|e l IH]; intros m H; cbn; [exact H|]. apply IH. apply restart_step_keys. exact H. Qed.

Lemma fold_veth_keys l : forall m, NoDup (map fst m) ->
  NoDup (map fst (fold_left (fun m o => dset o {| d_ip := None; d_dev := true; d_env := None; d_stale := true |} m) l m)).
Proof. induction l as [|e l IH]; intros m H; cbn; [exact H|]. apply IH. apply dkeys_dset. exact H. Qed.

Lemma fold_veth_noip l : forall m, (forall o a, dev_holds m o a = false) ->
  forall o a, dev_holds (fold_left (fun m o => dset o {| d_ip := None; d_dev := true; d_env := None; d_stale := true |} m) l m) o a = false.
Proof.
  induction l as [|x l IH]; intros m H; cbn; [exact H|]. apply IH. intros o a. unfold dev_holds.
  destruct (Z.eq_dec x o) as [->|Hne]; [rewrite dget_dset_same; reflexivity|].
  rewrite dget_dset_other by exact Hne. apply H.
Qed.

Lemma fold_restart_holds (t : @table Z) l : forall m,
  (forall e, In e l -> In e t) ->
  (forall o a, dev_holds m o a = true -> In (a, o) t) ->
  forall o a, dev_holds (fold_left restart_step l m) o a = true -> In (a, o) t.
Proof.
  induction l as [|[b x] l IH]; intros m Hl Hm; cbn; [exact Hm|]. apply IH; [intros e He; apply Hl; right; exact He|].
  intros o a. unfold dev_holds. unfold restart_step.
  destruct (Z.eq_dec x o) as [->|Hne].
  - destruct (dget o m); rewrite dget_dset_same; cbn; intros H; apply Z.eqb_eq in H; subst; apply Hl; left; reflexivity.
  - destruct (dget x m); rewrite dget_dset_other by exact Hne; apply Hm.
Qed.

Lemma fold_restart_stale l : forall m,
  (forall o d, dget o m = Some d -> d_stale d = true) ->
  forall o d, dget o (fold_left restart_step l m) = Some d -> d_stale d = true.
Proof.
  induction l as [|[b x] l IH]; intros m Hm; cbn; [exact Hm|]. apply IH. intros o d. unfold restart_step.
  destruct (Z.eq_dec x o) as [->|Hne].
  - destruct (dget o m); rewrite dget_dset_same; intros H; inversion H; reflexivity.
  - destruct (dget x m); rewrite dget_dset_other by exact Hne; apply Hm.
Qed.

Lemma svc_restart_consistent s : NoDup (keys (s_vips s)) -> dev_consistent (svc_restart s).
Proof.
  intros Hnd o a Hh. change (s_vips (svc_restart s)) with (s_vips s). rewrite svc_restart_devs in Hh.
  apply (NoDup_lookup Z.eqb zeqb_spec); [exact Hnd|].
  revert Hh. apply fold_restart_holds; [auto|].
  intros o' a' H. rewrite fold_veth_noip in H; [discriminate|]. intros; reflexivity.
Qed.

(** ** synchronize *)
Lemma svc_sync_cases s :
  let s1 := del_all (stale_owners (s_devs s)) s in
  (fst (svc_sync s) = set_vips s1 (gc (s_res s1) (s_vips s1)) /\ snd (svc_sync s) = ROk) \/
  (fst (svc_sync s) = s1 /\ snd (svc_sync s) = RKey).
Proof.
  cbn. unfold svc_sync. fold (stale_owners (s_devs s)). fold (del_all (stale_owners (s_devs s)) s).
  destruct (forallb _ _); cbn; [left|right]; auto.
Qed.

(** * Every operation preserves well-formedness *)
Lemma set_vips_id s : set_vips s (s_vips s) = s.
Proof. destruct s; reflexivity. Qed.
Lemma set_rules_id s : set_rules s (s_rules s) = s.
Proof. destruct s; reflexivity. Qed.
Lemma set_specs_id s : set_specs s (s_specs s) = s.
Proof. destruct s; reflexivity. Qed.

Lemma Forall_incl {A} (P : A -> Prop) (l l' : list A) : (forall e, In e l' -> In e l) -> Forall P l -> Forall P l'.
Proof. intros Hi H. apply Forall_forall. intros e He. rewrite Forall_forall in H. apply H. apply Hi. exact He. Qed.

Lemma Forall_snoc {A} (P : A -> Prop) (l : list A) x : Forall P l -> P x -> Forall P (l ++ [x]).
Proof. intros H Hx. apply Forall_app. split; [exact H|constructor; [exact Hx|constructor]]. Qed.

Lemma unlink_spec_cases k x (t : @table spec) :
  unlink_spec k x t = t \/ unlink_spec k x t = remove spec_eqb k t.
Proof.
  unfold unlink_spec. destruct x as [o|]; [|right; reflexivity].
  destruct (release_cases spec_eqb k o t) as [[H _]|[H _]]; rewrite H; auto.
Qed.

Lemma step_wf c p s : wf c s -> wf c (fst (step c p s)).
Proof.
  intros (Hv & Hr & Hs & Hd & Hc). destruct p; unfold wf; cbn [step fst].
  - cbn. repeat split; assumption.
  - cbn. repeat split; assumption.
  - cbn. repeat split; assumption.
  - cbn. repeat split; assumption.
  - cbn. repeat split; assumption.
  - (* VipAlloc *)
    pose proof (vip_alloc_outcome c o picked (s_vips s)) as Ha.
    destruct (vip_alloc c o picked (s_vips s)) as [r t] eqn:E. cbn in Ha. cbn.
    inversion Ha as [r' Hr'|a H1 H2 H3 H4 H5]; subst; repeat split; try assumption.
    + apply (NoDup_snoc Z.eqb zeqb_spec); assumption.
    + apply Forall_snoc; assumption.
  - (* VipFree *)
    cbn. repeat split; try assumption.
    + apply (release_NoDup Z.eqb). exact Hv.
    + revert Hc. apply Forall_incl. intros e. apply (release_incl Z.eqb).
  - (* VipGc *)
    cbn. repeat split; try assumption.
    + apply NoDup_filter. exact Hv.
    + revert Hc. apply Forall_incl. intros e He. apply filter_In in He. tauto.
  - (* RuleCreate *)
    destruct (create_tolerant Z.eqb k o o (s_rules s)) as [t|] eqn:E; cbn; repeat split; try assumption.
    apply create_tolerant_cases in E as [[E1 ->]|[-> _]]; [|exact Hr].
    apply (NoDup_snoc Z.eqb zeqb_spec); assumption.
  - cbn. repeat split; try assumption. apply (release_NoDup Z.eqb). exact Hr.
  - cbn. repeat split; try assumption. apply NoDup_filter. exact Hr.
  - (* SpecCreate *)
    destruct (create_tolerant spec_eqb k o (sp_app k) (s_specs s)) as [t|] eqn:E; cbn; repeat split; try assumption.
    apply create_tolerant_cases in E as [[E1 ->]|[-> _]]; [|exact Hs].
    apply (NoDup_snoc spec_eqb spec_eqb_spec); assumption.
  - cbn. repeat split; try assumption.
    destruct (unlink_spec_cases k o (s_specs s)) as [H|H]; rewrite H; [exact Hs|apply NoDup_filter; exact Hs].
  - cbn. repeat split; try assumption. apply NoDup_filter. exact Hs.
  - cbn. repeat split; try assumption. apply NoDup_filter. exact Hs.
  - (* SvcCreate *)
    cbn. destruct (svc_create c o env s) as [s'' r''] eqn:Ecr. apply svc_create_outcome' in Ecr. cbn.
    inversion Ecr as [r Hr'|a s' H1 H2 H3 H4 H5 H6 H7 H8 H9 H10|a s' H1 H2 H3 H4 H5 H6 H7]; subst.
    + repeat split; assumption.
    + rewrite H5, H6, H7, H8. repeat split; try assumption.
      * apply (NoDup_snoc Z.eqb zeqb_spec); assumption.
      * apply dkeys_dset. exact Hd.
      * apply Forall_snoc; assumption.
    + rewrite H2, H3, H4, H5. repeat split; try assumption. apply dkeys_dset. exact Hd.
  - (* SvcDelete *)
    destruct (svc_delete_frame o s) as (G1 & G2 & G3 & G4 & G5 & G6). rewrite G1, G2, G6.
    repeat split; try assumption.
    + apply svc_delete_NoDup. exact Hv.
    + apply dkeys_ddel. exact Hd.
    + revert Hc. apply Forall_incl. intros e. apply svc_delete_incl.
  - (* SvcSync *)
    pose proof (svc_sync_cases s) as Hy. cbn in Hy.
    set (s1 := del_all (stale_owners (s_devs s)) s) in *.
    destruct (del_all_frame (stale_owners (s_devs s)) s) as (G1 & G2 & G3 & G4). fold s1 in G1, G2, G3, G4.
    assert (W1 : NoDup (keys (s_vips s1))) by (apply del_all_NoDup; exact Hv).
    assert (W2 : NoDup (map fst (s_devs s1))) by (apply del_all_dkeys; exact Hd).
    assert (W3 : Forall (fun e => in_cidr c (fst e) = true) (s_vips s1))
      by (revert Hc; apply Forall_incl; intros e; apply del_all_incl).
    destruct Hy as [[Hy _]|[Hy _]]; rewrite Hy; cbn; rewrite ?G1, ?G2; repeat split; try assumption.
    + apply NoDup_filter. exact W1.
    + revert W3. apply Forall_incl. intros e He. apply filter_In in He. tauto.
  - (* SvcRestart *)
    change (s_vips (svc_restart s)) with (s_vips s). change (s_rules (svc_restart s)) with (s_rules s).
    change (s_specs (svc_restart s)) with (s_specs s). repeat split; try assumption.
    rewrite svc_restart_devs. apply fold_restart_keys. apply fold_veth_keys. constructor.
Qed.

Lemma run_wf c ops : forall s, wf c s -> wf c (run c ops s).
Proof. induction ops as [|p r IH]; intros s H; cbn; [exact H|]. apply IH. apply step_wf. exact H. Qed.

Lemma wf_empty c : wf c empty_state.
Proof. unfold wf; cbn. repeat split; constructor. Qed.

(** * Only the owner's release (or a collection while the owner is gone) removes an entry *)
Lemma negb_mem_false o l : negb (mem_z o l) = false -> In o l.
Proof. intros H. apply mem_z_In. destruct (mem_z o l); [reflexivity|discriminate]. Qed.

Lemma step_keeps_vip c p s k o :
  wf c s -> In (k, o) (s_vips s) -> may_remove_vip s p k o = false -> In (k, o) (s_vips (fst (step c p s))).
Proof.
  intros (Hv & _ & _ & Hd & _) Hin Hm. destruct p; cbn [step fst]; try exact Hin.
  - (* VipAlloc *)
    pose proof (vip_alloc_outcome c o0 picked (s_vips s)) as Ha.
    destruct (vip_alloc c o0 picked (s_vips s)) as [r t]. cbn in *.
    inversion Ha; subst; [exact Hin|apply in_or_app; left; exact Hin].
  - (* VipFree *)
    cbn in *. apply (release_keeps Z.eqb zeqb_spec); auto. intros [E1 E2]; subst.
    rewrite !Z.eqb_refl in Hm. discriminate.
  - (* VipGc *)
    cbn in *. apply gc_In. split; [exact Hin|]. cbn. apply negb_mem_false. exact Hm.
  - destruct (create_tolerant Z.eqb k0 o0 o0 (s_rules s)); exact Hin.
  - destruct (create_tolerant spec_eqb k0 o0 (sp_app k0) (s_specs s)); exact Hin.
  - (* SvcCreate *)
    destruct (svc_create c o0 env s) as [s' r] eqn:E. apply svc_create_outcome' in E. cbn.
    inversion E as [r' Hr'|a s1 H1 H2 H3 H4 H5 H6 H7 H8 H9 H10|a s1 H1 H2 H3 H4 H5 H6 H7]; subst; try exact Hin.
    + rewrite H5. apply in_or_app; left; exact Hin.
    + rewrite H2. exact Hin.
  - (* SvcDelete *)
    cbn in *. apply svc_delete_keeps; auto. intros [E1 E2]; subst. rewrite Z.eqb_refl, E2 in Hm. discriminate.
  - (* SvcSync *)
    cbn in Hm. apply orb_false_iff in Hm as [Hm1 Hm2]. apply negb_mem_false in Hm2.
    assert (Hk : In (k, o) (s_vips (del_all (stale_owners (s_devs s)) s))).
    { apply del_all_keeps; auto. intros [G1 G2]. apply (stale_owners_In _ _ Hd) in G1. rewrite G1, G2 in Hm1. discriminate. }
    destruct (svc_sync_cases s) as [[Hy _]|[Hy _]]; rewrite Hy; [|exact Hk].
    cbn. apply gc_In. split; [exact Hk|]. cbn.
    destruct (del_all_frame (stale_owners (s_devs s)) s) as (_ & _ & G3 & _). rewrite G3. exact Hm2.
Qed.

Lemma step_keeps_rule c p s k o :
  wf c s -> In (k, o) (s_rules s) -> may_remove_rule s p k o = false -> In (k, o) (s_rules (fst (step c p s))).
Proof.
  intros (_ & Hr & _) Hin Hm. destruct p; cbn [step fst]; try exact Hin.
  - destruct (vip_alloc c o0 picked (s_vips s)); exact Hin.
  - destruct (create_tolerant Z.eqb k0 o0 o0 (s_rules s)) as [t|] eqn:E; [|exact Hin]. cbn.
    apply create_tolerant_cases in E as [[_ ->]|[-> _]]; [apply in_or_app; left|]; exact Hin.
  - cbn in *. apply (release_keeps Z.eqb zeqb_spec); auto. intros [E1 E2]; subst.
    rewrite !Z.eqb_refl in Hm. discriminate.
  - cbn in *. apply gc_In. split; [exact Hin|]. cbn. apply negb_mem_false. exact Hm.
  - destruct (create_tolerant spec_eqb k0 o0 (sp_app k0) (s_specs s)); exact Hin.
  - destruct (svc_create c o0 env s) as [s' r] eqn:E. apply svc_create_outcome' in E. cbn.
    inversion E; subst; congruence.
  - cbn. destruct (svc_delete_frame o0 s) as (G1 & _). rewrite G1. exact Hin.
  - destruct (del_all_frame (stale_owners (s_devs s)) s) as (G1 & _).
    destruct (svc_sync_cases s) as [[Hy _]|[Hy _]]; rewrite Hy; cbn; rewrite G1; exact Hin.
Qed.

Lemma spec_eqb_false k k' : k <> k' -> spec_eqb k k' = false.
Proof. intros H. destruct (spec_eqb k k') eqn:E; [apply spec_eqb_spec in E; contradiction|reflexivity]. Qed.

Lemma opt_matches_some x o : opt_matches (Some x) o = true <-> x = o.
Proof. cbn. apply Z.eqb_eq. Qed.

Lemma step_keeps_spec c p s k o :
  wf c s -> In (k, o) (s_specs s) -> may_remove_spec s p k o = false -> In (k, o) (s_specs (fst (step c p s))).
Proof.
  intros (_ & _ & Hs & _) Hin Hm. destruct p; cbn [step fst]; try exact Hin.
  - destruct (vip_alloc c o0 picked (s_vips s)); exact Hin.
  - destruct (create_tolerant Z.eqb k0 o0 o0 (s_rules s)); exact Hin.
  - destruct (create_tolerant spec_eqb k0 o0 (sp_app k0) (s_specs s)) as [t|] eqn:E; [|exact Hin]. cbn.
    apply create_tolerant_cases in E as [[_ ->]|[-> _]]; [apply in_or_app; left|]; exact Hin.
  - (* SpecUnlink *)
    cbn in *. unfold unlink_spec. destruct o0 as [x|].
    + apply (release_keeps spec_eqb spec_eqb_spec); auto. intros [E1 E2]; subst.
      rewrite (proj2 (spec_eqb_spec k k) eq_refl) in Hm. cbn in Hm. rewrite Z.eqb_refl in Hm. discriminate.
    + apply (In_remove spec_eqb spec_eqb_spec). split; [exact Hin|]. intros E; subst.
      rewrite (proj2 (spec_eqb_spec k0 k0) eq_refl) in Hm. discriminate.
  - (* SpecUnlinkAll *)
    cbn in *. unfold unlink_all. apply filter_In. split; [exact Hin|]. cbn. rewrite Hm. reflexivity.
  - cbn in *. apply gc_In. split; [exact Hin|]. cbn. apply negb_mem_false. exact Hm.
  - destruct (svc_create c o0 env s) as [s' r] eqn:E. apply svc_create_outcome' in E. cbn.
    inversion E; subst; congruence.
  - cbn. destruct (svc_delete_frame o0 s) as (_ & G2 & _). rewrite G2. exact Hin.
  - destruct (del_all_frame (stale_owners (s_devs s)) s) as (_ & G2 & _).
    destruct (svc_sync_cases s) as [[Hy _]|[Hy _]]; rewrite Hy; cbn; rewrite G2; exact Hin.
Qed.

(** * A new entry is created only for the caller and only on a key nobody held *)
Lemma step_new_vip c p s k o :
  In (k, o) (s_vips (fst (step c p s))) -> ~ In (k, o) (s_vips s) ->
  creates_for p = Some o /\ zlookup k (s_vips s) = None.
Proof.
  intros Hin Hni. destruct p; cbn [step fst] in Hin; try (exfalso; apply Hni; exact Hin).
  - pose proof (vip_alloc_outcome c o0 picked (s_vips s)) as Ha.
    destruct (vip_alloc c o0 picked (s_vips s)) as [r t]. cbn in *.
    inversion Ha; subst; [contradiction|]. apply in_app_or in Hin as [Hin|[Hin|[]]]; [contradiction|].
    inversion Hin; subst. auto.
  - cbn in Hin. apply (release_incl Z.eqb) in Hin. contradiction.
  - cbn in Hin. apply gc_In in Hin as [Hin _]. contradiction.
  - destruct (create_tolerant Z.eqb k0 o0 o0 (s_rules s)); cbn in Hin; contradiction.
  - destruct (create_tolerant spec_eqb k0 o0 (sp_app k0) (s_specs s)); cbn in Hin; contradiction.
  - destruct (svc_create c o0 env s) as [s' r] eqn:E. apply svc_create_outcome' in E. cbn in *.
    inversion E as [r' Hr'|a s1 H1 H2 H3 H4 H5 H6 H7 H8 H9 H10|a s1 H1 H2 H3 H4 H5 H6 H7]; subst; try contradiction.
    + rewrite H5 in Hin. apply in_app_or in Hin as [Hin|[Hin|[]]]; [contradiction|]. inversion Hin; subst. auto.
    + rewrite H2 in Hin. contradiction.
  - cbn in Hin. apply svc_delete_incl in Hin. contradiction.
  - destruct (svc_sync_cases s) as [[Hy _]|[Hy _]]; rewrite Hy in Hin; cbn in Hin.
    + apply gc_In in Hin as [Hin _]. apply del_all_incl in Hin. contradiction.
    + apply del_all_incl in Hin. contradiction.
Qed.

Lemma step_new_rule c p s k o :
  In (k, o) (s_rules (fst (step c p s))) -> ~ In (k, o) (s_rules s) ->
  creates_for p = Some o /\ zlookup k (s_rules s) = None.
Proof.
  intros Hin Hni. destruct p; cbn [step fst] in Hin; try (exfalso; apply Hni; exact Hin).
  - destruct (vip_alloc c o0 picked (s_vips s)); cbn in Hin; contradiction.
  - destruct (create_tolerant Z.eqb k0 o0 o0 (s_rules s)) as [t|] eqn:E; cbn in Hin; [|contradiction].
    apply create_tolerant_cases in E as [[E1 ->]|[-> _]]; [|contradiction].
    apply in_app_or in Hin as [Hin|[Hin|[]]]; [contradiction|]. inversion Hin; subst. auto.
  - cbn in Hin. apply (release_incl Z.eqb) in Hin. contradiction.
  - cbn in Hin. apply gc_In in Hin as [Hin _]. contradiction.
  - destruct (create_tolerant spec_eqb k0 o0 (sp_app k0) (s_specs s)); cbn in Hin; contradiction.
  - destruct (svc_create c o0 env s) as [s' r] eqn:E. apply svc_create_outcome' in E. cbn in *.
    inversion E; subst; try contradiction; exfalso; apply Hni; congruence.
  - cbn in Hin. destruct (svc_delete_frame o0 s) as (G1 & _). rewrite G1 in Hin. contradiction.
  - destruct (del_all_frame (stale_owners (s_devs s)) s) as (G1 & _).
    destruct (svc_sync_cases s) as [[Hy _]|[Hy _]]; rewrite Hy in Hin; cbn in Hin; rewrite G1 in Hin; contradiction.
Qed.

Lemma step_new_spec c p s k o :
  In (k, o) (s_specs (fst (step c p s))) -> ~ In (k, o) (s_specs s) ->
  creates_for p = Some o /\ slookup k (s_specs s) = None.
Proof.
  intros Hin Hni. destruct p; cbn [step fst] in Hin; try (exfalso; apply Hni; exact Hin).
  - destruct (vip_alloc c o0 picked (s_vips s)); cbn in Hin; contradiction.
  - destruct (create_tolerant Z.eqb k0 o0 o0 (s_rules s)); cbn in Hin; contradiction.
  - destruct (create_tolerant spec_eqb k0 o0 (sp_app k0) (s_specs s)) as [t|] eqn:E; cbn in Hin; [|contradiction].
    apply create_tolerant_cases in E as [[E1 ->]|[-> _]]; [|contradiction].
    apply in_app_or in Hin as [Hin|[Hin|[]]]; [contradiction|]. inversion Hin; subst. auto.
  - cbn in Hin. destruct (unlink_spec_cases k0 o0 (s_specs s)) as [H|H]; rewrite H in Hin; [contradiction|].
    unfold remove in Hin. apply filter_In in Hin as [Hin _]. contradiction.
  - cbn in Hin. unfold unlink_all in Hin. apply filter_In in Hin as [Hin _]. contradiction.
  - cbn in Hin. apply gc_In in Hin as [Hin _]. contradiction.
  - destruct (svc_create c o0 env s) as [s' r] eqn:E. apply svc_create_outcome' in E. cbn in *.
    inversion E; subst; try contradiction; exfalso; apply Hni; congruence.
  - cbn in Hin. destruct (svc_delete_frame o0 s) as (_ & G2 & _). rewrite G2 in Hin. contradiction.
  - destruct (del_all_frame (stale_owners (s_devs s)) s) as (_ & G2 & _).
    destruct (svc_sync_cases s) as [[Hy _]|[Hy _]]; rewrite Hy in Hin; cbn in Hin; rewrite G2 in Hin; contradiction.
Qed.

(** * A release by somebody who is not the holder changes nothing at all *)
Lemma vip_free_noop c x a s : zlookup a (s_vips s) <> Some x -> fst (step c (VipFree x a) s) = s.
Proof. intros H. cbn. rewrite (release_noop Z.eqb) by exact H. apply set_vips_id. Qed.

Lemma rule_unlink_noop c k x s : zlookup k (s_rules s) <> Some x -> fst (step c (RuleUnlink k x) s) = s.
Proof. intros H. cbn. rewrite (release_noop Z.eqb) by exact H. apply set_rules_id. Qed.

Lemma spec_unlink_noop c k x s : slookup k (s_specs s) <> Some x -> fst (step c (SpecUnlink k (Some x)) s) = s.
Proof. intros H. cbn. rewrite (release_noop spec_eqb) by exact H. apply set_specs_id. Qed.

Lemma filter_all_true {A} (f : A -> bool) l : (forall e, In e l -> f e = true) -> filter f l = l.
Proof.
  induction l as [|x l IH]; cbn; intros H; [reflexivity|]. rewrite (H x) by (left; reflexivity).
  rewrite IH; [reflexivity|]. intros e He. apply H. right; exact He.
Qed.

(** unlink_all by an owner that holds none of the matching entries *)
Lemma spec_unlink_all_noop c a pr e x s :
  (forall k o, In (k, o) (s_specs s) -> spec_matches a pr e k = true -> o <> x) ->
  fst (step c (SpecUnlinkAll a pr e (Some x)) s) = s.
Proof.
  intros H. cbn. unfold unlink_all. rewrite filter_all_true; [apply set_specs_id|].
  intros [k o] Hin. cbn. destruct (spec_matches a pr e k) eqn:E; [|reflexivity]. cbn.
  destruct (x =? o) eqn:E2; [|reflexivity]. apply Z.eqb_eq in E2. exfalso. apply (H k o Hin E). auto.
Qed.

(** * Garbage collection removes exactly the entries whose owner does not exist *)
Lemma vip_gc_exact c s :
  let s' := fst (step c VipGc s) in
  (forall k o, In (k, o) (s_vips s') <-> In (k, o) (s_vips s) /\ In o (s_res s)) /\
  s_rules s' = s_rules s /\ s_specs s' = s_specs s /\ s_res s' = s_res s /\ s_apps s' = s_apps s /\
  s_devs s' = s_devs s /\ s_veth s' = s_veth s.
Proof. cbn. split; [intros k o; exact (gc_In (s_res s) (k, o) (s_vips s))|repeat split; reflexivity]. Qed.

Lemma rule_gc_exact c s :
  let s' := fst (step c RuleGc s) in
  (forall k o, In (k, o) (s_rules s') <-> In (k, o) (s_rules s) /\ In o (s_apps s)) /\
  s_vips s' = s_vips s /\ s_specs s' = s_specs s /\ s_res s' = s_res s /\ s_apps s' = s_apps s /\
  s_devs s' = s_devs s /\ s_veth s' = s_veth s.
Proof. cbn. split; [intros k o; exact (gc_In (s_apps s) (k, o) (s_rules s))|repeat split; reflexivity]. Qed.

Lemma spec_gc_exact c s :
  let s' := fst (step c SpecGc s) in
  (forall k o, In (k, o) (s_specs s') <-> In (k, o) (s_specs s) /\ In o (s_apps s)) /\
  s_vips s' = s_vips s /\ s_rules s' = s_rules s /\ s_res s' = s_res s /\ s_apps s' = s_apps s /\
  s_devs s' = s_devs s /\ s_veth s' = s_veth s.
Proof. cbn. split; [intros k o; exact (gc_In (s_apps s) (k, o) (s_specs s))|repeat split; reflexivity]. Qed.

(** order of the surviving entries is untouched as well: the result is a filter of the old directory *)
Lemma vip_gc_is_filter c s : s_vips (fst (step c VipGc s)) = filter (fun e => mem_z (snd e) (s_res s)) (s_vips s).
Proof. reflexivity. Qed.

(** synchronize: stale devices are deleted and their addresses freed; otherwise only dead owners lose entries *)
Lemma svc_sync_exact c s :
  wf c s ->
  let s' := fst (step c SvcSync s) in
  (forall o, dev_stale (s_devs s) o = true -> dget o (s_devs s') = None) /\
  (forall o d, dget o (s_devs s') = Some d -> d_stale d = false /\ dget o (s_devs s) = Some d) /\
  (forall o k, dev_stale (s_devs s) o = true -> dev_holds (s_devs s) o k = true -> ~ In (k, o) (s_vips s')) /\
  (forall k o, In (k, o) (s_vips s') -> In (k, o) (s_vips s)) /\
  (snd (step c SvcSync s) = ROk -> forall k o, In (k, o) (s_vips s') -> In o (s_res s)) /\
  s_rules s' = s_rules s /\ s_specs s' = s_specs s /\ s_res s' = s_res s /\ s_apps s' = s_apps s.
Proof.
  intros (Hv & _ & _ & Hd & _). cbn [step].
  set (l := stale_owners (s_devs s)). set (s1 := del_all l s).
  destruct (del_all_frame l s) as (G1 & G2 & G3 & G4). fold s1 in G1, G2, G3, G4.
  assert (Hdev : forall s', (s' = set_vips s1 (gc (s_res s1) (s_vips s1)) \/ s' = s1) -> s_devs s' = s_devs s1).
  { intros s' [->| ->]; reflexivity. }
  assert (Hincl : forall s', (s' = set_vips s1 (gc (s_res s1) (s_vips s1)) \/ s' = s1) ->
                             forall e, In e (s_vips s') -> In e (s_vips s1)).
  { intros s' [->| ->] e He; [cbn in He; apply gc_In in He; tauto|exact He]. }
  assert (Hcase : fst (svc_sync s) = set_vips s1 (gc (s_res s1) (s_vips s1)) \/ fst (svc_sync s) = s1).
  { destruct (svc_sync_cases s) as [[Hy _]|[Hy _]]; [left|right]; exact Hy. }
  cbn. repeat split.
  - intros o Ho. rewrite (Hdev _ Hcase). unfold s1, l. rewrite del_all_dget.
    apply (stale_owners_In _ _ Hd) in Ho. apply mem_z_In in Ho. rewrite Ho. reflexivity.
  - rewrite (Hdev _ Hcase) in H. unfold s1, l in H. rewrite del_all_dget in H.
    destruct (mem_z o (stale_owners (s_devs s))) eqn:E; [discriminate|]. destruct (d_stale d) eqn:E2; [|reflexivity].
    exfalso. assert (In o (stale_owners (s_devs s))) as Hl.
    { apply (stale_owners_In _ _ Hd). unfold dev_stale. rewrite H. exact E2. }
    apply mem_z_In in Hl. congruence.
  - rewrite (Hdev _ Hcase) in H. unfold s1, l in H. rewrite del_all_dget in H.
    destruct (mem_z o (stale_owners (s_devs s))); [discriminate|exact H].
  - intros o k Ho Hh Hin. apply (Hincl _ Hcase) in Hin. revert Hin. apply del_all_frees; auto.
    apply (stale_owners_In _ _ Hd). exact Ho.
  - intros k o Hin. apply (Hincl _ Hcase) in Hin. apply del_all_incl in Hin. exact Hin.
  - intros Hr k o Hin. destruct (svc_sync_cases s) as [[Hy _]|[_ Hy]]; [|fold l in Hy; congruence].
    fold l in Hy. fold s1 in Hy. rewrite Hy in Hin. cbn in Hin. apply gc_In in Hin as [_ Hin]. cbn in Hin.
    rewrite G3 in Hin. exact Hin.
  - destruct Hcase as [H|H]; rewrite H; cbn; assumption.
  - destruct Hcase as [H|H]; rewrite H; cbn; assumption.
  - destruct Hcase as [H|H]; rewrite H; cbn; assumption.
  - destruct Hcase as [H|H]; rewrite H; cbn; assumption.
Qed.

(** * Repeated requests to the network service *)
Lemma svc_create_reuse c o env s a :
  dev_holds (s_devs s) o a = true ->
  snd (svc_create c o env s) = RAddr a /\ s_vips (fst (svc_create c o env s)) = s_vips s /\
  dev_holds (s_devs (fst (svc_create c o env s))) o a = true /\
  (forall x, x <> o -> dget x (s_devs (fst (svc_create c o env s))) = dget x (s_devs s)).
Proof.
  intros Hh. apply dev_holds_iff in Hh as [d [H1 H2]]. unfold svc_create. rewrite H1, H2.
  destruct (d_dev d); cbn; (repeat split; [unfold dev_holds; rewrite dget_dset_same; cbn; apply Z.eqb_refl|
    intros x Hx; apply dget_dset_other; auto]).
Qed.

(** after a successful create the device is recorded with the returned address *)
Lemma svc_create_records c o env s a :
  snd (svc_create c o env s) = RAddr a -> dev_holds (s_devs (fst (svc_create c o env s))) o a = true.
Proof.
  destruct (svc_create c o env s) as [s' r] eqn:E. apply svc_create_outcome' in E. cbn. intros ->.
  inversion E as [r' Hr'|b s1 G1 G2 G3 G4 G5 G6 G7 G8 G9 G10|b s1 G1 G2 G3 G4 G5 G6 G7]; subst.
  - exfalso. apply (Hr' a). reflexivity.
  - rewrite G6. unfold dev_holds. rewrite dget_dset_same. cbn. apply Z.eqb_refl.
  - rewrite G3. unfold dev_holds. rewrite dget_dset_same. cbn. apply Z.eqb_refl.
Qed.

(** operations other than the owner's delete request, synchronize and a restart keep the device's address *)
Lemma step_keeps_dev c p s o a :
  keeps_dev o p = true -> dev_holds (s_devs s) o a = true -> dev_holds (s_devs (fst (step c p s))) o a = true.
Proof.
  intros Hk Hh. destruct p; cbn [step fst]; try exact Hh; try discriminate.
  - destruct (vip_alloc c o0 picked (s_vips s)); exact Hh.
  - destruct (create_tolerant Z.eqb k o0 o0 (s_rules s)); exact Hh.
  - destruct (create_tolerant spec_eqb k o0 (sp_app k) (s_specs s)); exact Hh.
  - destruct (Z.eq_dec o0 o) as [->|Hne].
    + apply svc_create_reuse. exact Hh.
    + destruct (svc_create c o0 env s) as [s' r] eqn:E. apply svc_create_outcome' in E. cbn.
      inversion E as [r' Hr'|b s1 G1 G2 G3 G4 G5 G6 G7 G8 G9 G10|b s1 G1 G2 G3 G4 G5 G6 G7]; subst; try exact Hh.
      * rewrite G6. unfold dev_holds in *. rewrite dget_dset_other by exact Hne. exact Hh.
      * rewrite G3. unfold dev_holds in *. rewrite dget_dset_other by exact Hne. exact Hh.
  - cbn in Hk. destruct (svc_delete_frame o0 s) as (_ & _ & _ & _ & _ & G). cbn. rewrite G.
    unfold dev_holds in *. rewrite dget_ddel_other; [exact Hh|]. intros E; subst. rewrite Z.eqb_refl in Hk. discriminate.
Qed.

Lemma run_keeps_dev c ops : forall s o a,
  forallb (keeps_dev o) ops = true -> dev_holds (s_devs s) o a = true -> dev_holds (s_devs (run c ops s)) o a = true.
Proof.
  induction ops as [|p r IH]; intros s o a Hk Hh; cbn; [exact Hh|]. cbn in Hk. apply andb_true_iff in Hk as [Hk1 Hk2].
  apply IH; [exact Hk2|]. apply step_keeps_dev; assumption.
Qed.

(** * The service's view stays consistent with the directory on guarded schedules *)
Lemma forallb_In {A} (f : A -> bool) l x : forallb f l = true -> In x l -> f x = true.
Proof. intros H Hin. rewrite forallb_forall in H. apply H. exact Hin. Qed.

Lemma step_consistent c p s :
  wf c s -> guard s p = true -> dev_consistent s -> dev_consistent (fst (step c p s)).
Proof.
  intros Hw Hg Hc. pose proof Hw as (Hv & _ & _ & Hd & _). destruct p; cbn [step fst]; try exact Hc.
  - (* VipAlloc *)
    pose proof (vip_alloc_outcome c o picked (s_vips s)) as Ha.
    destruct (vip_alloc c o picked (s_vips s)) as [r t]. cbn in *.
    inversion Ha; subst; [exact Hc|]. intros o' a' Hh. cbn in *. apply (lookup_app Z.eqb). apply Hc. exact Hh.
  - (* VipFree *)
    intros o' a' Hh. cbn in *. pose proof (Hc o' a' Hh) as Hl.
    destruct (release_cases Z.eqb a o (s_vips s)) as [[H1 _]|[H1 H2]]; rewrite H1; [exact Hl|].
    apply (lookup_remove_other Z.eqb zeqb_spec); [exact Hl|]. intros E; subst.
    assert (o' = o) by congruence. subst. rewrite Hh in Hg. discriminate.
  - (* VipGc *)
    intros o' a' Hh. cbn in *. pose proof (Hc o' a' Hh) as Hl.
    apply (lookup_filter_keep Z.eqb zeqb_spec); [exact Hl|]. cbn.
    apply dev_holds_iff in Hh as [d [G1 G2]]. apply dget_In in G1.
    pose proof (forallb_In _ _ _ Hg G1) as G3. cbn in G3. rewrite G2 in G3. cbn in G3. exact G3.
  - destruct (create_tolerant Z.eqb k o o (s_rules s)); exact Hc.
  - destruct (create_tolerant spec_eqb k o (sp_app k) (s_specs s)); exact Hc.
  - (* SvcCreate *)
    destruct (svc_create c o env s) as [s' r] eqn:E. apply svc_create_outcome' in E. cbn.
    inversion E as [r' Hr'|b s1 G1 G2 G3 G4 G5 G6 G7 G8 G9 G10|b s1 G1 G2 G3 G4 G5 G6 G7]; subst; try exact Hc.
    + intros o' a' Hh. rewrite G6 in Hh. rewrite G5. unfold dev_holds in Hh.
      destruct (Z.eq_dec o o') as [->|Hne].
      * rewrite dget_dset_same in Hh. cbn in Hh. apply Z.eqb_eq in Hh; subst.
        apply (lookup_snoc_new Z.eqb zeqb_spec). exact G2.
      * rewrite dget_dset_other in Hh by exact Hne. apply (lookup_app Z.eqb). apply Hc. exact Hh.
    + intros o' a' Hh. rewrite G3 in Hh. rewrite G2. unfold dev_holds in Hh.
      destruct (Z.eq_dec o o') as [->|Hne].
      * rewrite dget_dset_same in Hh. cbn in Hh. apply Z.eqb_eq in Hh; subst. apply Hc. exact G1.
      * rewrite dget_dset_other in Hh by exact Hne. apply Hc. exact Hh.
  - (* SvcDelete *) cbn. apply svc_delete_consistent; assumption.
  - (* SvcSync *)
    set (l := stale_owners (s_devs s)). set (s1 := del_all l s).
    assert (C1 : dev_consistent s1) by (apply del_all_consistent; assumption).
    destruct (svc_sync_cases s) as [[Hy _]|[Hy _]]; fold l in Hy; fold s1 in Hy; rewrite Hy; [|exact C1].
    intros o' a' Hh. cbn in *. pose proof (C1 o' a' Hh) as Hl.
    apply (lookup_filter_keep Z.eqb zeqb_spec); [exact Hl|]. cbn.
    destruct (del_all_frame l s) as (_ & _ & G3 & _). fold s1 in G3. rewrite G3.
    apply dev_holds_iff in Hh as [d [G1 G2]]. unfold s1, l in G1. rewrite del_all_dget in G1.
    destruct (mem_z o' (stale_owners (s_devs s))) eqn:E; [discriminate|].
    pose proof (dget_In _ _ _ G1) as G4. pose proof (forallb_In _ _ _ Hg G4) as G5. cbn in G5.
    destruct (d_stale d) eqn:E2; [|exact G5]. exfalso.
    assert (In o' (stale_owners (s_devs s))) as Hl'.
    { apply (stale_owners_In _ _ Hd). unfold dev_stale. rewrite G1. exact E2. }
    apply mem_z_In in Hl'. congruence.
  - (* SvcRestart *) apply svc_restart_consistent. exact Hv.
Qed.

Lemma run_consistent c ops : forall s,
  wf c s -> guarded c ops s = true -> dev_consistent s -> dev_consistent (run c ops s).
Proof.
  induction ops as [|p r IH]; intros s Hw Hg Hc; cbn; [exact Hc|]. cbn in Hg. apply andb_true_iff in Hg as [Hg1 Hg2].
  apply IH; [apply step_wf; exact Hw|exact Hg2|apply step_consistent; assumption].
Qed.

Lemma consistent_empty : dev_consistent empty_state.
Proof. intros o a H. discriminate. Qed.

(** two devices of the service never carry the same address *)
Lemma consistent_exclusive s o1 o2 a :
  dev_consistent s -> dev_holds (s_devs s) o1 a = true -> dev_holds (s_devs s) o2 a = true -> o1 = o2.
Proof. intros Hc H1 H2. apply Hc in H1. apply Hc in H2. congruence. Qed.

(** * Scanned addresses are hosts: never the network or the broadcast address *)
Definition all_hosts (c : cidr) (s : state) : Prop := Forall (fun e => is_host c (fst e) = true) (s_vips s).

Lemma step_hosts c p s :
  4 <= c_size c -> picks_host c p = true -> all_hosts c s -> all_hosts c (fst (step c p s)).
Proof.
  intros Hsz Hp Hh. unfold all_hosts in *. destruct p; cbn [step fst]; try exact Hh.
  - pose proof (vip_alloc_outcome c o picked (s_vips s)) as Ha.
    destruct (vip_alloc c o picked (s_vips s)) as [r t]. cbn in *.
    inversion Ha as [r' Hr'|a H1 H2 H3 H4 H5]; subst; [exact Hh|]. apply Forall_snoc; [exact Hh|]. cbn.
    destruct picked as [q|]; [rewrite (H4 q eq_refl); exact Hp|apply H3; auto].
  - cbn. revert Hh. apply Forall_incl. intros e. apply (release_incl Z.eqb).
  - cbn. revert Hh. apply Forall_incl. intros e He. apply filter_In in He. tauto.
  - destruct (create_tolerant Z.eqb k o o (s_rules s)); exact Hh.
  - destruct (create_tolerant spec_eqb k o (sp_app k) (s_specs s)); exact Hh.
  - destruct (svc_create c o env s) as [s' r] eqn:E. apply svc_create_outcome' in E. cbn.
    inversion E as [r' Hr'|b s1 G1 G2 G3 G4 G5 G6 G7 G8 G9 G10|b s1 G1 G2 G3 G4 G5 G6 G7]; subst; try exact Hh.
    + rewrite G5. apply Forall_snoc; [exact Hh|]. cbn. apply G4. exact Hsz.
    + rewrite G2. exact Hh.
  - cbn. revert Hh. apply Forall_incl. intros e. apply svc_delete_incl.
  - revert Hh. apply Forall_incl. intros e He.
    destruct (svc_sync_cases s) as [[Hy _]|[Hy _]]; rewrite Hy in He; cbn in He.
    + apply gc_In in He as [He _]. apply del_all_incl in He. exact He.
    + apply del_all_incl in He. exact He.
Qed.

Lemma run_hosts c ops : forall s,
  4 <= c_size c -> forallb (picks_host c) ops = true -> all_hosts c s -> all_hosts c (run c ops s).
Proof.
  induction ops as [|p r IH]; intros s Hsz Hp Hh; cbn; [exact Hh|]. cbn in Hp. apply andb_true_iff in Hp as [Hp1 Hp2].
  apply IH; auto. apply step_hosts; assumption.
Qed.

(** * History level: an entry survives every sequence in which nobody entitled removes it *)
Fixpoint undisturbed {K} (may : state -> op -> K -> Z -> bool) (c : cidr) (ops : list op) (s : state) (k : K) (o : Z) : bool :=
  match ops with
  | [] => true
  | p :: r => negb (may s p k o) && undisturbed may c r (fst (step c p s)) k o
  end.

Lemma run_keeps_vip c ops : forall s k o,
  wf c s -> In (k, o) (s_vips s) -> undisturbed may_remove_vip c ops s k o = true -> In (k, o) (s_vips (run c ops s)).
Proof.
  induction ops as [|p r IH]; intros s k o Hw Hin Hu; cbn; [exact Hin|]. cbn in Hu. apply andb_true_iff in Hu as [H1 H2].
  apply IH; [apply step_wf; exact Hw| |exact H2]. apply step_keeps_vip; auto. destruct (may_remove_vip s p k o); [discriminate|reflexivity].
Qed.

Lemma run_keeps_rule c ops : forall s k o,
  wf c s -> In (k, o) (s_rules s) -> undisturbed may_remove_rule c ops s k o = true -> In (k, o) (s_rules (run c ops s)).
Proof.
  induction ops as [|p r IH]; intros s k o Hw Hin Hu; cbn; [exact Hin|]. cbn in Hu. apply andb_true_iff in Hu as [H1 H2].
  apply IH; [apply step_wf; exact Hw| |exact H2]. apply step_keeps_rule; auto. destruct (may_remove_rule s p k o); [discriminate|reflexivity].
Qed.

Lemma run_keeps_spec c ops : forall s k o,
  wf c s -> In (k, o) (s_specs s) -> undisturbed may_remove_spec c ops s k o = true -> In (k, o) (s_specs (run c ops s)).
Proof.
  induction ops as [|p r IH]; intros s k o Hw Hin Hu; cbn; [exact Hin|]. cbn in Hu. apply andb_true_iff in Hu as [H1 H2].
  apply IH; [apply step_wf; exact Hw| |exact H2]. apply step_keeps_spec; auto. destruct (may_remove_spec s p k o); [discriminate|reflexivity].
Qed.

(** * Statements over all operation sequences *)
Definition functional {K} (t : @table K) : Prop := forall k o1 o2, In (k, o1) t -> In (k, o2) t -> o1 = o2.

Lemma run_exclusive c ops s :
  wf c s ->
  functional (s_vips (run c ops s)) /\ functional (s_rules (run c ops s)) /\ functional (s_specs (run c ops s)).
Proof.
  intros Hw. destruct (run_wf c ops s Hw) as (Hv & Hr & Hs & _). repeat split; intros k o1 o2.
  - apply (NoDup_functional Z.eqb zeqb_spec); exact Hv.
  - apply (NoDup_functional Z.eqb zeqb_spec); exact Hr.
  - apply (NoDup_functional spec_eqb spec_eqb_spec); exact Hs.
Qed.

Lemma run_in_network c ops s a o : wf c s -> In (a, o) (s_vips (run c ops s)) -> in_cidr c a = true.
Proof.
  intros Hw Hin. destruct (run_wf c ops s Hw) as (_ & _ & _ & _ & Hc). rewrite Forall_forall in Hc.
  apply (Hc (a, o) Hin).
Qed.

Lemma run_hosts_only c ops s a o :
  4 <= c_size c -> forallb (picks_host c) ops = true -> all_hosts c s ->
  In (a, o) (s_vips (run c ops s)) -> is_host c a = true.
Proof.
  intros Hsz Hp Hh Hin. pose proof (run_hosts c ops s Hsz Hp Hh) as H. unfold all_hosts in H.
  rewrite Forall_forall in H. apply (H (a, o) Hin).
Qed.

Lemma is_host_not_edge c a : is_host c a = true -> a <> c_base c /\ a <> c_base c + c_size c - 1 /\ in_cidr c a = true.
Proof.
  unfold is_host, in_cidr. intros H. apply andb_true_iff in H as [H1 H2]. apply Z.ltb_lt in H1. apply Z.ltb_lt in H2.
  repeat split; try lia.
Qed.

(** a repeated create request returns the address of the first one, whatever happened in between short of
    the owner's delete request, a synchronize or a service restart *)
Lemma run_reuse c ops mid s0 o env env' a :
  let s1 := fst (step c (SvcCreate o env) (run c ops s0)) in
  snd (step c (SvcCreate o env) (run c ops s0)) = RAddr a ->
  forallb (keeps_dev o) mid = true ->
  let s2 := run c mid s1 in
  snd (step c (SvcCreate o env') s2) = RAddr a /\ s_vips (fst (step c (SvcCreate o env') s2)) = s_vips s2.
Proof.
  cbn [step]. intros Hr Hk. apply svc_create_records in Hr.
  pose proof (run_keeps_dev c mid _ o a Hk Hr) as Hh.
  destruct (svc_create_reuse c o env' _ a Hh) as (H1 & H2 & _). auto.
Qed.

Lemma alloc_returns c o t :
  match vip_alloc c o None t with
  | (RAddr a, t') =>
      zlookup a t = None /\ t' = t ++ [(a, o)] /\ in_cidr c a = true /\ (4 <= c_size c -> is_host c a = true) /\
      (forall y, hosts_first c <= y < a -> zlookup y t <> None)
  | (_, t') => t' = t
  end.
Proof.
  pose proof (vip_alloc_outcome c o None t) as H. destruct (vip_alloc c o None t) as [r t']. cbn in H.
  inversion H as [r' Hr'|a H1 H2 H3 H4 H5]; subst.
  - destruct r; try reflexivity. exfalso. apply (Hr' a). reflexivity.
  - repeat split; auto.
Qed.

Lemma alloc_picked c o q t :
  match vip_alloc c o (Some q) t with
  | (RAddr a, t') => a = q /\ zlookup q t = None /\ t' = t ++ [(q, o)] /\ in_cidr c q = true
  | (_, t') => t' = t
  end.
Proof.
  pose proof (vip_alloc_outcome c o (Some q) t) as H. destruct (vip_alloc c o (Some q) t) as [r t']. cbn in H.
  inversion H as [r' Hr'|a H1 H2 H3 H4 H5]; subst.
  - destruct r; try reflexivity. exfalso. apply (Hr' a). reflexivity.
  - rewrite (H4 q eq_refl) in *. repeat split; auto.
Qed.

(** * A collection during which an owner appears and registers an entry *)
Lemma In_add_z x o l : In x (add_z o l) <-> x = o \/ In x l.
Proof.
  unfold add_z. destruct (mem_z o l) eqn:E.
  - apply mem_z_In in E. split; [auto|]. intros [->|H]; assumption.
  - rewrite in_app_iff. cbn. split; [intros [H|[H|[]]]; auto|intros [H|H]; auto].
Qed.

Lemma run_app c a : forall b s, run c (a ++ b) s = run c b (run c a s).
Proof. induction a as [|p a IH]; intros b s; cbn; [reflexivity|apply IH]. Qed.

Lemma xrun_lin c xs : forall s, xrun c xs s = run c (flat_map lin xs) s.
Proof.
  induction xs as [|x r IH]; intros s; cbn [xrun flat_map]; [reflexivity|].
  rewrite run_app, IH. destruct x; reflexivity.
Qed.

(** every entry visited while its owner exists (the newcomer included) survives; exactly the others go;
    the newcomer's entry, when its key was free, is there afterwards *)
Lemma rule_gc_with_exact c k o s :
  let s2 := run c [AppUp o; RuleCreate k o] s in
  let s' := fst (xstep c (XRuleGcWith k o) s) in
  s_apps s2 = add_z o (s_apps s) /\
  (forall k' o', In (k', o') (s_rules s') <-> In (k', o') (s_rules s2) /\ In o' (add_z o (s_apps s))) /\
  (forall k' o', In (k', o') (s_rules s) -> In o' (add_z o (s_apps s)) -> In (k', o') (s_rules s')) /\
  (zlookup k (s_rules s) = None -> In (k, o) (s_rules s')) /\
  s_vips s' = s_vips s /\ s_specs s' = s_specs s /\ s_res s' = s_res s /\ s_devs s' = s_devs s.
Proof.
  cbn [xstep fst lin run]. set (s1 := fst (step c (AppUp o) s)). set (s2 := fst (step c (RuleCreate k o) s1)).
  assert (A2 : s_apps s2 = add_z o (s_apps s)).
  { unfold s2, s1. cbn. destruct (create_tolerant Z.eqb k o o (s_rules s)); reflexivity. }
  assert (Hsub : forall e, In e (s_rules s) -> In e (s_rules s2)).
  { intros e He. unfold s2, s1. cbn. destruct (create_tolerant Z.eqb k o o (s_rules s)) as [t|] eqn:E; [|exact He].
    cbn. apply create_tolerant_cases in E as [[_ ->]|[-> _]]; [apply in_or_app; left|]; exact He. }
  destruct (rule_gc_exact c s2) as (G & _). cbn zeta in G.
  split; [exact A2|]. split; [intros k' o'; rewrite <- A2; apply G|]. split; [|split].
  - intros k' o' Hin Hl. apply G. rewrite A2. split; [apply Hsub; exact Hin|exact Hl].
  - intros Hf. apply G. rewrite A2. split; [|apply In_add_z; left; reflexivity].
    unfold s2, s1. cbn. unfold create_tolerant, symlink. rewrite Hf. cbn.
    apply in_or_app. right. left. reflexivity.
  - unfold s2, s1. cbn. destruct (create_tolerant Z.eqb k o o (s_rules s)); repeat split; reflexivity.
Qed.

Lemma spec_gc_with_exact c k o s :
  let s2 := run c [AppUp o; SpecCreate k o] s in
  let s' := fst (xstep c (XSpecGcWith k o) s) in
  s_apps s2 = add_z o (s_apps s) /\
  (forall k' o', In (k', o') (s_specs s') <-> In (k', o') (s_specs s2) /\ In o' (add_z o (s_apps s))) /\
  (forall k' o', In (k', o') (s_specs s) -> In o' (add_z o (s_apps s)) -> In (k', o') (s_specs s')) /\
  (slookup k (s_specs s) = None -> In (k, o) (s_specs s')) /\
  s_vips s' = s_vips s /\ s_rules s' = s_rules s /\ s_res s' = s_res s /\ s_devs s' = s_devs s.
Proof.
  cbn [xstep fst lin run]. set (s1 := fst (step c (AppUp o) s)). set (s2 := fst (step c (SpecCreate k o) s1)).
  assert (A2 : s_apps s2 = add_z o (s_apps s)).
  { unfold s2, s1. cbn. destruct (create_tolerant spec_eqb k o (sp_app k) (s_specs s)); reflexivity. }
  assert (Hsub : forall e, In e (s_specs s) -> In e (s_specs s2)).
  { intros e He. unfold s2, s1. cbn. destruct (create_tolerant spec_eqb k o (sp_app k) (s_specs s)) as [t|] eqn:E; [|exact He].
    cbn. apply create_tolerant_cases in E as [[_ ->]|[-> _]]; [apply in_or_app; left|]; exact He. }
  destruct (spec_gc_exact c s2) as (G & _). cbn zeta in G.
  split; [exact A2|]. split; [intros k' o'; rewrite <- A2; apply G|]. split; [|split].
  - intros k' o' Hin Hl. apply G. rewrite A2. split; [apply Hsub; exact Hin|exact Hl].
  - intros Hf. apply G. rewrite A2. split; [|apply In_add_z; left; reflexivity].
    unfold s2, s1. cbn. unfold create_tolerant, symlink. rewrite Hf. cbn.
    apply in_or_app. right. left. reflexivity.
  - unfold s2, s1. cbn. destruct (create_tolerant spec_eqb k o (sp_app k) (s_specs s)); repeat split; reflexivity.
Qed.

Lemma vip_gc_with_exact c o picked s :
  let s2 := run c [ResUp o; VipAlloc o picked] s in
  let s' := fst (xstep c (XVipGcWith o picked) s) in
  s_res s2 = add_z o (s_res s) /\
  (forall k' o', In (k', o') (s_vips s') <-> In (k', o') (s_vips s2) /\ In o' (add_z o (s_res s))) /\
  (forall k' o', In (k', o') (s_vips s) -> In o' (add_z o (s_res s)) -> In (k', o') (s_vips s')) /\
  (forall a, snd (step c (VipAlloc o picked) (fst (step c (ResUp o) s))) = RAddr a -> In (a, o) (s_vips s')) /\
  s_rules s' = s_rules s /\ s_specs s' = s_specs s /\ s_apps s' = s_apps s /\ s_devs s' = s_devs s.
Proof.
  cbn [xstep fst lin run]. set (s1 := fst (step c (ResUp o) s)). set (s2 := fst (step c (VipAlloc o picked) s1)).
  pose proof (vip_alloc_outcome c o picked (s_vips s)) as Ha.
  assert (A2 : s_res s2 = add_z o (s_res s)).
  { unfold s2, s1. cbn. destruct (vip_alloc c o picked (s_vips s)); reflexivity. }
  assert (Hsub : forall e, In e (s_vips s) -> In e (s_vips s2)).
  { intros e He. unfold s2, s1. cbn. destruct (vip_alloc c o picked (s_vips s)) as [r t]. cbn in *.
    inversion Ha; subst; [exact He|apply in_or_app; left; exact He]. }
  destruct (vip_gc_exact c s2) as (G & _). cbn zeta in G.
  split; [exact A2|]. split; [intros k' o'; rewrite <- A2; apply G|]. split; [|split].
  - intros k' o' Hin Hl. apply G. rewrite A2. split; [apply Hsub; exact Hin|exact Hl].
  - intros a Hr. apply G. rewrite A2. split; [|apply In_add_z; left; reflexivity].
    unfold s2, s1 in *. cbn in *. destruct (vip_alloc c o picked (s_vips s)) as [r t]. cbn in *. subst r.
    inversion Ha as [r' Hr'|b H1 H2 H3 H4 H5]; subst; [exfalso; apply (Hr' a); reflexivity|].
    apply in_or_app. right. left. reflexivity.
  - unfold s2, s1. cbn. destruct (vip_alloc c o picked (s_vips s)); repeat split; reflexivity.
Qed.
