(** C16 (port allocation) correspondence runner.  [ports_tables] is assembled here from the plain definitions
    that harness/tables_ports.py regenerates into Gen/Tables.v on every run; [run_case] flattens the model's
    observables to [list Z] exactly like harness/props/ports.py flattens the implementation's. *)
From Coq Require Import ZArith List Bool.
From TM Require Import Node.Ports Gen.Tables.
Import ListNotations.
Open Scope Z_scope.

Definition ports_tables : ptables := {|
  pt_prod_low := ports_prod_low;
  pt_prod_high := ports_prod_high;
  pt_nonprod_low := ports_nonprod_low;
  pt_nonprod_high := ports_nonprod_high;
  pt_span := ports_span
|}.

(** lo, lo+1, ..., lo+n-1 *)
Fixpoint zrange (lo : Z) (n : nat) : list Z :=
  match n with
  | O => []
  | S k => lo :: zrange (lo + 1) k
  end.

Definition pool_list (T : ptables) (e : Z) : list Z :=
  zrange (pool_low T e) (Z.to_nat (pool_high T e - pool_low T e + 1)).

(** a sample as the harness describes it: the explicit list, or (full) that list followed by the rest of the pool
    in ascending order - a permutation of the whole pool, what random.sample(pool, PORT_SPAN) returns when
    PORT_SPAN is the size of the pool *)
Record sampspec := { ss_full : bool; ss_prefix : list Z }.
Definition mk_sample (T : ptables) (e : Z) (s : sampspec) : list Z :=
  if ss_full s then ss_prefix s ++ filter (fun p => negb (memz p (ss_prefix s))) (pool_list T e)
  else ss_prefix s.

(** a busy set as the harness describes it: explicit ports and closed ranges *)
Record busyspec := { bs_ports : list Z; bs_ranges : list (Z * Z) }.
Definition busy_of (b : busyspec) (p : Z) : bool :=
  memz p (bs_ports b) || existsb (fun r => (fst r <=? p) && (p <=? snd r)) (bs_ranges b).

Record pcase := {
  c_m : manifest;
  c_samp_tcp : sampspec;
  c_samp_udp : sampspec;
  c_busy_tcp : busyspec;
  c_busy_udp : busyspec
}.

Definition zn (n : nat) : Z := Z.of_nat n.
Definition fports (l : list Z) : list Z := zn (length l) :: l.
Definition fep (e : endpoint) : list Z :=
  [ep_name e; ep_proto e; ep_port e] ++ match ep_real e with None => [0] | Some p => [1; p] end.
Definition feph (v : ephv) : list Z :=
  match v with
  | EKeep None => [0]
  | EKeep (Some n) => [1; zn n]
  | EPorts l => 2 :: fports l
  end.

(** observables, in this order:
      outcome  0, tcp ports, udp ports | 1, len(sockets), count (tcp pass raised) | 2, len(sockets), count (udp pass)
      the random.sample requests made (range start, range stop, k): the tcp one always, the udp one unless the
        tcp pass raised
      the manifest afterwards: endpoints (name, proto, port, real_port), ephemeral_ports tcp / udp *)
Definition run_case (T : ptables) (c : pcase) : list Z :=
  let m := c_m c in
  let e := m_env m in
  let r := allocate_network_ports m (mk_sample T e (c_samp_tcp c)) (mk_sample T e (c_samp_udp c))
             (busy_of (c_busy_tcp c)) (busy_of (c_busy_udp c)) in
  let ntcp := (n_matching P_TCP (m_eps m) + ecount (m_eph_tcp m))%nat in
  let nudp := (n_matching P_UDP (m_eps m) + ecount (m_eph_udp m))%nat in
  (match r_out r with
   | OOk tcp udp => 0 :: fports tcp ++ fports udp ++ sample_request T e ++ sample_request T e
   | OErrTcp got => [1; zn (length got); zn ntcp] ++ sample_request T e
   | OErrUdp got => [2; zn (length got); zn nudp] ++ sample_request T e ++ sample_request T e
   end)
  ++ zn (length (r_eps r)) :: flat_map fep (r_eps r)
  ++ feph (r_eph_tcp r) ++ feph (r_eph_udp r).
