(** Proofs about Node/Ports.v (runtime.allocate_network_ports). *)
From Coq Require Import ZArith List Bool Lia.
From TM Require Import Node.Ports.
Import ListNotations.
Open Scope Z_scope.

(** * List facts *)
Lemma memz_In p l : memz p l = true <-> In p l.
Proof.
  unfold memz. rewrite existsb_exists. split.
  - intros [x [Hin Heq]]. apply Z.eqb_eq in Heq. now subst.
  - intros Hin. exists p. split; [assumption | apply Z.eqb_refl].
Qed.

Lemma nodupb_NoDup l : nodupb l = true -> NoDup l.
Proof.
  induction l as [|x t IH]; cbn [nodupb]; intros H; [constructor|].
  apply andb_true_iff in H as [Hx Ht]. constructor; [|now apply IH].
  intros Hin. apply memz_In in Hin. rewrite Hin in Hx. discriminate.
Qed.

Lemma sample_okb_ok T e s : sample_okb T e s = true -> sample_ok T e s.
Proof.
  unfold sample_okb, sample_ok. intros H. apply andb_true_iff in H as [Hn Hf]. split.
  - now apply nodupb_NoDup.
  - apply Forall_forall. rewrite forallb_forall in Hf. exact Hf.
Qed.

Lemma In_firstn {A} (x : A) n l : In x (firstn n l) -> In x l.
Proof. intros H. rewrite <- (firstn_skipn n l). apply in_or_app. now left. Qed.

Lemma In_skipn {A} (x : A) n l : In x (skipn n l) -> In x l.
Proof. intros H. rewrite <- (firstn_skipn n l). apply in_or_app. now right. Qed.

Lemma NoDup_filter_ {A} (f : A -> bool) l : NoDup l -> NoDup (filter f l).
Proof.
  induction 1 as [|x l Hx Hl IH]; cbn [filter]; [constructor|].
  destruct (f x); [|assumption]. constructor; [|assumption].
  intros Hin. apply filter_In in Hin. tauto.
Qed.

Lemma NoDup_firstn_ {A} n (l : list A) : NoDup l -> NoDup (firstn n l).
Proof.
  revert n. induction l as [|x l IH]; intros [|n] H; cbn [firstn]; try constructor.
  - inversion H as [|? ? Hx Hl]; subst. intros Hin. apply Hx. eapply In_firstn; eassumption.
  - inversion H; subst. now apply IH.
Qed.

Lemma NoDup_app_l {A} (a b : list A) : NoDup (a ++ b) -> NoDup a.
Proof.
  induction a as [|x a IH]; cbn; intros H; [constructor|].
  inversion H as [|? ? Hx Hl]; subst. constructor; [|now apply IH].
  intros Hin. apply Hx. apply in_or_app. now left.
Qed.

Lemma NoDup_app_r {A} (a b : list A) : NoDup (a ++ b) -> NoDup b.
Proof. induction a as [|x a IH]; cbn; intros H; [assumption|]. inversion H; subst. now apply IH. Qed.

Lemma NoDup_app_disj {A} (a b : list A) x : NoDup (a ++ b) -> In x a -> In x b -> False.
Proof.
  induction a as [|y a IH]; cbn; intros H Ha Hb; [contradiction|].
  inversion H as [|? ? Hy Hl]; subst. destruct Ha as [->|Ha].
  - apply Hy. apply in_or_app. now right.
  - now apply IH.
Qed.

(** * _allocate_sockets *)
Lemma free_In busy s p : In p (free busy s) <-> In p s /\ busy p = false.
Proof.
  unfold free. rewrite filter_In. split; intros [H1 H2]; split; try assumption.
  - now destruct (busy p).
  - now rewrite H2.
Qed.

Lemma free_cons busy p s :
  free busy (p :: s) = if busy p then free busy s else p :: free busy s.
Proof. unfold free. cbn [filter]. now destruct (busy p). Qed.

Lemma free_app busy a b : free busy (a ++ b) = free busy a ++ free busy b.
Proof. unfold free. apply filter_app. Qed.

(** The loop, in closed form.  With [k] ports still to find: it succeeds iff [k] free ports occur in the sample
    BEFORE its last element (the last element can be bound, but the length test that would notice it is at the top
    of an iteration that never comes) *)
Lemma alloc_loop_spec busy count : forall sample got, (length got <= count)%nat ->
  alloc_loop busy count sample got =
  match sample with
  | [] => SErr got
  | _ :: _ =>
      if (count - length got <=? length (free busy (removelast sample)))%nat
      then SOk (got ++ firstn (count - length got) (free busy sample))
      else SErr (got ++ free busy sample)
  end.
Proof.
  induction sample as [|p rest IH]; intros got Hle; [reflexivity|].
  cbn [alloc_loop].
  destruct (Nat.eqb (length got) count) eqn:E.
  - apply Nat.eqb_eq in E. rewrite E, Nat.sub_diag. cbn [Nat.leb firstn]. now rewrite app_nil_r.
  - apply Nat.eqb_neq in E.
    destruct (count - length got)%nat as [|k] eqn:K; [lia|].
    destruct (busy p) eqn:B.
    + rewrite IH by lia. rewrite K. destruct rest as [|q r].
      * cbn. rewrite B. cbn. now rewrite app_nil_r.
      * change (removelast (p :: q :: r)) with (p :: removelast (q :: r)).
        rewrite !(free_cons busy p), B. reflexivity.
    + rewrite IH by (rewrite app_length; cbn [length]; lia).
      rewrite app_length. cbn [length].
      replace (count - (length got + 1))%nat with k by lia.
      destruct rest as [|q r].
      * cbn. rewrite B. cbn. reflexivity.
      * change (removelast (p :: q :: r)) with (p :: removelast (q :: r)).
        rewrite !(free_cons busy p), B. cbn [length Nat.leb firstn].
        rewrite <- !app_assoc. reflexivity.
Qed.

(** the enabling condition: the sample is not empty and [count] free ports occur before its last element *)
Definition enough (busy : Z -> bool) (sample : list Z) (count : nat) : bool :=
  match sample with
  | [] => false
  | _ :: _ => (count <=? length (free busy (removelast sample)))%nat
  end.

Theorem allocate_sockets_spec busy sample count :
  allocate_sockets busy sample count =
  if enough busy sample count then SOk (firstn count (free busy sample)) else SErr (free busy sample).
Proof.
  unfold allocate_sockets, enough. rewrite alloc_loop_spec by (cbn; lia).
  destruct sample as [|p s]; [reflexivity|]. cbn [length app]. now rewrite Nat.sub_0_r.
Qed.

Lemma removelast_free_le busy s : (length (free busy (removelast s)) <= length (free busy s))%nat.
Proof.
  destruct s as [|p s]; [cbn; lia|].
  rewrite (app_removelast_last 0 (l := p :: s)) at 2 by discriminate.
  rewrite free_app, app_length. lia.
Qed.

(** number of free ports = those before the last element + the last one if it is free *)
Lemma free_last_count busy s : s <> [] ->
  length (free busy s) =
  (length (free busy (removelast s)) + if busy (last s 0%Z) then 0 else 1)%nat.
Proof.
  intros Hne. rewrite (app_removelast_last 0 Hne) at 1.
  rewrite free_app, app_length. f_equal. cbn [free filter].
  destruct (busy (last s 0)); reflexivity.
Qed.

Lemma enough_true_iff busy s count :
  enough busy s count = true <-> s <> [] /\ (count <= length (free busy (removelast s)))%nat.
Proof.
  unfold enough. destruct s as [|p s].
  - split; [discriminate | intros [H _]; now elim H].
  - rewrite Nat.leb_le. split; [intros H; split; [discriminate | exact H] | tauto].
Qed.

(** success: exactly [count] ports, the first free ones in sample order *)
Theorem alloc_ok busy sample count l :
  allocate_sockets busy sample count = SOk l ->
  l = firstn count (free busy sample) /\ length l = count /\
  enough busy sample count = true.
Proof.
  rewrite allocate_sockets_spec. destruct (enough busy sample count) eqn:E; [|discriminate].
  intros H. inversion H; subst. split; [reflexivity|]. split; [|reflexivity].
  apply enough_true_iff in E as [_ E]. pose proof (removelast_free_le busy sample).
  apply firstn_length_le. lia.
Qed.

(** failure: everything free in the sample was bound, and that was at most [count] ports *)
Theorem alloc_err busy sample count got :
  allocate_sockets busy sample count = SErr got ->
  got = free busy sample /\ (length got <= count)%nat /\ enough busy sample count = false.
Proof.
  rewrite allocate_sockets_spec. destruct (enough busy sample count) eqn:E; [discriminate|].
  intros H. inversion H; subst. split; [reflexivity|]. split; [|reflexivity].
  destruct sample as [|p s]; [cbn; lia|].
  unfold enough in E. apply Nat.leb_gt in E.
  rewrite (free_last_count busy (p :: s)) by discriminate.
  destruct (busy (last (p :: s) 0)); lia.
Qed.

(** (a) pairwise distinct, none busy, all from the sample *)
Theorem alloc_ok_distinct busy sample count l :
  NoDup sample -> allocate_sockets busy sample count = SOk l ->
  NoDup l /\ (forall p, In p l -> busy p = false /\ In p sample).
Proof.
  intros Hnd H. apply alloc_ok in H as [-> _]. split.
  - apply NoDup_firstn_. now apply NoDup_filter_.
  - intros p Hin. apply In_firstn in Hin. apply free_In in Hin. tauto.
Qed.

(** (c) the error, exactly.  Strictly more free ports than needed: never an error.  Fewer: always.  Exactly as many
    as needed: an error iff the last element of the sample is one of them. *)
Theorem alloc_more_ok busy sample count :
  (count < length (free busy sample))%nat ->
  allocate_sockets busy sample count = SOk (firstn count (free busy sample)).
Proof.
  intros H. rewrite allocate_sockets_spec.
  replace (enough busy sample count) with true; [reflexivity|]. symmetry.
  apply enough_true_iff. assert (Hne : sample <> []) by (intros ->; cbn in H; lia).
  split; [assumption|]. rewrite (free_last_count busy sample Hne) in H.
  destruct (busy (last sample 0)); lia.
Qed.

Theorem alloc_fewer_err busy sample count :
  (length (free busy sample) < count)%nat ->
  allocate_sockets busy sample count = SErr (free busy sample).
Proof.
  intros H. rewrite allocate_sockets_spec.
  replace (enough busy sample count) with false; [reflexivity|]. symmetry.
  destruct (enough busy sample count) eqn:E; [|reflexivity].
  apply enough_true_iff in E as [_ E]. pose proof (removelast_free_le busy sample). lia.
Qed.

Theorem alloc_exact_boundary busy sample count :
  sample <> [] -> length (free busy sample) = count ->
  allocate_sockets busy sample count =
  if busy (last sample 0) then SOk (free busy sample) else SErr (free busy sample).
Proof.
  intros Hne Hlen. rewrite allocate_sockets_spec.
  pose proof (free_last_count busy sample Hne) as Hc.
  destruct (busy (last sample 0)) eqn:B.
  - replace (enough busy sample count) with true.
    + rewrite <- Hlen. now rewrite firstn_all.
    + symmetry. apply enough_true_iff. split; [assumption | lia].
  - replace (enough busy sample count) with false; [reflexivity|]. symmetry.
    destruct (enough busy sample count) eqn:E; [|reflexivity].
    apply enough_true_iff in E as [_ E]. lia.
Qed.

(** the three cases in one statement *)
Theorem alloc_error_iff busy sample count :
  (exists got, allocate_sockets busy sample count = SErr got) <->
  sample = [] \/ (length (free busy sample) < count)%nat \/
  (length (free busy sample) = count /\ busy (last sample 0) = false).
Proof.
  split.
  - intros [got H]. apply alloc_err in H as [_ [_ E]].
    destruct sample as [|p s]; [now left|]. right.
    unfold enough in E. apply Nat.leb_gt in E.
    pose proof (free_last_count busy (p :: s)) as Hc. specialize (Hc ltac:(discriminate)).
    destruct (busy (last (p :: s) 0)); [left; lia|].
    destruct (Nat.eq_dec (length (free busy (p :: s))) count); [right; split; [assumption|reflexivity] | left; lia].
  - intros [-> | [H | [H B]]].
    + exists []. reflexivity.
    + eexists. now apply alloc_fewer_err.
    + destruct sample as [|p s]; [exists []; reflexivity|].
      eexists. rewrite alloc_exact_boundary by (try discriminate; assumption). now rewrite B.
Qed.

(** "the error iff fewer free ports than needed are in the sample" is FALSE: one free port, one port wanted *)
Theorem alloc_error_iff_fewer_refuted :
  exists busy sample count,
    NoDup sample /\ sample <> [] /\ length (free busy sample) = count /\
    allocate_sockets busy sample count = SErr (free busy sample) /\ length (free busy sample) = count.
Proof.
  exists (fun _ => false), [40960], 1%nat. repeat split; try reflexivity; try discriminate.
  constructor; [intros []|constructor].
Qed.

(** * _allocate_network_ports_proto *)
Lemma set_real_matches proto e p : ep_matches proto (set_real e p) = ep_matches proto e.
Proof. reflexivity. Qed.

Lemma assign_length proto : forall eps socks, length (assign proto eps socks) = length eps.
Proof.
  induction eps as [|e t IH]; intros socks; [reflexivity|]. cbn [assign].
  destruct (ep_matches proto e).
  - destruct socks as [|p ps]; [reflexivity|]. cbn [length]. now rewrite IH.
  - cbn [length]. now rewrite IH.
Qed.

(** names and protocols never change *)
Lemma assign_names proto : forall eps socks,
  map ep_name (assign proto eps socks) = map ep_name eps /\
  map ep_proto (assign proto eps socks) = map ep_proto eps.
Proof.
  induction eps as [|e t IH]; intros socks; [split; reflexivity|]. cbn [assign].
  destruct (ep_matches proto e).
  - destruct socks as [|p ps]; [split; reflexivity|]. cbn [map]. destruct (IH ps) as [H1 H2].
    rewrite H1, H2. split; reflexivity.
  - cbn [map]. destruct (IH socks) as [H1 H2]. rewrite H1, H2. split; reflexivity.
Qed.

(** the endpoints of another protocol are not touched *)
Lemma assign_filter_other proto (f : endpoint -> bool) :
  (forall e p, f (set_real e p) = f e) -> (forall e, f e = true -> ep_matches proto e = false) ->
  forall eps socks, filter f (assign proto eps socks) = filter f eps.
Proof.
  intros Hf Hdis. induction eps as [|e t IH]; intros socks; [reflexivity|]. cbn [assign].
  destruct (ep_matches proto e) eqn:M.
  - destruct socks as [|p ps]; [reflexivity|]. cbn [filter]. rewrite Hf.
    destruct (f e) eqn:F; [apply Hdis in F; congruence|]. apply IH.
  - cbn [filter]. rewrite IH. reflexivity.
Qed.

(** the endpoints of this protocol, in manifest order, get the first sockets in order *)
Lemma assign_filter_same proto : forall eps socks, (n_matching proto eps <= length socks)%nat ->
  filter (ep_matches proto) (assign proto eps socks) =
  map (fun es => set_real (fst es) (snd es)) (combine (filter (ep_matches proto) eps) socks).
Proof.
  unfold n_matching. induction eps as [|e t IH]; intros socks Hlen; [reflexivity|]. cbn [assign filter].
  destruct (ep_matches proto e) eqn:M.
  - destruct socks as [|p ps]; [cbn [filter length] in Hlen; rewrite M in Hlen; cbn in Hlen; lia|].
    cbn [filter]. rewrite set_real_matches, M. cbn [combine map fst snd]. f_equal. apply IH.
    cbn [length] in Hlen. cbn [filter] in Hlen. rewrite M in Hlen. cbn [length] in Hlen. lia.
  - cbn [filter]. rewrite M. apply IH. cbn [filter] in Hlen. now rewrite M in Hlen.
Qed.

(** position by position: the endpoint at index [i] is untouched if of another protocol; otherwise it gets the
    socket whose index is the number of endpoints of this protocol before it *)
Lemma assign_nth proto : forall eps socks i e, (n_matching proto eps <= length socks)%nat ->
  nth_error eps i = Some e ->
  if ep_matches proto e
  then exists p, nth_error socks (n_matching proto (firstn i eps)) = Some p /\
                 nth_error (assign proto eps socks) i = Some (set_real e p)
  else nth_error (assign proto eps socks) i = Some e.
Proof.
  unfold n_matching. induction eps as [|e0 t IH]; intros socks i e Hlen Hn; [destruct i; discriminate|].
  cbn [assign]. cbn [filter] in Hlen.
  destruct i as [|i].
  - cbn [nth_error] in Hn. inversion Hn; subst e0. clear Hn.
    destruct (ep_matches proto e) eqn:M.
    + destruct socks as [|p ps]; [cbn in Hlen; lia|]. exists p. split; reflexivity.
    + reflexivity.
  - cbn [nth_error] in Hn. cbn [firstn filter].
    destruct (ep_matches proto e0) eqn:M0.
    + destruct socks as [|p ps]; [cbn in Hlen; lia|].
      cbn [length] in Hlen. specialize (IH ps i e ltac:(lia) Hn).
      destruct (ep_matches proto e); cbn [length nth_error]; exact IH.
    + specialize (IH socks i e Hlen Hn).
      destruct (ep_matches proto e); cbn [nth_error]; exact IH.
Qed.

Lemma n_matching_firstn_lt proto : forall eps i e, nth_error eps i = Some e -> ep_matches proto e = true ->
  (n_matching proto (firstn i eps) < n_matching proto eps)%nat.
Proof.
  unfold n_matching. induction eps as [|e0 t IH]; intros i e Hn M; [destruct i; discriminate|].
  destruct i as [|i]; cbn [nth_error] in Hn.
  - inversion Hn; subst. cbn [firstn filter]. rewrite M. cbn; lia.
  - cbn [firstn filter]. specialize (IH i e Hn M). destruct (ep_matches proto e0); cbn [length]; lia.
Qed.

Lemma map_real_combine : forall (eps : list endpoint) socks, (length eps <= length socks)%nat ->
  map ep_real (map (fun es => set_real (fst es) (snd es)) (combine eps socks)) =
  map Some (firstn (length eps) socks).
Proof.
  induction eps as [|e t IH]; intros socks Hlen; [reflexivity|].
  destruct socks as [|p ps]; [cbn in Hlen; lia|]. cbn [combine map length firstn fst snd set_real ep_real].
  f_equal. apply IH. cbn in Hlen. lia.
Qed.

(** what one pass does, when it succeeds *)
Theorem proto_ok busy sample proto eps ec eps' eph socks :
  allocate_proto busy sample proto eps ec = POk eps' eph socks ->
  let n := n_matching proto eps in
  allocate_sockets busy sample (n + ec) = SOk socks /\
  length socks = (n + ec)%nat /\
  socks = firstn n socks ++ eph /\ length eph = ec /\ eph = skipn n socks /\
  length eps' = length eps /\
  map ep_name eps' = map ep_name eps /\ map ep_proto eps' = map ep_proto eps /\
  real_ports proto eps' = map Some (firstn n socks) /\
  (forall i e, nth_error eps i = Some e ->
     if ep_matches proto e
     then exists p, nth_error socks (n_matching proto (firstn i eps)) = Some p /\
                    (n_matching proto (firstn i eps) < n)%nat /\
                    nth_error eps' i = Some (set_real e p)
     else nth_error eps' i = Some e).
Proof.
  intros H n. unfold allocate_proto in H. cbv zeta in H. fold n in H.
  destruct (allocate_sockets busy sample (n + ec)) as [l|got] eqn:A; [|discriminate].
  inversion H; subst eps' eph socks. clear H.
  pose proof (alloc_ok _ _ _ _ A) as [_ [Hlen _]].
  split; [reflexivity|]. split; [assumption|].
  split; [symmetry; apply firstn_skipn|].
  split; [rewrite skipn_length; lia|]. split; [reflexivity|].
  split; [apply assign_length|].
  destruct (assign_names proto eps l) as [Hn1 Hn2]. split; [assumption|]. split; [assumption|].
  assert (Hle : (n_matching proto eps <= length l)%nat) by (fold n; lia).
  split.
  - unfold real_ports. rewrite assign_filter_same by assumption.
    rewrite map_real_combine by (fold (n_matching proto eps); assumption). reflexivity.
  - intros i e Hi. pose proof (assign_nth proto eps l i e Hle Hi) as Hnth.
    destruct (ep_matches proto e) eqn:M; [|assumption].
    destruct Hnth as [p [Hp He]]. exists p. split; [assumption|]. split; [|assumption].
    eapply n_matching_firstn_lt; eassumption.
Qed.

Theorem proto_err busy sample proto eps ec got :
  allocate_proto busy sample proto eps ec = PErr got ->
  allocate_sockets busy sample (n_matching proto eps + ec) = SErr got.
Proof.
  unfold allocate_proto.
  destruct (allocate_sockets busy sample (n_matching proto eps + ec)) as [l|g]; [discriminate|].
  intros H. now inversion H.
Qed.

(** port = 0 means "the same number inside and outside"; any other port is kept *)
Lemma set_real_port e p :
  ep_real (set_real e p) = Some p /\
  (ep_port e = 0 -> ep_port (set_real e p) = p) /\
  (ep_port e <> 0 -> ep_port (set_real e p) = ep_port e) /\
  ep_name (set_real e p) = ep_name e /\ ep_proto (set_real e p) = ep_proto e.
Proof.
  unfold set_real; cbn. repeat split.
  - intros ->. reflexivity.
  - intros H. destruct (ep_port e =? 0) eqn:E; [apply Z.eqb_eq in E; contradiction | reflexivity].
Qed.

(** * allocate_network_ports *)
Lemma matches_tcp_udp e : ep_matches P_UDP e = true -> ep_matches P_TCP e = false.
Proof.
  unfold ep_matches. intros H. apply Z.eqb_eq in H. rewrite H. reflexivity.
Qed.

Lemma n_matching_assign proto proto' : forall eps socks,
  n_matching proto' (assign proto eps socks) = n_matching proto' eps.
Proof.
  unfold n_matching. induction eps as [|e t IH]; intros socks; [reflexivity|]. cbn [assign].
  destruct (ep_matches proto e).
  - destruct socks as [|p ps]; [reflexivity|]. cbn [filter]. rewrite set_real_matches.
    destruct (ep_matches proto' e); cbn [length]; now rewrite IH.
  - cbn [filter]. destruct (ep_matches proto' e); cbn [length]; now rewrite IH.
Qed.

Definition n_tcp (m : manifest) : nat := (n_matching P_TCP (m_eps m) + ecount (m_eph_tcp m))%nat.
Definition n_udp (m : manifest) : nat := (n_matching P_UDP (m_eps m) + ecount (m_eph_udp m))%nat.

(** the outcome is decided by the two socket allocations alone *)
Theorem network_outcome m st su bt bu :
  let r := allocate_network_ports m st su bt bu in
  match allocate_sockets bt st (n_tcp m) with
  | SErr got => r_out r = OErrTcp got /\ r_eps r = m_eps m /\
                r_eph_tcp r = EKeep (m_eph_tcp m) /\ r_eph_udp r = EKeep (m_eph_udp m)
  | SOk tcp =>
      r_eph_tcp r = EPorts (skipn (n_matching P_TCP (m_eps m)) tcp) /\
      match allocate_sockets bu su (n_udp m) with
      | SErr got => r_out r = OErrUdp got /\ r_eps r = assign P_TCP (m_eps m) tcp /\
                    r_eph_udp r = EKeep (m_eph_udp m)
      | SOk udp => r_out r = OOk tcp udp /\
                   r_eps r = assign P_UDP (assign P_TCP (m_eps m) tcp) udp /\
                   r_eph_udp r = EPorts (skipn (n_matching P_UDP (m_eps m)) udp)
      end
  end.
Proof.
  unfold allocate_network_ports, allocate_proto, n_tcp, n_udp. cbv zeta.
  destruct (allocate_sockets bt st _) as [tcp|got]; [|cbn; repeat split].
  rewrite n_matching_assign.
  destruct (allocate_sockets bu su _) as [udp|got]; cbn; repeat split.
Qed.

(** everything about a successful allocation *)
Theorem network_ok T m st su bt bu tcp udp :
  sample_ok T (m_env m) st -> sample_ok T (m_env m) su ->
  r_out (allocate_network_ports m st su bt bu) = OOk tcp udp ->
  let r := allocate_network_ports m st su bt bu in
  let nt := n_matching P_TCP (m_eps m) in
  let nu := n_matching P_UDP (m_eps m) in
  (* (c) count *)
  length tcp = n_tcp m /\ length udp = n_udp m /\
  (* (a) distinct, not busy *)
  NoDup tcp /\ NoDup udp /\
  (forall p, In p tcp -> bt p = false) /\ (forall p, In p udp -> bu p = false) /\
  (* (b) in the pool of the environment *)
  (forall p, In p tcp \/ In p udp -> in_pool T (m_env m) p = true) /\
  (* which ports: the first free ones of each sample *)
  tcp = firstn (n_tcp m) (free bt st) /\ udp = firstn (n_udp m) (free bu su) /\
  (* (d) endpoints first, in manifest order; the rest ephemeral *)
  real_ports P_TCP (r_eps r) = map Some (firstn nt tcp) /\
  real_ports P_UDP (r_eps r) = map Some (firstn nu udp) /\
  r_eph_tcp r = EPorts (skipn nt tcp) /\ r_eph_udp r = EPorts (skipn nu udp) /\
  length (skipn nt tcp) = ecount (m_eph_tcp m) /\ length (skipn nu udp) = ecount (m_eph_udp m) /\
  length (r_eps r) = length (m_eps m) /\
  map ep_name (r_eps r) = map ep_name (m_eps m) /\ map ep_proto (r_eps r) = map ep_proto (m_eps m) /\
  (forall i e, nth_error (m_eps m) i = Some e ->
     if ep_matches P_TCP e
     then exists p, nth_error tcp (n_matching P_TCP (firstn i (m_eps m))) = Some p /\
                    nth_error (r_eps r) i = Some (set_real e p)
     else if ep_matches P_UDP e
     then exists p, nth_error udp (n_matching P_UDP (firstn i (m_eps m))) = Some p /\
                    nth_error (r_eps r) i = Some (set_real e p)
     else nth_error (r_eps r) i = Some e).
Proof.
  intros [Hndt Hpt] [Hndu Hpu] Hout r nt nu.
  pose proof (network_outcome m st su bt bu) as Hno. cbv zeta in Hno. fold r in Hno, Hout.
  destruct (allocate_sockets bt st (n_tcp m)) as [tcp'|got] eqn:At;
    [|destruct Hno as [Ho _]; rewrite Ho in Hout; discriminate].
  destruct Hno as [HephT Hno].
  destruct (allocate_sockets bu su (n_udp m)) as [udp'|got] eqn:Au;
    [|destruct Hno as [Ho _]; rewrite Ho in Hout; discriminate].
  destruct Hno as [Ho [Heps Hephu]]. rewrite Ho in Hout. inversion Hout; subst tcp' udp'. clear Hout Ho.
  pose proof (alloc_ok _ _ _ _ At) as [Htcp [Hlt _]].
  pose proof (alloc_ok _ _ _ _ Au) as [Hudp [Hlu _]].
  pose proof (alloc_ok_distinct _ _ _ _ Hndt At) as [Hdt Hint].
  pose proof (alloc_ok_distinct _ _ _ _ Hndu Au) as [Hdu Hinu].
  rewrite Forall_forall in Hpt, Hpu.
  assert (Hlet : (n_matching P_TCP (m_eps m) <= length tcp)%nat) by (unfold n_tcp in Hlt; lia).
  assert (Hleu : (n_matching P_UDP (assign P_TCP (m_eps m) tcp) <= length udp)%nat)
    by (rewrite n_matching_assign; unfold n_udp in Hlu; lia).
  split; [assumption|]. split; [assumption|]. split; [assumption|]. split; [assumption|].
  split; [intros p Hp; now apply Hint|]. split; [intros p Hp; now apply Hinu|].
  split; [intros p [Hp|Hp]; [apply Hpt; now apply Hint | apply Hpu; now apply Hinu]|].
  split; [assumption|]. split; [assumption|].
  split.
  { rewrite Heps. unfold real_ports.
    rewrite (assign_filter_other P_UDP (ep_matches P_TCP))
      by (try reflexivity; intros e He; unfold ep_matches in *; apply Z.eqb_eq in He; rewrite He; reflexivity).
    rewrite assign_filter_same by assumption. rewrite map_real_combine by assumption. reflexivity. }
  split.
  { rewrite Heps. unfold real_ports. rewrite assign_filter_same by assumption.
    rewrite map_real_combine by assumption.
    fold (n_matching P_UDP (assign P_TCP (m_eps m) tcp)). rewrite n_matching_assign. reflexivity. }
  split; [assumption|]. split; [assumption|].
  split; [rewrite skipn_length; unfold n_tcp in Hlt; fold nt in Hlt; lia|].
  split; [rewrite skipn_length; unfold n_udp in Hlu; fold nu in Hlu; lia|].
  split; [rewrite Heps, !assign_length; reflexivity|].
  split; [rewrite Heps; destruct (assign_names P_UDP (assign P_TCP (m_eps m) tcp) udp) as [H1 _]; rewrite H1;
          apply assign_names|].
  split; [rewrite Heps; destruct (assign_names P_UDP (assign P_TCP (m_eps m) tcp) udp) as [_ H2]; rewrite H2;
          apply assign_names|].
  intros i e Hi. rewrite Heps.
  pose proof (assign_nth P_TCP (m_eps m) tcp i e Hlet Hi) as H1.
  destruct (ep_matches P_TCP e) eqn:Mt.
  - destruct H1 as [p [Hp He]]. exists p. split; [assumption|].
    pose proof (assign_nth P_UDP _ udp i (set_real e p) Hleu He) as H2.
    rewrite set_real_matches in H2.
    destruct (ep_matches P_UDP e) eqn:Mu; [apply matches_tcp_udp in Mu; congruence | assumption].
  - pose proof (assign_nth P_UDP _ udp i e Hleu H1) as H2.
    destruct (ep_matches P_UDP e) eqn:Mu; [|assumption].
    destruct H2 as [p [Hp He]]. exists p. split; [|assumption].
    rewrite <- Hp. f_equal. clear - Hlet.
    (* the tcp pass does not change which of the first i endpoints are udp *)
    revert tcp i Hlet. generalize (m_eps m) as eps.
    induction eps as [|e0 t IH]; intros socks i Hlet; [destruct i; reflexivity|].
    destruct i as [|i]; [reflexivity|]. cbn [assign].
    unfold n_matching in *. cbn [filter] in Hlet.
    destruct (ep_matches P_TCP e0) eqn:M0.
    + destruct socks as [|q qs]; [cbn in Hlet; lia|]. cbn [firstn filter]. rewrite set_real_matches.
      cbn [length] in Hlet. specialize (IH qs i ltac:(lia)).
      destruct (ep_matches P_UDP e0); cbn [length]; now rewrite IH.
    + cbn [firstn filter]. specialize (IH socks i Hlet).
      destruct (ep_matches P_UDP e0); cbn [length]; now rewrite IH.
Qed.

(** the prod and non-prod pools share no port (from the generated constants) *)
Theorem pools_disjoint T e1 e2 p :
  ports_tables_ok T = true -> is_prod_env e1 = true -> is_prod_env e2 = false ->
  in_pool T e1 p = true -> in_pool T e2 p = true -> False.
Proof.
  unfold ports_tables_ok, in_pool, pool_low, pool_high. intros HT H1 H2. rewrite H1, H2.
  repeat (apply andb_true_iff in HT as [HT ?]). intros Ha Hb.
  apply andb_true_iff in Ha as [? ?]. apply andb_true_iff in Hb as [? ?].
  match goal with H : (_ || _) = true |- _ => apply orb_true_iff in H as [H|H] end; lia.
Qed.

(** ... so a container of a prod environment and one of a non-prod environment never get the same port *)
Theorem network_env_disjoint T m1 st1 su1 bt1 bu1 tcp1 udp1 m2 st2 su2 bt2 bu2 tcp2 udp2 p :
  ports_tables_ok T = true ->
  sample_ok T (m_env m1) st1 -> sample_ok T (m_env m1) su1 ->
  sample_ok T (m_env m2) st2 -> sample_ok T (m_env m2) su2 ->
  is_prod_env (m_env m1) = true -> is_prod_env (m_env m2) = false ->
  r_out (allocate_network_ports m1 st1 su1 bt1 bu1) = OOk tcp1 udp1 ->
  r_out (allocate_network_ports m2 st2 su2 bt2 bu2) = OOk tcp2 udp2 ->
  In p tcp1 \/ In p udp1 -> In p tcp2 \/ In p udp2 -> False.
Proof.
  intros HT A1 A2 B1 B2 E1 E2 O1 O2 H1 H2.
  pose proof (network_ok T m1 st1 su1 bt1 bu1 tcp1 udp1 A1 A2 O1) as K1. cbv zeta in K1.
  pose proof (network_ok T m2 st2 su2 bt2 bu2 tcp2 udp2 B1 B2 O2) as K2. cbv zeta in K2.
  destruct K1 as (_ & _ & _ & _ & _ & _ & P1 & _). destruct K2 as (_ & _ & _ & _ & _ & _ & P2 & _).
  exact (pools_disjoint T _ _ p HT E1 E2 (P1 p H1) (P2 p H2)).
Qed.

(** the pool has a sample: the whole-pool request is satisfiable (random.sample does not raise ValueError) *)
Theorem sample_possible T e :
  ports_tables_ok T = true -> 0 < pt_span T <= pool_high T e - pool_low T e + 1.
Proof.
  unfold ports_tables_ok, pool_low, pool_high. intros HT.
  repeat (apply andb_true_iff in HT as [HT ?]). destruct (is_prod_env e); lia.
Qed.

Ltac crush_out := repeat match goal with
  | H : exists _, _ |- _ => destruct H
  | H : _ /\ _ |- _ => destruct H
  end; try discriminate; try congruence.

(** the error cases of the whole function *)
Theorem network_error_iff m st su bt bu :
  let r := allocate_network_ports m st su bt bu in
  ((exists got, r_out r = OErrTcp got) <-> enough bt st (n_tcp m) = false) /\
  ((exists got, r_out r = OErrUdp got) <-> enough bt st (n_tcp m) = true /\ enough bu su (n_udp m) = false) /\
  ((exists tcp udp, r_out r = OOk tcp udp) <-> enough bt st (n_tcp m) = true /\ enough bu su (n_udp m) = true).
Proof.
  intros r. pose proof (network_outcome m st su bt bu) as Hno. cbv zeta in Hno. fold r in Hno.
  rewrite !allocate_sockets_spec in Hno.
  destruct (enough bt st (n_tcp m)).
  - destruct Hno as [_ Hno]. destruct (enough bu su (n_udp m)); destruct Hno as [Ho _]; rewrite Ho;
      (split; [|split]); (split; intros H; crush_out; eauto).
  - destruct Hno as [Ho _]. rewrite Ho. (split; [|split]); (split; intros H; crush_out; eauto).
Qed.

(** what is on the manifest when the udp pass raises: the tcp part is written, the udp part is not *)
Theorem network_udp_error_state m st su bt bu got :
  r_out (allocate_network_ports m st su bt bu) = OErrUdp got ->
  let r := allocate_network_ports m st su bt bu in
  exists tcp, allocate_sockets bt st (n_tcp m) = SOk tcp /\
    allocate_sockets bu su (n_udp m) = SErr got /\
    r_eps r = assign P_TCP (m_eps m) tcp /\
    real_ports P_TCP (r_eps r) = map Some (firstn (n_matching P_TCP (m_eps m)) tcp) /\
    filter (ep_matches P_UDP) (r_eps r) = filter (ep_matches P_UDP) (m_eps m) /\
    r_eph_tcp r = EPorts (skipn (n_matching P_TCP (m_eps m)) tcp) /\ r_eph_udp r = EKeep (m_eph_udp m).
Proof.
  intros Hout r. pose proof (network_outcome m st su bt bu) as Hno. cbv zeta in Hno. fold r in Hno, Hout.
  destruct (allocate_sockets bt st (n_tcp m)) as [tcp|g] eqn:At;
    [|destruct Hno as [Ho _]; rewrite Ho in Hout; discriminate].
  destruct Hno as [Hept Hno].
  destruct (allocate_sockets bu su (n_udp m)) as [udp|g] eqn:Au;
    [destruct Hno as [Ho _]; rewrite Ho in Hout; discriminate|].
  destruct Hno as [Ho [Heps Hepu]]. rewrite Ho in Hout. inversion Hout; subst g.
  pose proof (alloc_ok _ _ _ _ At) as [_ [Hlt _]].
  exists tcp. split; [reflexivity|]. split; [reflexivity|]. split; [assumption|].
  split.
  { rewrite Heps. unfold real_ports. rewrite assign_filter_same by (unfold n_tcp in Hlt; lia).
    rewrite map_real_combine by (fold (n_matching P_TCP (m_eps m)); unfold n_tcp in Hlt; lia). reflexivity. }
  split.
  { rewrite Heps. apply assign_filter_other; [reflexivity|]. intros e. apply matches_tcp_udp. }
  split; assumption.
Qed.

(** (e) a tcp and a udp endpoint MAY get the same number (two socket types, two samples): real behaviour *)
Definition share_manifest : manifest :=
  {| m_env := ENV_DEV;
     m_eps := [ {| ep_name := 1; ep_proto := P_TCP; ep_port := 0; ep_real := None |};
                {| ep_name := 2; ep_proto := P_UDP; ep_port := 8000; ep_real := None |} ];
     m_eph_tcp := None; m_eph_udp := None |}.

Theorem tcp_udp_may_share :
  exists m st su bt bu p,
    NoDup st /\ NoDup su /\
    let r := allocate_network_ports m st su bt bu in
    r_out r = OOk [p] [p] /\
    real_ports P_TCP (r_eps r) = [Some p] /\ real_ports P_UDP (r_eps r) = [Some p].
Proof.
  exists share_manifest, [40960; 40961], [40960; 40961], (fun _ => false), (fun _ => false), 40960.
  split; [|split].
  - repeat constructor; cbn; intuition discriminate.
  - repeat constructor; cbn; intuition discriminate.
  - cbv zeta. repeat split.
Qed.
