(** Proofs about Node/EpPresence.v: what EndpointPresence.unregister_* and trace.app.zk._unschedule can and
    cannot remove, on every node table and along every list of operations. *)
From Coq Require Import ZArith List Bool Lia.
From TM Require Import Node.EpPresence.
Import ListNotations.
Open Scope Z_scope.

(** * equality tests *)
Lemma text_eqb_eq a : forall b, text_eqb a b = true <-> a = b.
Proof.
  induction a as [|x a IH]; intros [|y b]; cbn; split; intros H; try congruence; try discriminate.
  - apply andb_true_iff in H as [H1 H2]. apply Z.eqb_eq in H1. apply IH in H2. congruence.
  - inversion H; subst. rewrite Z.eqb_refl. cbn. apply IH. reflexivity.
Qed.
Lemma text_eqb_refl a : text_eqb a a = true.
Proof. apply text_eqb_eq. reflexivity. Qed.
Lemma text_eqb_neq a b : text_eqb a b = false <-> a <> b.
Proof.
  split.
  - intros H E. apply text_eqb_eq in E. congruence.
  - intros H. destruct (text_eqb a b) eqn:E; [apply text_eqb_eq in E; contradiction | reflexivity].
Qed.

Lemma path_eqb_eq a b : path_eqb a b = true <-> a = b.
Proof.
  destruct a, b; cbn; split; intros H; try discriminate H;
    repeat match goal with
    | H : _ && _ = true |- _ => apply andb_true_iff in H; destruct H
    | H : (_ =? _) = true |- _ => apply Z.eqb_eq in H
    | H : text_eqb _ _ = true |- _ => apply text_eqb_eq in H
    end; subst; try reflexivity;
    try (inversion H; subst; rewrite ?Z.eqb_refl, ?text_eqb_refl; reflexivity).
Qed.
Lemma path_eqb_refl a : path_eqb a a = true.
Proof. apply path_eqb_eq. reflexivity. Qed.
Lemma path_eqb_sym a b : path_eqb a b = path_eqb b a.
Proof.
  destruct (path_eqb a b) eqn:E1, (path_eqb b a) eqn:E2; try reflexivity.
  - apply path_eqb_eq in E1. subst. rewrite path_eqb_refl in E2. discriminate.
  - apply path_eqb_eq in E2. subst. rewrite path_eqb_refl in E1. discriminate.
Qed.

(** * find / filter / append *)
Lemma find_filter_keep {A} (f g : A -> bool) l n :
  find f l = Some n -> g n = true -> find f (filter g l) = Some n.
Proof.
  induction l as [|x l IH]; cbn; intros Hf Hg; [discriminate|].
  destruct (f x) eqn:Fx.
  - inversion Hf; subst. rewrite Hg. cbn. rewrite Fx. reflexivity.
  - destruct (g x); cbn; [rewrite Fx|]; apply IH; assumption.
Qed.
Lemma find_filter_none {A} (f g : A -> bool) l : find f l = None -> find f (filter g l) = None.
Proof.
  induction l as [|x l IH]; cbn; intros Hf; [reflexivity|].
  destruct (f x) eqn:Fx; [discriminate|].
  destruct (g x); cbn; [rewrite Fx|]; apply IH; assumption.
Qed.
Lemma find_filter_same {A} (f g : A -> bool) l :
  (forall x, f x = true -> g x = true) -> find f (filter g l) = find f l.
Proof.
  intros Himp. induction l as [|x l IH]; cbn; [reflexivity|].
  destruct (g x) eqn:Gx; cbn.
  - destruct (f x); [reflexivity | apply IH].
  - destruct (f x) eqn:Fx; [apply Himp in Fx; congruence | apply IH].
Qed.
Lemma find_filter_kill {A} (f g : A -> bool) l :
  (forall x, f x = true -> g x = false) -> find f (filter g l) = None.
Proof.
  intros Himp. induction l as [|x l IH]; cbn; [reflexivity|].
  destruct (g x) eqn:Gx; cbn; [|apply IH].
  destruct (f x) eqn:Fx; [apply Himp in Fx; congruence | apply IH].
Qed.
Lemma find_app {A} (f : A -> bool) l1 l2 :
  find f (l1 ++ l2) = match find f l1 with Some x => Some x | None => find f l2 end.
Proof. induction l1 as [|x l1 IH]; cbn; [reflexivity|]. destruct (f x); [reflexivity | apply IH]. Qed.

(** * the node table seen as a map *)
Lemma tget_path t q n : tget t q = Some n -> e_path n = q.
Proof. unfold tget. intros H. apply find_some in H as [_ H]. apply path_eqb_eq in H. exact H. Qed.

Lemma tget_delete t p t' q :
  tdelete t p = Some t' -> tget t' q = if path_eqb q p then None else tget t q.
Proof.
  unfold tdelete. destruct (tget t p) eqn:Hp; [|discriminate]. intros H. inversion H; subst; clear H.
  unfold tget. destruct (path_eqb q p) eqn:E.
  - apply path_eqb_eq in E. subst q. apply find_filter_kill. intros x Hx. rewrite Hx. reflexivity.
  - apply find_filter_same. intros x Hx. apply path_eqb_eq in Hx. rewrite Hx.
    rewrite E. reflexivity.
Qed.
Lemma tget_ensure_deleted t p q :
  tget (ensure_deleted t p) q = if path_eqb q p then None else tget t q.
Proof.
  unfold ensure_deleted. destruct (tdelete t p) eqn:Hd.
  - eapply tget_delete. exact Hd.
  - destruct (path_eqb q p) eqn:E; [|reflexivity]. apply path_eqb_eq in E. subst q.
    unfold tdelete in Hd. destruct (tget t p); [discriminate | reflexivity].
Qed.
Lemma tget_create t p d o t' q :
  tcreate t p d o = Some t' ->
  tget t' q = match tget t q with
              | Some x => Some x
              | None => if path_eqb p q then Some {| e_path := p; e_data := d; e_owner := o |} else None
              end.
Proof.
  unfold tcreate. destruct (tget t p) eqn:Hp; [discriminate|]. intros H. inversion H; subst; clear H.
  unfold tget. rewrite find_app. cbn. reflexivity.
Qed.
Lemma tcreate_absent t p d o t' : tcreate t p d o = Some t' -> tget t p = None.
Proof. unfold tcreate. destruct (tget t p); [discriminate | reflexivity]. Qed.
Lemma tget_expire_keep t sid q n :
  tget t q = Some n -> (sid =? 0) || negb (e_owner n =? sid) = true -> tget (texpire t sid) q = Some n.
Proof.
  unfold texpire. intros Hg Hs. destruct (sid =? 0); [exact Hg|]. cbn in Hs.
  unfold tget in *. apply find_filter_keep; assumption.
Qed.
Lemma tget_expire_none t sid q : tget t q = None -> tget (texpire t sid) q = None.
Proof. unfold texpire. intros Hg. destruct (sid =? 0); [exact Hg|]. apply find_filter_none. exact Hg. Qed.

(** * _create_ephemeral_with_retry *)
Lemma create_retry_keeps k t s p d q x :
  tget t q = Some x -> tget (fst (create_retry k t s p d)) q = Some x.
Proof.
  intros Hq. induction k as [|k IH]; cbn [create_retry fst]; [exact Hq|].
  destruct (tcreate t p d s) eqn:Hc; cbn [fst]; [|exact IH].
  rewrite (tget_create _ _ _ _ _ q Hc). rewrite Hq. reflexivity.
Qed.
Lemma create_retry_none k t s p d q :
  tget t q = None -> path_eqb p q = false -> tget (fst (create_retry k t s p d)) q = None.
Proof.
  intros Hq Hp. induction k as [|k IH]; cbn [create_retry fst]; [exact Hq|].
  destruct (tcreate t p d s) eqn:Hc; cbn [fst]; [|exact IH].
  rewrite (tget_create _ _ _ _ _ q Hc). rewrite Hq, Hp. reflexivity.
Qed.
Lemma create_retry_done k t s p d t' :
  create_retry k t s p d = (t', Done) ->
  tget t p = None /\ tget t' p = Some {| e_path := p; e_data := d; e_owner := s |}.
Proof.
  induction k as [|k IH]; cbn [create_retry]; [discriminate|].
  destruct (tcreate t p d s) eqn:Hc; [|exact IH].
  intros H. inversion H; subst; clear H. pose proof (tcreate_absent _ _ _ _ _ Hc) as Ha. split; [exact Ha|].
  rewrite (tget_create _ _ _ _ _ p Hc). rewrite Ha, path_eqb_refl. reflexivity.
Qed.
(** the 13 attempts of one call see the same table: the call creates the node iff it is absent *)
Lemma create_ephemeral_spec t s p d :
  create_ephemeral t s p d =
    match tget t p with
    | None => (t ++ [{| e_path := p; e_data := d; e_owner := s |}], Done)
    | Some _ => (t, SetupError)
    end.
Proof.
  unfold create_ephemeral, retry_count. unfold tcreate, create_retry, tcreate. destruct (tget t p); reflexivity.
Qed.

Lemma reg_loop_keeps a app eps : forall t q x,
  tget t q = Some x -> tget (fst (register_endpoints_loop a app eps t)) q = Some x.
Proof.
  induction eps as [|e r IH]; intros t q x Hq; cbn [register_endpoints_loop]; [exact Hq|].
  destruct (create_ephemeral t (a_sess a) (ep_path app e) (DText (hostport (a_host a) (ep_port e)))) as [t1 o] eqn:Hc.
  assert (H1 : tget t1 q = Some x).
  { replace t1 with (fst (create_ephemeral t (a_sess a) (ep_path app e) (DText (hostport (a_host a) (ep_port e)))))
      by (rewrite Hc; reflexivity).
    apply create_retry_keeps. exact Hq. }
  destruct o; cbn; [apply IH; exact H1 | exact H1 | exact H1].
Qed.
Lemma reg_loop_none a app eps : forall t q,
  tget t q = None -> (forall e, In e eps -> path_eqb (ep_path app e) q = false) ->
  tget (fst (register_endpoints_loop a app eps t)) q = None.
Proof.
  induction eps as [|e r IH]; intros t q Hq Hne; cbn [register_endpoints_loop]; [exact Hq|].
  destruct (create_ephemeral t (a_sess a) (ep_path app e) (DText (hostport (a_host a) (ep_port e)))) as [t1 o] eqn:Hc.
  assert (H1 : tget t1 q = None).
  { replace t1 with (fst (create_ephemeral t (a_sess a) (ep_path app e) (DText (hostport (a_host a) (ep_port e)))))
      by (rewrite Hc; reflexivity).
    apply create_retry_none; [exact Hq | apply Hne; left; reflexivity]. }
  destruct o; cbn; [apply IH; [exact H1 | intros e' He'; apply Hne; right; exact He'] | exact H1 | exact H1].
Qed.
Lemma reg_loop_done a app eps : forall t t',
  register_endpoints_loop a app eps t = (t', Done) ->
  forall e, In e eps ->
    tget t' (ep_path app e) =
      Some {| e_path := ep_path app e; e_data := DText (hostport (a_host a) (ep_port e)); e_owner := a_sess a |}.
Proof.
  induction eps as [|e0 r IH]; intros t t' Hr e He; [destruct He|].
  cbn [register_endpoints_loop] in Hr.
  destruct (create_ephemeral t (a_sess a) (ep_path app e0) (DText (hostport (a_host a) (ep_port e0)))) as [t1 o] eqn:Hc.
  destruct o; try (inversion Hr; fail).
  destruct He as [He | He].
  - subst e0. apply create_retry_done in Hc as [_ Hc].
    replace t' with (fst (register_endpoints_loop a app r t1)) by (rewrite Hr; reflexivity).
    apply reg_loop_keeps. exact Hc.
  - eapply IH; eassumption.
Qed.

(** * unregister: one node *)
Lemma tget_unreg_node t p h q :
  tget (unreg_node t p h) q = if path_eqb q p && holds t p h then None else tget t q.
Proof.
  unfold unreg_node, unreg_check, unreg_act. destruct (holds t p h).
  - rewrite tget_ensure_deleted. rewrite andb_true_r. reflexivity.
  - rewrite andb_false_r. reflexivity.
Qed.
Lemma andb_path_holds q p t h : path_eqb q p && holds t p h = path_eqb q p && holds t q h.
Proof. destruct (path_eqb q p) eqn:E; [|reflexivity]. apply path_eqb_eq in E. subst. reflexivity. Qed.
Lemma holds_unreg_node t p h q :
  holds (unreg_node t p h) q h = negb (path_eqb q p) && holds t q h.
Proof.
  unfold holds at 1. rewrite tget_unreg_node. destruct (path_eqb q p) eqn:E; cbn.
  - apply path_eqb_eq in E. subst q. destruct (holds t p h) eqn:Hh; [reflexivity|].
    unfold holds in Hh. exact Hh.
  - reflexivity.
Qed.

(** * the three unregister_* functions, exactly *)
Theorem thm_unregister_running_exact a m t q :
  snd (unregister_running a m t) = Done /\
  tget (fst (unregister_running a m t)) q =
    if path_eqb q (PRunning (m_app m)) && holds t q (a_host a) then None else tget t q.
Proof.
  split; [reflexivity|]. cbn [unregister_running fst]. rewrite tget_unreg_node. rewrite andb_path_holds. reflexivity.
Qed.

Lemma unreg_loop_exact h app eps : forall t q,
  tget (unregister_endpoints_loop h app eps t) q =
    if existsb (fun e => path_eqb q (ep_path app e)) (reached eps) && holds t q h then None else tget t q.
Proof.
  induction eps as [|e r IH]; intros t q; cbn [unregister_endpoints_loop reached]; [reflexivity|].
  destruct (ep_name e =? 0) eqn:En; [reflexivity|].
  cbn [existsb]. rewrite IH. rewrite tget_unreg_node, holds_unreg_node.
  destruct (path_eqb q (ep_path app e)) eqn:E.
  - apply path_eqb_eq in E. subst q. cbn. rewrite andb_false_r. reflexivity.
  - cbn. reflexivity.
Qed.
Theorem thm_unregister_endpoints_exact a m t q :
  snd (unregister_endpoints a m t) = Done /\
  tget (fst (unregister_endpoints a m t)) q =
    if existsb (fun e => path_eqb q (ep_path (m_app m) e)) (reached (m_eps m)) && holds t q (a_host a)
    then None else tget t q.
Proof. split; [reflexivity|]. cbn [unregister_endpoints fst]. apply unreg_loop_exact. Qed.

Theorem thm_unregister_identity_exact a m t q :
  snd (unregister_identity a m t) =
    match m_ident m with
    | Some gi => match tget t (ident_path gi) with
                 | Some n => match e_data n with DText _ => Raised | DIdent _ _ => Done end
                 | None => Done
                 end
    | None => Done
    end /\
  tget (fst (unregister_identity a m t)) q =
    if match m_ident m with Some gi => path_eqb q (ident_path gi) | None => false end && holds t q (a_host a)
    then None else tget t q.
Proof.
  unfold unregister_identity. destruct (m_ident m) as [gi|]; [|split; reflexivity].
  destruct (tget t (ident_path gi)) as [n|] eqn:Hg.
  - destruct (e_data n) eqn:Hd; cbn [fst snd]; (split; [reflexivity|]).
    + destruct (path_eqb q (ident_path gi)) eqn:E; [|reflexivity].
      apply path_eqb_eq in E. subst q. unfold holds. rewrite Hg. unfold ident_path, names. rewrite Hd. reflexivity.
    + rewrite tget_unreg_node. rewrite andb_path_holds. reflexivity.
  - cbn [fst snd]. split; [reflexivity|].
    destruct (path_eqb q (ident_path gi)) eqn:E; [|reflexivity].
    apply path_eqb_eq in E. subst q. unfold holds. rewrite Hg. reflexivity.
Qed.

(** * what "names" means *)
Lemma names_running_spec d h :
  names_running d h = true <-> exists s, d = DText s /\ s <> [] /\ s = h.
Proof.
  destruct d as [s|h' ap]; cbn; split.
  - intros H. apply andb_true_iff in H as [H1 H2]. apply text_eqb_eq in H2. exists s. repeat split; try assumption.
    intros E. rewrite E in H1. cbn in H1. discriminate H1.
  - intros (s' & E & Hn & Hs). inversion E; subst s'. subst h. rewrite text_eqb_refl.
    destruct s; [contradiction | reflexivity].
  - discriminate.
  - intros (s' & E & _). discriminate.
Qed.
Lemma names_endpoint_spec d h :
  names_endpoint d h = true <-> exists s, d = DText s /\ s <> [] /\ before_colon s = h.
Proof.
  destruct d as [s|h' ap]; cbn; split.
  - intros H. apply andb_true_iff in H as [H1 H2]. apply text_eqb_eq in H2. exists s. repeat split; try assumption.
    intros E. rewrite E in H1. cbn in H1. discriminate H1.
  - intros (s' & E & Hn & Hs). inversion E; subst s'. subst h. rewrite text_eqb_refl.
    destruct s; [contradiction | reflexivity].
  - discriminate.
  - intros (s' & E & _). discriminate.
Qed.
Lemma names_identity_spec d h : names_identity d h = true <-> exists ap, d = DIdent h ap.
Proof.
  destruct d as [s|h' ap]; cbn; split.
  - discriminate.
  - intros (ap & E). discriminate.
  - intros H. apply text_eqb_eq in H. subst. exists ap. reflexivity.
  - intros (ap' & E). inversion E; subst. apply text_eqb_refl.
Qed.
(** a node names at most one host *)
Lemma names_exclusive p d h1 h2 : names p d h1 = true -> names p d h2 = true -> h1 = h2.
Proof.
  destruct p; cbn; try discriminate; destruct d; cbn; try discriminate; intros H1 H2;
    repeat match goal with
    | H : _ && _ = true |- _ => apply andb_true_iff in H; destruct H
    | H : text_eqb _ _ = true |- _ => apply text_eqb_eq in H
    end; congruence.
Qed.
Lemma names_other_host p d b h : names p d b = true -> text_eqb h b = false -> names p d h = false.
Proof.
  intros Hb Hne. destruct (names p d h) eqn:Hh; [|reflexivity].
  pose proof (names_exclusive _ _ _ _ Hh Hb) as E. subst. rewrite text_eqb_refl in Hne. discriminate.
Qed.
Lemma before_colon_hostport h port :
  existsb (Z.eqb colon) h = false -> before_colon (hostport h port) = h.
Proof.
  unfold hostport. induction h as [|c h IH]; cbn [app before_colon existsb]; intros H.
  - rewrite Z.eqb_refl. reflexivity.
  - apply orb_false_iff in H as [H1 H2]. rewrite Z.eqb_sym in H1. rewrite H1. f_equal. apply IH. exact H2.
Qed.
Lemma host_ok_names_endpoint h port : host_ok h = true -> names_endpoint (DText (hostport h port)) h = true.
Proof.
  unfold host_ok. intros H. apply andb_true_iff in H as [H1 H2]. apply negb_true_iff in H1, H2.
  cbn. rewrite (before_colon_hostport _ _ H2), text_eqb_refl.
  unfold hostport. destruct h; [discriminate | reflexivity].
Qed.
Lemma host_ok_names_running h : host_ok h = true -> names_running (DText h) h = true.
Proof.
  unfold host_ok. intros H. apply andb_true_iff in H as [H1 _]. cbn. rewrite H1, text_eqb_refl. reflexivity.
Qed.

(** * an unregister_* by host a never removes a node that does not name a, and changes nothing but removals *)
Theorem thm_unregister_spares o a t q n :
  unregister_by o = Some a -> tget t q = Some n -> names q (e_data n) (a_host a) = false ->
  tget (fst (ep_step t o)) q = Some n.
Proof.
  intros Ho Hq Hn.
  assert (Hh : holds t q (a_host a) = false) by (unfold holds; rewrite Hq; exact Hn).
  destruct o; cbn in Ho; inversion Ho; subst; cbn [ep_step].
  - destruct (thm_unregister_running_exact a m t q) as [_ E]. rewrite E, Hh, andb_false_r. exact Hq.
  - destruct (thm_unregister_endpoints_exact a m t q) as [_ E]. rewrite E, Hh, andb_false_r. exact Hq.
  - destruct (thm_unregister_identity_exact a m t q) as [_ E]. rewrite E, Hh, andb_false_r. exact Hq.
Qed.
(** ... and never creates or rewrites one *)
Theorem thm_unregister_only_removes o a t q :
  unregister_by o = Some a -> tget (fst (ep_step t o)) q = None \/ tget (fst (ep_step t o)) q = tget t q.
Proof.
  intros Ho. destruct o; cbn in Ho; inversion Ho; subst; cbn [ep_step].
  - destruct (thm_unregister_running_exact a m t q) as [_ E]. rewrite E.
    destruct (_ && _); [left | right]; reflexivity.
  - destruct (thm_unregister_endpoints_exact a m t q) as [_ E]. rewrite E.
    destruct (_ && _); [left | right]; reflexivity.
  - destruct (thm_unregister_identity_exact a m t q) as [_ E]. rewrite E.
    destruct (_ && _); [left | right]; reflexivity.
Qed.

(** * along any list of operations: a node naming host b is out of reach of everybody else's unregister_* and
      of every register_*, _unschedule and creation *)
Lemma names_not_scheduled n b i : names (e_path n) (e_data n) b = true -> path_eqb (e_path n) (PScheduled i) = false.
Proof. destruct (e_path n); cbn; try discriminate; reflexivity. Qed.

Lemma step_spares b n t o :
  tget t (e_path n) = Some n -> names (e_path n) (e_data n) b = true -> spares b n o = true ->
  tget (fst (ep_step t o)) (e_path n) = Some n.
Proof.
  intros Hq Hn Hs. destruct o; cbn [ep_step spares] in *.
  - apply create_retry_keeps. exact Hq.
  - apply negb_true_iff in Hs. apply (thm_unregister_spares (OUnregRunning a m) a); [reflexivity | exact Hq |].
    eapply names_other_host; eassumption.
  - apply reg_loop_keeps. exact Hq.
  - apply negb_true_iff in Hs. apply (thm_unregister_spares (OUnregEndpoints a m) a); [reflexivity | exact Hq |].
    eapply names_other_host; eassumption.
  - unfold register_identity. destruct (m_ident m); [apply create_retry_keeps|]; exact Hq.
  - apply negb_true_iff in Hs. apply (thm_unregister_spares (OUnregIdentity a m) a); [reflexivity | exact Hq |].
    eapply names_other_host; eassumption.
  - cbn [fst]. unfold unschedule. destruct (texists t (PPlacement (a_host a) inst)); [|exact Hq].
    rewrite tget_ensure_deleted. rewrite (names_not_scheduled n b inst Hn). exact Hq.
  - destruct (tcreate t p d owner) eqn:Hc; cbn [fst]; [|exact Hq].
    rewrite (tget_create _ _ _ _ _ (e_path n) Hc). rewrite Hq. reflexivity.
  - destruct (tdelete t p) eqn:Hd; cbn [fst]; [|exact Hq].
    rewrite (tget_delete _ _ _ (e_path n) Hd). apply negb_true_iff in Hs. rewrite path_eqb_sym, Hs. exact Hq.
  - cbn [fst]. apply tget_expire_keep; assumption.
Qed.
Theorem thm_survive b n ops : forall t,
  tget t (e_path n) = Some n -> names (e_path n) (e_data n) b = true -> forallb (spares b n) ops = true ->
  tget (ep_run t ops) (e_path n) = Some n.
Proof.
  induction ops as [|o r IH]; intros t Hq Hn Hs; cbn [ep_run]; [exact Hq|].
  cbn in Hs. apply andb_true_iff in Hs as [Hs1 Hs2].
  apply IH; [apply step_spares with (b := b); assumption | exact Hn | exact Hs2].
Qed.

(** * EndpointPresence.register of host b succeeded: its nodes are there, ephemeral nodes of b's session naming b *)
Theorem thm_register_all_registers b m t t1 q :
  host_ok (a_host b) = true -> register_all b m t = (t1, Done) -> In q (registered_paths m) ->
  exists n, tget t1 q = Some n /\ e_path n = q /\ e_owner n = a_sess b /\ names q (e_data n) (a_host b) = true.
Proof.
  intros Hok Hr Hin. unfold register_all in Hr.
  destruct (register_identity b m t) as [t_i o_i] eqn:Hi.
  destruct o_i; try (inversion Hr; fail).
  destruct (register_running b m t_i) as [t_r o_r] eqn:Hrun.
  destruct o_r; try (inversion Hr; fail).
  unfold register_endpoints in Hr.
  assert (Hkeep : forall q x, tget t_r q = Some x -> tget t1 q = Some x).
  { intros q' x Hx. replace t1 with (fst (register_endpoints_loop b (m_app m) (m_eps m) t_r)) by (rewrite Hr; reflexivity).
    apply reg_loop_keeps. exact Hx. }
  unfold registered_paths in Hin. destruct Hin as [Hin | Hin].
  - subst q. unfold register_running in Hrun. apply create_retry_done in Hrun as [_ Hrun].
    eexists. split; [apply Hkeep; exact Hrun|]. cbn. repeat split. apply host_ok_names_running. exact Hok.
  - apply in_app_or in Hin as [Hin | Hin].
    + apply in_map_iff in Hin as (e & Eq & He). subst q.
      eexists. split; [eapply reg_loop_done; eassumption|]. cbn [e_path e_owner e_data]. repeat split.
      unfold ep_path. cbn [names]. apply host_ok_names_endpoint. exact Hok.
    + unfold register_identity in Hi. destruct (m_ident m) as [gi|]; [|destruct Hin].
      destruct Hin as [Hin | []]. subst q.
      apply create_retry_done in Hi as [_ Hi].
      eexists. split.
      * apply Hkeep. unfold register_running in Hrun.
        replace t_r with (fst (create_ephemeral t_i (a_sess b) (PRunning (m_app m)) (DText (a_host b))))
          by (rewrite Hrun; reflexivity).
        apply create_retry_keeps. exact Hi.
      * cbn [e_path e_owner e_data]. repeat split. unfold ident_path. cbn. apply text_eqb_refl.
Qed.

(** the "never unregisters a newer one" clause at this level: host b registered the instance; whatever follows,
    as long as it is not b's own unregister_*, a direct delete of that path or the expiry of b's session -- in
    particular the clean-up of an older container of the same instance on ANY other host, with ANY manifest -- leaves
    each of b's nodes exactly as b created it *)
Theorem thm_newer_elsewhere_kept b m t t1 q :
  host_ok (a_host b) = true -> register_all b m t = (t1, Done) -> In q (registered_paths m) ->
  exists n, tget t1 q = Some n /\ e_owner n = a_sess b /\ names q (e_data n) (a_host b) = true /\
            forall ops, forallb (spares (a_host b) n) ops = true -> tget (ep_run t1 ops) q = Some n.
Proof.
  intros Hok Hr Hin. destruct (thm_register_all_registers b m t t1 q Hok Hr Hin) as (n & Hg & Hp & Ho & Hn).
  exists n. repeat split; try assumption. intros ops Hs. subst q. apply thm_survive with (b := a_host b); assumption.
Qed.
Corollary thm_cleanup_elsewhere_keeps_newer a b m m_old t t1 q mid :
  host_ok (a_host b) = true -> text_eqb (a_host a) (a_host b) = false ->
  register_all b m t = (t1, Done) -> In q (registered_paths m) ->
  forallb (fun o => match o with ODelete _ | OExpire _ => false | _ => true end) mid = true ->
  forallb (fun o => match unregister_by o with Some c => negb (text_eqb (a_host c) (a_host b)) | None => true end) mid = true ->
  tget (ep_run t1 (mid ++ [OUnregRunning a m_old; OUnregEndpoints a m_old; OUnregIdentity a m_old])) q = tget t1 q.
Proof.
  intros Hok Hab Hr Hin Hm1 Hm2.
  destruct (thm_newer_elsewhere_kept b m t t1 q Hok Hr Hin) as (n & Hg & _ & _ & Hall).
  rewrite Hg. apply Hall. rewrite forallb_app. apply andb_true_iff. split.
  - apply forallb_forall. intros o Ho.
    rewrite forallb_forall in Hm1, Hm2. specialize (Hm1 o Ho). specialize (Hm2 o Ho).
    destruct o; cbn in *; try reflexivity; try discriminate; exact Hm2.
  - cbn. rewrite Hab. reflexivity.
Qed.

(** * _unschedule *)
Theorem thm_unschedule_exact h i t q :
  tget (unschedule h i t) q =
    if path_eqb q (PScheduled i) && texists t (PPlacement h i) then None else tget t q.
Proof.
  unfold unschedule. destruct (texists t (PPlacement h i)).
  - rewrite tget_ensure_deleted, andb_true_r. reflexivity.
  - rewrite andb_false_r. reflexivity.
Qed.
Theorem thm_unschedule_stale_noop h i t : tget t (PPlacement h i) = None -> unschedule h i t = t.
Proof. unfold unschedule, texists. intros H. rewrite H. reflexivity. Qed.

Lemma step_stale a i n t o :
  tget t (PPlacement a i) = None -> tget t (PScheduled i) = Some n -> stale_for a i n o = true ->
  tget (fst (ep_step t o)) (PPlacement a i) = None /\ tget (fst (ep_step t o)) (PScheduled i) = Some n.
Proof.
  intros Hp Hs Hst.
  assert (Hunreg : forall o' c, unregister_by o' = Some c ->
            tget (fst (ep_step t o')) (PPlacement a i) = None /\ tget (fst (ep_step t o')) (PScheduled i) = Some n).
  { intros o' c Ho'. split.
    - destruct (thm_unregister_only_removes o' c t (PPlacement a i) Ho') as [E | E]; [exact E | rewrite E; exact Hp].
    - apply (thm_unregister_spares o' c); [exact Ho' | exact Hs | reflexivity]. }
  destruct o; cbn [stale_for] in Hst;
    try (eapply Hunreg; reflexivity); cbn [ep_step].
  - split; [apply create_retry_none; [exact Hp | reflexivity] | apply create_retry_keeps; exact Hs].
  - split; [apply reg_loop_none; [exact Hp | intros; reflexivity] | apply reg_loop_keeps; exact Hs].
  - unfold register_identity. destruct (m_ident m) as [gi|]; [|split; assumption].
    split; [apply create_retry_none; [exact Hp | reflexivity] | apply create_retry_keeps; exact Hs].
  - cbn [fst]. rewrite !thm_unschedule_exact. cbn [path_eqb andb]. split; [exact Hp|].
    destruct (inst =? i) eqn:Ei; cbn in Hst.
    + apply Z.eqb_eq in Ei. subst inst. apply text_eqb_eq in Hst. rewrite Hst.
      unfold texists. rewrite Hp. rewrite andb_false_r. exact Hs.
    + rewrite Z.eqb_sym, Ei. exact Hs.
  - apply negb_true_iff in Hst. destruct (tcreate t p d owner) eqn:Hc; cbn [fst]; [|split; assumption].
    rewrite !(tget_create _ _ _ _ _ _ Hc). rewrite Hp, Hs, Hst. split; reflexivity.
  - apply negb_true_iff in Hst. destruct (tdelete t p) eqn:Hd; cbn [fst]; [|split; assumption].
    rewrite !(tget_delete _ _ _ _ Hd). rewrite Hp. rewrite (path_eqb_sym (PScheduled i) p), Hst. split; [|exact Hs].
    destruct (path_eqb (PPlacement a i) p); reflexivity.
  - cbn [fst]. split; [apply tget_expire_none; exact Hp | apply tget_expire_keep; assumption].
Qed.
(** host a does not hold /placement/a/i (the instance was placed elsewhere, or nowhere) and is not given it: whatever
    else happens -- any number of a's stale events for i among it -- /scheduled/i stays *)
Theorem thm_stale_events_keep_scheduled a i n ops : forall t,
  tget t (PPlacement a i) = None -> tget t (PScheduled i) = Some n -> forallb (stale_for a i n) ops = true ->
  tget (ep_run t ops) (PPlacement a i) = None /\ tget (ep_run t ops) (PScheduled i) = Some n.
Proof.
  induction ops as [|o r IH]; intros t Hp Hs Hst; cbn [ep_run]; [split; assumption|].
  cbn in Hst. apply andb_true_iff in Hst as [H1 H2].
  destruct (step_stale a i n t o Hp Hs H1) as [Hp' Hs']. apply IH; assumption.
Qed.
Lemma run_app t ops1 : forall ops2, ep_run t (ops1 ++ ops2) = ep_run (ep_run t ops1) ops2.
Proof. revert t. induction ops1 as [|o r IH]; intros t ops2; cbn; [reflexivity | apply IH]. Qed.
Corollary thm_stale_event_changes_nothing a i n ops t sess :
  tget t (PPlacement a i) = None -> tget t (PScheduled i) = Some n -> forallb (stale_for a i n) ops = true ->
  ep_run t (ops ++ [OUnschedule {| a_host := a; a_sess := sess |} i]) = ep_run t ops.
Proof.
  intros Hp Hs Hst. rewrite run_app. cbn.
  destruct (thm_stale_events_keep_scheduled a i n ops t Hp Hs Hst) as [Hp' _].
  apply thm_unschedule_stale_noop. exact Hp'.
Qed.
