(** Proofs about the presence service model [Node/Presence.v]. *)
From Coq Require Import ZArith List Bool Lia PeanoNat.
From TM Require Import Node.Presence.
Import ListNotations.
Open Scope Z_scope.

(** * Lists *)
Lemma nth_error_upd {X} (l : list X) i x j :
  nth_error (upd l i x) j =
  if Nat.eqb i j then match nth_error l i with Some _ => Some x | None => None end else nth_error l j.
Proof.
  revert i j; induction l as [|y l IH]; intros i j.
  - cbn. destruct (Nat.eqb i j); destruct i, j; reflexivity.
  - destruct i as [|i], j as [|j]; cbn; try reflexivity. apply IH.
Qed.

Lemma map_upd {X Y} (f : X -> Y) (l : list X) i x : map f (upd l i x) = upd (map f l) i (f x).
Proof. revert i; induction l as [|y l IH]; intros [|i]; cbn; try reflexivity. f_equal. apply IH. Qed.

Lemma upd_same {X} (l : list X) i x : nth_error l i = Some x -> upd l i x = l.
Proof.
  revert i; induction l as [|y l IH]; intros [|i] H; cbn in *; try discriminate.
  - congruence.
  - f_equal. apply IH. exact H.
Qed.

Lemma In_upd {X} (l : list X) i x z : In z (upd l i x) -> z = x \/ In z l.
Proof.
  revert i; induction l as [|y l IH]; intros [|i] H; cbn in *; try contradiction.
  - destruct H as [H|H]; [left; congruence | right; right; exact H].
  - destruct H as [H|H]; [right; left; exact H|]. destruct (IH _ H); auto.
Qed.

Lemma NoDup_upd_fresh {X} (l : list X) i y : NoDup l -> ~ In y l -> NoDup (upd l i y).
Proof.
  revert i; induction l as [|x l IH]; intros [|i] Hnd Hy; cbn; try constructor.
  - intros H. apply Hy. right. exact H.
  - inversion Hnd; assumption.
  - intros H. apply In_upd in H as [H|H].
    + apply Hy. left. congruence.
    + inversion Hnd; contradiction.
  - apply IH; [inversion Hnd; assumption|]. intros H. apply Hy. right. exact H.
Qed.

Lemma NoDup_nth_neq {X} (l : list X) i j a b :
  NoDup l -> nth_error l i = Some a -> nth_error l j = Some b -> i <> j -> a <> b.
Proof.
  intros Hnd Hi Hj Hij E. subst b. apply Hij.
  apply (proj1 (NoDup_nth_error l) Hnd).
  - apply nth_error_Some. congruence.
  - congruence.
Qed.

Lemma nodupb_NoDup l : nodupb l = true -> NoDup l.
Proof.
  induction l as [|x l IH]; cbn; intros H; [constructor|].
  apply andb_true_iff in H as [Hx Hl]. constructor; [|apply IH; exact Hl].
  intros Hin. apply negb_true_iff in Hx.
  assert (E : existsb (Z.eqb x) l = true) by (apply existsb_exists; exists x; split; [exact Hin | apply Z.eqb_refl]).
  congruence.
Qed.

Lemma find_filter_keep {X} (g f : X -> bool) (l : list X) :
  (forall x, g x = true -> f x = true) -> find g (filter f l) = find g l.
Proof.
  intros H. induction l as [|x l IH]; cbn; [reflexivity|].
  destruct (g x) eqn:Eg.
  - rewrite (H x Eg). cbn. rewrite Eg. reflexivity.
  - destruct (f x); cbn; [rewrite Eg|]; exact IH.
Qed.

Lemma find_filter_found {X} (g f : X -> bool) (l : list X) n :
  find g l = Some n -> f n = true -> find g (filter f l) = Some n.
Proof.
  induction l as [|x l IH]; cbn; intros H Hf; [discriminate|].
  destruct (g x) eqn:Eg.
  - injection H as ->. rewrite Hf. cbn. rewrite Eg. reflexivity.
  - destruct (f x); cbn; [rewrite Eg|]; apply IH; assumption.
Qed.

(** * ZooKeeper table *)
Lemma zk_get_path t p n : zk_get t p = Some n -> n_path n = p.
Proof. intros H. apply find_some in H as [_ H]. lia. Qed.

Lemma zk_get_app_l t t' p n : zk_get t p = Some n -> zk_get (t ++ t') p = Some n.
Proof.
  unfold zk_get. induction t as [|x t IH]; cbn; intros H; [discriminate|].
  destruct (n_path x =? p); [exact H | apply IH; exact H].
Qed.

Lemma zk_get_app_r t x p : zk_get t p = None -> zk_get (t ++ [x]) p = if n_path x =? p then Some x else None.
Proof.
  unfold zk_get. induction t as [|y t IH]; cbn; intros H; [reflexivity|].
  destruct (n_path y =? p); [discriminate | apply IH; exact H].
Qed.

Lemma owner_of_set t p d q :
  owner_of (map (fun n => if n_path n =? p then {| n_path := p; n_data := d; n_owner := n_owner n |} else n) t) q
  = owner_of t q.
Proof.
  unfold owner_of, zk_get. induction t as [|x t IH]; cbn; [reflexivity|].
  destruct (n_path x =? p) eqn:E; cbn.
  - assert (n_path x = p) by lia. subst p. destruct (n_path x =? q); cbn; [reflexivity | exact IH].
  - destruct (n_path x =? q); cbn; [reflexivity | exact IH].
Qed.

(** what one call of a client with session sid may do to the table *)
Definition zk_change (sid : Z) (t t' : zk) : Prop :=
  t' = t \/ (exists p d, zk_create t p d sid = Some t') \/ (exists p d, zk_set t p d = Some t') \/
  (exists p, zk_delete t p = Some t' /\ owner_of t p = Some sid).

Lemma other_preserved sid t t' q sid' :
  zk_change sid t t' -> owner_of t q = Some sid' -> sid' <> sid -> owner_of t' q = Some sid'.
Proof.
  intros [->|[[p [d H]]|[[p [d H]]|[p [H Ho]]]]] Hq Hne.
  - exact Hq.
  - unfold zk_create in H. destruct (zk_get t p); [discriminate|]. injection H as <-.
    unfold owner_of in *. destruct (zk_get t q) as [n|] eqn:E; [|discriminate].
    rewrite (zk_get_app_l _ _ _ _ E). exact Hq.
  - unfold zk_set in H. destruct (zk_get t p); [|discriminate]. injection H as <-.
    rewrite owner_of_set. exact Hq.
  - unfold zk_delete in H. destruct (zk_get t p) as [np|] eqn:Ep; [|discriminate]. injection H as <-.
    unfold owner_of in *. destruct (zk_get t q) as [n|] eqn:E; [|discriminate].
    unfold zk_get in *. rewrite (find_filter_found _ _ _ n E); [exact Hq|].
    apply negb_true_iff, Z.eqb_neq. intros Hpq.
    assert (Hnq : n_path n = q) by (apply find_some in E as [_ E]; lia).
    rewrite <- Hnq, Hpq in E. rewrite Ep in E. injection E as ->. rewrite Ep in Ho.
    cbn in Ho, Hq. congruence.
Qed.

Lemma expire_preserved t sid q sid' :
  owner_of t q = Some sid' -> sid' <> sid -> owner_of (zk_expire t sid) q = Some sid'.
Proof.
  unfold owner_of, zk_expire, zk_get. intros Hq Hne.
  destruct (find (fun n => n_path n =? q) t) as [n|] eqn:E; [|discriminate].
  rewrite (find_filter_found _ _ _ n E); [exact Hq|]. cbn in Hq.
  apply negb_true_iff, Z.eqb_neq. congruence.
Qed.

(** * The ownership invariant *)
Definition guarded (k : pc) : option Z :=
  match k with
  | PUpdate _ _ p _ _ | PDelChildren _ _ p _ | PDelDelete _ _ p _ => Some p
  | _ => None
  end.

(** a client past its ownership check on p: p exists and is owned by the client's session *)
Definition client_ok (t : zk) (c : client) : Prop :=
  c_alive c = true -> forall p, guarded (c_pc c) = Some p -> owner_of t p = Some (c_sess c).

Definition Inv (s : state) : Prop :=
  NoDup (map c_sess (st_clients s)) /\
  (forall j c, nth_error (st_clients s) j = Some c -> c_sess c < st_next s) /\
  (forall j c, nth_error (st_clients s) j = Some c -> client_ok (st_zk s) c).


Lemma guarded_next_create rid app rest : guarded (next_create rid app rest) = None.
Proof. destruct rest as [|[p d] rest]; reflexivity. Qed.
Lemma guarded_next_delete rid app rest : guarded (next_delete rid app rest) = None.
Proof. destruct rest as [|p rest]; reflexivity. Qed.

Lemma client_ok_unguarded t c m k : guarded k = None -> client_ok t (with_pc c m k).
Proof. intros Hg _ p Hp. cbn in Hp. congruence. Qed.

Ltac finish_unguarded :=
  first [ apply client_ok_unguarded; first [reflexivity | apply guarded_next_create | apply guarded_next_delete] ].

Lemma safe_obs_read i c t op p d ok rid app isdel retry :
  mutating op = false -> op <> OCreate -> safe_obs (mk_obs i c t t op p d ok rid app isdel retry).
Proof.
  intros Hm Hc. unfold safe_obs, mk_obs; cbn. repeat split; intros; try congruence.
  all: destruct op; cbn in *; congruence.
Qed.

Lemma client_step_spec i t c t' c' o :
  c_alive c = true -> client_ok t c -> client_step i t c = Some (t', c', o) ->
  c_sess c' = c_sess c /\ c_alive c' = c_alive c /\ client_ok t' c' /\ safe_obs o /\ zk_change (c_sess c) t t'.
Proof.
  intros Ha Hok H. unfold client_step in H.
  destruct (c_pc c) as [|rid app p d rest|rid app p d rest|rid app p d rest|rid app p|rid app p
                        |rid app p rest|rid app p rest|rid app p rest] eqn:Epc; try discriminate.
  - (* PCreate *)
    destruct (zk_create t p d (c_sess c)) as [t1|] eqn:E; injection H as <- <- <-.
    + split; [reflexivity|]. split; [reflexivity|]. split; [finish_unguarded|]. split.
      * unfold safe_obs, mk_obs; cbn. repeat split; intros; try discriminate.
        -- unfold zk_create in E. unfold owner_of. destruct (zk_get t p); [discriminate | reflexivity].
        -- unfold zk_create in E. destruct (zk_get t p) eqn:Eg; [discriminate|]. injection E as <-.
           unfold owner_of. rewrite (zk_get_app_r _ _ _ Eg). cbn. rewrite Z.eqb_refl. reflexivity.
      * right. left. exists p, d. exact E.
    + split; [reflexivity|]. split; [reflexivity|]. split; [finish_unguarded|]. split.
      * unfold safe_obs, mk_obs; cbn. repeat split; intros; discriminate.
      * left. reflexivity.
  - (* PGet *)
    destruct (zk_get t p) as [n|] eqn:Eg.
    + destruct (negb (n_owner n =? c_sess c)) eqn:Eo; [|destruct (negb (n_data n =? d)) eqn:Ed];
        injection H as <- <- <-; (split; [reflexivity|]; split; [reflexivity|]).
      * split; [finish_unguarded|]. split; [apply safe_obs_read; [reflexivity | discriminate] | left; reflexivity].
      * split; [|split; [apply safe_obs_read; [reflexivity | discriminate] | left; reflexivity]].
        intros _ q Hq. cbn in Hq. injection Hq as <-. unfold owner_of. rewrite Eg. cbn.
        apply negb_false_iff in Eo. f_equal. lia.
      * split; [finish_unguarded|]. split; [apply safe_obs_read; [reflexivity | discriminate] | left; reflexivity].
    + injection H as <- <- <-. split; [reflexivity|]. split; [reflexivity|]. split; [finish_unguarded|].
      split; [apply safe_obs_read; [reflexivity | discriminate] | left; reflexivity].
  - (* PUpdate *)
    assert (Ho : owner_of t p = Some (c_sess c)) by (apply Hok; [exact Ha | rewrite Epc; reflexivity]).
    unfold zk_set in H. unfold owner_of in Ho. destruct (zk_get t p) as [n|] eqn:Eg; [|discriminate].
    injection H as <- <- <-. split; [reflexivity|]. split; [reflexivity|]. split; [finish_unguarded|]. split.
    + unfold safe_obs, mk_obs; cbn. repeat split; intros; try discriminate.
      * unfold owner_of. rewrite Eg. exact Ho.
      * rewrite owner_of_set. reflexivity.
    + right. right. left. exists p, d. unfold zk_set. rewrite Eg. reflexivity.
  - (* PWatchGet *)
    destruct (zk_get t p); injection H as <- <- <-; (split; [reflexivity|]; split; [reflexivity|]);
      (split; [finish_unguarded|]; split; [apply safe_obs_read; [reflexivity | discriminate] | left; reflexivity]).
  - (* PWatchExists *)
    destruct (zk_get t p); injection H as <- <- <-; (split; [reflexivity|]; split; [reflexivity|]);
      (split; [finish_unguarded|]; split; [apply safe_obs_read; [reflexivity | discriminate] | left; reflexivity]).
  - (* PDelGet *)
    destruct (zk_get t p) as [n|] eqn:Eg.
    + destruct (n_owner n =? c_sess c) eqn:Eo; injection H as <- <- <-; (split; [reflexivity|]; split; [reflexivity|]).
      * split; [|split; [apply safe_obs_read; [reflexivity | discriminate] | left; reflexivity]].
        intros _ q Hq. cbn in Hq. injection Hq as <-. unfold owner_of. rewrite Eg. cbn. f_equal. lia.
      * split; [finish_unguarded|]. split; [apply safe_obs_read; [reflexivity | discriminate] | left; reflexivity].
    + injection H as <- <- <-. split; [reflexivity|]. split; [reflexivity|]. split; [finish_unguarded|].
      split; [apply safe_obs_read; [reflexivity | discriminate] | left; reflexivity].
  - (* PDelChildren *)
    assert (Ho : owner_of t p = Some (c_sess c)) by (apply Hok; [exact Ha | rewrite Epc; reflexivity]).
    destruct (zk_get t p) as [n|] eqn:Eg; injection H as <- <- <-; (split; [reflexivity|]; split; [reflexivity|]).
    + split; [|split; [apply safe_obs_read; [reflexivity | discriminate] | left; reflexivity]].
      intros _ q Hq. cbn in Hq. injection Hq as <-. exact Ho.
    + split; [finish_unguarded|]. split; [apply safe_obs_read; [reflexivity | discriminate] | left; reflexivity].
  - (* PDelDelete *)
    assert (Ho : owner_of t p = Some (c_sess c)) by (apply Hok; [exact Ha | rewrite Epc; reflexivity]).
    unfold zk_delete in H. pose proof Ho as Ho'. unfold owner_of in Ho'. destruct (zk_get t p) as [n|] eqn:Eg; [|discriminate].
    injection H as <- <- <-. split; [reflexivity|]. split; [reflexivity|]. split; [finish_unguarded|]. split.
    + unfold safe_obs, mk_obs; cbn. repeat split; intros; try discriminate. exact Ho.
    + right. right. right. exists p. split; [|exact Ho]. unfold zk_delete. rewrite Eg. reflexivity.
Qed.

Lemma step_inv s a s' os : Inv s -> step s a = Some (s', os) -> Inv s' /\ Forall safe_obs os.
Proof.
  intros [Hnd [Hlt Hok]] H. destruct a as [i r|i|i|i]; cbn in H;
    destruct (nth_error (st_clients s) i) as [c|] eqn:Ei; try discriminate.
  - (* AReq *)
    destruct (c_alive c && is_idle (c_pc c)) eqn:E; [|discriminate]. injection H as <- <-.
    split; [|constructor]. unfold Inv; cbn.
    assert (Es : c_sess (start c r) = c_sess c) by (destruct r; reflexivity).
    split; [|split].
    + rewrite map_upd, Es. rewrite upd_same; [exact Hnd|]. rewrite nth_error_map, Ei. reflexivity.
    + intros j c0 Hj. rewrite nth_error_upd, Ei in Hj. destruct (Nat.eqb i j) eqn:Eij.
      * injection Hj as <-. rewrite Es. eapply Hlt. exact Ei.
      * eapply Hlt. exact Hj.
    + intros j c0 Hj. rewrite nth_error_upd, Ei in Hj. destruct (Nat.eqb i j) eqn:Eij.
      * injection Hj as <-. intros _ p Hp. destruct r as [rid app items|rid app]; cbn in Hp.
        -- rewrite guarded_next_create in Hp. discriminate.
        -- rewrite guarded_next_delete in Hp. discriminate.
      * eapply Hok. exact Hj.
  - (* AStep *)
    destruct (c_alive c) eqn:Ea; [|discriminate].
    destruct (client_step i (st_zk s) c) as [[[t' c'] o]|] eqn:Ec; [|discriminate]. injection H as <- <-.
    destruct (client_step_spec _ _ _ _ _ _ Ea (Hok _ _ Ei) Ec) as [Es [Eal [Hc' [Hso Hch]]]].
    split; [|constructor; [exact Hso | constructor]]. unfold Inv; cbn. split; [|split].
    + rewrite map_upd, Es. rewrite upd_same; [exact Hnd|]. rewrite nth_error_map, Ei. reflexivity.
    + intros j c0 Hj. rewrite nth_error_upd, Ei in Hj. destruct (Nat.eqb i j) eqn:Eij.
      * injection Hj as <-. rewrite Es. eapply Hlt. exact Ei.
      * eapply Hlt. exact Hj.
    + intros j c0 Hj. rewrite nth_error_upd, Ei in Hj. destruct (Nat.eqb i j) eqn:Eij.
      * injection Hj as <-. exact Hc'.
      * apply Nat.eqb_neq in Eij. intros Ha0 p Hp.
        eapply other_preserved; [exact Hch | apply (Hok _ _ Hj Ha0 p Hp) |].
        eapply (NoDup_nth_neq (map c_sess (st_clients s)) j i); [exact Hnd | | | congruence].
        -- rewrite nth_error_map, Hj. reflexivity.
        -- rewrite nth_error_map, Ei. reflexivity.
  - (* AExpire *)
    destruct (c_alive c) eqn:Ea; [|discriminate]. injection H as <- <-.
    split; [|constructor]. unfold Inv; cbn. split; [|split].
    + rewrite map_upd. cbn. rewrite upd_same; [exact Hnd|]. rewrite nth_error_map, Ei. reflexivity.
    + intros j c0 Hj. rewrite nth_error_upd, Ei in Hj. destruct (Nat.eqb i j) eqn:Eij.
      * injection Hj as <-. cbn. eapply Hlt. exact Ei.
      * eapply Hlt. exact Hj.
    + intros j c0 Hj. rewrite nth_error_upd, Ei in Hj. destruct (Nat.eqb i j) eqn:Eij.
      * injection Hj as <-. intros Hd. cbn in Hd. discriminate.
      * apply Nat.eqb_neq in Eij. intros Ha0 p Hp. apply expire_preserved; [apply (Hok _ _ Hj Ha0 p Hp)|].
        eapply (NoDup_nth_neq (map c_sess (st_clients s)) j i); [exact Hnd | | | congruence].
        -- rewrite nth_error_map, Hj. reflexivity.
        -- rewrite nth_error_map, Ei. reflexivity.
  - (* ARestart *)
    destruct (c_alive c) eqn:Ea; [discriminate|]. injection H as <- <-.
    split; [|constructor]. unfold Inv; cbn. split; [|split].
    + rewrite map_upd. cbn. apply NoDup_upd_fresh; [exact Hnd|].
      intros Hin. apply in_map_iff in Hin as [c0 [E Hc0]]. apply In_nth_error in Hc0 as [j Hj].
      specialize (Hlt _ _ Hj). lia.
    + intros j c0 Hj. rewrite nth_error_upd, Ei in Hj. destruct (Nat.eqb i j) eqn:Eij.
      * injection Hj as <-. cbn. lia.
      * specialize (Hlt _ _ Hj). lia.
    + intros j c0 Hj. rewrite nth_error_upd, Ei in Hj. destruct (Nat.eqb i j) eqn:Eij.
      * injection Hj as <-. intros _ p Hp. cbn in Hp. discriminate.
      * eapply Hok. exact Hj.
Qed.

Lemma run_inv acts : forall s s' os, Inv s -> run s acts = Some (s', os) -> Inv s' /\ Forall safe_obs os.
Proof.
  induction acts as [|a acts IH]; intros s s' os Hi H; cbn in H.
  - injection H as <- <-. split; [exact Hi | constructor].
  - destruct (step s a) as [[s1 o1]|] eqn:E1; [|discriminate].
    destruct (run s1 acts) as [[s2 o2]|] eqn:E2; [|discriminate]. injection H as <- <-.
    destruct (step_inv _ _ _ _ Hi E1) as [Hi1 Ho1]. destruct (IH _ _ _ Hi1 E2) as [Hi2 Ho2].
    split; [exact Hi2 | apply Forall_app; split; assumption].
Qed.

Lemma wf_init_Inv s : wf_init s = true -> Inv s.
Proof.
  unfold wf_init. intros H. apply andb_true_iff in H as [H1 H2]. rewrite forallb_forall in H2.
  split; [apply nodupb_NoDup; exact H1|]. split.
  - intros j c Hj. apply nth_error_In in Hj. specialize (H2 _ Hj).
    apply andb_true_iff in H2 as [H2 _]. apply andb_true_iff in H2 as [H2 _]. lia.
  - intros j c Hj. apply nth_error_In in Hj. specialize (H2 _ Hj).
    apply andb_true_iff in H2 as [H2 _]. apply andb_true_iff in H2 as [_ H2].
    intros _ p Hp. destruct (c_pc c); cbn in H2, Hp; discriminate.
Qed.

(** * The local map: on_delete_request touches only paths registered for its rsrc_id *)
Lemma pe_is_true app p e : pe_is app p e = true <-> pe_app e = app /\ pe_path e = p.
Proof. unfold pe_is. rewrite andb_true_iff. lia. Qed.

Lemma pm_nodup_map (f : pentry -> pentry) m :
  (forall e, pe_app (f e) = pe_app e /\ pe_path (f e) = pe_path e) -> pm_nodup (map f m) = pm_nodup m.
Proof.
  intros Hf. induction m as [|e m IH]; cbn; [reflexivity|]. rewrite IH. f_equal. f_equal.
  destruct (Hf e) as [-> ->]. clear IH. induction m as [|x m IH]; cbn; [reflexivity|]. rewrite IH. f_equal.
  unfold pe_is. destruct (Hf x) as [-> ->]. reflexivity.
Qed.

Lemma pm_nodup_snoc m x : pm_nodup m = true -> existsb (pe_is (pe_app x) (pe_path x)) m = false -> pm_nodup (m ++ [x]) = true.
Proof.
  induction m as [|e m IH]; cbn; intros Hn Hx; [reflexivity|].
  apply andb_true_iff in Hn as [He Hm]. apply orb_false_iff in Hx as [Hxe Hxm].
  rewrite IH by assumption. rewrite andb_true_r. rewrite existsb_app. cbn. rewrite orb_false_r.
  apply negb_true_iff in He. rewrite He. cbn. apply negb_true_iff.
  unfold pe_is in *. destruct (pe_app x =? pe_app e) eqn:E1, (pe_path x =? pe_path e) eqn:E2; cbn in Hxe; try discriminate; lia.
Qed.

Lemma pm_nodup_set m app p rid : pm_nodup m = true -> pm_nodup (pm_set m app p rid) = true.
Proof.
  intros H. unfold pm_set. destruct (existsb (pe_is app p) m) eqn:E.
  - rewrite pm_nodup_map; [exact H|]. intros e. destruct (pe_is app p e) eqn:Ee; cbn; [|split; reflexivity].
    apply pe_is_true in Ee as [-> ->]. split; reflexivity.
  - apply pm_nodup_snoc; [exact H | exact E].
Qed.

Lemma pm_nodup_filter f m : pm_nodup m = true -> pm_nodup (filter f m) = true.
Proof.
  induction m as [|e m IH]; cbn; intros H; [reflexivity|]. apply andb_true_iff in H as [He Hm].
  destruct (f e); cbn; [|apply IH; exact Hm]. rewrite IH by exact Hm. rewrite andb_true_r.
  apply negb_true_iff. apply negb_true_iff in He.
  destruct (existsb (pe_is (pe_app e) (pe_path e)) (filter f m)) eqn:E; [|reflexivity].
  apply existsb_exists in E as [x [Hx Hpx]]. apply filter_In in Hx as [Hx _].
  assert (existsb (pe_is (pe_app e) (pe_path e)) m = true) by (apply existsb_exists; exists x; split; assumption).
  congruence.
Qed.

Lemma pm_get_del_other m app p q : q <> p -> pm_get (pm_del m app p) app q = pm_get m app q.
Proof.
  intros Hq. unfold pm_get, pm_del. rewrite find_filter_keep; [reflexivity|].
  intros x Hx. apply pe_is_true in Hx as [Ha Hp]. apply negb_true_iff.
  unfold pe_is. destruct (pe_path x =? p) eqn:E; [lia|]. apply andb_false_r.
Qed.

Lemma pm_paths_spec m app rid q : pm_nodup m = true -> In q (pm_paths m app rid) -> pm_get m app q = Some rid.
Proof.
  unfold pm_paths, pm_get. induction m as [|e m IH]; cbn; intros Hn Hq; [contradiction|].
  apply andb_true_iff in Hn as [He Hm]. apply negb_true_iff in He.
  destruct ((pe_app e =? app) && (pe_rid e =? rid)) eqn:Em; cbn in Hq.
  - destruct Hq as [<-|Hq].
    + apply andb_true_iff in Em as [E1 E2]. unfold pe_is. rewrite E1, Z.eqb_refl. cbn. f_equal. lia.
    + specialize (IH Hm Hq). destruct (pe_is app q e) eqn:Eq; [|exact IH]. exfalso.
      destruct (find (pe_is app q) m) as [x|] eqn:Ef; [|discriminate]. apply find_some in Ef as [Hx Hpx].
      apply pe_is_true in Eq as [<- <-].
      assert (existsb (pe_is (pe_app e) (pe_path e)) m = true) by (apply existsb_exists; exists x; split; assumption).
      congruence.
  - specialize (IH Hm Hq). destruct (pe_is app q e) eqn:Eq; [|exact IH]. exfalso.
    destruct (find (pe_is app q) m) as [x|] eqn:Ef; [|discriminate]. apply find_some in Ef as [Hx Hpx].
    apply pe_is_true in Eq as [<- <-].
    assert (existsb (pe_is (pe_app e) (pe_path e)) m = true) by (apply existsb_exists; exists x; split; assumption).
    congruence.
Qed.

Lemma pm_paths_NoDup m app rid : pm_nodup m = true -> NoDup (pm_paths m app rid).
Proof.
  unfold pm_paths. induction m as [|e m IH]; cbn; intros Hn; [constructor|].
  apply andb_true_iff in Hn as [He Hm]. apply negb_true_iff in He.
  destruct ((pe_app e =? app) && (pe_rid e =? rid)) eqn:Em; cbn; [|apply IH; exact Hm].
  constructor; [|apply IH; exact Hm]. intros Hin. apply in_map_iff in Hin as [x [Hp Hx]].
  apply filter_In in Hx as [Hx Hxm]. apply andb_true_iff in Em as [E1 _]. apply andb_true_iff in Hxm as [E2 _].
  assert (existsb (pe_is (pe_app e) (pe_path e)) m = true).
  { apply existsb_exists. exists x. split; [exact Hx|]. apply pe_is_true. split; lia. }
  congruence.
Qed.

Lemma pm_paths_other m app p rid1 rid2 :
  pm_nodup m = true -> pm_get m app p = Some rid2 -> rid1 <> rid2 -> ~ In p (pm_paths m app rid1).
Proof. intros Hn Hg Hne Hin. apply (pm_paths_spec _ _ _ _ Hn) in Hin. congruence. Qed.

(** a client inside on_delete_request rid: the current and the remaining paths are registered for rid *)
Definition del_ok (c : client) : Prop :=
  pm_nodup (c_pmap c) = true /\
  match c_pc c with
  | PDelGet rid app p rest | PDelChildren rid app p rest | PDelDelete rid app p rest =>
      pm_get (c_pmap c) app p = Some rid /\ (forall q, In q rest -> pm_get (c_pmap c) app q = Some rid) /\ NoDup (p :: rest)
  | _ => True
  end.


Definition Inv2 (s : state) : Prop := forall j c, nth_error (st_clients s) j = Some c -> del_ok c.

Lemma del_ok_next_create c m rid app rest : pm_nodup m = true -> del_ok (with_pc c m (next_create rid app rest)).
Proof. intros H. split; [exact H|]. cbn. destruct rest as [|[p d] rest]; exact I. Qed.

Lemma del_ok_next_delete c m rid app p rest :
  pm_nodup m = true -> (forall q, In q rest -> pm_get m app q = Some rid) -> NoDup (p :: rest) ->
  del_ok (with_pc c (pm_del m app p) (next_delete rid app rest)).
Proof.
  intros Hn Hr Hnd. split; [apply pm_nodup_filter; exact Hn|]. cbn.
  inversion Hnd as [|? ? Hp Hrest]; subst.
  destruct rest as [|q rest]; cbn; [exact I|].
  assert (Hne : forall x, In x (q :: rest) -> x <> p) by (intros x Hx ->; contradiction).
  split; [|split].
  - rewrite pm_get_del_other; [apply Hr; left; reflexivity | apply Hne; left; reflexivity].
  - intros x Hx. rewrite pm_get_del_other; [apply Hr; right; exact Hx | apply Hne; right; exact Hx].
  - exact Hrest.
Qed.

Lemma reg_obs_create i c t t' op p d ok rid app retry :
  op <> ODelete -> reg_obs (mk_obs i c t t' op p d ok rid app false retry).
Proof. intros H. unfold reg_obs, mk_obs; cbn. repeat split; intros; congruence. Qed.

Lemma reg_obs_delete i c t t' op p d ok rid app retry :
  op <> OSet -> op <> OCreate -> pm_get (c_pmap c) app p = Some rid -> reg_obs (mk_obs i c t t' op p d ok rid app true retry).
Proof. intros H1 H2 Hg. unfold reg_obs, mk_obs; cbn. repeat split; intros; try congruence. destruct H; congruence. Qed.

Lemma client_step_del i t c t' c' o : del_ok c -> client_step i t c = Some (t', c', o) -> del_ok c' /\ reg_obs o.
Proof.
  intros [Hn Hpc] H. unfold client_step in H.
  destruct (c_pc c) as [|rid app p d rest|rid app p d rest|rid app p d rest|rid app p|rid app p
                        |rid app p rest|rid app p rest|rid app p rest] eqn:Epc; try discriminate.
  - destruct (zk_create t p d (c_sess c)); injection H as <- <- <-.
    + split; [apply del_ok_next_create; apply pm_nodup_set; exact Hn | apply reg_obs_create; discriminate].
    + split; [split; [exact Hn | exact I] | apply reg_obs_create; discriminate].
  - destruct (zk_get t p) as [n|].
    + destruct (negb (n_owner n =? c_sess c)); [|destruct (negb (n_data n =? d))]; injection H as <- <- <-.
      * split; [split; [exact Hn | exact I] | apply reg_obs_create; discriminate].
      * split; [split; [exact Hn | exact I] | apply reg_obs_create; discriminate].
      * split; [apply del_ok_next_create; apply pm_nodup_set; exact Hn | apply reg_obs_create; discriminate].
    + injection H as <- <- <-. split; [split; [exact Hn | exact I] | apply reg_obs_create; discriminate].
  - destruct (zk_set t p d); injection H as <- <- <-.
    + split; [apply del_ok_next_create; apply pm_nodup_set; exact Hn | apply reg_obs_create; discriminate].
    + split; [split; [exact Hn | exact I] | apply reg_obs_create; discriminate].
  - destruct (zk_get t p); injection H as <- <- <-;
      (split; [split; [exact Hn | exact I] | apply reg_obs_create; discriminate]).
  - destruct (zk_get t p); injection H as <- <- <-;
      (split; [split; [exact Hn | exact I] | apply reg_obs_create; discriminate]).
  - destruct Hpc as [Hg [Hr Hnd]]. destruct (zk_get t p) as [n|].
    + destruct (n_owner n =? c_sess c); injection H as <- <- <-.
      * split; [split; [exact Hn | cbn; auto] | apply reg_obs_delete; [discriminate | discriminate | exact Hg]].
      * split; [apply del_ok_next_delete; assumption | apply reg_obs_delete; [discriminate | discriminate | exact Hg]].
    + injection H as <- <- <-.
      split; [apply del_ok_next_delete; assumption | apply reg_obs_delete; [discriminate | discriminate | exact Hg]].
  - destruct Hpc as [Hg [Hr Hnd]]. destruct (zk_get t p); injection H as <- <- <-.
    + split; [split; [exact Hn | cbn; auto] | apply reg_obs_delete; [discriminate | discriminate | exact Hg]].
    + split; [apply del_ok_next_delete; assumption | apply reg_obs_delete; [discriminate | discriminate | exact Hg]].
  - destruct Hpc as [Hg [Hr Hnd]]. destruct (zk_delete t p); injection H as <- <- <-;
      (split; [apply del_ok_next_delete; assumption | apply reg_obs_delete; [discriminate | discriminate | exact Hg]]).
Qed.

Lemma del_ok_start c r : del_ok c -> del_ok (start c r).
Proof.
  intros [Hn _]. destruct r as [rid app items|rid app]; cbn.
  - split; [exact Hn|]. cbn. destruct items as [|[p d] rest]; exact I.
  - split; [exact Hn|]. cbn.
    pose proof (pm_paths_spec (c_pmap c) app rid) as Hs. pose proof (pm_paths_NoDup (c_pmap c) app rid Hn) as Hd.
    destruct (pm_paths (c_pmap c) app rid) as [|p rest]; cbn; [exact I|].
    split; [apply Hs; [exact Hn | left; reflexivity]|]. split; [|exact Hd].
    intros q Hq. apply Hs; [exact Hn | right; exact Hq].
Qed.

Lemma step_inv2 s a s' os : Inv2 s -> step s a = Some (s', os) -> Inv2 s' /\ Forall reg_obs os.
Proof.
  intros Hi H. destruct a as [i r|i|i|i]; cbn in H;
    destruct (nth_error (st_clients s) i) as [c|] eqn:Ei; try discriminate.
  - destruct (c_alive c && is_idle (c_pc c)); [|discriminate]. injection H as <- <-. split; [|constructor].
    intros j c0 Hj. cbn in Hj. rewrite nth_error_upd, Ei in Hj. destruct (Nat.eqb i j).
    + injection Hj as <-. apply del_ok_start. eapply Hi. exact Ei.
    + eapply Hi. exact Hj.
  - destruct (c_alive c); [|discriminate].
    destruct (client_step i (st_zk s) c) as [[[t' c'] o]|] eqn:Ec; [|discriminate]. injection H as <- <-.
    destruct (client_step_del _ _ _ _ _ _ (Hi _ _ Ei) Ec) as [Hd Ho].
    split; [|constructor; [exact Ho | constructor]].
    intros j c0 Hj. cbn in Hj. rewrite nth_error_upd, Ei in Hj. destruct (Nat.eqb i j).
    + injection Hj as <-. exact Hd.
    + eapply Hi. exact Hj.
  - destruct (c_alive c); [|discriminate]. injection H as <- <-. split; [|constructor].
    intros j c0 Hj. cbn in Hj. rewrite nth_error_upd, Ei in Hj. destruct (Nat.eqb i j).
    + injection Hj as <-. exact (Hi _ _ Ei).
    + eapply Hi. exact Hj.
  - destruct (c_alive c); [discriminate|]. injection H as <- <-. split; [|constructor].
    intros j c0 Hj. cbn in Hj. rewrite nth_error_upd, Ei in Hj. destruct (Nat.eqb i j).
    + injection Hj as <-. split; [reflexivity | exact I].
    + eapply Hi. exact Hj.
Qed.

Lemma run_inv2 acts : forall s s' os, Inv2 s -> run s acts = Some (s', os) -> Inv2 s' /\ Forall reg_obs os.
Proof.
  induction acts as [|a acts IH]; intros s s' os Hi H; cbn in H.
  - injection H as <- <-. split; [exact Hi | constructor].
  - destruct (step s a) as [[s1 o1]|] eqn:E1; [|discriminate].
    destruct (run s1 acts) as [[s2 o2]|] eqn:E2; [|discriminate]. injection H as <- <-.
    destruct (step_inv2 _ _ _ _ Hi E1) as [Hi1 Ho1]. destruct (IH _ _ _ Hi1 E2) as [Hi2 Ho2].
    split; [exact Hi2 | apply Forall_app; split; assumption].
Qed.

Lemma wf_init_Inv2 s : wf_init s = true -> Inv2 s.
Proof.
  unfold wf_init. intros H. apply andb_true_iff in H as [_ H2]. rewrite forallb_forall in H2.
  intros j c Hj. apply nth_error_In in Hj. specialize (H2 _ Hj).
  apply andb_true_iff in H2 as [H2 H3]. apply andb_true_iff in H2 as [_ H2].
  split; [exact H3|]. destruct (c_pc c); cbn in H2; try discriminate. exact I.
Qed.

(** * Statements used by Props/C17.v *)
Lemma thm_safe s acts s' os : wf_init s = true -> run s acts = Some (s', os) -> Forall safe_obs os.
Proof. intros Hw Hr. exact (proj2 (run_inv acts s s' os (wf_init_Inv s Hw) Hr)). Qed.

Lemma thm_delete_own_only s acts s' os : wf_init s = true -> run s acts = Some (s', os) -> Forall reg_obs os.
Proof. intros Hw Hr. exact (proj2 (run_inv2 acts s s' os (wf_init_Inv2 s Hw) Hr)). Qed.

Lemma thm_reachable_inv s acts s' os : wf_init s = true -> run s acts = Some (s', os) -> Inv s' /\ Inv2 s'.
Proof.
  intros Hw Hr. split.
  - exact (proj1 (run_inv acts s s' os (wf_init_Inv s Hw) Hr)).
  - exact (proj1 (run_inv2 acts s s' os (wf_init_Inv2 s Hw) Hr)).
Qed.

Lemma thm_newer_kept s acts s' os j c app p rid1 rid2 :
  wf_init s = true -> run s acts = Some (s', os) -> nth_error (st_clients s') j = Some c ->
  pm_get (c_pmap c) app p = Some rid2 -> rid1 <> rid2 ->
  ~ In p (pm_paths (c_pmap c) app rid1) /\
  (forall rest q, c_pc (start c (RDelete rid1 app)) = PDelGet rid1 app q rest -> q <> p /\ ~ In p rest).
Proof.
  intros Hw Hr Hj Hg Hne. destruct (thm_reachable_inv _ _ _ _ Hw Hr) as [_ H2].
  destruct (H2 _ _ Hj) as [Hn _]. pose proof (pm_paths_other _ _ _ _ _ Hn Hg Hne) as Hp.
  split; [exact Hp|]. intros rest q Hs. cbn in Hs.
  destruct (pm_paths (c_pmap c) app rid1) as [|x l]; cbn in Hs; [discriminate|]. injection Hs as -> ->.
  split; [intros ->; apply Hp; left; reflexivity | intros Hin; apply Hp; right; exact Hin].
Qed.
