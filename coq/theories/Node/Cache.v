(** Model of the node's manifest cache writer:
      treadmill.eventmgr.EventMgr._synchronize / _cache / _cache_notify
      treadmill.fs.write_safe (as the list of system calls it issues)
      treadmill.zkutils.get / get_with_metadata (a ZooKeeper state is two finite maps).

    Nondeterminism is an input: the iteration order of the Python sets ([ord]), the random
    suffix of the temporary file, the point at which the stream buffer is flushed, the clock
    and the injected fault are supplied per instance by an oracle ([wspec]); the theorems
    quantify over every oracle.

    Executable definitions only; proofs are in Node/CacheP.v. *)
From Coq Require Import ZArith List Bool String Ascii.
From TM Require Import Node.Fs.
Import ListNotations.
Open Scope Z_scope.

(** * Manifests: Python dicts key -> value *)
Inductive val :=
| VId (z : Z)            (* any JSON value, identified by the harness's value table *)
| VStr (s : string).     (* a short string, kept literally (the task id) *)

Definition dict := list (Z * val).

Fixpoint d_get (m : dict) (k : Z) : option val :=
  match m with [] => None | (k', v) :: r => if Z.eqb k' k then Some v else d_get r k end.

(** d[k] = v : update keeps the position, a new key is appended *)
Fixpoint d_set (m : dict) (k : Z) (v : val) : dict :=
  match m with
  | [] => [(k, v)]
  | (k', w) :: r => if Z.eqb k' k then (k', v) :: r else (k', w) :: d_set r k v
  end.

(** d.update(other) *)
Fixpoint d_update (m other : dict) : dict :=
  match other with [] => m | (k, v) :: r => d_update (d_set m k v) r end.

(** key of manifest['task'] *)
Definition K_TASK : Z := 0.

(** yaml.dump sorts the keys; one token list per (key, value) *)
Fixpoint ins (k : Z) (v : val) (l : dict) : dict :=
  match l with
  | [] => [(k, v)]
  | (k', v') :: r => if Z.leb k k' then (k, v) :: l else (k', v') :: ins k v r
  end.
Definition sortd (m : dict) : dict := fold_right (fun kv acc => ins (fst kv) (snd kv) acc) [] m.

Definition flat_val (v : val) : list Z :=
  match v with
  | VId z => [1; z]
  | VStr s => 2 :: Z.of_nat (String.length s)
                :: map (fun a => Z.of_nat (nat_of_ascii a)) (list_ascii_of_string s)
  end.
Definition dump (m : dict) : content := flat_map (fun kv => fst kv :: flat_val (snd kv)) (sortd m).

(** app[app.index('#') + 1:]   ([None] = ValueError) *)
Fixpoint after_hash (s : string) : option string :=
  match s with
  | EmptyString => None
  | String c r => if Ascii.eqb c "#"%char then Some r else after_hash r
  end.

(** * ZooKeeper state as seen by _cache *)
Record placement := { pl_data : option dict;   (* node payload: None = empty node *)
                      pl_ctime : Z }.          (* znode ctime, ms *)
Record zkst := { z_sched : list (name * dict);        (* /scheduled/<instance> *)
                 z_place : list (name * placement) }. (* /placement/<host>/<instance> *)

Fixpoint alookup {A : Type} (l : list (name * A)) (n : name) : option A :=
  match l with [] => None | (k, v) :: r => if String.eqb k n then Some v else alookup r n end.

(** * Source-derived constants (instantiated from Gen/Tables.v) *)
Record cfg := { c_pre : string;       (* write_safe prefix format '.%s-' : text before %s *)
                c_post : string;      (*                                   text after  %s *)
                c_ready : string }.   (* eventmgr.READY_FILE *)

(** tempfile.NamedTemporaryFile(prefix = pre + app + post): prefix + random suffix *)
Definition tmp_name (cf : cfg) (app sfx : string) : name :=
  (c_pre cf ++ app ++ c_post cf ++ sfx)%string.

(** * Per-write oracle *)
Record wspec := {
  w_sfx : string;                  (* random suffix chosen by tempfile *)
  w_pre : nat;                     (* tokens that reach the file before fchmod (buffer flushes) *)
  w_now : Z;                       (* clock: ctime of the new file *)
  w_fault : option (nat * bool)    (* (k, kill): k system calls happen, then the process is killed
                                      (kill = true) or the next call raises an exception *)
}.

(** the system calls of fs.write_safe(filename, func, prefix, mode='w', permission=0o644) *)
Definition write_safe_ops (tmp n : name) (c : content) (w : wspec) : list op :=
  [ OCreate tmp (w_now w);
    OAppend tmp (firstn (w_pre w) c);
    OChmod tmp;
    OAppend tmp (skipn (w_pre w) c);
    ORename tmp n;
    OUnlinkQ tmp ].

Inductive outcome := Done | Raised | Killed.

(** write_safe with its try/finally: an exception after the temporary file was created
    ([tmpfile is not None]) runs [rm_safe(tmpfile.name)]; a kill runs nothing more. *)
Definition write_safe (cf : cfg) (d : dir) (n : name) (c : content) (w : wspec) : dir * outcome :=
  let tmp := tmp_name cf n (w_sfx w) in
  let ops := write_safe_ops tmp n c w in
  match w_fault w with
  | Some (k, true) => (crash_at k ops d, Killed)
  | Some (k, false) =>
      let d1 := crash_at k ops d in
      (if Nat.leb 1 k then remove d1 tmp else d1, Raised)
  | None =>
      let '(d1, ok) := run_ops ops d in
      if ok then (d1, Done) else (d1, Raised)
  end.

(** manifest['task'] = ...; manifest.update(placement_data) *)
Definition merged (m : dict) (task : string) (p : placement) : dict :=
  let m1 := d_set m K_TASK (VStr task) in
  match pl_data p with None => m1 | Some pd => d_update m1 pd end.

(** manifest_time and manifest_time >= placement_time *)
Definition uptodate (d : dir) (a : name) (p : placement) : bool :=
  match lookup d a with
  | Some (File _ ct) => negb (Z.eqb ct 0) && Z.leb (pl_ctime p) ct
  | _ => false
  end.

(** EventMgr._cache(zkclient, app, check_existing) *)
Definition cache_one (cf : cfg) (z : zkst) (d : dir) (a : name) (check : bool) (w : wspec)
  : dir * outcome :=
  match alookup (z_place z) a with
  | None => (d, Done)                                   (* NoNodeError: placement not found *)
  | Some p =>
      if check && uptodate d a p then (d, Done)
      else match alookup (z_sched z) a with
           | None => (d, Done)                          (* NoNodeError: app not found *)
           | Some m =>
               match after_hash a with
               | None => (d, Raised)                    (* ValueError from app.index('#') *)
               | Some t => write_safe cf d a (dump (merged m t p)) w
               end
           end
  end.

Fixpoint cache_all (cf : cfg) (z : zkst) (check : bool) (orc : name -> wspec)
         (apps : list name) (d : dir) : dir * outcome :=
  match apps with
  | [] => (d, Done)
  | a :: r =>
      match cache_one cf z d a check (orc a) with
      | (d', Done) => cache_all cf z check orc r d'
      | res => res
      end
  end.

Fixpoint unlink_all (apps : list name) (d : dir) : dir * outcome :=
  match apps with
  | [] => (d, Done)
  | a :: r =>
      match apply_op (OUnlink a) d with
      | Some d' => unlink_all r d'
      | None => (d, Raised)
      end
  end.

(** iterate over the set [l] in the order recorded in [ord]; members [ord] does not mention follow *)
Definition arrange (ord l : list name) : list name :=
  filter (fun n => mem n l) (dedup ord) ++ filter (fun n => negb (mem n ord)) l.

Definition extra_of (d : dir) (expected : list name) : list name :=
  filter (fun n => negb (mem n expected)) (dedup (visible d)).
Definition missing_of (d : dir) (expected : list name) : list name :=
  filter (fun n => negb (mem n (visible d))) (dedup expected).
Definition existing_of (d : dir) (expected : list name) : list name :=
  filter (fun n => mem n expected) (dedup (visible d)).

(** EventMgr._synchronize(zkclient, expected, check_existing) *)
Definition synchronize (cf : cfg) (z : zkst) (d : dir) (expected : list name) (check : bool)
           (ord : list name) (orc : name -> wspec) : dir * outcome :=
  match unlink_all (arrange ord (extra_of d expected)) d with
  | (d1, Done) =>
      match cache_all cf z false orc (arrange ord (missing_of d expected)) d1 with
      | (d2, Done) =>
          if check then cache_all cf z true orc (arrange ord (existing_of d expected)) d2
          else (d2, Done)
      | res => res
      end
  | res => res
  end.

(** EventMgr._cache_notify(is_ready): open(ready_file, 'w') truncates / rm_safe *)
Definition cache_notify (cf : cfg) (d : dir) (is_ready : bool) (now : Z) : dir :=
  if is_ready then
    match lookup d (c_ready cf) with
    | Some (File _ t) => set d (c_ready cf) (File [] t)
    | _ => set d (c_ready cf) (File [] now)
    end
  else remove d (c_ready cf).

(** * Flattening for the correspondence check *)
Definition default_wspec : wspec := {| w_sfx := "x"; w_pre := 0; w_now := 1; w_fault := None |}.
Definition orc_of (l : list (name * wspec)) (n : name) : wspec :=
  match alookup l n with Some w => w | None => default_wspec end.

Record case := {
  k_dir : dir; k_zk : zkst; k_expected : list name; k_check : bool;
  k_ord : list name; k_orc : list (name * wspec);
  k_pre_notify : option bool; k_post_notify : option bool;
  k_report : list (name * bool)      (* names to report, with / without content *)
}.

Definition outcome_z (o : outcome) : Z := match o with Done => 0 | Raised => 1 | Killed => 2 end.

Definition flat_entry (d : dir) (nb : name * bool) : list Z :=
  match lookup d (fst nb) with
  | None => [0]
  | Some (Link _) => [2]
  | Some (File c _) => if snd nb then 1 :: Z.of_nat (List.length c) :: c else [1]
  end.

Definition notify_opt (cf : cfg) (d : dir) (o : option bool) : dir :=
  match o with Some b => cache_notify cf d b 1 | None => d end.

Definition run_case (cf : cfg) (k : case) : list Z :=
  let d0 := notify_opt cf (k_dir k) (k_pre_notify k) in
  let '(d1, o) := synchronize cf (k_zk k) d0 (k_expected k) (k_check k) (k_ord k) (orc_of (k_orc k)) in
  let d2 := notify_opt cf d1 (k_post_notify k) in
  outcome_z o :: Z.of_nat (List.length d2) :: flat_map (flat_entry d2) (k_report k).
