(** C16, third mechanism: runtime.allocate_network_ports (lib/python/treadmill/runtime/__init__.py:128-222).

    Executable model ONLY (no proofs here).

      _allocate_sockets(environment, host_ip, sock_type, count)
          pool   = range(PROD_PORT_LOW, PROD_PORT_HIGH + 1) if environment in ('uat', 'prod')
                   else range(NONPROD_PORT_LOW, NONPROD_PORT_HIGH + 1)            [pool_low / pool_high]
          sample = random.sample(pool, PORT_SPAN)                                  an INPUT of the model
          for real_port in sample:                                                 [alloc_loop]
              if len(sockets) == count: break
              bind; EADDRINUSE -> continue; else sockets.append
          else: raise ContainerSetupError('{len(sockets)} < {count}', PORTS)
      _allocate_network_ports_proto(host_ip, manifest, proto, so_type)             [allocate_proto]
      allocate_network_ports(host_ip, manifest)   tcp, then udp                    [allocate_network_ports]

    Inputs taken from the implementation (recorded nondeterminism / environment):
      - the list random.sample returns, one per protocol ([sample_ok]: without repetition, inside the pool);
      - the set of ports on which bind() fails with EADDRINUSE, one per socket type ([busy : Z -> bool]).
    Environments are codes: 0 dev, 1 qa, 2 uat, 3 prod, anything else = another string (non-prod pool).
    Protocols are codes: 0 = the endpoint has no 'proto' key (defaults to tcp), 1 tcp, 2 udp, other = other string. *)
From Coq Require Import ZArith List Bool.
Import ListNotations.
Open Scope Z_scope.

(** * The constants (regenerated from treadmill/iptables.py via treadmill/runtime/__init__.py) *)
Record ptables := {
  pt_prod_low : Z;
  pt_prod_high : Z;
  pt_nonprod_low : Z;
  pt_nonprod_high : Z;
  pt_span : Z
}.

Definition ENV_DEV : Z := 0.
Definition ENV_QA : Z := 1.
Definition ENV_UAT : Z := 2.
Definition ENV_PROD : Z := 3.

(** environment in ('uat', 'prod') *)
Definition is_prod_env (e : Z) : bool := (e =? ENV_UAT) || (e =? ENV_PROD).

Definition pool_low (T : ptables) (e : Z) : Z := if is_prod_env e then pt_prod_low T else pt_nonprod_low T.
Definition pool_high (T : ptables) (e : Z) : Z := if is_prod_env e then pt_prod_high T else pt_nonprod_high T.
Definition in_pool (T : ptables) (e : Z) (p : Z) : bool := (pool_low T e <=? p) && (p <=? pool_high T e).

(** what the code hands to random.sample: range(low, high + 1) and k = PORT_SPAN *)
Definition sample_request (T : ptables) (e : Z) : list Z := [pool_low T e; pool_high T e + 1; pt_span T].

(** the premise on the generated constants: both ranges are well-formed port ranges, they are disjoint, and
    random.sample(pool, PORT_SPAN) is possible (0 < PORT_SPAN <= pool size; otherwise ValueError) *)
Definition ports_tables_ok (T : ptables) : bool :=
  (0 <? pt_prod_low T) && (pt_prod_low T <=? pt_prod_high T) && (pt_prod_high T <=? 65535) &&
  (0 <? pt_nonprod_low T) && (pt_nonprod_low T <=? pt_nonprod_high T) && (pt_nonprod_high T <=? 65535) &&
  ((pt_prod_high T <? pt_nonprod_low T) || (pt_nonprod_high T <? pt_prod_low T)) &&
  (0 <? pt_span T) &&
  (pt_span T <=? pt_prod_high T - pt_prod_low T + 1) &&
  (pt_span T <=? pt_nonprod_high T - pt_nonprod_low T + 1).

(** * _allocate_sockets *)
Definition memz (p : Z) (l : list Z) : bool := existsb (Z.eqb p) l.

Fixpoint nodupb (l : list Z) : bool :=
  match l with
  | [] => true
  | x :: t => negb (memz x t) && nodupb t
  end.

(** what random.sample(pool, k) may return, as far as the theorems need it *)
Definition sample_ok (T : ptables) (e : Z) (sample : list Z) : Prop :=
  NoDup sample /\ Forall (fun p => in_pool T e p = true) sample.
Definition sample_okb (T : ptables) (e : Z) (sample : list Z) : bool :=
  nodupb sample && forallb (in_pool T e) sample.

(** the ports of the sample on which bind() succeeds, in sample order *)
Definition free (busy : Z -> bool) (sample : list Z) : list Z := filter (fun p => negb (busy p)) sample.

Inductive sres :=
  | SOk (ports : list Z)        (* the bound ports, in the order of [sockets] *)
  | SErr (got : list Z).        (* ContainerSetupError('{len got} < {count}'); [got] = what was bound by then *)

(** the loop, statement by statement: the length test comes FIRST in the body, the [else] of the [for] is
    reached whenever the sample runs out - even if the last append made len(sockets) == count *)
Fixpoint alloc_loop (busy : Z -> bool) (count : nat) (sample : list Z) (got : list Z) : sres :=
  match sample with
  | [] => SErr got
  | p :: rest =>
      if Nat.eqb (length got) count then SOk got
      else if busy p then alloc_loop busy count rest got
      else alloc_loop busy count rest (got ++ [p])
  end.

Definition allocate_sockets (busy : Z -> bool) (sample : list Z) (count : nat) : sres :=
  alloc_loop busy count sample [].

(** * _allocate_network_ports_proto *)
Definition P_ABSENT : Z := 0.
Definition P_TCP : Z := 1.
Definition P_UDP : Z := 2.

Record endpoint := {
  ep_name : Z;
  ep_proto : Z;                 (* 0 = no 'proto' key *)
  ep_port : Z;                  (* 0 = "same number inside and outside" *)
  ep_real : option Z            (* 'real_port' key *)
}.

(** ep.get('proto', 'tcp') == proto *)
Definition ep_proto_eff (e : endpoint) : Z := if ep_proto e =? P_ABSENT then P_TCP else ep_proto e.
Definition ep_matches (proto : Z) (e : endpoint) : bool := ep_proto_eff e =? proto.
Definition n_matching (proto : Z) (eps : list endpoint) : nat := length (filter (ep_matches proto) eps).

(** endpoint['real_port'] = p; if endpoint['port'] == 0: endpoint['port'] = p *)
Definition set_real (e : endpoint) (p : Z) : endpoint :=
  {| ep_name := ep_name e; ep_proto := ep_proto e;
     ep_port := if ep_port e =? 0 then p else ep_port e;
     ep_real := Some p |}.

(** for idx, endpoint in enumerate(endpoints): sock = sockets[idx] ...   (the filtered endpoints are the same
    objects as the manifest's, so the manifest's list is updated in place, in manifest order).  The [ [] ] branch
    is sockets[idx] out of range: never taken, _allocate_sockets returned endpoints_count + ephemeral_count *)
Fixpoint assign (proto : Z) (eps : list endpoint) (socks : list Z) : list endpoint :=
  match eps with
  | [] => []
  | e :: t =>
      if ep_matches proto e then
        match socks with
        | p :: ps => set_real e p :: assign proto t ps
        | [] => e :: t
        end
      else e :: assign proto t socks
  end.

Inductive pres :=
  | PErr (got : list Z)
  | POk (eps : list endpoint) (eph : list Z) (socks : list Z).
      (* endpoints after; manifest['ephemeral_ports'][proto] after; ports of the returned sockets *)

Definition allocate_proto (busy : Z -> bool) (sample : list Z) (proto : Z) (eps : list endpoint)
    (ephemeral_count : nat) : pres :=
  let n := n_matching proto eps in
  match allocate_sockets busy sample (n + ephemeral_count) with
  | SErr got => PErr got
  | SOk socks => POk (assign proto eps socks) (skipn n socks) socks
  end.

(** * allocate_network_ports *)
Record manifest := {
  m_env : Z;
  m_eps : list endpoint;
  m_eph_tcp : option nat;       (* manifest['ephemeral_ports'].get('tcp', 0): None = key absent *)
  m_eph_udp : option nat
}.

Definition ecount (c : option nat) : nat := match c with Some n => n | None => 0%nat end.

(** manifest['ephemeral_ports'][proto] afterwards: still the count (or absent), or the list of ports *)
Inductive ephv := EKeep (c : option nat) | EPorts (l : list Z).

Inductive outcome :=
  | OOk (tcp udp : list Z)      (* tcp_sockets + udp_sockets *)
  | OErrTcp (got : list Z)      (* raised in the tcp pass: the manifest is untouched *)
  | OErrUdp (got : list Z).     (* raised in the udp pass: the tcp part of the manifest is already written *)

Record result := {
  r_eps : list endpoint;
  r_eph_tcp : ephv;
  r_eph_udp : ephv;
  r_out : outcome
}.

(** the tcp pass binds SOCK_STREAM sockets, the udp pass SOCK_DGRAM sockets: two independent busy sets and two
    independent calls of random.sample *)
Definition allocate_network_ports (m : manifest) (samp_tcp samp_udp : list Z) (busy_tcp busy_udp : Z -> bool)
    : result :=
  match allocate_proto busy_tcp samp_tcp P_TCP (m_eps m) (ecount (m_eph_tcp m)) with
  | PErr got =>
      {| r_eps := m_eps m; r_eph_tcp := EKeep (m_eph_tcp m); r_eph_udp := EKeep (m_eph_udp m);
         r_out := OErrTcp got |}
  | POk eps1 eph1 socks1 =>
      match allocate_proto busy_udp samp_udp P_UDP eps1 (ecount (m_eph_udp m)) with
      | PErr got =>
          {| r_eps := eps1; r_eph_tcp := EPorts eph1; r_eph_udp := EKeep (m_eph_udp m);
             r_out := OErrUdp got |}
      | POk eps2 eph2 socks2 =>
          {| r_eps := eps2; r_eph_tcp := EPorts eph1; r_eph_udp := EPorts eph2; r_out := OOk socks1 socks2 |}
      end
  end.

(** the real ports a result registers for one protocol: endpoints of that protocol, then the ephemeral ones *)
Definition real_ports (proto : Z) (eps : list endpoint) : list (option Z) :=
  map ep_real (filter (ep_matches proto) eps).
