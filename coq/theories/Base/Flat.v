(** Correspondence plumbing: model observables are flattened to [list Z] so that the
    harness can embed the implementation's observables as a literal and let Coq
    report the indices of the cases on which model and implementation differ. *)
From Coq Require Import ZArith List Bool.
Import ListNotations.
Open Scope Z_scope.

Fixpoint zlist_eqb (a b : list Z) : bool :=
  match a, b with
  | [], [] => true
  | x :: a', y :: b' => Z.eqb x y && zlist_eqb a' b'
  | _, _ => false
  end.

Lemma zlist_eqb_eq a b : zlist_eqb a b = true <-> a = b.
Proof.
  revert b; induction a as [|x a IH]; intros [|y b]; cbn; split; intros H; try congruence; try discriminate.
  - apply andb_true_iff in H as [H1 H2]. apply Z.eqb_eq in H1. apply IH in H2. congruence.
  - inversion H; subst. rewrite Z.eqb_refl. cbn. apply IH. reflexivity.
Qed.

(** [mismatches run cases] = indices (from 0) of cases whose model output differs from the expected one *)
Fixpoint mismatches_from {I : Type} (run : I -> list Z) (i : nat) (cases : list (I * list Z)) : list nat :=
  match cases with
  | [] => []
  | (inp, expd) :: t =>
      if zlist_eqb (run inp) expd then mismatches_from run (S i) t
      else i :: mismatches_from run (S i) t
  end.
Definition mismatches {I : Type} (run : I -> list Z) cases := mismatches_from run 0%nat cases.

Definition zb (b : bool) : Z := if b then 1 else 0.
Definition zopt (o : option Z) : list Z := match o with None => [0] | Some z => [1; z] end.
Definition zlen {A} (l : list A) : Z := Z.of_nat (length l).
