(** lib/python/treadmill/zkutils.py (_payload, create, put, update, get, get_default, ensure_exists, ensure_deleted)
    and scheduler/zkbackend.py (ZkReadonlyBackend, ZkBackend) over a model of a ZooKeeper tree.  Executable model
    only; proofs are in Store/ZkUtilsP.v.

    Layers, bottom up:
      srv_*   the ZooKeeper server's handling of one request (create / setData / getData / exists / delete /
              getChildren / setACL): the error codes and their order, the data version, the parent's child version
              (cversion), which is the counter of sequence nodes
      k_*     kazoo.client.KazooClient: create(makepath=True) = create; on NoNodeError ensure_path(parent), create again
      c_*     treadmill.zkutils.ZkClient: create / set_acls add the default ACL once more
      zu_*    the zkutils functions, statement by statement, result-or-exception and new tree
      bk_* / ro_*  ZkBackend / ZkReadonlyBackend

    A path is its list of segments, a segment the list of its character codes ("/a/b" = [[97];[98]], "/" = []); a
    sequence create of ".../name" makes ".../name" ++ the ten decimal digits of the parent's cversion.  An ACL is the
    list of the perms bytes of its entries (every make_*_acl of ZkClient is world:anyone with some perms).
    Payloads are byte lists; the text encoder of _payload (str.encode / json.dumps(sort_keys=True).encode) is the
    parameter [enc]. *)
From Coq Require Import ZArith List Bool.
Import ListNotations.
Open Scope Z_scope.

Definition seg := list Z.
Definition path := list seg.

Fixpoint zl_eqb (a b : list Z) : bool :=
  match a, b with
  | [], [] => true
  | x :: a', y :: b' => Z.eqb x y && zl_eqb a' b'
  | _, _ => false
  end.

Fixpoint path_eqb (a b : path) : bool :=
  match a, b with
  | [], [] => true
  | x :: a', y :: b' => zl_eqb x y && path_eqb a' b'
  | _, _ => false
  end.

(** [prefixb p q]: p is a prefix of q (q = p or q is a descendant of p) *)
Fixpoint prefixb (p q : path) : bool :=
  match p, q with
  | [], _ => true
  | x :: p', y :: q' => zl_eqb x y && prefixb p' q'
  | _ :: _, [] => false
  end.

Record node := { n_data : list Z; n_eph : bool; n_ver : Z; n_acl : list Z }.

(** the node table and, separately, the child version (cversion) of every node (0 when not listed) *)
Record tree := { nodes : list (path * node); cvs : list (path * Z) }.

Fixpoint lookup {A} (p : path) (l : list (path * A)) : option A :=
  match l with
  | [] => None
  | (q, a) :: r => if path_eqb q p then Some a else lookup p r
  end.

(** replace in place, else append: the order of the table is the order of creation *)
Fixpoint upsert {A} (p : path) (a : A) (l : list (path * A)) : list (path * A) :=
  match l with
  | [] => [(p, a)]
  | (q, b) :: r => if path_eqb q p then (p, a) :: r else (q, b) :: upsert p a r
  end.

Definition del_where {A} (f : path -> bool) (l : list (path * A)) : list (path * A) :=
  filter (fun e => negb (f (fst e))) l.

(** "/" always exists *)
Definition root0 : node := {| n_data := []; n_eph := false; n_ver := 0; n_acl := [31] |}.

Definition find (N : list (path * node)) (p : path) : option node :=
  match lookup p N with
  | Some n => Some n
  | None => match p with [] => Some root0 | _ => None end
  end.

Definition has (N : list (path * node)) (p : path) : bool :=
  match find N p with Some _ => true | None => false end.

Definition cv_of (C : list (path * Z)) (p : path) : Z :=
  match lookup p C with Some z => z | None => 0 end.

Definition is_child (p q : path) : bool :=
  match q with [] => false | _ => path_eqb (removelast q) p end.

(** child names in table order *)
Definition children (N : list (path * node)) (p : path) : list seg :=
  map (fun e => last (fst e) []) (filter (fun e => is_child p (fst e)) N).

(** "%010d" *)
Fixpoint digs (k : nat) (z : Z) (acc : list Z) : list Z :=
  match k with
  | O => acc
  | S k' => digs k' (z / 10) ((48 + z mod 10) :: acc)
  end.
Definition digits10 (z : Z) : list Z := digs 10 z [].

Inductive exn := ENoNode | ENodeExists | ENotEmpty | ENoChildEph | EBadArg | EObjNotFound | EFuel.

Inductive res :=
| RNone                              (* None *)
| RTrue
| RPath (p : path)                   (* the (real) path *)
| RData (d : list Z) (ver : Z)       (* (data, stat) *)
| RBool (b : bool)                   (* exists: stat / None *)
| RList (l : list seg)
| RDefault
| RExn (e : exn).

Definition mknode (v : list Z) (eph : bool) (acl : list Z) : node :=
  {| n_data := v; n_eph := eph; n_ver := 0; n_acl := acl |}.

(* ------------------------------------------------------------------ the server *)

(** create: parent missing -> NoNode; (sequence: name ++ "%010d" % parent.cversion); exists -> NodeExists; parent
    ephemeral -> NoChildrenForEphemerals; else the node, and parent.cversion + 1 *)
Definition seq_name (p : path) (c : Z) : path := removelast p ++ [last p [] ++ digits10 c].

Definition srv_create (t : tree) (p : path) (v : list Z) (acl : list Z) (eph sequ : bool) : res * tree :=
  let pa := removelast p in
  match find (nodes t) pa with
  | None => (RExn ENoNode, t)
  | Some pn =>
      let c := cv_of (cvs t) pa in
      let p' := if sequ then seq_name p c else p in
      if has (nodes t) p' then (RExn ENodeExists, t)
      else if n_eph pn then (RExn ENoChildEph, t)
      else (RPath p', {| nodes := upsert p' (mknode v eph acl) (nodes t);
                         cvs := upsert p' 0 (upsert pa (c + 1) (cvs t)) |})
  end.

Definition srv_set (t : tree) (p : path) (v : list Z) : res * tree :=
  match find (nodes t) p with
  | None => (RExn ENoNode, t)
  | Some n => (RTrue, {| nodes := upsert p {| n_data := v; n_eph := n_eph n; n_ver := n_ver n + 1; n_acl := n_acl n |}
                                    (nodes t);
                         cvs := cvs t |})
  end.

Definition srv_set_acls (t : tree) (p : path) (acl : list Z) : res * tree :=
  match find (nodes t) p with
  | None => (RExn ENoNode, t)
  | Some n => (RTrue, {| nodes := upsert p {| n_data := n_data n; n_eph := n_eph n; n_ver := n_ver n; n_acl := acl |}
                                    (nodes t);
                         cvs := cvs t |})
  end.

Definition srv_get (t : tree) (p : path) : res :=
  match find (nodes t) p with
  | None => RExn ENoNode
  | Some n => RData (n_data n) (n_ver n)
  end.

Definition srv_exists (t : tree) (p : path) : res := RBool (has (nodes t) p).

Definition srv_children (t : tree) (p : path) : res :=
  match find (nodes t) p with
  | None => RExn ENoNode
  | Some _ => RList (children (nodes t) p)
  end.

Definition srv_delete (t : tree) (p : path) : res * tree :=
  match p with
  | [] => (RExn EBadArg, t)
  | _ =>
      match find (nodes t) p with
      | None => (RExn ENoNode, t)
      | Some _ =>
          match children (nodes t) p with
          | _ :: _ => (RExn ENotEmpty, t)
          | [] => (RTrue, {| nodes := del_where (path_eqb p) (nodes t);
                             cvs := upsert (removelast p) (cv_of (cvs t) (removelast p) + 1)
                                      (del_where (path_eqb p) (cvs t)) |})
          end
      end
  end.

(* ------------------------------------------------------------------ kazoo.client.KazooClient *)

(** the non-empty prefixes of a path, shortest first *)
Fixpoint prefixes_from (acc p : path) : list path :=
  match p with
  | [] => []
  | s :: r => (acc ++ [s]) :: prefixes_from (acc ++ [s]) r
  end.
Definition prefixes (p : path) : list path := prefixes_from [] p.

(** ensure_path: top down, exists? else create(path, b"", acl) *)
Fixpoint ens_path (qs : list path) (acl : list Z) (t : tree) : option exn * tree :=
  match qs with
  | [] => (None, t)
  | q :: r =>
      if has (nodes t) q then ens_path r acl t
      else match srv_create t q [] acl false false with
           | (RExn ENodeExists, t') => ens_path r acl t'
           | (RExn e, t') => (Some e, t')
           | (_, t') => ens_path r acl t'
           end
  end.

Definition k_create (t : tree) (p : path) (v : list Z) (acl : list Z) (eph sequ makepath : bool) : res * tree :=
  match srv_create t p v acl eph sequ with
  | (RExn ENoNode, _) =>
      if makepath then
        match ens_path (prefixes (removelast p)) acl t with
        | (Some e, t') => (RExn e, t')
        | (None, t') => srv_create t' p v acl eph sequ
        end
      else (RExn ENoNode, t)
  | x => x
  end.

(* ------------------------------------------------------------------ zkutils.ZkClient *)

(** make_default_acl: readers r, admin rwcda, self rwcda - all world:anyone - then the given ones *)
Definition dflt_acl : list Z := [1; 31; 31].
Definition mk_default (acl : option (list Z)) : list Z :=
  dflt_acl ++ match acl with Some l => l | None => [] end.

Definition c_create (t : tree) (p : path) (v : list Z) (acl : option (list Z)) (eph sequ makepath : bool) :=
  k_create t p v (mk_default acl) eph sequ makepath.
Definition c_set_acls (t : tree) (p : path) (acl : option (list Z)) := srv_set_acls t p (mk_default acl).

(* ------------------------------------------------------------------ zkutils *)

Inductive pyval := PNone | PBytes (b : list Z) | POther (x : list Z).

Definition payload (enc : list Z -> list Z) (d : pyval) : list Z :=
  match d with
  | PNone => []
  | PBytes b => b
  | POther x => enc x
  end.

Definition realacl (default_acl : bool) (acl : option (list Z)) : option (list Z) :=
  if default_acl then Some (mk_default acl) else acl.

Definition zu_create enc (t : tree) (p : path) (d : pyval) (acl : option (list Z)) (sequ default_acl eph : bool)
  : res * tree :=
  c_create t p (payload enc d) (realacl default_acl acl) eph sequ true.

(** the tail of put's except branch: set, set_acls, return path *)
Definition set_and_acl (t : tree) (p : path) (pl : list Z) (ra : option (list Z)) : res * tree :=
  match srv_set t p pl with
  | (RExn e, t2) => (RExn e, t2)
  | (_, t2) =>
      match c_set_acls t2 p ra with
      | (RExn e, t3) => (RExn e, t3)
      | (_, t3) => (RPath p, t3)
      end
  end.

Definition zu_put enc (t : tree) (p : path) (d : pyval) (acl : option (list Z))
           (sequ default_acl eph check_content : bool) : res * tree :=
  let pl := payload enc d in
  let ra := realacl default_acl acl in
  match c_create t p pl ra eph sequ true with
  | (RExn ENodeExists, t1) =>
      if check_content then
        match srv_get t1 p with
        | RData cur _ => if zl_eqb cur pl then (RNone, t1) else set_and_acl t1 p pl ra
        | RExn e => (RExn e, t1)
        | _ => set_and_acl t1 p pl ra
        end
      else set_and_acl t1 p pl ra
  | x => x
  end.

Definition zu_update enc (t : tree) (p : path) (d : pyval) (check_content : bool) : res * tree :=
  let pl := payload enc d in
  let tail := match srv_set t p pl with
              | (RExn e, t') => (RExn e, t')
              | (_, t') => (RPath p, t')
              end in
  if check_content then
    match srv_get t p with
    | RData cur _ => if zl_eqb cur pl then (RNone, t) else tail
    | RExn e => (RExn e, t)
    | _ => tail
    end
  else tail.

(** get / get_with_metadata: the stored bytes (decoding them is the codec's business, C15) *)
Definition zu_get (t : tree) (p : path) : res := srv_get t p.
Definition zu_get_default (t : tree) (p : path) : res :=
  match zu_get t p with
  | RExn ENoNode => RDefault
  | x => x
  end.

Definition is_none (d : pyval) : bool := match d with PNone => true | _ => false end.

Definition zu_ensure_exists enc (t : tree) (p : path) (acl : option (list Z)) (sequ : bool) (d : pyval)
  : res * tree :=
  let ra := Some (mk_default acl) in
  match c_create t p (payload enc d) ra false sequ true with
  | (RExn ENodeExists, t1) =>
      let st := if is_none d then (RTrue, t1) else srv_set t1 p (payload enc d) in
      match st with
      | (RExn e, t2) => (RExn e, t2)
      | (_, t2) =>
          match c_set_acls t2 p ra with
          | (RExn e, t3) => (RExn e, t3)
          | (_, t3) => (RPath p, t3)
          end
      end
  | x => x
  end.

(** delete with NoNodeError caught *)
Definition del_quiet (t : tree) (p : path) : res * tree :=
  match srv_delete t p with
  | (RExn ENoNode, t') => (RNone, t')
  | (RExn e, t') => (RExn e, t')
  | (_, t') => (RNone, t')
  end.

(** ensure_deleted(recursive=True): children first (each by a recursive call), then the node; NoNodeError of
    get_children / delete is caught at the level where it is raised.  Explicit fuel (the recursion depth). *)
Fixpoint ens_del (fuel : nat) (t : tree) (p : path) : res * tree :=
  match fuel with
  | O => (RExn EFuel, t)
  | S k =>
      match find (nodes t) p with
      | None => (RNone, t)
      | Some _ =>
          match fold_left (fun (acc : res * tree) c =>
                             match fst acc with
                             | RExn _ => acc
                             | _ => ens_del k (snd acc) (p ++ [c])
                             end) (children (nodes t) p) (RNone, t) with
          | (RExn e, t') => (RExn e, t')
          | (_, t') => del_quiet t' p
          end
      end
  end.

Fixpoint maxlen (N : list (path * node)) : nat :=
  match N with
  | [] => O
  | (q, _) :: r => Nat.max (length q) (maxlen r)
  end.

Definition zu_ensure_deleted (t : tree) (p : path) (recursive : bool) : res * tree :=
  if recursive then ens_del (S (maxlen (nodes t))) t p else del_quiet t p.

(* ------------------------------------------------------------------ scheduler/zkbackend.py *)

(** ZkBackend; [aclf] is ZkBackend._acl *)
Definition nf (r : res) : res := match r with RExn ENoNode => RExn EObjNotFound | x => x end.

Definition bk_put enc (aclf : path -> option (list Z)) (t : tree) (p : path) (d : pyval) : res * tree :=
  zu_put enc t p d (aclf p) false true false false.
Definition bk_ensure_exists enc (aclf : path -> option (list Z)) (t : tree) (p : path) : res * tree :=
  zu_ensure_exists enc t p (aclf p) false PNone.
Definition bk_delete (t : tree) (p : path) : res * tree := zu_ensure_deleted t p true.
Definition bk_update enc (t : tree) (p : path) (d : pyval) (check_content : bool) : res * tree :=
  match zu_update enc t p d check_content with
  | (RExn ENoNode, t') => (RExn EObjNotFound, t')
  | (RExn e, t') => (RExn e, t')
  | (_, t') => (RNone, t')
  end.
Definition bk_get (t : tree) (p : path) : res := nf (zu_get t p).
Definition bk_get_default (t : tree) (p : path) : res := zu_get_default t p.
Definition bk_list (t : tree) (p : path) : res := nf (srv_children t p).
Definition bk_exists (t : tree) (p : path) : res := nf (srv_exists t p).

(** ZkReadonlyBackend: the four writers only log *)
Definition ro_put (t : tree) (p : path) (d : pyval) : res * tree := (RNone, t).
Definition ro_ensure_exists (t : tree) (p : path) : res * tree := (RNone, t).
Definition ro_delete (t : tree) (p : path) : res * tree := (RNone, t).
Definition ro_update (t : tree) (p : path) (d : pyval) (check_content : bool) : res * tree := (RNone, t).

(** the retry structure as data: (function, primitive that raises, exception) -> what follows
    0 = the exception propagates, 1 = zkclient.set (+ set_acls), 2 = return None, 3 = backend.ObjectNotFoundError,
    4 = the default *)
Definition retry_after (fn prim ex : Z) : Z :=
  (* fn: 1 create 2 put 3 update 4 get_default 5 ensure_exists 6 ensure_deleted 7 bk.update 8 bk.get 9 bk.list
     prim: 1 create 2 get 3 set 4 get_children 5 delete   ex: 1 NodeExists 2 NoNode 3 other *)
  match fn, prim, ex with
  | 2, 1, 1 => 1
  | 5, 1, 1 => 1
  | 4, 2, 2 => 4
  | 6, 4, 2 => 2
  | 6, 5, 2 => 2
  | 7, 2, 2 => 3
  | 7, 3, 2 => 3
  | 8, 2, 2 => 3
  | 9, 4, 2 => 3
  | _, _, _ => 0
  end.
