(** zkutils / ZkBackend correspondence runner: a case is a list of probe paths and a list of calls, executed from the
    empty tree; after every call the result-or-exception and the state of every probe path (and the number of nodes)
    are flattened to [list Z] exactly like harness/props/zkutilsstage.py flattens the implementation's. *)
From Coq Require Import ZArith List Bool.
From TM Require Import Store.ZkUtils.
Import ListNotations.
Open Scope Z_scope.

Definition oacl := option (list Z).

Inductive op :=
| ORaw (p : path) (v : list Z) (acl : oacl) (eph sequ makepath : bool)     (* zkclient.create *)
| OCreate (p : path) (d : pyval) (acl : oacl) (sequ dflt eph : bool)
| OPut (p : path) (d : pyval) (acl : oacl) (sequ dflt eph chk : bool)
| OUpdate (p : path) (d : pyval) (chk : bool)
| OGet (p : path)
| OGetDefault (p : path)
| OEnsureExists (p : path) (acl : oacl) (sequ : bool) (d : pyval)
| OEnsureDeleted (p : path) (recursive : bool)
| OBkPut (p : path) (d : pyval) (acl : oacl)          (* acl = what ZkBackend._acl(path) is for this path *)
| OBkEnsure (p : path) (acl : oacl)
| OBkDelete (p : path)
| OBkUpdate (p : path) (d : pyval) (chk : bool)
| OBkGet (p : path)
| OBkGetDefault (p : path)
| OBkList (p : path)
| OBkExists (p : path)
| ORoPut (p : path) (d : pyval)
| ORoEnsure (p : path)
| ORoDelete (p : path)
| ORoUpdate (p : path) (d : pyval) (chk : bool).

Definition enc0 (x : list Z) : list Z := x.

Definition step (t : tree) (o : op) : res * tree :=
  match o with
  | ORaw p v acl eph sequ mk => c_create t p v acl eph sequ mk
  | OCreate p d acl sequ dflt eph => zu_create enc0 t p d acl sequ dflt eph
  | OPut p d acl sequ dflt eph chk => zu_put enc0 t p d acl sequ dflt eph chk
  | OUpdate p d chk => zu_update enc0 t p d chk
  | OGet p => (zu_get t p, t)
  | OGetDefault p => (zu_get_default t p, t)
  | OEnsureExists p acl sequ d => zu_ensure_exists enc0 t p acl sequ d
  | OEnsureDeleted p r => zu_ensure_deleted t p r
  | OBkPut p d acl => bk_put enc0 (fun _ => acl) t p d
  | OBkEnsure p acl => bk_ensure_exists enc0 (fun _ => acl) t p
  | OBkDelete p => bk_delete t p
  | OBkUpdate p d chk => bk_update enc0 t p d chk
  | OBkGet p => (bk_get t p, t)
  | OBkGetDefault p => (bk_get_default t p, t)
  | OBkList p => (bk_list t p, t)
  | OBkExists p => (bk_exists t p, t)
  | ORoPut p d => ro_put t p d
  | ORoEnsure p => ro_ensure_exists t p
  | ORoDelete p => ro_delete t p
  | ORoUpdate p d chk => ro_update t p d chk
  end.

Definition zn (n : nat) : Z := Z.of_nat n.
Definition fseg (s : seg) : list Z := zn (length s) :: s.
Definition fpath (p : path) : list Z := zn (length p) :: flat_map fseg p.
Definition zbool (b : bool) : Z := if b then 1 else 0.
Definition exn_code (e : exn) : Z :=
  match e with
  | ENoNode => 1 | ENodeExists => 2 | ENotEmpty => 3 | ENoChildEph => 4 | EBadArg => 5 | EObjNotFound => 6
  | EFuel => 99
  end.
Definition fres (r : res) : list Z :=
  match r with
  | RNone => [0]
  | RTrue => [1]
  | RPath p => 2 :: fpath p
  | RData d v => 3 :: v :: fseg d
  | RBool b => [4; zbool b]
  | RList l => 5 :: zn (length l) :: flat_map fseg l
  | RDefault => [6]
  | RExn e => [7; exn_code e]
  end.
Definition fnode (t : tree) (q : path) : list Z :=
  match find (nodes t) q with
  | None => [0]
  | Some n => [1; zbool (n_eph n); n_ver n; cv_of (cvs t) q] ++ fseg (n_acl n) ++ fseg (n_data n)
  end.

Fixpoint run_ops (probes : list path) (t : tree) (ops : list op) : list Z :=
  match ops with
  | [] => []
  | o :: r =>
      let '(x, t') := step t o in
      fres x ++ zn (length (nodes t')) :: flat_map (fnode t') probes ++ run_ops probes t' r
  end.

Definition empty_tree : tree := {| nodes := []; cvs := [] |}.
Definition run_case (c : list path * list op) : list Z := run_ops (fst c) empty_tree (snd c).
